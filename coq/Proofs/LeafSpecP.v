(* C07 -- the code-shaped models of Model/Leaves.v compute the documented functions of
   Model/Spec.v, at the reals ([ROps]), for ALL real arguments and all valid parameters. *)
From Coq Require Import Reals List ZArith Bool Lra Lia Psatz Sorted.
From Coquelicot Require Import Coquelicot.
From FJ Require Import Model.Num Proofs.RNum Model.Leaves Model.Spec Proofs.RqsCoreP.
Import ListNotations.
Open Scope R_scope.

(* reduce the NumOps projections at ROps to the real operations *)
Ltac rops := cbn [n_add n_sub n_mul n_div n_neg n_abs n_sign n_exp n_log n_tanh n_atanh n_softplus
                  n_log1p n_expm1 n_sqrt n_pi n_leb n_ltb n_eqb n_ofZ ROps ROpsG Num.c] in *.

(* ====================================================================================== *)
(** * Affine, Loc, Scale, Exp, SoftPlus                                                    *)
(* ====================================================================================== *)
Lemma affine_is_spec loc scale x : affine_fwd ROps loc scale x = scale * x + loc.
Proof. unfold affine_fwd; rops. ring. Qed.
Lemma affine_is_spec' loc scale x : affine_fwd ROps loc scale x = spec_affine ROps loc scale x.
Proof. unfold affine_fwd, spec_affine; rops. ring. Qed.
Lemma loc_is_spec loc x : loc_fwd ROps loc x = x + loc.
Proof. reflexivity. Qed.
Lemma scale_is_spec scale x : scale_fwd ROps scale x = scale * x.
Proof. unfold scale_fwd; rops. ring. Qed.
(* the documented inverse directions, with the guard the division needs *)
Lemma affine_inv_is_spec loc scale y : scale <> 0 -> scale * affine_inv ROps loc scale y + loc = y.
Proof. intros H. unfold affine_inv; rops. field. exact H. Qed.
Lemma scale_inv_is_spec scale y : scale <> 0 -> scale * scale_inv ROps scale y = y.
Proof. intros H. unfold scale_inv; rops. field. exact H. Qed.

Lemma exp_is_spec x : exp_fwd ROps x = exp x.
Proof. reflexivity. Qed.
Lemma exp_inv_is_spec y : 0 < y -> exp (exp_inv ROps y) = y.
Proof. intros H. unfold exp_inv; rops. now apply exp_ln. Qed.
Lemma softplus_is_spec x : softplus_fwd ROps x = ln (1 + exp x).
Proof. reflexivity. Qed.
Lemma softplus_is_spec' x : softplus_fwd ROps x = spec_softplus ROps x.
Proof. reflexivity. Qed.

(* SoftPlus.inverse is written  log(-expm1(-y)) + y ; it is the closed form  log(e^y - 1) *)
Lemma softplus_inverse_is_spec y : 0 < y -> softplus_inv ROps y = ln (exp y - 1).
Proof.
  intros Hy. unfold softplus_inv; rops.
  assert (He : 1 < exp y) by (rewrite <- exp_0; apply exp_increasing, Hy).
  pose proof (exp_pos y) as Hp.
  assert (Hm : 0 < - (exp (- y) - 1)).
  { rewrite exp_Ropp. assert (/ exp y < 1) by (rewrite <- Rinv_1; apply Rinv_lt_contravar; lra). lra. }
  rewrite <- (ln_exp y) at 2. rewrite <- ln_mult by assumption. f_equal.
  rewrite exp_Ropp. field. lra.
Qed.
Lemma softplus_inverse_is_spec' y : 0 < y -> softplus_inv ROps y = spec_softplus_inv ROps y.
Proof. exact (softplus_inverse_is_spec y). Qed.
(* ... and it does invert the documented softplus *)
Lemma softplus_inverse_inverts y : 0 < y -> ln (1 + exp (softplus_inv ROps y)) = y.
Proof.
  intros Hy. rewrite softplus_inverse_is_spec by exact Hy.
  assert (He : 1 < exp y) by (rewrite <- exp_0; apply exp_increasing, Hy).
  rewrite exp_ln by lra. replace (1 + (exp y - 1)) with (exp y) by ring. apply ln_exp.
Qed.

(* ====================================================================================== *)
(** * Tanh: the model's primitive [th] is the hyperbolic tangent sinh/cosh                 *)
(* ====================================================================================== *)
Lemma th_tanh x : th x = tanh x.
Proof.
  unfold th, tanh, sinh, cosh.
  replace (exp (2*x)) with (exp x * exp x) by (rewrite <- exp_plus; f_equal; ring).
  rewrite exp_Ropp. pose proof (exp_pos x) as H.
  field. split; nra.
Qed.
Lemma spec_tanh_R x : spec_tanh ROps x = tanh x.
Proof. reflexivity. Qed.
Lemma tanh_is_spec x : tanh_fwd ROps x = tanh x.
Proof. apply th_tanh. Qed.
Lemma tanh_is_spec' x : tanh_fwd ROps x = spec_tanh ROps x.
Proof. apply th_tanh. Qed.

Lemma th_incr x y : x < y -> th x < th y.
Proof.
  intros H. unfold th.
  assert (exp (2*x) < exp (2*y)) by (apply exp_increasing; lra).
  pose proof (exp_pos (2*x)). pose proof (exp_pos (2*y)).
  apply Rplus_lt_compat_l, Ropp_lt_contravar.
  unfold Rdiv. apply Rmult_lt_compat_l; [lra|].
  apply Rinv_lt_contravar; [nra | lra].
Qed.
Lemma th_bounds x : -1 < th x < 1.
Proof.
  unfold th. pose proof (exp_pos (2*x)) as H.
  assert (0 < 2 / (exp (2*x) + 1) < 2).
  { split. apply Rdiv_lt_0_compat; lra.
    apply Rmult_lt_reg_r with (exp (2*x) + 1); [lra|]. field_simplify; lra. }
  lra.
Qed.
Lemma th_odd x : th (-x) = - th x.
Proof. unfold th. replace (2 * - x) with (- (2*x)) by ring. rewrite exp_Ropp.
  pose proof (exp_pos (2*x)). field. split; lra. Qed.
Lemma th_0 : th 0 = 0.
Proof. unfold th. rewrite Rmult_0_r, exp_0. lra. Qed.
Lemma tanh_odd x : tanh (-x) = - tanh x.
Proof. rewrite <- !th_tanh. apply th_odd. Qed.
Lemma tanh_bounds x : -1 < tanh x < 1.
Proof. rewrite <- th_tanh. apply th_bounds. Qed.

(* the derivative of tanh is 1 - tanh^2 *)
Lemma th_is_derive x : is_derive th x (1 - th x * th x).
Proof.
  unfold th. pose proof (exp_pos (2*x)) as H. auto_derive; [lra|]. field. lra.
Qed.
Lemma tanh_is_derive x : is_derive tanh x (1 - tanh x * tanh x).
Proof.
  rewrite <- th_tanh. apply (is_derive_ext th); [intros t; apply th_tanh|]. apply th_is_derive.
Qed.

(* _tanh_log_grad(x) = -2 (x + softplus(-2x) - log 2) is the log of that derivative *)
Lemma tanh_grad_pos x : 0 < 1 - tanh x * tanh x.
Proof. pose proof (tanh_bounds x). nra. Qed.
Lemma tanh_log_grad_spec x : tanh_log_grad ROps x = ln (1 - tanh x * tanh x).
Proof.
  unfold tanh_log_grad; rops. rewrite <- th_tanh. unfold th.
  set (E := exp (2 * x)). assert (HE : 0 < E) by apply exp_pos.
  replace (exp (-2 * x)) with (/ E) by (unfold E; rewrite <- exp_Ropp; f_equal; ring).
  replace (1 + / E) with ((E + 1) / E) by (field; lra).
  replace (1 - (1 - 2 / (E + 1)) * (1 - 2 / (E + 1))) with ((2 * 2) * E / ((E + 1) * (E + 1))) by (field; lra).
  assert (HE1 : 0 < E + 1) by lra.
  rewrite (ln_div (E + 1) E) by lra.
  rewrite (ln_div (2 * 2 * E)) by nra.
  rewrite (ln_mult (2 * 2) E) by lra. rewrite (ln_mult 2 2) by lra.
  rewrite (ln_mult (E + 1) (E + 1)) by lra.
  unfold E. rewrite ln_exp. ring.
Qed.

(* ====================================================================================== *)
(** * LeakyTanh                                                                            *)
(* ====================================================================================== *)
(* the constructor's linear_grad is the slope of tanh at max_val *)
Lemma leaky_grad_spec m : leaky_grad ROps m = 1 - tanh m * tanh m.
Proof. unfold leaky_grad; rops. rewrite tanh_log_grad_spec. apply exp_ln, tanh_grad_pos. Qed.
Lemma leaky_grad_is_slope m : is_derive tanh m (leaky_grad ROps m).
Proof. rewrite leaky_grad_spec. apply tanh_is_derive. Qed.
Lemma leaky_icpt_spec m : leaky_icpt ROps m = tanh m - (1 - tanh m * tanh m) * m.
Proof. unfold leaky_icpt. rewrite leaky_grad_spec. rops. now rewrite th_tanh. Qed.

Lemma Rsign_pos x : 0 < x -> Rsign x = 1.
Proof. intros H. unfold Rsign. destruct (Rlt_dec 0 x); [reflexivity|lra]. Qed.
Lemma Rsign_neg x : x < 0 -> Rsign x = -1.
Proof. intros H. unfold Rsign. destruct (Rlt_dec 0 x); [lra|]. destruct (Rlt_dec x 0); [reflexivity|lra]. Qed.

Section Leaky.
  Variable m : R.
  Let g := leaky_grad ROps m.
  Let ic := leaky_icpt ROps m.

  (* strictly inside (-m, m): tanh (whatever the stored slope/intercept are) *)
  Lemma leaky_inside x : Rabs x < m -> leaky_fwd ROps m g ic x = tanh x.
  Proof.
    intros H. unfold leaky_fwd, geb, where_; rops.
    destruct (Rleb m (Rabs x)) eqn:E; [apply Rleb_true in E; lra|]. apply th_tanh.
  Qed.
  (* at and beyond m: the tangent line of tanh at m *)
  Lemma leaky_right x : 0 < m -> m <= x -> leaky_fwd ROps m g ic x = tanh m + (1 - tanh m * tanh m) * (x - m).
  Proof.
    intros Hm H. unfold leaky_fwd, geb, where_; rops.
    rewrite Rabs_right by lra.
    destruct (Rleb m x) eqn:E; [|apply Rleb_false in E; lra].
    rewrite Rsign_pos by lra. subst g ic. rewrite leaky_icpt_spec, leaky_grad_spec. ring.
  Qed.
  (* at and beyond -m: the tangent line of tanh at -m *)
  Lemma leaky_left x : 0 < m -> x <= - m ->
    leaky_fwd ROps m g ic x = tanh (- m) + (1 - tanh (- m) * tanh (- m)) * (x - - m).
  Proof.
    intros Hm H. unfold leaky_fwd, geb, where_; rops.
    rewrite Rabs_left by lra.
    destruct (Rleb m (- x)) eqn:E; [|apply Rleb_false in E; lra].
    rewrite Rsign_neg by lra. subst g ic. rewrite leaky_icpt_spec, leaky_grad_spec, tanh_odd. ring.
  Qed.
  (* value match at the switch points: the linear pieces start exactly on the tanh curve *)
  Lemma leaky_value_at_m : 0 < m -> leaky_fwd ROps m g ic m = tanh m.
  Proof. intros Hm. rewrite leaky_right by lra. ring. Qed.
  Lemma leaky_value_at_neg_m : 0 < m -> leaky_fwd ROps m g ic (- m) = tanh (- m).
  Proof. intros Hm. rewrite leaky_left by lra. ring. Qed.

  (* model = documented function, all x *)
  Lemma leaky_tanh_is_spec x : 0 < m -> leaky_fwd ROps m g ic x = spec_leaky_tanh ROps m x.
  Proof.
    intros Hm. unfold spec_leaky_tanh, spec_tangent_line, spec_tanh_grad. rops.
    change (spec_tanh ROps) with tanh.
    destruct (Rltb (Rabs x) m) eqn:E.
    - apply Rltb_true in E. now apply leaky_inside.
    - apply Rltb_false in E. destruct (Rltb x 0) eqn:E0.
      + apply Rltb_true in E0. rewrite Rabs_left in E by lra. apply leaky_left; lra.
      + apply Rltb_false in E0. rewrite Rabs_right in E by lra. apply leaky_right; lra.
  Qed.
End Leaky.

(* ====================================================================================== *)
(** * Rational-quadratic spline: one bin (Durkan et al., eq. 4)                            *)
(* ====================================================================================== *)
Section Bin.
  Variables xk xk1 yk yk1 dk dk1 : R.
  Hypothesis Hx : xk < xk1. Hypothesis Hy : yk < yk1.
  Hypothesis Hdk : 0 < dk. Hypothesis Hdk1 : 0 < dk1.

  Let w := xk1 - xk.
  Let Dy := yk1 - yk.
  Let s := Dy / w.
  Let den (t : R) := s + (dk1 + dk - 2 * s) * t * (1 - t).
  Let g (t : R) := yk + Dy * (s * (t * t) + dk * t * (1 - t)) / den t.
  Let xi (x : R) := (x - xk) / w.
  Let f := spec_eq4 ROps xk xk1 yk yk1 dk dk1.

  Lemma eq4_g x : f x = g (xi x).
  Proof. reflexivity. Qed.

  Lemma bin_w_pos : 0 < w. Proof. unfold w; lra. Qed.
  Lemma bin_Dy_pos : 0 < Dy. Proof. unfold Dy; lra. Qed.
  Lemma bin_s_pos : 0 < s. Proof. unfold s. apply Rdiv_lt_0_compat; [apply bin_Dy_pos | apply bin_w_pos]. Qed.

  Lemma bin_xi_range x : xk <= x <= xk1 -> 0 <= xi x <= 1.
  Proof.
    intros H. pose proof bin_w_pos as Hw. unfold xi. split.
    - apply Rmult_le_pos; [lra | left; now apply Rinv_0_lt_compat].
    - apply Rmult_le_reg_r with w; [exact Hw|]. unfold Rdiv. rewrite Rmult_assoc, Rinv_l by lra. unfold w in *. lra.
  Qed.
  Lemma bin_xi_incr x x' : x < x' -> xi x < xi x'.
  Proof.
    intros H. pose proof bin_w_pos as Hw. unfold xi, Rdiv.
    apply Rmult_lt_compat_r; [now apply Rinv_0_lt_compat | lra].
  Qed.

  (* the denominator of eq. 4 is positive on the whole closed bin: no division by zero *)
  Lemma bin_den_pos t : 0 <= t <= 1 -> 0 < den t.
  Proof.
    intros Ht. unfold den. pose proof bin_s_pos as Hs.
    replace (s + (dk1 + dk - 2 * s) * t * (1 - t)) with (s * (1 - 2*(t*(1-t))) + (dk1+dk) * (t*(1-t))) by ring.
    set (u := t*(1-t)). assert (0 <= u) by (unfold u; nra).
    assert (u <= /4) by (unfold u; pose proof (Rle_0_sqr (t - /2)) as Hq; unfold Rsqr in Hq; nra).
    assert (0 < s * (1 - 2*u)) by (apply Rmult_lt_0_compat; lra).
    assert (0 <= (dk1+dk) * u) by (apply Rmult_le_pos; lra). lra.
  Qed.

  Lemma g_0 : g 0 = yk.
  Proof. unfold g. pose proof (bin_den_pos 0 ltac:(lra)) as H. field. lra. Qed.
  Lemma g_1 : g 1 = yk1.
  Proof.
    unfold g. pose proof (bin_den_pos 1 ltac:(lra)) as H. pose proof bin_s_pos as Hs.
    unfold den in *. replace (s + (dk1 + dk - 2 * s) * 1 * (1 - 1)) with s in * by ring.
    unfold Dy. field. lra.
  Qed.

  (* strictly increasing in the bin: the difference factors as
     Dy s (t'-t) [ s (t(1-t') + t'(1-t)) + dk (1-t)(1-t') + dk1 t t' ] / (den t den t') *)
  Lemma g_incr t t' : 0 <= t -> t < t' -> t' <= 1 -> g t < g t'.
  Proof.
    intros H0 Hlt H1. pose proof (bin_den_pos t ltac:(lra)) as Hd. pose proof (bin_den_pos t' ltac:(lra)) as Hd'.
    pose proof bin_s_pos as Hs. pose proof bin_Dy_pos as HD.
    set (P := s * (t * (1 - t') + t' * (1 - t)) + dk * ((1 - t) * (1 - t')) + dk1 * (t * t')).
    assert (HP : 0 < P).
    { unfold P. assert (0 < s * (t' * (1 - t))) by (apply Rmult_lt_0_compat; [lra|apply Rmult_lt_0_compat; lra]).
      assert (0 <= s * (t * (1 - t'))) by (apply Rmult_le_pos; [lra|apply Rmult_le_pos; lra]).
      assert (0 <= dk * ((1 - t) * (1 - t'))) by (apply Rmult_le_pos; [lra|apply Rmult_le_pos; lra]).
      assert (0 <= dk1 * (t * t')) by (apply Rmult_le_pos; [lra|apply Rmult_le_pos; lra]). lra. }
    assert (E : g t' - g t = Dy * s * (t' - t) * P / (den t * den t')).
    { unfold g, P. unfold den in *. field. split; lra. }
    assert (0 < Dy * s * (t' - t) * P / (den t * den t')).
    { apply Rdiv_lt_0_compat; [|now apply Rmult_lt_0_compat].
      apply Rmult_lt_0_compat; [apply Rmult_lt_0_compat; [apply Rmult_lt_0_compat|]|]; lra. }
    lra.
  Qed.

  Lemma eq4_left : f xk = yk.
  Proof. rewrite eq4_g. replace (xi xk) with 0; [apply g_0|]. unfold xi. pose proof bin_w_pos. field. lra. Qed.
  Lemma eq4_right : f xk1 = yk1.
  Proof. rewrite eq4_g. replace (xi xk1) with 1; [apply g_1|]. unfold xi, w. field. lra. Qed.
  Lemma eq4_incr x x' : xk <= x -> x < x' -> x' <= xk1 -> f x < f x'.
  Proof.
    intros H0 Hlt H1. rewrite !eq4_g.
    pose proof (bin_xi_range x ltac:(lra)). pose proof (bin_xi_range x' ltac:(lra)).
    apply g_incr; [lra|now apply bin_xi_incr|lra].
  Qed.
  (* the bin map stays between its two knot values *)
  Lemma eq4_bounds x : xk <= x <= xk1 -> yk <= f x <= yk1.
  Proof.
    intros H. split.
    - destruct (Req_dec x xk) as [->|Hne]; [rewrite eq4_left; lra|].
      rewrite <- eq4_left. left. apply eq4_incr; lra.
    - destruct (Req_dec x xk1) as [->|Hne]; [rewrite eq4_right; lra|].
      rewrite <- eq4_right. left. apply eq4_incr; lra.
  Qed.
  Lemma eq4_gt_left x : xk < x <= xk1 -> yk < f x.
  Proof. intros H. rewrite <- eq4_left. apply eq4_incr; lra. Qed.
End Bin.

(* ====================================================================================== *)
(** * Rational-quadratic spline: the whole map                                             *)
(* ====================================================================================== *)
(* what C11 proves the constructor's reparameterisation delivers: K+2 strictly increasing knot
   positions from lo to hi in x and in y, K+2 positive derivatives *)
Record rqs_valid (xp yp dv : list R) (lo hi : R) : Prop := {
  rv_xs : StronglySorted Rlt xp;
  rv_ys : StronglySorted Rlt yp;
  rv_len : (2 <= length xp)%nat;
  rv_leny : length yp = length xp;
  rv_lend : length dv = length xp;
  rv_d : List.Forall (fun d => 0 < d) dv;
  rv_x0 : nth 0 xp 0 = lo;  rv_xn : last xp 0 = hi;
  rv_y0 : nth 0 yp 0 = lo;  rv_yn : last yp 0 = hi }.

Lemma clip_id v lo hi : lo <= v <= hi -> clip ROps v lo hi = v.
Proof.
  intros H. unfold clip, nmin, nmax; rops.
  destruct (Rltb v lo) eqn:E1; [apply Rltb_true in E1; lra|].
  destruct (Rltb hi v) eqn:E2; [apply Rltb_true in E2; lra|reflexivity].
Qed.

(* eq. 4 with the knots of bin k *)
Definition eq4_at (xp yp dv : list R) (k : Z) (x : R) : R :=
  spec_eq4 ROps (getz ROps xp k) (getz ROps xp (k+1)) (getz ROps yp k) (getz ROps yp (k+1))
               (getz ROps dv k) (getz ROps dv (k+1)) x.

(* in bounds the model is: look the bin up, evaluate eq. 4 there, clip to the interval *)
Lemma rqs_fwd_unfold_in xp yp dv lo hi x : lo <= x <= hi ->
  rqs_fwd ROps xp yp dv lo hi x = clip ROps (eq4_at xp yp dv (rqs_bin ROps xp x) x) lo hi.
Proof.
  intros [H1 H2]. unfold rqs_fwd, rqs_fwd_g, geb, where_; rops.
  destruct (Rleb lo x) eqn:E1; [|apply Rleb_false in E1; lra].
  destruct (Rleb x hi) eqn:E2; [|apply Rleb_false in E2; lra].
  reflexivity.
Qed.

(* "... the identity outside its interval": no hypothesis on the parameters at all -- the value
   computed from the substituted 0 is discarded by the final [where] *)
Lemma rqs_identity_outside xp yp dv lo hi x : x < lo \/ hi < x -> rqs_fwd ROps xp yp dv lo hi x = x.
Proof.
  intros H. unfold rqs_fwd, rqs_fwd_g, geb, where_; rops.
  destruct (Rleb lo x) eqn:E1; destruct (Rleb x hi) eqn:E2; try reflexivity.
  apply Rleb_true in E1. apply Rleb_true in E2. lra.
Qed.

Section Spline.
  Variables (xp yp dv : list R) (lo hi : R).
  Hypothesis V : rqs_valid xp yp dv lo hi.
  Let n := Z.of_nat (length xp).
  Let fwd := rqs_fwd ROps xp yp dv lo hi.

  Lemma sp_n : (2 <= n)%Z. Proof. pose proof (rv_len _ _ _ _ _ V). unfold n. lia. Qed.
  Lemma sp_x_lt k : (0 <= k <= n - 2)%Z -> getz ROps xp k < getz ROps xp (k+1).
  Proof. intros H. apply sorted_getz_lt; [apply V| |]; unfold n in *; lia. Qed.
  Lemma sp_y_lt k : (0 <= k <= n - 2)%Z -> getz ROps yp k < getz ROps yp (k+1).
  Proof. intros H. apply sorted_getz_lt; [apply V| |]; rewrite ?(rv_leny _ _ _ _ _ V); unfold n in *; lia. Qed.
  Lemma sp_d_pos k : (0 <= k <= n - 1)%Z -> 0 < getz ROps dv k.
  Proof.
    intros H. pose proof (rv_lend _ _ _ _ _ V) as Hl. pose proof (rv_d _ _ _ _ _ V) as Hd.
    rewrite getz_nth by (rewrite Hl; unfold n in *; lia).
    rewrite Forall_forall in Hd. apply Hd, nth_In. unfold n in *; lia.
  Qed.
  Lemma sp_x_first : getz ROps xp 0 = lo.
  Proof. pose proof sp_n. rewrite getz_first by (unfold n in *; lia). apply V. Qed.
  Lemma sp_x_last : getz ROps xp (n - 1) = hi.
  Proof. pose proof sp_n. unfold n. rewrite getz_last by (unfold n in *; lia). apply V. Qed.
  Lemma sp_y_first : getz ROps yp 0 = lo.
  Proof. pose proof sp_n. pose proof (rv_leny _ _ _ _ _ V). rewrite getz_first by (unfold n in *; lia). apply V. Qed.
  Lemma sp_y_last : getz ROps yp (n - 1) = hi.
  Proof. pose proof sp_n. pose proof (rv_leny _ _ _ _ _ V) as Hl. unfold n. rewrite <- Hl.
    rewrite getz_last by (unfold n in *; lia). apply V. Qed.
  Lemma sp_x_range k : (0 <= k <= n - 1)%Z -> lo <= getz ROps xp k <= hi.
  Proof.
    intros H. rewrite <- sp_x_first, <- sp_x_last.
    split; apply sorted_getz_le; try apply V; unfold n in *; lia.
  Qed.
  Lemma sp_y_range k : (0 <= k <= n - 1)%Z -> lo <= getz ROps yp k <= hi.
  Proof.
    intros H. pose proof (rv_leny _ _ _ _ _ V) as Hl. rewrite <- sp_y_first, <- sp_y_last.
    split; apply sorted_getz_le; try apply V; rewrite ?Hl; unfold n in *; lia.
  Qed.
  Lemma sp_lo_lt_hi : lo < hi.
  Proof. pose proof sp_n. rewrite <- sp_x_first, <- sp_x_last. apply sorted_getz_lt; [apply V| |]; unfold n in *; lia. Qed.

  (* bin lookup for an in-bounds x *)
  Lemma sp_bin x : lo <= x <= hi -> let k := rqs_bin ROps xp x in
    (0 <= k <= n - 2)%Z /\ getz ROps xp k <= x <= getz ROps xp (k+1) /\ (getz ROps xp k < x \/ k = 0%Z).
  Proof.
    intros H. pose proof (rqs_bin_spec xp x (rv_xs _ _ _ _ _ V) (rv_len _ _ _ _ _ V)) as S.
    rewrite (rv_x0 _ _ _ _ _ V), (rv_xn _ _ _ _ _ V) in S. specialize (S H). cbv zeta in S.
    destruct S as (S1 & S2 & S3 & _). repeat split; try tauto; unfold n; lia.
  Qed.

  (* the eq.-4 value of bin k on the closed bin lies in [y_k, y_k+1], hence in [lo, hi] *)
  Lemma sp_eq4_bounds k x : (0 <= k <= n - 2)%Z -> getz ROps xp k <= x <= getz ROps xp (k+1) ->
    getz ROps yp k <= eq4_at xp yp dv k x <= getz ROps yp (k+1).
  Proof.
    intros Hk Hx. unfold eq4_at. apply eq4_bounds; try assumption;
      [apply sp_x_lt|apply sp_y_lt|apply sp_d_pos|apply sp_d_pos]; lia.
  Qed.

  (* clip is the identity on the in-bounds branch *)
  Lemma rqs_fwd_bin x : lo <= x <= hi -> fwd x = eq4_at xp yp dv (rqs_bin ROps xp x) x.
  Proof.
    intros H. unfold fwd. rewrite rqs_fwd_unfold_in by exact H.
    destruct (sp_bin x H) as (Hk & Hx & _). apply clip_id.
    pose proof (sp_eq4_bounds _ x Hk Hx). pose proof (sp_y_range (rqs_bin ROps xp x) ltac:(lia)).
    pose proof (sp_y_range (rqs_bin ROps xp x + 1) ltac:(lia)). lra.
  Qed.

  (* inside bin k -- both ends of the bin included -- the value is eq. 4 with the knots of bin k *)
  Lemma rqs_matches_eq4_Z k x : (0 <= k <= n - 2)%Z -> getz ROps xp k <= x <= getz ROps xp (k+1) ->
    fwd x = eq4_at xp yp dv k x.
  Proof.
    intros Hk Hx.
    assert (Hb : lo <= x <= hi).
    { pose proof (sp_x_range k ltac:(lia)). pose proof (sp_x_range (k+1) ltac:(lia)). lra. }
    rewrite rqs_fwd_bin by exact Hb.
    destruct (Rle_lt_or_eq_dec _ _ (proj1 Hx)) as [Hlt|Heq].
    - (* strictly inside, or the right end: the lookup returns k *)
      rewrite (rqs_bin_unique xp x k); [reflexivity|apply V|unfold n in *; lia|lra].
    - (* x is the left knot of bin k *)
      subst x. destruct (Z.eq_dec k 0) as [->|Hk0].
      + rewrite rqs_bin_knot0; [reflexivity|apply V].
      + (* an interior knot is looked up in bin k-1, whose right-end value is the same y_k *)
        rewrite rqs_bin_knot; [|apply V|unfold n in *; lia].
        unfold eq4_at. replace (k - 1 + 1)%Z with k by lia.
        rewrite eq4_right, eq4_left; try reflexivity;
          try (apply sp_x_lt; lia); try (apply sp_y_lt; lia); try (apply sp_d_pos; lia).
        * pose proof (sp_x_lt (k-1) ltac:(lia)) as Hq. replace (k - 1 + 1)%Z with k in Hq by lia. exact Hq.
        * pose proof (sp_y_lt (k-1) ltac:(lia)) as Hq. replace (k - 1 + 1)%Z with k in Hq by lia. exact Hq.
  Qed.

  (* the interpolant goes through every knot, both ends included *)
  Lemma rqs_interpolates_Z k : (0 <= k <= n - 1)%Z -> fwd (getz ROps xp k) = getz ROps yp k.
  Proof.
    intros Hk. pose proof sp_n. destruct (Z.eq_dec k (n - 1)) as [->|Hne].
    - rewrite (rqs_matches_eq4_Z (n - 2)); [|lia|].
      + unfold eq4_at. replace (n - 2 + 1)%Z with (n - 1)%Z by lia.
        pose proof (sp_x_lt (n-2) ltac:(lia)) as Hq. pose proof (sp_y_lt (n-2) ltac:(lia)) as Hr.
        replace (n - 2 + 1)%Z with (n - 1)%Z in * by lia.
        apply eq4_right; try assumption; apply sp_d_pos; lia.
      + pose proof (sp_x_lt (n-2) ltac:(lia)) as Hq. replace (n - 2 + 1)%Z with (n - 1)%Z in * by lia. lra.
    - rewrite (rqs_matches_eq4_Z k); [|lia|pose proof (sp_x_lt k ltac:(lia)); lra].
      unfold eq4_at. apply eq4_left; [apply sp_x_lt|apply sp_y_lt|apply sp_d_pos|apply sp_d_pos]; lia.
  Qed.

  Lemma rqs_fwd_range x : lo <= x <= hi -> lo <= fwd x <= hi.
  Proof.
    intros H. rewrite rqs_fwd_bin by exact H. destruct (sp_bin x H) as (Hk & Hx & _).
    pose proof (sp_eq4_bounds _ x Hk Hx). pose proof (sp_y_range (rqs_bin ROps xp x) ltac:(lia)).
    pose proof (sp_y_range (rqs_bin ROps xp x + 1) ltac:(lia)). lra.
  Qed.

  (* strictly increasing inside the interval: within a bin and across bins *)
  Lemma rqs_monotone_in x x' : lo <= x -> x < x' -> x' <= hi -> fwd x < fwd x'.
  Proof.
    intros H0 Hlt H1.
    rewrite (rqs_fwd_bin x) by lra. rewrite (rqs_fwd_bin x') by lra.
    destruct (sp_bin x ltac:(lra)) as (Hk & Hx & Hs). destruct (sp_bin x' ltac:(lra)) as (Hk' & Hx' & Hs').
    set (k := rqs_bin ROps xp x) in *. set (k' := rqs_bin ROps xp x') in *.
    destruct (Z.lt_trichotomy k k') as [Hc|[Hc|Hc]].
    - (* x in an earlier bin: fwd x <= y_{k+1} <= y_{k'} < fwd x' *)
      pose proof (sp_eq4_bounds k x Hk Hx) as B.
      assert (B2 : getz ROps yp (k+1) <= getz ROps yp k').
      { apply sorted_getz_le; [apply V|lia|rewrite (rv_leny _ _ _ _ _ V); unfold n in *; lia]. }
      assert (B3 : getz ROps yp k' < eq4_at xp yp dv k' x').
      { unfold eq4_at. apply eq4_gt_left; [apply sp_x_lt|apply sp_y_lt|apply sp_d_pos|apply sp_d_pos|]; try lia.
        destruct Hs' as [Hs'|Hs']; [lra|lia]. }
      lra.
    - (* same bin *)
      rewrite <- Hc in *. unfold eq4_at.
      apply eq4_incr; [apply sp_x_lt|apply sp_y_lt|apply sp_d_pos|apply sp_d_pos| | |]; try lia; lra.
    - (* impossible: the bin of the smaller point cannot come later *)
      exfalso. assert (getz ROps xp (k'+1) <= getz ROps xp k).
      { apply sorted_getz_le; [apply V|lia|unfold n in *; lia]. }
      destruct Hs as [Hs|Hs]; [lra|lia].
  Qed.

  (* strictly increasing on the whole real line *)
  Lemma rqs_monotone x x' : x < x' -> fwd x < fwd x'.
  Proof.
    intros Hlt.
    destruct (Rlt_le_dec x lo) as [Hxl|Hxl].
    - (* x below the interval *)
      unfold fwd at 1. rewrite rqs_identity_outside by (left; exact Hxl).
      destruct (Rlt_le_dec x' lo) as [Hl'|Hl'].
      + unfold fwd. rewrite rqs_identity_outside by (left; exact Hl'). exact Hlt.
      + destruct (Rle_lt_dec x' hi) as [Hh'|Hh'].
        * pose proof (rqs_fwd_range x' ltac:(lra)). lra.
        * unfold fwd. rewrite rqs_identity_outside by (right; exact Hh'). exact Hlt.
    - destruct (Rle_lt_dec x hi) as [Hxh|Hxh].
      + destruct (Rle_lt_dec x' hi) as [Hh'|Hh'].
        * apply rqs_monotone_in; lra.
        * unfold fwd at 2. rewrite rqs_identity_outside by (right; exact Hh').
          pose proof (rqs_fwd_range x ltac:(lra)). lra.
      + unfold fwd. rewrite !rqs_identity_outside by (right; lra). exact Hlt.
  Qed.
End Spline.

(* ---------- the statements with natural-number knot indices and [nth] ---------- *)
Lemma eq4_at_nat xp yp dv j x : (S j < length xp)%nat -> length yp = length xp -> length dv = length xp ->
  eq4_at xp yp dv (Z.of_nat j) x =
  spec_eq4 ROps (nth j xp 0) (nth (S j) xp 0) (nth j yp 0) (nth (S j) yp 0) (nth j dv 0) (nth (S j) dv 0) x.
Proof.
  intros H Hy Hd. unfold eq4_at. replace (Z.of_nat j + 1)%Z with (Z.of_nat (S j)) by lia.
  rewrite !getz_nat by lia. reflexivity.
Qed.

Lemma rqs_matches_eq4 xp yp dv lo hi : rqs_valid xp yp dv lo hi ->
  forall j x, (S j < length xp)%nat -> nth j xp 0 <= x <= nth (S j) xp 0 ->
  rqs_fwd ROps xp yp dv lo hi x =
  spec_eq4 ROps (nth j xp 0) (nth (S j) xp 0) (nth j yp 0) (nth (S j) yp 0) (nth j dv 0) (nth (S j) dv 0) x.
Proof.
  intros V j x Hj Hx. rewrite <- eq4_at_nat by (try apply V; exact Hj).
  apply rqs_matches_eq4_Z; [exact V|lia|].
  replace (Z.of_nat j + 1)%Z with (Z.of_nat (S j)) by lia. rewrite !getz_nat by lia. exact Hx.
Qed.

Lemma rqs_interpolates xp yp dv lo hi : rqs_valid xp yp dv lo hi ->
  forall j, (j < length xp)%nat -> rqs_fwd ROps xp yp dv lo hi (nth j xp 0) = nth j yp 0.
Proof.
  intros V j Hj. pose proof (rv_leny _ _ _ _ _ V) as Hl.
  rewrite <- (getz_nat xp j) by lia. rewrite <- (getz_nat yp j) by lia.
  apply rqs_interpolates_Z; [exact V|lia].
Qed.

(* in particular the interval ends are fixed points *)
Lemma rqs_fixes_ends xp yp dv lo hi : rqs_valid xp yp dv lo hi ->
  rqs_fwd ROps xp yp dv lo hi lo = lo /\ rqs_fwd ROps xp yp dv lo hi hi = hi.
Proof.
  intros V. pose proof (rv_len _ _ _ _ _ V) as Hn. pose proof (rv_leny _ _ _ _ _ V) as Hl. split.
  - rewrite <- (rv_x0 _ _ _ _ _ V) at 2. rewrite rqs_interpolates by (try exact V; lia). apply V.
  - rewrite <- (rv_xn _ _ _ _ _ V) at 2. rewrite last_nth_R. rewrite rqs_interpolates by (try exact V; lia).
    rewrite <- Hl, <- last_nth_R. apply V.
Qed.

(* ---------- identity at initialisation ---------- *)
(* equal knot positions in x and y and unit derivatives: s_k = 1, the coefficient d_k+1 + d_k - 2 s_k
   vanishes, the denominator of eq. 4 is 1 and the bin map is  x_k + (x - x_k) *)
Lemma eq4_identity xk xk1 x : xk < xk1 -> spec_eq4 ROps xk xk1 xk xk1 1 1 x = x.
Proof.
  intros H. unfold spec_eq4; rops.
  assert (Hs : (xk1 - xk) / (xk1 - xk) = 1) by (field; lra). rewrite Hs. field. lra.
Qed.

Lemma rqs_identity_at_init xp dv lo hi :
  StronglySorted Rlt xp -> (2 <= length xp)%nat -> length dv = length xp -> (forall d, In d dv -> d = 1) ->
  nth 0 xp 0 = lo -> last xp 0 = hi ->
  forall x, rqs_fwd ROps xp xp dv lo hi x = x.
Proof.
  intros Hs Hn Hl Hd H0 H1 x.
  assert (V : rqs_valid xp xp dv lo hi).
  { constructor; try assumption; try reflexivity.
    apply Forall_forall. intros d Hin. rewrite (Hd d Hin). lra. }
  destruct (Rlt_le_dec x lo) as [Hlo|Hlo]; [apply rqs_identity_outside; now left|].
  destruct (Rlt_le_dec hi x) as [Hhi|Hhi]; [apply rqs_identity_outside; now right|].
  rewrite (rqs_fwd_bin _ _ _ _ _ V) by lra.
  destruct (sp_bin _ _ _ _ _ V x ltac:(lra)) as (Hk & _). unfold eq4_at.
  assert (D : forall k, (0 <= k < Z.of_nat (length xp))%Z -> getz ROps dv k = 1).
  { intros k Hk'. rewrite getz_nth by lia. apply Hd, nth_In. lia. }
  rewrite !D by lia. apply eq4_identity. apply (sp_x_lt _ _ _ _ _ V). lia.
Qed.

(* the constructor's initial raw derivative parameter log(exp(1 - min_derivative) - 1) is mapped
   by  softplus(.) + min_derivative  to exactly 1 (min_derivative < 1) *)
Lemma rqs_init_derivative md : md < 1 -> ln (1 + exp (ln (exp (1 - md) - 1))) + md = 1.
Proof.
  intros H. assert (1 < exp (1 - md)) by (pose proof (exp_increasing 0 (1 - md) ltac:(lra)) as Hq; rewrite exp_0 in Hq; exact Hq).
  rewrite exp_ln by lra. replace (1 + (exp (1 - md) - 1)) with (exp (1 - md)) by ring. rewrite ln_exp. ring.
Qed.

(* ---------- the functional form of the specification ---------- *)
(* the walk of [spec_rqs_in] evaluates eq. 4 in a bin whose closed range contains x *)
Lemma spec_rqs_in_bin : forall xs ys ds x,
  length ys = length xs -> length ds = length xs -> (2 <= length xs)%nat ->
  nth 0 xs 0 <= x <= last xs 0 ->
  exists j, (S j < length xs)%nat /\ nth j xs 0 <= x <= nth (S j) xs 0 /\
    spec_rqs_in ROps xs ys ds x =
    spec_eq4 ROps (nth j xs 0) (nth (S j) xs 0) (nth j ys 0) (nth (S j) ys 0) (nth j ds 0) (nth (S j) ds 0) x.
Proof.
  induction xs as [|xk xs' IH]; intros ys ds x Hly Hld Hlen Hx; [cbn in Hlen; lia|].
  destruct xs' as [|xk1 xs'']; [cbn in Hlen; lia|].
  destruct ys as [|yk [|yk1 ys'']]; try discriminate Hly.
  destruct ds as [|dk [|dk1 ds'']]; try discriminate Hld.
  destruct xs'' as [|xk2 xs'''].
  - exists 0%nat. cbn [length nth]. split; [lia|]. split; [exact Hx|reflexivity].
  - cbn [spec_rqs_in]. rops. destruct (Rleb x xk1) eqn:E.
    + apply Rleb_true in E. exists 0%nat. cbn [length nth] in *. split; [lia|]. split; [lra|reflexivity].
    + apply Rleb_false in E.
      change (last (xk :: xk1 :: xk2 :: xs''') 0) with (last (xk1 :: xk2 :: xs''') 0) in Hx.
      destruct (IH (yk1 :: ys'') (dk1 :: ds'') x) as (j & Hj & Hjx & Hje).
      * cbn [length] in *; lia.
      * cbn [length] in *; lia.
      * cbn [length]; lia.
      * cbn [nth] in *. lra.
      * exists (S j). split; [cbn [length] in *; lia|]. split; [exact Hjx|exact Hje].
Qed.

Lemma rqs_is_spec xp yp dv lo hi : rqs_valid xp yp dv lo hi ->
  forall x, rqs_fwd ROps xp yp dv lo hi x = spec_rqs ROps xp yp dv lo hi x.
Proof.
  intros V x. unfold spec_rqs; rops.
  destruct (Rltb x lo) eqn:E1; [apply Rltb_true in E1; apply rqs_identity_outside; now left|].
  destruct (Rltb hi x) eqn:E2; [apply Rltb_true in E2; apply rqs_identity_outside; now right|].
  apply Rltb_false in E1. apply Rltb_false in E2. cbn [orb].
  destruct (spec_rqs_in_bin xp yp dv x) as (j & Hj & Hjx & Hje); try apply V.
  { rewrite (rv_x0 _ _ _ _ _ V), (rv_xn _ _ _ _ _ V). lra. }
  rewrite Hje. apply rqs_matches_eq4; assumption.
Qed.

(* ====================================================================================== *)
(** * Sums, dot products, elementwise lifting                                              *)
(* ====================================================================================== *)
Lemma fold_add (l : list R) a : fold_left Rplus l a = a + fold_left Rplus l 0.
Proof.
  revert a. induction l as [|x t IH]; intros a; cbn [fold_left]; [ring|].
  rewrite (IH (a + x)), (IH (0 + x)). ring.
Qed.
Lemma sum_nil : sum ROps [] = 0. Proof. reflexivity. Qed.
Lemma sum_cons x (l : list R) : sum ROps (x :: l) = x + sum ROps l.
Proof. unfold sum; rops. cbn [fold_left]. rewrite fold_add. ring. Qed.

(* [sigma] peels from the top index, lists from the front *)
Lemma sigma_shift n (f : nat -> R) : sigma ROps (S n) f = f 0%nat + sigma ROps n (fun j => f (S j)).
Proof.
  induction n as [|n IH]; [cbn [sigma]; rops; ring|].
  change (sigma ROps (S (S n)) f) with (sigma ROps (S n) f + f (S n)).
  rewrite IH. cbn [sigma]; rops. ring.
Qed.
Lemma sigma_ext n (f g : nat -> R) : (forall j, (j < n)%nat -> f j = g j) -> sigma ROps n f = sigma ROps n g.
Proof.
  induction n as [|n IH]; intros H; [reflexivity|]. cbn [sigma]. rewrite IH by (intros; apply H; lia).
  rewrite (H n) by lia. reflexivity.
Qed.

(* the code's  a @ b  (fold of the zipped products) is the indexed sum  sum_j a_j b_j *)
Lemma dot_sigma : forall a b : list R, length a = length b ->
  dot ROps a b = sigma ROps (length a) (fun j => nth j a 0 * nth j b 0).
Proof.
  induction a as [|x a IH]; intros b Hl; destruct b as [|y b]; try discriminate Hl; [reflexivity|].
  cbn [length]. rewrite sigma_shift. cbn [nth]. rewrite <- IH by (cbn in Hl; lia).
  unfold dot. cbn [combine map fst snd]. rewrite sum_cons. reflexivity.
Qed.
Lemma dot_comm (a b : list R) : length a = length b -> dot ROps a b = dot ROps b a.
Proof.
  intros H. rewrite !dot_sigma by lia. rewrite H. apply sigma_ext. intros. ring.
Qed.
Lemma dot_inner (a b : list R) : length a = length b -> dot ROps a b = spec_inner ROps a b.
Proof. intros H. rewrite dot_sigma by exact H. reflexivity. Qed.

Lemma sigma_sq_nonneg n (f : nat -> R) : 0 <= sigma ROps n (fun j => f j * f j).
Proof. induction n as [|n IH]; cbn [sigma]; rops; [lra|]. pose proof (Rle_0_sqr (f n)) as H. unfold Rsqr in H. lra. Qed.

Lemma map_nth_in {B C} (g : B -> C) l i d d' : (i < length l)%nat -> nth i (map g l) d' = g (nth i l d).
Proof.
  intros H. rewrite (nth_indep _ d' (g d)) by (rewrite map_length; exact H). apply map_nth.
Qed.
Lemma lift2_length (f : R -> R -> R) a b : length a = length b -> length (lift2 f a b) = length a.
Proof. intros H. unfold lift2. rewrite map_length, combine_length. lia. Qed.
Lemma lift2_nth (f : R -> R -> R) a b i : length a = length b -> (i < length a)%nat ->
  nth i (lift2 f a b) 0 = f (nth i a 0) (nth i b 0).
Proof.
  intros Hl Hi. unfold lift2.
  rewrite (nth_indep _ 0 ((fun p => f (fst p) (snd p)) (0, 0))) by (rewrite map_length, combine_length; lia).
  rewrite (map_nth (fun p => f (fst p) (snd p))). rewrite combine_nth by exact Hl. reflexivity.
Qed.
Lemma map_seq_nth {B} (g : nat -> B) n i d : (i < n)%nat -> nth i (map g (seq 0 n)) d = g i.
Proof.
  intros H. rewrite (nth_indep _ d (g 0%nat)) by (rewrite map_length, seq_length; exact H).
  rewrite map_nth, seq_nth by exact H. reflexivity.
Qed.

(* ====================================================================================== *)
(** * TriangularAffine.transform = A x + b, entry by entry, any dimension                  *)
(* ====================================================================================== *)
Lemma triaffine_is_spec (m : list (list R)) (loc x : list R) :
  length m = length x -> length loc = length x -> (forall row, In row m -> length row = length x) ->
  tri_fwd ROps m loc x = spec_tri ROps m loc x.
Proof.
  intros Hm Hloc Hrows. unfold tri_fwd, spec_tri, matvec.
  assert (Hlm : length (map (fun row => dot ROps row x) m) = length loc) by (rewrite map_length; lia).
  apply (nth_ext _ _ 0 0).
  - rewrite lift2_length by exact Hlm. rewrite !map_length, seq_length. exact Hm.
  - intros i Hi. rewrite lift2_length in Hi by exact Hlm. rewrite map_length in Hi.
    rewrite lift2_nth by (try exact Hlm; rewrite map_length; exact Hi).
    rewrite map_seq_nth by lia. rops. f_equal.
    rewrite (map_nth_in _ m i []) by exact Hi.
    assert (Hr : length (nth i m []) = length x) by (apply Hrows, nth_In; exact Hi).
    rewrite dot_sigma by exact Hr. rewrite Hr. reflexivity.
Qed.

(* the entrywise reading:  y_i = sum_j A_ij x_j + b_i *)
Lemma triaffine_entry (m : list (list R)) (loc x : list R) i :
  length m = length x -> length loc = length x -> (forall row, In row m -> length row = length x) ->
  (i < length x)%nat ->
  nth i (tri_fwd ROps m loc x) 0 = sigma ROps (length x) (fun j => entry ROps m i j * nth j x 0) + nth i loc 0.
Proof.
  intros Hm Hloc Hrows Hi. rewrite triaffine_is_spec by assumption. unfold spec_tri.
  rewrite map_seq_nth by exact Hi. reflexivity.
Qed.

(* ====================================================================================== *)
(** * Planar                                                                               *)
(* ====================================================================================== *)
(* jax.nn.leaky_relu as coded = max(0,z) + s min(0,z) *)
Lemma leaky_relu_is_spec s z : leaky_relu ROps s z = spec_leaky_relu ROps s z.
Proof.
  unfold leaky_relu, spec_leaky_relu, geb, where_, nmax, nmin; rops.
  destruct (Rleb 0 z) eqn:E; destruct (Rltb 0 z) eqn:E1; destruct (Rltb z 0) eqn:E2;
    rewrite ?Rleb_true, ?Rleb_false, ?Rltb_true, ?Rltb_false in *; try lra; try nra.
Qed.
Lemma leaky_relu_cases s z : leaky_relu ROps s z = if Rle_dec 0 z then z else s * z.
Proof.
  unfold leaky_relu, geb, where_; rops. unfold Rleb. destruct (Rle_dec 0 z); reflexivity.
Qed.
Lemma planar_act_is_spec ns z : planar_act ROps ns z = spec_act ROps ns z.
Proof. destruct ns as [s|]; [apply leaky_relu_is_spec|apply th_tanh]. Qed.

(* k = max(1, negative_slope) for leaky relu, 1 for tanh *)
Lemma planar_k_is_spec ns : planar_k ROps ns = spec_k ROps ns.
Proof.
  destruct ns as [s|]; [|reflexivity]. unfold planar_k, spec_k, nmax; rops.
  destruct (Rltb 1 s) eqn:E; destruct (Rleb s 1) eqn:E1;
    rewrite ?Rleb_true, ?Rleb_false, ?Rltb_true, ?Rltb_false in *; try reflexivity; lra.
Qed.
Lemma spec_k_ge1 ns : 1 <= spec_k ROps ns.
Proof.
  destruct ns as [s|]; unfold spec_k; rops; [|lra].
  destruct (Rleb s 1) eqn:E; rewrite ?Rleb_true, ?Rleb_false in *; lra.
Qed.
Lemma spec_k_ge_slope s : s <= spec_k ROps (Some s).
Proof. unfold spec_k; rops. destruct (Rleb s 1) eqn:E; rewrite ?Rleb_true, ?Rleb_false in *; lra. Qed.

(* get_act_scale: u_hat = u + (m(w.u)/k - w.u) w / ||w||^2 *)
Lemma planar_u_is_spec ns (w u : list R) : length u = length w -> spec_inner ROps w w <> 0 ->
  planar_u ROps ns w u = spec_planar_u ROps ns w u.
Proof.
  intros Hl Hw. unfold planar_u, spec_planar_u, vadd.
  assert (Hn : sqrt (dot ROps w w) * sqrt (dot ROps w w) = spec_inner ROps w w).
  { rewrite dot_inner by reflexivity. apply sqrt_sqrt. apply sigma_sq_nonneg. }
  pose proof (spec_k_ge1 ns) as Hk.
  apply (nth_ext _ _ 0 0).
  - rewrite lift2_length by (rewrite map_length; exact Hl). rewrite map_length, seq_length. exact Hl.
  - intros i Hi. rewrite lift2_length in Hi by (rewrite map_length; exact Hl).
    rewrite lift2_nth by (try (rewrite map_length; exact Hl); exact Hi).
    rewrite map_seq_nth by lia. rewrite (map_nth_in _ w i 0) by lia.
    rewrite planar_k_is_spec. rops. rewrite Hn.
    rewrite (dot_comm u w) by exact Hl. rewrite (dot_inner w u) by lia.
    unfold spec_m, spec_softplus; rops.
    destruct ns as [s|]; [reflexivity|].
    change (spec_k ROps None) with 1. f_equal. field. exact Hw.
Qed.

(* the purpose of the constraint (docstring: "to ensure invertibility"):
   w . u_hat = m(w . u) / k > -1/k, hence 1 + w . u_hat > 0 and 1 + s (w . u_hat) > 0 *)
Lemma sigma_add n (f g : nat -> R) : sigma ROps n (fun j => f j + g j) = sigma ROps n f + sigma ROps n g.
Proof. induction n as [|n IH]; cbn [sigma]; rops; [ring|]. rewrite IH. ring. Qed.
Lemma sigma_scal n k (f : nat -> R) : sigma ROps n (fun j => k * f j) = k * sigma ROps n f.
Proof. induction n as [|n IH]; cbn [sigma]; rops; [ring|]. rewrite IH. ring. Qed.
Lemma spec_m_gt (a : R) : -1 < spec_m ROps a.
Proof.
  unfold spec_m, spec_softplus; rops. pose proof (exp_pos a).
  assert (0 < ln (1 + exp a)) by (rewrite <- ln_1; apply ln_increasing; lra).
  assert (0 < ln (1 + ln (1 + exp a))) by (rewrite <- ln_1 at 1; apply ln_increasing; lra). lra.
Qed.
Lemma planar_u_inner ns (w u : list R) : length u = length w -> spec_inner ROps w w <> 0 ->
  spec_inner ROps w (spec_planar_u ROps ns w u) = spec_m ROps (spec_inner ROps w u) / spec_k ROps ns.
Proof.
  intros Hl Hw. pose proof (spec_k_ge1 ns) as Hk.
  unfold spec_inner at 1. set (a := spec_inner ROps w u). set (q := spec_inner ROps w w) in *.
  set (k := spec_k ROps ns) in *.
  rewrite (sigma_ext _ _ (fun j => nth j w 0 * nth j u 0 + ((spec_m ROps a / k - a) / q) * (nth j w 0 * nth j w 0))).
  - rewrite sigma_add, sigma_scal.
    change (sigma ROps (length w) (fun j => nth j w 0 * nth j u 0)) with a.
    change (sigma ROps (length w) (fun j => nth j w 0 * nth j w 0)) with q. field. split; [lra|exact Hw].
  - intros j Hj. unfold spec_planar_u. fold a q k. rewrite map_seq_nth by exact Hj. rops. field. split; [lra|exact Hw].
Qed.
Lemma planar_u_constraint ns (w u : list R) : length u = length w -> spec_inner ROps w w <> 0 ->
  let a := spec_inner ROps w (spec_planar_u ROps ns w u) in
  (a = spec_m ROps (spec_inner ROps w u) / spec_k ROps ns) /\
  (-1 / spec_k ROps ns < a) /\
  (0 < 1 + a) /\
  (forall s, ns = Some s -> 0 < s -> 0 < 1 + s * a).
Proof.
  intros Hl Hw a. pose proof (planar_u_inner ns w u Hl Hw) as E. fold a in E.
  pose proof (spec_k_ge1 ns) as Hk. pose proof (spec_m_gt (spec_inner ROps w u)) as Hm.
  set (k := spec_k ROps ns) in *. set (m := spec_m ROps (spec_inner ROps w u)) in *.
  assert (Hak : a * k = m) by (rewrite E; field; lra).
  split; [exact E|].
  assert (H1 : -1 / k < a).
  { rewrite E. unfold Rdiv. apply Rmult_lt_compat_r; [apply Rinv_0_lt_compat; lra|lra]. }
  split; [exact H1|].
  assert (H2 : 0 < 1 + a).
  { destruct (Rle_lt_dec 0 a) as [Ha|Ha]; [lra|]. assert (a * k <= a * 1) by (apply Rmult_le_compat_neg_l; lra). lra. }
  split; [exact H2|].
  intros s -> Hs. pose proof (spec_k_ge_slope s) as Hks. fold k in Hks.
  destruct (Rle_lt_dec 0 a) as [Ha|Ha].
  - assert (0 <= s * a) by (apply Rmult_le_pos; lra). lra.
  - assert (a * k <= a * s) by (apply Rmult_le_compat_neg_l; lra). lra.
Qed.

(* transform:  y = x + u_hat * act(w.x + b) *)
Lemma planar_is_spec ns (w u : list R) b (x : list R) :
  length u = length w -> length x = length w -> spec_inner ROps w w <> 0 ->
  planar_fwd ROps ns w u b x = spec_planar ROps ns w u b x.
Proof.
  intros Hu Hx Hw. unfold planar_fwd, spec_planar, vadd, vscale.
  rewrite planar_u_is_spec by assumption. rewrite planar_act_is_spec. rewrite dot_inner by lia.
  set (a := spec_act ROps ns _). set (uh := spec_planar_u ROps ns w u).
  assert (Hlu : length uh = length w) by (unfold uh, spec_planar_u; rewrite map_length, seq_length; reflexivity).
  apply (nth_ext _ _ 0 0).
  - rewrite lift2_length by (rewrite map_length; lia). rewrite map_length, seq_length. reflexivity.
  - intros i Hi. rewrite lift2_length in Hi by (rewrite map_length; lia).
    rewrite lift2_nth by (try (rewrite map_length; lia); exact Hi).
    rewrite map_seq_nth by exact Hi. rops. f_equal.
    rewrite (map_nth_in _ uh i 0) by lia. reflexivity.
Qed.
Lemma planar_entry ns (w u : list R) b (x : list R) i :
  length u = length w -> length x = length w -> spec_inner ROps w w <> 0 -> (i < length x)%nat ->
  nth i (planar_fwd ROps ns w u b x) 0 =
  nth i x 0 + nth i (spec_planar_u ROps ns w u) 0 * spec_act ROps ns (spec_inner ROps w x + b).
Proof.
  intros Hu Hx Hw Hi. rewrite planar_is_spec by assumption. unfold spec_planar.
  rewrite map_seq_nth by exact Hi. reflexivity.
Qed.

(* ====================================================================================== *)
(** * Derivatives: gluing lemmas (promoted from design_probes/Glue.v)                      *)
(* ====================================================================================== *)
Lemma is_derive_glue (f1 f2 : R -> R) (a l : R) :
  f1 a = f2 a -> is_derive f1 a l -> is_derive f2 a l ->
  is_derive (fun x => if Rle_dec x a then f1 x else f2 x) a l.
Proof.
  intros Hv H1 H2. apply is_derive_Reals in H1. apply is_derive_Reals in H2. apply is_derive_Reals.
  intros eps Heps. destruct (H1 eps Heps) as [d1 Hd1]. destruct (H2 eps Heps) as [d2 Hd2].
  assert (Hm : 0 < Rmin d1 d2) by (apply Rmin_pos; [apply d1 | apply d2]).
  exists (mkposreal _ Hm). intros h Hh Hlt. cbn in Hlt.
  destruct (Rle_dec a a) as [_|Hn]; [|exfalso; apply Hn; lra].
  destruct (Rle_dec (a + h) a).
  - apply Hd1; [exact Hh|]. eapply Rlt_le_trans; [exact Hlt | apply Rmin_l].
  - rewrite Hv. apply Hd2; [exact Hh|]. eapply Rlt_le_trans; [exact Hlt | apply Rmin_r].
Qed.

(* two functions that agree on (x - r, x + r) have the same derivative at x *)
Lemma is_derive_agree (f g : R -> R) (x r l : R) : 0 < r ->
  (forall y, x - r < y < x + r -> f y = g y) -> is_derive f x l -> is_derive g x l.
Proof.
  intros Hr Hag Hf. apply (is_derive_ext_loc f); [|exact Hf].
  exists (mkposreal r Hr). intros y Hy.
  unfold ball in Hy; cbn in Hy; unfold AbsRing_ball, abs, minus, plus, opp in Hy; cbn in Hy.
  apply Rabs_lt_between in Hy. apply Hag. lra.
Qed.

(* ====================================================================================== *)
(** * LeakyTanh is C^1: tanh inside, its tangent lines outside, derivative glued at +-m    *)
(* ====================================================================================== *)
Lemma leaky_is_derive m x : 0 < m ->
  is_derive (leaky_fwd ROps m (leaky_grad ROps m) (leaky_icpt ROps m)) x
            (if Rle_dec m (Rabs x) then 1 - tanh m * tanh m else 1 - tanh x * tanh x).
Proof.
  intros Hm. set (F := leaky_fwd ROps m (leaky_grad ROps m) (leaky_icpt ROps m)).
  set (G := 1 - tanh m * tanh m).
  set (lineR := fun t : R => tanh m + G * (t - m)).
  set (lineL := fun t : R => tanh (- m) + G * (t - - m)).
  assert (DR : forall t, is_derive lineR t G) by (intros t; unfold lineR; auto_derive; [exact I|ring]).
  assert (DL : forall t, is_derive lineL t G) by (intros t; unfold lineL; auto_derive; [exact I|ring]).
  assert (FR : forall t, m <= t -> F t = lineR t) by (intros t Ht; unfold F, lineR, G; now apply leaky_right).
  assert (FL : forall t, t <= - m -> F t = lineL t).
  { intros t Ht. unfold F, lineL, G. rewrite leaky_left by assumption. rewrite tanh_odd. ring. }
  assert (FI : forall t, - m < t < m -> F t = tanh t).
  { intros t Ht. unfold F. apply leaky_inside. apply Rabs_def1; lra. }
  destruct (Rle_dec m (Rabs x)) as [Hl|Hl].
  - unfold Rabs in Hl. destruct (Rcase_abs x) as [Hx|Hx].
    + (* x <= -m *)
      destruct (Req_dec x (- m)) as [->|Hne].
      * (* the left switch point: glue lineL | tanh *)
        apply (is_derive_agree (fun t => if Rle_dec t (- m) then lineL t else tanh t) F (- m) m); [exact Hm| |].
        -- intros y Hy. destruct (Rle_dec y (- m)); symmetry; [apply FL; lra|apply FI; lra].
        -- apply is_derive_glue; [unfold lineL; ring|apply DL|].
           replace G with (1 - tanh (- m) * tanh (- m)) by (unfold G; rewrite tanh_odd; ring). apply tanh_is_derive.
      * apply (is_derive_agree lineL F x (- m - x)); [lra| |apply DL].
        intros y Hy. symmetry. apply FL. lra.
    + destruct (Req_dec x m) as [->|Hne].
      * (* the right switch point: glue tanh | lineR *)
        apply (is_derive_agree (fun t => if Rle_dec t m then tanh t else lineR t) F m m); [exact Hm| |].
        -- intros y Hy. destruct (Rle_dec y m) as [Hle|Hgt]; symmetry.
           ++ destruct (Req_dec y m) as [->|Hn]; [rewrite FR by lra; unfold lineR; ring|apply FI; lra].
           ++ apply FR; lra.
        -- apply is_derive_glue; [unfold lineR; ring|apply tanh_is_derive|apply DR].
      * apply (is_derive_agree lineR F x (x - m)); [lra| |apply DR].
        intros y Hy. symmetry. apply FR. lra.
  - assert (Hx : - m < x < m) by (unfold Rabs in Hl; destruct (Rcase_abs x); lra).
    apply (is_derive_agree tanh F x (Rmin (x + m) (m - x))); [apply Rmin_pos; lra| |apply tanh_is_derive].
    intros y Hy. symmetry. apply FI.
    pose proof (Rmin_l (x + m) (m - x)). pose proof (Rmin_r (x + m) (m - x)). lra.
Qed.

(* ====================================================================================== *)
(** * Spline derivative: eq. 5 inside a bin, the knot's derivative parameter at a knot     *)
(* ====================================================================================== *)
Section BinD.
  Variables xk xk1 yk yk1 dk dk1 : R.
  Hypothesis Hx : xk < xk1. Hypothesis Hy : yk < yk1.
  Hypothesis Hdk : 0 < dk. Hypothesis Hdk1 : 0 < dk1.
  (* eq. 5 is the derivative of eq. 4 on the closed bin (as a rational function of x) *)
  Lemma eq4_is_derive x : xk <= x <= xk1 ->
    is_derive (spec_eq4 ROps xk xk1 yk yk1 dk dk1) x (spec_eq5 ROps xk xk1 yk yk1 dk dk1 x).
  Proof.
    intros H. pose proof (bin_xi_range xk xk1 Hx x H) as Ht.
    pose proof (bin_den_pos xk xk1 yk yk1 dk dk1 Hx Hy Hdk Hdk1 _ Ht) as Hd.
    unfold spec_eq4, spec_eq5; rops. cbv zeta.
    unfold Rdiv, Rminus in *. set (iw := / (xk1 + - xk)) in *. clearbody iw.
    apply Rgt_not_eq in Hd. auto_derive; [exact Hd|]. field. exact Hd.
  Qed.
  Lemma eq5_left : spec_eq5 ROps xk xk1 yk yk1 dk dk1 xk = dk.
  Proof. unfold spec_eq5; rops. field. split; [lra|].
    match goal with |- ?e <> 0 => replace e with ((yk1 - yk) * ((xk1 - xk) * (xk1 - xk))) by ring end.
    apply Rgt_not_eq. apply Rmult_lt_0_compat; [lra|apply Rmult_lt_0_compat; lra]. Qed.
  Lemma eq5_right : spec_eq5 ROps xk xk1 yk yk1 dk dk1 xk1 = dk1.
  Proof. unfold spec_eq5; rops. field. split; lra. Qed.
End BinD.

Lemma rqs_derivative_in_bin xp yp dv lo hi : rqs_valid xp yp dv lo hi ->
  forall j x, (S j < length xp)%nat -> nth j xp 0 < x < nth (S j) xp 0 ->
  is_derive (rqs_fwd ROps xp yp dv lo hi) x
    (spec_eq5 ROps (nth j xp 0) (nth (S j) xp 0) (nth j yp 0) (nth (S j) yp 0) (nth j dv 0) (nth (S j) dv 0) x).
Proof.
  intros V j x Hj Hx. pose proof (rv_leny _ _ _ _ _ V) as Hly. pose proof (rv_lend _ _ _ _ _ V) as Hld.
  set (f := spec_eq4 ROps (nth j xp 0) (nth (S j) xp 0) (nth j yp 0) (nth (S j) yp 0) (nth j dv 0) (nth (S j) dv 0)).
  apply (is_derive_agree f _ x (Rmin (x - nth j xp 0) (nth (S j) xp 0 - x))); [apply Rmin_pos; lra| |].
  - intros y Hyy. symmetry. apply rqs_matches_eq4; [exact V|exact Hj|].
    pose proof (Rmin_l (x - nth j xp 0) (nth (S j) xp 0 - x)). pose proof (Rmin_r (x - nth j xp 0) (nth (S j) xp 0 - x)). lra.
  - pose proof (rv_d _ _ _ _ _ V) as Hd. rewrite Forall_forall in Hd.
    assert (Y1 : nth j yp 0 < nth (S j) yp 0) by (apply sorted_nth_lt; [apply V|lia|lia]).
    assert (D0 : 0 < nth j dv 0) by (apply Hd, nth_In; lia).
    assert (D1 : 0 < nth (S j) dv 0) by (apply Hd, nth_In; lia).
    apply eq4_is_derive; try assumption; lra.
Qed.

(* at an interior knot the two neighbouring bin maps agree in value (y_j) and in slope (d_j) *)
Lemma rqs_knot_derivative xp yp dv lo hi : rqs_valid xp yp dv lo hi ->
  forall j, (1 <= j)%nat -> (S j < length xp)%nat ->
  is_derive (rqs_fwd ROps xp yp dv lo hi) (nth j xp 0) (nth j dv 0).
Proof.
  intros V j Hj1 Hj. pose proof (rv_leny _ _ _ _ _ V) as Hly. pose proof (rv_lend _ _ _ _ _ V) as Hld.
  pose proof (rv_d _ _ _ _ _ V) as Hd. rewrite Forall_forall in Hd.
  destruct j as [|i]; [lia|].
  set (a := nth (S i) xp 0).
  set (f1 := spec_eq4 ROps (nth i xp 0) (nth (S i) xp 0) (nth i yp 0) (nth (S i) yp 0) (nth i dv 0) (nth (S i) dv 0)).
  set (f2 := spec_eq4 ROps (nth (S i) xp 0) (nth (S (S i)) xp 0) (nth (S i) yp 0) (nth (S (S i)) yp 0)
                           (nth (S i) dv 0) (nth (S (S i)) dv 0)).
  assert (X1 : nth i xp 0 < a) by (apply sorted_nth_lt; [apply V|lia|lia]).
  assert (X2 : a < nth (S (S i)) xp 0) by (apply sorted_nth_lt; [apply V|lia|lia]).
  assert (Y1 : nth i yp 0 < nth (S i) yp 0) by (apply sorted_nth_lt; [apply V|lia|lia]).
  assert (Y2 : nth (S i) yp 0 < nth (S (S i)) yp 0) by (apply sorted_nth_lt; [apply V|lia|lia]).
  assert (D0 : 0 < nth i dv 0) by (apply Hd, nth_In; lia).
  assert (D1 : 0 < nth (S i) dv 0) by (apply Hd, nth_In; lia).
  assert (D2 : 0 < nth (S (S i)) dv 0) by (apply Hd, nth_In; lia).
  apply (is_derive_agree (fun t => if Rle_dec t a then f1 t else f2 t) _ a (Rmin (a - nth i xp 0) (nth (S (S i)) xp 0 - a)));
    [apply Rmin_pos; lra| |].
  - intros y Hyy.
    pose proof (Rmin_l (a - nth i xp 0) (nth (S (S i)) xp 0 - a)). pose proof (Rmin_r (a - nth i xp 0) (nth (S (S i)) xp 0 - a)).
    destruct (Rle_dec y a); symmetry; apply rqs_matches_eq4; try exact V; try lia; fold a; lra.
  - apply is_derive_glue.
    + unfold f1, f2, a. rewrite eq4_right, eq4_left by assumption. reflexivity.
    + replace (nth (S i) dv 0) with
        (spec_eq5 ROps (nth i xp 0) (nth (S i) xp 0) (nth i yp 0) (nth (S i) yp 0) (nth i dv 0) (nth (S i) dv 0) a)
        by (apply eq5_right; assumption).
      apply eq4_is_derive; try assumption. fold a. lra.
    + replace (nth (S i) dv 0) with
        (spec_eq5 ROps (nth (S i) xp 0) (nth (S (S i)) xp 0) (nth (S i) yp 0) (nth (S (S i)) yp 0) (nth (S i) dv 0) (nth (S (S i)) dv 0) a)
        by (apply eq5_left; assumption).
      apply eq4_is_derive; try assumption. fold a. lra.
Qed.

(* ====================================================================================== *)
(** * Bundled forms used by Props/C07.v                                                    *)
(* ====================================================================================== *)
Lemma leaky_grad_slope m : leaky_grad ROps m = 1 - tanh m * tanh m /\ is_derive tanh m (leaky_grad ROps m).
Proof. split; [apply leaky_grad_spec|apply leaky_grad_is_slope]. Qed.
Lemma leaky_value_at_switch m : 0 < m ->
  leaky_fwd ROps m (leaky_grad ROps m) (leaky_icpt ROps m) m = tanh m /\
  leaky_fwd ROps m (leaky_grad ROps m) (leaky_icpt ROps m) (- m) = tanh (- m).
Proof. intros H. split; [now apply leaky_value_at_m|now apply leaky_value_at_neg_m]. Qed.
Lemma planar_act_cases ns z :
  planar_act ROps ns z = match ns with None => tanh z | Some s => if Rle_dec 0 z then z else s * z end.
Proof. destruct ns as [s|]; [apply leaky_relu_cases|apply th_tanh]. Qed.

Lemma planar_k_max ns : planar_k ROps ns = match ns with None => 1 | Some s => Rmax 1 s end.
Proof.
  destruct ns as [s|]; [|reflexivity]. unfold planar_k, nmax; rops. unfold Rmax.
  destruct (Rltb 1 s) eqn:E; destruct (Rle_dec 1 s); rewrite ?Rltb_true, ?Rltb_false in *; try reflexivity; lra.
Qed.
