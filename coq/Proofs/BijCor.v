(* Corollaries of the main theorem (Proofs/BijP.v) in the form the properties C08 and C13 state them. *)
From Coq Require Import List ZArith Bool Arith Lia ZifyBool.
From FJ Require Import Model.Num Model.Tensor Model.Bij Proofs.TensorP Proofs.TensorGet Proofs.BijP.
Import ListNotations.

Section C.
  Context {A : Type} (O : NumOps A).
  Notation tens := (tensor A).
  Notation bij := (bij A).
  Implicit Types (b : bij) (x y : tens) (c : option tens) (sg : sig).

  (* ---------- C08: run = den, shapes ---------- *)
  Theorem run_is_den b d x c sg :
    sig_of b = Ok sg -> has_shape (fst sg) x = true -> cond_ok (snd sg) c ->
    run O b d x c = Ok (fst (den O b d x c), Sc (snd (den O b d x c))).
  Proof. intros Hs Hx Hc. exact (proj1 (run_is_den_all O b d x c sg Hs Hx Hc)). Qed.

  Theorem den_shape b d x c sg :
    sig_of b = Ok sg -> has_shape (fst sg) x = true -> cond_ok (snd sg) c ->
    has_shape (fst sg) (fst (den O b d x c)) = true.
  Proof. intros Hs Hx Hc. exact (proj2 (run_is_den_all O b d x c sg Hs Hx Hc)). Qed.

  Theorem run_meth_is_den b m x c sg :
    sig_of b = Ok sg -> has_shape (fst sg) x = true -> cond_ok (snd sg) c ->
    run_meth O b m x c =
      Ok (fst (den O b (meth_dir m) x c), if meth_ld m then Some (Sc (snd (den O b (meth_dir m) x c))) else None).
  Proof. intros Hs Hx Hc. unfold run_meth. rewrite (run_is_den b _ x c sg Hs Hx Hc). reflexivity. Qed.

  (* a call that succeeds was made with exactly the declared shapes, returns the declared shape, a scalar
     log-det, and the value the definitions give *)
  Theorem shape_sound b d x c y l : run O b d x c = Ok (y, l) ->
    exists sg, sig_of b = Ok sg /\ has_shape (fst sg) x = true /\ cond_ok (snd sg) c /\
               has_shape (fst sg) y = true /\ y = fst (den O b d x c) /\ l = Sc (snd (den O b d x c)).
  Proof.
    intros H. rewrite run_entry in H.
    destruct (sig_of b) as [sg|e] eqn:Es; cbn [bind] in H; [|discriminate].
    destruct (check sg x c) as [[]|e] eqn:Ec; cbn [bind] in H; [|discriminate].
    apply check_inv in Ec as [Hx Hc]. exists sg.
    rewrite (run_is_den b d x c sg Es Hx Hc) in H. injection H as <- <-.
    repeat split; auto. eapply den_shape; eauto.
  Qed.

  (* ---------- C13: rejection at every node kind ---------- *)
  Lemma run_check_err b d x c sg e : sig_of b = Ok sg -> check sg x c = Err e -> run O b d x c = Err e.
  Proof. intros Hs Hc. rewrite run_entry, Hs. cbn [bind]. now rewrite Hc. Qed.

  Theorem reject_bad_x b d x c sg : sig_of b = Ok sg -> has_shape (fst sg) x = false -> run O b d x c = Err BadX.
  Proof. intros Hs Hx. apply (run_check_err b d x c sg); [exact Hs|]. unfold check. now rewrite Hx. Qed.

  Theorem reject_missing_cond b d x sg cs :
    sig_of b = Ok sg -> has_shape (fst sg) x = true -> snd sg = Some cs -> run O b d x None = Err NoCond.
  Proof. intros Hs Hx Hc. apply (run_check_err b d x None sg); [exact Hs|]. unfold check. now rewrite Hx, Hc. Qed.

  Theorem reject_bad_cond b d x cv sg cs :
    sig_of b = Ok sg -> has_shape (fst sg) x = true -> snd sg = Some cs -> has_shape cs cv = false ->
    run O b d x (Some cv) = Err BadCond.
  Proof.
    intros Hs Hx Hc Hcv. apply (run_check_err b d x (Some cv) sg); [exact Hs|]. unfold check. now rewrite Hx, Hc, Hcv.
  Qed.

  Theorem reject_ctor b d x c e : sig_of b = Err e -> run O b d x c = Err e.
  Proof. intros Hs. rewrite run_entry, Hs. reflexivity. Qed.

  (* ... and for each of the four public methods *)
  Theorem reject_meth b m x c sg : sig_of b = Ok sg ->
    (has_shape (fst sg) x = false -> run_meth O b m x c = Err BadX) /\
    (has_shape (fst sg) x = true -> forall cs, snd sg = Some cs ->
       (c = None -> run_meth O b m x c = Err NoCond) /\
       (forall cv, c = Some cv -> has_shape cs cv = false -> run_meth O b m x c = Err BadCond)).
  Proof.
    intros Hs. unfold run_meth. split.
    - intros Hx. now rewrite (reject_bad_x b _ x c sg Hs Hx).
    - intros Hx cs Hc. split.
      + intros ->. now rewrite (reject_missing_cond b _ x sg cs Hs Hx Hc).
      + intros cv -> Hcv. now rewrite (reject_bad_cond b _ x cv sg cs Hs Hx Hc Hcv).
  Qed.

  Theorem ok_shapes b m x c y ol : run_meth O b m x c = Ok (y, ol) ->
    exists sg, sig_of b = Ok sg /\ has_shape (fst sg) x = true /\ cond_ok (snd sg) c /\ has_shape (fst sg) y = true /\
               match ol with Some l => meth_ld m = true /\ is_scalar l = true | None => meth_ld m = false end.
  Proof.
    unfold run_meth. intros H. destruct (run O b (meth_dir m) x c) as [[y' l']|e] eqn:Er; cbn [bind] in H; [|discriminate].
    injection H as <- <-. destruct (shape_sound _ _ _ _ _ _ Er) as (sg & Hs & Hx & Hc & Hy & _ & ->).
    exists sg. repeat split; auto. destruct (meth_ld m); cbn; auto.
  Qed.

  (* the shape test is strict: a tensor with no zero-sized axis has exactly one shape *)
  Fixpoint nozero (s : shape) : Prop := match s with [] => True | n :: s' => 0 < n /\ nozero s' end.
  Theorem has_shape_strict s (t : tens) : nozero s -> has_shape s t = true -> tshape t = s.
  Proof.
    revert t. induction s as [|n s IH]; intros t Hz H.
    - apply has_shape_nil in H as [a ->]. reflexivity.
    - apply has_shape_cons in H as (l & -> & Hl & Hf). destruct Hz as [Hn Hz].
      destruct l as [|u l]; [cbn in Hl; lia|]. cbn [tshape]. f_equal; [exact Hl|].
      inversion Hf; subst. now apply IH.
  Qed.
  Corollary no_broadcasting s s' (t : tens) : nozero s -> nozero s' -> has_shape s t = true -> has_shape s' t = true -> s = s'.
  Proof. intros Z1 Z2 H1 H2. rewrite <- (has_shape_strict s t Z1 H1). now apply has_shape_strict. Qed.

  (* ---------- Invert, Scan ---------- *)
  Theorem invert_swaps b d x c : run O (Invert b) d x c = run O b (flipd d) x c.
  Proof.
    rewrite (run_entry O b (flipd d) x c). cbn [run sig_of].
    destruct (sig_of b) as [sg|e]; cbn [bind]; [|reflexivity].
    destruct (check sg x c) as [[]|e]; cbn [bind]; reflexivity.
  Qed.
  Theorem invert_den b d x c : den O (Invert b) d x c = den O b (flipd d) x c.
  Proof. reflexivity. Qed.

  Lemma same_sig_chain_sig (sigs : list sig) sg : same_sig sigs = Ok sg -> chain_sig sigs = Ok sg.
  Proof.
    unfold same_sig, chain_sig. destruct sigs as [|sg0 sigs']; [discriminate|].
    destruct (forallb (sig_eqb sg0) (sg0 :: sigs')) eqn:Ef; [|discriminate]. intros [= <-].
    rewrite forallb_forall in Ef.
    assert (E : forall sg', In sg' (sg0 :: sigs') -> sg' = sg0).
    { intros [s1 c1] Hin. apply Ef in Hin. unfold sig_eqb in Hin. apply andb_prop in Hin as [E1 E2].
      apply shape_eqb_eq in E1. apply oshape_eqb_eq in E2. destruct sg0; cbn in *; congruence. }
    assert (Hc : check_shapes_match (map fst (sg0 :: sigs')) = true).
    { cbn [map check_shapes_match]. apply forallb_forall. intros s Hs.
      change (fst sg0 :: map fst sigs') with (map fst (sg0 :: sigs')) in Hs.
      apply in_map_iff in Hs as (sg' & <- & Hin). rewrite (E sg' Hin). apply shape_eqb_refl. }
    rewrite Hc.
    assert (Hm : merge_cond_shapes (map snd (sg0 :: sigs')) = Ok (snd sg0)).
    { unfold merge_cond_shapes. cbn [map].
      change (snd sg0 :: map snd sigs') with (map snd (sg0 :: sigs')).
      assert (G : forall l, (forall sg', In sg' l -> sg' = sg0) ->
                  somes (map snd l) = match snd sg0 with Some s => repeat s (length l) | None => [] end).
      { induction l as [|sg' l IH]; intros Hl; cbn; [now destruct (snd sg0)|].
        rewrite (Hl sg') by now left. rewrite IH by (intros; apply Hl; now right). now destruct (snd sg0). }
      rewrite (G _ E). destruct (snd sg0) as [s|]; [|reflexivity]. cbn [length repeat].
      replace (forallb (shape_eqb s) (repeat s (length sigs'))) with true; [reflexivity|].
      symmetry. apply forallb_forall. intros s' Hs'. apply repeat_spec in Hs'. subst. apply shape_eqb_refl. }
    rewrite Hm. cbn [bind]. now destruct sg0.
  Qed.
  (* Scan equals the Chain of its unstacked layers *)
  Theorem scan_is_chain bs d x c sg : sig_of (Scan bs) = Ok sg -> run O (Scan bs) d x c = run O (Chain bs) d x c.
  Proof.
    intros Hs. cbn [run]. rewrite Hs. cbn [sig_of] in *.
    destruct (mapr sig_of bs) as [sigs|]; cbn [bind] in *; [|discriminate].
    now rewrite (same_sig_chain_sig sigs sg Hs).
  Qed.
  Theorem scan_den bs d x c : den O (Scan bs) d x c = den O (Chain bs) d x c.
  Proof. reflexivity. Qed.

  (* ---------- Partial: only the indexed entries change ---------- *)
  Theorem partial_frame ix s b d x c y l rs I :
    run O (Partial ix s b) d x c = Ok (y, l) -> resolve_idx ix s = Some rs -> ~ hit rs I -> tget y I = tget x I.
  Proof.
    intros H Hr Hh. destruct (shape_sound _ _ _ _ _ _ H) as (sg & Hs & Hx & Hc & Hy & -> & _).
    cbn [den]. rewrite Hr. cbn [fst]. now apply tscatter_frame.
  Qed.

  (* ... and the indexed entries are exactly the child's image of the indexed entries (in-range, distinct positions) *)
  Theorem partial_hit ix s b d x c sg rs :
    sig_of (Partial ix s b) = Ok sg -> has_shape (fst sg) x = true -> cond_ok (snd sg) c ->
    resolve_idx ix s = Some rs -> rs_ok rs s ->
    tgather rs (fst (den O (Partial ix s b) d x c)) = fst (den O b d (tgather rs x) c).
  Proof.
    intros Hs Hx Hc Hr Hok. cbn [den]. rewrite Hr. cbn [fst]. cbn [sig_of] in Hs.
    destruct (sig_of b) as [sgb|] eqn:Eb; cbn [bind] in Hs; [|discriminate].
    unfold partial_sig in Hs. destruct (idx_supported ix); [|discriminate]. rewrite Hr in Hs.
    destruct (shape_eqb (idx_shape rs s) (fst sgb)) eqn:Ee; [|discriminate]. injection Hs as <-.
    apply shape_eqb_eq in Ee. cbn [fst snd] in *.
    apply (gather_scatter ix s rs); auto. rewrite Ee.
    apply (den_shape b d _ c sgb Eb); [|exact Hc]. rewrite <- Ee. eapply tgather_shape; eauto.
  Qed.

  (* ---------- Reshape only re-presents ---------- *)
  Theorem reshape_represents os cs b d x c sg :
    sig_of (Reshape os cs b) = Ok sg -> has_shape (fst sg) x = true -> cond_ok (snd sg) c ->
    exists c', flatten (fst (den O (Reshape os cs b) d x c)) = flatten (fst (den O b d (treshape (shape_d b) x) c')) /\
               flatten (treshape (shape_d b) x) = flatten x /\
               match c, c' with Some cv, Some cv' => flatten cv' = flatten cv | None, None => True | _, _ => False end.
  Proof.
    intros Hs Hx Hc.
    assert (Hd : shape_d (Reshape os cs b) = fst sg) by (unfold shape_d; now rewrite Hs).
    assert (Hdc : cshape_d (Reshape os cs b) = snd sg) by (unfold cshape_d; now rewrite Hs).
    cbn [den]. rewrite Hd, Hdc. cbn [sig_of] in Hs.
    destruct (sig_of b) as [sgb|] eqn:Eb; cbn [bind] in Hs; [|discriminate].
    assert (Hdb : shape_d b = fst sgb) by (unfold shape_d; now rewrite Eb).
    assert (Hdcb : cshape_d b = snd sgb) by (unfold cshape_d; now rewrite Eb).
    rewrite Hdb, Hdcb. unfold reshape_sig in Hs.
    set (s' := match os with Some x0 => x0 | None => fst sgb end) in *.
    set (cs' := match cs with Some x0 => Some x0 | None => snd sgb end) in *.
    assert (Hs' : prodn s' = prodn (fst sgb) /\ sg = (s', cs') /\
                  match cs', snd sgb with Some a, Some b0 => prodn a = prodn b0 | Some _, None => False | None, _ => True end).
    { destruct (snd sgb) as [csb|] eqn:E1, cs' as [a|] eqn:E2; try discriminate;
      destruct (Nat.eqb (prodn s') (prodn (fst sgb))) eqn:E3; try discriminate; apply Nat.eqb_eq in E3.
      - destruct (Nat.eqb (prodn a) (prodn csb)) eqn:E4; [|discriminate]. apply Nat.eqb_eq in E4. injection Hs as <-. auto.
      - injection Hs as <-. auto.
      - injection Hs as <-. auto. }
    destruct Hs' as (Ep & -> & Ec). cbn [fst snd] in *.
    set (c' := match cs', c, snd sgb with Some _, Some cv, Some csb => Some (treshape csb cv) | _, _, _ => c end).
    exists c'. split; [|split].
    - eapply treshape_flatten; [|exact Ep].
      apply (den_shape b d _ c' sgb Eb); [eapply treshape_shape; eauto|].
      subst c'. destruct cs' as [a|] eqn:E2.
      + destruct (snd sgb) as [csb|] eqn:E1; [|destruct Ec]. destruct Hc as (cv & -> & Hcv).
        eexists; split; [reflexivity|]. eapply treshape_shape; eauto.
      + destruct (snd sgb) as [csb|] eqn:E1; [|exact I]. subst cs'. destruct cs; discriminate.
    - eapply treshape_flatten; eauto.
    - subst c'. destruct cs' as [a|] eqn:E2.
      + destruct (snd sgb) as [csb|] eqn:E1; [|destruct Ec]. destruct Hc as (cv & -> & Hcv).
        eapply treshape_flatten; eauto.
      + destruct c; auto.
  Qed.

  (* ---------- Chain: composition, log-dets add, slicing ---------- *)
  Section Monoid.
    (* laws of the carrier's addition (true of R; true of float64 on the exactly representable values used by the tie) *)
    Hypothesis add_0_r : forall a, n_add O a (zero O) = a.
    Hypothesis add_assoc : forall a1 a2 a3 : A, n_add O a1 (n_add O a2 a3) = n_add O (n_add O a1 a2) a3.

    Lemma den_fold_fwd_shift bs c : forall y l l0,
      fold_left (fun acc b' => den_step O (fun z => den O b' Fwd z c) acc) bs (y, n_add O l0 l) =
      (fst (fold_left (fun acc b' => den_step O (fun z => den O b' Fwd z c) acc) bs (y, l)),
       n_add O l0 (snd (fold_left (fun acc b' => den_step O (fun z => den O b' Fwd z c) acc) bs (y, l)))).
    Proof.
      induction bs as [|b bs IH]; intros y l l0; cbn [fold_left]; [reflexivity|].
      unfold den_step at 2 4 6. cbn [fst snd]. rewrite <- add_assoc. apply IH.
    Qed.
    (* Chain(bs1 ++ bs2) = Chain(bs2) after Chain(bs1); the log-dets add *)
    Theorem chain_app_fwd bs1 bs2 x c :
      den O (Chain (bs1 ++ bs2)) Fwd x c =
      let r1 := den O (Chain bs1) Fwd x c in
      let r2 := den O (Chain bs2) Fwd (fst r1) c in
      (fst r2, n_add O (snd r1) (snd r2)).
    Proof.
      cbn [den]. rewrite fold_left_app. cbn zeta.
      destruct (fold_left (fun acc b' => den_step O (fun z => den O b' Fwd z c) acc) bs1 (x, zero O)) as [y1 l1] eqn:E1.
      cbn [fst snd]. rewrite <- (add_0_r l1) at 1. apply den_fold_fwd_shift.
    Qed.
    (* chain[:i] then chain[i:] is the chain: slicing never changes the function *)
    Corollary chain_slice_fwd bs i x c :
      den O (Chain bs) Fwd x c =
      let r1 := den O (Chain (firstn i bs)) Fwd x c in
      let r2 := den O (Chain (skipn i bs)) Fwd (fst r1) c in
      (fst r2, n_add O (snd r1) (snd r2)).
    Proof. rewrite <- (firstn_skipn i bs) at 1. apply chain_app_fwd. Qed.
    (* a nested chain can be spliced into its parent: one pass of merge_chains *)
    Lemma chain_step_nested bs c y l :
      den_step O (fun z => den O (Chain bs) Fwd z c) (y, l) =
      fold_left (fun acc b' => den_step O (fun z => den O b' Fwd z c) acc) bs (y, l).
    Proof.
      unfold den_step at 1. cbn [fst snd den]. rewrite <- (add_0_r l) at 2. rewrite den_fold_fwd_shift. reflexivity.
    Qed.
    Theorem merge_pass_fwd bs x c : den O (Chain (merge_pass bs)) Fwd x c = den O (Chain bs) Fwd x c.
    Proof.
      cbn [den]. generalize (x, zero O). induction bs as [|b bs IH]; intros acc; [reflexivity|].
      cbn [merge_pass flat_map fold_left]. change (flat_map _ bs) with (merge_pass bs).
      destruct b; try (cbn [app fold_left]; apply IH).
      rewrite fold_left_app. rewrite IH. f_equal. destruct acc as [y l]. symmetry. apply chain_step_nested.
    Qed.
    Theorem merge_loop_fwd fuel : forall bs x c, den O (Chain (merge_loop fuel bs)) Fwd x c = den O (Chain bs) Fwd x c.
    Proof.
      induction fuel as [|f IH]; intros bs x c; cbn [merge_loop]; destruct (existsb is_chain bs); try reflexivity.
      rewrite IH. apply merge_pass_fwd.
    Qed.
    Theorem merge_chains_fwd bs x c : den O (merge_chains bs) Fwd x c = den O (Chain bs) Fwd x c.
    Proof. apply merge_loop_fwd. Qed.

    (* the same for the inverse direction (children in reverse order) *)
    Lemma den_fold_inv_shift bs c : forall y l l0,
      fold_right (fun b' acc => den_step O (fun z => den O b' Inv z c) acc) (y, n_add O l0 l) bs =
      (fst (fold_right (fun b' acc => den_step O (fun z => den O b' Inv z c) acc) (y, l) bs),
       n_add O l0 (snd (fold_right (fun b' acc => den_step O (fun z => den O b' Inv z c) acc) (y, l) bs))).
    Proof.
      induction bs as [|b bs IH]; intros y l l0; cbn [fold_right]; [reflexivity|].
      rewrite IH. unfold den_step. cbn [fst snd]. now rewrite add_assoc.
    Qed.
    Theorem chain_app_inv bs1 bs2 x c :
      den O (Chain (bs1 ++ bs2)) Inv x c =
      let r2 := den O (Chain bs2) Inv x c in
      let r1 := den O (Chain bs1) Inv (fst r2) c in
      (fst r1, n_add O (snd r2) (snd r1)).
    Proof.
      cbn [den]. rewrite fold_right_app. cbn zeta.
      destruct (fold_right (fun b' acc => den_step O (fun z => den O b' Inv z c) acc) (x, zero O) bs2) as [y2 l2] eqn:E2.
      cbn [fst snd]. rewrite <- (add_0_r l2) at 1. apply den_fold_inv_shift.
    Qed.
    Lemma chain_step_nested_inv bs c y l :
      den_step O (fun z => den O (Chain bs) Inv z c) (y, l) =
      fold_right (fun b' acc => den_step O (fun z => den O b' Inv z c) acc) (y, l) bs.
    Proof.
      unfold den_step at 1. cbn [fst snd den]. rewrite <- (add_0_r l) at 2. rewrite den_fold_inv_shift. reflexivity.
    Qed.
    Theorem merge_pass_inv bs x c : den O (Chain (merge_pass bs)) Inv x c = den O (Chain bs) Inv x c.
    Proof.
      cbn [den]. generalize (x, zero O). induction bs as [|b bs IH]; intros acc; [reflexivity|].
      cbn [merge_pass flat_map fold_right]. change (flat_map _ bs) with (merge_pass bs).
      destruct b; try (cbn [app fold_right]; now rewrite IH).
      rewrite fold_right_app. rewrite IH.
      destruct (fold_right (fun b' acc0 => den_step O (fun z => den O b' Inv z c) acc0) acc bs) as [y l].
      symmetry. apply chain_step_nested_inv.
    Qed.
    Theorem merge_chains_same bs d x c : den O (merge_chains bs) d x c = den O (Chain bs) d x c.
    Proof.
      unfold merge_chains. generalize (fold_right Nat.max 0 (map chain_depth bs)) as fuel. intros fuel. revert bs.
      induction fuel as [|f IH]; intros bs; cbn [merge_loop]; destruct (existsb is_chain bs); try reflexivity.
      rewrite IH. destruct d; [apply merge_pass_fwd | apply merge_pass_inv].
    Qed.
  End Monoid.
End C.

(* ---------- constructors: when do they raise (C13), what shape do they declare (C08) ---------- *)
Section Ctor.
  Context {A : Type}.
  Notation bij := (bij A).

  Lemma In_somes {X} (l : list (option X)) v : In v (somes l) <-> In (Some v) l.
  Proof.
    induction l as [|[a|] l IH]; cbn; [tauto| |].
    - rewrite IH. split; intros [H|H]; auto; left; congruence.
    - rewrite IH. split; [auto|]. intros [H|H]; [discriminate|auto].
  Qed.
  (* merge_cond_shapes succeeds iff there is at least one shape and all non-None shapes are equal *)
  Theorem merge_cond_iff (l : list (option shape)) :
    (exists cs, merge_cond_shapes l = Ok cs) <->
    l <> [] /\ (forall s1 s2, In (Some s1) l -> In (Some s2) l -> s1 = s2).
  Proof.
    unfold merge_cond_shapes. destruct l as [|o l]; [split; [intros [cs H]; discriminate | intros [H _]; congruence]|].
    destruct (somes (o :: l)) as [|s0 r] eqn:Es.
    - split; [|eauto]. intros _. split; [discriminate|]. intros s1 s2 H1 _. apply In_somes in H1. rewrite Es in H1. destruct H1.
    - destruct (forallb (shape_eqb s0) r) eqn:Ef.
      + split; [|eauto]. intros _. split; [discriminate|]. rewrite forallb_forall in Ef.
        assert (G : forall s, In (Some s) (o :: l) -> s = s0).
        { intros s H. apply In_somes in H. rewrite Es in H. destruct H as [H|H]; [auto|]. apply Ef, shape_eqb_eq in H. auto. }
        intros s1 s2 H1 H2. rewrite (G s1 H1), (G s2 H2). reflexivity.
      + split; [intros [cs H]; discriminate|]. intros [_ H]. exfalso.
        assert (Ht : forallb (shape_eqb s0) r = true); [|congruence].
        apply forallb_forall. intros s Hs. apply shape_eqb_eq. apply H; apply In_somes; rewrite Es; [now left | now right].
  Qed.
  Theorem merge_cond_value (l : list (option shape)) cs : merge_cond_shapes l = Ok cs ->
    (cs = None <-> forall o, In o l -> o = None) /\ (forall s, cs = Some s -> In (Some s) l).
  Proof.
    unfold merge_cond_shapes. destruct l as [|o l]; [discriminate|].
    destruct (somes (o :: l)) as [|s0 r] eqn:Es.
    - intros [= <-]. split; [|discriminate]. split; [|reflexivity]. intros _ [s|] Hin; [|reflexivity].
      apply In_somes in Hin. rewrite Es in Hin. destruct Hin.
    - destruct (forallb (shape_eqb s0) r); [|discriminate]. intros [= <-]. split.
      + split; [discriminate|]. intros H. assert (Hin : In (Some s0) (o :: l)) by (apply In_somes; rewrite Es; now left).
        apply H in Hin. discriminate.
      + intros s [= <-]. apply In_somes. rewrite Es. now left.
  Qed.

  Lemma mapr_ok_or_err {X Y} (f : X -> res Y) l : (exists r, mapr f l = Ok r) \/ (exists e, mapr f l = Err e).
  Proof. destruct (mapr f l); eauto. Qed.

  (* Chain(bs) constructs iff every child constructs, there is at least one, all shapes are equal and the
     non-None cond_shapes are equal *)
  Theorem chain_ctor_iff (bs : list bij) :
    (exists sg, sig_of (Chain bs) = Ok sg) <->
    exists sigs, mapr sig_of bs = Ok sigs /\ sigs <> [] /\
      (forall a b, In a sigs -> In b sigs -> fst a = fst b) /\
      (forall s1 s2, In (Some s1) (map snd sigs) -> In (Some s2) (map snd sigs) -> s1 = s2).
  Proof.
    cbn [sig_of]. destruct (mapr sig_of bs) as [sigs|e]; cbn [bind].
    2:{ split; [intros [sg H]; discriminate | intros (sigs & H & _); discriminate]. }
    unfold chain_sig. split.
    - intros [sg H]. exists sigs. split; [reflexivity|].
      destruct (check_shapes_match (map fst sigs)) eqn:Ec; [|discriminate].
      destruct sigs as [|sg0 sigs']; [discriminate|]. split; [discriminate|].
      destruct (merge_cond_shapes (map snd (sg0 :: sigs'))) as [cs|] eqn:Em; cbn [bind] in H; [|discriminate].
      split.
      + cbn [check_shapes_match map] in Ec. rewrite forallb_forall in Ec.
        assert (G : forall a, In a (sg0 :: sigs') -> fst a = fst sg0).
        { intros a Ha. symmetry. apply shape_eqb_eq, Ec. change (fst sg0 :: map fst sigs') with (map fst (sg0 :: sigs')). now apply in_map. }
        intros a b Ha Hb. now rewrite (G a Ha), (G b Hb).
      + apply merge_cond_iff. eauto.
    - intros (sigs' & [= <-] & Hne & Hsh & Hcs).
      assert (Ec : check_shapes_match (map fst sigs) = true).
      { destruct sigs as [|sg0 sigs']; [reflexivity|]. cbn [check_shapes_match map]. apply forallb_forall. intros s Hs.
        change (fst sg0 :: map fst sigs') with (map fst (sg0 :: sigs')) in Hs. apply in_map_iff in Hs as (a & <- & Ha).
        apply shape_eqb_eq. apply Hsh; [now left | exact Ha]. }
      rewrite Ec. destruct sigs as [|sg0 sigs']; [congruence|].
      destruct (proj2 (merge_cond_iff (map snd (sg0 :: sigs')))) as [cs Hm]; [split; [discriminate | exact Hcs]|].
      rewrite Hm. cbn [bind]. eauto.
  Qed.

  (* Stack(bs, axis) declares jnp.stack's shape: the new axis sits at axis mod (rank + 1) *)
  Theorem stack_declared_shape axis (bs : list bij) sg : sig_of (Stack axis bs) = Ok sg ->
    exists sigs s0, mapr sig_of bs = Ok sigs /\ (forall a, In a sigs -> fst a = s0) /\ sigs <> [] /\
      (- Z.of_nat (length s0) - 1 <= axis <= Z.of_nat (length s0))%Z /\
      let k := Z.to_nat (axis mod (Z.of_nat (length s0) + 1)) in
      fst sg = firstn k s0 ++ length bs :: skipn k s0.
  Proof.
    cbn [sig_of]. destruct (mapr sig_of bs) as [sigs|e] eqn:Em; cbn [bind]; [|discriminate].
    unfold stack_sig. destruct (stack_info axis (map fst sigs)) as [[k s]|] eqn:Ei; cbn [bind]; [|discriminate].
    destruct (merge_cond_shapes (map snd sigs)) as [cs|]; cbn [bind]; [|discriminate]. intros [= <-]. cbn [fst].
    destruct (stack_info_spec _ _ _ _ Ei) as (s0 & pre & post & Hhd & Hk & Lp & -> & Fsh & ->).
    destruct (py_range_index_spec _ _ _ Hk) as (Hlt & Hr & Ek).
    exists sigs, (pre ++ post). split; [reflexivity|]. split; [|split; [|split]].
    - intros a Ha. rewrite Forall_forall in Fsh. apply Fsh. now apply in_map.
    - destruct sigs; [discriminate|discriminate].
    - lia.
    - cbn zeta. replace (Z.of_nat (length (pre ++ post)) + 1)%Z with (Z.of_nat (length (pre ++ post) + 1)) by lia.
      rewrite <- Ek, <- Lp. rewrite firstn_app, Nat.sub_diag, firstn_all, firstn_O, app_nil_r.
      rewrite skipn_app, Nat.sub_diag, skipn_all. cbn [skipn app].
      rewrite map_length. f_equal. f_equal. apply mapr_Forall2, Forall2_length' in Em. now rewrite Em.
  Qed.
  (* Stack(bs, axis) constructs iff the children construct, there is one, the shapes are equal, the axis is
     in -(r+1)..r and the cond_shapes merge *)
  Theorem stack_ctor_iff axis (bs : list bij) :
    (exists sg, sig_of (Stack axis bs) = Ok sg) <->
    exists sigs s0, mapr sig_of bs = Ok sigs /\ sigs <> [] /\ (forall a, In a sigs -> fst a = s0) /\
      (- Z.of_nat (length s0) - 1 <= axis <= Z.of_nat (length s0))%Z /\
      (forall s1 s2, In (Some s1) (map snd sigs) -> In (Some s2) (map snd sigs) -> s1 = s2).
  Proof.
    split.
    - intros [sg H]. destruct (stack_declared_shape _ _ _ H) as (sigs & s0 & Hm & Hs & Hne & Hax & _).
      exists sigs, s0. repeat split; auto; try lia.
      cbn [sig_of] in H. rewrite Hm in H. cbn [bind] in H. unfold stack_sig in H.
      destruct (stack_info axis (map fst sigs)); cbn [bind] in H; [|discriminate].
      destruct (merge_cond_shapes (map snd sigs)) as [cs|] eqn:Emc; cbn [bind] in H; [|discriminate].
      apply merge_cond_iff. eauto.
    - intros (sigs & s0 & Hm & Hne & Hs & Hax & Hcs). cbn [sig_of]. rewrite Hm. cbn [bind]. unfold stack_sig, stack_info.
      destruct sigs as [|sg0 sigs']; [congruence|].
      assert (Ec : check_shapes_match (map fst (sg0 :: sigs')) = true).
      { cbn [check_shapes_match map]. apply forallb_forall. intros s Hin.
        change (fst sg0 :: map fst sigs') with (map fst (sg0 :: sigs')) in Hin. apply in_map_iff in Hin as (a & <- & Ha).
        apply shape_eqb_eq. rewrite (Hs a Ha). apply Hs. now left. }
      rewrite Ec. cbn [map]. rewrite (Hs sg0) by now left.
      destruct (py_range_index_complete (length s0 + 1) axis) as [k Hk]; [lia|]. rewrite Hk. cbn [bind].
      destruct (proj2 (merge_cond_iff (map snd (sg0 :: sigs')))) as [cs Hmc]; [split; [discriminate | exact Hcs]|].
      cbn [map] in Hmc. rewrite Hmc. cbn [bind]. eauto.
  Qed.

  (* Concatenate: declared shape, and the constructor's condition: shapes agree off the (normalised) axis *)
  Theorem concat_declared_shape axis (bs : list bij) sg : sig_of (Concat axis bs) = Ok sg ->
    exists sigs pre post sizes, mapr sig_of bs = Ok sigs /\ sigs <> [] /\
      Forall2 (fun a n => fst a = pre ++ n :: post) sigs sizes /\
      (- Z.of_nat (S (length pre + length post)) <= axis < Z.of_nat (S (length pre + length post)))%Z /\
      length pre = Z.to_nat (axis mod Z.of_nat (S (length pre + length post))) /\
      fst sg = pre ++ sumn sizes :: post.
  Proof.
    cbn [sig_of]. destruct (mapr sig_of bs) as [sigs|e] eqn:Em; cbn [bind]; [|discriminate].
    unfold concat_sig. destruct (concat_info axis (map fst sigs)) as [[[k s] pts]|] eqn:Ei; cbn [bind]; [|discriminate].
    destruct (merge_cond_shapes (map snd sigs)) as [cs|]; cbn [bind]; [|discriminate]. intros [= <-]. cbn [fst].
    destruct (concat_info_spec _ _ _ _ _ Ei) as (s0 & pre & post & sizes & Hhd & Hk & Lp & F & -> & _).
    exists sigs, pre, post, sizes. split; [reflexivity|].
    assert (Hs0 : exists n0, s0 = pre ++ n0 :: post).
    { destruct sigs as [|a sigs']; [discriminate|]. cbn in Hhd. injection Hhd as <-. inversion F; subst. eauto. }
    destruct Hs0 as [n0 ->]. rewrite app_length in Hk. cbn [length] in Hk. rewrite Nat.add_succ_r in Hk.
    destruct (py_range_index_spec _ _ _ Hk) as (_ & Hr & Ek).
    split; [destruct sigs; [discriminate|discriminate]|]. split; [|split; [exact Hr|split; [congruence|reflexivity]]].
    clear -F. remember (map fst sigs) as shapes eqn:E. revert sigs E.
    induction F as [|sh n shapes sizes Hn _ IH]; intros [|a sigs] E; try discriminate; constructor.
    - injection E as -> _. exact Hn.
    - apply IH. now injection E.
  Qed.
  Theorem concat_ctor_conv axis (bs : list bij) sigs pre post sizes :
    mapr sig_of bs = Ok sigs -> sigs <> [] -> Forall2 (fun a n => fst a = pre ++ n :: post) sigs sizes ->
    py_range_index (S (length pre + length post)) axis = Some (length pre) ->
    (forall s1 s2, In (Some s1) (map snd sigs) -> In (Some s2) (map snd sigs) -> s1 = s2) ->
    exists cs, sig_of (Concat axis bs) = Ok (pre ++ sumn sizes :: post, cs).
  Proof.
    intros Hm Hne F Hk Hcs. cbn [sig_of]. rewrite Hm. cbn [bind]. unfold concat_sig.
    assert (Hi : concat_info axis (map fst sigs) = Ok (length pre, pre ++ sumn sizes :: post, accumulate (removelast sizes))).
    { unfold concat_info. destruct sigs as [|a sigs']; [congruence|]. cbn [map].
      inversion F as [|? n0 ? sizes' Ha F']; subst. destruct a as [sa ca]. cbn [fst snd] in *. subst sa.
      rewrite app_length. cbn [length]. rewrite Nat.add_succ_r, Hk.
      assert (Hoff : forall n, off_axis (pre ++ n :: post) (length pre) = pre ++ post).
      { intros n. unfold off_axis, zk. rewrite pslice_firstn, pslice_skipn, Nat.add_1_r.
        rewrite firstn_app, Nat.sub_diag, firstn_all, firstn_O, app_nil_r. f_equal.
        replace (S (length pre)) with (length (pre ++ [n])) by (rewrite app_length; cbn; lia).
        replace (pre ++ n :: post) with ((pre ++ [n]) ++ post) by (now rewrite <- app_assoc).
        rewrite skipn_app, Nat.sub_diag, skipn_all. reflexivity. }
      assert (Hall : forall sh, In sh ((pre ++ n0 :: post) :: map fst sigs') -> exists n, sh = pre ++ n :: post).
      { intros sh [<-|Hin]; [eauto|]. apply in_map_iff in Hin as (b & <- & Hb).
        clear -F' Hb. induction F' as [|b' n sigs' sizes' Hb' _ IH]; [destruct Hb|]. destruct Hb as [->|Hb]; eauto. }
      replace (forallb _ ((pre ++ n0 :: post) :: map fst sigs')) with true.
      2:{ symmetry. apply forallb_forall. intros sh Hin. destruct (Hall sh Hin) as [n ->]. rewrite !Hoff. apply shape_eqb_refl. }
      assert (Hmo : mapo (fun s : list nat => nth_error s (length pre)) ((pre ++ n0 :: post) :: map fst sigs') = Some (n0 :: sizes')).
      { cbn [mapo]. rewrite nth_error_app2, Nat.sub_diag by lia. cbn [nth_error].
        replace (mapo _ (map fst sigs')) with (Some sizes'); [reflexivity|]. symmetry.
        clear -F'. induction F' as [|b' n sigs' sizes' Hb' _ IH]; cbn; [reflexivity|].
        destruct b' as [sb cb]. cbn [fst] in *. subst sb.
        rewrite nth_error_app2, Nat.sub_diag by lia. cbn [nth_error]. cbn in IH. now rewrite IH. }
      match goal with |- context [mapo ?f ?l] => replace (mapo f l) with (Some (n0 :: sizes')) by (symmetry; exact Hmo) end.
      unfold zk. rewrite pslice_firstn, pslice_skipn, Nat.add_1_r.
      rewrite firstn_app, Nat.sub_diag, firstn_all, firstn_O, app_nil_r.
      replace (S (length pre)) with (length (pre ++ [n0])) by (rewrite app_length; cbn; lia).
      replace (pre ++ n0 :: post) with ((pre ++ [n0]) ++ post) by (now rewrite <- app_assoc).
      rewrite skipn_app, Nat.sub_diag, skipn_all. reflexivity. }
    rewrite Hi. cbn [bind].
    destruct (proj2 (merge_cond_iff (map snd sigs))) as [cs Hmc].
    { split; [|exact Hcs]. destruct sigs; [congruence|discriminate]. }
    rewrite Hmc. cbn [bind fst snd]. eauto.
  Qed.

  (* Reshape: element counts must agree; no cond_shape for an unconditional bijection *)
  Theorem reshape_ctor_iff os cs (b : bij) :
    (exists sg, sig_of (Reshape os cs b) = Ok sg) <->
    exists sgb, sig_of b = Ok sgb /\
      prodn (match os with Some s => s | None => fst sgb end) = prodn (fst sgb) /\
      match snd sgb, cs with
      | None, Some _ => False
      | Some csb, Some c' => prodn c' = prodn csb
      | _, None => True
      end.
  Proof.
    cbn [sig_of]. destruct (sig_of b) as [sgb|e]; cbn [bind].
    2:{ split; [intros [sg H]; discriminate | intros (sgb & H & _); discriminate]. }
    unfold reshape_sig. split.
    - intros [sg H]. exists sgb. split; [reflexivity|].
      destruct (snd sgb) as [csb|], cs as [c'|]; try discriminate;
        (match type of H with context [Nat.eqb ?a ?b] => destruct (Nat.eqb a b) eqn:E end; [|discriminate]);
        apply Nat.eqb_eq in E; (split; [exact E|]); auto.
      match type of H with context [Nat.eqb ?a ?b] => destruct (Nat.eqb a b) eqn:E2 end; [|discriminate].
      now apply Nat.eqb_eq.
    - intros (sgb' & [= <-] & Hp & Hc). apply Nat.eqb_eq in Hp.
      destruct (snd sgb) as [csb|], cs as [c'|]; try destruct Hc;
        (match goal with |- context [Nat.eqb ?a ?b] => replace (Nat.eqb a b) with true by (symmetry; exact Hp) end).
      + match goal with |- context [Nat.eqb ?a ?b] => replace (Nat.eqb a b) with true by (symmetry; now apply Nat.eqb_eq) end. eauto.
      + rewrite Nat.eqb_refl. eauto.
      + eauto.
  Qed.

  (* Partial: the index must fit the shape and select exactly the child's shape *)
  Theorem partial_ctor_iff ix s (b : bij) : idx_supported ix = true ->
    ((exists sg, sig_of (Partial ix s b) = Ok sg) <->
     exists sgb rs, sig_of b = Ok sgb /\ resolve_idx ix s = Some rs /\ idx_shape rs s = fst sgb).
  Proof.
    intros Hsup. cbn [sig_of]. destruct (sig_of b) as [sgb|e]; cbn [bind].
    2:{ split; [intros [sg H]; discriminate | intros (sgb & rs & H & _); discriminate]. }
    unfold partial_sig. rewrite Hsup. destruct (resolve_idx ix s) as [rs|].
    - destruct (shape_eqb (idx_shape rs s) (fst sgb)) eqn:E.
      + apply shape_eqb_eq in E. split; [intros _; exists sgb, rs; auto | eauto].
      + split; [intros [sg H]; discriminate|]. intros (sgb' & rs' & [= <-] & [= <-] & H).
        apply shape_eqb_eq in H. congruence.
    - split; [intros [sg H]; discriminate | intros (sgb' & rs' & _ & H & _); discriminate].
  Qed.

  (* Vmap: declared shapes; the condition axis is normalised like jax.vmap does *)
  Theorem vmap_declared_cshape n s a cs : vmap_cshape n (Some s) (Some a) = Ok cs ->
    (- Z.of_nat (length s) - 1 <= a <= Z.of_nat (length s))%Z /\
    let k := Z.to_nat (a mod (Z.of_nat (length s) + 1)) in cs = Some (firstn k s ++ n :: skipn k s).
  Proof.
    unfold vmap_cshape. destruct (py_range_index (length s + 1) a) as [k|] eqn:Ek; [|discriminate]. intros [= <-].
    destruct (py_range_index_spec _ _ _ Ek) as (Hlt & Hr & Ekk). split; [lia|]. cbn zeta.
    replace (Z.of_nat (length s) + 1)%Z with (Z.of_nat (length s + 1)) by lia. rewrite <- Ekk.
    unfold zk. now rewrite pslice_firstn, pslice_skipn.
  Qed.

  (* the formulas before the repairs (findings D3, D4) disagree with jnp.stack / jax.vmap on a negative axis *)
  Theorem stack_shape_old_refuted : exists (axis : Z) (s0 : shape) (n : nat),
    (- Z.of_nat (length s0) - 1 <= axis <= Z.of_nat (length s0))%Z /\
    exists k s, stack_info axis (repeat s0 n) = Ok (k, s) /\ stack_shape_old axis s0 n <> s.
  Proof.
    exists (-1)%Z, [2; 3], 2. split; [cbn; lia|]. exists 2, [2; 3; 2]. split; [vm_compute; reflexivity|].
    vm_compute. discriminate.
  Qed.
  Theorem vmap_cshape_old_refuted : exists (n : nat) (s : shape) (a : Z),
    (- Z.of_nat (length s) - 1 <= a <= Z.of_nat (length s))%Z /\
    exists cs, vmap_cshape n (Some s) (Some a) = Ok (Some cs) /\ vmap_cshape_old n s a <> cs.
  Proof.
    exists 3, [2], (-1)%Z. split; [cbn; lia|]. exists [2; 3]. split; [vm_compute; reflexivity|].
    vm_compute. discriminate.
  Qed.
  (* ... and coincide with them for a non-negative axis, which is why the suite never noticed *)
  Theorem stack_shape_old_nonneg axis s0 n k s : (0 <= axis)%Z ->
    stack_info axis (repeat s0 (S n)) = Ok (k, s) -> stack_shape_old axis s0 (S n) = s.
  Proof.
    intros Hax H. unfold stack_info in H. destruct (check_shapes_match (repeat s0 (S n))); [|discriminate].
    cbn [repeat] in H. destruct (py_range_index (length s0 + 1) axis) as [k'|] eqn:Ek; [|discriminate].
    injection H as <- <-. unfold stack_shape_old, zk. cbn [length]. rewrite repeat_length.
    unfold py_range_index in Ek. destruct (axis <? 0)%Z eqn:E; [lia|].
    destruct ((0 <=? axis)%Z && (axis <? Z.of_nat (length s0 + 1))%Z); [|discriminate]. injection Ek as <-.
    rewrite Z2Nat.id by lia. reflexivity.
  Qed.
End Ctor.

(* merge_chains terminates with no nested Chain left at the top level (the fuel = nesting depth suffices) *)
Section Flat.
  Context {A : Type}.
  Notation bij := (bij A).
  Definition maxdepth (bs : list bij) : nat := fold_right Nat.max 0 (map chain_depth bs).
  Lemma is_chain_depth (bs : list bij) : existsb is_chain bs = false <-> maxdepth bs = 0.
  Proof.
    unfold maxdepth. induction bs as [|b bs IH]; cbn [existsb map fold_right]; [tauto|].
    rewrite orb_false_iff, IH.
    destruct b; cbn [is_chain chain_depth]; (split; [intros [H1 H2]; try discriminate; lia | intros H; split; [try reflexivity; lia | lia]]).
  Qed.
  Lemma merge_pass_depth (bs : list bij) : maxdepth (merge_pass bs) <= pred (maxdepth bs).
  Proof.
    unfold maxdepth. induction bs as [|b bs IH]; cbn [merge_pass flat_map map fold_right]; [lia|].
    change (flat_map _ bs) with (merge_pass bs). rewrite map_app.
    assert (G : forall l1 l2 : list nat, fold_right Nat.max 0 (l1 ++ l2) = Nat.max (fold_right Nat.max 0 l1) (fold_right Nat.max 0 l2)).
    { induction l1; intros; cbn; [reflexivity|]. rewrite IHl1. lia. }
    rewrite G. destruct b; cbn [chain_depth map fold_right]; try lia.
  Qed.
  Theorem merge_loop_flat fuel : forall bs : list bij, maxdepth bs <= fuel -> existsb is_chain (merge_loop fuel bs) = false.
  Proof.
    induction fuel as [|f IH]; intros bs H; cbn [merge_loop]; destruct (existsb is_chain bs) eqn:E; auto.
    - exfalso. assert (E' : maxdepth bs = 0) by lia. apply is_chain_depth in E'. congruence.
    - apply IH. pose proof (merge_pass_depth bs). lia.
  Qed.
  Theorem merge_chains_flat (bs : list bij) : exists l, merge_chains bs = Chain l /\ existsb is_chain l = false.
  Proof. eexists. split; [reflexivity|]. apply merge_loop_flat. apply le_n. Qed.
End Flat.

(* an exact carrier for the non-vacuity examples: the integers (transcendentals are not used by them) *)
Definition ZOps : NumOps Z := {|
  n_add := Z.add; n_sub := Z.sub; n_mul := Z.mul; n_div := Z.div; n_neg := Z.opp; n_abs := Z.abs; n_sign := Z.sgn;
  n_exp := fun z => z; n_log := fun _ => 0%Z; n_tanh := fun z => z; n_atanh := fun z => z; n_softplus := fun z => z;
  n_log1p := fun z => z; n_expm1 := fun z => z; n_sqrt := Z.sqrt; n_lgamma := fun z => z; n_pi := 3%Z;
  n_leb := Z.leb; n_ltb := Z.ltb; n_eqb := Z.eqb; n_ofZ := fun z => z |}.
Definition zt (s : shape) (l : list Z) : tensor Z := unflatten s l.

(* ---------- merge_chains constructs whenever the chain does, with the same declared shapes; hence the
   statement about [den] transfers to [run] for ALL inputs ---------- *)
Section MergeSig.
  Context {A : Type} (O : NumOps A).
  Notation bij := (bij A).
  Notation tens := (tensor A).

  Lemma mapr_app {X Y} (f : X -> res Y) l1 l2 :
    mapr f (l1 ++ l2) = do r1 <- mapr f l1; do r2 <- mapr f l2; Ok (r1 ++ r2).
  Proof.
    induction l1 as [|a l1 IH]; cbn [app mapr bind].
    - destruct (mapr f l2); reflexivity.
    - change (mapr f (a :: l1 ++ l2)) with (do b <- f a; do r <- mapr f (l1 ++ l2); Ok (b :: r)).
      change (mapr f (a :: l1)) with (do b <- f a; do r <- mapr f l1; Ok (b :: r)).
      destruct (f a); cbn [bind]; [|reflexivity]. rewrite IH.
      destruct (mapr f l1); cbn [bind]; [|reflexivity]. destruct (mapr f l2); reflexivity.
  Qed.
  Lemma somes_app {X} (l1 l2 : list (option X)) : somes (l1 ++ l2) = somes l1 ++ somes l2.
  Proof. induction l1 as [|[a|] l1 IH]; cbn; congruence. Qed.

  Lemma merge_set (l l' : list (option shape)) cs : l' <> [] ->
    (forall v, In v (somes l') <-> In v (somes l)) -> merge_cond_shapes l = Ok cs -> merge_cond_shapes l' = Ok cs.
  Proof.
    intros Hne Hset. unfold merge_cond_shapes. destruct l as [|o l0]; [discriminate|].
    destruct l' as [|o' l0']; [congruence|].
    destruct (somes (o :: l0)) as [|s0 r] eqn:Es.
    - intros [= <-]. destruct (somes (o' :: l0')) as [|s1 r1] eqn:Es'; [reflexivity|].
      exfalso. apply (proj1 (Hset s1)). now left.
    - destruct (forallb (shape_eqb s0) r) eqn:Ef; [|discriminate]. intros [= <-].
      rewrite forallb_forall in Ef.
      assert (G : forall v, In v (s0 :: r) -> v = s0).
      { intros v [->|Hv]; [reflexivity|]. apply Ef, shape_eqb_eq in Hv. auto. }
      destruct (somes (o' :: l0')) as [|s1 r1] eqn:Es'.
      + exfalso. apply (proj2 (Hset s0)). now left.
      + assert (E1 : s1 = s0) by (apply G, Hset; now left). subst s1.
        replace (forallb (shape_eqb s0) r1) with true; [reflexivity|]. symmetry. apply forallb_forall.
        intros v Hv. apply shape_eqb_eq. symmetry. apply G, Hset. now right.
  Qed.

  Lemma chain_sig_spec (sigs : list sig) sg : chain_sig sigs = Ok sg <->
    sigs <> [] /\ (forall a, In a sigs -> fst a = fst sg) /\ merge_cond_shapes (map snd sigs) = Ok (snd sg).
  Proof.
    unfold chain_sig. split.
    - destruct (check_shapes_match (map fst sigs)) eqn:Ec; [|discriminate].
      destruct sigs as [|sg0 sigs']; [discriminate|].
      destruct (merge_cond_shapes (map snd (sg0 :: sigs'))) as [cs|] eqn:Em; cbn [bind]; [|discriminate].
      intros [= <-]. cbn [fst snd]. split; [discriminate|]. split; [|reflexivity].
      cbn [check_shapes_match map] in Ec. rewrite forallb_forall in Ec. intros a Ha. symmetry. apply shape_eqb_eq, Ec.
      change (fst sg0 :: map fst sigs') with (map fst (sg0 :: sigs')). now apply in_map.
    - intros (Hne & Hs & Hm). destruct sigs as [|sg0 sigs']; [congruence|].
      replace (check_shapes_match (map fst (sg0 :: sigs'))) with true.
      + rewrite Hm. cbn [bind]. rewrite (Hs sg0) by now left. now destruct sg.
      + symmetry. cbn [check_shapes_match map]. apply forallb_forall. intros s Hin.
        change (fst sg0 :: map fst sigs') with (map fst (sg0 :: sigs')) in Hin. apply in_map_iff in Hin as (a & <- & Ha).
        apply shape_eqb_eq. rewrite (Hs a Ha). apply Hs. now left.
  Qed.

  Lemma merge_somes_value (l : list (option shape)) cs v : merge_cond_shapes l = Ok cs -> In v (somes l) -> cs = Some v.
  Proof.
    unfold merge_cond_shapes. destruct l as [|o l0]; [discriminate|].
    destruct (somes (o :: l0)) as [|s0 r]; [intros _ []|].
    destruct (forallb (shape_eqb s0) r) eqn:Ef; [|discriminate]. intros [= <-] [->|Hv]; [reflexivity|].
    rewrite forallb_forall in Ef. apply Ef, shape_eqb_eq in Hv. now subst.
  Qed.
  Lemma merge_somes_none (l : list (option shape)) : merge_cond_shapes l = Ok None -> somes l = [].
  Proof.
    unfold merge_cond_shapes. destruct l as [|o l0]; [discriminate|].
    destruct (somes (o :: l0)) as [|s0 r]; [reflexivity|]. destruct (forallb (shape_eqb s0) r); discriminate.
  Qed.

  (* the signatures of one pass of merging *)
  Lemma merge_pass_sigs (bs : list bij) : forall sigs, mapr sig_of bs = Ok sigs ->
    exists sigs', mapr sig_of (merge_pass bs) = Ok sigs' /\ (sigs <> [] -> sigs' <> []) /\
      (forall s, (forall a, In a sigs -> fst a = s) -> forall a, In a sigs' -> fst a = s) /\
      (forall v, In v (somes (map snd sigs')) <-> In v (somes (map snd sigs))).
  Proof.
    induction bs as [|b bs IH]; intros sigs Hm.
    - cbn in Hm. injection Hm as <-. exists []. cbn. repeat split; auto.
    - change (mapr sig_of (b :: bs)) with (do sb <- sig_of b; do r <- mapr sig_of bs; Ok (sb :: r)) in Hm.
      destruct (sig_of b) as [sb|] eqn:Eb; cbn [bind] in Hm; [|discriminate].
      destruct (mapr sig_of bs) as [r|] eqn:Er; cbn [bind] in Hm; [|discriminate]. injection Hm as <-.
      destruct (IH r eq_refl) as (r' & Hr' & Hne & Hsh & Hso).
      cbn [merge_pass flat_map]. change (flat_map _ bs) with (merge_pass bs).
      assert (Hdefault : mapr sig_of ([b] ++ merge_pass bs) = Ok (sb :: r') ->
              exists sigs', mapr sig_of ([b] ++ merge_pass bs) = Ok sigs' /\ (sb :: r <> [] -> sigs' <> []) /\
                (forall s, (forall a, In a (sb :: r) -> fst a = s) -> forall a, In a sigs' -> fst a = s) /\
                (forall v, In v (somes (map snd sigs')) <-> In v (somes (map snd (sb :: r))))).
      { intros H. exists (sb :: r'). split; [exact H|]. split; [discriminate|]. split.
        - intros s Hs a [<-|Ha]; [apply Hs; now left | apply (Hsh s); [intros; apply Hs; now right | exact Ha]].
        - intros v. cbn [map]. destruct (snd sb); cbn [somes]; [|apply Hso].
          split; intros [->|H']; try (now left); right; now apply Hso. }
      assert (Hone : mapr sig_of ([b] ++ merge_pass bs) = Ok (sb :: r')).
      { rewrite mapr_app, Hr'. cbn [mapr bind]. rewrite Eb. reflexivity. }
      destruct b; try exact (Hdefault Hone).
      (* b = Chain bs0: spliced *)
      cbn [sig_of] in Eb. destruct (mapr sig_of bs0) as [s0|] eqn:E0; cbn [bind] in Eb; [|discriminate].
      apply chain_sig_spec in Eb as (Hn0 & Hs0 & Hm0).
      exists (s0 ++ r'). rewrite mapr_app, E0, Hr'. cbn [bind]. split; [reflexivity|]. split.
      + intros _. destruct s0; [congruence|discriminate].
      + split.
        * intros s Hs a Ha. apply in_app_or in Ha as [Ha|Ha].
          -- rewrite (Hs0 a Ha). apply Hs. now left.
          -- apply (Hsh s); [intros; apply Hs; now right | exact Ha].
        * intros v. rewrite map_app, somes_app, in_app_iff, Hso. cbn [map]. 
          assert (G : In v (somes (map snd s0)) <-> snd sb = Some v).
          { split.
            - intros Hv. now apply (merge_somes_value _ _ _ Hm0).
            - intros E. rewrite E in Hm0. destruct (somes (map snd s0)) as [|v0 rest] eqn:Es.
              + exfalso. unfold merge_cond_shapes in Hm0. destruct (map snd s0); [discriminate|]. rewrite Es in Hm0. discriminate.
              + left. symmetry. assert (Hin : In v0 (somes (map snd s0))) by (rewrite Es; now left).
                pose proof (merge_somes_value _ _ _ Hm0 Hin). congruence. }
          rewrite G. destruct (snd sb) as [w|]; cbn [somes].
          -- split; intros [H'|H']; [left; congruence | now right | left; congruence | now right].
          -- split; intros H'; [destruct H' as [H'|H']; [discriminate | exact H'] | now right].
  Qed.

  Theorem merge_pass_sig (bs : list bij) sg : sig_of (Chain bs) = Ok sg -> sig_of (Chain (merge_pass bs)) = Ok sg.
  Proof.
    cbn [sig_of]. destruct (mapr sig_of bs) as [sigs|] eqn:Em; cbn [bind]; [|discriminate]. intros Hc.
    apply chain_sig_spec in Hc as (Hne & Hs & Hm).
    destruct (merge_pass_sigs bs sigs Em) as (sigs' & Hm' & Hne' & Hsh & Hso). rewrite Hm'. cbn [bind].
    apply chain_sig_spec. split; [auto|]. split; [apply (Hsh (fst sg)); exact Hs|].
    apply (merge_set (map snd sigs)); auto. specialize (Hne' Hne). destruct sigs'; [congruence|discriminate].
  Qed.
  Theorem merge_chains_sig (bs : list bij) sg : sig_of (Chain bs) = Ok sg -> sig_of (merge_chains bs) = Ok sg.
  Proof.
    unfold merge_chains. generalize (fold_right Nat.max 0 (map chain_depth bs)) as fuel. intros fuel. revert bs.
    induction fuel as [|f IH]; intros bs H; cbn [merge_loop]; destruct (existsb is_chain bs); auto.
    apply IH, merge_pass_sig, H.
  Qed.

  (* merge_chains never changes the function: every method, every input (malformed ones are rejected alike) *)
  Theorem merge_chains_run :
    (forall a, n_add O a (zero O) = a) ->
    (forall a1 a2 a3 : A, n_add O a1 (n_add O a2 a3) = n_add O (n_add O a1 a2) a3) ->
    forall (bs : list bij) sg d (x : tens) c, sig_of (Chain bs) = Ok sg ->
    run O (merge_chains bs) d x c = run O (Chain bs) d x c.
  Proof.
    intros H0 Ha bs sg d x c Hs. pose proof (merge_chains_sig bs sg Hs) as Hs'.
    rewrite (run_entry O (merge_chains bs)), (run_entry O (Chain bs)), Hs, Hs'. cbn [bind].
    destruct (check sg x c) as [[]|e] eqn:Ec; cbn [bind]; [|reflexivity].
    apply check_inv in Ec as [Hx Hc].
    rewrite (run_is_den O _ d x c sg Hs' Hx Hc), (run_is_den O _ d x c sg Hs Hx Hc).
    now rewrite (merge_chains_same O H0 Ha).
  Qed.
End MergeSig.
