(* C18 lifted to compositions: the log_prob term of Transformed(base, Chain[l1..ln] | Invert(Chain[..])) over the leaf terms
   of Model/Expr.v ([lp_chain]) is Safe as soon as every layer's parameters are valid and the running value satisfies the
   domain condition of the layer it enters -- hence (SafeP.safe_finite) a finite value and finite gradients w.r.t. the input
   and every parameter of every layer.  Affine (scale <> 0), LeakyTanh and the rational-quadratic spline are Safe on all of
   R, so chains of them of ANY length and order need no domain condition at all. *)
From Coq Require Import Reals List ZArith Bool Lra Lia Sorted.
From FJ Require Import Model.Num Proofs.RNum Model.Leaves Model.Expr Proofs.RqsCoreP Proofs.SafeP.
Import ListNotations.
Open Scope R_scope.

(* ====================================================================================== *)
(** * 1. moving a term to other parameter arrays *)
Definition dropp {A} (k : nat) (en : env A) : env A := {| vars := vars en; pars := skipn k (pars en) |}.

Lemma nth_skipn_add {B} (l : list B) k p d : nth p (skipn k l) d = nth (k + p) l d.
Proof.
  revert l. induction k as [|k IH]; intros l; [reflexivity|].
  destruct l as [|x t]; [destruct p; reflexivity|]. cbn [skipn plus nth]. apply IH.
Qed.
Lemma par_dropp {A} k (en : env A) p : par (dropp k en) p = par en (k + p).
Proof. unfold par, dropp; cbn [pars]. apply nth_skipn_add. Qed.
Lemma push_dropp {A} k (en : env A) v : push (dropp k en) v = dropp k (push en v).
Proof. reflexivity. Qed.
Lemma vars_dropp {A} k (en : env A) : vars (dropp k en) = vars en.
Proof. reflexivity. Qed.

Lemma eval_shift_all k :
  (forall e en, ev en (shift_par k e) = ev (dropp k en) e) /\
  (forall c en, ceval ROps en (shift_cpar k c) = ceval ROps (dropp k en) c) /\
  (forall i en, ieval ROps en (shift_ipar k i) = ieval ROps (dropp k en) i).
Proof.
  apply expr_cond_iexpr_ind; intros; cbn [shift_par shift_cpar shift_ipar]; autorewrite with evq;
    rewrite ?par_dropp;
    repeat match goal with H : forall en, _ = _ |- _ => rewrite H; clear H end; try reflexivity.
Qed.
Lemma eval_shift k e en : ev en (shift_par k e) = ev (dropp k en) e.
Proof. apply eval_shift_all. Qed.

Lemma safe_shift_all k :
  (forall e en, Safe en (shift_par k e) <-> Safe (dropp k en) e) /\
  (forall c en, CSafe en (shift_cpar k c) <-> CSafe (dropp k en) c) /\
  (forall i en, ISafe en (shift_ipar k i) <-> ISafe (dropp k en) i).
Proof.
  apply expr_cond_iexpr_ind; intros; cbn [shift_par shift_cpar shift_ipar Safe CSafe ISafe];
    rewrite ?eval_shift, ?push_dropp;
    repeat match goal with H : forall en, _ <-> _ |- _ => rewrite H; clear H end; try tauto.
Qed.
Lemma safe_shift k e en : Safe en (shift_par k e) <-> Safe (dropp k en) e.
Proof. apply safe_shift_all. Qed.

(* ====================================================================================== *)
(** * 2. one step of a chain *)
(* the layer's parameters are valid (what C11 proves the parameterisations deliver) *)
Definition step_valid (s : step) (en : env R) : Prop :=
  (s_vo s + 7 <= length (vars en))%nat /\
  match s_kind s with
  | LAffine => nth (s_vo s + 6) (vars en) 0 <> 0
  | LLeaky => 0 < nth (s_vo s + 1) (vars en) 0
  | LRqs => rqs_valid (par en (s_po s + XP)) (par en (s_po s + YP)) (par en (s_po s + DV))
                      (nth (s_vo s + 3) (vars en) 0) (nth (s_vo s + 4) (vars en) 0)
  | LExp | LSoftplus | LTanh => True
  | LLeakyOld | LRqsOld | LRqsZero => False
  end.
(* the domain condition on the running value v that ENTERS the step: only the inverses of Exp / SoftPlus / Tanh are partial *)
Definition step_dom (s : step) (v : R) : Prop :=
  match s_kind s, s_fwd s with
  | (LExp | LSoftplus), false => 0 < v
  | LTanh, false => -1 < v < 1
  | _, _ => True
  end.

Lemma step_valid_push s en v : step_valid s en -> step_valid s (push en v).
Proof.
  intros [Hl Hk]. split; [rewrite len_push; lia|].
  destruct (s_kind s); try exact Hk; rewrite ?par_push, ?nth_push_old by lia; exact Hk.
Qed.

Lemma step_safe s en i : step_valid s en -> (i < length (vars en))%nat -> step_dom s (nth i (vars en) 0) ->
  Safe en (step_pt s (length (vars en)) (Var i)) /\
  forall v, Safe (push en v) (step_ld s (S (length (vars en))) (Var i) (Var (length (vars en)))).
Proof.
  intros [Hl Hk] Hi Hd. unfold step_pt, step_ld.
  set (E := dropp (s_po s) en).
  assert (LE : length (vars E) = length (vars en)) by reflexivity.
  assert (HV : forall E' n, Safe E' (Var n)) by (intros; exact I).
  split; [|intros v]; rewrite safe_shift; rewrite <- ?push_dropp; fold E; rewrite <- LE;
    unfold step_dom in Hd; destruct (s_kind s) eqn:EK; try contradiction; destruct (s_fwd s) eqn:EF;
    unfold fwd_at, inv_at, ld_fwd_at, ld_inv_of_at, sv; try exact I.
  all: try solve [apply affine_fwd_safe; exact I].
  all: try solve [apply affine_inv_safe; try exact I; exact Hk].
  all: try solve [apply affine_ld_safe; [exact I|]; rewrite ev_var_old by (rewrite LE; lia); exact Hk].
  all: try solve [cbn [Safe]; apply affine_ld_safe; [exact I|]; rewrite ev_var_old by (rewrite LE; lia); exact Hk].
  all: try solve [apply exp_inv_safe; [exact I|exact Hd]].
  all: try solve [apply softplus_inv_safe; [exact I|exact Hd]].
  all: try solve [apply tanh_inv_safe_inside; [exact I|exact Hd]].
  all: try solve [unfold tanh_ld_fwd_t; apply tanh_log_grad_safe_S; exact I].
  all: try solve [unfold tanh_ld_inv_of_t; cbn [Safe]; apply tanh_log_grad_safe_S; exact I].
  all: try solve [apply leaky_fwd_safe; exact I].
  all: try solve [apply leaky_inv_safe; try exact I; rewrite ev_Var_R; apply Rgt_not_eq; exact Hk].
  all: try solve [rewrite <- (len_push E v); apply leaky_ld_fwd_safe; try exact I;
                  rewrite ev_var_old by (rewrite LE; lia); exact Hk].
  all: try solve [apply leaky_ld_inv_of_safe; [rewrite LE; lia|exact Hk]].
  all: try solve [apply rqs_fwd_safe; try (rewrite LE; lia); unfold E; rewrite !par_dropp; exact Hk].
  all: try solve [apply rqs_inv_safe; try (rewrite LE; lia); unfold E; rewrite !par_dropp; exact Hk].
  all: try solve [rewrite <- (len_push E v); apply rqs_ld_fwd_safe; try (rewrite len_push, LE; lia);
                  apply rqs_valid_push; try (rewrite LE; lia); unfold E; rewrite !par_dropp; exact Hk].
  all: try solve [apply rqs_ld_inv_of_safe; try (rewrite LE; lia); unfold E; rewrite !par_dropp; exact Hk].
Qed.

(* ====================================================================================== *)
(** * 3. the composition *)
Lemma base_lp_at_safe en normal bl bs z :
  Safe en bl -> Safe en bs -> Safe en z -> (normal = true -> ev en bs <> 0) -> Safe en (base_lp_at normal bl bs z).
Proof.
  intros Hl Hs Hz Hn. unfold base_lp_at. destruct normal.
  - specialize (Hn eq_refl). cbn [Safe]. split.
    + apply norm_logpdf_safe. apply affine_inv_safe; auto.
    + apply affine_ld_safe; auto.
  - now apply norm_logpdf_safe.
Qed.

(* the domain conditions along the run: the value entering each step, as the previous steps compute it *)
Fixpoint run_dom (steps : list step) (en : env R) (i : nat) : Prop :=
  match steps with
  | [] => True
  | s :: r =>
      step_dom s (nth i (vars en) 0) /\
      let d := length (vars en) in
      let en1 := push en (ev en (step_pt s d (Var i))) in
      let en2 := push en1 (ev en1 (step_ld s (S d) (Var i) (Var d))) in
      run_dom r en2 d
  end.

(* an accumulator made of constants and bound slots has no partial primitive: Safe in every environment *)
Definition acc_ok (acc : expr) : Prop := forall en' : env R, Safe en' acc.

Theorem safe_compose : forall steps en i acc normal,
  (forall s, In s steps -> step_valid s en) -> (i < length (vars en))%nat -> (2 < length (vars en))%nat ->
  (normal = true -> nth 2 (vars en) 0 <> 0) -> acc_ok acc -> run_dom steps en i ->
  Safe en (chain_t steps (Var i) acc (length (vars en)) (base_lp_at normal (Var 1) (Var 2))).
Proof.
  induction steps as [|s r IH]; intros en i acc normal HV Hi H2 Hn Hacc Hrun; cbn [chain_t].
  - cbn [Safe]. split; [|apply Hacc]. apply base_lp_at_safe; try exact I. intros E. rewrite ev_Var_R. auto.
  - destruct Hrun as [Hd Hrun]. cbv zeta in Hrun.
    destruct (step_safe s en i (HV s (or_introl eq_refl)) Hi Hd) as [Hpt Hld].
    cbn [Safe]. split; [exact Hpt|].
    set (en1 := push en (ev en (step_pt s (length (vars en)) (Var i)))) in *.
    split; [apply Hld|].
    set (en2 := push en1 (ev en1 (step_ld s (S (length (vars en))) (Var i) (Var (length (vars en)))))) in *.
    assert (L2 : length (vars en2) = S (S (length (vars en)))) by (unfold en2, en1; now rewrite !len_push).
    rewrite <- L2. apply IH.
    + intros s' Hs'. unfold en2, en1. apply step_valid_push, step_valid_push, HV. now right.
    + rewrite L2. lia.
    + rewrite L2. lia.
    + intros E. unfold en2, en1. rewrite !nth_push_old by (rewrite ?len_push; lia). auto.
    + intros en'. cbn [Safe]. split; [apply Hacc|exact I].
    + exact Hrun.
Qed.

(* ====================================================================================== *)
(** * 4. chains of Affine / LeakyTanh / spline layers: no domain condition is left *)
Definition total_kind (l : leafk) : Prop := l = LAffine \/ l = LLeaky \/ l = LRqs.

Lemma run_dom_total : forall steps en i, (forall s, In s steps -> total_kind (s_kind s)) -> run_dom steps en i.
Proof.
  induction steps as [|s r IH]; intros en i H; cbn [run_dom]; [exact I|]. split.
  - unfold step_dom. destruct (H s (or_introl eq_refl)) as [E|[E|E]]; rewrite E; destruct (s_fwd s); exact I.
  - cbv zeta. apply IH. intros s' Hs'. apply H. now right.
Qed.

Lemma chain_steps_kinds outer ls s : In s (chain_steps outer ls) -> exists l, In l ls /\ s_kind s = fst l.
Proof.
  unfold chain_steps. intros H.
  assert (H' : In s (map (fun p : nat * layer =>
             {| s_kind := fst (snd p); s_fwd := xorb outer (snd (snd p)); s_vo := 3 + 7 * fst p; s_po := 3 * fst p |})
             (combine (seq 0 (length ls)) ls))).
  { destruct outer; [exact H|]. now apply in_rev. }
  apply in_map_iff in H'. destruct H' as [[j l] [E Hin]]. exists l. split.
  - eapply in_combine_r; eassumption.
  - subst s. reflexivity.
Qed.

(* Transformed(StandardNormal | Normal(loc, scale), Chain[layers] | Invert(Chain[layers])), layers (each possibly wrapped in
   Invert) drawn from Affine / LeakyTanh / RationalQuadraticSpline in ANY number and order: for every real input and all valid
   parameters the log_prob term is Safe *)
Theorem chain_affine_leaky_rqs_safe normal outer ls en :
  (forall l, In l ls -> total_kind (fst l)) -> length (vars en) = chain_nvars ls ->
  (forall s, In s (chain_steps outer ls) -> step_valid s en) -> (normal = true -> nth 2 (vars en) 0 <> 0) ->
  Safe en (lp_chain normal outer ls).
Proof.
  intros Hk Hlen HV Hn. unfold lp_chain. rewrite <- Hlen.
  assert (L : (2 < length (vars en))%nat) by (rewrite Hlen; unfold chain_nvars; lia).
  apply safe_compose; try assumption; try lia.
  - intros en'. exact I.
  - apply run_dom_total. intros s Hs. destruct (chain_steps_kinds outer ls s Hs) as [l [Hl E]]. rewrite E. now apply Hk.
Qed.

(* ... hence finite, with finite gradients w.r.t. the input and EVERY parameter of EVERY layer *)
Theorem chain_affine_leaky_rqs_finite normal outer ls en :
  (forall l, In l ls -> total_kind (fst l)) -> length (vars en) = chain_nvars ls ->
  (forall s, In s (chain_steps outer ls) -> step_valid s en) -> (normal = true -> nth 2 (vars en) 0 <> 0) ->
  (exists v, eval OROps (lift en) (lp_chain normal outer ls) = Some v) /\
  (forall t, exists r, vjp OROps (lift en) (lp_chain normal outer ls) (Some 1) t = Some r).
Proof.
  intros H1 H2 H3 H4.
  destruct (safe_finite en _ (chain_affine_leaky_rqs_safe normal outer ls en H1 H2 H3 H4)) as [Hv Hg].
  split; [eauto|]. intros t. rewrite Hg. eauto.
Qed.

(* the general statement for ANY leaves (Exp, SoftPlus, Tanh included), with the domain conditions of the running value *)
Theorem chain_safe_general normal outer ls en :
  length (vars en) = chain_nvars ls -> (forall s, In s (chain_steps outer ls) -> step_valid s en) ->
  (normal = true -> nth 2 (vars en) 0 <> 0) -> run_dom (chain_steps outer ls) en 0 ->
  Safe en (lp_chain normal outer ls).
Proof.
  intros Hlen HV Hn Hrun. unfold lp_chain. rewrite <- Hlen.
  assert (L : (2 < length (vars en))%nat) by (rewrite Hlen; unfold chain_nvars; lia).
  apply safe_compose; try assumption; try lia. intros en'. exact I.
Qed.

(* non-vacuity: Transformed(Normal(1/2, 2), Chain[LeakyTanh(3), Invert(Affine(1, -2)), RationalQuadraticSpline(interval (2,6))]) *)
Definition ex_layers : list layer := [(LLeaky, false); (LAffine, true); (LRqs, false)].
Definition ex_env (x : R) : env R :=
  {| vars := [x; / 2; 2;
              3; leaky_grad ROps 3; leaky_icpt ROps 3; 0; 0; 0; 1;
              0; 1; 0; 0; 0; 1; -2;
              0; 1; 0; 2; 6; 0; 1];
     pars := [[]; []; []; []; []; []; [2; 3; 5; 6]; [2; 3; 5; 6]; [/ 2; / 2; / 2; / 2]] |}.
Lemma ex_chain_valid x outer : forall s, In s (chain_steps outer ex_layers) -> step_valid s (ex_env x).
Proof.
  intros s Hs.
  assert (H : In s (chain_steps true ex_layers) \/ In s (chain_steps false ex_layers)) by (destruct outer; auto).
  cbn in H. unfold step_valid.
  repeat match goal with H : _ \/ _ |- _ => destruct H | H : False |- _ => contradiction end; subst s; cbn;
    (split; [lia|]); try lra; try apply leaky_grad_pos; try exact rqs_valid_excl0.
Qed.
Lemma ex_chain_finite x outer normal :
  (exists v, eval OROps (lift (ex_env x)) (lp_chain normal outer ex_layers) = Some v) /\
  (forall t, exists r, vjp OROps (lift (ex_env x)) (lp_chain normal outer ex_layers) (Some 1) t = Some r).
Proof.
  apply chain_affine_leaky_rqs_finite.
  - intros l Hl. cbn in Hl. unfold total_kind. repeat (destruct Hl as [<-|Hl]; [cbn; tauto|]). contradiction.
  - reflexivity.
  - apply ex_chain_valid.
  - intros _. cbn. lra.
Qed.

Lemma shift_par_safe_eval k e (en : env R) :
  (Safe en (shift_par k e) <-> Safe (dropp k en) e) /\ ev en (shift_par k e) = ev (dropp k en) e.
Proof. split; [apply safe_shift|apply eval_shift]. Qed.
