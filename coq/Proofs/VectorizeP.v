(* Lemmas about Model/Vectorize.v (property C06).  Everything is discrete: lists of nat. *)
From Coq Require Import List Arith ZArith Bool Lia.
Require Import ZifyBool.
From FJ Require Import Model.Vectorize.
Import ListNotations.

(* ================================================================================================ *)
(* small list facts                                                                                  *)
(* ================================================================================================ *)
Lemma shape_eqb_eq : forall a b, shape_eqb a b = true <-> a = b.
Proof.
  induction a as [|x a IH]; intros [|y b]; cbn; split; intro H; try reflexivity; try discriminate.
  - apply andb_true_iff in H. destruct H as [Hx Hr]. apply Nat.eqb_eq in Hx. apply IH in Hr. now subst.
  - inversion H; subst. apply andb_true_iff. split; [apply Nat.eqb_refl | now apply IH].
Qed.

Lemma shape_eqb_refl : forall a, shape_eqb a a = true.
Proof. intro a. now apply shape_eqb_eq. Qed.

Lemma nth_repeat_lt {X} (x dflt : X) n i : i < n -> nth i (repeat x n) dflt = x.
Proof. revert i. induction n; intros i H; [lia|]. destruct i; cbn; [reflexivity|]. apply IHn. lia. Qed.

Lemma firstn_app_exact {X} (a b : list X) : firstn (length a) (a ++ b) = a.
Proof. induction a; cbn; [reflexivity | now f_equal]. Qed.

Lemma skipn_app_exact {X} (a b : list X) : skipn (length a) (a ++ b) = b.
Proof. induction a; cbn; [reflexivity | assumption]. Qed.

Lemma nth_all1 : forall (l : list nat) i, (forall x, In x l -> x = 1) -> nth i l 1 = 1.
Proof. intros l i H. destruct (nth_in_or_default i l 1) as [Hin|Hd]; [now apply H | exact Hd]. Qed.

Lemma Forall2_length {X Y} {R : X -> Y -> Prop} {l1 : list X} {l2 : list Y} : Forall2 R l1 l2 -> length l1 = length l2.
Proof. induction 1; cbn; [reflexivity | now f_equal]. Qed.

Lemma NoDup_map_inj_in {X Y} (f : X -> Y) (l : list X) :
  (forall x y, In x l -> In y l -> f x = f y -> x = y) -> NoDup l -> NoDup (map f l).
Proof.
  induction l as [|a l IH]; intros Hinj Hnd; cbn; [constructor|].
  inversion Hnd as [|? ? Hnotin Hnd']; subst. constructor.
  - intro Hin. apply in_map_iff in Hin. destruct Hin as [b [Hfb Hb]].
    assert (b = a) by (apply Hinj; [now right | now left | exact Hfb]). subst. contradiction.
  - apply IH; [|exact Hnd']. intros x y Hx Hy. apply Hinj; now right.
Qed.

(* ================================================================================================ *)
(* lax.broadcast_shapes is NumPy's rule                                                              *)
(* ================================================================================================ *)
(* size of axis k counted from the right; an axis a shape does not have counts as 1 *)
Definition rdim (s : shape) (k : nat) : nat := nth k (rev s) 1.
(* NumPy: the sizes of one axis are equal, or one of them is 1 (and is stretched) *)
Definition axis_rule (x y z : nat) : Prop := (x = y /\ z = x) \/ (x = 1 /\ z = y) \/ (y = 1 /\ z = x).
Definition axis_clash (x y : nat) : Prop := x <> y /\ x <> 1 /\ y <> 1.
Definition numpy_broadcast (a b out : shape) : Prop :=
  length out = Nat.max (length a) (length b) /\ forall k, axis_rule (rdim a k) (rdim b k) (rdim out k).
Definition numpy_incompatible (a b : shape) : Prop := exists k, axis_clash (rdim a k) (rdim b k).

Lemma bdim_ok : forall x y d, bdim x y = Ok d -> axis_rule x y d.
Proof.
  intros x y d. unfold bdim, axis_rule.
  destruct (x =? y) eqn:E1; [intro H; inversion H; subst; apply Nat.eqb_eq in E1; lia|].
  destruct (x =? 1) eqn:E2; [intro H; inversion H; subst; apply Nat.eqb_eq in E2; lia|].
  destruct (y =? 1) eqn:E3; [intro H; inversion H; subst; apply Nat.eqb_eq in E3; lia|]. discriminate.
Qed.

Lemma bdim_err : forall x y e, bdim x y = Err e -> axis_clash x y /\ e = EBroadcast.
Proof.
  intros x y e. unfold bdim, axis_clash.
  destruct (x =? y) eqn:E1; [discriminate|]. destruct (x =? 1) eqn:E2; [discriminate|].
  destruct (y =? 1) eqn:E3; [discriminate|]. intro H; inversion H.
  apply Nat.eqb_neq in E1, E2, E3. auto.
Qed.

Lemma bzip_ok : forall a b out, bzip a b = Ok out ->
  length a = length b /\ length out = length a /\
  forall i, i < length a -> axis_rule (nth i a 1) (nth i b 1) (nth i out 1).
Proof.
  induction a as [|x a IH]; intros [|y b] out H; cbn in H; try discriminate.
  - inversion H; subst. cbn. repeat split; intros; lia.
  - destruct (bdim x y) as [d|] eqn:Ed; [|discriminate].
    destruct (bzip a b) as [r|] eqn:Er; [|discriminate]. inversion H; subst.
    destruct (IH _ _ Er) as [Hl [Hlo Hp]]. cbn. repeat split; try lia.
    intros [|i] Hi; cbn; [now apply bdim_ok | apply Hp; lia].
Qed.

Lemma bzip_err : forall a b e, length a = length b -> bzip a b = Err e ->
  e = EBroadcast /\ exists i, i < length a /\ axis_clash (nth i a 1) (nth i b 1).
Proof.
  induction a as [|x a IH]; intros [|y b] e Hl H; cbn in H, Hl; try discriminate.
  destruct (bdim x y) as [d|e'] eqn:Ed.
  - destruct (bzip a b) as [r|e''] eqn:Er; [discriminate|]. inversion H; subst.
    destruct (IH b e) as [He [i [Hi Hc]]]; [lia | exact Er |]. split; [exact He|]. exists (S i). cbn. split; [lia | exact Hc].
  - inversion H; subst. destruct (bdim_err _ _ _ Ed) as [Hc He]. split; [exact He|]. exists 0. cbn. split; [lia | exact Hc].
Qed.

Lemma pad1_length : forall n s, length s <= n -> length (pad1 n s) = n.
Proof. intros n s H. unfold pad1. rewrite app_length, repeat_length. lia. Qed.

Lemma rdim_pad1 : forall n s k, rdim (pad1 n s) k = rdim s k.
Proof.
  intros n s k. unfold rdim, pad1. rewrite rev_app_distr.
  destruct (Nat.lt_ge_cases k (length (rev s))) as [Hk|Hk].
  - now rewrite app_nth1.
  - rewrite app_nth2 by lia. rewrite (nth_overflow (rev s)) by lia.
    apply nth_all1. intros x Hx. apply in_rev in Hx. now apply repeat_spec in Hx.
Qed.

Lemma rdim_nth : forall s k, k < length s -> rdim s k = nth (length s - S k) s 1.
Proof. intros s k H. unfold rdim. now apply rev_nth. Qed.

Lemma rdim_overflow : forall s k, length s <= k -> rdim s k = 1.
Proof. intros s k H. unfold rdim. apply nth_overflow. now rewrite rev_length. Qed.

(* broadcast_shapes returns NumPy's broadcast shape, and fails exactly on a clashing axis *)
Lemma broadcast_shapes_spec : forall a b,
  match broadcast_shapes a b with
  | Ok out => numpy_broadcast a b out
  | Err e => e = EBroadcast /\ numpy_incompatible a b
  end.
Proof.
  intros a b. unfold broadcast_shapes.
  set (n := Nat.max (length a) (length b)).
  assert (HA : length (pad1 n a) = n) by (apply pad1_length; lia).
  assert (HB : length (pad1 n b) = n) by (apply pad1_length; lia).
  destruct (bzip (pad1 n a) (pad1 n b)) as [out|e] eqn:E.
  - destruct (bzip_ok _ _ _ E) as [_ [Hlo Hp]]. split; [lia|].
    intro k. rewrite <- (rdim_pad1 n a k), <- (rdim_pad1 n b k).
    destruct (Nat.lt_ge_cases k n) as [Hk|Hk].
    + rewrite !rdim_nth by lia. rewrite HA, HB, Hlo, HA. apply Hp. lia.
    + rewrite !rdim_overflow by lia. left. auto.
  - destruct (bzip_err _ _ e (eq_trans HA (eq_sym HB)) E) as [He [i [Hi Hc]]]. split; [exact He|].
    exists (n - S i). rewrite <- (rdim_pad1 n a), <- (rdim_pad1 n b).
    rewrite !rdim_nth by lia. rewrite HA, HB. replace (n - S (n - S i)) with i by lia. exact Hc.
Qed.

Lemma rdim_ext : forall a b, length a = length b -> (forall k, rdim a k = rdim b k) -> a = b.
Proof.
  intros a b Hl H. rewrite <- (rev_involutive a), <- (rev_involutive b). f_equal.
  apply (nth_ext _ _ 1 1); [now rewrite !rev_length | intros; apply H].
Qed.

(* the relation determines the result: broadcast_shapes is the unique function meeting NumPy's rule *)
Lemma numpy_broadcast_unique : forall a b o1 o2, numpy_broadcast a b o1 -> numpy_broadcast a b o2 -> o1 = o2.
Proof.
  intros a b o1 o2 [L1 H1] [L2 H2]. apply rdim_ext; [lia|]. intro k.
  specialize (H1 k). specialize (H2 k). unfold axis_rule in *. lia.
Qed.

Lemma numpy_incompatible_no_broadcast : forall a b out, numpy_incompatible a b -> ~ numpy_broadcast a b out.
Proof. intros a b out [k Hc] [_ H]. specialize (H k). unfold axis_rule, axis_clash in *. lia. Qed.

Theorem broadcast_shapes_iff : forall a b out, broadcast_shapes a b = Ok out <-> numpy_broadcast a b out.
Proof.
  intros a b out. pose proof (broadcast_shapes_spec a b) as S. destruct (broadcast_shapes a b) as [o|e].
  - split; [intro H; inversion H; subst; exact S | intro H; f_equal; eapply numpy_broadcast_unique; eauto].
  - split; [discriminate | intro H; exfalso; eapply numpy_incompatible_no_broadcast; [apply S | exact H]].
Qed.

Theorem broadcast_shapes_err_iff : forall a b, (exists e, broadcast_shapes a b = Err e) <-> numpy_incompatible a b.
Proof.
  intros a b. pose proof (broadcast_shapes_spec a b) as S. destruct (broadcast_shapes a b) as [o|e].
  - split; [intros [e H]; discriminate | intro H; exfalso; eapply numpy_incompatible_no_broadcast; eauto].
  - split; [intros _; apply S | intros _; now exists e].
Qed.

(* ---------- compatibility of an input batch shape with the broadcast shape ---------- *)
Definition stretches (n m : nat) : Prop := n = m \/ n = 1.
(* s broadcasts to out: right-aligned, every axis equal or 1 *)
Definition compat (s out : shape) : Prop :=
  length s <= length out /\ Forall2 stretches s (skipn (length out - length s) out).

Lemma bzip_stretches : forall a b out, bzip a b = Ok out -> Forall2 stretches a out /\ Forall2 stretches b out.
Proof.
  induction a as [|x a IH]; intros [|y b] out H; cbn in H; try discriminate.
  - inversion H. split; constructor.
  - destruct (bdim x y) as [d|] eqn:Ed; [|discriminate].
    destruct (bzip a b) as [r|] eqn:Er; [|discriminate]. inversion H; subst.
    destruct (IH _ _ Er) as [Ha Hb]. apply bdim_ok in Ed. unfold axis_rule in Ed.
    split; constructor; try assumption; unfold stretches; lia.
Qed.

Lemma Forall2_pad_skip : forall (s out : shape) k, Forall2 stretches (repeat 1 k ++ s) out ->
  length out = k + length s /\ Forall2 stretches s (skipn k out).
Proof.
  intros s out k H. apply Forall2_app_inv_l in H. destruct H as [l1 [l2 [H1 [H2 Ho]]]]. subst out.
  apply Forall2_length in H1. rewrite repeat_length in H1.
  pose proof (Forall2_length H2) as L2. rewrite app_length. split; [lia|].
  rewrite H1. now rewrite skipn_app_exact.
Qed.

Lemma broadcast_shapes_compat : forall a b out, broadcast_shapes a b = Ok out -> compat a out /\ compat b out.
Proof.
  intros a b out H. unfold broadcast_shapes in H. apply bzip_stretches in H. destruct H as [Ha Hb].
  unfold pad1 in Ha, Hb. apply Forall2_pad_skip in Ha. apply Forall2_pad_skip in Hb.
  destruct Ha as [La Ha], Hb as [Lb Hb]. unfold compat.
  split; (split; [lia|]).
  - replace (length out - length a) with (Nat.max (length a) (length b) - length a) by lia. exact Ha.
  - replace (length out - length b) with (Nat.max (length a) (length b) - length b) by lia. exact Hb.
Qed.

Lemma bdim_1_r : forall x, bdim x 1 = Ok x.
Proof. intro x. unfold bdim. destruct (x =? 1) eqn:E; [apply Nat.eqb_eq in E; now subst | reflexivity]. Qed.
Lemma bdim_refl : forall x, bdim x x = Ok x.
Proof. intro x. unfold bdim. now rewrite Nat.eqb_refl. Qed.
Lemma bzip_refl : forall b, bzip b b = Ok b.
Proof. induction b as [|x b IH]; cbn; [reflexivity|]. now rewrite bdim_refl, IH. Qed.

(* a shape broadcasts with its own suffix to itself: keys (sample_shape ++ cond_batch) against the condition *)
Lemma broadcast_suffix : forall a b, broadcast_shapes (a ++ b) b = Ok (a ++ b).
Proof.
  intros a b. unfold broadcast_shapes, pad1. rewrite app_length.
  replace (Nat.max (length a + length b) (length b)) with (length a + length b) by lia.
  replace (length a + length b - (length a + length b)) with 0 by lia.
  replace (length a + length b - length b) with (length a) by lia. cbn [repeat app].
  induction a as [|x a IH]; cbn; [apply bzip_refl|]. now rewrite bdim_1_r, IH.
Qed.

Lemma broadcast_nil_r : forall a, broadcast_shapes a [] = Ok a.
Proof. intro a. pose proof (broadcast_suffix a []) as H. now rewrite app_nil_r in H. Qed.

(* ================================================================================================ *)
(* np.ndindex, C-order position                                                                      *)
(* ================================================================================================ *)
Definition in_range (s : shape) (I : index) : Prop := Forall2 lt I s.

Lemma in_ndindex : forall s I, In I (ndindex s) <-> in_range s I.
Proof.
  unfold in_range. induction s as [|n s IH]; intro I; cbn.
  - split; [intros [H|[]]; subst; constructor | intro H; inversion H; now left].
  - rewrite in_flat_map. split.
    + intros [i [Hi HI]]. apply in_map_iff in HI. destruct HI as [I' [HI HI']]. subst I.
      apply in_seq in Hi. constructor; [lia | now apply IH].
    + intro H. inversion H as [|i n' I' s' Hi HI']; subst. exists i. split; [apply in_seq; lia|].
      apply in_map_iff. exists I'. split; [reflexivity | now apply IH].
Qed.

Lemma flat_map_seq_blocks : forall b p n j,
  flat_map (fun i => seq ((b + i) * p) p) (seq j n) = seq ((b + j) * p) (n * p).
Proof.
  intros b p n. induction n as [|n IH]; intro j; cbn [seq flat_map]; [reflexivity|].
  rewrite IH. replace (S n * p) with (p + n * p) by lia. rewrite seq_app. f_equal. f_equal. lia.
Qed.

Lemma map_flat_map {X Y Z} (f : Y -> Z) (g : X -> list Y) l : map f (flat_map g l) = flat_map (fun x => map f (g x)) l.
Proof. induction l as [|a l IH]; cbn; [reflexivity|]. now rewrite map_app, IH. Qed.

(* the positions of np.ndindex(s) in C order are 0, 1, ..., prod s - 1, in this order *)
Lemma ravel_acc_ndindex : forall s acc, map (ravel_acc acc s) (ndindex s) = seq (acc * prod s) (prod s).
Proof.
  induction s as [|n s IH]; intro acc; cbn [ndindex prod fold_right].
  - cbn. f_equal. lia.
  - rewrite map_flat_map.
    rewrite (flat_map_ext _ (fun i => seq ((acc * n + i) * prod s) (prod s))).
    + change (fold_right Nat.mul 1 s) with (prod s). rewrite flat_map_seq_blocks. f_equal; lia.
    + intro i. rewrite map_map. cbn [ravel_acc]. apply IH.
Qed.

Lemma ravel_ndindex : forall s, map (ravel s) (ndindex s) = seq 0 (prod s).
Proof. intro s. unfold ravel. now rewrite ravel_acc_ndindex. Qed.

Lemma NoDup_ndindex : forall s, NoDup (ndindex s).
Proof. intro s. apply (NoDup_map_inv (ravel s)). rewrite ravel_ndindex. apply seq_NoDup. Qed.

Lemma length_ndindex : forall s, length (ndindex s) = prod s.
Proof. intro s. rewrite <- (map_length (ravel s)), ravel_ndindex. apply seq_length. Qed.

Lemma in_range_length : forall s I, in_range s I -> length I = length s.
Proof. intros s I H. exact (Forall2_length H). Qed.

(* ---------- bproj on in-range indices ---------- *)
Lemma bproj_aligned_id : forall s I, in_range s I -> bproj_aligned s I = I.
Proof.
  unfold in_range. induction s as [|n s IH]; intros I H; inversion H as [|i n' I' s' Hi HI']; subst; cbn; [reflexivity|].
  rewrite (IH _ HI'). destruct (n =? 1) eqn:E; [apply Nat.eqb_eq in E; f_equal; lia | reflexivity].
Qed.

Lemma bproj_self : forall s I, in_range s I -> bproj s s I = I.
Proof. intros s I H. unfold bproj. rewrite Nat.sub_diag. cbn [skipn]. now apply bproj_aligned_id. Qed.

Lemma in_range_app_skipn : forall a b I, in_range (a ++ b) I -> in_range b (skipn (length a) I).
Proof.
  unfold in_range. induction a as [|x a IH]; intros b I H; cbn in *; [exact H|].
  inversion H; subst. cbn. now apply IH.
Qed.

Lemma bproj_suffix : forall a b I, in_range (a ++ b) I -> bproj b (a ++ b) I = skipn (length a) I.
Proof.
  intros a b I H. unfold bproj. rewrite app_length. replace (length a + length b - length b) with (length a) by lia.
  apply bproj_aligned_id. now apply in_range_app_skipn.
Qed.


(* ================================================================================================ *)
(* nested tensors: bproj is indexing of the explicitly broadcast array                               *)
(* ================================================================================================ *)
(* the outer length-s levels of t are lists of the stated lengths (what is below is not constrained) *)
Fixpoint has_shape {A} (s : shape) (t : tensor A) : Prop :=
  match s with
  | [] => True
  | n :: s' => match t with Ar l => length l = n /\ Forall (has_shape s') l | Sc _ => False end
  end.

Lemma bcast_al_id {A} (d : tensor A) : forall s t, has_shape s t -> bcast_al d s s t = t.
Proof.
  induction s as [|n s IH]; intros t H; [destruct t; reflexivity|].
  destruct t as [a|l]; [destruct H|]. destruct H as [Hl Hf]. cbn [bcast_al].
  destruct (n =? 1) eqn:E.
  - apply Nat.eqb_eq in E. subst n. destruct l as [|x [|y l]]; try discriminate. cbn.
    inversion Hf; subst. now rewrite IH.
  - f_equal. rewrite <- (map_id l) at 2. apply map_ext_in. intros x Hx. apply IH.
    rewrite Forall_forall in Hf. now apply Hf.
Qed.

Lemma bcast_al_get {A} (d : tensor A) : forall s out core t I,
  Forall2 stretches s out -> has_shape (s ++ core) t -> in_range out I ->
  tsub d (bcast_al d (s ++ core) (out ++ core) t) I = tsub d t (bproj_aligned s I).
Proof.
  unfold in_range. induction s as [|n s IH]; intros out core t I Hc Hs HI.
  - inversion Hc; subst. inversion HI; subst. cbn. now apply bcast_al_id.
  - inversion Hc as [|n' m s' out' Hnm Hc']; subst. inversion HI as [|i m' I' out'' Hi HI']; subst.
    cbn [app] in *. destruct t as [a|l]; [destruct Hs|]. destruct Hs as [Hl Hf].
    cbn [bcast_al bproj_aligned]. destruct (n =? 1) eqn:E.
    + apply Nat.eqb_eq in E. subst n. destruct l as [|x [|y l]]; try discriminate.
      cbn [tsub nth]. rewrite nth_repeat_lt by exact Hi. inversion Hf; subst. now apply IH.
    + apply Nat.eqb_neq in E. destruct Hnm as [Hnm|Hnm]; [subst m | contradiction].
      cbn [tsub]. rewrite (nth_indep _ d (bcast_al d (s ++ core) (out' ++ core) d)) by (rewrite map_length; lia).
      rewrite map_nth. apply IH; try assumption.
      rewrite Forall_forall in Hf. apply Hf. apply nth_In. lia.
Qed.

Lemma bcast_lead_get {A} (d : tensor A) : forall k s out core t I,
  length out = k + length s -> Forall2 stretches s (skipn k out) -> has_shape (s ++ core) t -> in_range out I ->
  tsub d (bcast_lead d k (s ++ core) (out ++ core) t) I = tsub d t (bproj_aligned s (skipn k I)).
Proof.
  unfold in_range. induction k as [|k IH]; intros s out core t I Hl Hc Hs HI.
  - cbn [skipn] in *. replace (bcast_lead d 0 (s ++ core) (out ++ core) t) with (bcast_al d (s ++ core) (out ++ core) t)
      by (destruct (out ++ core); reflexivity).
    now apply bcast_al_get.
  - destruct out as [|m out]; [cbn in Hl; lia|]. inversion HI as [|i m' I' out' Hi HI']; subst.
    cbn [app bcast_lead skipn tsub]. rewrite nth_repeat_lt by exact Hi.
    apply IH; try assumption. cbn in Hl. lia.
Qed.

(* np.broadcast_to(t, out ++ core)[I] = t[bproj s out I] -- all ranks, also unequal ones; [core] are trailing
   (event / condition) axes shared by both shapes *)
Theorem bproj_spec {A} (d : tensor A) : forall s out core t I,
  compat s out -> has_shape (s ++ core) t -> in_range out I ->
  tsub d (broadcast_to d (s ++ core) (out ++ core) t) I = tsub d t (bproj s out I).
Proof.
  intros s out core t I [Hl Hc] Hs HI. unfold broadcast_to, bproj. rewrite !app_length.
  replace (length out + length core - (length s + length core)) with (length out - length s) by lia.
  apply bcast_lead_get; try assumption. lia.
Qed.

(* ---------- tab / lookup ---------- *)
Lemma tab_get {A} (d : tensor A) : forall out g I, in_range out I -> tsub d (tab out g) I = g I.
Proof.
  unfold in_range. induction out as [|n s IH]; intros g I HI; inversion HI as [|i n' I' s' Hi HI']; subst; cbn [tab tsub]; [reflexivity|].
  set (h := fun i0 => tab s (fun J => g (i0 :: J))).
  rewrite (nth_indep _ d (h 0)) by (rewrite map_length, seq_length; exact Hi).
  rewrite (map_nth h). rewrite seq_nth by exact Hi. unfold h. cbn [Nat.add]. exact (IH (fun J => g (i :: J)) I' HI').
Qed.

Lemma lookup_map {E} (h : index -> E) : forall L I, In I L -> lookup (map (fun J => (J, h J)) L) I = Some (h I).
Proof.
  induction L as [|J L IH]; intros I HI; [destruct HI|]. cbn.
  destruct (shape_eqb J I) eqn:E1; [apply shape_eqb_eq in E1; now subst|].
  destruct HI as [HI|HI]; [subst; now rewrite shape_eqb_refl in E1 | now apply IH].
Qed.

(* ================================================================================================ *)
(* jnp.vectorize as used                                                                             *)
(* ================================================================================================ *)
Lemma py_slice_from_neg : forall k (s : shape), 0 < k <= length s ->
  py_slice_from (- Z.of_nat k) s = skipn (length s - k) s.
Proof.
  intros k s H. unfold py_slice_from.
  destruct (- Z.of_nat k <? 0)%Z eqn:E; [|lia]. f_equal. lia.
Qed.

Lemma py_slice_to_leading : forall (cb csh : shape), py_slice_to (neg_or_none (length csh)) (cb ++ csh) = cb.
Proof.
  intros cb csh. unfold neg_or_none, py_slice_to.
  destruct (- Z.of_nat (length csh) =? 0)%Z eqn:E.
  - destruct csh; [now rewrite app_nil_r | cbn in E; lia].
  - destruct (- Z.of_nat (length csh) <? 0)%Z eqn:E2; [|lia].
    rewrite app_length. replace (Z.to_nat _) with (length cb) by lia. apply firstn_app_exact.
Qed.

(* dim_sizes in which every name is bound to the size it spells *)
Definition diag (ds : list (nat * nat)) : Prop := forall k v, dims_lookup ds k = Some v -> v = k.

Lemma diag_nil : diag [].
Proof. intros k v H. discriminate. Qed.

Lemma update_dims_diag : forall core ds, diag ds -> exists ds', update_dims ds core core = Ok ds' /\ diag ds'.
Proof.
  induction core as [|n core IH]; intros ds Hd; cbn; [now exists ds|].
  destruct (dims_lookup ds n) as [v|] eqn:El.
  - rewrite (Hd _ _ El), Nat.eqb_refl. now apply IH.
  - apply IH. intros k v. cbn. destruct (n =? k) eqn:E; [intro H; inversion H; subst; now apply Nat.eqb_eq in E | apply Hd].
Qed.

Lemma vec_arg_exact : forall ds core b, diag ds -> exists ds', vec_arg ds core (b ++ core) = Ok (b, core, ds') /\ diag ds'.
Proof.
  intros ds core b Hd. unfold vec_arg. rewrite app_length.
  destruct (length b + length core <? length core) eqn:E; [lia|].
  replace (length b + length core - length core) with (length b) by lia. rewrite firstn_app_exact.
  assert (Hc : match core with [] => [] | _ :: _ => py_slice_from (- Z.of_nat (length core)) (b ++ core) end = core).
  { destruct core as [|n core]; [reflexivity|]. rewrite py_slice_from_neg by (rewrite app_length; cbn; lia).
    rewrite app_length. replace (length b + length (n :: core) - length (n :: core)) with (length b) by lia.
    apply skipn_app_exact. }
  rewrite Hc. destruct (update_dims_diag core ds Hd) as [ds' [Hu Hd']]. rewrite Hu. now exists ds'.
Qed.

Lemma vec_arg_ok_inv : forall ds core s b c ds', vec_arg ds core s = Ok (b, c, ds') -> s = b ++ c /\ length c = length core.
Proof.
  intros ds core s b c ds' H. unfold vec_arg in H.
  destruct (length s <? length core) eqn:E; [discriminate|].
  destruct (update_dims ds core _) as [ds2|] eqn:Eu; [|discriminate]. inversion H; subst; clear H.
  destruct core as [|n core].
  - cbn. rewrite Nat.sub_0_r, firstn_all. now rewrite app_nil_r.
  - rewrite py_slice_from_neg by (cbn in *; lia). split; [now rewrite firstn_skipn|].
    rewrite skipn_length. lia.
Qed.

(* vectorize2 succeeds exactly on arguments whose trailing dims are the declared core shapes and whose batch
   shapes broadcast; then it calls the function once per element of the broadcast batch shape *)
Lemma vectorize2_wellformed : forall core1 core2 b1 b2,
  vectorize2 core1 core2 (b1 ++ core1) (b2 ++ core2) =
  match broadcast_shapes b1 b2 with
  | Ok out => Ok (out, map (fun I => (I, bproj b1 out I, Some (bproj b2 out I))) (ndindex out))
  | Err e => Err e
  end.
Proof.
  intros core1 core2 b1 b2. unfold vectorize2.
  destruct (vec_arg_exact [] core1 b1 diag_nil) as [ds1 [H1 Hd1]]. rewrite H1.
  destruct (vec_arg_exact ds1 core2 b2 Hd1) as [ds2 [H2 _]]. rewrite H2.
  destruct (broadcast_shapes b1 b2); [|reflexivity]. now rewrite !shape_eqb_refl.
Qed.

Lemma vectorize2_ok_inv : forall core1 core2 s1 s2 out es, vectorize2 core1 core2 s1 s2 = Ok (out, es) ->
  exists b1 b2, s1 = b1 ++ core1 /\ s2 = b2 ++ core2.
Proof.
  intros core1 core2 s1 s2 out es H. unfold vectorize2 in H.
  destruct (vec_arg [] core1 s1) as [[[b1 c1] ds1]|] eqn:E1; [|discriminate].
  destruct (vec_arg ds1 core2 s2) as [[[b2 c2] ds2]|] eqn:E2; [|discriminate].
  destruct (broadcast_shapes b1 b2); [|discriminate].
  destruct (shape_eqb c1 core1 && shape_eqb c2 core2) eqn:Eb; [|discriminate].
  apply andb_true_iff in Eb. destruct Eb as [Ec1 Ec2]. apply shape_eqb_eq in Ec1, Ec2. subst.
  apply vec_arg_ok_inv in E1, E2. exists b1, b2. now destruct E1, E2.
Qed.

Lemma vectorize1_wellformed : forall core1 b1,
  vectorize1 core1 (b1 ++ core1) = Ok (b1, map (fun I => (I, I, None)) (ndindex b1)).
Proof.
  intros core1 b1. unfold vectorize1.
  destruct (vec_arg_exact [] core1 b1 diag_nil) as [ds1 [H1 _]]. rewrite H1, shape_eqb_refl.
  f_equal. f_equal. apply map_ext_in. intros I HI. apply in_ndindex in HI. now rewrite bproj_self.
Qed.

Lemma vectorize1_ok_inv : forall core1 s1 out es, vectorize1 core1 s1 = Ok (out, es) -> s1 = out ++ core1.
Proof.
  intros core1 s1 out es H. unfold vectorize1 in H.
  destruct (vec_arg [] core1 s1) as [[[b1 c1] ds1]|] eqn:E1; [|discriminate].
  destruct (shape_eqb c1 core1) eqn:Ec; [|discriminate]. apply shape_eqb_eq in Ec. subst.
  inversion H; subst. apply vec_arg_ok_inv in E1. now destruct E1.
Qed.

(* ================================================================================================ *)
(* log_prob                                                                                          *)
(* ================================================================================================ *)
(* conditional distribution, well-formed arguments: shape law + plan + rejection of non-broadcastable batches *)
Theorem plan_logprob_wellformed : forall ds csh xb cb,
  plan_logprob ds (Some csh) (xb ++ ds) (Some (cb ++ csh)) =
  match broadcast_shapes xb cb with
  | Ok out => Ok (out, map (fun I => (I, bproj xb out I, Some (bproj cb out I))) (ndindex out))
  | Err e => Err e
  end.
Proof. intros. cbn [plan_logprob]. apply vectorize2_wellformed. Qed.

(* unconditional distribution: whatever is passed as condition is ignored *)
Theorem plan_logprob_uncond : forall ds xb cs,
  plan_logprob ds None (xb ++ ds) cs = Ok (xb, map (fun I => (I, I, None)) (ndindex xb)).
Proof. intros. cbn [plan_logprob]. apply vectorize1_wellformed. Qed.

(* a plan exists only for arguments whose trailing dims are the event / condition shape *)
Theorem plan_logprob_ok_inv : forall ds cshape xs cs out es, plan_logprob ds cshape xs cs = Ok (out, es) ->
  match cshape with
  | Some csh => exists xb cb, xs = xb ++ ds /\ cs = Some (cb ++ csh) /\ broadcast_shapes xb cb = Ok out
  | None => xs = out ++ ds
  end.
Proof.
  intros ds [csh|] xs cs out es H; cbn [plan_logprob] in H.
  - destruct cs as [cs|]; [|discriminate]. destruct (vectorize2_ok_inv _ _ _ _ _ _ H) as [xb [cb [Hx Hc]]]. subst.
    exists xb, cb. repeat split. rewrite vectorize2_wellformed in H. destruct (broadcast_shapes xb cb); [|discriminate].
    now inversion H.
  - now apply vectorize1_ok_inv in H.
Qed.

Theorem plan_logprob_none_condition : forall ds csh xs, plan_logprob ds (Some csh) xs None = Err EArraylike.
Proof. reflexivity. Qed.

(* no batch dims: the single unbatched call *)
Theorem plan_logprob_unbatched : forall ds csh,
  plan_logprob ds (Some csh) ds (Some csh) = Ok ([], [([], [], Some [])]) /\
  plan_logprob ds None ds None = Ok ([], [([], [], None)]).
Proof.
  intros ds csh. split.
  - apply (plan_logprob_wellformed ds csh [] []).
  - apply (plan_logprob_uncond ds [] None).
Qed.

(* the batched result, element by element, is the unbatched method applied to the NumPy-broadcast arguments *)
Theorem logprob_elementwise {A B} (dA : tensor A) (dB : tensor B) (f : tensor A -> option (tensor A) -> tensor B) :
  forall ds csh xb cb x c out es I,
  plan_logprob ds (Some csh) (xb ++ ds) (Some (cb ++ csh)) = Ok (out, es) ->
  has_shape (xb ++ ds) x -> has_shape (cb ++ csh) c -> in_range out I ->
  tsub dB (run_logprob dA dB f out es x (Some c)) I =
  f (tsub dA (broadcast_to dA (xb ++ ds) (out ++ ds) x) I) (Some (tsub dA (broadcast_to dA (cb ++ csh) (out ++ csh) c) I)).
Proof.
  intros ds csh xb cb x c out es I H Hx Hc HI. rewrite plan_logprob_wellformed in H.
  destruct (broadcast_shapes xb cb) as [o|] eqn:Eb; [|discriminate]. inversion H; subst; clear H.
  destruct (broadcast_shapes_compat _ _ _ Eb) as [Cx Cc].
  unfold run_logprob. rewrite tab_get by exact HI. rewrite map_map. cbn beta iota.
  rewrite (lookup_map (fun J => (bproj xb out J, Some (bproj cb out J)))) by now apply in_ndindex.
  now rewrite !bproj_spec.
Qed.

Theorem logprob_elementwise_uncond {A B} (dA : tensor A) (dB : tensor B) (f : tensor A -> option (tensor A) -> tensor B) :
  forall ds xb cs x c out es I,
  plan_logprob ds None (xb ++ ds) cs = Ok (out, es) -> in_range out I ->
  out = xb /\ tsub dB (run_logprob dA dB f out es x c) I = f (tsub dA x I) c.
Proof.
  intros ds xb cs x c out es I H HI. rewrite plan_logprob_uncond in H. inversion H; subst; clear H. split; [reflexivity|].
  unfold run_logprob. rewrite tab_get by exact HI. rewrite map_map. cbn beta iota.
  now rewrite (lookup_map (fun J => (J, @None index))) by now apply in_ndindex.
Qed.

(* ================================================================================================ *)
(* sample / sample_and_log_prob                                                                      *)
(* ================================================================================================ *)
Lemma max1_eqb : forall p, (Nat.max 1 p =? p) = negb (p =? 0).
Proof. intro p. destruct p; cbn; [reflexivity|]. now rewrite Nat.eqb_refl. Qed.

Lemma get_sample_keys_wellformed : forall csh ss cb,
  get_sample_keys (Some csh) ss (cb ++ csh) =
  if prod (ss ++ cb) =? 0 then Err EReshape else Ok (ss ++ cb, prod (ss ++ cb)).
Proof.
  intros. unfold get_sample_keys. rewrite py_slice_to_leading, max1_eqb.
  destruct (prod (ss ++ cb)) eqn:E; cbn; [reflexivity|]. reflexivity.
Qed.

(* conditional distribution: shape law, one key per element (element I gets key number ravel I), the condition
   slice is the trailing part of I; empty batches are rejected *)
Theorem plan_sample_wellformed : forall csh ss cb,
  plan_sample (Some csh) ss (Some (cb ++ csh)) =
  if prod (ss ++ cb) =? 0 then Err EReshape
  else Ok (ss ++ cb, prod (ss ++ cb),
           map (fun I => (I, ravel (ss ++ cb) I, Some (skipn (length ss) I))) (ndindex (ss ++ cb))).
Proof.
  intros csh ss cb. cbn [plan_sample]. rewrite get_sample_keys_wellformed.
  destruct (prod (ss ++ cb) =? 0) eqn:E; [reflexivity|].
  rewrite vectorize2_wellformed, broadcast_suffix. f_equal. f_equal. rewrite map_map. apply map_ext_in.
  intros I HI. apply in_ndindex in HI. cbn beta iota. now rewrite bproj_self, bproj_suffix.
Qed.

Theorem plan_sample_uncond : forall ss cs,
  plan_sample None ss cs =
  if prod ss =? 0 then Err EReshape
  else Ok (ss, prod ss, map (fun I => (I, ravel ss I, None)) (ndindex ss)).
Proof.
  intros ss cs. cbn [plan_sample]. unfold get_sample_keys. rewrite app_nil_r, max1_eqb.
  destruct (prod ss =? 0) eqn:E; cbn [negb]; [reflexivity|].
  replace (Nat.max 1 (prod ss)) with (prod ss) by lia.
  rewrite vectorize1_wellformed. f_equal. f_equal. now rewrite map_map.
Qed.

Theorem plan_sample_ok_inv : forall cshape ss cs out n es, plan_sample cshape ss cs = Ok (out, n, es) ->
  match cshape with
  | Some csh => exists cb, cs = Some (cb ++ csh) /\ out = ss ++ cb
  | None => out = ss
  end /\ n = prod out /\ prod out <> 0.
Proof.
  intros [csh|] ss cs out n es H.
  - destruct cs as [cs|]; [|discriminate].
    assert (Hcb : exists cb, cs = cb ++ csh).
    { cbn [plan_sample] in H. destruct (get_sample_keys (Some csh) ss cs) as [[ks kn]|]; [|discriminate].
      destruct (vectorize2 [2] csh (ks ++ [2]) cs) as [[o e]|] eqn:Ev; [|discriminate].
      destruct (vectorize2_ok_inv _ _ _ _ _ _ Ev) as [b1 [b2 [_ Hc]]]. now exists b2. }
    destruct Hcb as [cb Hcb]. subst cs. rewrite plan_sample_wellformed in H.
    destruct (prod (ss ++ cb) =? 0) eqn:E; [discriminate|]. inversion H; subst.
    split; [now exists cb|]. split; [reflexivity | lia].
  - rewrite plan_sample_uncond in H. destruct (prod ss =? 0) eqn:E; [discriminate|]. inversion H; subst.
    split; [reflexivity|]. split; [reflexivity | lia].
Qed.

Theorem plan_sample_none_condition : forall csh ss, plan_sample (Some csh) ss None = Err EArraylike.
Proof. reflexivity. Qed.

(* no batch dims: the single unbatched call, drawn with key number 0 of split(key, 1) -- not with key itself *)
Theorem plan_sample_unbatched : forall csh,
  plan_sample (Some csh) [] (Some csh) = Ok ([], 1, [([], 0, Some [])]) /\
  plan_sample None [] None = Ok ([], 1, [([], 0, None)]).
Proof.
  intro csh. split.
  - apply (plan_sample_wellformed csh [] []).
  - apply (plan_sample_uncond [] None).
Qed.

(* the keys used by the elements of any plan, in np.ndindex order, are exactly 0, 1, ..., key_size - 1 *)
Theorem plan_sample_keys : forall cshape ss cs out n es, plan_sample cshape ss cs = Ok (out, n, es) ->
  map (fun e : sentry => snd (fst e)) es = seq 0 n /\ map (fun e : sentry => fst (fst e)) es = ndindex out.
Proof.
  intros cshape ss cs out n es H. pose proof (plan_sample_ok_inv _ _ _ _ _ _ H) as [Hs [Hn Hp]].
  destruct cshape as [csh|].
  - destruct Hs as [cb [Hcs Ho]]. subst cs. rewrite plan_sample_wellformed in H.
    destruct (prod (ss ++ cb) =? 0); [discriminate|]. inversion H; subst.
    rewrite !map_map. cbn [fst snd]. split; [apply ravel_ndindex | apply map_id].
  - rewrite plan_sample_uncond in H. destruct (prod ss =? 0); [discriminate|]. inversion H; subst.
    rewrite !map_map. cbn [fst snd]. split; [apply ravel_ndindex | apply map_id].
Qed.

Theorem plan_sample_key_indices_nodup : forall cshape ss cs out n es, plan_sample cshape ss cs = Ok (out, n, es) ->
  NoDup (map (fun e : sentry => snd (fst e)) es) /\ (forall e, In e es -> snd (fst e) < n) /\ length es = n.
Proof.
  intros cshape ss cs out n es H. destruct (plan_sample_keys _ _ _ _ _ _ H) as [Hk _].
  split; [rewrite Hk; apply seq_NoDup|]. split.
  - intros e He. assert (Hin : In (snd (fst e)) (seq 0 n)) by (rewrite <- Hk; apply in_map_iff; now exists e).
    apply in_seq in Hin. lia.
  - rewrite <- (map_length (fun e : sentry => snd (fst e))), Hk. apply seq_length.
Qed.

Section Keys.
  Variable K : Type.
  (* split key n k  stands for  jr.split(key, n)[k] *)
  Variable split : K -> nat -> nat -> K.
  Hypothesis split_inj : forall key n i j, i < n -> j < n -> split key n i = split key n j -> i = j.

  (* one key per output element, never shared *)
  Theorem keys_never_shared : forall key cshape ss cs out n es, plan_sample cshape ss cs = Ok (out, n, es) ->
    NoDup (map (fun e : sentry => split key n (snd (fst e))) es).
  Proof.
    intros key cshape ss cs out n es H. destruct (plan_sample_keys _ _ _ _ _ _ H) as [Hk _].
    rewrite <- (map_map (fun e : sentry => snd (fst e)) (split key n)), Hk.
    apply NoDup_map_inj_in; [|apply seq_NoDup].
    intros x y Hx Hy. apply in_seq in Hx, Hy. apply split_inj; lia.
  Qed.

  (* the batched sample, element by element: the unbatched method with its own key on its own condition slice *)
  Theorem sample_elementwise {A B} (dA : tensor A) (dB : tensor B) (f : K -> option (tensor A) -> tensor B) :
    forall key csh ss cb c out n es I,
    plan_sample (Some csh) ss (Some (cb ++ csh)) = Ok (out, n, es) -> in_range out I ->
    out = ss ++ cb /\ n = prod (ss ++ cb) /\
    tsub dB (run_sample dA dB f (split key n) out es (Some c)) I =
    f (split key n (ravel (ss ++ cb) I)) (Some (tsub dA c (skipn (length ss) I))).
  Proof.
    intros key csh ss cb c out n es I H HI. rewrite plan_sample_wellformed in H.
    destruct (prod (ss ++ cb) =? 0); [discriminate|]. inversion H; subst; clear H.
    split; [reflexivity|]. split; [reflexivity|].
    unfold run_sample. rewrite tab_get by exact HI. rewrite map_map. cbn beta iota.
    now rewrite (lookup_map (fun J => (ravel (ss ++ cb) J, Some (skipn (length ss) J)))) by now apply in_ndindex.
  Qed.

  Theorem sample_elementwise_uncond {A B} (dA : tensor A) (dB : tensor B) (f : K -> option (tensor A) -> tensor B) :
    forall key ss cs c out n es I,
    plan_sample None ss cs = Ok (out, n, es) -> in_range out I ->
    out = ss /\ n = prod ss /\
    tsub dB (run_sample dA dB f (split key n) out es c) I = f (split key n (ravel ss I)) c.
  Proof.
    intros key ss cs c out n es I H HI. rewrite plan_sample_uncond in H.
    destruct (prod ss =? 0); [discriminate|]. injection H as Ho Hn He. subst out n es.
    split; [reflexivity|]. split; [reflexivity|].
    unfold run_sample. rewrite tab_get by exact HI. rewrite map_map. cbn beta iota.
    now rewrite (lookup_map (fun J => (ravel ss J, @None index))) by now apply in_ndindex.
  Qed.
End Keys.

(* distinct output elements have distinct C-order positions (hence distinct keys) *)
Lemma ravel_inj : forall s I J, in_range s I -> in_range s J -> ravel s I = ravel s J -> I = J.
Proof.
  intros s I J HI HJ H. apply in_ndindex in HI, HJ.
  assert (Hnd : NoDup (map (ravel s) (ndindex s))) by (rewrite ravel_ndindex; apply seq_NoDup).
  clear -HI HJ H Hnd. induction (ndindex s) as [|x l IH]; [destruct HI|].
  cbn in Hnd. inversion Hnd as [|? ? Hn Hnd']; subst.
  destruct HI as [HI|HI], HJ as [HJ|HJ]; subst; try reflexivity.
  - exfalso. apply Hn. rewrite H. now apply in_map.
  - exfalso. apply Hn. rewrite <- H. now apply in_map.
  - now apply IH.
Qed.
