(* The log-determinant BlockAutoregressiveNetwork.transform_and_log_det REPORTS (Model/BnafLd.v) at the reals:
     1. logsumexp / logmatmulexp:  exp (logmatmulexp A B)_pj = sum_k exp A_pk * exp B_kj   (-inf entries contribute 0), any shifts
     2. linear_to_log_block_diagonal in closed form: block i, row p = ln of  W[i*bh+p][i*bw .. i*bw+bw-1]
     3. MAIN: exp of the i-th entry of the final (dim,1,1) array IS the own-coordinate derivative d y_i / d x_i of the value
        model Proofs/BnafP.bnaf_R (Coquelicot is_derive; chain rule through all layers carrying the derivative VALUE), for
        every dim / depth / block_dim, every raw weight / bias / condition term and every activation act with derivative
        act' > 0 everywhere whose reported log-gradient is ln (act' x)
     4. the reported total = sum_i ln (d y_i / d x_i) = ln |det J| for every J whose upper triangle holds the partials
        (Proofs/DetPJac.tri_jacobian_ldj), and such J exist
     5. instances: LeakyTanh as constructed, Tanh, the callable tanh (no hypothesis left on the activation).
   Exact real arithmetic; float rounding is not modelled. *)
From Coq Require Import Reals List ZArith Bool Arith Lia Lra Psatz.
From Coquelicot Require Import Coquelicot.
From FJ Require Import Model.Num Model.Leaves Model.Bisect Proofs.RNum Proofs.LeafDerivP Proofs.LeafInvP Proofs.BisectP.
From FJ Require Import Model.Masks Proofs.MasksP Proofs.BnafP Proofs.BnafDerivP Model.BnafLd.
Import ListNotations.
Open Scope R_scope.

Local Notation dotR := (Masks.dot 0 Rplus Rmult).
Local Notation linearR := (Masks.linear 0 Rplus Rmult).

(* ------------------------------------------------------------------------------------------ *)
(* 0. finite sums over an index range                                                           *)
(* ------------------------------------------------------------------------------------------ *)
Fixpoint sumf (n : nat) (f : nat -> R) : R := match n with O => 0 | S k => sumf k f + f k end.

Lemma sumf_ext n f g : (forall k, (k < n)%nat -> f k = g k) -> sumf n f = sumf n g.
Proof. induction n as [|n IH]; intros H; [reflexivity|]. cbn [sumf]. rewrite IH by (intros k Hk; apply H; lia). rewrite H by lia. reflexivity. Qed.
Lemma sumf_zero n f : (forall k, (k < n)%nat -> f k = 0) -> sumf n f = 0.
Proof. induction n as [|n IH]; intros H; [reflexivity|]. cbn [sumf]. rewrite IH by (intros k Hk; apply H; lia). rewrite H by lia. lra. Qed.
Lemma sumf_head n f : sumf (S n) f = f 0%nat + sumf n (fun k => f (S k)).
Proof. induction n as [|n IH]; [cbn; lra|]. change (sumf (S (S n)) f) with (sumf (S n) f + f (S n)). rewrite IH. cbn [sumf]. lra. Qed.
Lemma sumf_split a b f : sumf (a + b) f = sumf a f + sumf b (fun k => f (a + k)%nat).
Proof. induction b as [|b IH]; [rewrite Nat.add_0_r; cbn; lra|]. rewrite Nat.add_succ_r. cbn [sumf]. rewrite IH. lra. Qed.
Lemma sumf_scal c n f : c * sumf n f = sumf n (fun k => c * f k).
Proof. induction n as [|n IH]; [cbn; lra|]. cbn [sumf]. rewrite <- IH. lra. Qed.
Lemma sumf_plus n f g : sumf n (fun k => f k + g k) = sumf n f + sumf n g.
Proof. induction n as [|n IH]; [cbn; lra|]. cbn [sumf]. rewrite IH. lra. Qed.
Lemma sumf_swap n m (u : nat -> nat -> R) : sumf n (fun i => sumf m (u i)) = sumf m (fun j => sumf n (fun i => u i j)).
Proof.
  induction n as [|n IH]; [cbn [sumf]; symmetry; apply sumf_zero; reflexivity|].
  cbn [sumf]. rewrite IH, <- sumf_plus. reflexivity.
Qed.
Lemma sumf_onehot n k f c : (k < n)%nat -> sumf n (fun q => f q * (if (q =? k)%nat then c else 0)) = f k * c.
Proof.
  induction n as [|n IH]; intros H; [lia|]. cbn [sumf]. destruct (Nat.eq_dec k n) as [->|Hne].
  - rewrite Nat.eqb_refl, sumf_zero; [lra|]. intros q Hq. destruct (Nat.eqb_spec q n); [lia|lra].
  - rewrite IH by lia. destruct (Nat.eqb_spec n k); [lia|lra].
Qed.
Lemma sumf_nonneg n f : (forall k, (k < n)%nat -> 0 <= f k) -> 0 <= sumf n f.
Proof. induction n as [|n IH]; intros H; [cbn; lra|]. cbn [sumf]. pose proof (IH ltac:(intros k Hk; apply H; lia)). pose proof (H n ltac:(lia)). lra. Qed.
Lemma sumf_pos n f : (forall k, (k < n)%nat -> 0 <= f k) -> (exists k, (k < n)%nat /\ 0 < f k) -> 0 < sumf n f.
Proof.
  induction n as [|n IH]; intros H [k [Hk Hp]]; [lia|]. cbn [sumf].
  pose proof (sumf_nonneg n f ltac:(intros q Hq; apply H; lia)) as Hn. pose proof (H n ltac:(lia)) as Hl.
  destruct (Nat.eq_dec k n) as [->|Hne]; [lra|].
  assert (0 < sumf n f) by (apply IH; [intros q Hq; apply H; lia|exists k; split; [lia|exact Hp]]). lra.
Qed.

Lemma nth_map_lt {T U} (f : T -> U) (l : list T) k d d' : (k < length l)%nat -> nth k (map f l) d' = f (nth k l d).
Proof. intros H. rewrite (nth_indep (map f l) d' (f d)) by (rewrite map_length; exact H). apply map_nth. Qed.

(* a dot product as a sum over any range that covers the first operand (missing entries read 0) *)
Lemma dotR_sumf a : forall b n, (length a <= n)%nat -> dotR a b = sumf n (fun k => nth k a 0 * nth k b 0).
Proof.
  induction a as [|x a IH]; intros b n H.
  - symmetry. apply sumf_zero. intros k _. destruct k; cbn; lra.
  - destruct n as [|n]; [cbn in H; lia|]. destruct b as [|y b].
    + symmetry. apply sumf_zero. intros k _. destruct k; cbn; lra.
    + rewrite sumf_head. cbn [nth]. rewrite dotR_cons, (IH b n) by (cbn in H; lia). reflexivity.
Qed.

(* ------------------------------------------------------------------------------------------ *)
(* 1. logsumexp and logmatmulexp                                                                *)
(* ------------------------------------------------------------------------------------------ *)
(* ln (sum exp) of a non-empty list, whatever shift is subtracted inside *)
Theorem logsumexp_shift (l : list R) (s : R) : l <> [] ->
  0 < fold_right Rplus 0 (map exp l) /\
  ln (fold_right Rplus 0 (map (fun v => exp (v - s)) l)) + s = ln (fold_right Rplus 0 (map exp l)) /\
  exp (ln (fold_right Rplus 0 (map (fun v => exp (v - s)) l)) + s) = fold_right Rplus 0 (map exp l).
Proof.
  intros Hne.
  assert (Hpos : forall (g : R -> R) (l : list R), l <> [] -> 0 < fold_right Rplus 0 (map (fun v => exp (g v)) l)).
  { intros g l0 H0. destruct l0 as [|a l0]; [contradiction|]. clear H0. revert a. induction l0 as [|b l0 IH]; intros a; cbn [map fold_right].
    - pose proof (exp_pos (g a)). lra.
    - pose proof (exp_pos (g a)). specialize (IH b). cbn [map fold_right] in IH. lra. }
  assert (Hscal : fold_right Rplus 0 (map (fun v => exp (v - s)) l) * exp s = fold_right Rplus 0 (map exp l)).
  { clear Hne. induction l as [|a l IH]; cbn [map fold_right]; [lra|]. rewrite <- IH.
    replace (exp a) with (exp (a - s) * exp s) by (rewrite <- exp_plus; f_equal; lra). lra. }
  pose proof (Hpos (fun v => v) l Hne) as H1. pose proof (Hpos (fun v => v - s) l Hne) as H2.
  split; [exact H1|]. split.
  - rewrite <- Hscal, ln_mult by (try apply exp_pos; exact H2). rewrite ln_exp. reflexivity.
  - rewrite exp_plus, exp_ln by exact H2. exact Hscal.
Qed.

(* the value an extended entry stands for under exp:  exp(-inf) = 0 *)
Definition EE (e : option R) : R := match e with Some v => exp v | None => 0 end.
Lemma EE_nonneg e : 0 <= EE e.
Proof. destruct e; cbn; [left; apply exp_pos|lra]. Qed.
(* y[k][j], -inf out of range *)
Definition yent (y : list (list (option R))) (k j : nat) : option R := nth j (nth k y []) None.
Lemma nth_ecol y k j : nth k (ecol j y) None = yent y k j.
Proof.
  unfold ecol, yent. destruct (Nat.lt_ge_cases k (length y)) as [H|H].
  - apply (nth_map_lt (fun row => nth j row None) y k []). exact H.
  - rewrite (nth_overflow (map _ y)) by (rewrite map_length; exact H). rewrite (nth_overflow y) by exact H. destruct j; reflexivity.
Qed.

(* one entry: ln (sum_k exp(x_k - xs) * exp(y_k - ys)) + xs + ys, for ANY shifts xs, ys *)
Lemma lme_scalar (xrow : list R) (cl : list (option R)) (xs ys : R) :
  let TT := dotR (map (fun v => exp (v - xs)) xrow) (map (fun e => eexp_sub ROps e ys) cl) in
  let SS := sumf (length xrow) (fun k => exp (nth k xrow 0) * EE (nth k cl None)) in
  TT * exp xs * exp ys = SS /\ (0 < SS -> exp (ln TT + xs + ys) = SS).
Proof.
  intros TT SS.
  assert (HT : TT * exp xs * exp ys = SS).
  { unfold TT, SS. rewrite (dotR_sumf _ _ (length xrow)) by (rewrite map_length; lia).
    rewrite Rmult_assoc, Rmult_comm, sumf_scal. apply sumf_ext. intros k Hk.
    rewrite (nth_map_lt (fun v => exp (v - xs)) xrow k 0 0 Hk).
    replace (nth k (map (fun e => eexp_sub ROps e ys) cl) 0) with (eexp_sub ROps (nth k cl None) ys)
      by (symmetry; apply (map_nth (fun e => eexp_sub ROps e ys) cl None k)).
    destruct (nth k cl None) as [v|]; cbn [eexp_sub EE n_exp n_sub ROps ROpsG].
    - replace (exp (nth k xrow 0)) with (exp (nth k xrow 0 - xs) * exp xs) by (rewrite <- exp_plus; f_equal; lra).
      replace (exp v) with (exp (v - ys) * exp ys) by (rewrite <- exp_plus; f_equal; lra). ring.
    - change (Num.c ROps 0) with 0. ring. }
  split; [exact HT|]. intros HS.
  assert (0 < TT).
  { pose proof (exp_pos xs). pose proof (exp_pos ys). rewrite <- HT in HS.
    destruct (Rlt_le_dec 0 TT) as [Hp|Hn]; [exact Hp|]. exfalso.
    assert (TT * exp xs * exp ys <= 0) by (rewrite Rmult_assoc; assert (0 < exp xs * exp ys) by nra; nra). lra. }
  rewrite !exp_plus, exp_ln by assumption. exact HT.
Qed.

Lemma lme_length x y : length (logmatmulexp ROps x y) = length x.
Proof. unfold logmatmulexp. apply map_length. Qed.
Lemma lme_row_length x y p row : nth_error (logmatmulexp ROps x y) p = Some row -> length row = ncols y.
Proof.
  unfold logmatmulexp. rewrite nth_error_map. destruct (nth_error x p); [|discriminate]. cbn [option_map]. intros H. injection H as <-.
  rewrite map_length, combine_length, map_length, seq_length. lia.
Qed.

(* SPEC of logmatmulexp: exp of entry (p, j) is sum_k exp x_pk * exp y_kj, as soon as that sum is positive
   (at least one k with y_kj finite); no property of the shifts is needed *)
Theorem logmatmulexp_spec x y p j xrow :
  nth_error x p = Some xrow -> (j < ncols y)%nat ->
  exists row v, nth_error (logmatmulexp ROps x y) p = Some row /\ nth_error row j = Some v /\
    let SS := sumf (length xrow) (fun k => exp (nth k xrow 0) * EE (yent y k j)) in
    0 < SS -> exp v = SS.
Proof.
  intros Hx Hj. unfold logmatmulexp. rewrite nth_error_map, Hx. cbn [option_map].
  eexists. eexists. split; [reflexivity|]. rewrite nth_error_map, nth_error_combine, nth_error_seq by exact Hj.
  rewrite nth_error_map, nth_error_seq by exact Hj. cbn [option_map fst snd Nat.add]. split; [reflexivity|].
  set (ys := match emax ROps (ecol j y) with Some s => s | None => Num.c ROps 0 end).
  set (SS := sumf (length xrow) (fun k => exp (nth k xrow 0) * EE (yent y k j))). intros HS.
  destruct (lme_scalar xrow (ecol j y) (amax ROps xrow) ys) as [_ H].
  cbv zeta in H.
  assert (E : sumf (length xrow) (fun k => exp (nth k xrow 0) * EE (nth k (ecol j y) None)) = SS).
  { unfold SS. apply sumf_ext. intros k _. rewrite nth_ecol. reflexivity. }
  rewrite E in H. exact (H HS).
Qed.

(* ------------------------------------------------------------------------------------------ *)
(* 2. linear_to_log_block_diagonal in closed form                                               *)
(* ------------------------------------------------------------------------------------------ *)
Ltac bl := repeat match goal with
                  | |- context[(?x <=? ?y)%nat] => destruct (Nat.leb_spec x y)
                  | |- context[(?x <? ?y)%nat] => destruct (Nat.ltb_spec x y)
                  | |- context[(?x =? ?y)%nat] => destruct (Nat.eqb_spec x y)
                  end; cbn [andb orb negb]; try reflexivity; try lia.

(* a boolean mask that is True exactly on [a, a+k) selects that slice *)
Lemma select_interval {T} : forall (m : list bool) (row : list T) a k, length m = length row ->
  (forall c, (c < length m)%nat -> nth_error m c = Some ((a <=? c)%nat && (c <? a + k)%nat)) ->
  select m row = firstn k (skipn a row).
Proof.
  induction m as [|b m IH]; intros row a k Hl H.
  - destruct row; [|discriminate]. rewrite skipn_nil, firstn_nil. reflexivity.
  - destruct row as [|r row]; [discriminate|]. pose proof (H 0%nat ltac:(cbn; lia)) as H0. cbn [nth_error] in H0. injection H0 as Hb.
    assert (Htail : forall a' k', (forall c, (c < length m)%nat ->
                       ((a <=? S c)%nat && (S c <? a + k)%nat) = ((a' <=? c)%nat && (c <? a' + k')%nat)) ->
                     select m row = firstn k' (skipn a' row)).
    { intros a' k' E. apply IH; [cbn in Hl; lia|]. intros c Hc. pose proof (H (S c) ltac:(cbn; lia)) as Hc'. cbn [nth_error] in Hc'.
      rewrite Hc'. f_equal. apply E. exact Hc. }
    unfold select in *. cbn [combine filter fst map snd]. destruct a as [|a]; [destruct k as [|k]|].
    + subst b. cbn [skipn firstn]. apply (Htail 0%nat 0%nat). intros c _. bl.
    + subst b. cbn [Nat.leb Nat.ltb Nat.add andb map snd skipn firstn]. f_equal. apply (Htail 0%nat k). intros c _. bl.
    + subst b. cbn [Nat.leb andb skipn]. apply (Htail a k). intros c _. bl.
Qed.

Lemma concat_chunk {T} k : forall (L : list (list T)) u, (forall l, In l L -> length l = k) -> (u < length L)%nat ->
  firstn k (skipn (u * k) (concat L)) = nth u L [].
Proof.
  induction L as [|l L IH]; intros u Hk Hu; [cbn in Hu; lia|]. cbn [concat]. pose proof (Hk l (or_introl eq_refl)) as Hl.
  destruct u as [|u].
  - cbn [Nat.mul skipn nth]. rewrite firstn_app, Hl, Nat.sub_diag, firstn_all2 by lia. cbn [firstn]. apply app_nil_r.
  - cbn [nth]. rewrite skipn_app, Hl. rewrite (skipn_all2 l) by (cbn; lia). cbn [app].
    replace (S u * k - k)%nat with (u * k)%nat by (cbn; lia). apply IH; [intros l' Hl'; apply Hk; right; exact Hl'|cbn in Hu; lia].
Qed.

Lemma firstn_skipn_firstn {T} a k M (X : list T) : (a + k <= M)%nat -> firstn k (skipn a (firstn M X)) = firstn k (skipn a X).
Proof.
  intros H. apply nth_error_ext_eq. intros q. rewrite !nth_error_firstn', !nth_error_skipn', nth_error_firstn'. bl.
Qed.

Lemma div_block bw c b : (0 < bw)%nat -> ((b =? c / bw)%nat = ((b * bw <=? c)%nat && (c <? b * bw + bw)%nat)).
Proof.
  intros Hbw. pose proof (Nat.div_mod c bw ltac:(lia)) as Hd. pose proof (Nat.mod_upper_bound c bw ltac:(lia)) as Hm.
  destruct (Nat.eqb_spec b (c / bw)) as [->|Hne].
  - symmetry. apply andb_true_iff. split; [apply Nat.leb_le|apply Nat.ltb_lt]; nia.
  - symmetry. apply andb_false_iff. destruct (Nat.lt_ge_cases b (c / bw)); [right; apply Nat.ltb_ge|left; apply Nat.leb_gt]; nia.
Qed.

Section LogBlockDiag.
  Variables (n bh bw : nat) (W : list (list R)).
  Hypothesis Hbh : (0 < bh)%nat.
  Hypothesis Hbw : (0 < bw)%nat.
  Hypothesis HW : mat_shape (bh * n) (bw * n) W.
  Let diag := block_diag_mask bh bw n.
  Let Lsel := map (fun p : list bool * list R => select (fst p) (snd p)) (combine diag W).

  Lemma Lsel_entry u wrow : nth_error W u = Some wrow -> nth_error Lsel u = Some (firstn bw (skipn (u / bh * bw) wrow)).
  Proof.
    intros Hu. destruct HW as [HR HC]. destruct (block_diag_shape bh bw n Hbh) as [HdR HdC].
    assert (Hul : (u < bh * n)%nat) by (rewrite <- HR; apply nth_error_Some; congruence).
    destruct (nth_error diag u) as [drow|] eqn:Ed; [|apply nth_error_None in Ed; unfold diag in Ed; lia].
    unfold Lsel. rewrite nth_error_map, nth_error_combine, Ed, Hu. cbn [option_map fst snd]. f_equal.
    rewrite Forall_forall in HC, HdC. pose proof (HC wrow (nth_error_In _ _ Hu)) as Hlw. pose proof (HdC drow (nth_error_In _ _ Ed)) as Hld.
    apply select_interval; [lia|]. intros c Hc. rewrite Hld in Hc.
    pose proof (block_diag_closed_form bh bw n u c Hul Hc) as Hcf. unfold entry in Hcf. fold diag in Hcf. rewrite Ed in Hcf.
    rewrite Hcf. f_equal. apply div_block. exact Hbw.
  Qed.

  Lemma Lsel_length : length Lsel = (bh * n)%nat.
  Proof.
    unfold Lsel. rewrite map_length, combine_length. destruct HW as [HR _]. destruct (block_diag_shape bh bw n Hbh) as [HdR _].
    fold diag in HdR. lia.
  Qed.
  Lemma Lsel_rows l : In l Lsel -> length l = bw.
  Proof.
    intros Hin. apply In_nth_error in Hin. destruct Hin as [u Hu].
    assert (Hul : (u < bh * n)%nat) by (rewrite <- Lsel_length; apply nth_error_Some; congruence).
    destruct HW as [HR HC]. destruct (nth_error W u) as [wrow|] eqn:Ew; [|apply nth_error_None in Ew; lia].
    rewrite (Lsel_entry u wrow Ew) in Hu. injection Hu as <-. rewrite Forall_forall in HC. pose proof (HC wrow (nth_error_In _ _ Ew)) as Hlw.
    assert ((u / bh < n)%nat) by (apply Nat.div_lt_upper_bound; lia).
    rewrite firstn_length, skipn_length, Hlw. nia.
  Qed.

  (* block i, row p of log_jacobian = ln of the slice [i*bw, i*bw+bw) of row i*bh+p of the weight *)
  Lemma log_block_diag_entry i p wrow : (i < n)%nat -> (p < bh)%nat -> nth_error W (i * bh + p) = Some wrow ->
    exists Bi, nth_error (log_block_diag ROps n bh bw W) i = Some Bi /\ length Bi = bh /\
               nth_error Bi p = Some (map ln (firstn bw (skipn (i * bw) wrow))).
  Proof.
    intros Hi Hp Hw. unfold log_block_diag, reshape3, diag_gather. fold diag. rewrite flat_map_concat_map. fold Lsel.
    rewrite nth_error_map, nth_error_map, nth_error_chunks by exact Hi. cbn [option_map].
    eexists. split; [reflexivity|]. split; [rewrite map_length; apply chunks_length|].
    rewrite nth_error_map, nth_error_chunks by exact Hp. cbn [option_map]. f_equal.
    change (n_log ROps) with ln. f_equal.
    rewrite firstn_skipn_firstn by nia. rewrite skipn_add.
    replace (i * (bh * bw) + p * bw)%nat with ((i * bh + p) * bw)%nat by lia.
    rewrite (concat_chunk bw Lsel (i * bh + p) Lsel_rows) by (rewrite Lsel_length; nia).
    pose proof (Lsel_entry _ _ Hw) as He. rewrite (div_band bh (i * bh + p) i) in He by lia.
    apply (nth_error_nth _ _ []) in He. exact He.
  Qed.
  Lemma log_block_diag_length : length (log_block_diag ROps n bh bw W) = n.
  Proof. unfold log_block_diag, reshape3. rewrite !map_length. apply chunks_length. Qed.
End LogBlockDiag.

(* ------------------------------------------------------------------------------------------ *)
(* 3. one layer: the derivative VALUES of the units of block i                                   *)
(* ------------------------------------------------------------------------------------------ *)
Lemma isd_plus (f h : R -> R) x df dh : is_derive f x df -> is_derive h x dh -> is_derive (fun y => f y + h y) x (df + dh).
Proof. intros Hf Hh. exact (is_derive_plus (V := R_NormedModule) f h x df dh Hf Hh). Qed.
Lemma isd_const (c x : R) : is_derive (fun _ : R => c) x 0.
Proof. exact (is_derive_const (V := R_NormedModule) c x). Qed.
Lemma isd_cmul (a : R) (f : R -> R) x df : is_derive f x df -> is_derive (fun y => a * f y) x (a * df).
Proof. intros Hf. exact (is_derive_scal f x a df Hf). Qed.
Lemma isd_comp (f h : R -> R) x df dh : is_derive f (h x) df -> is_derive h x dh -> is_derive (fun y => f (h y)) x (df * dh).
Proof.
  intros Hf Hh. replace (df * dh) with (scal dh df) by (unfold scal; cbn; unfold mult; cbn; ring).
  exact (is_derive_comp f h x df dh Hf Hh).
Qed.
Lemma isd_ext (f g : R -> R) x d : (forall y, f y = g y) -> is_derive f x d -> is_derive g x d.
Proof. intros E H. exact (is_derive_ext f g x d E H). Qed.

Lemma sumf_derive n (g : nat -> R -> R) (D : nat -> R) t :
  (forall c, (c < n)%nat -> is_derive (g c) t (D c)) -> is_derive (fun tau => sumf n (fun c => g c tau)) t (sumf n D).
Proof.
  induction n as [|n IH]; intros H; [cbn [sumf]; apply isd_const|]. cbn [sumf].
  apply (isd_plus (fun tau => sumf n (fun c => g c tau)) (g n)); [apply IH; intros c Hc; apply H; lia|apply H; lia].
Qed.

Lemma nth_vadd (a b : list R) c : (c < length a)%nat -> (c < length b)%nat -> nth c (Masks.vadd Rplus a b) 0 = nth c a 0 + nth c b 0.
Proof.
  intros Ha Hb. rewrite (nth_as_nth_error (Masks.vadd Rplus a b)). unfold Masks.vadd. rewrite nth_error_map, nth_error_combine.
  rewrite (nth_error_Some_nth a c 0 Ha), (nth_error_Some_nth b c 0 Hb). reflexivity.
Qed.

(* matrix entries with the default 0 *)
Definition ment (W : list (list R)) (u c : nat) : R := nth c (nth u W []) 0.
Lemma ment_entry W u c v : entry W u c = Some v -> ment W u c = v.
Proof.
  unfold entry, ment. intros H. destruct (nth_error W u) as [row|] eqn:E; [|discriminate].
  rewrite (nth_error_nth _ _ [] E). exact (nth_error_nth _ _ 0 H).
Qed.

Section Layer.
  Variables (dim i : nat) (t : R).
  Hypothesis Hi : (i < dim)%nat.

  (* v(tau): a vector of bw*dim units in dim blocks; blocks < i do not move with tau, the units of block i have the
     derivatives d 0 .. d (bw-1) at tau = t; nothing is said about the blocks > i *)
  Definition Inv (bw : nat) (v : R -> list R) (d : nat -> R) : Prop :=
    (forall tau, length (v tau) = (bw * dim)%nat) /\
    (forall c tau, (c < i * bw)%nat -> nth c (v tau) 0 = nth c (v t) 0) /\
    (forall q, (q < bw)%nat -> is_derive (fun tau => nth (i * bw + q) (v tau) 0) t (d q)).

  Section Linear.
    Variables (bh bw : nat) (W : list (list R)) (b : list R).
    Hypothesis Hbh : (0 < bh)%nat.
    Hypothesis Hbw : (0 < bw)%nat.
    Hypothesis HW : mat_shape (bh * dim) (bw * dim) W.
    Hypothesis Hb : length b = (bh * dim)%nat.
    Let Wm := where_mask 0 (block_tril_mask bh bw dim 0) W.

    Lemma Wm_shape : mat_shape (bh * dim) (bw * dim) Wm.
    Proof. apply where_mask_shape; [apply tril_mat_shape|exact HW]. Qed.

    Lemma ment_Wm u c : (u < bh * dim)%nat -> (c < bw * dim)%nat ->
      ment Wm u c = if (c / bw <=? u / bh)%nat then ment W u c else 0.
    Proof.
      intros Hu Hc. destruct (entry_in_shape W _ _ u c HW Hu Hc) as [v Hv].
      assert (E : entry Wm u c = Some (if (c / bw <=? u / bh)%nat then v else 0)).
      { unfold Wm. rewrite entry_where_mask, Hv, block_tril_closed_form_0 by assumption. reflexivity. }
      rewrite (ment_entry _ _ _ _ E), (ment_entry _ _ _ _ Hv). reflexivity.
    Qed.

    Lemma linear_unit x u : length x = (bw * dim)%nat -> (u < bh * dim)%nat ->
      nth u (linearR Wm b x) 0 = sumf (bw * dim) (fun c => ment Wm u c * nth c x 0) + nth u b 0.
    Proof.
      intros Hx Hu. destruct Wm_shape as [HR HC].
      destruct (nth_error Wm u) as [row|] eqn:Er; [|apply nth_error_None in Er; lia].
      rewrite nth_as_nth_error, nth_error_linear, Er, (nth_error_Some_nth b u 0) by lia.
      rewrite Forall_forall in HC. pose proof (HC row (nth_error_In _ _ Er)) as Hlr.
      rewrite (dotR_sumf row x (bw * dim)) by lia. unfold ment. rewrite (nth_error_nth _ _ [] Er). reflexivity.
    Qed.

    Theorem Inv_linear v d : Inv bw v d ->
      Inv bh (fun tau => linearR Wm b (v tau)) (fun p => sumf bw (fun q => ment W (i * bh + p) (i * bw + q) * d q)).
    Proof.
      intros [Hlen [Hlow Hder]]. destruct Wm_shape as [HR HC]. split; [|split].
      - intros tau. rewrite linear_length. unfold Wm in *. lia.
      - intros u tau Hu. assert (Hul : (u < bh * dim)%nat) by nia.
        assert (Hub : (u / bh < i)%nat) by (apply Nat.div_lt_upper_bound; lia).
        rewrite !linear_unit by (try apply Hlen; exact Hul). f_equal. apply sumf_ext. intros c Hc.
        rewrite ment_Wm by assumption. destruct (Nat.leb_spec (c / bw) (u / bh)) as [Hle|Hgt]; [|lra].
        f_equal. apply Hlow. assert (c / bw < i)%nat by lia.
        pose proof (Nat.div_mod c bw ltac:(lia)). pose proof (Nat.mod_upper_bound c bw ltac:(lia)). nia.
      - intros p Hp. set (u := (i * bh + p)%nat). assert (Hul : (u < bh * dim)%nat) by (unfold u; nia).
        assert (Hub : (u / bh = i)%nat) by (unfold u; apply div_band; lia).
        set (D := fun c => if (c <? i * bw)%nat then 0 else if (c <? i * bw + bw)%nat then d (c - i * bw)%nat else 0).
        apply (isd_ext (fun tau => sumf (bw * dim) (fun c => ment Wm u c * nth c (v tau) 0) + nth u b 0)).
        { intros tau. symmetry. apply linear_unit; [apply Hlen|exact Hul]. }
        replace (sumf bw (fun q => ment W u (i * bw + q) * d q)) with (sumf (bw * dim) (fun c => ment Wm u c * D c) + 0).
        + apply (isd_plus (fun tau => sumf (bw * dim) (fun c => ment Wm u c * nth c (v tau) 0)) (fun _ => nth u b 0)); [|apply isd_const].
          apply (sumf_derive (bw * dim) (fun c tau => ment Wm u c * nth c (v tau) 0) (fun c => ment Wm u c * D c)).
          intros c Hc. unfold D. destruct (Nat.ltb_spec c (i * bw)) as [Hlo|Hge]; [|destruct (Nat.ltb_spec c (i * bw + bw)) as [Hmid|Hhi]].
          * apply (isd_ext (fun _ => ment Wm u c * nth c (v t) 0)); [intros tau; f_equal; symmetry; apply Hlow; exact Hlo|].
            rewrite Rmult_0_r. apply isd_const.
          * apply isd_cmul. pose proof (Hder (c - i * bw)%nat ltac:(lia)) as Hq.
            replace (i * bw + (c - i * bw))%nat with c in Hq by lia. exact Hq.
          * assert (Hz : ment Wm u c = 0).
            { rewrite ment_Wm by assumption. rewrite Hub. destruct (Nat.leb_spec (c / bw) i) as [Hle|Hgt]; [|reflexivity].
              exfalso. pose proof (Nat.div_mod c bw ltac:(lia)). pose proof (Nat.mod_upper_bound c bw ltac:(lia)). nia. }
            rewrite Hz, Rmult_0_l. apply (isd_ext (fun _ => 0)); [intros tau; lra|apply isd_const].
        + rewrite Rplus_0_r. replace (bw * dim)%nat with (i * bw + (bw + (dim - i - 1) * bw))%nat by nia.
          rewrite sumf_split, sumf_split. rewrite (sumf_zero (i * bw)), (sumf_zero ((dim - i - 1) * bw)).
          * rewrite Rplus_0_l, Rplus_0_r. apply sumf_ext. intros q Hq. unfold D.
            destruct (Nat.ltb_spec (i * bw + q) (i * bw)); [lia|]. destruct (Nat.ltb_spec (i * bw + q) (i * bw + bw)); [|lia].
            replace (i * bw + q - i * bw)%nat with q by lia. f_equal.
            rewrite ment_Wm by (try exact Hul; nia). rewrite Hub, (div_band bw (i * bw + q) i) by lia. rewrite Nat.leb_refl. reflexivity.
          * intros k Hk. unfold D. destruct (Nat.ltb_spec (i * bw + (bw + k)) (i * bw)); [lia|].
            destruct (Nat.ltb_spec (i * bw + (bw + k)) (i * bw + bw)); [lia|]. lra.
          * intros k Hk. unfold D. destruct (Nat.ltb_spec k (i * bw)); [|lia]. lra.
    Qed.
  End Linear.

  (* x += cond_linear(condition): a constant vector *)
  Lemma Inv_vadd bh h d t0 : (bh * dim <= length t0)%nat -> Inv bh h d -> Inv bh (fun tau => Masks.vadd Rplus (h tau) t0) d.
  Proof.
    intros Ht [Hlen [Hlow Hder]]. split; [|split].
    - intros tau. unfold Masks.vadd. rewrite map_length, combine_length, Hlen. lia.
    - intros c tau Hc. assert (c < bh * dim)%nat by nia. rewrite !nth_vadd by (try rewrite Hlen; lia). f_equal. apply Hlow. exact Hc.
    - intros q Hq. assert (i * bh + q < bh * dim)%nat by nia.
      apply (isd_ext (fun tau => nth (i * bh + q) (h tau) 0 + nth (i * bh + q) t0 0)); [intros tau; symmetry; apply nth_vadd; try rewrite Hlen; lia|].
      replace (d q) with (d q + 0) by lra. apply (isd_plus (fun tau => nth (i * bh + q) (h tau) 0) (fun _ => nth (i * bh + q) t0 0)); [apply Hder; exact Hq|apply isd_const].
  Qed.

  (* the activation, elementwise: chain rule *)
  Lemma Inv_act (act act' : R -> R) bh g d : (forall x, is_derive act x (act' x)) -> Inv bh g d ->
    Inv bh (fun tau => map act (g tau)) (fun p => act' (nth (i * bh + p) (g t) 0) * d p).
  Proof.
    intros Hact [Hlen [Hlow Hder]]. split; [|split].
    - intros tau. rewrite map_length. apply Hlen.
    - intros c tau Hc. assert (c < bh * dim)%nat by nia.
      rewrite !(nth_map_lt act _ c 0 0) by (rewrite Hlen; lia). f_equal. apply Hlow. exact Hc.
    - intros q Hq. assert (i * bh + q < bh * dim)%nat by nia.
      apply (isd_ext (fun tau => act (nth (i * bh + q) (g tau) 0))); [intros tau; symmetry; apply nth_map_lt; rewrite Hlen; lia|].
      apply (isd_comp act (fun tau => nth (i * bh + q) (g tau) 0)); [apply Hact|apply Hder; exact Hq].
  Qed.
End Layer.

(* ------------------------------------------------------------------------------------------ *)
(* 4. the blocks that enter the logmatmulexp chain                                              *)
(* ------------------------------------------------------------------------------------------ *)
Lemma Inv_ext_d dim i t bh v d d' : (forall p, (p < bh)%nat -> d p = d' p) -> Inv dim i t bh v d -> Inv dim i t bh v d'.
Proof. intros E [H1 [H2 H3]]. split; [exact H1|]. split; [exact H2|]. intros q Hq. rewrite <- (E q Hq). apply H3. exact Hq. Qed.

(* one logmatmulexp against a block whose exp-entries are E k j >= 0 with a positive entry in every column *)
Lemma lme_block Xi Yi r kk c (E : nat -> nat -> R) :
  length Xi = r -> (forall p, (p < r)%nat -> length (nth p Xi []) = kk) -> ncols Yi = c ->
  (forall k j, (k < kk)%nat -> (j < c)%nat -> EE (yent Yi k j) = E k j) ->
  (forall k j, (k < kk)%nat -> (j < c)%nat -> 0 <= E k j) ->
  (forall j, (j < c)%nat -> exists k, (k < kk)%nat /\ 0 < E k j) ->
  length (logmatmulexp ROps Xi Yi) = r /\
  forall p, (p < r)%nat -> length (nth p (logmatmulexp ROps Xi Yi) []) = c /\
    forall j, (j < c)%nat -> exp (nth j (nth p (logmatmulexp ROps Xi Yi) []) 0) = sumf kk (fun k => exp (nth k (nth p Xi []) 0) * E k j).
Proof.
  intros Hr Hk Hc HE Hnn Hex. split; [rewrite lme_length; exact Hr|]. intros p Hp.
  assert (Hx : nth_error Xi p = Some (nth p Xi [])) by (apply nth_error_Some_nth; lia).
  destruct (nth_error (logmatmulexp ROps Xi Yi) p) as [row|] eqn:Erow; [|apply nth_error_None in Erow; rewrite lme_length in Erow; lia].
  rewrite (nth_error_nth _ _ [] Erow). pose proof (lme_row_length _ _ _ _ Erow) as Hlr. split; [lia|]. intros j Hj.
  destruct (logmatmulexp_spec Xi Yi p j _ Hx ltac:(lia)) as [row' [v [H1 [H2 H3]]]].
  rewrite Erow in H1. injection H1 as <-. rewrite (nth_error_nth _ _ 0 H2). cbv zeta in H3. rewrite (Hk p Hp) in H3.
  assert (Es : sumf kk (fun k => exp (nth k (nth p Xi []) 0) * EE (yent Yi k j)) = sumf kk (fun k => exp (nth k (nth p Xi []) 0) * E k j)).
  { apply sumf_ext. intros k Hkk. rewrite HE by assumption. reflexivity. }
  rewrite Es in H3. apply H3. apply sumf_pos.
  - intros k Hkk. pose proof (exp_pos (nth k (nth p Xi []) 0)). pose proof (Hnn k j Hkk Hj). nra.
  - destruct (Hex j Hj) as [k [Hkk Hpos]]. exists k. split; [exact Hkk|]. pose proof (exp_pos (nth k (nth p Xi []) 0)). nra.
Qed.

Lemma nth_error_lme3 X Y i Xi Yi : nth_error X i = Some Xi -> nth_error Y i = Some Yi ->
  nth_error (lme3 ROps X Y) i = Some (logmatmulexp ROps Xi Yi).
Proof. intros H1 H2. unfold lme3. rewrite nth_error_map, nth_error_combine, H1, H2. reflexivity. Qed.
Lemma lme3_length X Y : length (lme3 ROps X Y) = Nat.min (length X) (length Y).
Proof. unfold lme3. rewrite map_length, combine_length. reflexivity. Qed.

Lemma ld_chain_step (L A : list (list (list (option R)))) lds last :
  ld_chain ROps (L :: A :: lds) last = lme3 ROps (lme3 ROps (ld_chain ROps lds last) A) L.
Proof. unfold ld_chain. cbn [rev]. rewrite !fold_left_app. reflexivity. Qed.
Lemma ld_chain_length n lds : forall last, List.Forall (fun Y => length Y = n) lds -> length last = n -> length (ld_chain ROps lds last) = n.
Proof.
  unfold ld_chain. intros last HF. apply Forall_rev in HF. revert last. induction HF as [|Y l HY HF IH]; intros last Hl; [exact Hl|].
  cbn [fold_left]. apply IH. rewrite lme3_length. lia.
Qed.

(* the activation block of coordinate i: diagonal ln-gradients, -inf elsewhere *)
Lemma act_block dim bd (lg : list R) i : (0 < bd)%nat -> (i < dim)%nat -> length lg = (bd * dim)%nat ->
  exists Ai, nth_error (act_log_jac_3d dim bd lg) i = Some Ai /\ ncols Ai = bd /\
    forall k j, (k < bd)%nat -> (j < bd)%nat -> yent Ai k j = if (k =? j)%nat then Some (nth (i * bd + k) lg 0) else None.
Proof.
  intros Hbd Hi Hl. unfold act_log_jac_3d. rewrite nth_error_map, nth_error_chunks by exact Hi. cbn [option_map].
  set (blk := firstn bd (skipn (i * bd) lg)).
  assert (Hblk : forall k, (k < bd)%nat -> nth_error blk k = Some (nth (i * bd + k) lg 0)).
  { intros k Hk. unfold blk. rewrite nth_error_firstn', nth_error_skipn'. destruct (Nat.ltb_spec k bd); [|lia].
    apply nth_error_Some_nth. nia. }
  assert (Hrow : forall k, (k < bd)%nat ->
            nth_error (map (fun rv : nat * R => map (fun cc => if (fst rv =? cc)%nat then Some (snd rv) else None) (seq 0 bd)) (combine (seq 0 bd) blk)) k
            = Some (map (fun cc => if (k =? cc)%nat then Some (nth (i * bd + k) lg 0) else None) (seq 0 bd))).
  { intros k Hk. rewrite nth_error_map, nth_error_combine, nth_error_seq, (Hblk k Hk) by exact Hk. reflexivity. }
  eexists. split; [reflexivity|]. split.
  - pose proof (Hrow 0%nat Hbd) as H0. destruct (map _ (combine (seq 0 bd) blk)) as [|r0 rest]; [discriminate|]. cbn in H0. injection H0 as ->.
    cbn [ncols]. rewrite map_length, seq_length. reflexivity.
  - intros k j Hk Hj. unfold yent. rewrite (nth_error_nth _ _ [] (Hrow k Hk)).
    apply nth_error_nth. rewrite nth_error_map, nth_error_seq by exact Hj. reflexivity.
Qed.
Lemma act_log_jac_3d_length dim bd (lg : list R) : length (act_log_jac_3d dim bd lg) = dim.
Proof. unfold act_log_jac_3d. rewrite map_length. apply chunks_length. Qed.

(* the linear block of coordinate i: ln of the (positive) diagonal block of the weight *)
Lemma lin_block dim bh bw W i : (0 < bh)%nat -> (0 < bw)%nat -> mat_shape (bh * dim) (bw * dim) W -> (i < dim)%nat ->
  (forall r c v, entry W r c = Some v -> (c / bw)%nat = (r / bh)%nat -> 0 < v) ->
  exists Li, nth_error (log_block_diag ROps dim bh bw W) i = Some Li /\ length Li = bh /\
    forall p, (p < bh)%nat -> length (nth p Li []) = bw /\
      forall q, (q < bw)%nat -> 0 < ment W (i * bh + p) (i * bw + q) /\ exp (nth q (nth p Li []) 0) = ment W (i * bh + p) (i * bw + q).
Proof.
  intros Hbh Hbw HW Hi Hpos.
  assert (Hrow : forall p, (p < bh)%nat -> exists wrow, nth_error W (i * bh + p) = Some wrow /\ length wrow = (bw * dim)%nat).
  { intros p Hp. destruct HW as [HR HC]. destruct (nth_error W (i * bh + p)) as [wrow|] eqn:E; [|apply nth_error_None in E; nia].
    exists wrow. split; [reflexivity|]. rewrite Forall_forall in HC. exact (HC wrow (nth_error_In _ _ E)). }
  destruct (Hrow 0%nat Hbh) as [w0 [Hw0 _]].
  destruct (log_block_diag_entry dim bh bw W Hbh Hbw HW i 0 w0 Hi Hbh Hw0) as [Li [HLi [HlLi _]]].
  exists Li. split; [exact HLi|]. split; [exact HlLi|]. intros p Hp.
  destruct (Hrow p Hp) as [wrow [Hw Hlw]].
  destruct (log_block_diag_entry dim bh bw W Hbh Hbw HW i p wrow Hi Hp Hw) as [Li' [HLi' [_ Hp']]].
  rewrite HLi in HLi'. injection HLi' as <-. rewrite (nth_error_nth _ _ [] Hp').
  split; [rewrite map_length, firstn_length, skipn_length, Hlw; nia|]. intros q Hq.
  assert (Hnq : nth_error (firstn bw (skipn (i * bw) wrow)) q = Some (nth (i * bw + q) wrow 0)).
  { rewrite nth_error_firstn', nth_error_skipn'. destruct (Nat.ltb_spec q bw); [|lia]. apply nth_error_Some_nth. nia. }
  assert (Hm : ment W (i * bh + p) (i * bw + q) = nth (i * bw + q) wrow 0) by (unfold ment; rewrite (nth_error_nth _ _ [] Hw); reflexivity).
  assert (Hp0 : 0 < nth (i * bw + q) wrow 0).
  { apply (Hpos (i * bh + p)%nat (i * bw + q)%nat).
    - unfold entry. rewrite Hw. apply nth_error_Some_nth. nia.
    - rewrite (div_band bw (i * bw + q) i), (div_band bh (i * bh + p) i) by lia. reflexivity. }
  rewrite Hm. split; [exact Hp0|].
  rewrite (nth_error_nth (map ln _) q 0 (map_nth_error ln q _ Hnq)). apply exp_ln. exact Hp0.
Qed.

Lemma some3_block L i Li : nth_error L i = Some Li -> nth_error (some3 L) i = Some (map (map (@Some R)) Li).
Proof. intros H. unfold some3. rewrite nth_error_map, H. reflexivity. Qed.
Lemma some_block_ncols (Li : list (list R)) bw : (0 < length Li)%nat -> length (nth 0 Li []) = bw -> ncols (map (map (@Some R)) Li) = bw.
Proof. intros Hl H0. destruct Li as [|r0 Li]; [cbn in Hl; lia|]. cbn in *. rewrite map_length. exact H0. Qed.
Lemma some_block_yent (Li : list (list R)) k j : (k < length Li)%nat -> (j < length (nth k Li []))%nat ->
  yent (map (map (@Some R)) Li) k j = Some (nth j (nth k Li []) 0).
Proof.
  intros Hk Hj. unfold yent. rewrite (nth_map_lt (map (@Some R)) Li k [] [] Hk). apply (nth_map_lt (@Some R) _ j 0 None Hj).
Qed.

(* ------------------------------------------------------------------------------------------ *)
(* 5. induction over the layers                                                                 *)
(* ------------------------------------------------------------------------------------------ *)
(* every layer but the last has block_dim output units per block (what _activation_and_log_jacobian_3d assumes) *)
Fixpoint hidden_bd (bd : nat) (shapes : list (nat * nat)) : Prop :=
  match shapes with
  | [] => True
  | s :: rest => match rest with [] => True | _ :: _ => fst s = bd /\ hidden_bd bd rest end
  end.
Lemma bnaf_hidden_bd depth bd : hidden_bd bd (bnaf_block_shapes depth bd).
Proof.
  unfold bnaf_block_shapes. destruct depth as [|d]; [exact I|].
  assert (H : forall d, hidden_bd bd (repeat (bd, bd) d ++ [(1%nat, bd)])).
  { clear d. induction d as [|d IH]; [exact I|]. cbn [repeat app hidden_bd].
    destruct (repeat (bd, bd) d ++ [(1%nat, bd)]) eqn:E; [destruct (repeat (bd, bd) d); discriminate|]. split; [reflexivity|exact IH]. }
  cbn [hidden_bd]. specialize (H d). destruct (repeat (bd, bd) d ++ [(1%nat, bd)]) eqn:E; [destruct (repeat (bd, bd) d); discriminate|].
  split; [reflexivity|exact H].
Qed.

Section Net.
  Variables (act act' ld : R -> R).
  Hypothesis Hact : forall x, is_derive act x (act' x).
  Hypothesis Hpos : forall x, 0 < act' x.
  Hypothesis Hld : forall x, ld x = ln (act' x).
  Variables (dim bd : nat).
  Hypothesis Hbd : (0 < bd)%nat.

  Local Notation run := (bnaf_ld_run ROps act ld dim bd).

  Lemma run_step first cterm s s2 rest ws bs x :
    run first cterm (s :: s2 :: rest) ws bs x =
    let h := linearR (where_mask 0 (block_tril_mask (fst s) (snd s) dim 0) (hd [] ws)) (hd [] bs) x in
    let g := match first, cterm with true, Some t0 => Masks.vadd Rplus h t0 | _, _ => h end in
    let r := run false cterm (s2 :: rest) (tl ws) (tl bs) (map act g) in
    (fst (fst r), some3 (log_block_diag ROps dim (fst s) (snd s) (hd [] ws)) :: act_log_jac_3d dim bd (map ld g) :: snd (fst r), snd r).
  Proof. reflexivity. Qed.

  Section Coord.
    Variables (i : nat) (t : R).
    Hypothesis Hi : (i < dim)%nat.

    Lemma run_chain : forall shapes ws bs first cterm bw0 v d,
      layers_good 0 Rlt dim shapes ws bs -> hidden_bd bd shapes -> shapes <> [] ->
      match shapes with s :: _ => snd s = bw0 | [] => True end ->
      (first = true -> match cterm, shapes with Some t0, s :: _ => (fst s * dim <= length t0)%nat | _, _ => True end) ->
      Inv dim i t bw0 v d ->
      exists Mi, nth_error (ld_chain ROps (snd (fst (run first cterm shapes ws bs (v t)))) (snd (run first cterm shapes ws bs (v t)))) i = Some Mi /\
        length Mi = fst (last shapes (0, 0)%nat) /\
        (forall p, (p < fst (last shapes (0, 0)%nat))%nat -> length (nth p Mi []) = bw0) /\
        Inv dim i t (fst (last shapes (0, 0)%nat)) (fun tau => fst (fst (run first cterm shapes ws bs (v tau))))
            (fun p => sumf bw0 (fun q => exp (nth q (nth p Mi []) 0) * d q)).
    Proof.
      induction shapes as [|s rest IH]; intros ws bs first cterm bw0 v d Hg Hhid Hne Hbw0 Hct Hinv; [contradiction|].
      destruct s as [bh bw]. cbn [layers_good fst snd] in Hg. destruct Hg as [Hbh [Hbw [Hlw [Hrw [Hlb [Hposw [Hnext Hg]]]]]]].
      cbn [snd] in Hbw0. subst bw0.
      assert (HW : mat_shape (bh * dim) (bw * dim) (hd [] ws)) by (split; assumption).
      pose proof (Inv_linear dim i t Hi bh bw (hd [] ws) (hd [] bs) Hbh Hbw HW Hlb v d Hinv) as Hlin.
      destruct (lin_block dim bh bw (hd [] ws) i Hbh Hbw HW Hi Hposw) as [Li [HLi [HlLi HLirows]]].
      destruct rest as [|s2 rest].
      - (* the last layer *)
        cbn [bnaf_ld_run last fst snd]. unfold ld_chain. cbn [rev fold_left].
        exists Li. split; [exact HLi|]. split; [exact HlLi|]. split; [intros p Hp; apply HLirows; exact Hp|].
        eapply Inv_ext_d; [|exact Hlin]. intros p Hp. apply sumf_ext. intros q Hq.
        destruct (HLirows p Hp) as [_ H]. destruct (H q Hq) as [_ He]. rewrite He. reflexivity.
      - (* a hidden layer followed by the activation *)
        cbn [hidden_bd fst] in Hhid. destruct Hhid as [Hfst Hhid]. cbn [fst snd] in Hnext. rewrite Hfst in *. clear Hfst bh.
        set (h := fun tau => linearR (where_mask 0 (block_tril_mask bd bw dim 0) (hd [] ws)) (hd [] bs) (v tau)) in *.
        set (g := fun tau => match first, cterm with true, Some t0 => Masks.vadd Rplus (h tau) t0 | _, _ => h tau end).
        set (d1 := fun p => sumf bw (fun q => ment (hd [] ws) (i * bd + p) (i * bw + q) * d q)) in *.
        assert (Hginv : Inv dim i t bd g d1).
        { unfold g. destruct first; [destruct cterm as [t0|]|]; try exact Hlin.
          apply Inv_vadd; [exact Hi|exact (Hct eq_refl)|exact Hlin]. }
        pose proof (Inv_act dim i t Hi act act' bd g d1 Hact Hginv) as Hainv.
        set (gk := fun k => nth (i * bd + k) (g t) 0) in *.
        set (d2 := fun p => act' (gk p) * d1 p) in *.
        destruct (IH (tl ws) (tl bs) false cterm bd (fun tau => map act (g tau)) d2 Hg Hhid ltac:(discriminate) Hnext ltac:(discriminate) Hainv)
          as [M' [HM' [HlM' [HM'rows HM'inv]]]].
        set (bhl := fst (last (s2 :: rest) (0, 0)%nat)) in *.
        change (last ((bd, bw) :: s2 :: rest) (0, 0)%nat) with (last (s2 :: rest) (0, 0)%nat). fold bhl.
        rewrite run_step. cbv zeta. cbn [fst snd]. fold (h t). fold (g t).
        set (r' := run false cterm (s2 :: rest) (tl ws) (tl bs) (map act (g t))) in *.
        rewrite ld_chain_step.
        assert (Hlg : length (g t) = (bd * dim)%nat) by (apply (proj1 Hginv)).
        destruct (act_block dim bd (map ld (g t)) i Hbd Hi ltac:(rewrite map_length; exact Hlg)) as [Ai [HAi [HcAi HyAi]]].
        (* first product: against the activation block *)
        set (E1 := fun k j : nat => if (k =? j)%nat then act' (gk j) else 0).
        destruct (lme_block M' Ai bhl bd bd E1 HlM' HM'rows HcAi) as [HlN HNrows].
        { intros k j Hk Hj. rewrite (HyAi k j Hk Hj). unfold E1. destruct (Nat.eqb_spec k j) as [->|Hne']; [|reflexivity].
          cbn [EE]. rewrite (nth_map_lt ld (g t) (i * bd + j) 0 0) by (rewrite Hlg; nia). fold (gk j). rewrite Hld. apply exp_ln. apply Hpos. }
        { intros k j _ _. unfold E1. destruct (k =? j)%nat; [left; apply Hpos|lra]. }
        { intros j Hj. exists j. split; [exact Hj|]. unfold E1. rewrite Nat.eqb_refl. apply Hpos. }
        set (N := logmatmulexp ROps M' Ai) in *.
        (* second product: against the ln of the diagonal block of the weight *)
        set (E2 := fun k q : nat => ment (hd [] ws) (i * bd + k) (i * bw + q)).
        destruct (lme_block N (map (map (@Some R)) Li) bhl bd bw E2 HlN (fun p Hp => proj1 (HNrows p Hp))) as [HlMi HMirows].
        { apply some_block_ncols; [lia|]. apply (HLirows 0%nat Hbd). }
        { intros k q Hk Hq. rewrite some_block_yent by (try rewrite (proj1 (HLirows k Hk)); lia). cbn [EE].
          destruct (HLirows k Hk) as [_ H]. exact (proj2 (H q Hq)). }
        { intros k q Hk Hq. left. destruct (HLirows k Hk) as [_ H]. exact (proj1 (H q Hq)). }
        { intros q Hq. exists 0%nat. split; [exact Hbd|]. destruct (HLirows 0%nat Hbd) as [_ H]. exact (proj1 (H q Hq)). }
        exists (logmatmulexp ROps N (map (map (@Some R)) Li)).
        split; [apply nth_error_lme3; [apply nth_error_lme3; [exact HM'|exact HAi]|apply some3_block; exact HLi]|].
        split; [exact HlMi|]. split; [intros p Hp; apply (HMirows p Hp)|].
        eapply Inv_ext_d; [|exact HM'inv]. intros p Hp. cbv beta.
        destruct (HMirows p Hp) as [_ HMi]. destruct (HNrows p Hp) as [_ HN].
        transitivity (sumf bd (fun k => exp (nth k (nth p N []) 0) * d1 k)).
        + apply sumf_ext. intros k Hk. rewrite (HN k Hk). unfold d2.
          rewrite (sumf_ext bd _ (fun q => exp (nth q (nth p M' []) 0) * (if (q =? k)%nat then act' (gk k) else 0))).
          * rewrite sumf_onehot by exact Hk. ring.
          * intros q Hq. unfold E1. reflexivity.
        + unfold d1. rewrite (sumf_ext bd _ (fun k => sumf bw (fun q => exp (nth k (nth p N []) 0) * E2 k q * d q))).
          * rewrite sumf_swap. apply sumf_ext. intros q Hq. rewrite (HMi q Hq).
            rewrite Rmult_comm, sumf_scal. apply sumf_ext. intros k Hk. ring.
          * intros k Hk. rewrite sumf_scal. apply sumf_ext. intros q Hq. unfold E2. ring.
    Qed.
  End Coord.
End Net.

(* ------------------------------------------------------------------------------------------ *)
(* 6. the whole network from its raw parameters                                                 *)
(* ------------------------------------------------------------------------------------------ *)
Definition of_raw (l : raw_layer) : graw R := {| gw1 := rw1 l; gw2 := rw2 l; gscale := rscale l; gbias := rbias l |}.

(* the log-det model and the value model share the weights *)
Lemma unwrap_ws_of_raw dim : forall shapes raws, unwrap_ws_g ROps dim shapes (map of_raw raws) = unwrap_ws dim shapes raws.
Proof.
  unfold unwrap_ws_g, unwrap_ws. induction shapes as [|s shapes IH]; intros [|l raws]; try reflexivity.
  cbn [map combine]. rewrite IH. reflexivity.
Qed.
Lemma biases_of_raw raws : map gbias (map of_raw raws) = biases raws.
Proof. unfold biases. rewrite map_map. reflexivity. Qed.

(* the value part of the log-det pass IS Masks.bnaf_run *)
Lemma bnaf_ld_run_value act ld dim bd : forall shapes first cterm ws bs x,
  fst (fst (bnaf_ld_run ROps act ld dim bd first cterm shapes ws bs x)) =
  bnaf_run 0 Rplus Rmult act first cterm ws bs (map (fun s => block_tril_mask (fst s) (snd s) dim 0) shapes) x.
Proof.
  induction shapes as [|s rest IH]; intros first cterm ws bs x; [reflexivity|]. destruct rest as [|s2 rest]; [reflexivity|].
  rewrite run_step. cbv zeta. cbn [fst]. rewrite IH. reflexivity.
Qed.

Lemma run_lengths act ld dim bd : forall shapes first cterm ws bs x, shapes <> [] ->
  length (snd (bnaf_ld_run ROps act ld dim bd first cterm shapes ws bs x)) = dim /\
  List.Forall (fun Y => length Y = dim) (snd (fst (bnaf_ld_run ROps act ld dim bd first cterm shapes ws bs x))).
Proof.
  induction shapes as [|s rest IH]; intros first cterm ws bs x Hne; [contradiction|]. destruct rest as [|s2 rest].
  - cbn [bnaf_ld_run fst snd]. split; [apply log_block_diag_length|constructor].
  - rewrite run_step. cbv zeta. cbn [fst snd].
    destruct (IH false cterm (tl ws) (tl bs)
                (map act (match first, cterm with
                          | true, Some t0 => Masks.vadd Rplus (linearR (where_mask 0 (block_tril_mask (fst s) (snd s) dim 0) (hd [] ws)) (hd [] bs) x) t0
                          | _, _ => linearR (where_mask 0 (block_tril_mask (fst s) (snd s) dim 0) (hd [] ws)) (hd [] bs) x end))
                ltac:(discriminate)) as [H1 H2].
    split; [exact H1|]. constructor; [unfold some3; rewrite map_length; apply log_block_diag_length|].
    constructor; [apply act_log_jac_3d_length|exact H2].
Qed.

Lemma block11 (Mi : list (list R)) : length Mi = 1%nat -> length (nth 0 Mi []) = 1%nat -> Mi = [[nth 0 (nth 0 Mi []) 0]].
Proof. destruct Mi as [|r [|r2 Mi]]; cbn; try discriminate. intros _. destruct r as [|v [|v2 r]]; cbn; try discriminate. reflexivity. Qed.
Lemma concat11 : forall M : list (list (list R)), (forall i, (i < length M)%nat -> exists v, nth_error M i = Some [[v]]) ->
  concat (concat M) = map (fun B => nth 0 (nth 0 B []) 0) M.
Proof.
  induction M as [|B M IH]; intros H; [reflexivity|]. destruct (H 0%nat ltac:(cbn; lia)) as [v Hv]. cbn in Hv. injection Hv as ->.
  cbn [concat map app nth]. f_equal. apply IH. intros i Hi. exact (H (S i) ltac:(cbn; lia)).
Qed.
Lemma map_nth_seq (l : list R) : map (fun i => nth i l 0) (seq 0 (length l)) = l.
Proof.
  apply nth_error_ext_eq. intros i. rewrite nth_error_map. destruct (Nat.lt_ge_cases i (length l)) as [H|H].
  - rewrite nth_error_seq by exact H. cbn. symmetry. apply nth_error_Some_nth. exact H.
  - rewrite (proj2 (nth_error_None _ _)) by (rewrite seq_length; exact H). symmetry. apply nth_error_None. exact H.
Qed.

Section Top.
  Variables (act act' ld : R -> R).
  Hypothesis Hact : forall x, is_derive act x (act' x).
  Hypothesis Hpos : forall x, 0 < act' x.
  Hypothesis Hld : forall x, ld x = ln (act' x).
  Variables (dim depth bd : nat) (raws : list raw_layer) (cterm : option (list R)).
  Hypothesis Hbd : (0 < bd)%nat.
  Hypothesis Hraws : Forall2 (raw_wf dim) (bnaf_block_shapes depth bd) raws.
  Hypothesis Hct : match cterm with Some t => (bd * dim <= length t)%nat | None => True end.
  Local Notation shapes := (bnaf_block_shapes depth bd).
  Local Notation B := (bnaf_R act dim depth bd raws cterm).
  Local Notation tld := (bnaf_tld ROps act ld dim depth bd (map of_raw raws) cterm).
  Local Notation RUN x := (bnaf_ld_run ROps act ld dim bd true cterm shapes (unwrap_ws dim shapes raws) (biases raws) x).
  Local Notation MM x := (ld_chain ROps (snd (fst (RUN x))) (snd (RUN x))).

  Lemma tld_unfold x : tld x = (fst (fst (RUN x)), concat (concat (MM x)), sum ROps (concat (concat (MM x)))).
  Proof. unfold bnaf_tld. rewrite unwrap_ws_of_raw, biases_of_raw. reflexivity. Qed.

  Lemma shapes_ne : shapes <> [].
  Proof. unfold bnaf_block_shapes. destruct depth; discriminate. Qed.
  Lemma shapes_last : fst (last shapes (0, 0)%nat) = 1%nat.
  Proof. unfold bnaf_block_shapes. destruct depth as [|d]; [reflexivity|]. rewrite app_comm_cons, last_last. reflexivity. Qed.

  (* the value returned with the log-det is the value model *)
  Theorem bnaf_tld_value x : fst (fst (tld x)) = B x.
  Proof. rewrite tld_unfold. cbn [fst]. rewrite bnaf_ld_run_value. reflexivity. Qed.

  Lemma MM_length x : length (MM x) = dim.
  Proof. destruct (run_lengths act ld dim bd shapes true cterm (unwrap_ws dim shapes raws) (biases raws) x shapes_ne) as [H1 H2]. apply ld_chain_length; assumption. Qed.

  (* block i of the final (dim, 1, 1) array, and what its exp is *)
  Lemma MM_block x i : length x = dim -> (i < dim)%nat ->
    exists v, nth_error (MM x) i = Some [[v]] /\
      is_derive (fun tau => nth i (B (upd x i tau)) 0) (nth i x 0) (exp v).
  Proof.
    intros Hx Hi.
    assert (Hinv : Inv dim i (nth i x 0) 1 (fun tau => upd x i tau) (fun _ => 1)).
    { split; [|split].
      - intros tau. rewrite upd_length. lia.
      - intros c tau Hc. rewrite !nth_as_nth_error, !nth_error_upd_ne by lia. reflexivity.
      - intros q Hq. replace (i * 1 + q)%nat with i by lia.
        apply (isd_ext (fun tau => tau)); [intros tau; symmetry; apply upd_nth_eq; lia|]. exact (is_derive_id (nth i x 0)). }
    destruct (run_chain act act' ld Hact Hpos Hld dim bd Hbd i (nth i x 0) Hi shapes (unwrap_ws dim shapes raws) (biases raws) true cterm 1%nat
                (fun tau => upd x i tau) (fun _ => 1)
                (bnaf_layers_good dim shapes raws (bnaf_shapes_ok depth bd Hbd) Hraws) (bnaf_hidden_bd depth bd) shapes_ne)
      as [Mi [HMi [HlMi [HMirows [_ [_ Hder]]]]]].
    - unfold bnaf_block_shapes. destruct depth; reflexivity.
    - intros _. destruct cterm as [t0|]; [|exact I]. unfold bnaf_block_shapes. destruct depth; cbn [fst]; nia.
    - exact Hinv.
    - rewrite shapes_last in *. rewrite (upd_nth_same x i 0) in HMi by lia.
      exists (nth 0 (nth 0 Mi []) 0). split; [rewrite HMi; f_equal; apply block11; [exact HlMi|apply HMirows; lia]|].
      specialize (Hder 0%nat ltac:(lia)). cbn [sumf] in Hder.
      replace (0 + exp (nth 0 (nth 0 Mi []) 0) * 1) with (exp (nth 0 (nth 0 Mi []) 0)) in Hder by ring.
      replace (i * 1 + 0)%nat with i in Hder by lia.
      apply (isd_ext _ _ _ _ (fun tau => f_equal (fun l => nth i l 0) (bnaf_ld_run_value act ld dim bd shapes true cterm _ _ (upd x i tau)))) in Hder.
      exact Hder.
  Qed.

  Lemma terms_map x : length x = dim -> snd (fst (tld x)) = map (fun Bk => nth 0 (nth 0 Bk []) 0) (MM x).
  Proof.
    intros Hx. rewrite tld_unfold. cbn [fst snd]. apply concat11. intros i Hi. rewrite MM_length in Hi.
    destruct (MM_block x i Hx Hi) as [v [Hv _]]. exists v. exact Hv.
  Qed.
  Lemma terms_length x : length x = dim -> length (snd (fst (tld x))) = dim.
  Proof. intros Hx. rewrite terms_map by exact Hx. rewrite map_length. apply MM_length. Qed.

  (* MAIN: exp of the i-th reported entry is the own-coordinate derivative of the value model *)
  Theorem bnaf_reported_term_is_own_derivative x i : length x = dim -> (i < dim)%nat ->
    exists v, nth_error (snd (fst (tld x))) i = Some v /\
      is_derive (fun tau => nth i (B (upd x i tau)) 0) (nth i x 0) (exp v).
  Proof.
    intros Hx Hi. destruct (MM_block x i Hx Hi) as [v [Hv Hd]]. exists v. split; [|exact Hd].
    rewrite terms_map by exact Hx. rewrite nth_error_map, Hv. reflexivity.
  Qed.

  (* COROLLARY: the reported total is the sum over the coordinates of ln (d y_i / d x_i); every such derivative exists
     and is positive, so no ln is taken of a non-positive number *)
  Theorem bnaf_reported_total_is_sum_ln_derivatives x : length x = dim ->
    (forall i, (i < dim)%nat -> ex_derive (fun tau => nth i (B (upd x i tau)) 0) (nth i x 0) /\
                               0 < Derive (fun tau => nth i (B (upd x i tau)) 0) (nth i x 0)) /\
    snd (tld x) = sum ROps (map (fun i => ln (Derive (fun tau => nth i (B (upd x i tau)) 0) (nth i x 0))) (seq 0 dim)).
  Proof.
    intros Hx. split.
    - intros i Hi. destruct (bnaf_reported_term_is_own_derivative x i Hx Hi) as [v [_ Hd]].
      split; [exists (exp v); exact Hd|].
      replace (Derive _ _) with (exp v) by (symmetry; exact (is_derive_unique _ _ _ Hd)). apply exp_pos.
    - replace (snd (tld x)) with (sum ROps (snd (fst (tld x)))) by (rewrite tld_unfold; reflexivity).
      f_equal. rewrite <- (map_nth_seq (snd (fst (tld x)))) at 1. rewrite (terms_length x Hx). apply map_ext_in.
      intros i Hi. apply in_seq in Hi. destruct (bnaf_reported_term_is_own_derivative x i Hx ltac:(lia)) as [v [Hv Hd]].
      rewrite (nth_error_nth _ _ 0 Hv). replace (Derive _ _) with (exp v) by (symmetry; exact (is_derive_unique _ _ _ Hd)).
      rewrite ln_exp. reflexivity.
  Qed.
End Top.

(* ------------------------------------------------------------------------------------------ *)
(* 7. the reported log-det is ln |det Jacobian|                                                 *)
(* ------------------------------------------------------------------------------------------ *)
From FJ Require Proofs.DetP Proofs.DetPJac.

(* y.at[i].set(v) of Model/Bisect.v and the firstn/skipn form of Proofs/DetPJac.v agree inside the vector *)
Lemma upd_bridge : forall (x : list R) j v, (j < length x)%nat -> DetPJac.upd x j v = upd x j v.
Proof.
  unfold DetPJac.upd. induction x as [|a x IH]; intros j v H; [cbn in H; lia|]. destruct j as [|j]; [reflexivity|].
  cbn [firstn skipn app upd]. f_equal. apply IH. cbn in H. lia.
Qed.

Section Det.
  Variables (act act' ld : R -> R).
  Hypothesis Hact : forall x, is_derive act x (act' x).
  Hypothesis Hpos : forall x, 0 < act' x.
  Hypothesis Hld : forall x, ld x = ln (act' x).
  Variables (dim depth bd : nat) (raws : list raw_layer) (cterm : option (list R)).
  Hypothesis Hbd : (0 < bd)%nat.
  Hypothesis Hraws : Forall2 (raw_wf dim) (bnaf_block_shapes depth bd) raws.
  Hypothesis Hct : match cterm with Some t => (bd * dim <= length t)%nat | None => True end.
  Local Notation B := (bnaf_R act dim depth bd raws cterm).
  Local Notation tld := (bnaf_tld ROps act ld dim depth bd (map of_raw raws) cterm).

  Lemma B_later_const x i j v : length x = dim -> (i < j)%nat -> (j < dim)%nat -> nth i (B (DetPJac.upd x j v)) 0 = nth i (B x) 0.
  Proof.
    intros Hx Hij Hj. rewrite upd_bridge by lia. rewrite !nth_as_nth_error.
    rewrite (bnaf_independent_of_later_coordinates act dim depth bd raws cterm (upd x j v) x i); [reflexivity|lia|apply upd_length|].
    intros k Hk. apply nth_error_upd_ne. lia.
  Qed.

  Lemma B_own_ldj x i : length x = dim -> (i < dim)%nat ->
    is_ldj (fun v => nth i (B (DetPJac.upd x i v)) 0) (nth i x 0) (nth i (snd (fst (tld x))) 0).
  Proof.
    intros Hx Hi.
    destruct (bnaf_reported_term_is_own_derivative act act' ld Hact Hpos Hld dim depth bd raws cterm Hbd Hraws Hct x i Hx Hi) as [v [Hv Hd]].
    exists (exp v). split; [|split].
    - apply (isd_ext (fun tau => nth i (B (upd x i tau)) 0)); [intros tau; rewrite upd_bridge by lia; reflexivity|exact Hd].
    - apply Rgt_not_eq, exp_pos.
    - rewrite (nth_error_nth _ _ 0 Hv), Rabs_right by (left; apply exp_pos). symmetry. apply ln_exp.
  Qed.

  (* the total reported by transform_and_log_det is ln |det J| for EVERY matrix J whose entries on and above the diagonal
     are the partial derivatives of the value map at x (the entries below do not enter the determinant), det J <> 0;
     and such matrices exist: the hypothesis is never vacuous *)
  Theorem bnaf_reported_ldj_is_ln_det x : length x = dim ->
    (forall J : nat -> nat -> R,
       (forall i j, (i <= j)%nat -> (j < dim)%nat -> DetPJac.partial_at B x i j (J i j)) ->
       snd (tld x) = ln (Rabs (DetP.detF dim J)) /\ DetP.detF dim J <> 0) /\
    (exists J : nat -> nat -> R, forall i j, (i <= j)%nat -> (j < dim)%nat -> DetPJac.partial_at B x i j (J i j)).
  Proof.
    intros Hx. split.
    - intros J HJ.
      destruct (DetPJac.tri_jacobian_ldj dim B x (fun i => nth i (snd (fst (tld x))) 0) J) as [H1 H2].
      + intros i j v Hij Hj. apply B_later_const; assumption.
      + intros i Hi. apply B_own_ldj; assumption.
      + exact HJ.
      + split; [|exact H2]. rewrite <- H1.
        rewrite <- (terms_length act act' ld Hact Hpos Hld dim depth bd raws cterm Hbd Hraws Hct x Hx) at 2.
        rewrite map_nth_seq. rewrite (tld_unfold act ld dim depth bd raws cterm). reflexivity.
    - exists (fun i j => if (i =? j)%nat then exp (nth i (snd (fst (tld x))) 0) else 0). intros i j Hij Hj. unfold DetPJac.partial_at.
      destruct (Nat.eqb_spec i j) as [->|Hne].
      + destruct (B_own_ldj x j Hx Hj) as [d [Hd [_ Hl]]].
        destruct (bnaf_reported_term_is_own_derivative act act' ld Hact Hpos Hld dim depth bd raws cterm Hbd Hraws Hct x j Hx Hj) as [v [Hv Hd']].
        rewrite (nth_error_nth _ _ 0 Hv).
        apply (isd_ext (fun tau => nth j (B (upd x j tau)) 0)); [intros tau; rewrite upd_bridge by lia; reflexivity|exact Hd'].
      + apply (isd_ext (fun _ => nth i (B x) 0)); [intros v; symmetry; apply B_later_const; [exact Hx|lia|exact Hj]|apply isd_const].
  Qed.
End Det.

(* ------------------------------------------------------------------------------------------ *)
(* 8. the activations of flowjax: no hypothesis left                                            *)
(* ------------------------------------------------------------------------------------------ *)
(* LeakyTanh with the fields its constructor computes from max_val > 0; Tanh; a callable tanh *)
Definition bact_ok (a : bact R) : Prop :=
  match a with BLeaky m g ic => 0 < m /\ g = leaky_grad ROps m /\ ic = leaky_icpt ROps m | BTanh => True | BCallTanh => True end.
Definition bact_d (a : bact R) : R -> R := match a with BLeaky m _ _ => leaky_d m | BTanh => dth | BCallTanh => dth end.

Lemma bact_deriv a : bact_ok a -> forall x, is_derive (bact_fwd ROps a) x (bact_d a x).
Proof.
  destruct a as [m g ic| |]; cbn [bact_ok bact_fwd bact_d].
  - intros [Hm [-> ->]] x. exact (leaky_deriv m Hm x).
  - intros _ x. exact (tanh_deriv x).
  - intros _ x. exact (th_deriv x).
Qed.
Lemma bact_d_pos a x : 0 < bact_d a x.
Proof. destruct a; cbn [bact_d]; [apply leaky_d_pos|apply dth_pos|apply dth_pos]. Qed.
Lemma bact_ld_spec a : bact_ok a -> forall x, bact_ld ROps a x = ln (bact_d a x).
Proof.
  destruct a as [m g ic| |]; cbn [bact_ok bact_ld bact_d].
  - intros [Hm [-> _]] x. rewrite leaky_ld_spec, Rabs_right by (left; apply leaky_d_pos). reflexivity.
  - intros _ x. unfold tanh_ld_fwd. rewrite tanh_log_grad_spec. reflexivity.
  - intros _ x. cbn [n_log n_abs n_tanh n_add n_sub n_mul ROps ROpsG]. change (Num.c ROps 1) with 1.
    replace ((1 + th x) * (1 - th x)) with (dth x) by (unfold dth; ring). rewrite Rabs_right by (left; apply dth_pos). reflexivity.
Qed.

Theorem bnaf_act_reported_term_is_own_derivative (a : bact R) (dim depth bd : nat) (raws : list raw_layer) (cterm : option (list R)) :
  bact_ok a -> (0 < bd)%nat -> Forall2 (raw_wf dim) (bnaf_block_shapes depth bd) raws ->
  match cterm with Some t => (bd * dim <= length t)%nat | None => True end ->
  forall x i, length x = dim -> (i < dim)%nat ->
    fst (fst (bnaf_tld_act ROps a dim depth bd (map of_raw raws) cterm x)) = bnaf_R (bact_fwd ROps a) dim depth bd raws cterm x /\
    exists v, nth_error (snd (fst (bnaf_tld_act ROps a dim depth bd (map of_raw raws) cterm x))) i = Some v /\
      is_derive (fun tau => nth i (bnaf_R (bact_fwd ROps a) dim depth bd raws cterm (upd x i tau)) 0) (nth i x 0) (exp v).
Proof.
  intros Ha Hbd Hraws Hct x i Hx Hi. split; [apply bnaf_tld_value|].
  exact (bnaf_reported_term_is_own_derivative (bact_fwd ROps a) (bact_d a) (bact_ld ROps a) (bact_deriv a Ha) (bact_d_pos a) (bact_ld_spec a Ha)
           dim depth bd raws cterm Hbd Hraws Hct x i Hx Hi).
Qed.

Theorem bnaf_act_reported_ldj_is_ln_det (a : bact R) (dim depth bd : nat) (raws : list raw_layer) (cterm : option (list R)) :
  bact_ok a -> (0 < bd)%nat -> Forall2 (raw_wf dim) (bnaf_block_shapes depth bd) raws ->
  match cterm with Some t => (bd * dim <= length t)%nat | None => True end ->
  forall x, length x = dim ->
    (forall J : nat -> nat -> R,
       (forall i j, (i <= j)%nat -> (j < dim)%nat -> DetPJac.partial_at (bnaf_R (bact_fwd ROps a) dim depth bd raws cterm) x i j (J i j)) ->
       snd (bnaf_tld_act ROps a dim depth bd (map of_raw raws) cterm x) = ln (Rabs (DetP.detF dim J)) /\ DetP.detF dim J <> 0) /\
    (exists J : nat -> nat -> R,
       forall i j, (i <= j)%nat -> (j < dim)%nat -> DetPJac.partial_at (bnaf_R (bact_fwd ROps a) dim depth bd raws cterm) x i j (J i j)).
Proof.
  intros Ha Hbd Hraws Hct x Hx.
  exact (bnaf_reported_ldj_is_ln_det (bact_fwd ROps a) (bact_d a) (bact_ld ROps a) (bact_deriv a Ha) (bact_d_pos a) (bact_ld_spec a Ha)
           dim depth bd raws cterm Hbd Hraws Hct x Hx).
Qed.

(* LeakyTanh(max_val = m): the three fields exactly as LeakyTanh.__init__ computes them; leaky_act m of Proofs/BnafP.v is its forward map *)
Definition leaky_bact (m : R) : bact R := BLeaky m (leaky_grad ROps m) (leaky_icpt ROps m).
Lemma leaky_bact_ok m : 0 < m -> bact_ok (leaky_bact m).
Proof. intros Hm. cbn. auto. Qed.
Lemma leaky_bact_fwd m : bact_fwd ROps (leaky_bact m) = leaky_act m.
Proof. reflexivity. Qed.

Theorem bnaf_leaky_reported_ldj_is_ln_det (m : R) (dim depth bd : nat) (raws : list raw_layer) (cterm : option (list R)) :
  0 < m -> (0 < bd)%nat -> Forall2 (raw_wf dim) (bnaf_block_shapes depth bd) raws ->
  match cterm with Some t => (bd * dim <= length t)%nat | None => True end ->
  forall x, length x = dim ->
    (forall i, (i < dim)%nat -> exists v,
       nth_error (snd (fst (bnaf_tld_act ROps (leaky_bact m) dim depth bd (map of_raw raws) cterm x))) i = Some v /\
       is_derive (fun tau => nth i (bnaf_R (leaky_act m) dim depth bd raws cterm (upd x i tau)) 0) (nth i x 0) (exp v)) /\
    (forall J : nat -> nat -> R,
       (forall i j, (i <= j)%nat -> (j < dim)%nat -> DetPJac.partial_at (bnaf_R (leaky_act m) dim depth bd raws cterm) x i j (J i j)) ->
       snd (bnaf_tld_act ROps (leaky_bact m) dim depth bd (map of_raw raws) cterm x) = ln (Rabs (DetP.detF dim J)) /\ DetP.detF dim J <> 0) /\
    (exists J : nat -> nat -> R,
       forall i j, (i <= j)%nat -> (j < dim)%nat -> DetPJac.partial_at (bnaf_R (leaky_act m) dim depth bd raws cterm) x i j (J i j)).
Proof.
  intros Hm Hbd Hraws Hct x Hx. split.
  - intros i Hi. exact (proj2 (bnaf_act_reported_term_is_own_derivative (leaky_bact m) dim depth bd raws cterm (leaky_bact_ok m Hm) Hbd Hraws Hct x i Hx Hi)).
  - exact (bnaf_act_reported_ldj_is_ln_det (leaky_bact m) dim depth bd raws cterm (leaky_bact_ok m Hm) Hbd Hraws Hct x Hx).
Qed.

(* ------------------------------------------------------------------------------------------ *)
(* 9. statements as exported to Props/X02_bnaf.v                                                *)
(* ------------------------------------------------------------------------------------------ *)
Lemma bnaf_activations_report_ln_derivative : forall a : bact R, bact_ok a ->
  forall x : R, is_derive (bact_fwd ROps a) x (bact_d a x) /\ 0 < bact_d a x /\ bact_ld ROps a x = ln (bact_d a x).
Proof. intros a Ha x. exact (conj (bact_deriv a Ha x) (conj (bact_d_pos a x) (bact_ld_spec a Ha x))). Qed.

Lemma log_block_diag_closed_form : forall (n bh bw : nat) (W : list (list R)),
  (0 < bh)%nat -> (0 < bw)%nat -> mat_shape (bh * n) (bw * n) W ->
  length (log_block_diag ROps n bh bw W) = n /\
  forall (i p : nat) (wrow : list R), (i < n)%nat -> (p < bh)%nat -> nth_error W (i * bh + p) = Some wrow ->
    exists Bi, nth_error (log_block_diag ROps n bh bw W) i = Some Bi /\ length Bi = bh /\
               nth_error Bi p = Some (map ln (firstn bw (skipn (i * bw) wrow))).
Proof. intros n bh bw W Hbh Hbw HW. split; [apply log_block_diag_length|]. intros i p wrow. apply log_block_diag_entry; assumption. Qed.

(* logmatmulexp of two FINITE matrices (the shape the docstring has in mind): exp of entry (p, j) is the (p, j) entry of
   exp(x) @ exp(y); inner dimension kk > 0 *)
Lemma logmatmulexp_finite_spec : forall (x y : list (list R)) (kk c p j : nat) (xrow : list R),
  nth_error x p = Some xrow -> length xrow = kk -> (0 < kk)%nat ->
  length y = kk -> (forall k, (k < kk)%nat -> length (nth k y []) = c) -> (j < c)%nat ->
  exists row v, nth_error (logmatmulexp ROps x (map (map (@Some R)) y)) p = Some row /\ nth_error row j = Some v /\
    exp v = sumf kk (fun k => exp (nth k xrow 0) * exp (nth j (nth k y []) 0)).
Proof.
  intros x y kk c p j xrow Hx Hlx Hkk Hly Hrows Hj.
  assert (Hnc : ncols (map (map (@Some R)) y) = c) by (apply some_block_ncols; [lia|apply Hrows; exact Hkk]).
  destruct (logmatmulexp_spec x (map (map (@Some R)) y) p j xrow Hx ltac:(lia)) as [row [v [H1 [H2 H3]]]].
  exists row, v. split; [exact H1|]. split; [exact H2|]. cbv zeta in H3. rewrite Hlx in H3.
  assert (E : sumf kk (fun k => exp (nth k xrow 0) * EE (yent (map (map (@Some R)) y) k j)) =
              sumf kk (fun k => exp (nth k xrow 0) * exp (nth j (nth k y []) 0))).
  { apply sumf_ext. intros k Hk. rewrite some_block_yent by (try rewrite (Hrows k Hk); lia). reflexivity. }
  rewrite E in H3. apply H3. apply sumf_pos.
  - intros k _. left. apply Rmult_lt_0_compat; apply exp_pos.
  - exists 0%nat. split; [exact Hkk|]. apply Rmult_lt_0_compat; apply exp_pos.
Qed.
