(* C02, rational-quadratic spline: rqs_deriv (eq. 5 as coded) IS the derivative of rqs_fwd
   (eq. 4 as coded, with searchsorted / clip / where) at every real x: inside bins, at interior
   knots (gluing), outside the interval; at the two interval ends the one-sided derivatives are
   stated.  Bin algebra promoted from design_probes/RqsD.v; bin lookup from Proofs/RqsCoreP.v. *)
From Coq Require Import Reals List ZArith Bool Lra Lia Psatz Sorted.
From Coquelicot Require Import Coquelicot.
From FJ Require Import Model.Num Model.Leaves Proofs.RNum Proofs.RqsCoreP Proofs.LeafDerivP.
Import ListNotations.
Open Scope R_scope.

(* ---------------- one bin (design_probes/RqsD.v) ---------------- *)
Section Bin.
  Variables xk w yk Dy dk dk1 : R.      (* w = x_{k+1}-x_k, Dy = y_{k+1}-y_k *)
  Hypothesis Hw : 0 < w. Hypothesis HDy : 0 < Dy.
  Hypothesis Hdk : 0 < dk. Hypothesis Hdk1 : 0 < dk1.
  Let s := Dy / w.
  Let E := dk1 + dk - 2 * s.
  Definition bxi (x : R) := (x - xk) / w.
  Definition bden (t : R) := s + E * t * (1 - t).
  (* transform(), eq. 4 *)
  Definition bfwd (x : R) := yk + Dy * (s * (bxi x * bxi x) + dk * bxi x * (1 - bxi x)) / bden (bxi x).
  (* derivative(), eq. 5 *)
  Definition bderiv (x : R) :=
    (s * s) * (dk1 * (bxi x * bxi x) + 2 * s * bxi x * (1 - bxi x) + dk * ((1 - bxi x) * (1 - bxi x)))
    / (bden (bxi x) * bden (bxi x)).

  Lemma s_pos : 0 < s. Proof. unfold s. apply Rdiv_lt_0_compat; assumption. Qed.

  Lemma bden_pos t : 0 <= t <= 1 -> 0 < bden t.
  Proof.
    intros Ht. unfold bden, E. pose proof s_pos as Hs.
    replace (s + (dk1 + dk - 2 * s) * t * (1 - t)) with (s * (1 - 2*(t*(1-t))) + (dk1+dk) * (t*(1-t))) by ring.
    set (u := t*(1-t)). assert (0 <= u) by (unfold u; nra).
    assert (u <= /4) by (unfold u; pose proof (Rle_0_sqr (t - /2)) as Hq; unfold Rsqr in Hq; nra).
    assert (0 < s * (1 - 2*u)) by (apply Rmult_lt_0_compat; lra).
    assert (0 <= (dk1+dk) * u) by (apply Rmult_le_pos; lra). lra.
  Qed.

  Lemma bxi_range x : xk <= x <= xk + w -> 0 <= bxi x <= 1.
  Proof.
    intros Hx. unfold bxi. split; [apply Rmult_le_pos; [lra| left; apply Rinv_0_lt_compat, Hw]|].
    apply Rmult_le_reg_r with w; [exact Hw|]. unfold Rdiv. rewrite Rmult_assoc, Rinv_l by lra. lra.
  Qed.

  Theorem bfwd_is_derive x : xk <= x <= xk + w -> is_derive bfwd x (bderiv x).
  Proof.
    intros Hx. pose proof (bxi_range x Hx) as Ht.
    pose proof (bden_pos _ Ht) as Hd.
    unfold bfwd, bderiv. unfold bden, bxi in *.
    auto_derive.
    - apply Rgt_not_eq. unfold Rminus, Rdiv in Hd. exact Hd.
    - assert (HDyS : Dy = s * w) by (subst s; field; lra).
      assert (Hs : 0 < s) by apply s_pos.
      rewrite HDyS. subst E. clearbody s. clear HDyS.
      assert (Hq : s * (w * w) + (dk1 + dk - 2 * s) * (x - xk) * (w - (x - xk)) <> 0).
      { apply Rgt_not_eq.
        replace (s * (w * w) + (dk1 + dk - 2 * s) * (x - xk) * (w - (x - xk)))
          with ((s + (dk1 + dk - 2 * s) * ((x - xk) / w) * (1 - (x - xk) / w)) * (w * w)) by (field; lra).
        apply Rmult_lt_0_compat; [exact Hd | nra]. }
      field. split; [lra|].
      intro Hz. apply Hq. rewrite <- Hz. ring.
  Qed.

  (* eq. 5 is positive on the closed bin *)
  Lemma bderiv_pos x : xk <= x <= xk + w -> 0 < bderiv x.
  Proof.
    intros Hx. pose proof (bxi_range x Hx) as Ht. pose proof (bden_pos _ Ht) as Hd.
    pose proof s_pos as Hs. unfold bderiv. set (t := bxi x) in *.
    apply Rdiv_lt_0_compat; [|apply Rmult_lt_0_compat; exact Hd].
    apply Rmult_lt_0_compat; [apply Rmult_lt_0_compat; exact Hs|].
    clearbody s t. clear E Hd.
    assert (0 <= 2 * s * t * (1 - t)) by (repeat apply Rmult_le_pos; lra).
    destruct (Rle_dec t (/2)).
    - assert (0 < dk * ((1 - t) * (1 - t))) by (apply Rmult_lt_0_compat; nra).
      assert (0 <= dk1 * (t * t)) by (apply Rmult_le_pos; nra). lra.
    - assert (0 < dk1 * (t * t)) by (apply Rmult_lt_0_compat; nra).
      assert (0 <= dk * ((1 - t) * (1 - t))) by (apply Rmult_le_pos; nra). lra.
  Qed.

  (* eq. 4 maps the closed bin into [yk, yk + Dy] (so that the code's clip is the identity) *)
  Lemma bfwd_range x : xk <= x <= xk + w -> yk <= bfwd x <= yk + Dy.
  Proof.
    intros Hx. pose proof (bxi_range x Hx) as Ht. pose proof (bden_pos _ Ht) as Hd.
    pose proof s_pos as Hs. unfold bfwd. set (t := bxi x) in *. clearbody t. clearbody s.
    set (nu := s * (t * t) + dk * t * (1 - t)).
    assert (Hn0 : 0 <= nu).
    { unfold nu. assert (0 <= s * (t * t)) by (apply Rmult_le_pos; nra).
      assert (0 <= dk * t * (1 - t)) by (repeat apply Rmult_le_pos; lra). lra. }
    assert (Hn1 : nu <= bden t).
    { unfold nu, bden, E.
      replace (s + (dk1 + dk - 2 * s) * t * (1 - t)) with
        (s * (t * t) + dk * t * (1 - t) + (s * ((1 - t) * (1 - t)) + dk1 * t * (1 - t))) by ring.
      assert (0 <= s * ((1 - t) * (1 - t))) by (apply Rmult_le_pos; nra).
      assert (0 <= dk1 * t * (1 - t)) by (repeat apply Rmult_le_pos; lra). lra. }
    assert (Hq : 0 <= nu / bden t <= 1).
    { split; [apply Rmult_le_pos; [exact Hn0 | left; apply Rinv_0_lt_compat, Hd]|].
      apply Rmult_le_reg_r with (bden t); [exact Hd|]. unfold Rdiv. rewrite Rmult_assoc, Rinv_l by lra. lra. }
    replace (Dy * nu / bden t) with (Dy * (nu / bden t)) by (unfold Rdiv; ring).
    split; nra.
  Qed.

  Lemma bfwd_left : bfwd xk = yk.
  Proof. unfold bfwd, bxi. replace (xk - xk) with 0 by ring. unfold Rdiv. rewrite !Rmult_0_l. ring. Qed.
  Lemma bfwd_right : bfwd (xk + w) = yk + Dy.
  Proof.
    unfold bfwd, bxi, bden. replace ((xk + w - xk) / w) with 1 by (field; lra).
    pose proof s_pos. unfold s in *. field. split; lra.
  Qed.
  Lemma bderiv_left : bderiv xk = dk.
  Proof.
    unfold bderiv, bxi, bden. replace ((xk - xk) / w) with 0 by (field; lra).
    pose proof s_pos. unfold s in *. field. split; lra.
  Qed.
  Lemma bderiv_right : bderiv (xk + w) = dk1.
  Proof.
    unfold bderiv, bxi, bden. replace ((xk + w - xk) / w) with 1 by (field; lra).
    pose proof s_pos. unfold s in *. field. split; lra.
  Qed.
End Bin.

(* ---------------- the spline as coded ---------------- *)
Lemma clip_id v lo hi : lo <= v <= hi -> clip ROps v lo hi = v.
Proof.
  intros H. unfold clip, nmin, nmax; ru.
  destruct (Rltb v lo) eqn:E1; [apply Rltb_true in E1; lra|].
  destruct (Rltb hi v) eqn:E2; [apply Rltb_true in E2; lra|]. reflexivity.
Qed.

Section Rqs.
  Variables xp yp dv : list R.
  Variables lo hi : R.
  (* what RationalQuadraticSpline's parameterisation guarantees after unwrap: strictly increasing
     knots from interval[0] to interval[1] in x and y, positive derivatives (softplus + min_derivative),
     K+2 entries each *)
  Record rqs_valid : Prop := {
    v_xs : StronglySorted Rlt xp; v_ys : StronglySorted Rlt yp;
    v_len : (2 <= length xp)%nat; v_leny : length yp = length xp; v_lend : length dv = length xp;
    v_dpos : List.Forall (fun d => 0 < d) dv;
    v_xlo : nth 0 xp 0 = lo; v_xhi : last xp 0 = hi; v_ylo : nth 0 yp 0 = lo; v_yhi : last yp 0 = hi }.
  Hypothesis V : rqs_valid.
  Let n := Z.of_nat (length xp).
  Let f := rqs_fwd ROps xp yp dv lo hi.
  Let f' := rqs_deriv ROps xp yp dv lo hi.

  Definition X (k : Z) : R := getz ROps xp k.
  Definition Y (k : Z) : R := getz ROps yp k.
  Definition Dv (k : Z) : R := getz ROps dv k.
  (* eq. 4 / eq. 5 of bin k as real functions *)
  Definition B (k : Z) : R -> R := bfwd (X k) (X (k+1) - X k) (Y k) (Y (k+1) - Y k) (Dv k) (Dv (k+1)).
  Definition D (k : Z) : R -> R := bderiv (X k) (X (k+1) - X k) (Y (k+1) - Y k) (Dv k) (Dv (k+1)).

  Lemma n_ge2 : (2 <= n)%Z. Proof. unfold n. pose proof (v_len V). lia. Qed.
  Lemma X_lt i j : (0 <= i < j)%Z -> (j < n)%Z -> X i < X j.
  Proof. intros. apply sorted_getz_lt; [apply V| |]; assumption. Qed.
  Lemma Y_lt i j : (0 <= i < j)%Z -> (j < n)%Z -> Y i < Y j.
  Proof. intros. apply sorted_getz_lt; [apply V| |]; [assumption|]. rewrite (v_leny V). assumption. Qed.
  Lemma X_le i j : (0 <= i <= j)%Z -> (j < n)%Z -> X i <= X j.
  Proof. intros. apply sorted_getz_le; [apply V| |]; assumption. Qed.
  Lemma Y_le i j : (0 <= i <= j)%Z -> (j < n)%Z -> Y i <= Y j.
  Proof. intros. apply sorted_getz_le; [apply V| |]; [assumption|]. rewrite (v_leny V). assumption. Qed.
  Lemma X0 : X 0 = lo. Proof. unfold X. pose proof (v_len V). rewrite getz_first by lia. apply V. Qed.
  Lemma Y0 : Y 0 = lo.
  Proof. unfold Y. pose proof (v_len V). rewrite getz_first by (rewrite (v_leny V); lia). apply V. Qed.
  Lemma Xn : X (n - 1) = hi. Proof. unfold X, n. pose proof (v_len V). rewrite getz_last by lia. apply V. Qed.
  Lemma Yn : Y (n - 1) = hi.
  Proof. unfold Y, n. pose proof (v_len V). rewrite <- (v_leny V). rewrite getz_last by (rewrite (v_leny V); lia). apply V. Qed.
  Lemma lo_lt_hi : lo < hi.
  Proof. rewrite <- X0, <- Xn. pose proof n_ge2. apply X_lt; lia. Qed.
  Lemma Dv_pos k : (0 <= k < n)%Z -> 0 < Dv k.
  Proof.
    intros Hk. unfold Dv. rewrite getz_nth by (rewrite (v_lend V); exact Hk).
    pose proof (v_dpos V) as F. rewrite Forall_forall in F. apply F, nth_In.
    rewrite (v_lend V). unfold n in Hk. lia.
  Qed.

  (* facts about a valid bin index *)
  Lemma bin_facts k : (0 <= k <= n - 2)%Z ->
    0 < X (k+1) - X k /\ 0 < Y (k+1) - Y k /\ 0 < Dv k /\ 0 < Dv (k+1) /\
    lo <= X k /\ X (k+1) <= hi /\ lo <= Y k /\ Y (k+1) <= hi.
  Proof.
    intros Hk.
    assert (X k < X (k+1)) by (apply X_lt; lia). assert (Y k < Y (k+1)) by (apply Y_lt; lia).
    assert (0 < Dv k) by (apply Dv_pos; lia). assert (0 < Dv (k+1)) by (apply Dv_pos; lia).
    assert (X 0 <= X k) by (apply X_le; lia). assert (Y 0 <= Y k) by (apply Y_le; lia).
    assert (X (k+1) <= X (n-1)) by (apply X_le; lia). assert (Y (k+1) <= Y (n-1)) by (apply Y_le; lia).
    rewrite X0, Y0, Xn, Yn in *. repeat split; lra.
  Qed.

  Lemma B_derive k x : (0 <= k <= n - 2)%Z -> X k <= x <= X (k+1) -> is_derive (B k) x (D k x).
  Proof.
    intros Hk Hx. destruct (bin_facts k Hk) as (a & b & c & d & _).
    apply bfwd_is_derive; try assumption. lra.
  Qed.
  Lemma D_pos k x : (0 <= k <= n - 2)%Z -> X k <= x <= X (k+1) -> 0 < D k x.
  Proof.
    intros Hk Hx. destruct (bin_facts k Hk) as (a & b & c & d & _).
    apply bderiv_pos; try assumption. lra.
  Qed.
  Lemma B_range k x : (0 <= k <= n - 2)%Z -> X k <= x <= X (k+1) -> lo <= B k x <= hi.
  Proof.
    intros Hk Hx. destruct (bin_facts k Hk) as (a & b & c & d & e & e' & g & g').
    pose proof (bfwd_range (X k) (X (k+1) - X k) (Y k) (Y (k+1) - Y k) (Dv k) (Dv (k+1)) a b c d x ltac:(lra)) as R.
    fold (B k) in R. lra.
  Qed.
  Lemma B_left k : (0 <= k <= n - 2)%Z -> B k (X k) = Y k.
  Proof. intros. apply bfwd_left. Qed.
  Lemma B_right k : (0 <= k <= n - 2)%Z -> B k (X (k+1)) = Y (k+1).
  Proof.
    intros Hk. destruct (bin_facts k Hk) as (a & b & _).
    pose proof (bfwd_right (X k) (X (k+1) - X k) (Y k) (Y (k+1) - Y k) (Dv k) (Dv (k+1)) a b) as R.
    replace (X k + (X (k+1) - X k)) with (X (k+1)) in R by ring. unfold B. rewrite R. ring.
  Qed.
  Lemma D_left k : (0 <= k <= n - 2)%Z -> D k (X k) = Dv k.
  Proof. intros Hk. destruct (bin_facts k Hk) as (a & b & _). apply bderiv_left; lra. Qed.
  Lemma D_right k : (0 <= k <= n - 2)%Z -> D k (X (k+1)) = Dv (k+1).
  Proof.
    intros Hk. destruct (bin_facts k Hk) as (a & b & _).
    pose proof (bderiv_right (X k) (X (k+1) - X k) (Y (k+1) - Y k) (Dv k) (Dv (k+1)) a b) as R.
    replace (X k + (X (k+1) - X k)) with (X (k+1)) in R by ring. exact R.
  Qed.

  (* unfolding the code *)
  Lemma inb_true x : lo <= x <= hi -> geb ROps x lo && n_leb ROps x hi = true.
  Proof. intros H. ru. apply andb_true_iff. split; apply Rleb_true; lra. Qed.
  Lemma inb_false x : x < lo \/ hi < x -> geb ROps x lo && n_leb ROps x hi = false.
  Proof. intros H. ru. apply andb_false_iff. destruct H; [left|right]; apply Rleb_false; lra. Qed.

  Lemma rqs_fwd_out x : x < lo \/ hi < x -> f x = x.
  Proof. intros H. unfold f, rqs_fwd, rqs_fwd_g. cbv zeta. rewrite inb_false by exact H. reflexivity. Qed.
  Lemma rqs_deriv_out x : x < lo \/ hi < x -> f' x = 1.
  Proof. intros H. unfold f', rqs_deriv, rqs_deriv_g. cbv zeta. rewrite inb_false by exact H. reflexivity. Qed.
  Lemma rqs_fwd_in_clip x : lo <= x <= hi -> f x = clip ROps (B (rqs_bin ROps xp x) x) lo hi.
  Proof. intros H. unfold f, rqs_fwd, rqs_fwd_g. cbv zeta. rewrite inb_true by exact H. reflexivity. Qed.
  Lemma rqs_deriv_in x : lo <= x <= hi -> f' x = D (rqs_bin ROps xp x) x.
  Proof. intros H. unfold f', rqs_deriv, rqs_deriv_g. cbv zeta. rewrite inb_true by exact H. reflexivity. Qed.

  Lemma bin_of x : lo <= x <= hi ->
    let k := rqs_bin ROps xp x in (0 <= k <= n - 2)%Z /\ X k <= x <= X (k+1) /\ (X k < x \/ k = 0%Z).
  Proof.
    intros Hx k. pose proof (rqs_bin_spec xp x (v_xs V) (v_len V)) as S.
    rewrite (v_xlo V), (v_xhi V) in S. destruct (S Hx) as (a & b & c & _). fold k in a, b, c. auto.
  Qed.
  (* in bounds the clip is the identity: the code computes eq. 4 of the looked-up bin *)
  Lemma rqs_fwd_in x : lo <= x <= hi -> f x = B (rqs_bin ROps xp x) x.
  Proof.
    intros Hx. rewrite rqs_fwd_in_clip by exact Hx. destruct (bin_of x Hx) as (a & b & _).
    apply clip_id, B_range; assumption.
  Qed.
  (* on the half-open bin (X k, X (k+1)] the code is B k / D k *)
  Lemma rqs_fwd_bin k x : (0 <= k <= n - 2)%Z -> X k < x <= X (k+1) -> f x = B k x.
  Proof.
    intros Hk Hx. destruct (bin_facts k Hk) as (_ & _ & _ & _ & e & e' & _).
    rewrite rqs_fwd_in by lra. rewrite (rqs_bin_unique xp x k); [reflexivity | apply V | exact Hk | exact Hx].
  Qed.
  Lemma rqs_deriv_bin k x : (0 <= k <= n - 2)%Z -> X k < x <= X (k+1) -> f' x = D k x.
  Proof.
    intros Hk Hx. destruct (bin_facts k Hk) as (_ & _ & _ & _ & e & e' & _).
    rewrite rqs_deriv_in by lra. rewrite (rqs_bin_unique xp x k); [reflexivity | apply V | exact Hk | exact Hx].
  Qed.
  (* ... and also at the left end of bin k, where the code looks up bin k-1 (or bin 0 for k = 0) *)
  Lemma rqs_fwd_bin_closed k x : (0 <= k <= n - 2)%Z -> X k <= x <= X (k+1) -> f x = B k x.
  Proof.
    intros Hk [[Hx| <-] Hx2]; [apply rqs_fwd_bin; [exact Hk | lra]|].
    destruct (Z.eq_dec k 0) as [->|Hne].
    - rewrite rqs_fwd_in by (rewrite X0; pose proof lo_lt_hi; lra).
      unfold X at 1. rewrite rqs_bin_knot0 by apply V. reflexivity.
    - replace k with (k - 1 + 1)%Z at 1 by lia. rewrite rqs_fwd_bin with (k := (k-1)%Z).
      + rewrite B_right by lia. replace (k - 1 + 1)%Z with k by lia. now rewrite B_left.
      + lia.
      + split; [apply X_lt; lia | lra].
  Qed.

  (* ---------- the theorems ---------- *)
  (* outside the interval: identity, derivative 1 *)
  Theorem rqs_deriv_outside x : x < lo \/ hi < x -> is_derive f x (f' x) /\ f' x = 1.
  Proof.
    intros H. rewrite rqs_deriv_out by exact H. split; [|reflexivity].
    destruct H as [H|H].
    - apply (is_derive_loc f (fun t => t) x 1 (lo - x)); [lra| |auto_derive; [exact I|ring]].
      intros y Hy. apply rqs_fwd_out. left. lra.
    - apply (is_derive_loc f (fun t => t) x 1 (x - hi)); [lra| |auto_derive; [exact I|ring]].
      intros y Hy. apply rqs_fwd_out. right. lra.
  Qed.

  (* strictly inside the interval: differentiable, with the reported derivative -- interior knots included
     (there the two one-sided derivatives are both the knot's derivative parameter) *)
  Theorem rqs_deriv_inside x : lo < x < hi -> is_derive f x (f' x).
  Proof.
    intros Hx. destruct (bin_of x ltac:(lra)) as (Hk & Hb & Hl). set (k := rqs_bin ROps xp x) in *.
    assert (Hxk : X k < x).
    { destruct Hl as [Hl| ->]; [exact Hl|]. rewrite X0. lra. }
    destruct (bin_facts k Hk) as (a & b & c & d & e & e' & _).
    rewrite (rqs_deriv_bin k) by (try exact Hk; lra).
    clearbody k. destruct Hb as [_ [Hb|Hb]].
    - (* not a knot *)
      apply (is_derive_loc f (B k) x (D k x) (Rmin (x - X k) (X (k+1) - x))); [apply Rmin_pos; lra| |apply B_derive; [exact Hk|lra]].
      intros y Hy. pose proof (Rmin_l (x - X k) (X (k+1) - x)). pose proof (Rmin_r (x - X k) (X (k+1) - x)).
      apply rqs_fwd_bin; [exact Hk | lra].
    - (* the interior knot X (k+1): bin k on the left, bin k+1 on the right *)
      assert (Hk1 : (k + 1 <= n - 2)%Z).
      { destruct (Z_le_gt_dec (k+1) (n-2)) as [K|K]; [exact K|exfalso].
        assert (k + 1 = n - 1)%Z by lia. rewrite Hb, H, Xn in Hx. lra. }
      destruct (bin_facts (k+1)%Z ltac:(lia)) as (a1 & _).
      subst x. rewrite D_right by exact Hk.
      apply (is_derive_glue_loc f (B k) (B (k+1)) (X (k+1)) (Dv (k+1)) (Rmin (X (k+1) - X k) (X (k+1+1) - X (k+1)))).
      + apply Rmin_pos; lra.
      + intros y Hy. pose proof (Rmin_l (X (k+1) - X k) (X (k+1+1) - X (k+1))).
        apply rqs_fwd_bin; [exact Hk | lra].
      + intros y Hy. pose proof (Rmin_r (X (k+1) - X k) (X (k+1+1) - X (k+1))).
        apply rqs_fwd_bin_closed; [lia | lra].
      + rewrite <- (D_right k) by exact Hk. apply B_derive; [exact Hk | lra].
      + rewrite <- (D_left (k+1)) by lia. apply B_derive; [lia | lra].
  Qed.

  (* the reported derivative is positive everywhere, so ln (derivative) = ln |derivative| *)
  Theorem rqs_deriv_pos x : 0 < f' x.
  Proof.
    destruct (Rlt_dec x lo) as [H1|H1]; [rewrite rqs_deriv_out by (left; exact H1); lra|].
    destruct (Rlt_dec hi x) as [H2|H2]; [rewrite rqs_deriv_out by (right; exact H2); lra|].
    assert (Hx : lo <= x <= hi) by lra. rewrite rqs_deriv_in by exact Hx.
    destruct (bin_of x Hx) as (a & b & _). apply D_pos; assumption.
  Qed.
  Theorem rqs_ld_spec x : rqs_ld_fwd ROps xp yp dv lo hi x = ln (Rabs (f' x)).
  Proof. rewrite Rabs_right by (left; apply rqs_deriv_pos). reflexivity. Qed.

  Theorem rqs_ldj x : x <> lo -> x <> hi -> is_ldj f x (rqs_ld_fwd ROps xp yp dv lo hi x).
  Proof.
    intros N1 N2. apply (is_ldj_intro _ _ (f' x)); [|apply Rgt_not_eq, rqs_deriv_pos|apply rqs_ld_spec].
    destruct (Rlt_dec x lo) as [H1|H1]; [apply rqs_deriv_outside; left; exact H1|].
    destruct (Rlt_dec hi x) as [H2|H2]; [apply rqs_deriv_outside; right; exact H2|].
    apply rqs_deriv_inside. lra.
  Qed.

  (* the two ends of the interval: the map is the identity outside and the first/last bin inside;
     what derivative() reports there is the INNER one-sided derivative (= the end derivative parameter);
     the outer one-sided derivative is 1 *)
  Theorem rqs_end_lo :
    f' lo = Dv 0 /\ right_deriv f lo (f' lo) /\ left_deriv f lo 1.
  Proof.
    pose proof lo_lt_hi as Hlh. pose proof n_ge2 as Hn.
    destruct (bin_facts 0%Z ltac:(lia)) as (a & _).
    assert (E : f' lo = Dv 0).
    { rewrite rqs_deriv_in by lra. rewrite <- X0 at 1. unfold X at 1. rewrite rqs_bin_knot0 by apply V.
      rewrite <- X0. apply D_left. lia. }
    split; [exact E|]. split.
    - rewrite E. apply (right_deriv_ext f (B 0) lo (Dv 0) (X (0+1) - X 0)); [lra| |].
      + intros y Hy. rewrite <- X0 in Hy. apply rqs_fwd_bin_closed; [lia | lra].
      + apply is_derive_right_deriv. rewrite <- X0, <- (D_left 0) by lia. apply B_derive; [lia | lra].
    - apply (left_deriv_ext f (fun t => t) lo 1 1); [lra| |].
      + intros y [_ [Hy| ->]]; [apply rqs_fwd_out; left; exact Hy|].
        rewrite <- X0 at 1. rewrite rqs_fwd_bin_closed with (k := 0%Z); [|lia|lra].
        rewrite B_left by lia. apply Y0.
      + apply is_derive_left_deriv. auto_derive; [exact I | ring].
  Qed.
  Theorem rqs_end_hi :
    f' hi = Dv (n - 1) /\ left_deriv f hi (f' hi) /\ right_deriv f hi 1.
  Proof.
    pose proof lo_lt_hi as Hlh. pose proof n_ge2 as Hn.
    destruct (bin_facts (n-2)%Z ltac:(lia)) as (a & _).
    assert (Hx : X (n - 2 + 1) = hi) by (replace (n - 2 + 1)%Z with (n - 1)%Z by lia; apply Xn).
    assert (E : f' hi = Dv (n - 1)).
    { rewrite <- Hx at 1. rewrite (rqs_deriv_bin (n-2)%Z) by (try lia; lra).
      rewrite D_right by lia. f_equal. lia. }
    split; [exact E|]. split.
    - rewrite E. apply (left_deriv_ext f (B (n-2)) hi (Dv (n-1)) (X (n-2+1) - X (n-2))); [lra| |].
      + intros y Hy. apply rqs_fwd_bin; [lia | lra].
      + apply is_derive_left_deriv. replace (n-1)%Z with (n-2+1)%Z by lia.
        rewrite <- Hx, <- (D_right (n-2)) by lia. apply B_derive; [lia | lra].
    - apply (right_deriv_ext f (fun t => t) hi 1 1); [lra| |].
      + intros y [[Hy| <-] _]; [apply rqs_fwd_out; right; exact Hy|].
        rewrite <- Hx at 1. rewrite rqs_fwd_bin with (k := (n-2)%Z); [|lia|lra].
        rewrite B_right by lia. replace (n - 2 + 1)%Z with (n - 1)%Z by lia. apply Yn.
      + apply is_derive_right_deriv. auto_derive; [exact I | ring].
  Qed.

  (* consequently: at an end the map is differentiable iff the end derivative parameter is 1;
     otherwise it has a kink there and the reported value is the inner one-sided derivative *)
  Corollary rqs_end_lo_smooth : Dv 0 = 1 -> is_derive f lo (f' lo).
  Proof.
    intros H1. destruct rqs_end_lo as (E & R & L). apply is_derive_of_sides; [|exact R].
    rewrite E, H1. exact L.
  Qed.
  Corollary rqs_end_lo_kink : Dv 0 <> 1 -> ~ exists d, is_derive f lo d.
  Proof.
    intros H1. destruct rqs_end_lo as (E & R & L). apply (kink_not_derivable f lo 1 (f' lo) L R).
    rewrite E. auto.
  Qed.
  Corollary rqs_end_hi_smooth : Dv (n - 1) = 1 -> is_derive f hi (f' hi).
  Proof.
    intros H1. destruct rqs_end_hi as (E & L & R). apply is_derive_of_sides; [exact L|].
    rewrite E, H1. exact R.
  Qed.
  Corollary rqs_end_hi_kink : Dv (n - 1) <> 1 -> ~ exists d, is_derive f hi d.
  Proof.
    intros H1. destruct rqs_end_hi as (E & L & R). apply (kink_not_derivable f hi (f' hi) 1 L R).
    rewrite E. auto.
  Qed.

  (* at a knot X j (j >= 1) derivative() reports the knot's derivative parameter *)
  Lemma rqs_deriv_at_knot j : (1 <= j <= n - 1)%Z -> f' (X j) = Dv j.
  Proof.
    intros Hj. replace j with (j - 1 + 1)%Z by lia.
    rewrite (rqs_deriv_bin (j - 1)%Z); [apply D_right; lia | lia |].
    split; [apply X_lt; lia | lra].
  Qed.
  Lemma rqs_fwd_at_knot j : (0 <= j <= n - 1)%Z -> f (X j) = Y j.
  Proof.
    intros Hj. destruct (Z.eq_dec j 0) as [->|Hne].
    - pose proof n_ge2. rewrite (rqs_fwd_bin_closed 0%Z); [apply B_left; lia | lia |].
      split; [lra | left; apply X_lt; lia].
    - replace j with (j - 1 + 1)%Z by lia.
      rewrite (rqs_fwd_bin (j - 1)%Z); [apply B_right; lia | lia |].
      split; [apply X_lt; lia | lra].
  Qed.

  (* inverse_and_log_det: x = inverse(y); -log(derivative(x)) *)
  Lemma rqs_ld_inverse_law y :
    rqs_ld_inv ROps xp yp dv lo hi y = - rqs_ld_fwd ROps xp yp dv lo hi (rqs_inv ROps xp yp dv lo hi y).
  Proof. reflexivity. Qed.
End Rqs.

(* the spline as a rank-0 layer (for chains): everywhere except the two interval ends *)
Definition rqs_layer (xp yp dv : list R) (lo hi : R) : layer R :=
  Layer (rqs_fwd ROps xp yp dv lo hi) (rqs_inv ROps xp yp dv lo hi)
        (rqs_ld_fwd ROps xp yp dv lo hi) (rqs_ld_inv ROps xp yp dv lo hi)
        (fun x => x <> lo /\ x <> hi) (fun y => y <> lo /\ y <> hi).
Lemma rqs_layer_ldj xp yp dv lo hi : rqs_valid xp yp dv lo hi -> layer_ldj (rqs_layer xp yp dv lo hi).
Proof. intros V x [H1 H2]. apply rqs_ldj; assumption. Qed.
