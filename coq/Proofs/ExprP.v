(* The deep embedding (Model/Expr.v) evaluates to the shallow models of Model/Leaves.v that the other
   properties (C01, C02, C07) reason about: for every term, for EVERY NumOps record and all arguments,
   [eval O env term] is (definitionally) the corresponding Leaves function. *)
From Coq Require Import List ZArith Bool.
From FJ Require Import Model.Num Model.Leaves Model.Expr.
Import ListNotations.

Section Match.
  Context {A : Type} (O : NumOps A).
  (* environment: scalars by position, parameter arrays x_pos, y_pos, derivatives *)
  Definition en1 (vs : list A) : env A := {| vars := vs; pars := [] |}.
  Definition enr (vs : list A) (xp yp dv : list A) : env A := {| vars := vs; pars := [xp; yp; dv] |}.

  Lemma ev_tanh_log_grad x : eval O (en1 [x]) (tanh_log_grad_t 1 (Var 0)) = tanh_log_grad O x.
  Proof. reflexivity. Qed.
  Lemma ev_tanh_ld_inv y : eval O (en1 [y]) (tanh_ld_inv_t 1 (Var 0)) = tanh_ld_inv O y.
  Proof. reflexivity. Qed.
  Lemma ev_tanh_fwd x : eval O (en1 [x]) (tanh_fwd_t (Var 0)) = tanh_fwd O x.
  Proof. reflexivity. Qed.
  Lemma ev_tanh_inv y : eval O (en1 [y]) (tanh_inv_t (Var 0)) = tanh_inv O y.
  Proof. reflexivity. Qed.

  Lemma ev_leaky_fwd m g ic x :
    eval O (en1 [x; m; g; ic]) (leaky_fwd_t (Var 1) (Var 2) (Var 3) (Var 0)) = leaky_fwd O m g ic x.
  Proof. reflexivity. Qed.
  Lemma ev_leaky_ld_fwd m g ic x :
    eval O (en1 [x; m; g; ic]) (leaky_ld_fwd_t 4 (Var 1) (Var 2) (Var 0)) = leaky_ld_fwd O m g x.
  Proof. reflexivity. Qed.
  Lemma ev_leaky_inv m g ic y :
    eval O (en1 [y; m; g; ic]) (leaky_inv_t (Var 1) (Var 2) (Var 3) (Var 0)) = leaky_inv O m g ic y.
  Proof. reflexivity. Qed.
  Lemma ev_leaky_ld_inv m g ic y :
    eval O (en1 [y; m; g; ic]) (leaky_ld_inv_t 4 (Var 1) (Var 2) (Var 3) (Var 0)) = leaky_ld_inv O m g ic y.
  Proof. reflexivity. Qed.
  (* the old inverse has the same VALUE as the repaired one whenever the selected branch is the same:
     it is the gradient that differs (SafeP.leaky_inv_old_unsafe_refuted) *)
  Lemma ev_leaky_inv_old m g ic y :
    eval O (en1 [y; m; g; ic]) (leaky_inv_old_t (Var 1) (Var 2) (Var 3) (Var 0)) =
    where_ (geb O (n_abs O y) (n_tanh O m)) (n_div O (n_sub O y (n_mul O (n_sign O y) ic)) g) (n_atanh O y).
  Proof. reflexivity. Qed.

  Lemma ev_rqs_fwd xp yp dv lo hi x :
    eval O (enr [x; lo; hi] xp yp dv) (rqs_fwd_t 3 (Var 1) (Var 2) (Var 0)) = rqs_fwd O xp yp dv lo hi x.
  Proof. reflexivity. Qed.
  Lemma ev_rqs_inv xp yp dv lo hi y :
    eval O (enr [y; lo; hi] xp yp dv) (rqs_inv_t 3 (Var 1) (Var 2) (Var 0)) = rqs_inv O xp yp dv lo hi y.
  Proof. reflexivity. Qed.
  Lemma ev_rqs_deriv xp yp dv lo hi x :
    eval O (enr [x; lo; hi] xp yp dv) (rqs_deriv_t 3 (Var 1) (Var 2) (Var 0)) = rqs_deriv O xp yp dv lo hi x.
  Proof. reflexivity. Qed.
  Lemma ev_rqs_ld_fwd xp yp dv lo hi x :
    eval O (enr [x; lo; hi] xp yp dv) (rqs_ld_fwd_t 3 (Var 1) (Var 2) (Var 0)) = rqs_ld_fwd O xp yp dv lo hi x.
  Proof. reflexivity. Qed.
  (* inverse_and_log_det binds x = inverse(y) once; the derivative formula is then read at that slot
     (a direct [reflexivity] on the composition takes minutes: the sharing is kept by going in two steps) *)
  Lemma ev_rqs_deriv_slot xp yp dv lo hi y v :
    eval O (enr [y; lo; hi; v] xp yp dv) (rqs_deriv_t 4 (Var 1) (Var 2) (Var 3)) = rqs_deriv O xp yp dv lo hi v.
  Proof. reflexivity. Qed.
  Lemma push_enr vs xp yp dv (v : A) : push (enr vs xp yp dv) v = enr (vs ++ [v]) xp yp dv.
  Proof. reflexivity. Qed.
  Lemma ev_rqs_ld_inv xp yp dv lo hi y :
    eval O (enr [y; lo; hi] xp yp dv) (rqs_ld_inv_t 3 (Var 1) (Var 2) (Var 0)) = rqs_ld_inv O xp yp dv lo hi y.
  Proof.
    unfold rqs_ld_inv_t, rqs_ld_inv_gt, rqs_ld_inv_of_gt, rqs_ld_inv. cbn [eval].
    change (rqs_inv_gt bin_t rob_lo) with rqs_inv_t. change (rqs_deriv_gt bin_t rob_lo) with rqs_deriv_t.
    rewrite ev_rqs_inv, push_enr. cbn [app]. now rewrite ev_rqs_deriv_slot.
  Qed.
  Lemma ev_rqs_fwd_old xp yp dv lo hi x :
    eval O (enr [x; lo; hi] xp yp dv) (rqs_fwd_old_t 3 (Var 1) (Var 2) (Var 0)) = rqs_fwd_old O xp yp dv lo hi x.
  Proof. reflexivity. Qed.
  Lemma ev_rqs_inv_old xp yp dv lo hi y :
    eval O (enr [y; lo; hi] xp yp dv) (rqs_inv_old_t 3 (Var 1) (Var 2) (Var 0)) = rqs_inv_old O xp yp dv lo hi y.
  Proof. reflexivity. Qed.

  Lemma ev_softplus_fwd x : eval O (en1 [x]) (softplus_fwd_t (Var 0)) = softplus_fwd O x.
  Proof. reflexivity. Qed.
  Lemma ev_softplus_ld_fwd x : eval O (en1 [x]) (softplus_ld_fwd_t (Var 0)) = softplus_ld_fwd O x.
  Proof. reflexivity. Qed.
  Lemma ev_softplus_inv y : eval O (en1 [y]) (softplus_inv_t (Var 0)) = softplus_inv O y.
  Proof. reflexivity. Qed.
  Lemma ev_softplus_ld_inv y : eval O (en1 [y]) (softplus_ld_inv_t 1 (Var 0)) = softplus_ld_inv O y.
  Proof. reflexivity. Qed.
  Lemma ev_exp_fwd x : eval O (en1 [x]) (exp_fwd_t (Var 0)) = exp_fwd O x.
  Proof. reflexivity. Qed.
  Lemma ev_exp_inv y : eval O (en1 [y]) (exp_inv_t (Var 0)) = exp_inv O y.
  Proof. reflexivity. Qed.
  Lemma ev_exp_ld_inv y : eval O (en1 [y]) (exp_ld_inv_t 1 (Var 0)) = exp_ld_inv O y.
  Proof. reflexivity. Qed.
  Lemma ev_affine_fwd loc scale x :
    eval O (en1 [x; loc; scale]) (affine_fwd_t (Var 1) (Var 2) (Var 0)) = affine_fwd O loc scale x.
  Proof. reflexivity. Qed.
  Lemma ev_affine_inv loc scale y :
    eval O (en1 [y; loc; scale]) (affine_inv_t (Var 1) (Var 2) (Var 0)) = affine_inv O loc scale y.
  Proof. reflexivity. Qed.
  Lemma ev_affine_ld loc scale x : eval O (en1 [x; loc; scale]) (affine_ld_t (Var 2)) = affine_ld O scale.
  Proof. reflexivity. Qed.

  (* all of them at once *)
  Theorem eval_matches_leaves :
    (forall x, eval O (en1 [x]) (tanh_log_grad_t 1 (Var 0)) = tanh_log_grad O x) /\
    (forall m g ic x, eval O (en1 [x; m; g; ic]) (leaky_fwd_t (Var 1) (Var 2) (Var 3) (Var 0)) = leaky_fwd O m g ic x) /\
    (forall m g ic x, eval O (en1 [x; m; g; ic]) (leaky_ld_fwd_t 4 (Var 1) (Var 2) (Var 0)) = leaky_ld_fwd O m g x) /\
    (forall m g ic y, eval O (en1 [y; m; g; ic]) (leaky_inv_t (Var 1) (Var 2) (Var 3) (Var 0)) = leaky_inv O m g ic y) /\
    (forall m g ic y, eval O (en1 [y; m; g; ic]) (leaky_ld_inv_t 4 (Var 1) (Var 2) (Var 3) (Var 0)) = leaky_ld_inv O m g ic y) /\
    (forall xp yp dv lo hi x, eval O (enr [x; lo; hi] xp yp dv) (rqs_fwd_t 3 (Var 1) (Var 2) (Var 0)) = rqs_fwd O xp yp dv lo hi x) /\
    (forall xp yp dv lo hi y, eval O (enr [y; lo; hi] xp yp dv) (rqs_inv_t 3 (Var 1) (Var 2) (Var 0)) = rqs_inv O xp yp dv lo hi y) /\
    (forall xp yp dv lo hi x, eval O (enr [x; lo; hi] xp yp dv) (rqs_deriv_t 3 (Var 1) (Var 2) (Var 0)) = rqs_deriv O xp yp dv lo hi x) /\
    (forall xp yp dv lo hi x, eval O (enr [x; lo; hi] xp yp dv) (rqs_ld_fwd_t 3 (Var 1) (Var 2) (Var 0)) = rqs_ld_fwd O xp yp dv lo hi x) /\
    (forall xp yp dv lo hi y, eval O (enr [y; lo; hi] xp yp dv) (rqs_ld_inv_t 3 (Var 1) (Var 2) (Var 0)) = rqs_ld_inv O xp yp dv lo hi y) /\
    (forall xp yp dv lo hi x, eval O (enr [x; lo; hi] xp yp dv) (rqs_fwd_old_t 3 (Var 1) (Var 2) (Var 0)) = rqs_fwd_old O xp yp dv lo hi x) /\
    (forall xp yp dv lo hi y, eval O (enr [y; lo; hi] xp yp dv) (rqs_inv_old_t 3 (Var 1) (Var 2) (Var 0)) = rqs_inv_old O xp yp dv lo hi y) /\
    (forall x, eval O (en1 [x]) (softplus_fwd_t (Var 0)) = softplus_fwd O x) /\
    (forall x, eval O (en1 [x]) (softplus_ld_fwd_t (Var 0)) = softplus_ld_fwd O x) /\
    (forall y, eval O (en1 [y]) (softplus_inv_t (Var 0)) = softplus_inv O y) /\
    (forall y, eval O (en1 [y]) (softplus_ld_inv_t 1 (Var 0)) = softplus_ld_inv O y) /\
    (forall x, eval O (en1 [x]) (exp_fwd_t (Var 0)) = exp_fwd O x) /\
    (forall y, eval O (en1 [y]) (exp_inv_t (Var 0)) = exp_inv O y) /\
    (forall y, eval O (en1 [y]) (exp_ld_inv_t 1 (Var 0)) = exp_ld_inv O y) /\
    (forall loc scale x, eval O (en1 [x; loc; scale]) (affine_fwd_t (Var 1) (Var 2) (Var 0)) = affine_fwd O loc scale x) /\
    (forall loc scale y, eval O (en1 [y; loc; scale]) (affine_inv_t (Var 1) (Var 2) (Var 0)) = affine_inv O loc scale y) /\
    (forall (loc scale x : A), eval O (en1 [x; loc; scale]) (affine_ld_t (Var 2)) = affine_ld O scale) /\
    (forall x, eval O (en1 [x]) (tanh_fwd_t (Var 0)) = tanh_fwd O x) /\
    (forall y, eval O (en1 [y]) (tanh_inv_t (Var 0)) = tanh_inv O y) /\
    (forall y, eval O (en1 [y]) (tanh_ld_inv_t 1 (Var 0)) = tanh_ld_inv O y).
  Proof.
    repeat apply conj;
      [ exact ev_tanh_log_grad | exact ev_leaky_fwd | exact ev_leaky_ld_fwd | exact ev_leaky_inv | exact ev_leaky_ld_inv
      | exact ev_rqs_fwd | exact ev_rqs_inv | exact ev_rqs_deriv | exact ev_rqs_ld_fwd | exact ev_rqs_ld_inv
      | exact ev_rqs_fwd_old | exact ev_rqs_inv_old | exact ev_softplus_fwd | exact ev_softplus_ld_fwd
      | exact ev_softplus_inv | exact ev_softplus_ld_inv | exact ev_exp_fwd | exact ev_exp_inv | exact ev_exp_ld_inv
      | exact ev_affine_fwd | exact ev_affine_inv | exact ev_affine_ld | exact ev_tanh_fwd | exact ev_tanh_inv
      | exact ev_tanh_ld_inv ].
  Qed.
  (* grouped, as stated in Props/C18.v *)
  Lemma ev_leaky_all m g ic y :
    eval O (en1 [y; m; g; ic]) (leaky_inv_t (Var 1) (Var 2) (Var 3) (Var 0)) = leaky_inv O m g ic y /\
    eval O (en1 [y; m; g; ic]) (leaky_fwd_t (Var 1) (Var 2) (Var 3) (Var 0)) = leaky_fwd O m g ic y /\
    eval O (en1 [y; m; g; ic]) (leaky_ld_fwd_t 4 (Var 1) (Var 2) (Var 0)) = leaky_ld_fwd O m g y /\
    eval O (en1 [y; m; g; ic]) (leaky_ld_inv_t 4 (Var 1) (Var 2) (Var 3) (Var 0)) = leaky_ld_inv O m g ic y.
  Proof. repeat split; reflexivity. Qed.
  Lemma ev_rqs_all xp yp dv lo hi x :
    eval O (enr [x; lo; hi] xp yp dv) (rqs_fwd_t 3 (Var 1) (Var 2) (Var 0)) = rqs_fwd O xp yp dv lo hi x /\
    eval O (enr [x; lo; hi] xp yp dv) (rqs_inv_t 3 (Var 1) (Var 2) (Var 0)) = rqs_inv O xp yp dv lo hi x /\
    eval O (enr [x; lo; hi] xp yp dv) (rqs_deriv_t 3 (Var 1) (Var 2) (Var 0)) = rqs_deriv O xp yp dv lo hi x /\
    eval O (enr [x; lo; hi] xp yp dv) (rqs_ld_fwd_t 3 (Var 1) (Var 2) (Var 0)) = rqs_ld_fwd O xp yp dv lo hi x /\
    eval O (enr [x; lo; hi] xp yp dv) (rqs_ld_inv_t 3 (Var 1) (Var 2) (Var 0)) = rqs_ld_inv O xp yp dv lo hi x /\
    eval O (enr [x; lo; hi] xp yp dv) (rqs_fwd_old_t 3 (Var 1) (Var 2) (Var 0)) = rqs_fwd_old O xp yp dv lo hi x /\
    eval O (enr [x; lo; hi] xp yp dv) (rqs_inv_old_t 3 (Var 1) (Var 2) (Var 0)) = rqs_inv_old O xp yp dv lo hi x.
  Proof.
    repeat apply conj; [exact (ev_rqs_fwd _ _ _ _ _ _) | exact (ev_rqs_inv _ _ _ _ _ _) | exact (ev_rqs_deriv _ _ _ _ _ _)
      | exact (ev_rqs_ld_fwd _ _ _ _ _ _) | exact (ev_rqs_ld_inv _ _ _ _ _ _) | exact (ev_rqs_fwd_old _ _ _ _ _ _)
      | exact (ev_rqs_inv_old _ _ _ _ _ _)].
  Qed.
  Lemma ev_other_all loc scale x :
    eval O (en1 [x]) (tanh_log_grad_t 1 (Var 0)) = tanh_log_grad O x /\
    eval O (en1 [x]) (softplus_inv_t (Var 0)) = softplus_inv O x /\
    eval O (en1 [x]) (softplus_ld_inv_t 1 (Var 0)) = softplus_ld_inv O x /\
    eval O (en1 [x]) (softplus_ld_fwd_t (Var 0)) = softplus_ld_fwd O x /\
    eval O (en1 [x]) (exp_inv_t (Var 0)) = exp_inv O x /\
    eval O (en1 [x]) (exp_ld_inv_t 1 (Var 0)) = exp_ld_inv O x /\
    eval O (en1 [x]) (tanh_inv_t (Var 0)) = tanh_inv O x /\
    eval O (en1 [x]) (tanh_ld_inv_t 1 (Var 0)) = tanh_ld_inv O x /\
    eval O (en1 [x; loc; scale]) (affine_fwd_t (Var 1) (Var 2) (Var 0)) = affine_fwd O loc scale x /\
    eval O (en1 [x; loc; scale]) (affine_inv_t (Var 1) (Var 2) (Var 0)) = affine_inv O loc scale x /\
    eval O (en1 [x; loc; scale]) (affine_ld_t (Var 2)) = affine_ld O scale.
  Proof. repeat split; reflexivity. Qed.
End Match.
