(* Lemmas about Model/Train.v (C16). *)
From Coq Require Import List ZArith Lia Bool Arith.
From FJ Require Import Model.Train.
Import ListNotations.
Open Scope Z_scope.

(* ---------- minimum / argmin ---------- *)
Lemma minimum_cons x t : t <> [] -> minimum (x :: t) = Z.min x (minimum t).
Proof.
  intros Ht. unfold minimum. cbn [fold_right hd].
  destruct t as [|y t]; [congruence|]. cbn [hd].
  assert (G2 : forall d l, fold_right Z.min d (y :: l) = Z.min d (fold_right Z.min y (y :: l))).
  { intros d l. induction l as [|z l IH]; cbn [fold_right] in *; lia. }
  rewrite (G2 x t). lia.
Qed.

Lemma minimum_single x : minimum [x] = x.
Proof. unfold minimum; cbn. lia. Qed.

Lemma minimum_spec l : l <> [] -> In (minimum l) l /\ forall x, In x l -> minimum l <= x.
Proof.
  induction l as [|a t IH]; [congruence|]. intros _.
  destruct t as [|b t].
  - rewrite minimum_single. split; [now left|]. intros x [->|[]]; lia.
  - rewrite minimum_cons by congruence. destruct IH as [Hin Hle]; [congruence|].
    split.
    + destruct (Z.min_spec a (minimum (b :: t))) as [[_ ->]|[_ ->]]; [now left|now right].
    + intros x [->|Hx]; [lia|]. specialize (Hle x Hx). lia.
Qed.

Lemma minimum_unique l m : In m l -> (forall x, In x l -> m <= x) -> minimum l = m.
Proof.
  intros Hin Hle. assert (l <> []) as Hne by (destruct l; [destruct Hin|congruence]).
  destruct (minimum_spec l Hne) as [Hin' Hle']. specialize (Hle _ Hin'). specialize (Hle' _ Hin). lia.
Qed.

Lemma minimum_snoc l v : l <> [] -> minimum (l ++ [v]) = Z.min (minimum l) v.
Proof.
  intros Hne. destruct (minimum_spec l Hne) as [Hin Hle].
  apply minimum_unique.
  - apply in_or_app. destruct (Z.min_spec (minimum l) v) as [[_ ->]|[_ ->]]; [now left|right; now left].
  - intros x Hx. apply in_app_or in Hx. destruct Hx as [Hx|[<-|[]]]; [specialize (Hle x Hx)|]; lia.
Qed.

Lemma argmin_spec l : l <> [] ->
  (argmin l < length l)%nat /\ nth (argmin l) l 0 = minimum l /\
  forall j, (j < argmin l)%nat -> minimum l < nth j l 0.
Proof.
  induction l as [|a t IH]; [congruence|]. intros _.
  destruct t as [|b t].
  - rewrite minimum_single. cbn. repeat split; [lia|]. intros j Hj; lia.
  - assert (Hne : b :: t <> []) by congruence. specialize (IH Hne). destruct IH as (Hlt & Hnth & Hbefore).
    rewrite minimum_cons by congruence.
    change (argmin (a :: b :: t)) with (if a <=? minimum (b :: t) then O else S (argmin (b :: t))).
    destruct (a <=? minimum (b :: t)) eqn:E.
    + apply Z.leb_le in E. cbn [length nth]. repeat split; [clear; lia|lia|intros j Hj; exfalso; clear -Hj; lia].
    + apply Z.leb_gt in E. cbn [length]. repeat split; [clear -Hlt; cbn [length] in Hlt; lia| |].
      * change (nth (S (argmin (b :: t))) (a :: b :: t) 0) with (nth (argmin (b :: t)) (b :: t) 0). rewrite Hnth. lia.
      * intros j Hj. destruct j as [|j]; [cbn [nth]; lia|]. change (nth (S j) (a :: b :: t) 0) with (nth j (b :: t) 0). specialize (Hbefore j). 
        assert (j < argmin (b :: t))%nat by lia. specialize (Hbefore H). lia.
Qed.

(* ---------- fit_to_data ---------- *)
Lemma run_all P l : run P l (length l) = fold_left (epoch P) l st0.
Proof. unfold run. now rewrite firstn_all. Qed.

Lemma fold_snoc P l v s : fold_left (epoch P) (l ++ [v]) s = epoch P (fold_left (epoch P) l s) v.
Proof. now rewrite fold_left_app. Qed.

Definition frun P l := fold_left (epoch P) l st0.

(* independent specification of "epoch e (1-based) exhausts patience": it is not a (new or tied)
   minimum of the prefix and more than P epochs passed since the first minimum of the prefix *)
Definition exhausted (P : nat) (vals : list Z) (e : nat) : bool :=
  let pre := firstn e vals in
  negb (nth (e - 1) vals 0 =? minimum pre) && (P <? e - 1 - argmin pre)%nat.

Lemma firstn_snoc_le {A} (l : list A) v k : (k <= length l)%nat -> firstn k (l ++ [v]) = firstn k l.
Proof. intros Hk. rewrite firstn_app. replace (k - length l)%nat with O by lia. cbn. apply app_nil_r. Qed.

Lemma exhausted_snoc P l v k : (1 <= k <= length l)%nat -> exhausted P (l ++ [v]) k = exhausted P l k.
Proof. intros Hk. unfold exhausted. rewrite firstn_snoc_le by lia. rewrite app_nth1 by lia. reflexivity. Qed.

Lemma exhausted_last P l v :
  exhausted P (l ++ [v]) (length (l ++ [v])) =
  negb (v =? minimum (l ++ [v])) && (P <? count_fruitless (l ++ [v]))%nat.
Proof.
  unfold exhausted, count_fruitless. rewrite firstn_all. rewrite app_length; cbn [length].
  replace (length l + 1 - 1)%nat with (length l) by lia. rewrite app_nth2, Nat.sub_diag by lia. cbn [nth].
  replace (length l + 1 - argmin (l ++ [v]) - 1)%nat with (length l - argmin (l ++ [v]))%nat by lia. reflexivity.
Qed.

Theorem frun_spec P : forall vals,
  let s := frun P vals in
  (stopped s = false -> seen s = vals /\ forall e, (1 <= e <= length vals)%nat -> exhausted P vals e = false) /\
  (stopped s = true -> exists e, (1 <= e <= length vals)%nat /\ seen s = firstn e vals /\ exhausted P vals e = true /\
                                 forall e', (1 <= e' < e)%nat -> exhausted P vals e' = false).
Proof.
  induction vals as [|v l IH] using rev_ind.
  - cbn. split; [intros _; split; [reflexivity|intros e He; lia] | discriminate].
  - cbn zeta in *. unfold frun in *. rewrite fold_snoc. destruct IH as [IHf IHt].
    set (s0 := fold_left (epoch P) l st0) in *. unfold epoch.
    destruct (stopped s0) eqn:Es.
    + split; [congruence|]. intros _. destruct (IHt eq_refl) as (e & He & Hs & Hx & Hmin).
      exists e. rewrite app_length; cbn [length]. repeat split; try lia.
      * rewrite firstn_snoc_le by lia. exact Hs.
      * rewrite exhausted_snoc by lia. exact Hx.
      * intros e' He'. rewrite exhausted_snoc by lia. apply Hmin, He'.
    + destruct (IHf eq_refl) as [Hseen Hno]. rewrite Hseen.
      pose proof (exhausted_last P l v) as Hlast.
      destruct (v =? minimum (l ++ [v])) eqn:Em; cbn [stopped seen].
      * split; [|discriminate]. intros _. split; [reflexivity|]. intros e He. rewrite app_length in He; cbn in He.
        destruct (Nat.eq_dec e (length (l ++ [v]))) as [->|Hne]; [rewrite Hlast; reflexivity|].
        rewrite app_length in Hne; cbn in Hne. rewrite exhausted_snoc by lia. apply Hno. lia.
      * destruct (P <? count_fruitless (l ++ [v]))%nat eqn:Ep.
        -- split; [discriminate|]. intros _. exists (length (l ++ [v])). rewrite firstn_all.
           repeat split; try (rewrite app_length; cbn; lia).
           ++ rewrite Hlast. reflexivity.
           ++ intros e' He'. rewrite app_length in He'; cbn in He'. rewrite exhausted_snoc by lia. apply Hno. lia.
        -- split; [|discriminate]. intros _. split; [reflexivity|]. intros e He. rewrite app_length in He; cbn in He.
           destruct (Nat.eq_dec e (length (l ++ [v]))) as [->|Hne]; [rewrite Hlast; reflexivity|].
           rewrite app_length in Hne; cbn in Hne. rewrite exhausted_snoc by lia. apply Hno. lia.
Qed.

(* bookkeeping invariant: counters agree with the list of validation losses, and the best
   parameters are those of the LAST epoch attaining the running minimum *)
Definition best_ok (sn : list Z) (b : nat) : Prop :=
  (sn = [] -> b = O) /\
  (sn <> [] -> (1 <= b <= length sn)%nat /\ nth (b - 1) sn 0 = minimum sn /\
               forall j, (b <= j < length sn)%nat -> minimum sn < nth j sn 0).

Lemma best_ok_snoc sn b v :
  best_ok sn b ->
  best_ok (sn ++ [v]) (if v =? minimum (sn ++ [v]) then S (length sn) else b).
Proof.
  intros [Hnil Hcons]. unfold best_ok. split; [intros H; destruct sn; discriminate|]. intros _.
  rewrite app_length; cbn [length].
  destruct (v =? minimum (sn ++ [v])) eqn:E.
  - apply Z.eqb_eq in E. repeat split; try lia.
    replace (S (length sn) - 1)%nat with (length sn) by lia. rewrite app_nth2, Nat.sub_diag by lia. cbn. exact E.
  - apply Z.eqb_neq in E. destruct sn as [|a t].
    + change ([] ++ [v]) with [v] in E. rewrite minimum_single in E. congruence.
    + assert (Hne : a :: t <> []) by congruence. destruct (Hcons Hne) as (Hb & Hnth & Hafter).
      rewrite minimum_snoc in * by congruence.
      assert (Hvm : minimum (a :: t) < v) by lia.
      replace (Z.min (minimum (a :: t)) v) with (minimum (a :: t)) by lia.
      repeat split; try lia.
      * rewrite app_nth1 by lia. exact Hnth.
      * intros j Hj. destruct (Nat.eq_dec j (length (a :: t))) as [->|Hne'].
        -- rewrite app_nth2, Nat.sub_diag by lia. cbn [nth]. lia.
        -- rewrite app_nth1 by lia. apply Hafter. lia.
Qed.

Lemma frun_counters P vals :
  let s := frun P vals in
  cur s = length (seen s) /\ ntrain s = length (seen s) /\ best_ok (seen s) (best s).
Proof.
  induction vals as [|v l IH] using rev_ind.
  - cbn. repeat split; try reflexivity; try congruence.
  - cbn zeta in *. unfold frun in *. rewrite fold_snoc. destruct IH as (Hc & Hn & Hb).
    set (s0 := fold_left (epoch P) l st0) in *.
    unfold epoch. destruct (stopped s0); [auto|].
    pose proof (best_ok_snoc _ _ v Hb) as Hb'. rewrite <- Hc in Hb'.
    destruct (v =? minimum (seen s0 ++ [v])); cbn [cur seen ntrain best];
      rewrite app_length; cbn [length]; (split; [lia|split; [lia|exact Hb']]).
Qed.

Lemma frun_seen_prefix P vals : seen (frun P vals) = firstn (length (seen (frun P vals))) vals.
Proof.
  destruct (frun_spec P vals) as [Hf Ht]. destruct (stopped (frun P vals)) eqn:E.
  - destruct (Ht eq_refl) as (e & He & Hs & _). rewrite Hs. rewrite firstn_length. 
    replace (Nat.min e (length vals)) with e by lia. reflexivity.
  - destruct (Hf eq_refl) as [Hs _]. rewrite Hs at 2. rewrite Hs at 1. now rewrite firstn_all.
Qed.

(* ---------- fit_to_variational_target ---------- *)
Definition vfrun l := fold_left vstep l vst0.
Lemma vfold_snoc l v s : fold_left vstep (l ++ [v]) s = vstep (fold_left vstep l s) v.
Proof. now rewrite fold_left_app. Qed.

(* parameters (counted in updates, 0-based) of the LAST step whose loss attains the minimum *)
Definition vbest_ok (sn : list Z) (b : nat) : Prop :=
  (sn = [] -> b = O) /\
  (sn <> [] -> (b < length sn)%nat /\ nth b sn 0 = minimum sn /\
               forall j, (b < j < length sn)%nat -> minimum sn < nth j sn 0).

Lemma vbest_ok_snoc sn b v :
  vbest_ok sn b -> vbest_ok (sn ++ [v]) (if v =? minimum (sn ++ [v]) then length sn else b).
Proof.
  intros [Hnil Hcons]. unfold vbest_ok. split; [intros H; destruct sn; discriminate|]. intros _.
  rewrite app_length; cbn [length].
  destruct (v =? minimum (sn ++ [v])) eqn:E.
  - apply Z.eqb_eq in E. repeat split; try lia.
    rewrite app_nth2, Nat.sub_diag by lia. cbn. exact E.
  - apply Z.eqb_neq in E. destruct sn as [|a t].
    + change ([] ++ [v]) with [v] in E. rewrite minimum_single in E. congruence.
    + assert (Hne : a :: t <> []) by congruence. destruct (Hcons Hne) as (Hb & Hnth & Hafter).
      rewrite minimum_snoc in * by congruence.
      assert (Hvm : minimum (a :: t) < v) by lia.
      replace (Z.min (minimum (a :: t)) v) with (minimum (a :: t)) by lia.
      repeat split; try lia.
      * rewrite app_nth1 by lia. exact Hnth.
      * intros j Hj. destruct (Nat.eq_dec j (length (a :: t))) as [->|Hne'].
        -- rewrite app_nth2, Nat.sub_diag by lia. cbn [nth]. lia.
        -- rewrite app_nth1 by lia. apply Hafter. lia.
Qed.

Lemma vfrun_inv l : let s := vfrun l in vseen s = l /\ vcur s = length l /\ vbest_ok l (vbest s).
Proof.
  induction l as [|v l IH] using rev_ind.
  - cbn. repeat split; try reflexivity; congruence.
  - cbn zeta in *. unfold vfrun in *. rewrite vfold_snoc. destruct IH as (Hs & Hc & Hb).
    set (s0 := fold_left vstep l vst0) in *.
    unfold vstep. cbn [vseen vcur vbest]. rewrite Hs, Hc, app_length. cbn [length]. 
    split; [reflexivity|split; [lia|]]. apply vbest_ok_snoc. exact Hb.
Qed.

(* a strict minimum is attained at exactly one index: for distinct losses "last minimum" = argmin *)
Lemma last_min_is_argmin l b : NoDup l -> l <> [] -> (b < length l)%nat -> nth b l 0 = minimum l -> b = argmin l.
Proof.
  intros Hnd Hne Hb Hnth. destruct (argmin_spec l Hne) as (Ha & Hnth' & _).
  rewrite NoDup_nth with (d := 0) in Hnd. apply Hnd; [lia|lia|congruence].
Qed.

(* ---------- statements in terms of the public entry points ---------- *)
Lemma In_firstn_in {A} k (l : list A) x : In x (firstn k l) -> In x l.
Proof. revert k; induction l as [|a l IH]; intros k; destruct k; cbn; intuition eauto. Qed.
Lemma NoDup_firstn {A} (l : list A) k : NoDup l -> NoDup (firstn k l).
Proof.
  revert k. induction l as [|a l IH]; intros k H; destruct k; cbn; try constructor.
  - inversion H as [|? ? Hn Hd]; subst. intros Hin. apply Hn. eapply (In_firstn_in k). exact Hin.
  - inversion H; subst. now apply IH.
Qed.

Lemma run_is_frun P vals m : run P vals m = frun P (firstn m vals).
Proof. reflexivity. Qed.

Lemma exhausted_distinct P vals e : (1 <= e <= length vals)%nat -> NoDup (firstn e vals) ->
  exhausted P vals e = (P <? e - 1 - argmin (firstn e vals))%nat.
Proof.
  intros He Hnd. unfold exhausted. cbn zeta.
  set (pre := firstn e vals) in *.
  assert (Hlen : length pre = e) by (unfold pre; rewrite firstn_length; lia).
  assert (Hne : pre <> []) by (intros H; rewrite H in Hlen; cbn in Hlen; lia).
  assert (Hnth : nth (e - 1) vals 0 = nth (e - 1) pre 0).
  { unfold pre. rewrite <- (firstn_skipn e vals) at 1. rewrite app_nth1; [reflexivity|]. fold pre. lia. }
  rewrite Hnth.
  destruct (nth (e - 1) pre 0 =? minimum pre) eqn:E; cbn [negb andb]; [|reflexivity].
  apply Z.eqb_eq in E. apply last_min_is_argmin in E; [|assumption|assumption|lia].
  rewrite <- E. symmetry. apply Nat.ltb_ge. lia.
Qed.

Theorem data_epochs_le_max P vals m rb :
  let r := fit_data_loop P vals m rb in (snd (snd r) <= m)%nat /\ fst (snd r) = snd (snd r).
Proof.
  unfold fit_data_loop. cbn [fst snd]. rewrite run_is_frun.
  destruct (frun_counters P (firstn m vals)) as (_ & Hn & _).
  pose proof (frun_seen_prefix P (firstn m vals)) as Hp.
  split; [|exact Hn].
  rewrite Hp. rewrite firstn_length. pose proof (firstn_le_length m vals). lia.
Qed.

Theorem data_stop_rule P vals m :
  let avail := firstn m vals in
  let n := length (seen (run P vals m)) in
  (n <= length avail)%nat /\ seen (run P vals m) = firstn n avail /\
  (forall e, (1 <= e < n)%nat -> exhausted P avail e = false) /\
  ((n < length avail)%nat -> (1 <= n)%nat /\ exhausted P avail n = true).
Proof.
  cbn zeta. rewrite run_is_frun. set (avail := firstn m vals).
  destruct (frun_spec P avail) as [Hf Ht]. destruct (stopped (frun P avail)) eqn:E.
  - destruct (Ht eq_refl) as (e & He & Hs & Hx & Hmin). rewrite Hs. rewrite firstn_length.
    replace (Nat.min e (length avail)) with e by lia. repeat split; try lia; auto.
  - destruct (Hf eq_refl) as [Hs Hno]. rewrite Hs. repeat split; try lia.
    + now rewrite firstn_all.
    + intros e He. apply Hno. lia.
Qed.

Theorem data_returned_params P vals m rb :
  let s := run P vals m in
  fst (fit_data_loop P vals m rb) = (if rb then best s else length (seen s)) /\ best_ok (seen s) (best s).
Proof.
  cbn zeta. unfold fit_data_loop. cbn [fst]. rewrite run_is_frun.
  destruct (frun_counters P (firstn m vals)) as (Hc & _ & Hb). rewrite Hc. split; [reflexivity|exact Hb].
Qed.

Corollary data_returns_argmin_distinct P vals m : NoDup vals ->
  let s := run P vals m in
  fst (fit_data_loop P vals m true) = match seen s with [] => O | _ => S (argmin (seen s)) end.
Proof.
  intros Hnd. cbn zeta. destruct (data_returned_params P vals m true) as [-> [Hnil Hcons]].
  destruct (seen (run P vals m)) eqn:Es; [now apply Hnil|].
  destruct Hcons as (Hb & Hnth & _); [congruence|].
  assert (Hnd' : NoDup (z :: l)).
  { rewrite <- Es. rewrite run_is_frun. rewrite frun_seen_prefix. now do 2 apply NoDup_firstn. }
  apply last_min_is_argmin in Hnth; try assumption; try congruence; lia.
Qed.

Theorem var_steps_and_losses losses steps rb : (steps <= length losses)%nat ->
  snd (fit_var_loop losses steps rb) = steps /\ vseen (vrun losses steps) = firstn steps losses.
Proof.
  intros H. unfold fit_var_loop. cbn [snd]. destruct (vfrun_inv (firstn steps losses)) as (Hs & _ & _).
  unfold vrun. unfold vfrun in Hs. rewrite Hs. split; [|reflexivity]. rewrite firstn_length. lia.
Qed.

Theorem var_returned_params losses steps rb :
  let s := vrun losses steps in
  fst (fit_var_loop losses steps rb) = (if rb then vbest s else length (firstn steps losses)) /\
  vbest_ok (firstn steps losses) (vbest s).
Proof.
  cbn zeta. unfold fit_var_loop. cbn [fst]. destruct (vfrun_inv (firstn steps losses)) as (_ & Hc & Hb).
  unfold vrun. unfold vfrun in *. rewrite Hc. split; [reflexivity|exact Hb].
Qed.

Corollary var_returns_argmin_distinct losses steps : NoDup losses -> (1 <= steps)%nat -> losses <> [] ->
  fst (fit_var_loop losses steps true) = argmin (firstn steps losses).
Proof.
  intros Hnd Hs Hne. destruct (var_returned_params losses steps true) as [-> [_ Hcons]].
  assert (Hne' : firstn steps losses <> []).
  { destruct losses; [congruence|]. destruct steps; [lia|]. cbn. congruence. }
  destruct (Hcons Hne') as (Hb & Hnth & _).
  apply last_min_is_argmin; try assumption.
  now apply NoDup_firstn.
Qed.

(* the unrepaired loop (D5) returned the parameters one update AFTER the minimum *)
Lemma variational_best_old_refuted :
  exists losses steps, NoDup losses /\ fst (fit_var_loop_old losses steps true) <> argmin (firstn steps losses).
Proof. exists [1;4;16;64], 4%nat. split; [repeat constructor; cbn; intuition lia| vm_compute; lia]. Qed.
