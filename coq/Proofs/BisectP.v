(* Lemmas about Model/Bisect.v at the real numbers.
   Float rounding / resolution is NOT modelled: every statement is about exact real arithmetic. *)
From Coq Require Import Reals List ZArith Bool Lra Lia Psatz QArith Qabs Qreduction Qreals.
From FJ Require Import Model.Bisect Proofs.RNum.
Import ListNotations.
Open Scope R_scope.

Definition RF : FldOps R := {|
  bo_add := Rplus; bo_sub := Rminus; bo_mul := Rmult; bo_div := Rdiv;
  bo_abs := Rabs; bo_leb := Rleb; bo_ltb := Rltb; bo_ofZ := IZR |}.

Lemma sgn_pos v : 0 < v -> sgn RF v = 1%Z.
Proof. intros H. unfold sgn, zero; cbn. rewrite (proj2 (Rltb_true 0 v) H). reflexivity. Qed.
Lemma sgn_neg v : v < 0 -> sgn RF v = (-1)%Z.
Proof.
  intros H. unfold sgn, zero; cbn.
  destruct (Rltb 0 v) eqn:E; [apply Rltb_true in E; lra|].
  rewrite (proj2 (Rltb_true v 0) H). reflexivity.
Qed.
Lemma sgn_zero : sgn RF 0 = 0%Z.
Proof.
  unfold sgn, zero; cbn. destruct (Rltb 0 0) eqn:E; [apply Rltb_true in E; lra|]. reflexivity.
Qed.

Section Scalar.
  Variable f : R -> R.
  Variable r : R.
  Hypothesis f_root : f r = 0.
  Hypothesis f_incr : forall x y, x < y -> f x < f y.

  Lemma sgn_f_lt x : x < r -> sgn RF (f x) = (-1)%Z.
  Proof. intros H. apply sgn_neg. pose proof (f_incr _ _ H). lra. Qed.
  Lemma sgn_f_gt x : r < x -> sgn RF (f x) = 1%Z.
  Proof. intros H. apply sgn_pos. pose proof (f_incr _ _ H). lra. Qed.
  Lemma sgn_f_eq : sgn RF (f r) = 0%Z.
  Proof. rewrite f_root. apply sgn_zero. Qed.

  Lemma f_le x : x <= r -> f x <= 0.
  Proof. intros [H|H]; [pose proof (f_incr _ _ H); lra | subst; lra]. Qed.
  Lemma f_ge x : r <= x -> 0 <= f x.
  Proof. intros [H|H]; [pose proof (f_incr _ _ H); lra | subst; lra]. Qed.

  (* ------------------------------------------------------------------ adaptation *)
  (* root above the interval: after k iterations lower = previous upper, upper = up + e (2^k - 1) *)
  Lemma adapt_loop_above : forall N lo up e it, lo < up -> 0 < e -> up < r ->
    r <= up + e * (2 ^ N - 1) ->
    exists l u n, (1 <= n <= N)%nat /\ up <= l /\ l < r <= u /\ u - l < r - up + e /\
      forall fuel, (N <= fuel)%nat ->
        adapt_loop RF f fuel lo up e (-1) (-1) it = Some (l, u, (-1)%Z, sgn RF (f u), (it + n)%nat).
  Proof.
    induction N as [|k IH]; intros lo up e it Hlu He Hur Hreach.
    - cbn in Hreach. lra.
    - destruct (Rlt_le_dec (up + e) r) as [Hlt|Hge].
      + destruct (IH up (up + e) (e * 2) (S it)) as (l & u & n & Hn & Hl & Hb & Hw & Hrun); try lra.
        { replace (up + e + e * 2 * (2 ^ k - 1)) with (up + e * (2 ^ S k - 1)) by (cbn [pow]; ring). exact Hreach. }
        exists l, u, (S n). repeat split; try lia; try lra.
        intros fuel Hf. destruct fuel as [|fuel]; [lia|].
        cbn [adapt_loop Z.eqb Pos.eqb]. cbn [bo_add bo_sub bo_mul RF two bo_ofZ].
        rewrite (sgn_f_lt up), (sgn_f_lt (up + e)) by lra.
        rewrite Hrun by lia. do 2 f_equal. lia.
      + exists up, (up + e), 1%nat. repeat split; try lia; try lra.
        intros fuel Hf. destruct fuel as [|fuel]; [lia|].
        cbn [adapt_loop Z.eqb Pos.eqb]. cbn [bo_add bo_sub bo_mul RF two bo_ofZ].
        rewrite (sgn_f_lt up) by lra.
        assert (Hs : sgn RF (f (up + e)) <> (-1)%Z).
        { destruct Hge as [Hgt|Heq]; [rewrite sgn_f_gt by lra; discriminate | rewrite <- Heq, sgn_f_eq; discriminate]. }
        destruct fuel as [|fuel]; cbn [adapt_loop];
          (destruct (Z.eqb (-1) (sgn RF (f (up + e)))) eqn:E; [apply Z.eqb_eq in E; congruence|]);
          do 2 f_equal; lia.
  Qed.

  (* root below the interval: upper = previous lower, lower = lo - e (2^k - 1) *)
  Lemma adapt_loop_below : forall N lo up e it, lo < up -> 0 < e -> r < lo ->
    lo - e * (2 ^ N - 1) <= r ->
    exists l u n, (1 <= n <= N)%nat /\ u <= lo /\ l <= r < u /\ u - l < lo - r + e /\
      forall fuel, (N <= fuel)%nat ->
        adapt_loop RF f fuel lo up e 1 1 it = Some (l, u, sgn RF (f l), 1%Z, (it + n)%nat).
  Proof.
    induction N as [|k IH]; intros lo up e it Hlu He Hur Hreach.
    - cbn in Hreach. lra.
    - destruct (Rlt_le_dec r (lo - e)) as [Hlt|Hge].
      + destruct (IH (lo - e) lo (e * 2) (S it)) as (l & u & n & Hn & Hl & Hb & Hw & Hrun); try lra.
        { replace (lo - e - e * 2 * (2 ^ k - 1)) with (lo - e * (2 ^ S k - 1)) by (cbn [pow]; ring). exact Hreach. }
        exists l, u, (S n). repeat split; try lia; try lra.
        intros fuel Hf. destruct fuel as [|fuel]; [lia|].
        cbn [adapt_loop Z.eqb Pos.eqb]. cbn [bo_add bo_sub bo_mul RF two bo_ofZ].
        rewrite (sgn_f_gt lo), (sgn_f_gt (lo - e)) by lra.
        rewrite Hrun by lia. do 2 f_equal. lia.
      + exists (lo - e), lo, 1%nat. repeat split; try lia; try lra.
        intros fuel Hf. destruct fuel as [|fuel]; [lia|].
        cbn [adapt_loop Z.eqb Pos.eqb]. cbn [bo_add bo_sub bo_mul RF two bo_ofZ].
        rewrite (sgn_f_gt lo) by lra.
        assert (Hs : sgn RF (f (lo - e)) <> 1%Z).
        { destruct Hge as [Hgt|Heq]; [rewrite sgn_f_lt by lra; discriminate | rewrite Heq, sgn_f_eq; discriminate]. }
        destruct fuel as [|fuel]; cbn [adapt_loop];
          (destruct (Z.eqb (sgn RF (f (lo - e))) 1) eqn:E; [apply Z.eqb_eq in E; congruence|]);
          do 2 f_equal; lia.
  Qed.

  Lemma sgn_f_zero_iff x : sgn RF (f x) = 0%Z <-> x = r.
  Proof.
    split; [|intros ->; apply sgn_f_eq].
    intros H. destruct (Rtotal_order x r) as [Hl|[He|Hg]]; [|exact He|].
    - rewrite sgn_f_lt in H by exact Hl. discriminate.
    - rewrite sgn_f_gt in H by exact Hg. discriminate.
  Qed.

  Definition width0 (lo up : R) : R := Rmax (up - lo) (Rmax (r - lo) (up - r)).

  (* The adaptation with an EXPLICIT fuel bound: any N with
       max(r - up, lo - r) / (up - lo) + 1 <= 2^N
     iterations of fuel suffice, wherever the root lies. *)
  Lemma adapt_fuel_bound : forall lo up N, lo < up ->
    Rmax (r - up) (lo - r) / (up - lo) + 1 <= 2 ^ N ->
    exists l u n, (n <= N)%nat /\ l <= r <= u /\ f l <= 0 <= f u /\ (l = u \/ l < u) /\
      u - l <= width0 lo up /\ (n = O <-> lo <= r <= up) /\
      forall fuel, (N <= fuel)%nat -> adapt RF f lo up fuel = Some (l, u, n).
  Proof.
    intros lo up N Hlu HN.
    assert (Hw : 0 < up - lo) by lra.
    assert (Hreach : Rmax (r - up) (lo - r) <= (up - lo) * (2 ^ N - 1)).
    { apply Rmult_le_compat_l with (r := up - lo) in HN; [|lra].
      unfold Rdiv in HN. rewrite Rmult_plus_distr_l in HN.
      replace ((up - lo) * (Rmax (r - up) (lo - r) * / (up - lo))) with (Rmax (r - up) (lo - r)) in HN by (field; lra).
      lra. }
    pose proof (Rmax_l (r - up) (lo - r)) as M1. pose proof (Rmax_r (r - up) (lo - r)) as M2.
    unfold width0.
    pose proof (Rmax_l (up - lo) (Rmax (r - lo) (up - r))) as W1.
    pose proof (Rmax_r (up - lo) (Rmax (r - lo) (up - r))) as W2.
    pose proof (Rmax_l (r - lo) (up - r)) as W3. pose proof (Rmax_r (r - lo) (up - r)) as W4.
    destruct (Rtotal_order r lo) as [Hb|[He|Ha]].
    - (* root below *)
      destruct (adapt_loop_below N lo up (up - lo) O Hlu Hw Hb) as (l & u & n & Hn & Hl & Hbk & Hwd & Hrun); [lra|].
      destruct (Req_dec l r) as [Hlr|Hlr].
      + exists r, r, n. repeat split; try lia; try lra.
        intros fuel Hf. unfold adapt. cbn [bo_sub RF].
        rewrite (sgn_f_gt lo), (sgn_f_gt up) by lra. rewrite Hrun by exact Hf.
        rewrite Hlr, sgn_f_eq. cbn. reflexivity.
      + exists l, u, n. repeat split; try lia; try lra; try (apply f_le; lra); try (apply f_ge; lra).
        intros fuel Hf. unfold adapt. cbn [bo_sub RF].
        rewrite (sgn_f_gt lo), (sgn_f_gt up) by lra. rewrite Hrun by exact Hf.
        rewrite (sgn_f_lt l) by lra. cbn. reflexivity.
    - (* root on the lower end *)
      subst lo. exists r, r, O. repeat split; try lia; try lra.
      intros fuel _. unfold adapt. cbn [bo_sub RF].
      rewrite sgn_f_eq, (sgn_f_gt up) by lra.
      destruct fuel; cbn; reflexivity.
    - destruct (Rtotal_order r up) as [Hi|[He|Ha']].
      + (* strictly inside *)
        exists lo, up, O. repeat split; try lia; try lra; try (apply f_le; lra); try (apply f_ge; lra).
        intros fuel _. unfold adapt. cbn [bo_sub RF].
        rewrite (sgn_f_lt lo), (sgn_f_gt up) by lra.
        destruct fuel; cbn; reflexivity.
      + (* root on the upper end *)
        subst up. exists r, r, O. repeat split; try lia; try lra.
        intros fuel _. unfold adapt. cbn [bo_sub RF].
        rewrite sgn_f_eq, (sgn_f_lt lo) by lra.
        destruct fuel; cbn; reflexivity.
      + (* root above *)
        destruct (adapt_loop_above N lo up (up - lo) O Hlu Hw Ha') as (l & u & n & Hn & Hl & Hbk & Hwd & Hrun); [lra|].
        destruct (Req_dec u r) as [Hur|Hur].
        * exists r, r, n. repeat split; try lia; try lra.
          intros fuel Hf. unfold adapt. cbn [bo_sub RF].
          rewrite (sgn_f_lt lo), (sgn_f_lt up) by lra. rewrite Hrun by exact Hf.
          rewrite Hur, sgn_f_eq. cbn. reflexivity.
        * exists l, u, n. repeat split; try lia; try lra; try (apply f_le; lra); try (apply f_ge; lra).
          intros fuel Hf. unfold adapt. cbn [bo_sub RF].
          rewrite (sgn_f_lt lo), (sgn_f_lt up) by lra. rewrite Hrun by exact Hf.
          rewrite (sgn_f_gt u) by lra. cbn. reflexivity.
  Qed.

  (* enough fuel always exists (Archimedean) *)
  Lemma pow2_unbounded (b : R) : exists N : nat, b <= 2 ^ N.
  Proof.
    destruct (Pow_x_infinity 2 ltac:(rewrite Rabs_right; lra) b) as [N HN].
    exists N. specialize (HN N (Nat.le_refl _)).
    rewrite Rabs_right in HN by (apply Rle_ge, pow_le; lra). lra.
  Qed.

  Lemma adapt_terminates : forall lo up, lo < up ->
    exists N l u n, (n <= N)%nat /\ l <= r <= u /\ f l <= 0 <= f u /\ (l = u \/ l < u) /\
      u - l <= width0 lo up /\ (n = O <-> lo <= r <= up) /\
      forall fuel, (N <= fuel)%nat -> adapt RF f lo up fuel = Some (l, u, n).
  Proof.
    intros lo up Hlu.
    destruct (pow2_unbounded (Rmax (r - up) (lo - r) / (up - lo) + 1)) as [N HN].
    exists N. apply adapt_fuel_bound; assumption.
  Qed.

  (* ------------------------------------------------------------------ bisection *)
  Lemma bisect_loop_spec : forall tol rem l u it, 0 < tol -> l <= r <= u ->
    exists l' u' k, bisect_loop RF f tol rem l u it = (l', u', (it + k)%nat) /\
      (k <= rem)%nat /\ l <= l' /\ u' <= u /\ l' <= r <= u' /\
      u' - l' <= (u - l) / 2 ^ k /\ (u' - l' <= 2 * tol \/ k = rem).
  Proof.
    intros tol rem. induction rem as [|rem IH]; intros l u it Htol Hb.
    - exists l, u, O. cbn [bisect_loop]. rewrite Nat.add_0_r.
      split; [reflexivity|]. split; [lia|]. split; [lra|]. split; [lra|]. split; [lra|].
      split; [cbn; lra | right; reflexivity].
    - cbn [bisect_loop]. cbn [bo_ltb bo_mul bo_sub bo_add bo_div RF two bo_ofZ].
      destruct (Rltb (2 * tol) (u - l)) eqn:E.
      + apply Rltb_true in E.
        set (mid := (l + u) / 2).
        assert (Hm : l < mid < u) by (unfold mid; lra).
        destruct (Rtotal_order mid r) as [Hlt|[Heq|Hgt]].
        * (* f mid < 0 : lower := mid *)
          rewrite (sgn_f_lt mid) by exact Hlt. cbn [Z.eqb].
          destruct (IH mid u (S it) Htol) as (l' & u' & k & Hrun & Hk & Hl & Hu & Hbr & Hw & Hex); [lra|].
          exists l', u', (S k). rewrite Hrun.
          split; [f_equal; lia|]. split; [lia|]. split; [lra|]. split; [lra|]. split; [lra|]. split.
          -- cbn [pow]. replace ((u - l) / (2 * 2 ^ k)) with ((u - mid) / 2 ^ k); [exact Hw|].
             unfold mid. field. apply pow_nonzero. lra.
          -- destruct Hex as [Hex|Hex]; [left; exact Hex | right; lia].
        * (* exact hit *)
          rewrite Heq, sgn_f_eq. cbn [Z.eqb].
          destruct (IH r r (S it) Htol) as (l' & u' & k & Hrun & Hk & Hl & Hu & Hbr & Hw & Hex); [lra|].
          exists l', u', (S k). rewrite Hrun.
          split; [f_equal; lia|]. split; [lia|]. split; [lra|]. split; [lra|]. split; [lra|]. split.
          -- assert (0 < (u - l) / 2 ^ S k).
             { apply Rdiv_lt_0_compat; [lra|]. apply pow_lt; lra. }
             lra.
          -- destruct Hex as [Hex|Hex]; [left; exact Hex | right; lia].
        * (* f mid > 0 : upper := mid *)
          rewrite (sgn_f_gt mid) by exact Hgt. cbn [Z.eqb Pos.eqb].
          destruct (IH l mid (S it) Htol) as (l' & u' & k & Hrun & Hk & Hl & Hu & Hbr & Hw & Hex); [lra|].
          exists l', u', (S k). rewrite Hrun.
          split; [f_equal; lia|]. split; [lia|]. split; [lra|]. split; [lra|]. split; [lra|]. split.
          -- cbn [pow]. replace ((u - l) / (2 * 2 ^ k)) with ((mid - l) / 2 ^ k); [exact Hw|].
             unfold mid. field. apply pow_nonzero. lra.
          -- destruct Hex as [Hex|Hex]; [left; exact Hex | right; lia].
      + apply Rltb_false in E.
        exists l, u, O. rewrite Nat.add_0_r.
        split; [reflexivity|]. split; [lia|]. split; [lra|]. split; [lra|]. split; [lra|].
        split; [cbn; lra | left; lra].
  Qed.

  (* ------------------------------------------------------------------ the whole search *)
  (* whatever max_iter: terminates, root within max tol (W / 2^(max_iter+1)) of r,
     W <= max (up-lo) (r-lo) (up-r) the width after the adaptation *)
  Lemma search_spec : forall lo up tol max_iter N, lo < up -> 0 < tol ->
    Rmax (r - up) (lo - r) / (up - lo) + 1 <= 2 ^ N ->
    exists root ai it, (ai <= N)%nat /\ (it <= max_iter)%nat /\ (ai = O <-> lo <= r <= up) /\
      (Rabs (root - r) <= tol \/ (it = max_iter /\ Rabs (root - r) <= width0 lo up / 2 ^ (S max_iter))) /\
      Rabs (root - r) <= width0 lo up / 2 ^ (S it) /\
      forall fuel, (N <= fuel)%nat -> search RF f lo up tol max_iter fuel = Some (root, ai, it).
  Proof.
    intros lo up tol max_iter N Hlu Htol HN.
    destruct (adapt_fuel_bound lo up N Hlu HN) as (l & u & n & Hn & Hb & _ & _ & Hw & Hn0 & Hrun).
    destruct (bisect_loop_spec tol max_iter l u O Htol Hb) as (l' & u' & k & Hbis & Hk & _ & _ & Hb' & Hw' & Hex).
    exists ((l' + u') / 2), n, k.
    assert (Hp : 0 < 2 ^ k) by (apply pow_lt; lra).
    assert (Hhalf : Rabs ((l' + u') / 2 - r) <= (u' - l') / 2).
    { apply Rabs_le. lra. }
    assert (Hdiv : (u - l) / 2 ^ k <= width0 lo up / 2 ^ k).
    { unfold Rdiv. apply Rmult_le_compat_r; [left; apply Rinv_0_lt_compat; exact Hp | exact Hw]. }
    assert (Hfin : Rabs ((l' + u') / 2 - r) <= width0 lo up / 2 ^ S k).
    { cbn [pow]. replace (width0 lo up / (2 * 2 ^ k)) with (width0 lo up / 2 ^ k / 2) by (field; lra). lra. }
    split; [exact Hn|]. split; [exact Hk|]. split; [exact Hn0|]. split; [|split; [exact Hfin|]].
    - destruct Hex as [Hex|Hex]; [left; lra | right; split; [exact Hex | subst k; exact Hfin]].
    - intros fuel Hf. unfold search. rewrite Hrun by exact Hf. rewrite Hbis. cbn. reflexivity.
  Qed.

  Lemma search_terminates_any_iter : forall lo up tol max_iter, lo < up -> 0 < tol ->
    exists N root ai it, (ai <= N)%nat /\ (it <= max_iter)%nat /\
      Rabs (root - r) <= Rmax tol (width0 lo up / 2 ^ (S max_iter)) /\
      forall fuel, (N <= fuel)%nat -> search RF f lo up tol max_iter fuel = Some (root, ai, it).
  Proof.
    intros lo up tol max_iter Hlu Htol.
    destruct (pow2_unbounded (Rmax (r - up) (lo - r) / (up - lo) + 1)) as [N HN].
    destruct (search_spec lo up tol max_iter N Hlu Htol HN) as (root & ai & it & H1 & H2 & _ & H3 & _ & H4).
    exists N, root, ai, it. repeat split; try assumption.
    destruct H3 as [H3|[_ H3]].
    - eapply Rle_trans; [exact H3 | apply Rmax_l].
    - eapply Rle_trans; [exact H3 | apply Rmax_r].
  Qed.

  (* max_iter large enough: within tol *)
  Lemma search_within_tol : forall lo up tol max_iter, lo < up -> 0 < tol ->
    width0 lo up <= 2 * tol * 2 ^ max_iter ->
    exists N root ai it, (ai <= N)%nat /\ (it <= max_iter)%nat /\ Rabs (root - r) <= tol /\
      forall fuel, (N <= fuel)%nat -> search RF f lo up tol max_iter fuel = Some (root, ai, it).
  Proof.
    intros lo up tol max_iter Hlu Htol Hbig.
    destruct (pow2_unbounded (Rmax (r - up) (lo - r) / (up - lo) + 1)) as [N HN].
    destruct (search_spec lo up tol max_iter N Hlu Htol HN) as (root & ai & it & H1 & H2 & _ & H3 & _ & H4).
    exists N, root, ai, it. repeat split; try assumption.
    destruct H3 as [H3|[_ H3]]; [exact H3|].
    eapply Rle_trans; [exact H3|].
    assert (Hp : 0 < 2 ^ max_iter) by (apply pow_lt; lra).
    cbn [pow]. apply Rmult_le_reg_r with (r := 2 * 2 ^ max_iter); [lra|].
    unfold Rdiv. rewrite Rmult_assoc, Rinv_l by lra. lra.
  Qed.
End Scalar.

(* ------------------------------------------------------------------ no root: never terminates *)
Lemma adapt_loop_no_root_neg : forall (f : R -> R), (forall x, f x < 0) ->
  forall fuel lo up e it, adapt_loop RF f fuel lo up e (-1) (-1) it = None.
Proof.
  intros f Hneg. induction fuel as [|k IH]; intros lo up e it; cbn [adapt_loop Z.eqb Pos.eqb]; [reflexivity|].
  rewrite !sgn_neg by apply Hneg. apply IH.
Qed.

Lemma adapt_needs_root : forall (f : R -> R), (forall x, f x < 0) ->
  forall lo up fuel, adapt RF f lo up fuel = None.
Proof.
  intros f Hneg lo up fuel. unfold adapt. rewrite !sgn_neg by apply Hneg.
  rewrite adapt_loop_no_root_neg by exact Hneg. reflexivity.
Qed.

Lemma adapt_loop_no_root_pos : forall (f : R -> R), (forall x, 0 < f x) ->
  forall fuel lo up e it, adapt_loop RF f fuel lo up e 1 1 it = None.
Proof.
  intros f Hpos. induction fuel as [|k IH]; intros lo up e it; cbn [adapt_loop Z.eqb Pos.eqb]; [reflexivity|].
  rewrite !sgn_pos by apply Hpos. apply IH.
Qed.

Lemma adapt_needs_root_pos : forall (f : R -> R), (forall x, 0 < f x) ->
  forall lo up fuel, adapt RF f lo up fuel = None.
Proof.
  intros f Hpos lo up fuel. unfold adapt. rewrite !sgn_pos by apply Hpos.
  rewrite adapt_loop_no_root_pos by exact Hpos. reflexivity.
Qed.

Lemma search_needs_root : forall (f : R -> R), (forall x, f x < 0) ->
  forall lo up tol max_iter fuel, search RF f lo up tol max_iter fuel = None.
Proof. intros f H lo up tol mi fuel. unfold search. rewrite adapt_needs_root by exact H. reflexivity. Qed.

(* ---------------------------------------------------------------- existence of the root: IVT *)
Lemma root_exists_ivt : forall (f : R -> R) a b, continuity f -> a <= b -> f a <= 0 <= f b ->
  exists r, a <= r <= b /\ f r = 0.
Proof.
  intros f a b Hc Hab [Ha Hb].
  destruct (IVT_cor f a b Hc Hab) as [z [Hz Hfz]]; [nra|].
  exists z. split; assumption.
Qed.

(* a lower slope bound m > 0 makes a continuous function cross zero *)
Lemma root_exists_slope : forall (f : R -> R) m, continuity f -> 0 < m ->
  (forall s t, s <= t -> m * (t - s) <= f t - f s) -> exists r, f r = 0.
Proof.
  intros f m Hc Hm Hs.
  set (a := - (Rabs (f 0) / m) - 1). set (b := Rabs (f 0) / m + 1).
  assert (Hq : 0 <= Rabs (f 0) / m) by (apply Rmult_le_pos; [apply Rabs_pos | left; apply Rinv_0_lt_compat; exact Hm]).
  assert (Hmq : m * (Rabs (f 0) / m) = Rabs (f 0)) by (field; lra).
  pose proof (Rle_abs (f 0)) as A1. pose proof (Rle_abs (- f 0)) as A2. rewrite Rabs_Ropp in A2.
  destruct (root_exists_ivt f a b Hc) as [r [_ Hr]].
  - unfold a, b; lra.
  - split.
    + pose proof (Hs a 0 ltac:(unfold a; lra)) as H. unfold a in *. nra.
    + pose proof (Hs 0 b ltac:(unfold b; lra)) as H. unfold b in *. nra.
  - exists r; exact Hr.
Qed.

(* ---------------------------------------------------------------- list facts about y.at[i].set(x) *)
Lemma upd_length {A} (l : list A) i x : length (upd l i x) = length l.
Proof. revert i; induction l as [|h t IH]; intros [|i]; cbn; try reflexivity. f_equal; apply IH. Qed.

Lemma upd_firstn {A} (l : list A) i x : firstn i (upd l i x) = firstn i l.
Proof. revert i; induction l as [|h t IH]; intros [|i]; cbn; try reflexivity. f_equal; apply IH. Qed.

Lemma upd_nth_eq {A} (l : list A) i x d : (i < length l)%nat -> nth i (upd l i x) d = x.
Proof. revert i; induction l as [|h t IH]; intros [|i] H; cbn in *; try lia; try reflexivity. apply IH; lia. Qed.

Lemma upd_nth_same {A} (l : list A) i d : (i < length l)%nat -> upd l i (nth i l d) = l.
Proof. revert i; induction l as [|h t IH]; intros [|i] H; cbn in *; try lia; try reflexivity. f_equal; apply IH; lia. Qed.

Lemma firstn_S_inv {A} (l l' : list A) i d : (i < length l)%nat -> (i < length l')%nat ->
  firstn (S i) l = firstn (S i) l' -> firstn i l = firstn i l' /\ nth i l d = nth i l' d.
Proof.
  revert l' i; induction l as [|h t IH]; intros [|h' t'] i H H' E; cbn in *; try lia.
  injection E as Eh Et. subst h'. destruct i as [|i].
  - split; reflexivity.
  - destruct (IH t' i ltac:(lia) ltac:(lia) Et) as [E1 E2]. split; [cbn; f_equal; exact E1 | exact E2].
Qed.

Lemma firstn_le_eq {A} (l l' : list A) i j : (j <= i)%nat -> firstn i l = firstn i l' -> firstn j l = firstn j l'.
Proof.
  intros Hj E. replace j with (Nat.min j i) by lia. rewrite <- !firstn_firstn. rewrite E. reflexivity.
Qed.

Lemma nth_firstn_eq {A} (l l' : list A) i j d : (j < i)%nat -> firstn i l = firstn i l' -> nth j l d = nth j l' d.
Proof.
  revert l l' j; induction i as [|i IH]; intros l l' j Hj E; [lia|].
  destruct l as [|h t], l' as [|h' t']; cbn in E; try discriminate.
  - reflexivity.
  - injection E as Eh Et. subst h'. destruct j as [|j]; [reflexivity|]. cbn. apply IH; [lia | exact Et].
Qed.

(* sum_{k<j} |y_k - y'_k| *)
Fixpoint sumdiff (j : nat) (y y' : list R) : R :=
  match j with O => 0 | S k => sumdiff k y y' + Rabs (nth k y 0 - nth k y' 0) end.

Lemma sumdiff_nonneg j y y' : 0 <= sumdiff j y y'.
Proof. induction j as [|j IH]; cbn; [lra|]. pose proof (Rabs_pos (nth j y 0 - nth j y' 0)). lra. Qed.

Lemma sumdiff_firstn j y y' : firstn j y = firstn j y' -> sumdiff j y y' = 0.
Proof.
  induction j as [|j IH]; intros E; cbn; [reflexivity|].
  rewrite IH by (apply (firstn_le_eq y y' (S j) j); [lia | exact E]).
  rewrite (nth_firstn_eq y y' (S j) j 0) by (try lia; exact E).
  rewrite Rminus_diag_eq by reflexivity. rewrite Rabs_R0. lra.
Qed.

(* geometric sum: c * sum_{k<j} (1+c)^k = (1+c)^j - 1 *)
Fixpoint geo (c : R) (j : nat) : R := match j with O => 0 | S k => geo c k + (1 + c) ^ k end.
Lemma geo_closed c j : c * geo c j = (1 + c) ^ j - 1.
Proof. induction j as [|j IH]; cbn [geo pow]; [ring|]. rewrite Rmult_plus_distr_l, IH. ring. Qed.

Section Autoreg.
  Variable F : list R -> list R.
  Variable n : nat.
  Variables lo up tol : R.
  Variable max_iter : nat.
  Hypothesis Hlu : lo < up.
  Hypothesis Htol : 0 < tol.

  (* coordinate i of the map as a function of its own coordinate, the others frozen at y *)
  Definition G (i : nat) (y : list R) (t : R) : R := nth i (F (upd y i t)) 0.

  Hypothesis H_incr : forall i y, (i < n)%nat -> length y = n -> forall s t, s < t -> G i y s < G i y t.
  Hypothesis H_root : forall i y, (i < n)%nat -> length y = n -> exists rho, G i y rho = 0.
  (* triangular: coordinate i (its own entry overwritten) sees only the entries before i *)
  Hypothesis H_tri : forall i y y', (i < n)%nat -> length y = n -> length y' = n ->
    firstn i y = firstn i y' -> forall t, G i y t = G i y' t.

  Definition delta (rho : R) : R := Rmax tol (width0 rho lo up / 2 ^ (S max_iter)).

  Lemma autoreg_loop_spec : forall k i y, (i + k = n)%nat -> length y = n ->
    exists fuel0 xs, length xs = n /\ firstn i xs = firstn i y /\
      (forall j, (i <= j < n)%nat -> exists rho, G j xs rho = 0 /\ Rabs (nth j xs 0 - rho) <= delta rho) /\
      forall fuel, (fuel0 <= fuel)%nat -> autoreg_loop RF F lo up tol max_iter fuel k i y = Some xs.
  Proof.
    induction k as [|k IH]; intros i y Hik Hy.
    - exists O, y. split; [exact Hy|]. split; [reflexivity|]. split; [intros j Hj; lia|].
      intros fuel _. reflexivity.
    - assert (Hi : (i < n)%nat) by lia.
      destruct (H_root i y Hi Hy) as [rho Hrho].
      destruct (search_terminates_any_iter (G i y) rho Hrho (H_incr i y Hi Hy) lo up tol max_iter Hlu Htol)
        as (N & root & ai & it & _ & _ & Hb & Hrun).
      destruct (IH (S i) (upd y i root) ltac:(lia) ltac:(rewrite upd_length; exact Hy))
        as (fuel1 & xs & Hlen & Hpre & Hacc & Hrun1).
      destruct (firstn_S_inv xs (upd y i root) i 0) as [Hpre' Hnth].
      { lia. } { rewrite upd_length; lia. } { exact Hpre. }
      rewrite upd_firstn in Hpre'. rewrite upd_nth_eq in Hnth by lia.
      exists (Nat.max N fuel1), xs. split; [exact Hlen|]. split; [exact Hpre'|]. split.
      + intros j Hj. destruct (Nat.eq_dec j i) as [->|Hne].
        * exists rho. split.
          -- rewrite (H_tri i xs y Hi Hlen Hy Hpre'). exact Hrho.
          -- rewrite Hnth. exact Hb.
        * apply Hacc. lia.
      + intros fuel Hf. cbn [autoreg_loop].
        change (fun x : R => nth i (F (upd y i x)) (zero RF)) with (G i y).
        rewrite Hrun by lia. apply Hrun1. lia.
  Qed.

  (* The coordinate-by-coordinate search terminates and every coordinate is within
     max tol (W_j / 2^(max_iter+1)) of the exact root of its own equation GIVEN THE FOUND PREFIX. *)
  Theorem autoreg_residual :
    exists fuel0 xs, length xs = n /\
      (forall j, (j < n)%nat -> exists rho, G j xs rho = 0 /\ Rabs (nth j xs 0 - rho) <= delta rho) /\
      forall fuel, (fuel0 <= fuel)%nat -> autoreg RF F lo up tol n max_iter fuel = Some xs.
  Proof.
    destruct (autoreg_loop_spec n O (repeat ((up + lo) / 2) n) ltac:(lia) (repeat_length _ _))
      as (fuel0 & xs & Hlen & _ & Hacc & Hrun).
    exists fuel0, xs. split; [exact Hlen|]. split.
    - intros j Hj. apply Hacc. lia.
    - intros fuel Hf. unfold autoreg. apply Hrun. exact Hf.
  Qed.
End Autoreg.

(* ---------------------------------------------------------------- error propagation across coordinates *)
Section AutoregErr.
  Variable F : list R -> list R.
  Variable n : nat.
  Variables lo up tol : R.
  Variable max_iter : nat.
  Hypothesis Hlu : lo < up.
  Hypothesis Htol : 0 < tol.
  Variables m L : R.
  Hypothesis Hm : 0 < m.
  Hypothesis HL : 0 <= L.
  (* lower slope m in the own coordinate *)
  Hypothesis H_slope : forall i y, (i < n)%nat -> length y = n ->
    forall s t, s <= t -> m * (t - s) <= G F i y t - G F i y s.
  (* triangular with cross-coordinate Lipschitz constant L (w.r.t. the l1 distance of the earlier entries) *)
  Hypothesis H_lip : forall i y y', (i < n)%nat -> length y = n -> length y' = n ->
    forall t, Rabs (G F i y t - G F i y' t) <= L * sumdiff i y y'.
  Hypothesis H_root : forall i y, (i < n)%nat -> length y = n -> exists rho, G F i y rho = 0.
  (* the true preimage *)
  Variable xstar : list R.
  Hypothesis Hxs_len : length xstar = n.
  Hypothesis Hxs : forall i, (i < n)%nat -> nth i (F xstar) 0 = 0.

  Lemma slope_incr : forall i y, (i < n)%nat -> length y = n -> forall s t, s < t -> G F i y s < G F i y t.
  Proof. intros i y Hi Hy s t Hst. pose proof (H_slope i y Hi Hy s t ltac:(lra)). nra. Qed.

  Lemma lip_tri : forall i y y', (i < n)%nat -> length y = n -> length y' = n ->
    firstn i y = firstn i y' -> forall t, G F i y t = G F i y' t.
  Proof.
    intros i y y' Hi Hy Hy' E t. pose proof (H_lip i y y' Hi Hy Hy' t) as H.
    rewrite (sumdiff_firstn i y y' E), Rmult_0_r in H.
    pose proof (Rabs_pos (G F i y t - G F i y' t)).
    assert (Hz : Rabs (G F i y t - G F i y' t) = 0) by lra.
    destruct (Req_dec (G F i y t - G F i y' t) 0) as [Hd|Hd]; [lra|].
    apply Rabs_no_R0 in Hd. contradiction.
  Qed.

  Lemma slope_root_dist : forall i y rho t, (i < n)%nat -> length y = n -> G F i y rho = 0 ->
    m * Rabs (t - rho) <= Rabs (G F i y t).
  Proof.
    intros i y rho t Hi Hy Hr. destruct (Rle_lt_dec rho t) as [Hle|Hlt].
    - pose proof (H_slope i y Hi Hy rho t Hle) as H. rewrite Hr in H.
      rewrite Rabs_right by lra. pose proof (Rle_abs (G F i y t)). lra.
    - pose proof (H_slope i y Hi Hy t rho ltac:(lra)) as H. rewrite Hr in H.
      rewrite Rabs_left by lra. pose proof (Rle_abs (- G F i y t)) as A. rewrite Rabs_Ropp in A. lra.
  Qed.

  (* The error recursion, for ANY max_iter:
       |xhat_j - rho_j| <= max tol (W_j / 2^(max_iter+1))      rho_j = exact root given the found prefix
       |rho_j - x_j|    <= (L/m) sum_{k<j} |xhat_k - x_k| *)
  Theorem autoreg_error_recursion :
    exists fuel0 xs, length xs = n /\
      (forall j, (j < n)%nat -> exists rho, G F j xs rho = 0 /\
         Rabs (nth j xs 0 - rho) <= delta lo up tol max_iter rho /\
         Rabs (rho - nth j xstar 0) <= L / m * sumdiff j xs xstar) /\
      forall fuel, (fuel0 <= fuel)%nat -> autoreg RF F lo up tol n max_iter fuel = Some xs.
  Proof.
    destruct (autoreg_residual F n lo up tol max_iter Hlu Htol slope_incr H_root lip_tri)
      as (fuel0 & xs & Hlen & Hacc & Hrun).
    exists fuel0, xs. split; [exact Hlen|]. split; [|exact Hrun].
    intros j Hj. destruct (Hacc j Hj) as (rho & Hrho & Hb).
    exists rho. split; [exact Hrho|]. split; [exact Hb|].
    assert (H0 : G F j xstar (nth j xstar 0) = 0).
    { unfold G. rewrite upd_nth_same by lia. apply Hxs. exact Hj. }
    pose proof (H_lip j xs xstar Hj Hlen Hxs_len (nth j xstar 0)) as Hl. rewrite H0, Rminus_0_r in Hl.
    pose proof (slope_root_dist j xs rho (nth j xstar 0) Hj Hlen Hrho) as Hs.
    rewrite Rabs_minus_sym.
    apply Rmult_le_reg_l with (r := m); [exact Hm|].
    replace (m * (L / m * sumdiff j xs xstar)) with (L * sumdiff j xs xstar) by (field; lra).
    lra.
  Qed.

  (* Closed form when max_iter is large enough for every root of magnitude <= B and the true preimage
     (plus the accumulated error) stays within B:  |xhat_j - x_j| <= tol (1 + L/m)^j. *)
  Variable B : R.
  Hypothesis HB1 : forall rho, Rabs rho <= B -> width0 rho lo up <= 2 * tol * 2 ^ max_iter.
  Hypothesis HB2 : forall j, (j < n)%nat -> Rabs (nth j xstar 0) + tol * ((1 + L / m) ^ j - 1) <= B.

  Theorem autoreg_error_bound :
    exists fuel0 xs, length xs = n /\
      (forall j, (j < n)%nat -> Rabs (nth j xs 0 - nth j xstar 0) <= tol * (1 + L / m) ^ j) /\
      forall fuel, (fuel0 <= fuel)%nat -> autoreg RF F lo up tol n max_iter fuel = Some xs.
  Proof.
    destruct autoreg_error_recursion as (fuel0 & xs & Hlen & Hrec & Hrun).
    exists fuel0, xs. split; [exact Hlen|]. split; [|exact Hrun].
    set (c := L / m).
    assert (Hc : 0 <= c) by (apply Rmult_le_pos; [exact HL | left; apply Rinv_0_lt_compat; exact Hm]).
    assert (P : forall j, (j <= n)%nat ->
              (forall k, (k < j)%nat -> Rabs (nth k xs 0 - nth k xstar 0) <= tol * (1 + c) ^ k) /\
              sumdiff j xs xstar <= tol * geo c j).
    { induction j as [|j IH]; intros Hj.
      - split; [intros k Hk; lia | cbn; lra].
      - destruct (IH ltac:(lia)) as [IH1 IH2].
        destruct (Hrec j ltac:(lia)) as (rho & Hrho & Hacc & Hdist). fold c in Hdist.
        assert (Hd2 : Rabs (rho - nth j xstar 0) <= tol * ((1 + c) ^ j - 1)).
        { rewrite <- geo_closed. eapply Rle_trans; [exact Hdist|].
          replace (tol * (c * geo c j)) with (c * (tol * geo c j)) by ring.
          apply Rmult_le_compat_l; [exact Hc | exact IH2]. }
        assert (HrB : Rabs rho <= B).
        { pose proof (HB2 j ltac:(lia)) as H2. fold c in H2.
          replace rho with ((rho - nth j xstar 0) + nth j xstar 0) by ring.
          eapply Rle_trans; [apply Rabs_triang|]. lra. }
        assert (Hdel : delta lo up tol max_iter rho <= tol).
        { unfold delta. apply Rmax_lub; [lra|].
          pose proof (HB1 rho HrB) as Hw.
          assert (Hp : 0 < 2 ^ max_iter) by (apply pow_lt; lra).
          cbn [pow]. apply Rmult_le_reg_r with (r := 2 * 2 ^ max_iter); [lra|].
          unfold Rdiv. rewrite Rmult_assoc, Rinv_l by lra. lra. }
        assert (HE : Rabs (nth j xs 0 - nth j xstar 0) <= tol * (1 + c) ^ j).
        { replace (nth j xs 0 - nth j xstar 0) with ((nth j xs 0 - rho) + (rho - nth j xstar 0)) by ring.
          eapply Rle_trans; [apply Rabs_triang|]. lra. }
        split.
        + intros k Hk. destruct (Nat.eq_dec k j) as [->|Hne]; [exact HE | apply IH1; lia].
        + cbn [sumdiff geo]. lra. }
    intros j Hj. fold c. apply (proj1 (P (S j) ltac:(lia))). lia.
  Qed.
End AutoregErr.

(* ---------------------------------------------------------------- the rational run IS the real run *)
Lemma Q2R_red q : Q2R (Qred q) = Q2R q.
Proof. apply Qeq_eqR, Qred_correct. Qed.
Lemma Q2R_add a b : Q2R (bo_add QOps a b) = Q2R a + Q2R b.
Proof. cbn [bo_add QOps]. rewrite Q2R_red. apply Q2R_plus. Qed.
Lemma Q2R_sub a b : Q2R (bo_sub QOps a b) = Q2R a - Q2R b.
Proof. cbn [bo_sub QOps]. rewrite Q2R_red. apply Q2R_minus. Qed.
Lemma Q2R_mul a b : Q2R (bo_mul QOps a b) = Q2R a * Q2R b.
Proof. cbn [bo_mul QOps]. rewrite Q2R_red. apply Q2R_mult. Qed.
Lemma Q2R_dv a b : ~ (b == 0)%Q -> Q2R (bo_div QOps a b) = Q2R a / Q2R b.
Proof. intros H. cbn [bo_div QOps]. rewrite Q2R_red. apply Q2R_div. exact H. Qed.
Lemma Q2R_ofZ z : Q2R (bo_ofZ QOps z) = IZR z.
Proof. cbn [bo_ofZ QOps]. unfold Q2R, inject_Z. cbn [Qnum Qden]. rewrite Rinv_1. ring. Qed.
Lemma Q2R_abs a : Q2R (Qabs a) = Rabs (Q2R a).
Proof.
  destruct (Qlt_le_dec a 0) as [H|H].
  - rewrite Qabs_neg by (apply Qlt_le_weak; exact H). apply Qlt_Rlt in H.
    replace (Q2R 0) with 0 in H by (unfold Q2R; cbn; lra).
    rewrite Rabs_left by exact H. apply Q2R_opp.
  - rewrite Qabs_pos by exact H. apply Qle_Rle in H.
    replace (Q2R 0) with 0 in H by (unfold Q2R; cbn; lra).
    rewrite Rabs_right by lra. reflexivity.
Qed.
Lemma Q2R_leb a b : bo_leb QOps a b = Rleb (Q2R a) (Q2R b).
Proof.
  cbn [bo_leb QOps]. destruct (Qle_bool a b) eqn:E.
  - apply Qle_bool_iff, Qle_Rle in E. symmetry. apply Rleb_true. exact E.
  - symmetry. apply Rleb_false. apply Rnot_le_lt. intros H. apply Rle_Qle, Qle_bool_iff in H. congruence.
Qed.
Lemma Q2R_ltb a b : bo_ltb QOps a b = Rltb (Q2R a) (Q2R b).
Proof.
  cbn [bo_ltb QOps]. destruct (Qle_bool b a) eqn:E; cbn [negb].
  - apply Qle_bool_iff, Qle_Rle in E. symmetry. apply Rltb_false. exact E.
  - symmetry. apply Rltb_true. apply Rnot_le_lt. intros H. apply Rle_Qle, Qle_bool_iff in H. congruence.
Qed.
Lemma Q2R_two : Q2R (two QOps) = 2. Proof. apply Q2R_ofZ. Qed.
Lemma Q2R_zero : Q2R (zero QOps) = 0. Proof. apply Q2R_ofZ. Qed.
Lemma two_nz : ~ (two QOps == 0)%Q. Proof. cbn. discriminate. Qed.

Lemma sgn_Q2R v : sgn QOps v = sgn RF (Q2R v).
Proof.
  unfold sgn. rewrite !Q2R_ltb, Q2R_zero. reflexivity.
Qed.

Section Bridge.
  Variable fq : Q -> Q.
  Variable fr : R -> R.
  Hypothesis Hf : forall x, Q2R (fq x) = fr (Q2R x).

  Definition lift5 (o : option (Q * Q * Z * Z * nat)) : option (R * R * Z * Z * nat) :=
    match o with Some (l, u, a, b, n) => Some (Q2R l, Q2R u, a, b, n) | None => None end.
  Definition lift3 (o : option (Q * Q * nat)) : option (R * R * nat) :=
    match o with Some (l, u, n) => Some (Q2R l, Q2R u, n) | None => None end.
  Definition liftr (o : option (Q * nat * nat)) : option (R * nat * nat) :=
    match o with Some (x, a, b) => Some (Q2R x, a, b) | None => None end.

  Lemma adapt_loop_Q2R : forall fuel lo up e sl su it,
    lift5 (adapt_loop QOps fq fuel lo up e sl su it) =
    adapt_loop RF fr fuel (Q2R lo) (Q2R up) (Q2R e) sl su it.
  Proof.
    induction fuel as [|k IH]; intros lo up e sl su it; cbn [adapt_loop];
      destruct (Z.eqb sl su); try reflexivity.
    rewrite IH. destruct (Z.eqb sl 1).
    - rewrite !sgn_Q2R, !Hf, Q2R_sub, Q2R_mul, Q2R_two. reflexivity.
    - rewrite !sgn_Q2R, !Hf, Q2R_add, Q2R_mul, Q2R_two. reflexivity.
  Qed.

  Lemma adapt_Q2R : forall lo up fuel,
    lift3 (adapt QOps fq lo up fuel) = adapt RF fr (Q2R lo) (Q2R up) fuel.
  Proof.
    intros lo up fuel. unfold adapt.
    rewrite <- !Hf, <- !sgn_Q2R. change (bo_sub RF (Q2R up) (Q2R lo)) with (Q2R up - Q2R lo).
    rewrite <- Q2R_sub, <- adapt_loop_Q2R.
    destruct (adapt_loop QOps fq fuel lo up (bo_sub QOps up lo) (sgn QOps (fq lo)) (sgn QOps (fq up)) 0)
      as [[[[[l u] a] b] n]|]; cbn [lift5 lift3]; [|reflexivity].
    destruct (Z.eqb b 0), (Z.eqb a 0); reflexivity.
  Qed.

  Lemma bisect_loop_Q2R : forall tol rem lo up it,
    (let '(l, u, n) := bisect_loop QOps fq tol rem lo up it in (Q2R l, Q2R u, n)) =
    bisect_loop RF fr (Q2R tol) rem (Q2R lo) (Q2R up) it.
  Proof.
    intros tol. induction rem as [|k IH]; intros lo up it; cbn [bisect_loop]; [reflexivity|].
    rewrite Q2R_ltb, Q2R_mul, Q2R_sub, Q2R_two.
    change (bo_ltb RF (bo_mul RF (two RF) (Q2R tol)) (bo_sub RF (Q2R up) (Q2R lo)))
      with (Rltb (2 * Q2R tol) (Q2R up - Q2R lo)).
    destruct (Rltb (2 * Q2R tol) (Q2R up - Q2R lo)); [|reflexivity].
    assert (Hmid : Q2R (bo_div QOps (bo_add QOps lo up) (two QOps)) = (Q2R lo + Q2R up) / 2)
      by (rewrite (Q2R_dv _ _ two_nz), Q2R_add, Q2R_two; reflexivity).
    rewrite sgn_Q2R, Hf, Hmid.
    change (bo_div RF (bo_add RF (Q2R lo) (Q2R up)) (two RF)) with ((Q2R lo + Q2R up) / 2).
    set (s := sgn RF (fr ((Q2R lo + Q2R up) / 2))).
    destruct (Z.eqb s 1), (Z.eqb s 0); rewrite IH, ?Hmid; reflexivity.
  Qed.

  Lemma search_Q2R : forall lo up tol max_iter fuel,
    liftr (search QOps fq lo up tol max_iter fuel) =
    search RF fr (Q2R lo) (Q2R up) (Q2R tol) max_iter fuel.
  Proof.
    intros lo up tol max_iter fuel. unfold search. rewrite <- adapt_Q2R.
    destruct (adapt QOps fq lo up fuel) as [[[l u] ai]|]; cbn [lift3 liftr]; [|reflexivity].
    rewrite <- bisect_loop_Q2R.
    destruct (bisect_loop QOps fq tol max_iter l u 0) as [[l' u'] it].
    cbn [liftr]. rewrite (Q2R_dv _ _ two_nz), Q2R_add, Q2R_two. reflexivity.
  Qed.
End Bridge.

(* the deep-embedded family: mapping the coefficients commutes with evaluation *)
Definition map_fn (g : fn Q) : fn R :=
  match g with
  | FPl b0 y0 s0 segs => FPl (Q2R b0) (Q2R y0) (Q2R s0) (map (fun '(b, y, s) => (Q2R b, Q2R y, Q2R s)) segs)
  | FCub a b r => FCub (Q2R a) (Q2R b) (Q2R r)
  | FSat a e r => FSat (Q2R a) (Q2R e) (Q2R r)
  end.

Lemma lin_Q2R y s b x : Q2R (lin QOps y s b x) = lin RF (Q2R y) (Q2R s) (Q2R b) (Q2R x).
Proof. unfold lin. rewrite Q2R_add, Q2R_mul, Q2R_sub. reflexivity. Qed.

Lemma pl_eval_Q2R : forall segs cur x,
  Q2R (pl_eval QOps cur segs x) =
  pl_eval RF (Q2R cur) (map (fun '(b, y, s) => (Q2R b, Q2R y, Q2R s)) segs) (Q2R x).
Proof.
  induction segs as [|[[b y] s] t IH]; intros cur x; cbn [pl_eval map]; [reflexivity|].
  rewrite IH. rewrite Q2R_leb. change (bo_leb RF (Q2R b) (Q2R x)) with (Rleb (Q2R b) (Q2R x)).
  destruct (Rleb (Q2R b) (Q2R x)); [rewrite lin_Q2R|]; reflexivity.
Qed.

Lemma eval_fn_Q2R g x : Q2R (eval_fn QOps g x) = eval_fn RF (map_fn g) (Q2R x).
Proof.
  destruct g as [b0 y0 s0 segs|a b r|a e r]; cbn [eval_fn map_fn].
  - rewrite pl_eval_Q2R, lin_Q2R. reflexivity.
  - rewrite Q2R_add, !Q2R_mul, Q2R_sub. reflexivity.
  - assert (Hnz : ~ (bo_add QOps (one QOps) (bo_abs QOps (bo_sub QOps x r)) == 0)%Q).
    { intros H. apply Qeq_eqR in H. rewrite Q2R_add in H. cbn [bo_abs QOps] in H.
      rewrite Q2R_abs in H. unfold one in H. rewrite Q2R_ofZ in H.
      replace (Q2R 0) with 0 in H by (unfold Q2R; cbn; lra).
      pose proof (Rabs_pos (Q2R (bo_sub QOps x r))). lra. }
    rewrite Q2R_add, !Q2R_mul, (Q2R_dv _ _ Hnz), Q2R_add, Q2R_sub. cbn [bo_abs QOps].
    rewrite Q2R_abs, Q2R_sub. unfold one. rewrite Q2R_ofZ. reflexivity.
Qed.

(* The run the driver performs (the model at exact rationals) IS the run the theorems are about (the model
   at the reals) on the embedded inputs. *)
Theorem search_fn_Q2R : forall g lo up tol max_iter fuel,
  liftr (search_fn QOps g lo up tol max_iter fuel) =
  search_fn RF (map_fn g) (Q2R lo) (Q2R up) (Q2R tol) max_iter fuel.
Proof. intros. unfold search_fn. apply search_Q2R. apply eval_fn_Q2R. Qed.

(* ---------------------------------------------------------------- the property as one statement *)
(* continuous + strictly increasing + a sign change somewhere: the root exists (IVT), and the search started
   from ANY interval lo < up terminates and returns a point within max tol (W / 2^(max_iter+1)) of it *)
Lemma search_continuous : forall (f : R -> R), continuity f -> (forall x y, x < y -> f x < f y) ->
  forall a b, a <= b -> f a <= 0 <= f b ->
  forall lo up tol max_iter, lo < up -> 0 < tol ->
    exists r, f r = 0 /\ a <= r <= b /\
    exists N root ai it, (ai <= N)%nat /\ (it <= max_iter)%nat /\
      Rabs (root - r) <= Rmax tol (width0 r lo up / 2 ^ (S max_iter)) /\
      (width0 r lo up <= 2 * tol * 2 ^ max_iter -> Rabs (root - r) <= tol) /\
      forall fuel, (N <= fuel)%nat -> search RF f lo up tol max_iter fuel = Some (root, ai, it).
Proof.
  intros f Hc Hinc a b Hab Hsign lo up tol max_iter Hlu Htol.
  destruct (root_exists_ivt f a b Hc Hab Hsign) as [r [Hr Hfr]].
  exists r. split; [exact Hfr|]. split; [exact Hr|].
  destruct (pow2_unbounded (Rmax (r - up) (lo - r) / (up - lo) + 1)) as [N HN].
  destruct (search_spec f r Hfr Hinc lo up tol max_iter N Hlu Htol HN) as (root & ai & it & H1 & H2 & _ & H3 & _ & H4).
  exists N, root, ai, it. split; [exact H1|]. split; [exact H2|]. split; [|split; [|exact H4]].
  - destruct H3 as [H3|[_ H3]].
    + eapply Rle_trans; [exact H3 | apply Rmax_l].
    + eapply Rle_trans; [exact H3 | apply Rmax_r].
  - intros Hbig. destruct H3 as [H3|[_ H3]]; [exact H3|].
    eapply Rle_trans; [exact H3|].
    assert (Hp : 0 < 2 ^ max_iter) by (apply pow_lt; lra).
    cbn [pow]. apply Rmult_le_reg_r with (r := 2 * 2 ^ max_iter); [lra|].
    unfold Rdiv. rewrite Rmult_assoc, Rinv_l by lra. lra.
Qed.

(* ---------------------------------------------------------------- non-vacuity: concrete instances *)
(* a two-dimensional triangular map meeting every hypothesis of autoreg_error_bound (m = 1, L = 1) *)
Definition ex_F (y : list R) : list R := [nth 0 y 0 - 1 / 2; 2 * nth 1 y 0 + nth 0 y 0 - 3].

Lemma ex_F_G0 y t : length y = 2%nat -> G ex_F 0 y t = t - 1 / 2.
Proof. destruct y as [|a [|b [|c l]]]; cbn; intros H; try discriminate. reflexivity. Qed.
Lemma ex_F_G1 y t : length y = 2%nat -> G ex_F 1 y t = 2 * t + nth 0 y 0 - 3.
Proof. destruct y as [|a [|b [|c l]]]; cbn; intros H; try discriminate. reflexivity. Qed.

Lemma ex_F_hyps :
  (forall i y, (i < 2)%nat -> length y = 2%nat -> forall s t, s <= t -> 1 * (t - s) <= G ex_F i y t - G ex_F i y s) /\
  (forall i y y', (i < 2)%nat -> length y = 2%nat -> length y' = 2%nat ->
     forall t, Rabs (G ex_F i y t - G ex_F i y' t) <= 1 * sumdiff i y y') /\
  (forall i y, (i < 2)%nat -> length y = 2%nat -> exists rho, G ex_F i y rho = 0) /\
  (forall i, (i < 2)%nat -> nth i (ex_F [1 / 2; 5 / 4]) 0 = 0).
Proof.
  split; [|split; [|split]].
  - intros i y Hi Hy s t Hst. destruct i as [|[|i]]; [| |lia].
    + rewrite !ex_F_G0 by exact Hy. lra.
    + rewrite !ex_F_G1 by exact Hy. lra.
  - intros i y y' Hi Hy Hy' t. destruct i as [|[|i]]; [| |lia].
    + rewrite !ex_F_G0 by assumption. cbn. replace (t - 1 / 2 - (t - 1 / 2)) with 0 by ring. rewrite Rabs_R0. lra.
    + rewrite !ex_F_G1 by assumption. cbn [sumdiff].
      replace (2 * t + nth 0 y 0 - 3 - (2 * t + nth 0 y' 0 - 3)) with (nth 0 y 0 - nth 0 y' 0) by ring. lra.
  - intros i y Hi Hy. destruct i as [|[|i]]; [| |lia].
    + exists (1 / 2). rewrite ex_F_G0 by exact Hy. lra.
    + exists ((3 - nth 0 y 0) / 2). rewrite ex_F_G1 by exact Hy. field.
  - intros i Hi. destruct i as [|[|i]]; [| |lia]; cbn; lra.
Qed.

Lemma ex_scalar_hyps :
  let f := fun x => 2 * (x - 3 / 8) in f (3 / 8) = 0 /\ (forall x y, x < y -> f x < f y) /\ continuity f.
Proof. cbn. split; [lra|]. split; [intros; lra|]. intros x. reg. Qed.
