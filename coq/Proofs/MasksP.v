(* Lemmas about Model/Masks.v (property C09).  Everything here is closed under the global context.
   Statements about vectors use nth_error / entry (option valued), never a default element, so that nothing
   is true because of a totalised accessor. *)
From Coq Require Import List ZArith Bool Arith Lia ZifyBool.
From FJ Require Import Model.Masks.
Import ListNotations.

(* ------------------------------------------------------------------------------------------ *)
(* 0. small list facts                                                                         *)
(* ------------------------------------------------------------------------------------------ *)
Lemma last_cons {T} (a : T) l d : last (a :: l) d = last l a.
Proof.
  revert a d. induction l as [|b l IH]; intros a d; [reflexivity|].
  change (last (a :: b :: l) d) with (last (b :: l) d). rewrite (IH b d), (IH b a). reflexivity.
Qed.

Lemma nth_error_seq a n i : (i < n)%nat -> nth_error (seq a n) i = Some (a + i)%nat.
Proof. revert a i. induction n as [|n IH]; intros a i H; [lia|]. destruct i; cbn; [f_equal; lia|]. rewrite IH by lia. f_equal; lia. Qed.

Lemma nth_error_arange n i : (i < n)%nat -> nth_error (arange n) i = Some (Z.of_nat i).
Proof. intros H. unfold arange. rewrite nth_error_map, nth_error_seq by exact H. reflexivity. Qed.

Lemma nth_error_repeat {T} (v : T) n i : (i < n)%nat -> nth_error (repeat v n) i = Some v.
Proof. revert i. induction n as [|n IH]; intros i H; [lia|]. destruct i; cbn; [reflexivity|]. apply IH; lia. Qed.

Lemma nth_error_jnp_repeat {T} (l : list T) n i p : (p < n)%nat -> nth_error (jnp_repeat l n) (i * n + p) = nth_error l i.
Proof.
  intros Hp. revert i. induction l as [|v l IH]; intros i; unfold jnp_repeat in *; cbn [flat_map].
  - cbn. destruct (i * n + p)%nat; destruct i; reflexivity.
  - destruct i as [|i].
    + cbn [Nat.mul Nat.add nth_error]. rewrite nth_error_app1 by (rewrite repeat_length; exact Hp). apply nth_error_repeat; exact Hp.
    + rewrite nth_error_app2 by (rewrite repeat_length; lia). rewrite repeat_length.
      replace (S i * n + p - n)%nat with (i * n + p)%nat by lia. cbn [nth_error]. apply IH.
Qed.

Lemma entry_map_map {T U V} (f : U -> V -> T) (rows : list U) (cols : list V) r c u v :
  nth_error rows r = Some u -> nth_error cols c = Some v ->
  entry (map (fun a => map (fun b => f a b) cols) rows) r c = Some (f u v).
Proof. intros Hr Hc. unfold entry. rewrite nth_error_map, Hr. cbn. rewrite nth_error_map, Hc. reflexivity. Qed.

(* ------------------------------------------------------------------------------------------ *)
(* 1. rank_based_mask                                                                          *)
(* ------------------------------------------------------------------------------------------ *)
Lemma rank_mask_spec in_ranks out_ranks eq o i ro ri :
  nth_error out_ranks o = Some ro -> nth_error in_ranks i = Some ri ->
  entry (rank_based_mask in_ranks out_ranks eq) o i = Some (if eq then (ri <=? ro)%Z else (ri <? ro)%Z).
Proof.
  intros Ho Hi. unfold rank_based_mask.
  rewrite (entry_map_map (fun ro ri => if eq then (ro >=? ri)%Z else (ro >? ri)%Z) _ _ o i ro ri Ho Hi).
  destruct eq; f_equal; lia.
Qed.

Lemma rank_mask_shape in_ranks out_ranks eq :
  length (rank_based_mask in_ranks out_ranks eq) = length out_ranks /\
  Forall (fun row => length row = length in_ranks) (rank_based_mask in_ranks out_ranks eq).
Proof.
  unfold rank_based_mask. split; [apply map_length|]. apply Forall_forall. intros row Hin.
  apply in_map_iff in Hin. destruct Hin as [ro [<- _]]. apply map_length.
Qed.

(* masked_autoregressive_mlp's mask list, unrolled layer by layer *)
Lemma mlp_masks_0 rin hid rout : mlp_masks rin hid rout 0 = [rank_based_mask rin rout false].
Proof. reflexivity. Qed.
Lemma mlp_masks_S rin hid rout d :
  mlp_masks rin hid rout (S d) = rank_based_mask rin hid true :: mlp_masks hid hid rout d.
Proof.
  unfold mlp_masks.
  replace (seq 0 (S (S d))) with (0%nat :: map S (seq 0 (S d))) by (rewrite seq_shift; reflexivity).
  rewrite map_cons, map_map. reflexivity.
Qed.

(* ------------------------------------------------------------------------------------------ *)
(* 2. the core: a masked layer only sees the unmasked coordinates -- any carrier with 0*a = 0   *)
(* ------------------------------------------------------------------------------------------ *)
Section Agree.
  Context {A : Type}.

  (* x and x' have the same length and agree at every position whose flag in p is true
     (positions beyond the end of p carry no constraint) *)
  Fixpoint agreeb (p : list bool) (x x' : list A) : Prop :=
    match x, x' with
    | [], [] => True
    | a :: x, a' :: x' => (hd false p = true -> a = a') /\ agreeb (tl p) x x'
    | _, _ => False
    end.
  (* every true entry of the mask row m sits at a position flagged in p *)
  Fixpoint row_ok (m p : list bool) : bool :=
    match m with [] => true | b :: ms => implb b (hd false p) && row_ok ms (tl p) end.
  (* every output flagged in pout has a mask row that is row_ok w.r.t. pin *)
  Fixpoint layer_ok (m : list (list bool)) (pin pout : list bool) : bool :=
    match m with [] => true | mrow :: ms => implb (hd false pout) (row_ok mrow pin) && layer_ok ms pin (tl pout) end.
  Fixpoint chain_ok (masks : list (list (list bool))) (pin : list bool) (prest : list (list bool)) : bool :=
    match masks, prest with
    | [], [] => true
    | m :: ms, pout :: ps => layer_ok m pin pout && chain_ok ms pout ps
    | _, _ => false
    end.

  Lemma agreeb_length p x x' : agreeb p x x' -> length x = length x'.
  Proof. revert p x'. induction x as [|a x IH]; intros p [|a' x'] H; cbn in *; try tauto. f_equal. destruct H as [_ H]. exact (IH _ _ H). Qed.

  Lemma agreeb_refl p x : agreeb p x x.
  Proof. revert p. induction x as [|a x IH]; intros p; cbn; [exact I|]. split; [reflexivity|apply IH]. Qed.

  Lemma agreeb_map p (f : A -> A) x x' : agreeb p x x' -> agreeb p (map f x) (map f x').
  Proof.
    revert p x'. induction x as [|a x IH]; intros p [|a' x'] H; cbn in *; try tauto.
    destruct H as [H1 H2]. split; [intros Hp; f_equal; exact (H1 Hp)|]. apply IH; exact H2.
  Qed.

  (* ---- rank form ---- *)
  Lemma agreeb_of_nth {T} (P : T -> bool) (ranks : list T) x x' :
    length x = length x' ->
    (forall i r, nth_error ranks i = Some r -> P r = true -> nth_error x i = nth_error x' i) ->
    agreeb (map P ranks) x x'.
  Proof.
    revert ranks x'. induction x as [|a x IH]; intros ranks [|a' x'] Hlen H; cbn in *; try discriminate; [exact I|].
    split.
    - destruct ranks as [|r ranks]; cbn; [discriminate|]. intros HP. specialize (H 0%nat r eq_refl HP). cbn in H. congruence.
    - destruct ranks as [|r ranks]; cbn [tl map].
      + apply (IH (@nil T)); [lia|]. intros i r Hn. destruct i; discriminate.
      + apply IH; [lia|]. intros i r' Hn HP. exact (H (S i) r' Hn HP).
  Qed.

  Lemma agreeb_nth {T} (P : T -> bool) (ranks : list T) x x' :
    agreeb (map P ranks) x x' ->
    forall i r, nth_error ranks i = Some r -> P r = true -> nth_error x i = nth_error x' i.
  Proof.
    revert ranks x'. induction x as [|a x IH]; intros ranks [|a' x'] H i r Hn HP; cbn in H; try tauto.
    destruct H as [H1 H2]. destruct ranks as [|r0 ranks]; [destruct i; discriminate|].
    destruct i as [|i]; cbn in *.
    - injection Hn as ->. f_equal. exact (H1 HP).
    - exact (IH ranks x' H2 i r Hn HP).
  Qed.

  Lemma row_ok_rank (q P : Z -> bool) ranks :
    (forall r, q r = true -> P r = true) -> row_ok (map q ranks) (map P ranks) = true.
  Proof.
    intros H. induction ranks as [|r ranks IH]; [reflexivity|]. cbn. rewrite IH, andb_true_r.
    destruct (q r) eqn:E; [|reflexivity]. cbn. exact (H r E).
  Qed.

  Lemma layer_ok_rank (P Q : Z -> bool) rin rout (eq : bool) :
    (forall ro ri, Q ro = true -> (if eq then (ro >=? ri)%Z else (ro >? ri)%Z) = true -> P ri = true) ->
    layer_ok (rank_based_mask rin rout eq) (map P rin) (map Q rout) = true.
  Proof.
    intros H. unfold rank_based_mask. induction rout as [|ro rout IH]; [reflexivity|].
    cbn [map layer_ok hd tl]. rewrite IH, andb_true_r.
    destruct (Q ro) eqn:E; [|reflexivity]. cbn [implb].
    apply (row_ok_rank (fun ri => if eq then (ro >=? ri)%Z else (ro >? ri)%Z) P rin). intros r. apply H. exact E.
  Qed.

  Lemma chain_ok_rank t rin hid rout depth :
    chain_ok (mlp_masks rin hid rout depth) (map (fun r => (r <? t)%Z) rin)
             (repeat (map (fun r => (r <? t)%Z) hid) depth ++ [map (fun r => (r <=? t)%Z) rout]) = true.
  Proof.
    revert rin. induction depth as [|d IH]; intros rin.
    - rewrite mlp_masks_0. cbn [repeat app chain_ok]. rewrite andb_true_r.
      apply layer_ok_rank. intros ro ri H1 H2. lia.
    - rewrite mlp_masks_S. cbn [repeat app chain_ok]. rewrite IH, andb_true_r.
      apply layer_ok_rank. intros ro ri H1 H2. lia.
  Qed.

End Agree.

Lemma row_ok_of_nth m p : (forall i, nth_error m i = Some true -> nth_error p i = Some true) -> row_ok m p = true.
Proof.
  revert p. induction m as [|b m IH]; intros p H; [reflexivity|]. cbn [row_ok]. apply andb_true_iff. split.
  - destruct b; [|reflexivity]. specialize (H 0%nat eq_refl). destruct p as [|b0 p]; [discriminate|]. cbn in *. congruence.
  - apply IH. intros i Hi. specialize (H (S i) Hi). destruct p; [destruct i; discriminate|exact H].
Qed.
Lemma layer_ok_of_entries m pin pout :
  (forall o i, nth_error pout o = Some true -> entry m o i = Some true -> nth_error pin i = Some true) ->
  layer_ok m pin pout = true.
Proof.
  revert pout. induction m as [|mrow m IH]; intros pout H; [reflexivity|]. cbn [layer_ok]. apply andb_true_iff. split.
  - destruct (hd false pout) eqn:E; [|reflexivity]. cbn [implb]. apply row_ok_of_nth. intros i Hi.
    apply (H 0%nat i); [destruct pout; cbn in *; congruence|exact Hi].
  - apply IH. intros o i Ho He. apply (H (S o) i); [destruct pout; [destruct o; discriminate|exact Ho]|exact He].
Qed.


Section Masked.
  Context {A : Type} (zero : A) (add mul : A -> A -> A).
  Hypothesis mul_zero_l : forall a, mul zero a = zero.
  Local Notation dot := (dot zero add mul).
  Local Notation maskrow := (maskrow zero).
  Local Notation where_mask := (where_mask zero).
  Local Notation linear := (linear zero add mul).
  Local Notation masked_mlp := (masked_mlp zero add mul).

  (* dot_masked_agree (design probe Mask.v), position form *)
  Lemma dot_agree m p w x x' : row_ok m p = true -> agreeb p x x' -> dot (maskrow m w) x = dot (maskrow m w) x'.
  Proof.
    revert m p w x'. induction x as [|a x IH]; intros m p w [|a' x'] Hok Hag; cbn [agreeb] in Hag; try tauto.
    destruct Hag as [Hhd Htl].
    destruct m as [|b m]; [reflexivity|]. destruct w as [|v w]; [reflexivity|].
    cbn [row_ok] in Hok. apply andb_true_iff in Hok. destruct Hok as [Hb Hok].
    unfold Masks.dot, Masks.maskrow. cbn [combine map fold_right fst snd].
    f_equal.
    - destruct b; [|now rewrite !mul_zero_l]. cbn [implb] in Hb. f_equal. exact (Hhd Hb).
    - exact (IH m (tl p) w x' Hok Htl).
  Qed.

  Lemma layer_agree m pin pout w b x x' :
    layer_ok m pin pout = true -> agreeb pin x x' ->
    agreeb pout (linear (where_mask m w) b x) (linear (where_mask m w) b x').
  Proof.
    intros Hok Hag. revert pout w b Hok.
    induction m as [|mrow m IH]; intros pout w b Hok; [exact I|].
    destruct w as [|wr w]; [exact I|]. destruct b as [|bi b]; [exact I|].
    cbn [layer_ok] in Hok. apply andb_true_iff in Hok. destruct Hok as [Hrow Hok].
    unfold Masks.linear, Masks.where_mask. cbn [combine map fst snd agreeb]. split.
    - intros Hp. rewrite Hp in Hrow. cbn [implb] in Hrow. f_equal. exact (dot_agree mrow pin wr x x' Hrow Hag).
    - exact (IH (tl pout) w b Hok).
  Qed.

  (* the whole network: flags propagate through every layer, whatever the weights, biases and activation *)
  Lemma mlp_agree act masks : forall pin prest ws bs x x',
    chain_ok masks pin prest = true -> agreeb pin x x' ->
    agreeb (last prest pin) (masked_mlp ws bs masks act x) (masked_mlp ws bs masks act x').
  Proof.
    induction masks as [|m ms IH]; intros pin prest ws bs x x' Hok Hag.
    - destruct prest; [exact Hag|discriminate].
    - destruct prest as [|pout ps]; [discriminate|].
      cbn [chain_ok] in Hok. apply andb_true_iff in Hok. destruct Hok as [Hl Hc].
      pose proof (layer_agree m pin pout (hd [] ws) (hd [] bs) x x' Hl Hag) as Hh.
      rewrite last_cons. cbn [Masks.masked_mlp].
      destruct ms as [|m2 ms].
      + destruct ps; [exact Hh|discriminate].
      + apply (IH pout ps (tl ws) (tl bs)); [exact Hc|]. apply agreeb_map. exact Hh.
  Qed.

  (* MAIN: if x and x' agree on every input of rank < t, every output of rank <= t agrees. *)
  Theorem masked_mlp_dependence act rin hid rout depth ws bs x x' t :
    length x = length x' ->
    (forall j r, nth_error rin j = Some r -> (r < t)%Z -> nth_error x j = nth_error x' j) ->
    forall i r, nth_error rout i = Some r -> (r <= t)%Z ->
      nth_error (masked_mlp ws bs (mlp_masks rin hid rout depth) act x) i =
      nth_error (masked_mlp ws bs (mlp_masks rin hid rout depth) act x') i.
  Proof.
    intros Hlen Hin i r Hi Hr.
    assert (Hag : agreeb (map (fun r => (r <? t)%Z) rin) x x').
    { apply agreeb_of_nth; [exact Hlen|]. intros j rj Hj HP. apply (Hin j rj Hj). lia. }
    pose proof (mlp_agree act _ _ _ ws bs x x' (chain_ok_rank t rin hid rout depth) Hag) as H.
    rewrite last_last in H.
    apply (agreeb_nth (fun r => (r <=? t)%Z) rout _ _ H i r Hi). lia.
  Qed.

  Lemma masked_mlp_same_length act masks ws bs x x' :
    length x = length x' -> length (masked_mlp ws bs masks act x) = length (masked_mlp ws bs masks act x').
  Proof.
    intros Hlen.
    assert (Hc : forall masks pin, chain_ok masks pin (map (fun _ => []) masks) = true).
    { clear. induction masks as [|m ms IH]; intros pin; [reflexivity|]. cbn [map chain_ok]. rewrite IH, andb_true_r.
      clear. induction m as [|r m IH]; [reflexivity|]. cbn. exact IH. }
    assert (Hag : agreeb [] x x').
    { clear -Hlen. revert x' Hlen. induction x as [|a x IH]; intros [|a' x'] H; cbn in *; try discriminate; [exact I|].
      split; [discriminate|]. apply IH; lia. }
    exact (agreeb_length _ _ _ (mlp_agree act masks [] _ ws bs x x' (Hc masks []) Hag)).
  Qed.
End Masked.

(* ------------------------------------------------------------------------------------------ *)
(* 3. MaskedAutoregressive                                                                     *)
(* ------------------------------------------------------------------------------------------ *)
Lemma nth_error_ext_eq {T} (l l' : list T) : (forall i, nth_error l i = nth_error l' i) -> l = l'.
Proof.
  revert l'. induction l as [|a l IH]; intros [|a' l'] H.
  - reflexivity.
  - specialize (H 0%nat). discriminate.
  - specialize (H 0%nat). discriminate.
  - pose proof (H 0%nat) as H0. cbn in H0. injection H0 as ->. f_equal. apply IH. intros i. exact (H (S i)).
Qed.
Lemma nth_error_skipn' {T} (l : list T) s p : nth_error (skipn s l) p = nth_error l (s + p).
Proof. revert l. induction s as [|s IH]; intros l; [reflexivity|]. destruct l; [destruct p; reflexivity|]. cbn. apply IH. Qed.
Lemma nth_error_firstn' {T} (l : list T) k p : nth_error (firstn k l) p = if (p <? k)%nat then nth_error l p else None.
Proof.
  revert l p. induction k as [|k IH]; intros l p; [destruct p; reflexivity|].
  destruct l as [|a l]; [destruct p; cbn [firstn nth_error]; [reflexivity|destruct (S p <? S k)%nat; reflexivity]|].
  destruct p; [reflexivity|]. cbn [firstn nth_error]. rewrite IH. reflexivity.
Qed.
Lemma nth_error_combine {T U} (a : list T) (b : list U) i :
  nth_error (combine a b) i = match nth_error a i, nth_error b i with Some u, Some v => Some (u, v) | _, _ => None end.
Proof.
  revert b i. induction a as [|u a IH]; intros b i; [destruct i; reflexivity|].
  destruct b as [|v b]; [destruct i; cbn; [reflexivity|destruct (nth_error a i); reflexivity]|].
  destruct i; [reflexivity|]. cbn. apply IH.
Qed.
Lemma skipn_add {T} a b (l : list T) : skipn a (skipn b l) = skipn (b + a) l.
Proof. revert l. induction b as [|b IH]; intros l; [reflexivity|]. destruct l; [cbn; destruct a; reflexivity|]. cbn. apply IH. Qed.
Lemma nth_error_chunks {A} n k (l : list A) i : (i < n)%nat -> nth_error (chunks n k l) i = Some (firstn k (skipn (i * k) l)).
Proof.
  revert l i. induction n as [|n IH]; intros l i H; [lia|]. destruct i as [|i]; [reflexivity|].
  cbn [chunks nth_error]. rewrite IH by lia. rewrite skipn_add. replace (k + i * k)%nat with (S i * k)%nat by lia. reflexivity.
Qed.
Lemma chunks_length {A} n k (l : list A) : length (chunks n k l) = n.
Proof. revert l. induction n as [|n IH]; intros l; [reflexivity|]. cbn. f_equal. apply IH. Qed.

Lemma maf_in_ranks_cases dim cond j r :
  nth_error (maf_in_ranks dim cond) j = Some r ->
  ((j < dim)%nat /\ r = Z.of_nat j) \/ ((dim <= j)%nat /\ r = (-1)%Z /\ exists cd, cond = Some cd /\ (j < dim + cd)%nat).
Proof.
  intros H. destruct (Nat.lt_ge_cases j dim) as [Hlt|Hge].
  - left. split; [exact Hlt|]. unfold maf_in_ranks in H. destruct cond as [cd|].
    + rewrite nth_error_app1 in H by (unfold arange; rewrite map_length, seq_length; exact Hlt).
      rewrite nth_error_arange in H by exact Hlt. congruence.
    + rewrite nth_error_arange in H by exact Hlt. congruence.
  - right. split; [exact Hge|]. unfold maf_in_ranks in H. destruct cond as [cd|].
    + assert (Hl : length (arange dim) = dim) by (unfold arange; rewrite map_length, seq_length; reflexivity).
      rewrite nth_error_app2 in H by (rewrite Hl; exact Hge). rewrite Hl in H.
      assert (Hj : (j - dim < cd)%nat).
      { destruct (Nat.lt_ge_cases (j - dim) cd) as [Hc|Hc]; [exact Hc|].
        assert (Hn : nth_error (repeat (-1)%Z cd) (j - dim) = None) by (apply nth_error_None; rewrite repeat_length; exact Hc).
        congruence. }
      rewrite nth_error_repeat in H by exact Hj. split; [congruence|]. exists cd. split; [reflexivity|lia].
    + assert (Hn : nth_error (arange dim) j = None) by (apply nth_error_None; unfold arange; rewrite map_length, seq_length; exact Hge).
      congruence.
Qed.
Lemma maf_in_rank_x dim cond j : (j < dim)%nat -> nth_error (maf_in_ranks dim cond) j = Some (Z.of_nat j).
Proof.
  intros H. unfold maf_in_ranks. destruct cond.
  - rewrite nth_error_app1 by (unfold arange; rewrite map_length, seq_length; exact H). apply nth_error_arange; exact H.
  - apply nth_error_arange; exact H.
Qed.
Lemma maf_in_rank_c dim cd q : (q < cd)%nat -> nth_error (maf_in_ranks dim (Some cd)) (dim + q) = Some (-1)%Z.
Proof.
  intros H. unfold maf_in_ranks.
  assert (Hl : length (arange dim) = dim) by (unfold arange; rewrite map_length, seq_length; reflexivity).
  rewrite nth_error_app2 by (rewrite Hl; lia). rewrite Hl. replace (dim + q - dim)%nat with q by lia.
  apply nth_error_repeat; exact H.
Qed.
Lemma maf_out_rank dim npar i p : (i < dim)%nat -> (p < npar)%nat ->
  nth_error (maf_out_ranks dim npar) (i * npar + p) = Some (Z.of_nat i).
Proof. intros Hi Hp. unfold maf_out_ranks. rewrite nth_error_jnp_repeat by exact Hp. apply nth_error_arange; exact Hi. Qed.

Section Maf.
  Context {A : Type} (zero : A) (add mul : A -> A -> A).
  Hypothesis mul_zero_l : forall a, mul zero a = zero.

  (* the transformer parameters of coordinate i depend on x_0..x_{i-1} only (and on the condition) *)
  Theorem maf_params_autoregressive act dim cond width depth npar ws bs x x' c i :
    length x = dim -> length x' = dim -> (i < dim)%nat ->
    (forall j, (j < i)%nat -> nth_error x j = nth_error x' j) ->
    forall p, (p < npar)%nat ->
      nth_error (maf_params zero add mul dim cond width depth npar ws bs act x c) (i * npar + p) =
      nth_error (maf_params zero add mul dim cond width depth npar ws bs act x' c) (i * npar + p).
  Proof.
    intros Hx Hx' Hi Hag p Hp. unfold maf_params, maf_masks.
    apply (masked_mlp_dependence zero add mul mul_zero_l act _ _ _ depth ws bs _ _ (Z.of_nat i)) with (r := Z.of_nat i).
    - destruct cond; rewrite ?app_length; lia.
    - intros j r Hj Hr. destruct (maf_in_ranks_cases dim cond j r Hj) as [[Hlt ->]|[Hge [-> [cd [-> Hjc]]]]].
      + assert (Hji : (j < i)%nat) by lia. destruct cond.
        * rewrite !nth_error_app1 by lia. exact (Hag j Hji).
        * exact (Hag j Hji).
      + rewrite !nth_error_app2 by lia. rewrite Hx, Hx'. reflexivity.
    - apply maf_out_rank; assumption.
    - lia.
  Qed.

  (* y_i = transformer(params_i)(x_i) depends on x_0..x_i only (and on the condition), for ANY transformer family tau *)
  Theorem maf_output_autoregressive (tau : list A -> A -> A) act dim cond width depth npar ws bs x x' c i :
    length x = dim -> length x' = dim -> (i < dim)%nat -> (0 < npar)%nat ->
    length (maf_params zero add mul dim cond width depth npar ws bs act x c) = (dim * npar)%nat ->
    (forall j, (j <= i)%nat -> nth_error x j = nth_error x' j) ->
    nth_error (maf_transform zero add mul tau dim cond width depth npar ws bs act x c) i =
    nth_error (maf_transform zero add mul tau dim cond width depth npar ws bs act x' c) i.
  Proof.
    intros Hx Hx' Hi Hnp Hlen Hag. unfold maf_transform.
    set (P := maf_params zero add mul dim cond width depth npar ws bs act x c) in *.
    set (P' := maf_params zero add mul dim cond width depth npar ws bs act x' c).
    assert (Hlen' : length P' = length P).
    { unfold P, P', maf_params. apply masked_mlp_same_length; [exact mul_zero_l|]. destruct cond; rewrite ?app_length; lia. }
    rewrite !nth_error_map, !nth_error_combine. unfold reshape_rows.
    rewrite Hlen', Hlen. replace (dim * npar / dim)%nat with npar by (rewrite Nat.mul_comm, Nat.div_mul; lia).
    rewrite !nth_error_chunks by exact Hi. rewrite (Hag i (le_n i)).
    replace (firstn npar (skipn (i * npar) P')) with (firstn npar (skipn (i * npar) P)); [reflexivity|].
    apply nth_error_ext_eq. intros p. rewrite !nth_error_firstn', !nth_error_skipn'.
    destruct (p <? npar)%nat eqn:E; [|reflexivity].
    apply (maf_params_autoregressive act dim cond width depth npar ws bs x x' c i Hx Hx' Hi); [|lia].
    intros j Hj. apply Hag. lia.
  Qed.
End Maf.

(* ------------------------------------------------------------------------------------------ *)
(* 4. no permitted dependency is missing when the hidden layers are wide enough                *)
(* ------------------------------------------------------------------------------------------ *)
(* a path input i -> ... -> output o along which every mask entry is true *)
Fixpoint connected (masks : list (list (list bool))) (i o : nat) : Prop :=
  match masks with
  | [] => i = o
  | m :: rest => exists h, entry m h i = Some true /\ connected rest h o
  end.

Lemma connected_hidden hid rout hidx o (rh ro : Z) depth :
  nth_error hid hidx = Some rh -> nth_error rout o = Some ro -> (rh < ro)%Z ->
  connected (mlp_masks hid hid rout depth) hidx o.
Proof.
  intros Hh Ho Hlt. induction depth as [|d IH].
  - rewrite mlp_masks_0. cbn [connected]. exists o. split; [|reflexivity].
    rewrite (rank_mask_spec hid rout false o hidx ro rh Ho Hh). f_equal. lia.
  - rewrite mlp_masks_S. cbn [connected]. exists hidx. split; [|exact IH].
    rewrite (rank_mask_spec hid hid true hidx hidx rh rh Hh Hh). f_equal. lia.
Qed.

Lemma connected_mlp rin hid rout depth j hidx o (rj ro : Z) :
  nth_error rin j = Some rj -> nth_error rout o = Some ro -> (rj < ro)%Z ->
  (depth <> 0%nat -> nth_error hid hidx = Some rj) ->
  connected (mlp_masks rin hid rout depth) j o.
Proof.
  intros Hj Ho Hlt Hh. destruct depth as [|d].
  - rewrite mlp_masks_0. cbn [connected]. exists o. split; [|reflexivity].
    rewrite (rank_mask_spec rin rout false o j ro rj Ho Hj). f_equal. lia.
  - specialize (Hh (Nat.neq_succ_0 d)). rewrite mlp_masks_S. cbn [connected]. exists hidx. split.
    + rewrite (rank_mask_spec rin hid true hidx j rj rj Hh Hj). f_equal. lia.
    + exact (connected_hidden hid rout hidx o rj ro d Hh Ho Hlt).
Qed.

Lemma maf_hidden_rank_uncond dim width j : (j + 1 < dim)%nat -> (j < width)%nat ->
  nth_error (maf_hidden_ranks dim None width) j = Some (Z.of_nat j).
Proof.
  intros Hd Hw. unfold maf_hidden_ranks. rewrite nth_error_map, nth_error_arange by exact Hw. cbn [option_map].
  unfold jnp_mod. destruct (Z.of_nat dim - 1 =? 0)%Z eqn:E; [lia|]. rewrite Z.mod_small by lia. reflexivity.
Qed.
Lemma maf_hidden_rank_cond dim cd width j : (j + 1 < dim)%nat -> (j + 1 < width)%nat ->
  nth_error (maf_hidden_ranks dim (Some cd) width) (S j) = Some (Z.of_nat j).
Proof.
  intros Hd Hw. unfold maf_hidden_ranks. rewrite nth_error_map, nth_error_arange by lia. cbn [option_map].
  unfold jnp_mod. destruct (Z.of_nat dim =? 0)%Z eqn:E; [lia|]. rewrite Z.mod_small by lia. f_equal. lia.
Qed.
Lemma maf_hidden_rank_cond0 dim cd width : (0 < width)%nat ->
  nth_error (maf_hidden_ranks dim (Some cd) width) 0 = Some (-1)%Z.
Proof.
  intros Hw. unfold maf_hidden_ranks. rewrite nth_error_map, nth_error_arange by lia. cbn [option_map].
  unfold jnp_mod. destruct (Z.of_nat dim =? 0)%Z eqn:E; [reflexivity|]. rewrite Z.mod_0_l by lia. reflexivity.
Qed.

(* width >= dim-1 (unconditional) / width >= dim (conditional): every x_j, j < i, reaches every parameter of
   coordinate i through all-true mask entries, at every depth *)
Theorem maf_no_missing_dependency dim cond width depth npar i j p :
  (j < i)%nat -> (i < dim)%nat -> (p < npar)%nat ->
  match cond with None => (dim - 1 <= width)%nat | Some _ => (dim <= width)%nat end ->
  connected (maf_masks dim cond width depth npar) j (i * npar + p).
Proof.
  intros Hji Hi Hp Hw. unfold maf_masks.
  apply (connected_mlp _ _ _ depth j (match cond with None => j | Some _ => S j end) _ (Z.of_nat j) (Z.of_nat i)).
  - apply maf_in_rank_x. lia.
  - apply maf_out_rank; assumption.
  - lia.
  - intros _. destruct cond as [cd|].
    + apply maf_hidden_rank_cond; lia.
    + apply maf_hidden_rank_uncond; lia.
Qed.

(* every condition entry reaches every parameter of every coordinate as soon as there is one hidden unit *)
Theorem maf_condition_reaches_all dim cd width depth npar q i p :
  (q < cd)%nat -> (i < dim)%nat -> (p < npar)%nat -> (1 <= width)%nat ->
  connected (maf_masks dim (Some cd) width depth npar) (dim + q) (i * npar + p).
Proof.
  intros Hq Hi Hp Hw. unfold maf_masks.
  apply (connected_mlp _ _ _ depth (dim + q)%nat 0%nat _ (-1)%Z (Z.of_nat i)).
  - apply maf_in_rank_c; exact Hq.
  - apply maf_out_rank; assumption.
  - lia.
  - intros _. apply maf_hidden_rank_cond0. lia.
Qed.

(* ------------------------------------------------------------------------------------------ *)
(* 5. block masks: closed forms for every size                                                 *)
(* ------------------------------------------------------------------------------------------ *)
Lemma nth_error_mapi {T U} (f : nat * T -> U) (l : list T) i :
  nth_error (map f (combine (seq 0 (length l)) l)) i = option_map (fun v => f (i, v)) (nth_error l i).
Proof.
  rewrite nth_error_map, nth_error_combine. destruct (nth_error l i) eqn:E.
  - assert (Hi : (i < length l)%nat) by (apply nth_error_Some; congruence).
    rewrite nth_error_seq by exact Hi. reflexivity.
  - destruct (nth_error (seq 0 (length l)) i); reflexivity.
Qed.

Lemma div_band b a t : (t * b <= a)%nat -> (a < S t * b)%nat -> (a / b)%nat = t.
Proof. intros H1 H2. symmetry. apply (Nat.div_unique a b t (a - t * b)); lia. Qed.
Lemma div_lt_band b a t : (a < t * b)%nat -> (a / b < t)%nat.
Proof. intros H. assert (b <> 0)%nat by lia. apply Nat.div_lt_upper_bound; lia. Qed.

Lemma entry_set_region m r0 c0 w r c :
  entry (set_region m r0 c0 w) r c =
  option_map (fun v => if ((r0 <=? r)%nat && ((c0 <=? c)%nat && (c <? c0 + w)%nat)) then true else v) (entry m r c).
Proof.
  unfold entry, set_region. rewrite nth_error_mapi. destruct (nth_error m r) as [row|]; [|reflexivity].
  cbn [option_map fst snd]. destruct (r0 <=? r)%nat; cbn [andb].
  - rewrite nth_error_mapi. reflexivity.
  - destruct (nth_error row c); reflexivity.
Qed.

Definition tril_region (bh bw : nat) (k : Z) (i r c : nat) : bool :=
  ((Z.to_nat (Z.max 0 (Z.of_nat i - k)) * bh <=? r)%nat && ((i * bw <=? c)%nat && (c <? i * bw + bw)%nat)).

Lemma entry_tril_fold bh bw k l : forall m r c,
  entry (fold_left (fun mask i => set_region mask (Z.to_nat (Z.max 0 (Z.of_nat i - k)) * bh) (i * bw) bw) l m) r c =
  option_map (fun v => existsb (fun i => tril_region bh bw k i r c) l || v) (entry m r c).
Proof.
  induction l as [|i l IH]; intros m r c; cbn [fold_left existsb].
  - destruct (entry m r c); reflexivity.
  - rewrite IH, entry_set_region. destruct (entry m r c) as [v|]; [|reflexivity]. cbn [option_map]. f_equal.
    unfold tril_region. destruct (_ && _); cbn; [rewrite orb_true_r; reflexivity|reflexivity].
Qed.

Lemma entry_const {T} (v : T) R C r c : (r < R)%nat -> (c < C)%nat -> entry (repeat (repeat v C) R) r c = Some v.
Proof. intros Hr Hc. unfold entry. rewrite nth_error_repeat by exact Hr. apply nth_error_repeat; exact Hc. Qed.

Lemma existsb_tril bh bw k n r c : (r < bh * n)%nat -> (c < bw * n)%nat ->
  existsb (fun i => tril_region bh bw k i r c) (seq 0 n) = (Z.max 0 (Z.of_nat (c / bw) - k) <=? Z.of_nat (r / bh))%Z.
Proof.
  intros Hr Hc. assert (Hbh : (bh <> 0)%nat) by lia. assert (Hbw : (bw <> 0)%nat) by lia.
  apply eq_iff_eq_true. rewrite existsb_exists. unfold tril_region. split.
  - intros [i [Hin H]]. apply andb_true_iff in H. destruct H as [H1 H2]. apply andb_true_iff in H2. destruct H2 as [H2 H3].
    assert (Hi : (c / bw)%nat = i) by (apply div_band; lia). rewrite Hi.
    assert (Z.to_nat (Z.max 0 (Z.of_nat i - k)) <= r / bh)%nat by (apply Nat.div_le_lower_bound; lia). lia.
  - intros H. exists (c / bw)%nat. split.
    + apply in_seq. split; [lia|]. cbn. apply div_lt_band. lia.
    + pose proof (Nat.mul_div_le c bw Hbw). pose proof (Nat.mul_succ_div_gt c bw Hbw).
      pose proof (Nat.mul_div_le r bh Hbh).
      assert (Z.to_nat (Z.max 0 (Z.of_nat (c / bw) - k)) <= r / bh)%nat by lia.
      assert (Z.to_nat (Z.max 0 (Z.of_nat (c / bw) - k)) * bh <= (r / bh) * bh)%nat by (apply Nat.mul_le_mono_r; lia).
      apply andb_true_iff. split; [|apply andb_true_iff; split]; lia.
Qed.

(* block_tril_mask[r][c] = (max(0, c/bw - k) <= r/bh), every block shape, block count and offset *)
Theorem block_tril_closed_form bh bw n k r c : (r < bh * n)%nat -> (c < bw * n)%nat ->
  entry (block_tril_mask bh bw n k) r c = Some (Z.max 0 (Z.of_nat (c / bw) - k) <=? Z.of_nat (r / bh))%Z.
Proof.
  intros Hr Hc. unfold block_tril_mask. rewrite entry_tril_fold, entry_const by assumption.
  cbn [option_map]. rewrite orb_false_r, existsb_tril by assumption. reflexivity.
Qed.
Corollary block_tril_closed_form_0 bh bw n r c : (r < bh * n)%nat -> (c < bw * n)%nat ->
  entry (block_tril_mask bh bw n 0) r c = Some (c / bw <=? r / bh)%nat.
Proof. intros Hr Hc. rewrite block_tril_closed_form by assumption. f_equal. lia. Qed.

Lemma entry_Some_bounds {T} (m : list (list T)) R C r c v :
  length m = R -> Forall (fun row => length row = C) m -> entry m r c = Some v -> (r < R)%nat /\ (c < C)%nat.
Proof.
  intros HR HC H. unfold entry in H. destruct (nth_error m r) as [row|] eqn:E; [|discriminate].
  split; [rewrite <- HR; apply nth_error_Some; congruence|].
  rewrite Forall_forall in HC. rewrite <- (HC row (nth_error_In _ _ E)). apply nth_error_Some; congruence.
Qed.

Lemma set_region_shape m r0 c0 w R C :
  length m = R -> Forall (fun row => length row = C) m ->
  length (set_region m r0 c0 w) = R /\ Forall (fun row => length row = C) (set_region m r0 c0 w).
Proof.
  intros HR HC. unfold set_region. split; [rewrite map_length, combine_length, seq_length; lia|].
  apply Forall_forall. intros row Hin. apply in_map_iff in Hin. destruct Hin as [[r row0] [<- Hin]].
  apply in_combine_r in Hin. rewrite Forall_forall in HC. cbn [fst snd]. destruct (r0 <=? r)%nat; [|exact (HC _ Hin)].
  rewrite map_length, combine_length, seq_length, (HC _ Hin). lia.
Qed.

Lemma block_tril_shape bh bw n k :
  length (block_tril_mask bh bw n k) = (bh * n)%nat /\ Forall (fun row => length row = (bw * n)%nat) (block_tril_mask bh bw n k).
Proof.
  unfold block_tril_mask.
  assert (H0 : length (repeat (repeat false (bw * n)) (bh * n)) = (bh * n)%nat /\
               Forall (fun row => length row = (bw * n)%nat) (repeat (repeat false (bw * n)) (bh * n))).
  { split; [apply repeat_length|]. apply Forall_forall. intros row Hin. apply repeat_spec in Hin. subst. apply repeat_length. }
  revert H0. generalize (repeat (repeat false (bw * n)) (bh * n)). generalize (seq 0 n) as l.
  induction l as [|i l IH]; intros m H0; [exact H0|]. cbn [fold_left]. apply IH.
  destruct H0 as [HR HC]. apply set_region_shape; assumption.
Qed.

(* ---- block_diag_mask ---- *)
Lemma block_diag_step_inv bh bw t acc : (0 < bh)%nat ->
  length acc = (t * bh)%nat -> Forall (fun row => length row = (t * bw)%nat) acc ->
  (forall r c, (r < t * bh)%nat -> (c < t * bw)%nat -> entry acc r c = Some (r / bh =? c / bw)%nat) ->
  let blk := repeat (repeat true bw) bh in
  let acc' := map (fun row => row ++ repeat false (ncols blk)) acc ++ map (fun row => repeat false (ncols acc) ++ row) blk in
  length acc' = (S t * bh)%nat /\ Forall (fun row => length row = (S t * bw)%nat) acc' /\
  (forall r c, (r < S t * bh)%nat -> (c < S t * bw)%nat -> entry acc' r c = Some (r / bh =? c / bw)%nat).
Proof.
  intros Hbh HR HC HE blk acc'.
  assert (Hcb : ncols blk = bw) by (unfold blk; destruct bh; [lia|]; cbn; apply repeat_length).
  assert (Hca : ncols acc = (t * bw)%nat).
  { destruct acc as [|row0 acc0]; [cbn in *; destruct t; [reflexivity|lia]|]. cbn. inversion HC; assumption. }
  unfold acc'. clear acc'. rewrite Hcb, Hca. split; [|split].
  - rewrite app_length, !map_length. unfold blk. rewrite repeat_length. lia.
  - apply Forall_app. split; apply Forall_forall; intros row Hin; apply in_map_iff in Hin; destruct Hin as [row0 [<- Hin]];
      rewrite app_length, repeat_length.
    + rewrite Forall_forall in HC. rewrite (HC _ Hin). lia.
    + unfold blk in Hin. apply repeat_spec in Hin. rewrite Hin, repeat_length. lia.
  - intros r c Hr Hc. unfold entry. destruct (Nat.lt_ge_cases r (t * bh)) as [Hlt|Hge].
    + rewrite nth_error_app1 by (rewrite map_length; lia). rewrite nth_error_map.
      destruct (nth_error acc r) as [row|] eqn:E; [|apply nth_error_None in E; lia]. cbn [option_map].
      assert (Hrow : length row = (t * bw)%nat) by (rewrite Forall_forall in HC; exact (HC _ (nth_error_In _ _ E))).
      destruct (Nat.lt_ge_cases c (t * bw)) as [Hc1|Hc1].
      * rewrite nth_error_app1 by lia. specialize (HE r c Hlt Hc1). unfold entry in HE. rewrite E in HE. exact HE.
      * rewrite nth_error_app2 by lia. rewrite nth_error_repeat by lia. f_equal. symmetry. apply Nat.eqb_neq.
        pose proof (div_lt_band bh r t Hlt). rewrite (div_band bw c t) by lia. lia.
    + rewrite nth_error_app2 by (rewrite map_length; lia). rewrite map_length, HR, nth_error_map.
      unfold blk. rewrite nth_error_repeat by lia. cbn [option_map].
      rewrite (div_band bh r t) by lia.
      destruct (Nat.lt_ge_cases c (t * bw)) as [Hc1|Hc1].
      * rewrite nth_error_app1 by (rewrite repeat_length; lia). rewrite nth_error_repeat by lia. f_equal. symmetry.
        apply Nat.eqb_neq. pose proof (div_lt_band bw c t Hc1). lia.
      * rewrite nth_error_app2 by (rewrite repeat_length; lia). rewrite repeat_length, nth_error_repeat by lia.
        f_equal. symmetry. apply Nat.eqb_eq. symmetry. apply div_band; lia.
Qed.

Lemma block_diag_fold_inv bh bw : (0 < bh)%nat -> forall n t acc,
  length acc = (t * bh)%nat -> Forall (fun row => length row = (t * bw)%nat) acc ->
  (forall r c, (r < t * bh)%nat -> (c < t * bw)%nat -> entry acc r c = Some (r / bh =? c / bw)%nat) ->
  let res := fold_left (fun acc a => map (fun row => row ++ repeat false (ncols a)) acc ++ map (fun row => repeat false (ncols acc) ++ row) a)
                       (repeat (repeat (repeat true bw) bh) n) acc in
  length res = ((t + n) * bh)%nat /\ Forall (fun row => length row = ((t + n) * bw)%nat) res /\
  (forall r c, (r < (t + n) * bh)%nat -> (c < (t + n) * bw)%nat -> entry res r c = Some (r / bh =? c / bw)%nat).
Proof.
  intros Hbh. induction n as [|n IH]; intros t acc HR HC HE; cbn [repeat fold_left].
  - rewrite Nat.add_0_r. auto.
  - destruct (block_diag_step_inv bh bw t acc Hbh HR HC HE) as [HR' [HC' HE']].
    replace (t + S n)%nat with (S t + n)%nat by lia. apply IH; assumption.
Qed.

(* block_diag_mask[r][c] = (r/bh == c/bw), every block shape and block count *)
Theorem block_diag_closed_form bh bw n r c : (r < bh * n)%nat -> (c < bw * n)%nat ->
  entry (block_diag_mask bh bw n) r c = Some (r / bh =? c / bw)%nat.
Proof.
  intros Hr Hc. assert (Hbh : (0 < bh)%nat) by lia.
  destruct (block_diag_fold_inv bh bw Hbh n 0 []) as [_ [_ H]]; [reflexivity|constructor|intros; lia|].
  apply H; cbn [Nat.add]; lia.
Qed.
Lemma block_diag_shape bh bw n : (0 < bh)%nat ->
  length (block_diag_mask bh bw n) = (bh * n)%nat /\ Forall (fun row => length row = (bw * n)%nat) (block_diag_mask bh bw n).
Proof.
  intros Hbh. destruct (block_diag_fold_inv bh bw Hbh n 0 []) as [H1 [H2 _]]; [reflexivity|constructor|intros; lia|].
  cbn [Nat.add] in *. unfold block_diag_mask, block_diag. rewrite (Nat.mul_comm bh n), (Nat.mul_comm bw n). split; assumption.
Qed.

(* the block-lower-triangular mask IS a rank mask (>=) on block indices *)
Theorem block_tril_is_rank_mask bh bw n r c : (r < bh * n)%nat -> (c < bw * n)%nat ->
  entry (block_tril_mask bh bw n 0) r c =
  entry (rank_based_mask (map (fun c => Z.of_nat (c / bw)) (seq 0 (bw * n))) (map (fun r => Z.of_nat (r / bh)) (seq 0 (bh * n))) true) r c.
Proof.
  intros Hr Hc. rewrite block_tril_closed_form_0 by assumption.
  rewrite (rank_mask_spec _ _ true r c (Z.of_nat (r / bh)) (Z.of_nat (c / bw))).
  - f_equal. lia.
  - rewrite nth_error_map, nth_error_seq by exact Hr. reflexivity.
  - rewrite nth_error_map, nth_error_seq by exact Hc. reflexivity.
Qed.

(* ------------------------------------------------------------------------------------------ *)
(* 6. Coupling (arbitrary conditioner, arbitrary transformer family, arbitrary carrier)        *)
(* ------------------------------------------------------------------------------------------ *)
Section CouplingP.
  Context {A : Type} (zero : A).
  Variable tau : list A -> A -> A.
  Variable conditioner : list A -> list A.

  (* the first block is returned unchanged *)
  Theorem coupling_first_block_identity d dim x c :
    firstn d (coupling_transform tau conditioner d dim x c) = firstn d x.
  Proof.
    unfold coupling_transform. rewrite firstn_app, firstn_firstn, Nat.min_id.
    destruct (Nat.le_gt_cases d (length x)) as [Hle|Hgt].
    - rewrite firstn_length_le by exact Hle. rewrite Nat.sub_diag. cbn [firstn]. apply app_nil_r.
    - rewrite (skipn_all2 x) by lia. rewrite combine_nil. cbn [map]. rewrite firstn_nil. apply app_nil_r.
  Qed.
  Corollary coupling_first_block_nth d dim x c i : (i < d)%nat ->
    nth_error (coupling_transform tau conditioner d dim x c) i = nth_error x i.
  Proof.
    intros Hi. pose proof (coupling_first_block_identity d dim x c) as H.
    assert (H2 : nth_error (firstn d (coupling_transform tau conditioner d dim x c)) i = nth_error (firstn d x) i) by (rewrite H; reflexivity).
    rewrite !nth_error_firstn' in H2. destruct (Nat.ltb_spec i d); [exact H2|lia].
  Qed.

  (* coordinate i >= d depends only on itself, the first block and the condition *)
  Theorem coupling_dependence d dim x x' c i :
    length x = length x' -> firstn d x = firstn d x' -> (d <= i)%nat -> nth_error x i = nth_error x' i ->
    nth_error (coupling_transform tau conditioner d dim x c) i = nth_error (coupling_transform tau conditioner d dim x' c) i.
  Proof.
    intros Hlen Hfirst Hdi Hi. unfold coupling_transform. rewrite Hfirst.
    set (pre := firstn d x'). set (R := reshape_rows (dim - d) _).
    destruct (Nat.lt_ge_cases i (length pre)) as [Hlt|Hge].
    - rewrite !nth_error_app1 by exact Hlt. reflexivity.
    - rewrite !nth_error_app2 by exact Hge. rewrite !nth_error_map, !nth_error_combine, !nth_error_skipn'.
      replace (nth_error x (d + (i - length pre))) with (nth_error x' (d + (i - length pre))); [reflexivity|].
      unfold pre in *. rewrite firstn_length in *.
      destruct (Nat.le_gt_cases d (length x')) as [Hle|Hgt].
      + rewrite Nat.min_l by exact Hle. replace (d + (i - d))%nat with i by lia. symmetry. exact Hi.
      + assert (H1 : nth_error x' (d + (i - Nat.min d (length x'))) = None) by (apply nth_error_None; lia).
        assert (H2 : nth_error x (d + (i - Nat.min d (length x'))) = None) by (apply nth_error_None; lia).
        congruence.
  Qed.
End CouplingP.

(* ------------------------------------------------------------------------------------------ *)
(* 7. BlockAutoregressiveNetwork: no dependence on later coordinates                           *)
(* ------------------------------------------------------------------------------------------ *)
Definition flagsb (b n t : nat) : list bool := map (fun u => (u / b <=? t)%nat) (seq 0 (b * n)).

Lemma tril_layer_ok bh bw n t : layer_ok (block_tril_mask bh bw n 0) (flagsb bw n t) (flagsb bh n t) = true.
Proof.
  apply layer_ok_of_entries. intros o i Ho He.
  destruct (block_tril_shape bh bw n 0) as [HR HC].
  destruct (entry_Some_bounds _ _ _ o i true HR HC He) as [Hob Hib].
  rewrite block_tril_closed_form_0 in He by assumption.
  unfold flagsb in *. rewrite nth_error_map, nth_error_seq in Ho by exact Hob.
  rewrite nth_error_map, nth_error_seq by exact Hib. cbn [option_map Nat.add] in *. f_equal.
  injection Ho as Ho. injection He as He. apply Nat.leb_le in Ho. apply Nat.leb_le in He. apply Nat.leb_le. lia.
Qed.

Lemma bnaf_chain_tail dim bd t d :
  chain_ok (map (fun s => block_tril_mask (fst s) (snd s) dim 0) (repeat (bd, bd) d ++ [(1, bd)%nat])) (flagsb bd dim t)
           (map (fun s : nat * nat => flagsb (fst s) dim t) (repeat (bd, bd) d ++ [(1, bd)%nat])) = true.
Proof.
  induction d as [|d IH]; cbn [repeat app map chain_ok fst snd].
  - rewrite tril_layer_ok. reflexivity.
  - rewrite tril_layer_ok. exact IH.
Qed.
Lemma bnaf_chain_ok dim depth bd t :
  chain_ok (bnaf_tril_masks dim depth bd) (flagsb 1 dim t)
           (map (fun s : nat * nat => flagsb (fst s) dim t) (bnaf_block_shapes depth bd)) = true.
Proof.
  unfold bnaf_tril_masks, bnaf_block_shapes. destruct depth as [|d].
  - cbn [map chain_ok fst snd]. rewrite tril_layer_ok. reflexivity.
  - cbn [map chain_ok fst snd]. rewrite tril_layer_ok. exact (bnaf_chain_tail dim bd t d).
Qed.
Lemma bnaf_last_flags dim depth bd t :
  last (map (fun s : nat * nat => flagsb (fst s) dim t) (bnaf_block_shapes depth bd)) (flagsb 1 dim t) = flagsb 1 dim t.
Proof.
  unfold bnaf_block_shapes. destruct depth as [|d]; [reflexivity|].
  rewrite map_cons, map_app. cbn [map fst]. rewrite last_cons, last_last. reflexivity.
Qed.

Section BnafP.
  Context {A : Type} (zero : A) (add mul : A -> A -> A).
  Hypothesis mul_zero_l : forall a, mul zero a = zero.

  Lemma agreeb_vadd p (h h' t : list A) : agreeb p h h' -> agreeb p (vadd add h t) (vadd add h' t).
  Proof.
    revert p h' t. induction h as [|a h IH]; intros p [|a' h'] t H; cbn in H; try tauto.
    destruct t as [|c t]; [exact I|]. destruct H as [H1 H2]. unfold vadd. cbn [combine map fst snd agreeb]. split.
    - intros Hp. f_equal. exact (H1 Hp).
    - exact (IH (tl p) h' t H2).
  Qed.

  Lemma bnaf_agree act masks : forall first cterm pin prest ws bs x x',
    chain_ok masks pin prest = true -> agreeb pin x x' ->
    agreeb (last prest pin) (bnaf_run zero add mul act first cterm ws bs masks x) (bnaf_run zero add mul act first cterm ws bs masks x').
  Proof.
    induction masks as [|m ms IH]; intros first cterm pin prest ws bs x x' Hok Hag.
    - destruct prest; [exact Hag|discriminate].
    - destruct prest as [|pout ps]; [discriminate|].
      cbn [chain_ok] in Hok. apply andb_true_iff in Hok. destruct Hok as [Hl Hc].
      pose proof (layer_agree zero add mul mul_zero_l m pin pout (hd [] ws) (hd [] bs) x x' Hl Hag) as Hh.
      rewrite last_cons. cbn [bnaf_run].
      destruct ms as [|m2 ms].
      + destruct ps; [exact Hh|discriminate].
      + apply (IH false cterm pout ps (tl ws) (tl bs)); [exact Hc|]. apply agreeb_map.
        destruct first; [destruct cterm as [t|]|]; cbv iota; [apply agreeb_vadd; exact Hh|exact Hh|exact Hh].
  Qed.

  (* y_i does not depend on x_j for j > i: any weights (masked block-lower-triangularly at evaluation), any biases, any
     activation, any depth, any block_dim, any vector added after the first layer (the condition's contribution) *)
  Theorem bnaf_triangular act dim depth bd ws bs cterm x x' i :
    length x = length x' -> (i < dim)%nat ->
    (forall j, (j <= i)%nat -> nth_error x j = nth_error x' j) ->
    nth_error (bnaf_transform zero add mul dim depth bd ws bs act cterm x) i =
    nth_error (bnaf_transform zero add mul dim depth bd ws bs act cterm x') i.
  Proof.
    intros Hlen Hi Hag. unfold bnaf_transform.
    assert (Hin : agreeb (flagsb 1 dim i) x x').
    { unfold flagsb. apply agreeb_of_nth; [exact Hlen|]. intros j r Hj HP. apply Hag.
      assert (Hjd : (j < 1 * dim)%nat) by (apply nth_error_Some in Hj || (assert (nth_error (seq 0 (1 * dim)) j <> None) by congruence; apply nth_error_Some in H; rewrite seq_length in H; exact H)).
      rewrite seq_length in Hjd || idtac.
      rewrite nth_error_seq in Hj by lia. injection Hj as <-. apply Nat.leb_le in HP. rewrite Nat.div_1_r in HP. exact HP. }
    pose proof (bnaf_agree act _ true cterm _ _ ws bs x x' (bnaf_chain_ok dim depth bd i) Hin) as H.
    rewrite bnaf_last_flags in H. unfold flagsb in H.
    apply (agreeb_nth _ _ _ _ H i i).
    - rewrite nth_error_seq by lia. reflexivity.
    - apply Nat.leb_le. rewrite Nat.div_1_r. lia.
  Qed.
End BnafP.

(* ------------------------------------------------------------------------------------------ *)
(* 8. the reachability matrix of the model (what the tie compares Jacobian sparsity with)      *)
(* ------------------------------------------------------------------------------------------ *)
Definition bmm_row (row2 : list bool) (m1 : list (list bool)) (nc : nat) : list bool :=
  fold_right (fun (p : bool * list bool) acc => if fst p then orv (snd p) acc else acc) (repeat false nc) (combine row2 m1).
Lemma bmm_rows m2 m1 nc : bmm m2 m1 nc = map (fun row2 => bmm_row row2 m1 nc) m2.
Proof. reflexivity. Qed.

Lemma nth_error_orv a b j x y : nth_error a j = Some x -> nth_error b j = Some y -> nth_error (orv a b) j = Some (x || y).
Proof. intros Ha Hb. unfold orv. rewrite nth_error_map, nth_error_combine, Ha, Hb. reflexivity. Qed.
Lemma orv_length a b : length (orv a b) = Nat.min (length a) (length b).
Proof. unfold orv. rewrite map_length, combine_length. reflexivity. Qed.
Lemma nth_error_Some_nth {T} (l : list T) j d : (j < length l)%nat -> nth_error l j = Some (nth j l d).
Proof. revert j. induction l as [|a l IH]; intros j H; cbn in H; [lia|]. destruct j; [reflexivity|]. cbn. apply IH. lia. Qed.

Lemma fold_orv_spec nc j (l : list (bool * list bool)) :
  Forall (fun p => length (snd p) = nc) l -> (j < nc)%nat ->
  nth_error (fold_right (fun (p : bool * list bool) acc => if fst p then orv (snd p) acc else acc) (repeat false nc) l) j =
  Some (existsb (fun p : bool * list bool => fst p && nth j (snd p) false) l).
Proof.
  intros Hl Hj. induction l as [|p l IH]; cbn [fold_right existsb].
  - apply nth_error_repeat; exact Hj.
  - apply Forall_cons_iff in Hl. destruct Hl as [Hp Hl']. specialize (IH Hl'). destruct (fst p); cbn [andb].
    + apply nth_error_orv; [|exact IH]. apply nth_error_Some_nth. lia.
    + exact IH.
Qed.

Lemma Forall_combine_snd {T U} (P : U -> Prop) (a : list T) (b : list U) :
  Forall P b -> Forall (fun p => P (snd p)) (combine a b).
Proof.
  intros H. apply Forall_forall. intros [u v] Hin. apply in_combine_r in Hin. rewrite Forall_forall in H. exact (H v Hin).
Qed.

Lemma entry_bmm m2 m1 nc o j row2 :
  Forall (fun row => length row = nc) m1 -> (j < nc)%nat -> nth_error m2 o = Some row2 ->
  entry (bmm m2 m1 nc) o j = Some (existsb (fun p : bool * list bool => fst p && nth j (snd p) false) (combine row2 m1)).
Proof.
  intros Hw Hj Ho. unfold entry. rewrite bmm_rows, nth_error_map, Ho. cbn [option_map]. unfold bmm_row.
  apply fold_orv_spec; [|exact Hj]. apply (Forall_combine_snd (fun row => length row = nc)). exact Hw.
Qed.

Lemma bmm_wf m2 m1 nc : Forall (fun row => length row = nc) m1 -> Forall (fun row => length row = nc) (bmm m2 m1 nc).
Proof.
  intros Hw. rewrite bmm_rows. apply Forall_forall. intros row Hin. apply in_map_iff in Hin. destruct Hin as [row2 [<- _]].
  unfold bmm_row. generalize (combine row2 m1) (Forall_combine_snd (fun row => length row = nc) row2 m1 Hw).
  induction l as [|p l IH]; intros Hl; cbn [fold_right]; [apply repeat_length|].
  apply Forall_cons_iff in Hl. destruct Hl as [Hp Hl']. specialize (IH Hl'). destruct (fst p); [|exact IH].
  rewrite orv_length, IH. cbn beta in Hp. rewrite Hp. lia.
Qed.

(* one step: m[u][v] and acc[v][j] give (m . acc)[u][j], and conversely *)
Lemma bmm_true_intro m acc nc u v j :
  Forall (fun row => length row = nc) acc -> (j < nc)%nat ->
  entry m u v = Some true -> entry acc v j = Some true -> entry (bmm m acc nc) u j = Some true.
Proof.
  intros Hw Hj Hm Ha. unfold entry in Hm, Ha.
  destruct (nth_error m u) as [row|] eqn:Eu; [|discriminate]. destruct (nth_error acc v) as [arow|] eqn:Ev; [|discriminate].
  rewrite (entry_bmm m acc nc u j row Hw Hj Eu). f_equal. apply existsb_exists. exists (true, arow). split.
  - apply (nth_error_In _ v). rewrite nth_error_combine, Hm, Ev. reflexivity.
  - cbn. apply (nth_error_nth _ _ false) in Ha. exact Ha.
Qed.
Lemma bmm_true_elim m acc nc u j :
  Forall (fun row => length row = nc) acc -> (j < nc)%nat ->
  entry (bmm m acc nc) u j = Some true -> exists v, entry m u v = Some true /\ entry acc v j = Some true.
Proof.
  intros Hw Hj H. unfold entry in H. rewrite bmm_rows, nth_error_map in H.
  destruct (nth_error m u) as [row|] eqn:Eu; [|discriminate]. cbn [option_map] in H. unfold bmm_row in H.
  rewrite fold_orv_spec in H; [|apply (Forall_combine_snd (fun row => length row = nc)); exact Hw|exact Hj].
  injection H as H. apply existsb_exists in H. destruct H as [[b arow] [Hin Hp]]. cbn in Hp. apply andb_true_iff in Hp. destruct Hp as [-> Hn].
  apply In_nth_error in Hin. destruct Hin as [v Hv]. rewrite nth_error_combine in Hv.
  destruct (nth_error row v) as [bv|] eqn:E1; [|discriminate]. destruct (nth_error acc v) as [av|] eqn:E2; [|discriminate].
  injection Hv as -> ->. exists v. unfold entry. rewrite Eu, E2. split; [exact E1|].
  rewrite Forall_forall in Hw. rewrite (nth_error_Some_nth arow j false) by (rewrite (Hw arow (nth_error_In _ _ E2)); exact Hj).
  f_equal. exact Hn.
Qed.

Lemma reach_fold_connected nc j : forall rest acc o,
  Forall (fun row => length row = nc) acc -> (j < nc)%nat ->
  (entry (fold_left (fun acc m => bmm m acc nc) rest acc) o j = Some true <->
   exists h, entry acc h j = Some true /\ connected rest h o).
Proof.
  induction rest as [|m rest IH]; intros acc o Hw Hj; cbn [fold_left connected].
  - split; [intros H; exists o; split; [exact H|reflexivity]|intros [h [H ->]]; exact H].
  - rewrite (IH (bmm m acc nc) o (bmm_wf m acc nc Hw) Hj). split.
    + intros [h [Hb Hc]]. destruct (bmm_true_elim m acc nc h j Hw Hj Hb) as [v [Hm Ha]].
      exists v. split; [exact Ha|]. exists h. split; assumption.
    + intros [v [Ha [h [Hm Hc]]]]. exists h. split; [|exact Hc]. exact (bmm_true_intro m acc nc h v j Hw Hj Hm Ha).
Qed.

(* reach[o][j] is true exactly when an all-true mask path j -> o exists *)
Theorem reach_connected m0 rest nc j o :
  Forall (fun row => length row = nc) m0 -> (j < nc)%nat ->
  (entry (reach (m0 :: rest) nc) o j = Some true <-> connected (m0 :: rest) j o).
Proof. intros Hw Hj. unfold reach. cbn [connected]. apply reach_fold_connected; assumption. Qed.

(* ---- independence from reach = false, for arbitrary (well-chained) masks and all weights ---- *)
Definition colflag (j : nat) (R : list (list bool)) : list bool := map (fun row => negb (nth j row false)) R.
Fixpoint reach_list (nc : nat) (acc : list (list bool)) (rest : list (list (list bool))) : list (list (list bool)) :=
  match rest with [] => [] | m :: r => let acc' := bmm m acc nc in acc' :: reach_list nc acc' r end.
(* every row of a mask is no longer than the number of units of the previous layer *)
Fixpoint chained (prev : nat) (rest : list (list (list bool))) : Prop :=
  match rest with [] => True | m :: r => Forall (fun row => (length row <= prev)%nat) m /\ chained (length m) r end.

Lemma last_reach_list nc rest : forall acc, last (reach_list nc acc rest) acc = fold_left (fun acc m => bmm m acc nc) rest acc.
Proof. induction rest as [|m rest IH]; intros acc; [reflexivity|]. cbn [reach_list fold_left]. rewrite last_cons. apply IH. Qed.

Lemma layer_ok_colflag nc j m acc :
  Forall (fun row => length row = nc) acc -> (j < nc)%nat -> Forall (fun row => (length row <= length acc)%nat) m ->
  layer_ok m (colflag j acc) (colflag j (bmm m acc nc)) = true.
Proof.
  intros Hw Hj Hm. apply layer_ok_of_entries. intros u v Hu He. unfold colflag in *.
  rewrite nth_error_map in Hu. destruct (nth_error (bmm m acc nc) u) as [brow|] eqn:Eb; [|discriminate]. cbn in Hu.
  injection Hu as Hu. apply negb_true_iff in Hu.
  assert (Hvlen : (v < length acc)%nat).
  { unfold entry in He. destruct (nth_error m u) as [row|] eqn:Eu; [|discriminate].
    rewrite Forall_forall in Hm. pose proof (Hm row (nth_error_In _ _ Eu)). assert (v < length row)%nat by (apply nth_error_Some; congruence). lia. }
  destruct (nth_error acc v) as [arow|] eqn:Ev; [|apply nth_error_None in Ev; lia].
  rewrite nth_error_map, Ev. cbn. f_equal. apply negb_true_iff.
  destruct (nth j arow false) eqn:En; [|reflexivity]. exfalso.
  assert (Ha : entry acc v j = Some true).
  { unfold entry. rewrite Ev. rewrite Forall_forall in Hw.
    rewrite (nth_error_Some_nth arow j false) by (rewrite (Hw arow (nth_error_In _ _ Ev)); exact Hj). f_equal. exact En. }
  pose proof (bmm_true_intro m acc nc u v j Hw Hj He Ha) as Hb. unfold entry in Hb. rewrite Eb in Hb.
  apply (nth_error_nth _ _ false) in Hb. congruence.
Qed.

Lemma chain_ok_colflag nc j : forall rest acc,
  Forall (fun row => length row = nc) acc -> (j < nc)%nat -> chained (length acc) rest ->
  chain_ok rest (colflag j acc) (map (colflag j) (reach_list nc acc rest)) = true.
Proof.
  induction rest as [|m rest IH]; intros acc Hw Hj Hc; [reflexivity|]. destruct Hc as [Hm Hc].
  cbn [reach_list map chain_ok]. rewrite (layer_ok_colflag nc j m acc Hw Hj Hm). cbn [andb].
  apply IH; [apply bmm_wf; exact Hw|exact Hj|]. rewrite bmm_rows, map_length. exact Hc.
Qed.

Section ReachSound.
  Context {A : Type} (zero : A) (add mul : A -> A -> A).
  Hypothesis mul_zero_l : forall a, mul zero a = zero.

  (* If the reachability matrix says output o cannot be reached from input j, then -- whatever the weights, biases
     and activation -- changing x_j alone leaves output o unchanged. *)
  Theorem reach_false_independent act m0 rest nc ws bs x x' j o :
    Forall (fun row => length row = nc) m0 -> chained (length m0) rest -> (j < nc)%nat ->
    length x = length x' -> (forall i, i <> j -> nth_error x i = nth_error x' i) ->
    entry (reach (m0 :: rest) nc) o j = Some false ->
    nth_error (masked_mlp zero add mul ws bs (m0 :: rest) act x) o = nth_error (masked_mlp zero add mul ws bs (m0 :: rest) act x') o.
  Proof.
    intros Hw Hc Hj Hlen Hag Hr.
    set (pin := map (fun i => negb (i =? j)%nat) (seq 0 nc)).
    assert (Hin : agreeb pin x x').
    { unfold pin. apply agreeb_of_nth; [exact Hlen|]. intros i r Hi HP.
      assert (Hinc : (i < nc)%nat) by (assert (Hs : nth_error (seq 0 nc) i <> None) by congruence; apply nth_error_Some in Hs; rewrite seq_length in Hs; exact Hs).
      rewrite nth_error_seq in Hi by exact Hinc. injection Hi as <-. apply Hag. apply negb_true_iff in HP. apply Nat.eqb_neq in HP. exact HP. }
    assert (H0 : layer_ok m0 pin (colflag j m0) = true).
    { apply layer_ok_of_entries. intros u v Hu He. unfold colflag in Hu. rewrite nth_error_map in Hu.
      destruct (nth_error m0 u) as [row|] eqn:Eu; [|discriminate]. cbn in Hu. injection Hu as Hu. apply negb_true_iff in Hu.
      unfold entry in He. rewrite Eu in He. rewrite Forall_forall in Hw. pose proof (Hw row (nth_error_In _ _ Eu)) as Hrow.
      assert (Hv : (v < nc)%nat) by (rewrite <- Hrow; apply nth_error_Some; congruence).
      unfold pin. rewrite nth_error_map, nth_error_seq by exact Hv. cbn. f_equal. apply negb_true_iff. apply Nat.eqb_neq.
      intros ->. apply (nth_error_nth _ _ false) in He. congruence. }
    assert (Hchain : chain_ok (m0 :: rest) pin (colflag j m0 :: map (colflag j) (reach_list nc m0 rest)) = true).
    { cbn [chain_ok]. rewrite H0. cbn [andb]. apply chain_ok_colflag; assumption. }
    pose proof (mlp_agree zero add mul mul_zero_l act _ _ _ ws bs x x' Hchain Hin) as H.
    rewrite last_cons in H. change (last (map (colflag j) (reach_list nc m0 rest)) (colflag j m0)) with
      (last (map (colflag j) (reach_list nc m0 rest)) (colflag j m0)) in H.
    assert (Hlast : last (map (colflag j) (reach_list nc m0 rest)) (colflag j m0) = colflag j (reach (m0 :: rest) nc)).
    { unfold reach. rewrite <- last_reach_list. generalize (reach_list nc m0 rest) as l. generalize m0 as d.
      clear. intros d l. revert d. induction l as [|a l IH]; intros d; [reflexivity|]. rewrite map_cons, !last_cons. apply IH. }
    rewrite Hlast in H. unfold colflag in H.
    unfold entry in Hr. destruct (nth_error (reach (m0 :: rest) nc) o) as [row|] eqn:Eo; [|discriminate].
    apply (agreeb_nth _ _ _ _ H o row Eo). apply negb_true_iff. apply (nth_error_nth _ _ false) in Hr. exact Hr.
  Qed.
End ReachSound.

(* the masks of masked_autoregressive_mlp are well chained, so the theorem applies to them *)
Lemma mlp_masks_chained rin hid rout depth :
  match mlp_masks rin hid rout depth with
  | [] => False
  | m0 :: rest => Forall (fun row => length row = length rin) m0 /\ chained (length m0) rest
  end.
Proof.
  revert rin. induction depth as [|d IH]; intros rin.
  - rewrite mlp_masks_0. split; [apply rank_mask_shape|exact I].
  - rewrite mlp_masks_S. split; [apply rank_mask_shape|].
    specialize (IH hid). destruct (mlp_masks hid hid rout d) as [|m1 rest] eqn:E; [contradiction|].
    destruct IH as [Hw Hc]. cbn [chained]. split; [|exact Hc].
    destruct (rank_mask_shape rin hid true) as [Hl _]. rewrite Hl.
    eapply Forall_impl; [|exact Hw]. intros row Hrow. cbn in Hrow. lia.
Qed.

(* ------------------------------------------------------------------------------------------ *)
(* 9. the Where wrapper is applied at evaluation; the BNAF weight pipeline keeps the zeros       *)
(* ------------------------------------------------------------------------------------------ *)
Lemma entry_where_mask {A} (zero : A) m (w : list (list A)) r c :
  entry (where_mask zero m w) r c =
  match entry m r c, entry w r c with Some b, Some v => Some (if b then v else zero) | _, _ => None end.
Proof.
  unfold entry, where_mask. rewrite nth_error_map, nth_error_combine.
  destruct (nth_error m r) as [mrow|]; [|reflexivity]. destruct (nth_error w r) as [wrow|]; cbn [option_map fst snd].
  - unfold maskrow. rewrite nth_error_map, nth_error_combine.
    destruct (nth_error mrow c) as [b|]; [|reflexivity]. destruct (nth_error wrow c); reflexivity.
  - destruct (nth_error mrow c); reflexivity.
Qed.

(* "training cannot un-mask": whatever raw matrix w the optimiser produced, the evaluated weight is zero off the mask *)
Theorem where_survives_update {A} (zero : A) m (w : list (list A)) r c v :
  entry m r c = Some false -> entry (where_mask zero m w) r c = Some v -> v = zero.
Proof. intros Hm H. rewrite entry_where_mask, Hm in H. destruct (entry w r c); [injection H as <-; reflexivity|discriminate]. Qed.

Section BnafWeightP.
  Context {A : Type} (zero : A) (mul : A -> A -> A) (sp : A -> A) (norm : list A -> A) (div : A -> A -> A).
  Hypothesis mul_zero_r : forall a, mul a zero = zero.
  Hypothesis div_zero_l : forall a, div zero a = zero.

  (* softplus on the diagonal blocks and weight normalisation keep every entry outside the block-lower-triangular
     mask at zero (in floats: for finite scale and a finite non-zero row norm) *)
  Theorem bnaf_weight_zero_off_mask tril diag w1 w2 scale_raw r c v :
    entry tril r c = Some false -> entry diag r c = Some false ->
    entry (bnaf_weight zero mul sp norm div tril diag w1 w2 scale_raw) r c = Some v -> v = zero.
  Proof.
    intros Ht Hd H. unfold bnaf_weight, weight_norm, entry in H.
    rewrite nth_error_map, nth_error_combine in H.
    destruct (nth_error (bnaf_prenorm zero sp tril diag w1 w2) r) as [vrow|] eqn:Ev; [|discriminate].
    destruct (nth_error scale_raw r) as [s|]; [|discriminate]. cbn [option_map fst snd] in H.
    rewrite nth_error_map in H. destruct (nth_error vrow c) as [e|] eqn:Ee; [|discriminate]. cbn in H. injection H as <-.
    assert (He : e = zero).
    { unfold bnaf_prenorm in Ev. rewrite nth_error_map, !nth_error_combine in Ev.
      unfold entry in Hd. destruct (nth_error diag r) as [drow|]; [|discriminate].
      destruct (nth_error (map (map sp) (where_mask zero tril w1)) r) as [arow|]; [|discriminate].
      destruct (nth_error (where_mask zero tril w2) r) as [brow|] eqn:Eb; [|discriminate].
      cbn [option_map fst snd] in Ev. injection Ev as <-. unfold where3_row in Ee.
      rewrite nth_error_map, !nth_error_combine, Hd in Ee.
      destruct (nth_error arow c); [|discriminate]. destruct (nth_error brow c) as [bv|] eqn:Ebv; [|discriminate].
      cbn in Ee. injection Ee as <-.
      apply (where_survives_update zero tril w2 r c bv Ht). unfold entry. rewrite Eb. exact Ebv. }
    rewrite He, mul_zero_r, div_zero_l. reflexivity.
  Qed.
End BnafWeightP.

(* ------------------------------------------------------------------------------------------ *)
(* 10. BlockAutoregressiveNetwork: y_i is strictly increasing in x_i (ordered carrier)           *)
(* ------------------------------------------------------------------------------------------ *)
Inductive status := SEq | SLt | SFree.

Lemma nth_error_linear {A} (zero : A) add mul (W : list (list A)) b x u :
  nth_error (linear zero add mul W b x) u =
  match nth_error W u, nth_error b u with Some row, Some bu => Some (add (dot zero add mul row x) bu) | _, _ => None end.
Proof.
  unfold linear. rewrite nth_error_map, nth_error_combine.
  destruct (nth_error W u); [|reflexivity]. destruct (nth_error b u); reflexivity.
Qed.
Lemma linear_length {A} (zero : A) add mul (W : list (list A)) b x : length (linear zero add mul W b x) = Nat.min (length W) (length b).
Proof. unfold linear. rewrite map_length, combine_length. reflexivity. Qed.
Lemma where_mask_length {A} (zero : A) m (w : list (list A)) : length (where_mask zero m w) = Nat.min (length m) (length w).
Proof. unfold where_mask. rewrite map_length, combine_length. reflexivity. Qed.
Lemma where_mask_row_length {A} (zero : A) m (w : list (list A)) u row n :
  Forall (fun r => length r = n) m -> Forall (fun r => length r = n) w ->
  nth_error (where_mask zero m w) u = Some row -> length row = n.
Proof.
  intros Hm Hw H. unfold where_mask in H. rewrite nth_error_map, nth_error_combine in H.
  destruct (nth_error m u) as [mr|] eqn:E1; [|discriminate]. destruct (nth_error w u) as [wr|] eqn:E2; [|discriminate].
  cbn in H. injection H as <-. unfold maskrow. rewrite map_length, combine_length.
  rewrite Forall_forall in Hm, Hw. rewrite (Hm mr (nth_error_In _ _ E1)), (Hw wr (nth_error_In _ _ E2)). lia.
Qed.

Section BnafMono.
  Context {A : Type} (zero : A) (add mul : A -> A -> A) (lt : A -> A -> Prop).
  Hypothesis mul_zero_l : forall a, mul zero a = zero.
  Hypothesis lt_trans : forall a b c, lt a b -> lt b c -> lt a c.
  Hypothesis add_lt_l : forall a a' b, lt a a' -> lt (add a b) (add a' b).
  Hypothesis add_lt_r : forall a b b', lt b b' -> lt (add a b) (add a b').
  Hypothesis mul_pos_lt : forall w a a', lt zero w -> lt a a' -> lt (mul w a) (mul w a').
  Variable act : A -> A.
  Hypothesis act_incr : forall a a', lt a a' -> lt (act a) (act a').
  Local Notation dot := (dot zero add mul).
  Local Notation linear := (linear zero add mul).

  Definition rel1 (s : status) (a a' : A) : Prop := match s with SEq => a = a' | SLt => lt a a' | SFree => True end.
  Definition vrel (st : nat -> status) (x x' : list A) : Prop :=
    length x = length x' /\ forall c a a', nth_error x c = Some a -> nth_error x' c = Some a' -> rel1 (st c) a a'.
  Definition wok (st : nat -> status) (w : list A) : Prop :=
    forall c v, nth_error w c = Some v -> match st c with SEq => True | SLt => lt zero v | SFree => v = zero end.
  Definition le' (a b : A) : Prop := a = b \/ lt a b.

  Lemma add_lt_le T T' D D' : lt T T' -> le' D D' -> lt (add T D) (add T' D').
  Proof. intros H [->|HD]; [apply add_lt_l; exact H|]. apply (lt_trans _ (add T' D)); [apply add_lt_l; exact H|apply add_lt_r; exact HD]. Qed.
  Lemma add_le_lt T T' D D' : le' T T' -> lt D D' -> lt (add T D) (add T' D').
  Proof. intros [->|HT] H; [apply add_lt_r; exact H|]. apply add_lt_le; [exact HT|right; exact H]. Qed.
  Lemma add_le_le T T' D D' : le' T T' -> le' D D' -> le' (add T D) (add T' D').
  Proof. intros [->|HT] HD; [destruct HD as [->|HD]; [left; reflexivity|right; apply add_lt_r; exact HD]|right; apply add_lt_le; assumption]. Qed.

  Lemma dot_rel w : forall x x' st, vrel st x x' -> wok st w ->
    le' (dot w x) (dot w x') /\
    ((forall c, (c < length w)%nat -> (c < length x)%nat -> st c <> SLt) -> dot w x = dot w x') /\
    ((exists c, (c < length w)%nat /\ (c < length x)%nat /\ st c = SLt) -> lt (dot w x) (dot w x')).
  Proof.
    induction w as [|v w IH]; intros x x' st [Hlen Hrel] Hw.
    - split; [left; reflexivity|]. split; [reflexivity|]. intros [c [Hc _]]. cbn in Hc. lia.
    - destruct x as [|a xs]; destruct x' as [|a' xs']; try discriminate.
      + split; [left; reflexivity|]. split; [reflexivity|]. intros [c [_ [Hc _]]]. cbn in Hc. lia.
      + assert (Hv : vrel (fun c => st (S c)) xs xs').
        { split; [cbn in Hlen; lia|]. intros c b b' Hb Hb'. exact (Hrel (S c) b b' Hb Hb'). }
        assert (Hwk : wok (fun c => st (S c)) w) by (intros c u Hu; exact (Hw (S c) u Hu)).
        destruct (IH xs xs' _ Hv Hwk) as [IH1 [IH2 IH3]].
        pose proof (Hrel 0%nat a a' eq_refl eq_refl) as H0. pose proof (Hw 0%nat v eq_refl) as W0.
        assert (Hhead : le' (mul v a) (mul v a') /\ (st 0%nat <> SLt -> mul v a = mul v a') /\ (st 0%nat = SLt -> lt (mul v a) (mul v a'))).
        { destruct (st 0%nat); cbn in H0.
          - subst a'. split; [left; reflexivity|]. split; [reflexivity|discriminate].
          - split; [right; apply mul_pos_lt; assumption|]. split; [congruence|intros _; apply mul_pos_lt; assumption].
          - subst v. rewrite !mul_zero_l. split; [left; reflexivity|]. split; [reflexivity|discriminate]. }
        destruct Hhead as [Hh1 [Hh2 Hh3]].
        change (dot (v :: w) (a :: xs)) with (add (mul v a) (dot w xs)).
        change (dot (v :: w) (a' :: xs')) with (add (mul v a') (dot w xs')).
        split; [apply add_le_le; assumption|]. split.
        * intros Hno. rewrite Hh2 by (apply (Hno 0%nat); cbn; lia). rewrite IH2; [reflexivity|].
          intros c Hc1 Hc2. apply (Hno (S c)); cbn; lia.
        * intros [c [Hc1 [Hc2 Hst]]]. destruct c as [|c].
          -- apply add_lt_le; [exact (Hh3 Hst)|exact IH1].
          -- apply add_le_lt; [exact Hh1|]. apply IH3. exists c. cbn in Hc1, Hc2. repeat split; [lia|lia|exact Hst].
  Qed.

  Definition stat (blk : nat -> nat) (i : nat) (c : nat) : status :=
    if (blk c <? i)%nat then SEq else if (blk c =? i)%nat then SLt else SFree.

  (* one block-autoregressive layer with effective weight W *)
  Lemma layer_mono (bin bout : nat -> nat) i (W : list (list A)) b x x' :
    (forall u c v, entry W u c = Some v -> (bout u < bin c)%nat -> v = zero) ->
    (forall u c v, entry W u c = Some v -> bout u = bin c -> lt zero v) ->
    (forall u row, nth_error W u = Some row -> bout u = i -> exists c, (c < length row)%nat /\ (c < length x)%nat /\ bin c = i) ->
    vrel (stat bin i) x x' -> vrel (stat bout i) (linear W b x) (linear W b x').
  Proof.
    intros HZ HP HN [Hlen Hrel]. split; [rewrite !linear_length; reflexivity|].
    intros u y y' Hy Hy'. rewrite nth_error_linear in Hy, Hy'.
    destruct (nth_error W u) as [row|] eqn:Eu; [|discriminate]. destruct (nth_error b u) as [bu|]; [|discriminate].
    injection Hy as <-. injection Hy' as <-.
    unfold stat at 1. destruct (bout u <? i)%nat eqn:E1; [|destruct (bout u =? i)%nat eqn:E2; [|exact I]].
    - apply Nat.ltb_lt in E1. cbn. f_equal.
      set (st := fun c => if (bin c <? i)%nat then SEq else SFree).
      assert (Hv : vrel st x x').
      { split; [exact Hlen|]. intros c a a' Ha Ha'. specialize (Hrel c a a' Ha Ha'). unfold st, stat in *.
        destruct (bin c <? i)%nat; [exact Hrel|exact I]. }
      assert (Hw : wok st row).
      { intros c v Hc. unfold st. destruct (bin c <? i)%nat eqn:E; [exact I|]. apply Nat.ltb_ge in E.
        apply (HZ u c v); [unfold entry; rewrite Eu; exact Hc|lia]. }
      destruct (dot_rel row x x' st Hv Hw) as [_ [H2 _]]. apply H2. intros c _ _. unfold st. destruct (bin c <? i)%nat; discriminate.
    - apply Nat.ltb_ge in E1. apply Nat.eqb_eq in E2. cbn. apply add_lt_l.
      assert (Hw : wok (stat bin i) row).
      { intros c v Hc. unfold stat. destruct (bin c <? i)%nat eqn:E; [exact I|]. apply Nat.ltb_ge in E.
        destruct (bin c =? i)%nat eqn:E'.
        - apply Nat.eqb_eq in E'. apply (HP u c v); [unfold entry; rewrite Eu; exact Hc|lia].
        - apply Nat.eqb_neq in E'. apply (HZ u c v); [unfold entry; rewrite Eu; exact Hc|lia]. }
      destruct (dot_rel row x x' (stat bin i) (conj Hlen Hrel) Hw) as [_ [_ H3]]. apply H3.
      destruct (HN u row Eu E2) as [c [Hc1 [Hc2 Hc3]]]. exists c. repeat split; [exact Hc1|exact Hc2|].
      unfold stat. rewrite Hc3, Nat.ltb_irrefl, Nat.eqb_refl. reflexivity.
  Qed.

  Lemma vrel_map_act st x x' : vrel st x x' -> vrel st (map act x) (map act x').
  Proof.
    intros [Hlen Hrel]. split; [rewrite !map_length; exact Hlen|]. intros c a a' Ha Ha'. rewrite nth_error_map in Ha, Ha'.
    destruct (nth_error x c) as [b|] eqn:E; [|discriminate]. destruct (nth_error x' c) as [b'|] eqn:E'; [|discriminate].
    injection Ha as <-. injection Ha' as <-. specialize (Hrel c b b' E E'). destruct (st c); cbn in *; [congruence|apply act_incr; exact Hrel|exact I].
  Qed.
  Lemma vrel_vadd st x x' t : vrel st x x' -> vrel st (vadd add x t) (vadd add x' t).
  Proof.
    intros [Hlen Hrel]. unfold vadd. split; [rewrite !map_length, !combine_length, Hlen; reflexivity|].
    intros c a a' Ha Ha'. rewrite nth_error_map, nth_error_combine in Ha, Ha'.
    destruct (nth_error x c) as [b|] eqn:E; [|discriminate]. destruct (nth_error x' c) as [b'|] eqn:E'; [|discriminate].
    destruct (nth_error t c) as [tc|]; [|discriminate]. injection Ha as <-. injection Ha' as <-. cbn [fst snd].
    specialize (Hrel c b b' E E'). destruct (st c); cbn in *; [congruence|apply add_lt_l; exact Hrel|exact I].
  Qed.

  (* well-shaped layers with strictly positive raw weights on the diagonal blocks, consecutive block shapes compatible *)
  Fixpoint layers_good (dim : nat) (shapes : list (nat * nat)) (ws : list (list (list A))) (bs : list (list A)) : Prop :=
    match shapes with
    | [] => True
    | s :: rest =>
        let w := hd [] ws in let b := hd [] bs in
        (0 < fst s)%nat /\ (0 < snd s)%nat /\
        length w = (fst s * dim)%nat /\ Forall (fun row => length row = (snd s * dim)%nat) w /\ length b = (fst s * dim)%nat /\
        (forall r c v, entry w r c = Some v -> (c / snd s)%nat = (r / fst s)%nat -> lt zero v) /\
        match rest with [] => True | s2 :: _ => snd s2 = fst s end /\
        layers_good dim rest (tl ws) (tl bs)
    end.

  Lemma tril_layer_mono dim i bh bw (w : list (list A)) b x x' :
    (0 < bh)%nat -> (0 < bw)%nat -> (i < dim)%nat ->
    length w = (bh * dim)%nat -> Forall (fun row => length row = (bw * dim)%nat) w -> length b = (bh * dim)%nat ->
    (forall r c v, entry w r c = Some v -> (c / bw)%nat = (r / bh)%nat -> lt zero v) ->
    length x = (bw * dim)%nat ->
    vrel (stat (fun c => c / bw)%nat i) x x' ->
    let h := linear (where_mask zero (block_tril_mask bh bw dim 0) w) b x in
    let h' := linear (where_mask zero (block_tril_mask bh bw dim 0) w) b x' in
    vrel (stat (fun u => u / bh)%nat i) h h' /\ length h = (bh * dim)%nat.
  Proof.
    intros Hbh Hbw Hi Hlw Hrw Hlb Hpos Hlx Hv h h'.
    destruct (block_tril_shape bh bw dim 0) as [HR HC].
    split.
    - apply (layer_mono (fun c => c / bw)%nat (fun u => u / bh)%nat i); [| | |exact Hv].
      + intros u c v He Hlt. rewrite entry_where_mask in He.
        destruct (entry (block_tril_mask bh bw dim 0) u c) as [bb|] eqn:Et; [|discriminate].
        destruct (entry_Some_bounds _ _ _ u c bb HR HC Et) as [Hu Hc]. rewrite block_tril_closed_form_0 in Et by assumption.
        injection Et as <-. destruct (entry w u c); [|discriminate]. injection He as <-.
        destruct (Nat.leb_spec (c / bw) (u / bh)); [lia|reflexivity].
      + intros u c v He Heq. rewrite entry_where_mask in He.
        destruct (entry (block_tril_mask bh bw dim 0) u c) as [bb|] eqn:Et; [|discriminate].
        destruct (entry_Some_bounds _ _ _ u c bb HR HC Et) as [Hu Hc]. rewrite block_tril_closed_form_0 in Et by assumption.
        injection Et as <-. destruct (entry w u c) as [v0|] eqn:Ew; [|discriminate]. injection He as <-.
        destruct (Nat.leb_spec (c / bw) (u / bh)); [|lia]. apply (Hpos u c v0 Ew). lia.
      + intros u row Hrow Hu. exists (i * bw)%nat.
        rewrite (where_mask_row_length zero _ w u row (bw * dim)%nat HC Hrw Hrow), Hlx.
        split; [nia|]. split; [nia|]. apply Nat.div_mul. lia.
    - unfold h. rewrite linear_length, where_mask_length, HR, Hlw, Hlb. lia.
  Qed.

  Lemma bnaf_run_mono dim i : forall shapes first cterm ws bs x x' bw0,
    (i < dim)%nat -> layers_good dim shapes ws bs ->
    match shapes with [] => True | s :: _ => snd s = bw0 end ->
    (first = true -> match cterm, shapes with Some t, s :: _ => (fst s * dim <= length t)%nat | _, _ => True end) ->
    length x = (bw0 * dim)%nat -> vrel (stat (fun c => c / bw0)%nat i) x x' ->
    let bhl := match shapes with [] => bw0 | _ :: _ => fst (last shapes (0, 0)%nat) end in
    let masks := map (fun s => block_tril_mask (fst s) (snd s) dim 0) shapes in
    vrel (stat (fun u => u / bhl)%nat i) (bnaf_run zero add mul act first cterm ws bs masks x) (bnaf_run zero add mul act first cterm ws bs masks x')
    /\ length (bnaf_run zero add mul act first cterm ws bs masks x) = (bhl * dim)%nat.
  Proof.
    induction shapes as [|s rest IH]; intros first cterm ws bs x x' bw0 Hi Hg H0 Hct Hlx Hv.
    - cbn. split; assumption.
    - destruct s as [bh bw]. cbn [fst snd] in H0. subst bw0.
      cbn [layers_good fst snd] in Hg. destruct Hg as [Hbh [Hbw [Hlw [Hrw [Hlb [Hpos [Hnext Hg]]]]]]].
      destruct (tril_layer_mono dim i bh bw (hd [] ws) (hd [] bs) x x' Hbh Hbw Hi Hlw Hrw Hlb Hpos Hlx Hv) as [Hh Hlh].
      cbn [map bnaf_run fst snd].
      destruct rest as [|s2 rest].
      + cbn [map last fst]. split; assumption.
      + cbn [map].
        set (h := linear (where_mask zero (block_tril_mask bh bw dim 0) (hd [] ws)) (hd [] bs) x) in *.
        set (h' := linear (where_mask zero (block_tril_mask bh bw dim 0) (hd [] ws)) (hd [] bs) x') in *.
        set (g := match first, cterm with true, Some t => vadd add h t | _, _ => h end).
        set (g' := match first, cterm with true, Some t => vadd add h' t | _, _ => h' end).
        assert (Hgv : vrel (stat (fun u => (u / bh)%nat) i) g g').
        { unfold g, g'. destruct first; [destruct cterm as [t|]|]; try exact Hh. apply vrel_vadd. exact Hh. }
        assert (Hlg : length g = (bh * dim)%nat).
        { unfold g. destruct first; [destruct cterm as [t|]|]; try exact Hlh.
          unfold vadd. rewrite map_length, combine_length, Hlh. specialize (Hct eq_refl). cbn [fst] in Hct. lia. }
        pose proof (vrel_map_act _ _ _ Hgv) as Hm.
        change (last ((bh, bw) :: s2 :: rest) (0, 0)%nat) with (last (s2 :: rest) (0, 0)%nat).
        apply (IH false cterm (tl ws) (tl bs) (map act g) (map act g') bh); try assumption.
        * intros Hf; discriminate.
        * rewrite map_length. exact Hlg.
  Qed.

  (* y_i is strictly increasing in x_i, whatever the later coordinates do: all weights (positive on the diagonal
     blocks), biases, depths, block sizes, any strictly increasing activation, any condition term *)
  Theorem bnaf_monotone dim depth bd ws bs cterm x x' i a a' :
    (0 < bd)%nat -> (i < dim)%nat -> length x = dim -> length x' = dim ->
    layers_good dim (bnaf_block_shapes depth bd) ws bs ->
    match cterm with Some t => (bd * dim <= length t)%nat | None => True end ->
    (forall j, (j < i)%nat -> nth_error x j = nth_error x' j) ->
    nth_error x i = Some a -> nth_error x' i = Some a' -> lt a a' ->
    exists y y', nth_error (bnaf_transform zero add mul dim depth bd ws bs act cterm x) i = Some y /\
                 nth_error (bnaf_transform zero add mul dim depth bd ws bs act cterm x') i = Some y' /\ lt y y'.
  Proof.
    intros Hbd Hi Hlx Hlx' Hg Hct Hag Ha Ha' Hlt. unfold bnaf_transform, bnaf_tril_masks.
    assert (Hv : vrel (stat (fun c => (c / 1)%nat) i) x x').
    { split; [lia|]. intros c b b' Hb Hb'. unfold stat. rewrite Nat.div_1_r.
      destruct (c <? i)%nat eqn:E1; [apply Nat.ltb_lt in E1; cbn; specialize (Hag c E1); congruence|].
      destruct (c =? i)%nat eqn:E2; [|exact I]. apply Nat.eqb_eq in E2. subst c. cbn. congruence. }
    destruct (bnaf_run_mono dim i (bnaf_block_shapes depth bd) true cterm ws bs x x' 1%nat Hi Hg) as [Hr Hl].
    - unfold bnaf_block_shapes. destruct depth; reflexivity.
    - intros _. destruct cterm as [t|]; [|exact I]. unfold bnaf_block_shapes. destruct depth; cbn [fst]; nia.
    - lia.
    - exact Hv.
    - assert (Hlast : match bnaf_block_shapes depth bd with [] => 1%nat | _ :: _ => fst (last (bnaf_block_shapes depth bd) (0, 0)%nat) end = 1%nat).
      { unfold bnaf_block_shapes. destruct depth as [|d]; [reflexivity|]. rewrite app_comm_cons, last_last. reflexivity. }
      cbv zeta in Hr, Hl. rewrite Hlast in Hr, Hl. destruct Hr as [Hlen Hrel].
      set (Y := bnaf_run zero add mul act true cterm ws bs (map (fun s => block_tril_mask (fst s) (snd s) dim 0) (bnaf_block_shapes depth bd)) x) in *.
      set (Y' := bnaf_run zero add mul act true cterm ws bs (map (fun s => block_tril_mask (fst s) (snd s) dim 0) (bnaf_block_shapes depth bd)) x') in *.
      destruct (nth_error Y i) as [y|] eqn:Ey; [|apply nth_error_None in Ey; lia].
      destruct (nth_error Y' i) as [y'|] eqn:Ey'; [|apply nth_error_None in Ey'; lia].
      exists y, y'. repeat split. specialize (Hrel i y y' Ey Ey'). unfold stat in Hrel.
      rewrite Nat.div_1_r, Nat.ltb_irrefl, Nat.eqb_refl in Hrel. exact Hrel.
  Qed.
End BnafMono.
