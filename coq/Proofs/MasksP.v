(* Lemmas about Model/Masks.v (property C09).  Everything here is closed under the global context.
   Statements about vectors use nth_error / entry (option valued), never a default element, so that nothing
   is true because of a totalised accessor. *)
From Coq Require Import List ZArith Bool Arith Lia ZifyBool.
From FJ Require Import Model.Masks.
Import ListNotations.

(* ------------------------------------------------------------------------------------------ *)
(* 0. small list facts                                                                         *)
(* ------------------------------------------------------------------------------------------ *)
Lemma last_cons {T} (a : T) l d : last (a :: l) d = last l a.
Proof.
  revert a d. induction l as [|b l IH]; intros a d; [reflexivity|].
  change (last (a :: b :: l) d) with (last (b :: l) d). rewrite (IH b d), (IH b a). reflexivity.
Qed.

Lemma nth_error_seq a n i : (i < n)%nat -> nth_error (seq a n) i = Some (a + i)%nat.
Proof. revert a i. induction n as [|n IH]; intros a i H; [lia|]. destruct i; cbn; [f_equal; lia|]. rewrite IH by lia. f_equal; lia. Qed.

Lemma nth_error_arange n i : (i < n)%nat -> nth_error (arange n) i = Some (Z.of_nat i).
Proof. intros H. unfold arange. rewrite nth_error_map, nth_error_seq by exact H. reflexivity. Qed.

Lemma nth_error_repeat {T} (v : T) n i : (i < n)%nat -> nth_error (repeat v n) i = Some v.
Proof. revert i. induction n as [|n IH]; intros i H; [lia|]. destruct i; cbn; [reflexivity|]. apply IH; lia. Qed.

Lemma nth_error_jnp_repeat {T} (l : list T) n i p : (p < n)%nat -> nth_error (jnp_repeat l n) (i * n + p) = nth_error l i.
Proof.
  intros Hp. revert i. induction l as [|v l IH]; intros i; unfold jnp_repeat in *; cbn [flat_map].
  - cbn. destruct (i * n + p)%nat; destruct i; reflexivity.
  - destruct i as [|i].
    + cbn [Nat.mul Nat.add nth_error]. rewrite nth_error_app1 by (rewrite repeat_length; exact Hp). apply nth_error_repeat; exact Hp.
    + rewrite nth_error_app2 by (rewrite repeat_length; lia). rewrite repeat_length.
      replace (S i * n + p - n)%nat with (i * n + p)%nat by lia. cbn [nth_error]. apply IH.
Qed.

Lemma entry_map_map {T U V} (f : U -> V -> T) (rows : list U) (cols : list V) r c u v :
  nth_error rows r = Some u -> nth_error cols c = Some v ->
  entry (map (fun a => map (fun b => f a b) cols) rows) r c = Some (f u v).
Proof. intros Hr Hc. unfold entry. rewrite nth_error_map, Hr. cbn. rewrite nth_error_map, Hc. reflexivity. Qed.

(* ------------------------------------------------------------------------------------------ *)
(* 1. rank_based_mask                                                                          *)
(* ------------------------------------------------------------------------------------------ *)
Lemma rank_mask_spec in_ranks out_ranks eq o i ro ri :
  nth_error out_ranks o = Some ro -> nth_error in_ranks i = Some ri ->
  entry (rank_based_mask in_ranks out_ranks eq) o i = Some (if eq then (ri <=? ro)%Z else (ri <? ro)%Z).
Proof.
  intros Ho Hi. unfold rank_based_mask.
  rewrite (entry_map_map (fun ro ri => if eq then (ro >=? ri)%Z else (ro >? ri)%Z) _ _ o i ro ri Ho Hi).
  destruct eq; f_equal; lia.
Qed.

Lemma rank_mask_shape in_ranks out_ranks eq :
  length (rank_based_mask in_ranks out_ranks eq) = length out_ranks /\
  Forall (fun row => length row = length in_ranks) (rank_based_mask in_ranks out_ranks eq).
Proof.
  unfold rank_based_mask. split; [apply map_length|]. apply Forall_forall. intros row Hin.
  apply in_map_iff in Hin. destruct Hin as [ro [<- _]]. apply map_length.
Qed.

(* masked_autoregressive_mlp's mask list, unrolled layer by layer *)
Lemma mlp_masks_0 rin hid rout : mlp_masks rin hid rout 0 = [rank_based_mask rin rout false].
Proof. reflexivity. Qed.
Lemma mlp_masks_S rin hid rout d :
  mlp_masks rin hid rout (S d) = rank_based_mask rin hid true :: mlp_masks hid hid rout d.
Proof.
  unfold mlp_masks.
  replace (seq 0 (S (S d))) with (0%nat :: map S (seq 0 (S d))) by (rewrite seq_shift; reflexivity).
  rewrite map_cons, map_map. reflexivity.
Qed.

(* ------------------------------------------------------------------------------------------ *)
(* 2. the core: a masked layer only sees the unmasked coordinates -- any carrier with 0*a = 0   *)
(* ------------------------------------------------------------------------------------------ *)
Section Agree.
  Context {A : Type}.

  (* x and x' have the same length and agree at every position whose flag in p is true
     (positions beyond the end of p carry no constraint) *)
  Fixpoint agreeb (p : list bool) (x x' : list A) : Prop :=
    match x, x' with
    | [], [] => True
    | a :: x, a' :: x' => (hd false p = true -> a = a') /\ agreeb (tl p) x x'
    | _, _ => False
    end.
  (* every true entry of the mask row m sits at a position flagged in p *)
  Fixpoint row_ok (m p : list bool) : bool :=
    match m with [] => true | b :: ms => implb b (hd false p) && row_ok ms (tl p) end.
  (* every output flagged in pout has a mask row that is row_ok w.r.t. pin *)
  Fixpoint layer_ok (m : list (list bool)) (pin pout : list bool) : bool :=
    match m with [] => true | mrow :: ms => implb (hd false pout) (row_ok mrow pin) && layer_ok ms pin (tl pout) end.
  Fixpoint chain_ok (masks : list (list (list bool))) (pin : list bool) (prest : list (list bool)) : bool :=
    match masks, prest with
    | [], [] => true
    | m :: ms, pout :: ps => layer_ok m pin pout && chain_ok ms pout ps
    | _, _ => false
    end.

  Lemma agreeb_length p x x' : agreeb p x x' -> length x = length x'.
  Proof. revert p x'. induction x as [|a x IH]; intros p [|a' x'] H; cbn in *; try tauto. f_equal. destruct H as [_ H]. exact (IH _ _ H). Qed.

  Lemma agreeb_refl p x : agreeb p x x.
  Proof. revert p. induction x as [|a x IH]; intros p; cbn; [exact I|]. split; [reflexivity|apply IH]. Qed.

  Lemma agreeb_map p (f : A -> A) x x' : agreeb p x x' -> agreeb p (map f x) (map f x').
  Proof.
    revert p x'. induction x as [|a x IH]; intros p [|a' x'] H; cbn in *; try tauto.
    destruct H as [H1 H2]. split; [intros Hp; f_equal; exact (H1 Hp)|]. apply IH; exact H2.
  Qed.

  (* ---- rank form ---- *)
  Lemma agreeb_of_nth {T} (P : T -> bool) (ranks : list T) x x' :
    length x = length x' ->
    (forall i r, nth_error ranks i = Some r -> P r = true -> nth_error x i = nth_error x' i) ->
    agreeb (map P ranks) x x'.
  Proof.
    revert ranks x'. induction x as [|a x IH]; intros ranks [|a' x'] Hlen H; cbn in *; try discriminate; [exact I|].
    split.
    - destruct ranks as [|r ranks]; cbn; [discriminate|]. intros HP. specialize (H 0%nat r eq_refl HP). cbn in H. congruence.
    - destruct ranks as [|r ranks]; cbn [tl map].
      + apply (IH (@nil T)); [lia|]. intros i r Hn. destruct i; discriminate.
      + apply IH; [lia|]. intros i r' Hn HP. exact (H (S i) r' Hn HP).
  Qed.

  Lemma agreeb_nth {T} (P : T -> bool) (ranks : list T) x x' :
    agreeb (map P ranks) x x' ->
    forall i r, nth_error ranks i = Some r -> P r = true -> nth_error x i = nth_error x' i.
  Proof.
    revert ranks x'. induction x as [|a x IH]; intros ranks [|a' x'] H i r Hn HP; cbn in H; try tauto.
    destruct H as [H1 H2]. destruct ranks as [|r0 ranks]; [destruct i; discriminate|].
    destruct i as [|i]; cbn in *.
    - injection Hn as ->. f_equal. exact (H1 HP).
    - exact (IH ranks x' H2 i r Hn HP).
  Qed.

  Lemma row_ok_rank (q P : Z -> bool) ranks :
    (forall r, q r = true -> P r = true) -> row_ok (map q ranks) (map P ranks) = true.
  Proof.
    intros H. induction ranks as [|r ranks IH]; [reflexivity|]. cbn. rewrite IH, andb_true_r.
    destruct (q r) eqn:E; [|reflexivity]. cbn. exact (H r E).
  Qed.

  Lemma layer_ok_rank (P Q : Z -> bool) rin rout (eq : bool) :
    (forall ro ri, Q ro = true -> (if eq then (ro >=? ri)%Z else (ro >? ri)%Z) = true -> P ri = true) ->
    layer_ok (rank_based_mask rin rout eq) (map P rin) (map Q rout) = true.
  Proof.
    intros H. unfold rank_based_mask. induction rout as [|ro rout IH]; [reflexivity|].
    cbn [map layer_ok hd tl]. rewrite IH, andb_true_r.
    destruct (Q ro) eqn:E; [|reflexivity]. cbn [implb].
    apply (row_ok_rank (fun ri => if eq then (ro >=? ri)%Z else (ro >? ri)%Z) P rin). intros r. apply H. exact E.
  Qed.

  Lemma chain_ok_rank t rin hid rout depth :
    chain_ok (mlp_masks rin hid rout depth) (map (fun r => (r <? t)%Z) rin)
             (repeat (map (fun r => (r <? t)%Z) hid) depth ++ [map (fun r => (r <=? t)%Z) rout]) = true.
  Proof.
    revert rin. induction depth as [|d IH]; intros rin.
    - rewrite mlp_masks_0. cbn [repeat app chain_ok]. rewrite andb_true_r.
      apply layer_ok_rank. intros ro ri H1 H2. lia.
    - rewrite mlp_masks_S. cbn [repeat app chain_ok]. rewrite IH, andb_true_r.
      apply layer_ok_rank. intros ro ri H1 H2. lia.
  Qed.

End Agree.

Lemma row_ok_of_nth m p : (forall i, nth_error m i = Some true -> nth_error p i = Some true) -> row_ok m p = true.
Proof.
  revert p. induction m as [|b m IH]; intros p H; [reflexivity|]. cbn [row_ok]. apply andb_true_iff. split.
  - destruct b; [|reflexivity]. specialize (H 0%nat eq_refl). destruct p as [|b0 p]; [discriminate|]. cbn in *. congruence.
  - apply IH. intros i Hi. specialize (H (S i) Hi). destruct p; [destruct i; discriminate|exact H].
Qed.
Lemma layer_ok_of_entries m pin pout :
  (forall o i, nth_error pout o = Some true -> entry m o i = Some true -> nth_error pin i = Some true) ->
  layer_ok m pin pout = true.
Proof.
  revert pout. induction m as [|mrow m IH]; intros pout H; [reflexivity|]. cbn [layer_ok]. apply andb_true_iff. split.
  - destruct (hd false pout) eqn:E; [|reflexivity]. cbn [implb]. apply row_ok_of_nth. intros i Hi.
    apply (H 0%nat i); [destruct pout; cbn in *; congruence|exact Hi].
  - apply IH. intros o i Ho He. apply (H (S o) i); [destruct pout; [destruct o; discriminate|exact Ho]|exact He].
Qed.


Section Masked.
  Context {A : Type} (zero : A) (add mul : A -> A -> A).
  Hypothesis mul_zero_l : forall a, mul zero a = zero.
  Local Notation dot := (dot zero add mul).
  Local Notation maskrow := (maskrow zero).
  Local Notation where_mask := (where_mask zero).
  Local Notation linear := (linear zero add mul).
  Local Notation masked_mlp := (masked_mlp zero add mul).

  (* dot_masked_agree (design probe Mask.v), position form *)
  Lemma dot_agree m p w x x' : row_ok m p = true -> agreeb p x x' -> dot (maskrow m w) x = dot (maskrow m w) x'.
  Proof.
    revert m p w x'. induction x as [|a x IH]; intros m p w [|a' x'] Hok Hag; cbn [agreeb] in Hag; try tauto.
    destruct Hag as [Hhd Htl].
    destruct m as [|b m]; [reflexivity|]. destruct w as [|v w]; [reflexivity|].
    cbn [row_ok] in Hok. apply andb_true_iff in Hok. destruct Hok as [Hb Hok].
    unfold Masks.dot, Masks.maskrow. cbn [combine map fold_right fst snd].
    f_equal.
    - destruct b; [|now rewrite !mul_zero_l]. cbn [implb] in Hb. f_equal. exact (Hhd Hb).
    - exact (IH m (tl p) w x' Hok Htl).
  Qed.

  Lemma layer_agree m pin pout w b x x' :
    layer_ok m pin pout = true -> agreeb pin x x' ->
    agreeb pout (linear (where_mask m w) b x) (linear (where_mask m w) b x').
  Proof.
    intros Hok Hag. revert pout w b Hok.
    induction m as [|mrow m IH]; intros pout w b Hok; [exact I|].
    destruct w as [|wr w]; [exact I|]. destruct b as [|bi b]; [exact I|].
    cbn [layer_ok] in Hok. apply andb_true_iff in Hok. destruct Hok as [Hrow Hok].
    unfold Masks.linear, Masks.where_mask. cbn [combine map fst snd agreeb]. split.
    - intros Hp. rewrite Hp in Hrow. cbn [implb] in Hrow. f_equal. exact (dot_agree mrow pin wr x x' Hrow Hag).
    - exact (IH (tl pout) w b Hok).
  Qed.

  (* the whole network: flags propagate through every layer, whatever the weights, biases and activation *)
  Lemma mlp_agree act masks : forall pin prest ws bs x x',
    chain_ok masks pin prest = true -> agreeb pin x x' ->
    agreeb (last prest pin) (masked_mlp ws bs masks act x) (masked_mlp ws bs masks act x').
  Proof.
    induction masks as [|m ms IH]; intros pin prest ws bs x x' Hok Hag.
    - destruct prest; [exact Hag|discriminate].
    - destruct prest as [|pout ps]; [discriminate|].
      cbn [chain_ok] in Hok. apply andb_true_iff in Hok. destruct Hok as [Hl Hc].
      pose proof (layer_agree m pin pout (hd [] ws) (hd [] bs) x x' Hl Hag) as Hh.
      rewrite last_cons. cbn [Masks.masked_mlp].
      destruct ms as [|m2 ms].
      + destruct ps; [exact Hh|discriminate].
      + apply (IH pout ps (tl ws) (tl bs)); [exact Hc|]. apply agreeb_map. exact Hh.
  Qed.

  (* MAIN: if x and x' agree on every input of rank < t, every output of rank <= t agrees. *)
  Theorem masked_mlp_dependence act rin hid rout depth ws bs x x' t :
    length x = length x' ->
    (forall j r, nth_error rin j = Some r -> (r < t)%Z -> nth_error x j = nth_error x' j) ->
    forall i r, nth_error rout i = Some r -> (r <= t)%Z ->
      nth_error (masked_mlp ws bs (mlp_masks rin hid rout depth) act x) i =
      nth_error (masked_mlp ws bs (mlp_masks rin hid rout depth) act x') i.
  Proof.
    intros Hlen Hin i r Hi Hr.
    assert (Hag : agreeb (map (fun r => (r <? t)%Z) rin) x x').
    { apply agreeb_of_nth; [exact Hlen|]. intros j rj Hj HP. apply (Hin j rj Hj). lia. }
    pose proof (mlp_agree act _ _ _ ws bs x x' (chain_ok_rank t rin hid rout depth) Hag) as H.
    rewrite last_last in H.
    apply (agreeb_nth (fun r => (r <=? t)%Z) rout _ _ H i r Hi). lia.
  Qed.

  Lemma masked_mlp_same_length act masks ws bs x x' :
    length x = length x' -> length (masked_mlp ws bs masks act x) = length (masked_mlp ws bs masks act x').
  Proof.
    intros Hlen.
    assert (Hc : forall masks pin, chain_ok masks pin (map (fun _ => []) masks) = true).
    { clear. induction masks as [|m ms IH]; intros pin; [reflexivity|]. cbn [map chain_ok]. rewrite IH, andb_true_r.
      clear. induction m as [|r m IH]; [reflexivity|]. cbn. exact IH. }
    assert (Hag : agreeb [] x x').
    { clear -Hlen. revert x' Hlen. induction x as [|a x IH]; intros [|a' x'] H; cbn in *; try discriminate; [exact I|].
      split; [discriminate|]. apply IH; lia. }
    exact (agreeb_length _ _ _ (mlp_agree act masks [] _ ws bs x x' (Hc masks []) Hag)).
  Qed.
End Masked.

(* ------------------------------------------------------------------------------------------ *)
(* 3. MaskedAutoregressive                                                                     *)
(* ------------------------------------------------------------------------------------------ *)
Lemma nth_error_ext_eq {T} (l l' : list T) : (forall i, nth_error l i = nth_error l' i) -> l = l'.
Proof.
  revert l'. induction l as [|a l IH]; intros [|a' l'] H.
  - reflexivity.
  - specialize (H 0%nat). discriminate.
  - specialize (H 0%nat). discriminate.
  - pose proof (H 0%nat) as H0. cbn in H0. injection H0 as ->. f_equal. apply IH. intros i. exact (H (S i)).
Qed.
Lemma nth_error_skipn' {T} (l : list T) s p : nth_error (skipn s l) p = nth_error l (s + p).
Proof. revert l. induction s as [|s IH]; intros l; [reflexivity|]. destruct l; [destruct p; reflexivity|]. cbn. apply IH. Qed.
Lemma nth_error_firstn' {T} (l : list T) k p : nth_error (firstn k l) p = if (p <? k)%nat then nth_error l p else None.
Proof.
  revert l p. induction k as [|k IH]; intros l p; [destruct p; reflexivity|].
  destruct l as [|a l]; [destruct p; cbn [firstn nth_error]; [reflexivity|destruct (S p <? S k)%nat; reflexivity]|].
  destruct p; [reflexivity|]. cbn [firstn nth_error]. rewrite IH. reflexivity.
Qed.
Lemma nth_error_combine {T U} (a : list T) (b : list U) i :
  nth_error (combine a b) i = match nth_error a i, nth_error b i with Some u, Some v => Some (u, v) | _, _ => None end.
Proof.
  revert b i. induction a as [|u a IH]; intros b i; [destruct i; reflexivity|].
  destruct b as [|v b]; [destruct i; cbn; [reflexivity|destruct (nth_error a i); reflexivity]|].
  destruct i; [reflexivity|]. cbn. apply IH.
Qed.
Lemma skipn_add {T} a b (l : list T) : skipn a (skipn b l) = skipn (b + a) l.
Proof. revert l. induction b as [|b IH]; intros l; [reflexivity|]. destruct l; [cbn; destruct a; reflexivity|]. cbn. apply IH. Qed.
Lemma nth_error_chunks {A} n k (l : list A) i : (i < n)%nat -> nth_error (chunks n k l) i = Some (firstn k (skipn (i * k) l)).
Proof.
  revert l i. induction n as [|n IH]; intros l i H; [lia|]. destruct i as [|i]; [reflexivity|].
  cbn [chunks nth_error]. rewrite IH by lia. rewrite skipn_add. replace (k + i * k)%nat with (S i * k)%nat by lia. reflexivity.
Qed.
Lemma chunks_length {A} n k (l : list A) : length (chunks n k l) = n.
Proof. revert l. induction n as [|n IH]; intros l; [reflexivity|]. cbn. f_equal. apply IH. Qed.

Lemma maf_in_ranks_cases dim cond j r :
  nth_error (maf_in_ranks dim cond) j = Some r ->
  ((j < dim)%nat /\ r = Z.of_nat j) \/ ((dim <= j)%nat /\ r = (-1)%Z /\ exists cd, cond = Some cd /\ (j < dim + cd)%nat).
Proof.
  intros H. destruct (Nat.lt_ge_cases j dim) as [Hlt|Hge].
  - left. split; [exact Hlt|]. unfold maf_in_ranks in H. destruct cond as [cd|].
    + rewrite nth_error_app1 in H by (unfold arange; rewrite map_length, seq_length; exact Hlt).
      rewrite nth_error_arange in H by exact Hlt. congruence.
    + rewrite nth_error_arange in H by exact Hlt. congruence.
  - right. split; [exact Hge|]. unfold maf_in_ranks in H. destruct cond as [cd|].
    + assert (Hl : length (arange dim) = dim) by (unfold arange; rewrite map_length, seq_length; reflexivity).
      rewrite nth_error_app2 in H by (rewrite Hl; exact Hge). rewrite Hl in H.
      assert (Hj : (j - dim < cd)%nat).
      { destruct (Nat.lt_ge_cases (j - dim) cd) as [Hc|Hc]; [exact Hc|].
        assert (Hn : nth_error (repeat (-1)%Z cd) (j - dim) = None) by (apply nth_error_None; rewrite repeat_length; exact Hc).
        congruence. }
      rewrite nth_error_repeat in H by exact Hj. split; [congruence|]. exists cd. split; [reflexivity|lia].
    + assert (Hn : nth_error (arange dim) j = None) by (apply nth_error_None; unfold arange; rewrite map_length, seq_length; exact Hge).
      congruence.
Qed.
Lemma maf_in_rank_x dim cond j : (j < dim)%nat -> nth_error (maf_in_ranks dim cond) j = Some (Z.of_nat j).
Proof.
  intros H. unfold maf_in_ranks. destruct cond.
  - rewrite nth_error_app1 by (unfold arange; rewrite map_length, seq_length; exact H). apply nth_error_arange; exact H.
  - apply nth_error_arange; exact H.
Qed.
Lemma maf_in_rank_c dim cd q : (q < cd)%nat -> nth_error (maf_in_ranks dim (Some cd)) (dim + q) = Some (-1)%Z.
Proof.
  intros H. unfold maf_in_ranks.
  assert (Hl : length (arange dim) = dim) by (unfold arange; rewrite map_length, seq_length; reflexivity).
  rewrite nth_error_app2 by (rewrite Hl; lia). rewrite Hl. replace (dim + q - dim)%nat with q by lia.
  apply nth_error_repeat; exact H.
Qed.
Lemma maf_out_rank dim npar i p : (i < dim)%nat -> (p < npar)%nat ->
  nth_error (maf_out_ranks dim npar) (i * npar + p) = Some (Z.of_nat i).
Proof. intros Hi Hp. unfold maf_out_ranks. rewrite nth_error_jnp_repeat by exact Hp. apply nth_error_arange; exact Hi. Qed.

Section Maf.
  Context {A : Type} (zero : A) (add mul : A -> A -> A).
  Hypothesis mul_zero_l : forall a, mul zero a = zero.

  (* the transformer parameters of coordinate i depend on x_0..x_{i-1} only (and on the condition) *)
  Theorem maf_params_autoregressive act dim cond width depth npar ws bs x x' c i :
    length x = dim -> length x' = dim -> (i < dim)%nat ->
    (forall j, (j < i)%nat -> nth_error x j = nth_error x' j) ->
    forall p, (p < npar)%nat ->
      nth_error (maf_params zero add mul dim cond width depth npar ws bs act x c) (i * npar + p) =
      nth_error (maf_params zero add mul dim cond width depth npar ws bs act x' c) (i * npar + p).
  Proof.
    intros Hx Hx' Hi Hag p Hp. unfold maf_params, maf_masks.
    apply (masked_mlp_dependence zero add mul mul_zero_l act _ _ _ depth ws bs _ _ (Z.of_nat i)) with (r := Z.of_nat i).
    - destruct cond; rewrite ?app_length; lia.
    - intros j r Hj Hr. destruct (maf_in_ranks_cases dim cond j r Hj) as [[Hlt ->]|[Hge [-> [cd [-> Hjc]]]]].
      + assert (Hji : (j < i)%nat) by lia. destruct cond.
        * rewrite !nth_error_app1 by lia. exact (Hag j Hji).
        * exact (Hag j Hji).
      + rewrite !nth_error_app2 by lia. rewrite Hx, Hx'. reflexivity.
    - apply maf_out_rank; assumption.
    - lia.
  Qed.

  (* y_i = transformer(params_i)(x_i) depends on x_0..x_i only (and on the condition), for ANY transformer family tau *)
  Theorem maf_output_autoregressive (tau : list A -> A -> A) act dim cond width depth npar ws bs x x' c i :
    length x = dim -> length x' = dim -> (i < dim)%nat -> (0 < npar)%nat ->
    length (maf_params zero add mul dim cond width depth npar ws bs act x c) = (dim * npar)%nat ->
    (forall j, (j <= i)%nat -> nth_error x j = nth_error x' j) ->
    nth_error (maf_transform zero add mul tau dim cond width depth npar ws bs act x c) i =
    nth_error (maf_transform zero add mul tau dim cond width depth npar ws bs act x' c) i.
  Proof.
    intros Hx Hx' Hi Hnp Hlen Hag. unfold maf_transform.
    set (P := maf_params zero add mul dim cond width depth npar ws bs act x c) in *.
    set (P' := maf_params zero add mul dim cond width depth npar ws bs act x' c).
    assert (Hlen' : length P' = length P).
    { unfold P, P', maf_params. apply masked_mlp_same_length; [exact mul_zero_l|]. destruct cond; rewrite ?app_length; lia. }
    rewrite !nth_error_map, !nth_error_combine. unfold reshape_rows.
    rewrite Hlen', Hlen. replace (dim * npar / dim)%nat with npar by (rewrite Nat.mul_comm, Nat.div_mul; lia).
    rewrite !nth_error_chunks by exact Hi. rewrite (Hag i (le_n i)).
    replace (firstn npar (skipn (i * npar) P')) with (firstn npar (skipn (i * npar) P)); [reflexivity|].
    apply nth_error_ext_eq. intros p. rewrite !nth_error_firstn', !nth_error_skipn'.
    destruct (p <? npar)%nat eqn:E; [|reflexivity].
    apply (maf_params_autoregressive act dim cond width depth npar ws bs x x' c i Hx Hx' Hi); [|lia].
    intros j Hj. apply Hag. lia.
  Qed.
End Maf.

(* ------------------------------------------------------------------------------------------ *)
(* 4. no permitted dependency is missing when the hidden layers are wide enough                *)
(* ------------------------------------------------------------------------------------------ *)
(* a path input i -> ... -> output o along which every mask entry is true *)
Fixpoint connected (masks : list (list (list bool))) (i o : nat) : Prop :=
  match masks with
  | [] => i = o
  | m :: rest => exists h, entry m h i = Some true /\ connected rest h o
  end.

Lemma connected_hidden hid rout hidx o (rh ro : Z) depth :
  nth_error hid hidx = Some rh -> nth_error rout o = Some ro -> (rh < ro)%Z ->
  connected (mlp_masks hid hid rout depth) hidx o.
Proof.
  intros Hh Ho Hlt. induction depth as [|d IH].
  - rewrite mlp_masks_0. cbn [connected]. exists o. split; [|reflexivity].
    rewrite (rank_mask_spec hid rout false o hidx ro rh Ho Hh). f_equal. lia.
  - rewrite mlp_masks_S. cbn [connected]. exists hidx. split; [|exact IH].
    rewrite (rank_mask_spec hid hid true hidx hidx rh rh Hh Hh). f_equal. lia.
Qed.

Lemma connected_mlp rin hid rout depth j hidx o (rj ro : Z) :
  nth_error rin j = Some rj -> nth_error rout o = Some ro -> (rj < ro)%Z ->
  (depth <> 0%nat -> nth_error hid hidx = Some rj) ->
  connected (mlp_masks rin hid rout depth) j o.
Proof.
  intros Hj Ho Hlt Hh. destruct depth as [|d].
  - rewrite mlp_masks_0. cbn [connected]. exists o. split; [|reflexivity].
    rewrite (rank_mask_spec rin rout false o j ro rj Ho Hj). f_equal. lia.
  - specialize (Hh (Nat.neq_succ_0 d)). rewrite mlp_masks_S. cbn [connected]. exists hidx. split.
    + rewrite (rank_mask_spec rin hid true hidx j rj rj Hh Hj). f_equal. lia.
    + exact (connected_hidden hid rout hidx o rj ro d Hh Ho Hlt).
Qed.

Lemma maf_hidden_rank_uncond dim width j : (j + 1 < dim)%nat -> (j < width)%nat ->
  nth_error (maf_hidden_ranks dim None width) j = Some (Z.of_nat j).
Proof.
  intros Hd Hw. unfold maf_hidden_ranks. rewrite nth_error_map, nth_error_arange by exact Hw. cbn [option_map].
  unfold jnp_mod. destruct (Z.of_nat dim - 1 =? 0)%Z eqn:E; [lia|]. rewrite Z.mod_small by lia. reflexivity.
Qed.
Lemma maf_hidden_rank_cond dim cd width j : (j + 1 < dim)%nat -> (j + 1 < width)%nat ->
  nth_error (maf_hidden_ranks dim (Some cd) width) (S j) = Some (Z.of_nat j).
Proof.
  intros Hd Hw. unfold maf_hidden_ranks. rewrite nth_error_map, nth_error_arange by lia. cbn [option_map].
  unfold jnp_mod. destruct (Z.of_nat dim =? 0)%Z eqn:E; [lia|]. rewrite Z.mod_small by lia. f_equal. lia.
Qed.
Lemma maf_hidden_rank_cond0 dim cd width : (0 < width)%nat ->
  nth_error (maf_hidden_ranks dim (Some cd) width) 0 = Some (-1)%Z.
Proof.
  intros Hw. unfold maf_hidden_ranks. rewrite nth_error_map, nth_error_arange by lia. cbn [option_map].
  unfold jnp_mod. destruct (Z.of_nat dim =? 0)%Z eqn:E; [reflexivity|]. rewrite Z.mod_0_l by lia. reflexivity.
Qed.

(* width >= dim-1 (unconditional) / width >= dim (conditional): every x_j, j < i, reaches every parameter of
   coordinate i through all-true mask entries, at every depth *)
Theorem maf_no_missing_dependency dim cond width depth npar i j p :
  (j < i)%nat -> (i < dim)%nat -> (p < npar)%nat ->
  match cond with None => (dim - 1 <= width)%nat | Some _ => (dim <= width)%nat end ->
  connected (maf_masks dim cond width depth npar) j (i * npar + p).
Proof.
  intros Hji Hi Hp Hw. unfold maf_masks.
  apply (connected_mlp _ _ _ depth j (match cond with None => j | Some _ => S j end) _ (Z.of_nat j) (Z.of_nat i)).
  - apply maf_in_rank_x. lia.
  - apply maf_out_rank; assumption.
  - lia.
  - intros _. destruct cond as [cd|].
    + apply maf_hidden_rank_cond; lia.
    + apply maf_hidden_rank_uncond; lia.
Qed.

(* every condition entry reaches every parameter of every coordinate as soon as there is one hidden unit *)
Theorem maf_condition_reaches_all dim cd width depth npar q i p :
  (q < cd)%nat -> (i < dim)%nat -> (p < npar)%nat -> (1 <= width)%nat ->
  connected (maf_masks dim (Some cd) width depth npar) (dim + q) (i * npar + p).
Proof.
  intros Hq Hi Hp Hw. unfold maf_masks.
  apply (connected_mlp _ _ _ depth (dim + q)%nat 0%nat _ (-1)%Z (Z.of_nat i)).
  - apply maf_in_rank_c; exact Hq.
  - apply maf_out_rank; assumption.
  - lia.
  - intros _. apply maf_hidden_rank_cond0. lia.
Qed.

(* ------------------------------------------------------------------------------------------ *)
(* 5. block masks: closed forms for every size                                                 *)
(* ------------------------------------------------------------------------------------------ *)
Lemma nth_error_mapi {T U} (f : nat * T -> U) (l : list T) i :
  nth_error (map f (combine (seq 0 (length l)) l)) i = option_map (fun v => f (i, v)) (nth_error l i).
Proof.
  rewrite nth_error_map, nth_error_combine. destruct (nth_error l i) eqn:E.
  - assert (Hi : (i < length l)%nat) by (apply nth_error_Some; congruence).
    rewrite nth_error_seq by exact Hi. reflexivity.
  - destruct (nth_error (seq 0 (length l)) i); reflexivity.
Qed.

Lemma div_band b a t : (t * b <= a)%nat -> (a < S t * b)%nat -> (a / b)%nat = t.
Proof. intros H1 H2. symmetry. apply (Nat.div_unique a b t (a - t * b)); lia. Qed.
Lemma div_lt_band b a t : (a < t * b)%nat -> (a / b < t)%nat.
Proof. intros H. assert (b <> 0)%nat by lia. apply Nat.div_lt_upper_bound; lia. Qed.

Lemma entry_set_region m r0 c0 w r c :
  entry (set_region m r0 c0 w) r c =
  option_map (fun v => if ((r0 <=? r)%nat && ((c0 <=? c)%nat && (c <? c0 + w)%nat)) then true else v) (entry m r c).
Proof.
  unfold entry, set_region. rewrite nth_error_mapi. destruct (nth_error m r) as [row|]; [|reflexivity].
  cbn [option_map fst snd]. destruct (r0 <=? r)%nat; cbn [andb].
  - rewrite nth_error_mapi. reflexivity.
  - destruct (nth_error row c); reflexivity.
Qed.

Definition tril_region (bh bw : nat) (k : Z) (i r c : nat) : bool :=
  ((Z.to_nat (Z.max 0 (Z.of_nat i - k)) * bh <=? r)%nat && ((i * bw <=? c)%nat && (c <? i * bw + bw)%nat)).

Lemma entry_tril_fold bh bw k l : forall m r c,
  entry (fold_left (fun mask i => set_region mask (Z.to_nat (Z.max 0 (Z.of_nat i - k)) * bh) (i * bw) bw) l m) r c =
  option_map (fun v => existsb (fun i => tril_region bh bw k i r c) l || v) (entry m r c).
Proof.
  induction l as [|i l IH]; intros m r c; cbn [fold_left existsb].
  - destruct (entry m r c); reflexivity.
  - rewrite IH, entry_set_region. destruct (entry m r c) as [v|]; [|reflexivity]. cbn [option_map]. f_equal.
    unfold tril_region. destruct (_ && _); cbn; [rewrite orb_true_r; reflexivity|reflexivity].
Qed.

Lemma entry_const {T} (v : T) R C r c : (r < R)%nat -> (c < C)%nat -> entry (repeat (repeat v C) R) r c = Some v.
Proof. intros Hr Hc. unfold entry. rewrite nth_error_repeat by exact Hr. apply nth_error_repeat; exact Hc. Qed.

Lemma existsb_tril bh bw k n r c : (r < bh * n)%nat -> (c < bw * n)%nat ->
  existsb (fun i => tril_region bh bw k i r c) (seq 0 n) = (Z.max 0 (Z.of_nat (c / bw) - k) <=? Z.of_nat (r / bh))%Z.
Proof.
  intros Hr Hc. assert (Hbh : (bh <> 0)%nat) by lia. assert (Hbw : (bw <> 0)%nat) by lia.
  apply eq_iff_eq_true. rewrite existsb_exists. unfold tril_region. split.
  - intros [i [Hin H]]. apply andb_true_iff in H. destruct H as [H1 H2]. apply andb_true_iff in H2. destruct H2 as [H2 H3].
    assert (Hi : (c / bw)%nat = i) by (apply div_band; lia). rewrite Hi.
    assert (Z.to_nat (Z.max 0 (Z.of_nat i - k)) <= r / bh)%nat by (apply Nat.div_le_lower_bound; lia). lia.
  - intros H. exists (c / bw)%nat. split.
    + apply in_seq. split; [lia|]. cbn. apply div_lt_band. lia.
    + pose proof (Nat.mul_div_le c bw Hbw). pose proof (Nat.mul_succ_div_gt c bw Hbw).
      pose proof (Nat.mul_div_le r bh Hbh).
      assert (Z.to_nat (Z.max 0 (Z.of_nat (c / bw) - k)) <= r / bh)%nat by lia.
      assert (Z.to_nat (Z.max 0 (Z.of_nat (c / bw) - k)) * bh <= (r / bh) * bh)%nat by (apply Nat.mul_le_mono_r; lia).
      apply andb_true_iff. split; [|apply andb_true_iff; split]; lia.
Qed.

(* block_tril_mask[r][c] = (max(0, c/bw - k) <= r/bh), every block shape, block count and offset *)
Theorem block_tril_closed_form bh bw n k r c : (r < bh * n)%nat -> (c < bw * n)%nat ->
  entry (block_tril_mask bh bw n k) r c = Some (Z.max 0 (Z.of_nat (c / bw) - k) <=? Z.of_nat (r / bh))%Z.
Proof.
  intros Hr Hc. unfold block_tril_mask. rewrite entry_tril_fold, entry_const by assumption.
  cbn [option_map]. rewrite orb_false_r, existsb_tril by assumption. reflexivity.
Qed.
Corollary block_tril_closed_form_0 bh bw n r c : (r < bh * n)%nat -> (c < bw * n)%nat ->
  entry (block_tril_mask bh bw n 0) r c = Some (c / bw <=? r / bh)%nat.
Proof. intros Hr Hc. rewrite block_tril_closed_form by assumption. f_equal. lia. Qed.

Lemma entry_Some_bounds {T} (m : list (list T)) R C r c v :
  length m = R -> Forall (fun row => length row = C) m -> entry m r c = Some v -> (r < R)%nat /\ (c < C)%nat.
Proof.
  intros HR HC H. unfold entry in H. destruct (nth_error m r) as [row|] eqn:E; [|discriminate].
  split; [rewrite <- HR; apply nth_error_Some; congruence|].
  rewrite Forall_forall in HC. rewrite <- (HC row (nth_error_In _ _ E)). apply nth_error_Some; congruence.
Qed.

Lemma set_region_shape m r0 c0 w R C :
  length m = R -> Forall (fun row => length row = C) m ->
  length (set_region m r0 c0 w) = R /\ Forall (fun row => length row = C) (set_region m r0 c0 w).
Proof.
  intros HR HC. unfold set_region. split; [rewrite map_length, combine_length, seq_length; lia|].
  apply Forall_forall. intros row Hin. apply in_map_iff in Hin. destruct Hin as [[r row0] [<- Hin]].
  apply in_combine_r in Hin. rewrite Forall_forall in HC. cbn [fst snd]. destruct (r0 <=? r)%nat; [|exact (HC _ Hin)].
  rewrite map_length, combine_length, seq_length, (HC _ Hin). lia.
Qed.

Lemma block_tril_shape bh bw n k :
  length (block_tril_mask bh bw n k) = (bh * n)%nat /\ Forall (fun row => length row = (bw * n)%nat) (block_tril_mask bh bw n k).
Proof.
  unfold block_tril_mask.
  assert (H0 : length (repeat (repeat false (bw * n)) (bh * n)) = (bh * n)%nat /\
               Forall (fun row => length row = (bw * n)%nat) (repeat (repeat false (bw * n)) (bh * n))).
  { split; [apply repeat_length|]. apply Forall_forall. intros row Hin. apply repeat_spec in Hin. subst. apply repeat_length. }
  revert H0. generalize (repeat (repeat false (bw * n)) (bh * n)). generalize (seq 0 n) as l.
  induction l as [|i l IH]; intros m H0; [exact H0|]. cbn [fold_left]. apply IH.
  destruct H0 as [HR HC]. apply set_region_shape; assumption.
Qed.

(* ---- block_diag_mask ---- *)
Lemma block_diag_step_inv bh bw t acc : (0 < bh)%nat ->
  length acc = (t * bh)%nat -> Forall (fun row => length row = (t * bw)%nat) acc ->
  (forall r c, (r < t * bh)%nat -> (c < t * bw)%nat -> entry acc r c = Some (r / bh =? c / bw)%nat) ->
  let blk := repeat (repeat true bw) bh in
  let acc' := map (fun row => row ++ repeat false (ncols blk)) acc ++ map (fun row => repeat false (ncols acc) ++ row) blk in
  length acc' = (S t * bh)%nat /\ Forall (fun row => length row = (S t * bw)%nat) acc' /\
  (forall r c, (r < S t * bh)%nat -> (c < S t * bw)%nat -> entry acc' r c = Some (r / bh =? c / bw)%nat).
Proof.
  intros Hbh HR HC HE blk acc'.
  assert (Hcb : ncols blk = bw) by (unfold blk; destruct bh; [lia|]; cbn; apply repeat_length).
  assert (Hca : ncols acc = (t * bw)%nat).
  { destruct acc as [|row0 acc0]; [cbn in *; destruct t; [reflexivity|lia]|]. cbn. inversion HC; assumption. }
  unfold acc'. clear acc'. rewrite Hcb, Hca. split; [|split].
  - rewrite app_length, !map_length. unfold blk. rewrite repeat_length. lia.
  - apply Forall_app. split; apply Forall_forall; intros row Hin; apply in_map_iff in Hin; destruct Hin as [row0 [<- Hin]];
      rewrite app_length, repeat_length.
    + rewrite Forall_forall in HC. rewrite (HC _ Hin). lia.
    + unfold blk in Hin. apply repeat_spec in Hin. rewrite Hin, repeat_length. lia.
  - intros r c Hr Hc. unfold entry. destruct (Nat.lt_ge_cases r (t * bh)) as [Hlt|Hge].
    + rewrite nth_error_app1 by (rewrite map_length; lia). rewrite nth_error_map.
      destruct (nth_error acc r) as [row|] eqn:E; [|apply nth_error_None in E; lia]. cbn [option_map].
      assert (Hrow : length row = (t * bw)%nat) by (rewrite Forall_forall in HC; exact (HC _ (nth_error_In _ _ E))).
      destruct (Nat.lt_ge_cases c (t * bw)) as [Hc1|Hc1].
      * rewrite nth_error_app1 by lia. specialize (HE r c Hlt Hc1). unfold entry in HE. rewrite E in HE. exact HE.
      * rewrite nth_error_app2 by lia. rewrite nth_error_repeat by lia. f_equal. symmetry. apply Nat.eqb_neq.
        pose proof (div_lt_band bh r t Hlt). rewrite (div_band bw c t) by lia. lia.
    + rewrite nth_error_app2 by (rewrite map_length; lia). rewrite map_length, HR, nth_error_map.
      unfold blk. rewrite nth_error_repeat by lia. cbn [option_map].
      rewrite (div_band bh r t) by lia.
      destruct (Nat.lt_ge_cases c (t * bw)) as [Hc1|Hc1].
      * rewrite nth_error_app1 by (rewrite repeat_length; lia). rewrite nth_error_repeat by lia. f_equal. symmetry.
        apply Nat.eqb_neq. pose proof (div_lt_band bw c t Hc1). lia.
      * rewrite nth_error_app2 by (rewrite repeat_length; lia). rewrite repeat_length, nth_error_repeat by lia.
        f_equal. symmetry. apply Nat.eqb_eq. symmetry. apply div_band; lia.
Qed.

Lemma block_diag_fold_inv bh bw : (0 < bh)%nat -> forall n t acc,
  length acc = (t * bh)%nat -> Forall (fun row => length row = (t * bw)%nat) acc ->
  (forall r c, (r < t * bh)%nat -> (c < t * bw)%nat -> entry acc r c = Some (r / bh =? c / bw)%nat) ->
  let res := fold_left (fun acc a => map (fun row => row ++ repeat false (ncols a)) acc ++ map (fun row => repeat false (ncols acc) ++ row) a)
                       (repeat (repeat (repeat true bw) bh) n) acc in
  length res = ((t + n) * bh)%nat /\ Forall (fun row => length row = ((t + n) * bw)%nat) res /\
  (forall r c, (r < (t + n) * bh)%nat -> (c < (t + n) * bw)%nat -> entry res r c = Some (r / bh =? c / bw)%nat).
Proof.
  intros Hbh. induction n as [|n IH]; intros t acc HR HC HE; cbn [repeat fold_left].
  - rewrite Nat.add_0_r. auto.
  - destruct (block_diag_step_inv bh bw t acc Hbh HR HC HE) as [HR' [HC' HE']].
    replace (t + S n)%nat with (S t + n)%nat by lia. apply IH; assumption.
Qed.

(* block_diag_mask[r][c] = (r/bh == c/bw), every block shape and block count *)
Theorem block_diag_closed_form bh bw n r c : (r < bh * n)%nat -> (c < bw * n)%nat ->
  entry (block_diag_mask bh bw n) r c = Some (r / bh =? c / bw)%nat.
Proof.
  intros Hr Hc. assert (Hbh : (0 < bh)%nat) by lia.
  destruct (block_diag_fold_inv bh bw Hbh n 0 []) as [_ [_ H]]; [reflexivity|constructor|intros; lia|].
  apply H; cbn [Nat.add]; lia.
Qed.
Lemma block_diag_shape bh bw n : (0 < bh)%nat ->
  length (block_diag_mask bh bw n) = (bh * n)%nat /\ Forall (fun row => length row = (bw * n)%nat) (block_diag_mask bh bw n).
Proof.
  intros Hbh. destruct (block_diag_fold_inv bh bw Hbh n 0 []) as [H1 [H2 _]]; [reflexivity|constructor|intros; lia|].
  cbn [Nat.add] in *. unfold block_diag_mask, block_diag. rewrite (Nat.mul_comm bh n), (Nat.mul_comm bw n). split; assumption.
Qed.

(* the block-lower-triangular mask IS a rank mask (>=) on block indices *)
Theorem block_tril_is_rank_mask bh bw n r c : (r < bh * n)%nat -> (c < bw * n)%nat ->
  entry (block_tril_mask bh bw n 0) r c =
  entry (rank_based_mask (map (fun c => Z.of_nat (c / bw)) (seq 0 (bw * n))) (map (fun r => Z.of_nat (r / bh)) (seq 0 (bh * n))) true) r c.
Proof.
  intros Hr Hc. rewrite block_tril_closed_form_0 by assumption.
  rewrite (rank_mask_spec _ _ true r c (Z.of_nat (r / bh)) (Z.of_nat (c / bw))).
  - f_equal. lia.
  - rewrite nth_error_map, nth_error_seq by exact Hr. reflexivity.
  - rewrite nth_error_map, nth_error_seq by exact Hc. reflexivity.
Qed.

(* ------------------------------------------------------------------------------------------ *)
(* 6. Coupling (arbitrary conditioner, arbitrary transformer family, arbitrary carrier)        *)
(* ------------------------------------------------------------------------------------------ *)
Section CouplingP.
  Context {A : Type} (zero : A).
  Variable tau : list A -> A -> A.
  Variable conditioner : list A -> list A.

  (* the first block is returned unchanged *)
  Theorem coupling_first_block_identity d dim x c :
    firstn d (coupling_transform tau conditioner d dim x c) = firstn d x.
  Proof.
    unfold coupling_transform. rewrite firstn_app, firstn_firstn, Nat.min_id.
    destruct (Nat.le_gt_cases d (length x)) as [Hle|Hgt].
    - rewrite firstn_length_le by exact Hle. rewrite Nat.sub_diag. cbn [firstn]. apply app_nil_r.
    - rewrite (skipn_all2 x) by lia. rewrite combine_nil. cbn [map]. rewrite firstn_nil. apply app_nil_r.
  Qed.
  Corollary coupling_first_block_nth d dim x c i : (i < d)%nat ->
    nth_error (coupling_transform tau conditioner d dim x c) i = nth_error x i.
  Proof.
    intros Hi. pose proof (coupling_first_block_identity d dim x c) as H.
    assert (H2 : nth_error (firstn d (coupling_transform tau conditioner d dim x c)) i = nth_error (firstn d x) i) by (rewrite H; reflexivity).
    rewrite !nth_error_firstn' in H2. destruct (Nat.ltb_spec i d); [exact H2|lia].
  Qed.

  (* coordinate i >= d depends only on itself, the first block and the condition *)
  Theorem coupling_dependence d dim x x' c i :
    length x = length x' -> firstn d x = firstn d x' -> (d <= i)%nat -> nth_error x i = nth_error x' i ->
    nth_error (coupling_transform tau conditioner d dim x c) i = nth_error (coupling_transform tau conditioner d dim x' c) i.
  Proof.
    intros Hlen Hfirst Hdi Hi. unfold coupling_transform. rewrite Hfirst.
    set (pre := firstn d x'). set (R := reshape_rows (dim - d) _).
    destruct (Nat.lt_ge_cases i (length pre)) as [Hlt|Hge].
    - rewrite !nth_error_app1 by exact Hlt. reflexivity.
    - rewrite !nth_error_app2 by exact Hge. rewrite !nth_error_map, !nth_error_combine, !nth_error_skipn'.
      replace (nth_error x (d + (i - length pre))) with (nth_error x' (d + (i - length pre))); [reflexivity|].
      unfold pre in *. rewrite firstn_length in *.
      destruct (Nat.le_gt_cases d (length x')) as [Hle|Hgt].
      + rewrite Nat.min_l by exact Hle. replace (d + (i - d))%nat with i by lia. symmetry. exact Hi.
      + assert (H1 : nth_error x' (d + (i - Nat.min d (length x'))) = None) by (apply nth_error_None; lia).
        assert (H2 : nth_error x (d + (i - Nat.min d (length x'))) = None) by (apply nth_error_None; lia).
        congruence.
  Qed.
End CouplingP.

(* ------------------------------------------------------------------------------------------ *)
(* 7. BlockAutoregressiveNetwork: no dependence on later coordinates                           *)
(* ------------------------------------------------------------------------------------------ *)
Definition flagsb (b n t : nat) : list bool := map (fun u => (u / b <=? t)%nat) (seq 0 (b * n)).

Lemma tril_layer_ok bh bw n t : layer_ok (block_tril_mask bh bw n 0) (flagsb bw n t) (flagsb bh n t) = true.
Proof.
  apply layer_ok_of_entries. intros o i Ho He.
  destruct (block_tril_shape bh bw n 0) as [HR HC].
  destruct (entry_Some_bounds _ _ _ o i true HR HC He) as [Hob Hib].
  rewrite block_tril_closed_form_0 in He by assumption.
  unfold flagsb in *. rewrite nth_error_map, nth_error_seq in Ho by exact Hob.
  rewrite nth_error_map, nth_error_seq by exact Hib. cbn [option_map Nat.add] in *. f_equal.
  injection Ho as Ho. injection He as He. apply Nat.leb_le in Ho. apply Nat.leb_le in He. apply Nat.leb_le. lia.
Qed.

Lemma bnaf_chain_tail dim bd t d :
  chain_ok (map (fun s => block_tril_mask (fst s) (snd s) dim 0) (repeat (bd, bd) d ++ [(1, bd)%nat])) (flagsb bd dim t)
           (map (fun s : nat * nat => flagsb (fst s) dim t) (repeat (bd, bd) d ++ [(1, bd)%nat])) = true.
Proof.
  induction d as [|d IH]; cbn [repeat app map chain_ok fst snd].
  - rewrite tril_layer_ok. reflexivity.
  - rewrite tril_layer_ok. exact IH.
Qed.
Lemma bnaf_chain_ok dim depth bd t :
  chain_ok (bnaf_tril_masks dim depth bd) (flagsb 1 dim t)
           (map (fun s : nat * nat => flagsb (fst s) dim t) (bnaf_block_shapes depth bd)) = true.
Proof.
  unfold bnaf_tril_masks, bnaf_block_shapes. destruct depth as [|d].
  - cbn [map chain_ok fst snd]. rewrite tril_layer_ok. reflexivity.
  - cbn [map chain_ok fst snd]. rewrite tril_layer_ok. exact (bnaf_chain_tail dim bd t d).
Qed.
Lemma bnaf_last_flags dim depth bd t :
  last (map (fun s : nat * nat => flagsb (fst s) dim t) (bnaf_block_shapes depth bd)) (flagsb 1 dim t) = flagsb 1 dim t.
Proof.
  unfold bnaf_block_shapes. destruct depth as [|d]; [reflexivity|].
  rewrite map_cons, map_app. cbn [map fst]. rewrite last_cons, last_last. reflexivity.
Qed.

Section BnafP.
  Context {A : Type} (zero : A) (add mul : A -> A -> A).
  Hypothesis mul_zero_l : forall a, mul zero a = zero.

  Lemma agreeb_vadd p (h h' t : list A) : agreeb p h h' -> agreeb p (vadd add h t) (vadd add h' t).
  Proof.
    revert p h' t. induction h as [|a h IH]; intros p [|a' h'] t H; cbn in H; try tauto.
    destruct t as [|c t]; [exact I|]. destruct H as [H1 H2]. unfold vadd. cbn [combine map fst snd agreeb]. split.
    - intros Hp. f_equal. exact (H1 Hp).
    - exact (IH (tl p) h' t H2).
  Qed.

  Lemma bnaf_agree act masks : forall first cterm pin prest ws bs x x',
    chain_ok masks pin prest = true -> agreeb pin x x' ->
    agreeb (last prest pin) (bnaf_run zero add mul act first cterm ws bs masks x) (bnaf_run zero add mul act first cterm ws bs masks x').
  Proof.
    induction masks as [|m ms IH]; intros first cterm pin prest ws bs x x' Hok Hag.
    - destruct prest; [exact Hag|discriminate].
    - destruct prest as [|pout ps]; [discriminate|].
      cbn [chain_ok] in Hok. apply andb_true_iff in Hok. destruct Hok as [Hl Hc].
      pose proof (layer_agree zero add mul mul_zero_l m pin pout (hd [] ws) (hd [] bs) x x' Hl Hag) as Hh.
      rewrite last_cons. cbn [bnaf_run].
      destruct ms as [|m2 ms].
      + destruct ps; [exact Hh|discriminate].
      + apply (IH false cterm pout ps (tl ws) (tl bs)); [exact Hc|]. apply agreeb_map.
        destruct first; [destruct cterm as [t|]|]; cbv iota; [apply agreeb_vadd; exact Hh|exact Hh|exact Hh].
  Qed.

  (* y_i does not depend on x_j for j > i: any weights (masked block-lower-triangularly at evaluation), any biases, any
     activation, any depth, any block_dim, any vector added after the first layer (the condition's contribution) *)
  Theorem bnaf_triangular act dim depth bd ws bs cterm x x' i :
    length x = length x' -> (i < dim)%nat ->
    (forall j, (j <= i)%nat -> nth_error x j = nth_error x' j) ->
    nth_error (bnaf_transform zero add mul dim depth bd ws bs act cterm x) i =
    nth_error (bnaf_transform zero add mul dim depth bd ws bs act cterm x') i.
  Proof.
    intros Hlen Hi Hag. unfold bnaf_transform.
    assert (Hin : agreeb (flagsb 1 dim i) x x').
    { unfold flagsb. apply agreeb_of_nth; [exact Hlen|]. intros j r Hj HP. apply Hag.
      assert (Hjd : (j < 1 * dim)%nat) by (apply nth_error_Some in Hj || (assert (nth_error (seq 0 (1 * dim)) j <> None) by congruence; apply nth_error_Some in H; rewrite seq_length in H; exact H)).
      rewrite seq_length in Hjd || idtac.
      rewrite nth_error_seq in Hj by lia. injection Hj as <-. apply Nat.leb_le in HP. rewrite Nat.div_1_r in HP. exact HP. }
    pose proof (bnaf_agree act _ true cterm _ _ ws bs x x' (bnaf_chain_ok dim depth bd i) Hin) as H.
    rewrite bnaf_last_flags in H. unfold flagsb in H.
    apply (agreeb_nth _ _ _ _ H i i).
    - rewrite nth_error_seq by lia. reflexivity.
    - apply Nat.leb_le. rewrite Nat.div_1_r. lia.
  Qed.
End BnafP.
