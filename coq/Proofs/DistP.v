(* C03 -- change of variables on both evaluation paths: lemmas about Model/Dist.v at the reals.
   The expression semantics is connected to the abstract layers of Proofs/LeafDerivP.v (C02:
   [layer_ok] = inverse laws both ways + "inverse log-det = minus forward log-det at the
   corresponding point", closed under Chain and Invert); the leaf facts come from C01
   (LeafInvP.v, RqsInvP.v) and C02 (LeafDerivP.v).  Every guard is explicit. *)
From Coq Require Import Reals List ZArith Bool Lra Lia Sorted.
From FJ Require Import Model.Num Model.Leaves Model.Dist Proofs.RNum Proofs.RqsCoreP.
From FJ Require Proofs.LeafInvP Proofs.RqsInvP.
From FJ Require Import Proofs.LeafDerivP.
Import ListNotations.
Open Scope R_scope.

(* ------------------------------------------------------------------------------------ *)
(* unfolding equations of the mutual fixpoints (all by computation)                       *)
(* ------------------------------------------------------------------------------------ *)
Section Unfold.
  Context {A : Type} (O : NumOps A).
  Lemma run_fwd_ld_chain bs x : run_fwd_ld O (BChain bs) x =
    fold_left (fun s b' => let r := run_fwd_ld O b' (fst s) in (fst r, n_add O (snd s) (snd r))) bs (x, c O 0).
  Proof. reflexivity. Qed.
  Lemma run_inv_ld_chain bs y : run_inv_ld O (BChain bs) y =
    fold_right (fun b' s => let r := run_inv_ld O b' (fst s) in (fst r, n_add O (snd s) (snd r))) (y, c O 0) bs.
  Proof. reflexivity. Qed.
  Lemma run_fwd_chain bs x : run_fwd O (BChain bs) x = fold_left (fun s b' => run_fwd O b' s) bs x.
  Proof. reflexivity. Qed.
  Lemma run_inv_chain bs y : run_inv O (BChain bs) y = fold_right (fun b' s => run_inv O b' s) y bs.
  Proof. reflexivity. Qed.
  Lemma run_fwd_ld_invert b x : run_fwd_ld O (BInvert b) x = run_inv_ld O b x. Proof. reflexivity. Qed.
  Lemma run_inv_ld_invert b y : run_inv_ld O (BInvert b) y = run_fwd_ld O b y. Proof. reflexivity. Qed.
  Lemma run_fwd_invert b x : run_fwd O (BInvert b) x = run_inv O b x. Proof. reflexivity. Qed.
  Lemma run_inv_invert b y : run_inv O (BInvert b) y = run_fwd O b y. Proof. reflexivity. Qed.
End Unfold.

(* structural induction over expressions: every nesting depth, every chain length *)
Lemma bexpr_ind' {A} (P : bexpr A -> Prop) :
  (forall ls, P (BElem ls)) -> (forall lower m loc, P (BTri lower m loc)) ->
  (forall p pinv, P (BPerm p pinv)) -> P BFlip ->
  (forall b, P b -> P (BInvert b)) -> (forall bs, Forall P bs -> P (BChain bs)) ->
  forall b, P b.
Proof.
  intros H1 H2 H3 H4 H5 H6. fix IH 1. intros [ls|lower m loc|p pinv| |b|bs].
  - apply H1. - apply H2. - apply H3. - apply H4.
  - apply H5, IH.
  - apply H6. induction bs as [|b t IHt]; constructor; [apply IH | exact IHt].
Qed.

Lemma fold_left_rev_as_right {X Y} (g : Y -> X -> Y) (l : list X) : forall a,
  fold_left g (rev l) a = fold_right (fun x a => g a x) a l.
Proof.
  induction l as [|x l IH]; intros a; [reflexivity|].
  cbn [rev fold_right]. rewrite fold_left_app. cbn [fold_left]. now rewrite IH.
Qed.

(* the point returned by the ..._and_log_det methods is the point of the plain methods *)
Lemma run_ld_fst {A} (O : NumOps A) (b : bexpr A) :
  (forall x, fst (run_fwd_ld O b x) = run_fwd O b x) /\ (forall y, fst (run_inv_ld O b y) = run_inv O b y).
Proof.
  induction b as [ls|lower m loc|p pinv| |b [IH1 IH2]|bs IH] using bexpr_ind'; try (split; reflexivity).
  - split; intros; [rewrite run_fwd_ld_invert, run_fwd_invert; apply IH2
                   | rewrite run_inv_ld_invert, run_inv_invert; apply IH1].
  - split.
    + intros x. rewrite run_fwd_ld_chain, run_fwd_chain.
      change x with (fst (x, c O 0)) at 2. generalize (x, c O 0) as s.
      induction IH as [|b t [Hb _] _ IHt]; intros s; [reflexivity|].
      cbn [fold_left]. rewrite IHt. cbn [fst]. now rewrite Hb.
    + intros y. rewrite run_inv_ld_chain, run_inv_chain.
      induction IH as [|b t [_ Hb] _ IHt]; [reflexivity|].
      cbn [fold_right]. cbv zeta in *. cbn [fst]. rewrite Hb. now rewrite IHt.
Qed.

(* ------------------------------------------------------------------------------------ *)
(* Leaves: validity guards (what C11 delivers), codomains, and the C01 + C02 laws          *)
(* ------------------------------------------------------------------------------------ *)
Definition leaf_ok (l : leaf R) : Prop :=
  match l with
  | LAffine _ s => s <> 0 | LLoc _ => True | LScale s => s <> 0
  | LExp | LSoftPlus | LTanh => True
  | LLeaky m g ic => 0 < m /\ g = leaky_grad ROps m /\ ic = leaky_icpt ROps m
  | LRqs xp yp dv lo hi => RqsInvP.rqs_valid xp yp dv lo hi
  end.
(* every leaf is defined on all of R; its image: *)
Definition leaf_cod (l : leaf R) (y : R) : Prop :=
  match l with LExp | LSoftPlus => 0 < y | LTanh => -1 < y < 1 | _ => True end.
Definition leaf_layer (l : leaf R) : layer R :=
  Layer (leaf_fwd ROps l) (leaf_inv ROps l) (leaf_ldf ROps l) (leaf_ldi ROps l) Rall (leaf_cod l).

Lemma leaf_layer_ok l : leaf_ok l -> layer_ok (leaf_layer l).
Proof.
  destruct l as [loc s|loc|s| | | |m g ic|xp yp dv lo hi]; intros H.
  - exact (affine_layer_ok loc s H).
  - exact (loc_layer_ok loc).
  - exact (scale_layer_ok s H).
  - exact exp_layer_ok.
  - exact softplus_layer_ok.
  - exact tanh_layer_ok.
  - destruct H as (Hm & -> & ->). exact (leaky_layer_ok m Hm).
  - unfold layer_ok, leaf_layer, Rall; cbn [l_fwd l_inv l_ldf l_ldi l_dom l_cod leaf_fwd leaf_inv leaf_ldf leaf_ldi leaf_cod].
    split; [intros x _; split; [exact I | now apply RqsInvP.rqs_inv_fwd]|].
    intros y _. split; [exact I|]. split; [now apply RqsInvP.rqs_fwd_inv | reflexivity].
Qed.

(* ------------------------------------------------------------------------------------ *)
(* Vector-level layers                                                                    *)
(* ------------------------------------------------------------------------------------ *)
Definition elem_layer (ls : list (leaf R)) : layer (list R) :=
  Layer (zipw (leaf_fwd ROps) ls) (zipw (leaf_inv ROps) ls)
        (fun x => sum ROps (zipw (leaf_ldf ROps) ls x)) (fun y => sum ROps (zipw (leaf_ldi ROps) ls y))
        (fun x => length x = length ls) (fun y => Forall2 leaf_cod ls y).

Lemma Forall2_len {X Y} (P : X -> Y -> Prop) a b : Forall2 P a b -> length a = length b.
Proof. induction 1; cbn; congruence. Qed.

Lemma elem_layer_ok ls : Forall leaf_ok ls -> layer_ok (elem_layer ls).
Proof.
  intros Hok. unfold layer_ok, elem_layer; cbn [l_fwd l_inv l_ldf l_ldi l_dom l_cod]. split.
  - induction Hok as [|l ls Hl Hls IH]; intros [|x xs] Hlen; cbn in Hlen; try discriminate.
    + split; [constructor | reflexivity].
    + destruct (IH xs ltac:(lia)) as [C E]. destruct (leaf_layer_ok l Hl) as [L1 _].
      destruct (L1 x I) as [Lc Le]. cbn [zipw]. split; [constructor; assumption | f_equal; assumption].
  - intros y Hy. induction Hy as [|l y ls ys Hc Hys IH].
    + repeat split. cbn [zipw]. rewrite !sum_R_nil. ring.
    + inversion Hok as [|? ? Hl Hls]; subst. destruct (IH Hls) as (E1 & E2 & E3).
      destruct (leaf_layer_ok l Hl) as [_ L2]. destruct (L2 y Hc) as (_ & Lf & Ld).
      cbn [l_fwd l_inv l_ldf l_ldi leaf_layer] in Lf, Ld.
      cbn [zipw length]. rewrite !sum_R_cons. repeat split; [lia | f_equal; assumption | rewrite E3, Ld; ring].
Qed.

(* TriangularAffine *)
Definition tri_ok (lower : bool) (m : list (list R)) (loc : list R) : Prop :=
  LeafInvP.square (length m) m /\ length loc = length m /\
  (if lower then LeafInvP.lower_tri (length m) m else LeafInvP.upper_tri (length m) m) /\
  LeafInvP.diag_nonzero (length m) m.
Definition tri_layer (lower : bool) (m : list (list R)) (loc : list R) : layer (list R) :=
  Layer (tri_fwd ROps m loc) (tri_inv ROps lower m loc) (fun _ => tri_ld ROps m) (fun _ => - tri_ld ROps m)
        (fun x => length x = length m) (fun y => length y = length m).
Lemma tri_inv_length lower m loc y : length loc = length m -> length y = length m ->
  length (tri_inv ROps lower m loc y) = length m.
Proof.
  intros Hl Hy. unfold tri_inv.
  assert (Hb : length (lift2 (fun l v => n_sub ROps v l) loc y) = length m) by (rewrite LeafInvP.lift2_length; lia).
  destruct lower.
  - apply LeafInvP.tri_solve_lower_length. lia.
  - unfold tri_solve_upper. rewrite rev_length, LeafInvP.tri_solve_lower_length; rewrite ?rev_length, ?map_length; lia.
Qed.
Lemma tri_layer_ok lower m loc : tri_ok lower m loc -> layer_ok (tri_layer lower m loc).
Proof.
  intros (Hsq & Hloc & Ht & Hd). unfold layer_ok, tri_layer; cbn [l_fwd l_inv l_ldf l_ldi l_dom l_cod]. split.
  - intros x Hx. split.
    + unfold tri_fwd. rewrite LeafInvP.lift2_length; [lia | rewrite LeafInvP.matvec_length; lia].
    + now apply (LeafInvP.tri_inv_fwd (length m)).
  - intros y Hy. split; [now apply tri_inv_length|]. split; [now apply (LeafInvP.tri_fwd_inv (length m)) | reflexivity].
Qed.

(* Permute: the stored inverse_permutation undoes the stored permutation *)
Definition perm_ok (p pinv : list Z) : Prop :=
  length pinv = length p /\
  (forall i, (i < length p)%nat -> (0 <= nth i p 0 < Z.of_nat (length p))%Z /\
                                   nth (Z.to_nat (nth i p 0%Z)) pinv 0%Z = Z.of_nat i) /\
  (forall i, (i < length p)%nat -> (0 <= nth i pinv 0 < Z.of_nat (length p))%Z /\
                                   nth (Z.to_nat (nth i pinv 0%Z)) p 0%Z = Z.of_nat i).
Definition perm_layer (p pinv : list Z) : layer (list R) :=
  Layer (fun x => gather ROps x p) (fun y => gather ROps y pinv) (fun _ => 0) (fun _ => 0)
        (fun x => length x = length p) (fun y => length y = length p).
Lemma gather_length (x : list R) idx : length (gather ROps x idx) = length idx.
Proof. apply map_length. Qed.
Lemma gather_gather (x : list R) (p q : list Z) :
  length x = length p -> length q = length p ->
  (forall i, (i < length p)%nat -> (0 <= nth i q 0 < Z.of_nat (length p))%Z /\
                                   nth (Z.to_nat (nth i q 0%Z)) p 0%Z = Z.of_nat i) ->
  gather ROps (gather ROps x p) q = x.
Proof.
  intros Hx Hq H. apply (nth_ext _ _ 0 0); [rewrite gather_length; lia|].
  intros i Hi. rewrite gather_length in Hi. rewrite Hq in Hi. destruct (H i Hi) as [Hr He].
  unfold gather at 1.
  rewrite (nth_indep _ 0 (getz ROps (gather ROps x p) 0%Z)) by (rewrite map_length; lia).
  rewrite (map_nth (getz ROps (gather ROps x p)) q 0%Z i).
  rewrite getz_nth by (rewrite gather_length; lia).
  unfold gather. rewrite (nth_indep _ 0 (getz ROps x 0%Z)) by (rewrite map_length; lia).
  rewrite (map_nth (getz ROps x) p 0%Z). rewrite He.
  rewrite getz_nth by lia. now rewrite Nat2Z.id.
Qed.
Lemma perm_layer_ok p pinv : perm_ok p pinv -> layer_ok (perm_layer p pinv).
Proof.
  intros (Hl & H1 & H2). unfold layer_ok, perm_layer; cbn [l_fwd l_inv l_ldf l_ldi l_dom l_cod]. split.
  - intros x Hx. split; [apply gather_length|]. now apply gather_gather.
  - intros y Hy. split; [rewrite gather_length; exact Hl|]. split; [|ring].
    apply gather_gather; [lia | lia |]. rewrite Hl. exact H1.
Qed.

Definition flip_layer : layer (list R) :=
  Layer (@rev R) (@rev R) (fun _ => 0) (fun _ => 0) (fun _ => True) (fun _ => True).
Lemma flip_layer_ok : layer_ok flip_layer.
Proof. unfold layer_ok, flip_layer; cbn. split; intros; repeat split; try apply rev_involutive; ring. Qed.

(* ------------------------------------------------------------------------------------ *)
(* Expressions as layers; the executable semantics IS the layer semantics                  *)
(* ------------------------------------------------------------------------------------ *)
Fixpoint blayer (b : bexpr R) : layer (list R) :=
  match b with
  | BElem ls => elem_layer ls
  | BTri lower m loc => tri_layer lower m loc
  | BPerm p pinv => perm_layer p pinv
  | BFlip => flip_layer
  | BInvert b' => invert_layer (blayer b')
  | BChain bs => chain_layer (map blayer bs)
  end.
(* validity of an expression: every leaf valid *)
Fixpoint bok (b : bexpr R) : Prop :=
  match b with
  | BElem ls => Forall leaf_ok ls
  | BTri lower m loc => tri_ok lower m loc
  | BPerm p pinv => perm_ok p pinv
  | BFlip => True
  | BInvert b' => bok b'
  | BChain bs => fold_right (fun b' P => bok b' /\ P) True bs
  end.
Lemma bok_chain bs : bok (BChain bs) <-> Forall bok bs.
Proof.
  cbn [bok]. induction bs as [|b t IH]; cbn [fold_right].
  - split; intros; [constructor | exact I].
  - split; intros H.
    + constructor; [apply H | apply IH, H].
    + inversion H; subst. split; [assumption | apply IH; assumption].
Qed.
(* domain / codomain of an expression (what Chain and Invert make of the leaves' codomains) *)
Definition bdom (b : bexpr R) : list R -> Prop := l_dom (blayer b).
Definition bcod (b : bexpr R) : list R -> Prop := l_cod (blayer b).

Theorem blayer_ok b : bok b -> layer_ok (blayer b).
Proof.
  induction b as [ls|lower m loc|p pinv| |b IH|bs IH] using bexpr_ind'; intros H; cbn [blayer].
  - apply elem_layer_ok, H.
  - apply tri_layer_ok, H.
  - apply perm_layer_ok, H.
  - apply flip_layer_ok.
  - apply invert_layer_ok, IH, H.
  - apply chain_layer_ok. apply bok_chain in H. apply Forall_map.
    induction IH as [|b t Hb _ IHt]; [constructor|]. inversion H; subst. constructor; auto.
Qed.

Lemma run_blayer (b : bexpr R) :
  (forall x, run_fwd_ld ROps b x = (l_fwd (blayer b) x, l_ldf (blayer b) x)) /\
  (forall y, run_inv_ld ROps b y = (l_inv (blayer b) y, l_ldi (blayer b) y)).
Proof.
  induction b as [ls|lower m loc|p pinv| |b [IH1 IH2]|bs IH] using bexpr_ind'; try (split; reflexivity).
  - split; intros; [rewrite run_fwd_ld_invert; apply IH2 | rewrite run_inv_ld_invert; apply IH1].
  - split.
    + intros x. rewrite run_fwd_ld_chain. cbn [blayer chain_layer l_fwd l_ldf].
      rewrite <- surjective_pairing. unfold chain_fwd_ld.
      change (c ROps 0) with 0. generalize (x, 0) as s.
      induction IH as [|b t [Hb _] _ IHt]; intros s; [reflexivity|].
      cbn [map fold_left]. rewrite <- IHt. f_equal. rewrite Hb. reflexivity.
    + intros y. rewrite run_inv_ld_chain. cbn [blayer chain_layer l_inv l_ldi].
      rewrite <- surjective_pairing. unfold chain_inv_ld. rewrite fold_left_rev_as_right.
      change (c ROps 0) with 0.
      induction IH as [|b t [_ Hb] _ IHt]; [reflexivity|].
      cbn [map fold_right]. rewrite <- IHt. cbv zeta. rewrite Hb. reflexivity.
Qed.
Lemma run_fwd_ld_R b x : run_fwd_ld ROps b x = (l_fwd (blayer b) x, l_ldf (blayer b) x).
Proof. apply run_blayer. Qed.
Lemma run_inv_ld_R b y : run_inv_ld ROps b y = (l_inv (blayer b) y, l_ldi (blayer b) y).
Proof. apply run_blayer. Qed.

(* ------------------------------------------------------------------------------------ *)
(* The base densities as the code computes them = the textbook ones                        *)
(* ------------------------------------------------------------------------------------ *)
Lemma std_normal_logpdf_spec x : std_normal_logpdf ROps x = - (x * x) / 2 - ln (sqrt (2 * PI)).
Proof.
  unfold std_normal_logpdf, Num.c. cbn [n_add n_sub n_mul n_div n_log n_pi n_ofZ ROps ROpsG].
  assert (Hp : 0 < 2 * PI) by (pose proof PI_RGT_0; lra).
  assert (Hs : 0 < sqrt (2 * PI)) by (apply sqrt_lt_R0, Hp).
  replace (2 * PI * (1 * 1)) with (sqrt (2 * PI) * sqrt (2 * PI)) by (rewrite sqrt_sqrt; lra).
  rewrite ln_mult by assumption. field.
Qed.
Lemma std_gumbel_logpdf_spec x : std_gumbel_logpdf ROps x = - (x + exp (- x)).
Proof. reflexivity. Qed.

(* ------------------------------------------------------------------------------------ *)
(* C03 theorems                                                                           *)
(* ------------------------------------------------------------------------------------ *)
(* log_prob(x) = base log-density at the inverse image + the inverse log-det (definitional: this is the
   statement the correspondence check ties AbstractTransformed._log_prob to) *)
Theorem logp_transformed {A} (O : NumOps A) (d : dist A) (b : bexpr A) (x : list A) :
  logp O (DTrans d b) x = n_add O (logp O d (fst (run_inv_ld O b x))) (snd (run_inv_ld O b x)).
Proof. reflexivity. Qed.
(* a sample is the bijection applied to the base sample FOR THE SAME KEY *)
Theorem sample_transformed {A K} (O : NumOps A) (draw : fam -> K -> list A) d b k :
  sample O draw (DTrans d b) k = run_fwd O b (sample O draw d k).
Proof. reflexivity. Qed.
Theorem sample_lp_transformed {A K} (O : NumOps A) (draw : fam -> K -> list A) d b k :
  sample_lp O draw (DTrans d b) k =
  (fst (run_fwd_ld O b (fst (sample_lp O draw d k))),
   n_sub O (snd (sample_lp O draw d k)) (snd (run_fwd_ld O b (fst (sample_lp O draw d k))))).
Proof. reflexivity. Qed.
(* Transformed(base, Invert(b)) evaluates densities through b's FORWARD direction *)
Theorem invert_swaps {A} (O : NumOps A) (d : dist A) (b : bexpr A) (x : list A) :
  logp O (DTrans d (BInvert b)) x = n_add O (logp O d (fst (run_fwd_ld O b x))) (snd (run_fwd_ld O b x)).
Proof. reflexivity. Qed.
Theorem invert_swaps_sample {A K} (O : NumOps A) (draw : fam -> K -> list A) d b k :
  sample O draw (DTrans d (BInvert b)) k = run_inv O b (sample O draw d k).
Proof. reflexivity. Qed.

Section Paths.
  Context {K : Type} (draw : fam -> K -> list R).
  (* the sample returned by sample_and_log_prob is the sample of sample: any expression, any nesting *)
  Theorem sample_lp_point (d : dist R) k : fst (sample_lp ROps draw d k) = sample ROps draw d k.
  Proof.
    induction d as [f|d IH b]; [reflexivity|].
    cbn [sample_lp sample fst]. rewrite IH. apply run_ld_fst.
  Qed.
  (* guards: every expression valid, and each base sample lies in the domain of the bijection applied to it
     (all of R^n unless the expression contains Invert of a leaf that is not onto) *)
  Fixpoint sample_ok (d : dist R) (k : K) : Prop :=
    match d with
    | DBase _ => True
    | DTrans d' b => sample_ok d' k /\ bok b /\ bdom b (sample ROps draw d' k)
    end.
  (* the log-probability returned with a sample IS log_prob at that sample *)
  Theorem sample_lp_consistent (d : dist R) k : sample_ok d k ->
    snd (sample_lp ROps draw d k) = logp ROps d (fst (sample_lp ROps draw d k)).
  Proof.
    induction d as [f|d IH b]; intros Hok; [reflexivity|].
    destruct Hok as (Hd & Hb & Hdom). specialize (IH Hd).
    cbn [sample_lp logp fst snd]. pose proof (sample_lp_point d k) as Hz.
    set (z := fst (sample_lp ROps draw d k)) in *.
    rewrite run_fwd_ld_R. cbn [fst snd]. rewrite run_inv_ld_R. cbn [fst snd].
    destruct (blayer_ok b Hb) as [L1 L2]. unfold bdom in Hdom. rewrite <- Hz in Hdom.
    destruct (L1 z Hdom) as [Hc Hi]. destruct (L2 _ Hc) as (_ & _ & Hl).
    rewrite Hl, Hi, IH. cbn [n_add n_sub ROps ROpsG]. ring.
  Qed.
End Paths.

(* the same statement for ANY layer that satisfies the C01 + C02 laws (conditional layers at a fixed
   condition, coupling / autoregressive layers, ...) over any carrier and any base log-density *)
Theorem sample_lp_consistent_abstract {X} (blogp : X -> R) (l : layer X) (z : X) :
  layer_ok l -> l_dom l z ->
  blogp z - l_ldf l z = blogp (l_inv l (l_fwd l z)) + l_ldi l (l_fwd l z).
Proof.
  intros [L1 L2] Hz. destruct (L1 z Hz) as [Hc Hi]. destruct (L2 _ Hc) as (_ & _ & Hl).
  rewrite Hl, Hi. ring.
Qed.

(* ------------------------------------------------------------------------------------ *)
(* Chains as explicit passes (what "layers applied in order, log-dets added" means)        *)
(* ------------------------------------------------------------------------------------ *)
(* forward pass through layers left to right *)
Fixpoint layers_fwd (bs : list (bexpr R)) (x : list R) : list R :=
  match bs with [] => x | b :: t => layers_fwd t (fst (run_fwd_ld ROps b x)) end.
Fixpoint layers_fwd_ld (bs : list (bexpr R)) (x : list R) : R :=
  match bs with [] => 0 | b :: t => snd (run_fwd_ld ROps b x) + layers_fwd_ld t (fst (run_fwd_ld ROps b x)) end.
(* inverse pass through a list given in the order of application (last layer of the chain first) *)
Fixpoint layers_inv (rbs : list (bexpr R)) (y : list R) : list R :=
  match rbs with [] => y | b :: t => layers_inv t (fst (run_inv_ld ROps b y)) end.
Fixpoint layers_inv_ld (rbs : list (bexpr R)) (y : list R) : R :=
  match rbs with [] => 0 | b :: t => snd (run_inv_ld ROps b y) + layers_inv_ld t (fst (run_inv_ld ROps b y)) end.

Lemma chain_fwd_pass bs : forall x a,
  fold_left (fun s b' => let r := run_fwd_ld ROps b' (fst s) in (fst r, n_add ROps (snd s) (snd r))) bs (x, a)
  = (layers_fwd bs x, a + layers_fwd_ld bs x).
Proof.
  induction bs as [|b t IH]; intros x a; cbn [fold_left layers_fwd layers_fwd_ld].
  - f_equal. ring.
  - cbv zeta. cbn [fst snd]. rewrite IH. f_equal. cbn [n_add ROps ROpsG]. ring.
Qed.
Lemma run_fwd_ld_chain_pass bs x : run_fwd_ld ROps (BChain bs) x = (layers_fwd bs x, layers_fwd_ld bs x).
Proof. rewrite run_fwd_ld_chain. change (c ROps 0) with 0. rewrite chain_fwd_pass. f_equal. ring. Qed.
Lemma chain_inv_pass rbs : forall y a,
  fold_left (fun s b' => let r := run_inv_ld ROps b' (fst s) in (fst r, n_add ROps (snd s) (snd r))) rbs (y, a)
  = (layers_inv rbs y, a + layers_inv_ld rbs y).
Proof.
  induction rbs as [|b t IH]; intros y a; cbn [fold_left layers_inv layers_inv_ld].
  - f_equal. ring.
  - cbv zeta. cbn [fst snd]. rewrite IH. f_equal. cbn [n_add ROps ROpsG]. ring.
Qed.
Lemma run_inv_ld_chain_pass bs y :
  run_inv_ld ROps (BChain bs) y = (layers_inv (rev bs) y, layers_inv_ld (rev bs) y).
Proof.
  rewrite run_inv_ld_chain. change (c ROps 0) with 0.
  rewrite <- (fold_left_rev_as_right (fun s b' => let r := run_inv_ld ROps b' (fst s) in (fst r, n_add ROps (snd s) (snd r)))).
  rewrite chain_inv_pass. f_equal. ring.
Qed.
Lemma layers_fwd_app a b x : layers_fwd (a ++ b) x = layers_fwd b (layers_fwd a x).
Proof. revert x. induction a; intros; cbn; auto. Qed.
Lemma layers_fwd_ld_app a b x : layers_fwd_ld (a ++ b) x = layers_fwd_ld a x + layers_fwd_ld b (layers_fwd a x).
Proof. revert x. induction a as [|l a IH]; intros; cbn [app layers_fwd layers_fwd_ld]; [ring|]. rewrite IH. ring. Qed.
Lemma layers_inv_app a b y : layers_inv (a ++ b) y = layers_inv b (layers_inv a y).
Proof. revert y. induction a; intros; cbn; auto. Qed.
Lemma layers_inv_ld_app a b y : layers_inv_ld (a ++ b) y = layers_inv_ld a y + layers_inv_ld b (layers_inv a y).
Proof. revert y. induction a as [|l a IH]; intros; cbn [app layers_inv layers_inv_ld]; [ring|]. rewrite IH. ring. Qed.

(* the orientation of the flow factories (flows.py: `Invert(Scan(layers)) if invert else Scan(layers)`), on the
   term the serialiser produces.  invert=True: log_prob applies the layers' FORWARD maps in order, log-dets ADDED,
   and a sample is the base draw pulled back through the layers' inverses, last layer first. *)
Theorem factory_orientation_invert f (layers : list (bexpr R)) x :
  logp ROps (DTrans (DBase f) (BInvert (BChain layers))) x
  = base_logp ROps f (layers_fwd layers x) + layers_fwd_ld layers x.
Proof. cbn [logp]. rewrite run_inv_ld_invert, run_fwd_ld_chain_pass. reflexivity. Qed.
(* invert=False: log_prob applies the layers' INVERSE maps, last layer first, inverse log-dets added *)
Theorem factory_orientation_plain f (layers : list (bexpr R)) x :
  logp ROps (DTrans (DBase f) (BChain layers)) x
  = base_logp ROps f (layers_inv (rev layers) x) + layers_inv_ld (rev layers) x.
Proof. cbn [logp]. rewrite run_inv_ld_chain_pass. reflexivity. Qed.
Theorem factory_orientation_sample {K} (draw : fam -> K -> list R) f (layers : list (bexpr R)) k :
  sample ROps draw (DTrans (DBase f) (BInvert (BChain layers))) k = layers_inv (rev layers) (draw f k) /\
  sample ROps draw (DTrans (DBase f) (BChain layers)) k = layers_fwd layers (draw f k).
Proof.
  cbn [sample]. split.
  - rewrite run_fwd_invert. rewrite <- (proj2 (run_ld_fst ROps (BChain layers))), run_inv_ld_chain_pass. reflexivity.
  - rewrite <- (proj1 (run_ld_fst ROps (BChain layers))), run_fwd_ld_chain_pass. reflexivity.
Qed.

(* ------------------------------------------------------------------------------------ *)
(* merge_chains / merge_transforms                                                        *)
(* ------------------------------------------------------------------------------------ *)
Lemma merge_pass_cons (b : bexpr R) t :
  merge_pass (b :: t) = (match b with BChain l' => l' | _ => [b] end) ++ merge_pass t.
Proof. reflexivity. Qed.

(* one splice pass of merge_chains changes neither direction, neither log-det *)
Lemma merge_pass_same (l : list (bexpr R)) :
  (forall x, layers_fwd (merge_pass l) x = layers_fwd l x /\ layers_fwd_ld (merge_pass l) x = layers_fwd_ld l x) /\
  (forall y, layers_inv (rev (merge_pass l)) y = layers_inv (rev l) y /\
             layers_inv_ld (rev (merge_pass l)) y = layers_inv_ld (rev l) y).
Proof.
  induction l as [|b t [IHf IHi]]; [split; intros; split; reflexivity|].
  rewrite merge_pass_cons. split.
  - intros x. rewrite layers_fwd_app, layers_fwd_ld_app.
    assert (E : layers_fwd (match b with BChain l' => l' | _ => [b] end) x = fst (run_fwd_ld ROps b x) /\
                layers_fwd_ld (match b with BChain l' => l' | _ => [b] end) x = snd (run_fwd_ld ROps b x)).
    { destruct b; try (cbn [layers_fwd layers_fwd_ld]; split; [reflexivity | ring]).
      rewrite run_fwd_ld_chain_pass. split; reflexivity. }
    destruct E as [E1 E2]. rewrite E1, E2. cbn [layers_fwd layers_fwd_ld].
    destruct (IHf (fst (run_fwd_ld ROps b x))) as [-> ->]. split; reflexivity.
  - intros y. cbn [rev]. rewrite rev_app_distr, !layers_inv_app, !layers_inv_ld_app.
    destruct (IHi y) as [-> ->]. set (z := layers_inv (rev t) y).
    assert (E : layers_inv (rev (match b with BChain l' => l' | _ => [b] end)) z = fst (run_inv_ld ROps b z) /\
                layers_inv_ld (rev (match b with BChain l' => l' | _ => [b] end)) z = snd (run_inv_ld ROps b z)).
    { destruct b; try (cbn [rev app layers_inv layers_inv_ld]; split; [reflexivity | ring]).
      rewrite run_inv_ld_chain_pass. split; reflexivity. }
    destruct E as [E1 E2]. rewrite E1, E2. cbn [layers_inv layers_inv_ld]. split; [reflexivity | ring].
Qed.
Lemma merge_loop_same fuel : forall (l : list (bexpr R)),
  (forall x, layers_fwd (merge_loop fuel l) x = layers_fwd l x /\ layers_fwd_ld (merge_loop fuel l) x = layers_fwd_ld l x) /\
  (forall y, layers_inv (rev (merge_loop fuel l)) y = layers_inv (rev l) y /\
             layers_inv_ld (rev (merge_loop fuel l)) y = layers_inv_ld (rev l) y).
Proof.
  induction fuel as [|n IH]; intros l; cbn [merge_loop]; destruct (existsb is_chain l);
    try (split; intros; split; reflexivity).
  destruct (IH (merge_pass l)) as [A B]. destruct (merge_pass_same l) as [C D]. split.
  - intros x. destruct (A x) as [-> ->]. apply C.
  - intros y. destruct (B y) as [-> ->]. apply D.
Qed.
(* Chain(bs).merge_chains() is the same bijection as Chain(bs): all four methods, any nesting, any fuel *)
Theorem merge_chains_same fuel (l : list (bexpr R)) :
  (forall x, run_fwd_ld ROps (BChain (merge_loop fuel l)) x = run_fwd_ld ROps (BChain l) x) /\
  (forall y, run_inv_ld ROps (BChain (merge_loop fuel l)) y = run_inv_ld ROps (BChain l) y) /\
  (forall x, run_fwd ROps (BChain (merge_loop fuel l)) x = run_fwd ROps (BChain l) x) /\
  (forall y, run_inv ROps (BChain (merge_loop fuel l)) y = run_inv ROps (BChain l) y).
Proof.
  destruct (merge_loop_same fuel l) as [A B].
  assert (F : forall x, run_fwd_ld ROps (BChain (merge_loop fuel l)) x = run_fwd_ld ROps (BChain l) x).
  { intros x. rewrite !run_fwd_ld_chain_pass. destruct (A x) as [-> ->]. reflexivity. }
  assert (G : forall y, run_inv_ld ROps (BChain (merge_loop fuel l)) y = run_inv_ld ROps (BChain l) y).
  { intros y. rewrite !run_inv_ld_chain_pass. destruct (B y) as [-> ->]. reflexivity. }
  repeat split; auto.
  - intros x. rewrite <- !(proj1 (run_ld_fst ROps _)). now rewrite F.
  - intros y. rewrite <- !(proj2 (run_ld_fst ROps _)). now rewrite G.
Qed.

Lemma logp_collect (d : dist R) : forall x,
  logp ROps d x = logp ROps (fst (collect d)) (layers_inv (snd (collect d)) x) + layers_inv_ld (snd (collect d)) x.
Proof.
  induction d as [f|d IH b]; intros x; cbn [collect fst snd layers_inv layers_inv_ld logp].
  - ring.
  - rewrite IH. cbn [n_add ROps ROpsG]. ring.
Qed.
Section MergeSample.
  Context {K : Type} (draw : fam -> K -> list R).
  Lemma sample_lp_collect (d : dist R) k :
    sample_lp ROps draw d k =
    (layers_fwd (rev (snd (collect d))) (fst (sample_lp ROps draw (fst (collect d)) k)),
     snd (sample_lp ROps draw (fst (collect d)) k) - layers_fwd_ld (rev (snd (collect d))) (fst (sample_lp ROps draw (fst (collect d)) k))).
  Proof.
    induction d as [f|d IH b]; cbn [collect fst snd rev layers_fwd layers_fwd_ld sample_lp].
    - f_equal. ring.
    - rewrite IH. cbn [fst snd]. rewrite layers_fwd_app, layers_fwd_ld_app. cbn [layers_fwd layers_fwd_ld].
      f_equal. cbn [n_sub ROps ROpsG]. ring.
  Qed.
End MergeSample.

(* merge_transforms() returns the same distribution: log_prob everywhere, sample and sample_and_log_prob at
   every key, whatever the nesting depth and whatever chains are nested inside (no guard needed: pure algebra) *)
Theorem merge_transforms_same (d : dist R) :
  (forall x, logp ROps (merge_transforms d) x = logp ROps d x) /\
  (forall K (draw : fam -> K -> list R) k,
     sample_lp ROps draw (merge_transforms d) k = sample_lp ROps draw d k /\
     sample ROps draw (merge_transforms d) k = sample ROps draw d k).
Proof.
  assert (S : forall K (draw : fam -> K -> list R) k d1 d2,
             sample_lp ROps draw d1 k = sample_lp ROps draw d2 k -> sample ROps draw d1 k = sample ROps draw d2 k).
  { intros K draw k d1 d2 H. rewrite <- !sample_lp_point. now rewrite H. }
  destruct d as [f|[f|d2 b2] b]; try (split; [reflexivity | intros; split; reflexivity]).
  set (d := DTrans (DTrans d2 b2) b). change (merge_transforms d) with
    (DTrans (fst (collect d)) (BChain (merge_chains (rev (snd (collect d)))))).
  unfold merge_chains. set (fuel := bsize _).
  destruct (merge_chains_same fuel (rev (snd (collect d)))) as (F & G & _ & _). split.
  - intros x. rewrite (logp_collect d). cbn [logp]. rewrite G, run_inv_ld_chain_pass, rev_involutive. reflexivity.
  - intros K draw k. assert (E : sample_lp ROps draw (DTrans (fst (collect d)) (BChain (merge_loop fuel (rev (snd (collect d)))))) k
                                 = sample_lp ROps draw d k).
    { rewrite (sample_lp_collect draw d). cbn [sample_lp]. rewrite F, run_fwd_ld_chain_pass. reflexivity. }
    split; [exact E | apply S, E].
Qed.

(* ------------------------------------------------------------------------------------ *)
(* Non-vacuity witnesses                                                                  *)
(* ------------------------------------------------------------------------------------ *)
Definition ex_dist : dist R :=
  DTrans (DTrans (DBase FNormal) (BElem [LAffine 1 (-2)]))
         (BChain [BInvert (BElem [LAffine 0 3]); BElem [LLeaky 3 (leaky_grad ROps 3) (leaky_icpt ROps 3)]; BElem [LExp]]).
Lemma ex_dist_ok : sample_ok (fun _ (_ : unit) => [/ 2]) ex_dist tt.
Proof.
  unfold ex_dist. cbn [sample_ok]. split; [split; [exact I | split] | split].
  - constructor; [cbn; lra | constructor].
  - unfold bdom. cbn. reflexivity.
  - apply bok_chain. constructor; [|constructor; [|constructor; [|constructor]]].
    + cbn. constructor; [cbn; lra | constructor].
    + cbn. constructor; [cbn; repeat split; lra | constructor].
    + cbn. constructor; [exact I | constructor].
  - unfold bdom. cbn. repeat split; repeat constructor.
Qed.
Lemma ex_orientation :
  logp ROps (DTrans (DBase FNormal) (BInvert (BChain [BElem [LAffine 0 3]]))) [1]
  = base_logp ROps FNormal [1 * 3 + 0] + ln (Rabs 3).
Proof.
  rewrite factory_orientation_invert. cbn [layers_fwd layers_fwd_ld run_fwd_ld zipw leaf_fwd leaf_ldf fst snd].
  rewrite sum_R_cons, sum_R_nil. unfold affine_fwd, affine_ld. cbn [n_add n_mul n_log n_abs ROps ROpsG]. ring.
Qed.
