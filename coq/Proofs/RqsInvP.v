(* C01 -- the rational-quadratic spline of Model/Leaves.v ([rqs_fwd] / [rqs_inv], bin lookup
   [rqs_bin] = clip(searchsorted - 1, 0, len - 2)) at the reals: inverse (transform x) = x and
   transform (inverse y) = y for ALL real x, y -- knots, interval ends and out-of-range points
   included -- for every strictly increasing knot vectors with positive derivatives; and the
   refutation of the bin lookup as it was before fix 2486bd0 (D1).
   Part 1 (Section Bin) is the algebra of one bin, promoted from design_probes/Rqs.v. *)
From Coq Require Import Reals List ZArith Bool Lra Lia Psatz Sorted.
From FJ Require Import Model.Num Model.Leaves Model.Autoreg Proofs.RNum Proofs.LeafInvP Proofs.RqsCoreP Proofs.AutoregInvP.
Import ListNotations.
Open Scope R_scope.

(* ------------------------------------------------------------------------------------ *)
(* One bin                                                                                *)
(* ------------------------------------------------------------------------------------ *)
Section Bin.
  Variables xk xk1 yk yk1 dk dk1 : R.

  Definition b_w := xk1 - xk.
  Definition b_Dy := yk1 - yk.
  Definition b_s := b_Dy / b_w.
  Definition b_E := dk1 + dk - 2 * b_s.
  (* forward, as in transform() *)
  Definition b_xi (x : R) := (x - xk) / b_w.
  Definition b_den (t : R) := b_s + b_E * t * (1 - t).
  Definition bin_fwd (x : R) :=
    yk + b_Dy * (b_s * (b_xi x * b_xi x) + dk * b_xi x * (1 - b_xi x)) / b_den (b_xi x).
  (* inverse, as in inverse() *)
  Definition b_ca (y : R) := b_Dy * (b_s - dk) + (y - yk) * b_E.
  Definition b_cb (y : R) := b_Dy * dk - (y - yk) * b_E.
  Definition b_cc (y : R) := - b_s * (y - yk).
  Definition bin_inv (y : R) :=
    (2 * b_cc y) / (- b_cb y - sqrt ((b_cb y * b_cb y) - 4 * b_ca y * b_cc y)) * b_w + xk.

  Hypothesis Hx : xk < xk1. Hypothesis Hy : yk < yk1.
  Hypothesis Hdk : 0 < dk. Hypothesis Hdk1 : 0 < dk1.
  Local Notation w := b_w. Local Notation Dy := b_Dy. Local Notation s := b_s.
  Local Notation E := b_E. Local Notation den := b_den. Local Notation xi := b_xi.

  Lemma w_pos : 0 < w. Proof. unfold b_w; lra. Qed.
  Lemma Dy_pos : 0 < Dy. Proof. unfold b_Dy; lra. Qed.
  Lemma s_pos : 0 < s. Proof. unfold b_s. apply Rdiv_lt_0_compat; [apply Dy_pos | apply w_pos]. Qed.

  Lemma den_pos t : 0 <= t <= 1 -> 0 < den t.
  Proof.
    intros Ht. unfold b_den, b_E. pose proof s_pos as Hs.
    replace (s + (dk1 + dk - 2 * s) * t * (1 - t)) with (s * (1 - 2*(t*(1-t))) + (dk1+dk) * (t*(1-t))) by ring.
    set (u := t*(1-t)). assert (0 <= u) by (unfold u; nra).
    assert (u <= /4) by (unfold u; pose proof (Rle_0_sqr (t - /2)) as Hq; unfold Rsqr in Hq; nra).
    assert (0 < s * (1 - 2*u)) by (apply Rmult_lt_0_compat; lra).
    assert (0 <= (dk1+dk) * u) by (apply Rmult_le_pos; lra). lra.
  Qed.

  Definition b_Q (t : R) := dk1 * (t*t) + 2 * s * t * (1 - t) + dk * ((1 - t)*(1 - t)).
  Lemma Q_pos t : 0 <= t <= 1 -> 0 < b_Q t.
  Proof. intros Ht. unfold b_Q. pose proof s_pos.
    assert (0 <= dk1 * (t*t)) by (apply Rmult_le_pos; nra).
    assert (0 <= dk * ((1-t)*(1-t))) by (apply Rmult_le_pos; nra).
    assert (0 <= t*(1-t)) by nra.
    assert (0 <= 2*s*t*(1-t)) by (replace (2*s*t*(1-t)) with (2 * (s * (t*(1-t)))) by ring; apply Rmult_le_pos; [lra|apply Rmult_le_pos; lra]).
    destruct (Rle_lt_dec t (/2)).
    - assert (/4 <= (1-t)*(1-t)) by nra. assert (0 < dk * ((1-t)*(1-t))) by (apply Rmult_lt_0_compat; lra). lra.
    - assert (/4 < t*t) by nra. assert (0 < dk1 * (t*t)) by (apply Rmult_lt_0_compat; lra). lra.
  Qed.

  Section AtPoint.
    Variable t : R. Hypothesis Ht : 0 <= t <= 1.
    Let th := Dy * (s * (t*t) + dk * t * (1 - t)) / den t.   (* y - yk *)
    Let a := Dy * (s - dk) + th * E.
    Let b := Dy * dk - th * E.
    Let c := - s * th.

    Lemma quad_zero : a * (t*t) + b * t + c = 0.
    Proof. pose proof (den_pos t Ht) as H. subst a b c th. unfold b_den, b_E in *. field. exact (Rgt_not_eq _ _ H). Qed.
    Lemma slope_id : (2 * a * t + b) * den t = Dy * s * b_Q t.
    Proof. pose proof (den_pos t Ht) as H. subst a b th. unfold b_Q, b_den, b_E in *. field. exact (Rgt_not_eq _ _ H). Qed.
    Lemma slope_pos : 0 < 2 * a * t + b.
    Proof.
      pose proof (den_pos t Ht) as Hd. pose proof (Q_pos t Ht). pose proof Dy_pos. pose proof s_pos.
      assert (0 < Dy * s * b_Q t) by (apply Rmult_lt_0_compat; [apply Rmult_lt_0_compat|]; assumption).
      rewrite <- slope_id in H2. nra.
    Qed.
    Lemma disc_id : (b*b) - 4 * a * c = ((2 * a * t + b)*(2 * a * t + b)).
    Proof. pose proof quad_zero. nra. Qed.
    Lemma mid_id : (a * t + b) * den t = Dy * s * (dk * (1 - t) + s * t).
    Proof. pose proof (den_pos t Ht) as H. subst a b th. unfold b_den, b_E in *. field. exact (Rgt_not_eq _ _ H). Qed.
    Lemma mid_pos : 0 < a * t + b.
    Proof.
      pose proof (den_pos t Ht) as Hd. pose proof Dy_pos. pose proof s_pos.
      assert (0 < dk * (1 - t) + s * t) by nra.
      assert (0 < Dy * s * (dk * (1 - t) + s * t)) by (apply Rmult_lt_0_compat; [apply Rmult_lt_0_compat|]; assumption).
      rewrite <- mid_id in H2. nra.
    Qed.
    (* root selection: sqrt(b^2-4ac) = 2at+b, the denominator -b-sqrt = -2(at+b) is not zero *)
    Theorem root_is_t : (2 * c) / (- b - sqrt ((b*b) - 4 * a * c)) = t.
    Proof.
      rewrite disc_id. pose proof slope_pos as Hs. pose proof mid_pos as Hm.
      replace (((2 * a * t + b)*(2 * a * t + b))) with (Rsqr (2 * a * t + b)) by (unfold Rsqr; ring).
      rewrite sqrt_Rsqr by lra.
      pose proof quad_zero as Hq.
      replace (2 * c) with (- 2 * t * (a * t + b)) by nra.
      field. lra.
    Qed.
  End AtPoint.

  Lemma xi_range x : xk <= x <= xk1 -> 0 <= xi x <= 1.
  Proof.
    intros Hxr. pose proof w_pos as Hw. unfold b_xi.
    split; [apply Rmult_le_pos; [lra| left; apply Rinv_0_lt_compat, Hw]|].
    apply Rmult_le_reg_r with w; [exact Hw|]. unfold Rdiv. rewrite Rmult_assoc, Rinv_l by lra. unfold b_w in *. lra.
  Qed.
  Lemma xi_pos x : xk < x -> 0 < xi x.
  Proof. intros H. unfold b_xi. apply Rdiv_lt_0_compat; [lra | apply w_pos]. Qed.

  Theorem inv_fwd_in_bin x : xk <= x <= xk1 -> bin_inv (bin_fwd x) = x.
  Proof.
    intros Hxr. pose proof w_pos as Hw. pose proof (xi_range x Hxr) as Ht.
    unfold bin_inv, b_ca, b_cb, b_cc.
    replace (bin_fwd x - yk) with (Dy * (s * (xi x * xi x) + dk * xi x * (1 - xi x)) / den (xi x)) by (unfold bin_fwd; ring).
    rewrite (root_is_t (xi x) Ht). unfold b_xi. field. lra.
  Qed.

  (* the bin map sends [xk, xk1] into [yk, yk1], and (xk, xk1] into (yk, yk1] *)
  Lemma bin_fwd_low x : xk <= x <= xk1 -> yk <= bin_fwd x.
  Proof.
    intros Hxr. pose proof (xi_range x Hxr) as Ht. pose proof (den_pos _ Ht) as Hd.
    pose proof Dy_pos as HD. pose proof s_pos as Hs. unfold bin_fwd.
    set (t := xi x) in *.
    assert (0 <= s * (t*t) + dk * t * (1 - t)) by (assert (0 <= t*t) by nra; assert (0 <= t*(1-t)) by nra; nra).
    assert (0 <= Dy * (s * (t*t) + dk * t * (1 - t)) / den t).
    { unfold Rdiv. apply Rmult_le_pos; [apply Rmult_le_pos; lra | left; apply Rinv_0_lt_compat, Hd]. }
    lra.
  Qed.
  Lemma bin_fwd_gt x : xk < x <= xk1 -> yk < bin_fwd x.
  Proof.
    intros Hxr. assert (Ht : 0 <= xi x <= 1) by (apply xi_range; lra). pose proof (den_pos _ Ht) as Hd.
    pose proof (xi_pos x ltac:(lra)) as Hp.
    pose proof Dy_pos as HD. pose proof s_pos as Hs. unfold bin_fwd.
    set (t := xi x) in *.
    assert (0 < s * (t*t) + dk * t * (1 - t)) by (assert (0 < t*t) by nra; assert (0 <= t*(1-t)) by nra; nra).
    assert (0 < Dy * (s * (t*t) + dk * t * (1 - t)) / den t).
    { unfold Rdiv. apply Rmult_lt_0_compat; [apply Rmult_lt_0_compat; lra | apply Rinv_0_lt_compat, Hd]. }
    lra.
  Qed.
  Lemma bin_fwd_high x : xk <= x <= xk1 -> bin_fwd x <= yk1.
  Proof.
    intros Hxr. pose proof (xi_range x Hxr) as Ht. pose proof (den_pos _ Ht) as Hd.
    pose proof Dy_pos as HD. pose proof s_pos as Hs. unfold bin_fwd.
    set (t := xi x) in *.
    assert (Hid : (yk + Dy) - (yk + Dy * (s * (t*t) + dk * t * (1 - t)) / den t)
                  = Dy * ((1 - t) * (s * (1 - t) + dk1 * t)) / den t).
    { unfold b_den, b_E in *. field. exact (Rgt_not_eq _ _ Hd). }
    replace (yk + Dy) with yk1 in Hid by (unfold b_Dy; ring).
    assert (0 <= (1 - t) * (s * (1 - t) + dk1 * t)) by (apply Rmult_le_pos; nra).
    assert (0 <= Dy * ((1 - t) * (s * (1 - t) + dk1 * t)) / den t).
    { unfold Rdiv. apply Rmult_le_pos; [apply Rmult_le_pos; lra | left; apply Rinv_0_lt_compat, Hd]. }
    lra.
  Qed.

  (* surjectivity of the bin map: the coded quadratic has a root in [0,1] (IVT on a polynomial) *)
  Lemma bin_fwd_onto y : yk <= y <= yk1 ->
    exists x, xk <= x <= xk1 /\ bin_fwd x = y /\ (yk < y -> xk < x).
  Proof.
    intros Hyr. pose proof Dy_pos as HD. pose proof s_pos as Hs. pose proof w_pos as Hw.
    set (th := y - yk). assert (Hth : 0 <= th <= Dy) by (unfold th, b_Dy; lra).
    set (P := fun t : R => (Dy * (s - dk) + th * E) * (t*t) + (Dy * dk - th * E) * t + - s * th).
    assert (Hc : continuity P) by (unfold P; reg).
    assert (H0 : P 0 = - s * th) by (unfold P; ring).
    assert (H1 : P 1 = s * (Dy - th)) by (unfold P; ring).
    destruct (IVT_cor P 0 1 Hc ltac:(lra)) as [t [Ht HP]].
    { rewrite H0, H1. assert (0 <= s * th) by nra. assert (0 <= s * (Dy - th)) by nra. nra. }
    pose proof (den_pos t Ht) as Hd.
    assert (Hrel : Dy * (s * (t*t) + dk * t * (1 - t)) = th * den t).
    { unfold P in HP. unfold b_den. unfold b_E in *. nra. }
    exists (t * w + xk).
    assert (Hxi : xi (t * w + xk) = t) by (unfold b_xi; field; lra).
    split; [|split].
    - unfold b_w in *. nra.
    - unfold bin_fwd. rewrite Hxi, Hrel. unfold th. field. exact (Rgt_not_eq _ _ Hd).
    - intros Hgt. assert (t <> 0).
      { intro Ht0. subst t. rewrite H0 in HP. unfold th in HP. nra. }
      assert (0 < t) by lra. nra.
  Qed.

  Theorem fwd_inv_in_bin y : yk <= y <= yk1 ->
    bin_fwd (bin_inv y) = y /\ xk <= bin_inv y <= xk1 /\ (yk < y -> xk < bin_inv y).
  Proof.
    intros Hyr. destruct (bin_fwd_onto y Hyr) as (x & Hxr & Hf & Hgt).
    assert (Hi : bin_inv y = x) by (rewrite <- Hf; apply inv_fwd_in_bin, Hxr).
    rewrite Hi. auto.
  Qed.
End Bin.

Lemma bin_fwd_at_xk xk xk1 yk yk1 dk dk1 : bin_fwd xk xk1 yk yk1 dk dk1 xk = yk.
Proof.
  unfold bin_fwd. assert (E : b_xi xk xk1 xk = 0) by (unfold b_xi, Rdiv; ring).
  rewrite E. unfold Rdiv. ring.
Qed.

(* ------------------------------------------------------------------------------------ *)
(* The model functions in terms of the bin maps                                           *)
(* ------------------------------------------------------------------------------------ *)
Lemma clip_id v lo hi : lo <= v <= hi -> clip ROps v lo hi = v.
Proof.
  intros H. unfold clip, nmin, nmax. rops.
  rewrite (Rltb_f v lo) by lra. rewrite (Rltb_f hi v) by lra. reflexivity.
Qed.

Section Shape.
  Variables (bin : list R -> R -> Z) (xp yp dv : list R) (lo hi : R).
  Lemma inb_true v : lo <= v <= hi -> geb ROps v lo && n_leb ROps v hi = true.
  Proof. intros H. unfold geb. rops. rewrite !Rleb_t by lra. reflexivity. Qed.
  Lemma inb_false v : ~ (lo <= v <= hi) -> geb ROps v lo && n_leb ROps v hi = false.
  Proof.
    intros H. unfold geb. rops.
    destruct (Rleb_case lo v) as [[E1 H1]|[E1 H1]]; rewrite E1; [|reflexivity].
    destruct (Rleb_case v hi) as [[E2 H2]|[E2 H2]]; rewrite E2; [|reflexivity]. exfalso. apply H. lra.
  Qed.
  (* outside the interval both methods are the identity *)
  Lemma rqs_fwd_g_out x : ~ (lo <= x <= hi) -> rqs_fwd_g ROps bin xp yp dv lo hi x = x.
  Proof. intros H. unfold rqs_fwd_g, where_. now rewrite (inb_false x H). Qed.
  Lemma rqs_inv_g_out y : ~ (lo <= y <= hi) -> rqs_inv_g ROps bin xp yp dv lo hi y = y.
  Proof. intros H. unfold rqs_inv_g, where_. now rewrite (inb_false y H). Qed.
  (* inside: the bin map of the looked-up bin, clipped *)
  Lemma rqs_fwd_g_in x : lo <= x <= hi ->
    rqs_fwd_g ROps bin xp yp dv lo hi x =
    clip ROps (bin_fwd (getz ROps xp (bin xp x)) (getz ROps xp (bin xp x + 1))
                       (getz ROps yp (bin xp x)) (getz ROps yp (bin xp x + 1))
                       (getz ROps dv (bin xp x)) (getz ROps dv (bin xp x + 1)) x) lo hi.
  Proof. intros H. unfold rqs_fwd_g, where_. rewrite (inb_true x H). reflexivity. Qed.
  Lemma rqs_inv_g_in y : lo <= y <= hi ->
    rqs_inv_g ROps bin xp yp dv lo hi y =
    clip ROps (bin_inv (getz ROps xp (bin yp y)) (getz ROps xp (bin yp y + 1))
                       (getz ROps yp (bin yp y)) (getz ROps yp (bin yp y + 1))
                       (getz ROps dv (bin yp y)) (getz ROps dv (bin yp y + 1)) y) lo hi.
  Proof. intros H. unfold rqs_inv_g, where_. rewrite (inb_true y H). reflexivity. Qed.
End Shape.

(* ------------------------------------------------------------------------------------ *)
(* The spline                                                                             *)
(* ------------------------------------------------------------------------------------ *)
(* what C11 proves the reparameterisation delivers: knots strictly increasing from lo to hi on
   both axes, equally many, one positive derivative per knot *)
Record rqs_valid (xp yp dv : list R) (lo hi : R) : Prop := {
  rv_xs : StronglySorted Rlt xp; rv_ys : StronglySorted Rlt yp;
  rv_len : (2 <= length xp)%nat; rv_leny : length yp = length xp; rv_lend : length dv = length xp;
  rv_x0 : nth 0 xp 0 = lo; rv_xn : last xp 0 = hi; rv_y0 : nth 0 yp 0 = lo; rv_yn : last yp 0 = hi;
  rv_d : Forall (fun d => 0 < d) dv }.

Lemma getz_pos (dv : list R) k : Forall (fun d => 0 < d) dv -> (0 <= k < Z.of_nat (length dv))%Z ->
  0 < getz ROps dv k.
Proof.
  intros Hd Hk. rewrite getz_nth by exact Hk. rewrite Forall_forall in Hd. apply Hd, nth_In. lia.
Qed.
Lemma getz_ends (pos : list R) lo hi k : StronglySorted Rlt pos -> (2 <= length pos)%nat ->
  nth 0 pos 0 = lo -> last pos 0 = hi -> (0 <= k <= Z.of_nat (length pos) - 2)%Z ->
  lo <= getz ROps pos k /\ getz ROps pos (k + 1) <= hi /\ getz ROps pos k < getz ROps pos (k + 1).
Proof.
  intros Hs Hl H0 Hn Hk. split; [|split].
  - rewrite <- H0, <- getz_first by lia. apply sorted_getz_le; [exact Hs | lia | lia].
  - rewrite <- Hn, <- getz_last by lia. apply sorted_getz_le; [exact Hs | lia | lia].
  - apply sorted_getz_lt; [exact Hs | lia | lia].
Qed.

Section Spline.
  Variables (xp yp dv : list R) (lo hi : R).
  Hypothesis V : rqs_valid xp yp dv lo hi.

  Theorem rqs_inv_fwd x : rqs_inv ROps xp yp dv lo hi (rqs_fwd ROps xp yp dv lo hi x) = x.
  Proof.
    destruct V as [Hxs Hys Hlen Hleny Hlend Hx0 Hxn Hy0 Hyn Hd].
    unfold rqs_inv, rqs_fwd.
    destruct (Rle_dec lo x) as [Hlo|Hlo]; [destruct (Rle_dec x hi) as [Hhi|Hhi]|].
    2:{ rewrite (rqs_fwd_g_out _ _ _ _ _ _ x) by lra. apply rqs_inv_g_out. lra. }
    2:{ rewrite (rqs_fwd_g_out _ _ _ _ _ _ x) by lra. apply rqs_inv_g_out. lra. }
    rewrite rqs_fwd_g_in by lra.
    destruct (rqs_bin_spec xp x Hxs Hlen ltac:(lra)) as (Hk & Hxr & Hst & Hlt).
    set (k := rqs_bin ROps xp x) in *.
    destruct (getz_ends yp lo hi k Hys ltac:(lia) Hy0 Hyn ltac:(lia)) as (Hylo & Hyhi & Hylt).
    assert (Hdk : 0 < getz ROps dv k) by (apply getz_pos; [exact Hd | lia]).
    assert (Hdk1 : 0 < getz ROps dv (k + 1)) by (apply getz_pos; [exact Hd | lia]).
    set (xk := getz ROps xp k) in *. set (xk1 := getz ROps xp (k + 1)) in *.
    set (yk := getz ROps yp k) in *. set (yk1 := getz ROps yp (k + 1)) in *.
    set (dk := getz ROps dv k) in *. set (dk1 := getz ROps dv (k + 1)) in *.
    pose proof (bin_fwd_low xk xk1 yk yk1 dk dk1 Hlt Hylt Hdk Hdk1 x Hxr) as Hl.
    pose proof (bin_fwd_high xk xk1 yk yk1 dk dk1 Hlt Hylt Hdk Hdk1 x Hxr) as Hh.
    set (y0 := bin_fwd xk xk1 yk yk1 dk dk1 x) in *.
    rewrite (clip_id y0) by lra.
    rewrite rqs_inv_g_in by lra.
    (* the backward lookup finds the bin used forward *)
    assert (Hbin : rqs_bin ROps yp y0 = k).
    { destruct (Rlt_le_dec xk x) as [Hgt|Hle].
      - apply rqs_bin_unique; [exact Hys | lia |]. split; [|exact Hh].
        apply (bin_fwd_gt xk xk1 yk yk1 dk dk1 Hlt Hylt Hdk Hdk1). lra.
      - assert (Hk0 : k = 0%Z) by (destruct Hst as [Hc|Hc]; [lra | exact Hc]).
        assert (Hxe : x = xk) by lra.
        assert (Hye : y0 = yk) by (unfold y0; rewrite Hxe; apply bin_fwd_at_xk).
        rewrite Hk0. apply rqs_bin_le_first; [lia|].
        rewrite Hye. unfold yk. rewrite Hk0, getz_first by lia. lra. }
    rewrite Hbin. fold xk xk1 yk yk1 dk dk1. unfold y0.
    rewrite (inv_fwd_in_bin xk xk1 yk yk1 dk dk1 Hlt Hylt Hdk Hdk1 x Hxr).
    apply clip_id. lra.
  Qed.

  Theorem rqs_fwd_inv y : rqs_fwd ROps xp yp dv lo hi (rqs_inv ROps xp yp dv lo hi y) = y.
  Proof.
    destruct V as [Hxs Hys Hlen Hleny Hlend Hx0 Hxn Hy0 Hyn Hd].
    unfold rqs_inv, rqs_fwd.
    destruct (Rle_dec lo y) as [Hlo|Hlo]; [destruct (Rle_dec y hi) as [Hhi|Hhi]|].
    2:{ rewrite (rqs_inv_g_out _ _ _ _ _ _ y) by lra. apply rqs_fwd_g_out. lra. }
    2:{ rewrite (rqs_inv_g_out _ _ _ _ _ _ y) by lra. apply rqs_fwd_g_out. lra. }
    rewrite rqs_inv_g_in by lra.
    destruct (rqs_bin_spec yp y Hys ltac:(lia) ltac:(lra)) as (Hk & Hyr & Hst & Hylt).
    set (k := rqs_bin ROps yp y) in *.
    destruct (getz_ends xp lo hi k Hxs ltac:(lia) Hx0 Hxn ltac:(lia)) as (Hxlo & Hxhi & Hlt).
    assert (Hdk : 0 < getz ROps dv k) by (apply getz_pos; [exact Hd | lia]).
    assert (Hdk1 : 0 < getz ROps dv (k + 1)) by (apply getz_pos; [exact Hd | lia]).
    set (xk := getz ROps xp k) in *. set (xk1 := getz ROps xp (k + 1)) in *.
    set (yk := getz ROps yp k) in *. set (yk1 := getz ROps yp (k + 1)) in *.
    set (dk := getz ROps dv k) in *. set (dk1 := getz ROps dv (k + 1)) in *.
    destruct (fwd_inv_in_bin xk xk1 yk yk1 dk dk1 Hlt Hylt Hdk Hdk1 y Hyr) as (Hf & Hxr & Hgt).
    set (x0 := bin_inv xk xk1 yk yk1 dk dk1 y) in *.
    rewrite (clip_id x0) by lra.
    rewrite rqs_fwd_g_in by lra.
    assert (Hbin : rqs_bin ROps xp x0 = k).
    { destruct (Rlt_le_dec yk y) as [Hg|Hle].
      - apply rqs_bin_unique; [exact Hxs | lia |]. split; [apply Hgt, Hg | apply Hxr].
      - assert (Hk0 : k = 0%Z) by (destruct Hst as [Hc|Hc]; [lra | exact Hc]).
        assert (Hye : y = yk) by lra.
        assert (Hxe : x0 = xk).
        { unfold x0. rewrite Hye.
          transitivity (bin_inv xk xk1 yk yk1 dk dk1 (bin_fwd xk xk1 yk yk1 dk dk1 xk)).
          - now rewrite bin_fwd_at_xk.
          - apply (inv_fwd_in_bin xk xk1 yk yk1 dk dk1 Hlt Hylt Hdk Hdk1). lra. }
        rewrite Hk0. apply rqs_bin_le_first; [lia|].
        rewrite Hxe. unfold xk. rewrite Hk0, getz_first by lia. lra. }
    rewrite Hbin. fold xk xk1 yk yk1 dk dk1. rewrite Hf.
    apply clip_id. lra.
  Qed.

  (* the log-det variants call the same transform / inverse (and `derivative` for the log-det):
     the returned point is the plain method's by construction in the model and in the code *)
End Spline.

(* ------------------------------------------------------------------------------------ *)
(* A concrete valid spline (non-vacuity) and the defect before fix 2486bd0 (D1)           *)
(* ------------------------------------------------------------------------------------ *)
Definition ex_xp : list R := [-1; 0; 1].
Definition ex_yp : list R := [-1; /2; 1].
Definition ex_dv : list R := [3; 1; 2].
Lemma ex_sorted3 a b c : a < b -> b < c -> StronglySorted Rlt [a; b; c].
Proof.
  intros H1 H2. repeat constructor; lra.
Qed.
Lemma ex_valid : rqs_valid ex_xp ex_yp ex_dv (-1) 1.
Proof.
  split; try reflexivity; unfold ex_xp, ex_yp, ex_dv.
  - apply ex_sorted3; lra.
  - apply ex_sorted3; lra.
  - cbn; lia.
  - repeat constructor; lra.
Qed.

Lemma getz3_m1 (a b c : R) : getz ROps [a; b; c] (-1) = c. Proof. reflexivity. Qed.
Lemma getz3_0 (a b c : R) : getz ROps [a; b; c] 0 = a. Proof. reflexivity. Qed.

(* Before the fix the bin index was searchsorted(...) - 1 without the clip: at y = interval[0] it
   is -1, the gather wraps to the LAST knot, and the inverse of the left end is the right end
   whenever the first derivative exceeds 1. *)
Lemma rqs_inv_old_left_end_refuted : exists xp yp dv lo hi,
  rqs_valid xp yp dv lo hi /\ 1 < nth 0 dv 0 /\ lo < hi /\ rqs_inv_old ROps xp yp dv lo hi lo = hi.
Proof.
  exists [-1; 0; 1], [-1; 0; 1], [3; 1; 1], (-1), 1.
  split; [|split; [|split]].
  - split; try reflexivity.
    + apply ex_sorted3; lra.
    + apply ex_sorted3; lra.
    + cbn; lia.
    + repeat constructor; lra.
  - cbn. lra.
  - lra.
  - unfold rqs_inv_old. rewrite rqs_inv_g_in by lra.
    assert (Hb : rqs_bin_old ROps [-1; 0; 1] (-1) = (-1)%Z).
    { unfold rqs_bin_old. cbn [searchsorted]. rops. rewrite (Rltb_f (-1) (-1)) by lra. reflexivity. }
    rewrite Hb. change (-1 + 1)%Z with 0%Z. rewrite !getz3_m1, !getz3_0.
    assert (Hv : bin_inv 1 (-1) 1 (-1) 1 3 (-1) = 2).
    { unfold bin_inv, b_ca, b_cb, b_cc, b_E, b_s, b_Dy, b_w.
      match goal with |- context [sqrt ?e] => replace e with (6 * 6) by (field; lra) end.
      rewrite sqrt_square by lra. field. }
    rewrite Hv. unfold clip, nmin, nmax. rops.
    rewrite (Rltb_f 2 (-1)) by lra. rewrite (Rltb_t 1 2) by lra. reflexivity.
Qed.

Lemma rqs_bij xp yp dv lo hi : rqs_valid xp yp dv lo hi ->
  bij_on allR allR (rqs_fwd ROps xp yp dv lo hi) (rqs_inv ROps xp yp dv lo hi).
Proof. intros H. split; unfold allR; auto; intros; [now apply rqs_inv_fwd | now apply rqs_fwd_inv]. Qed.

(* ------------------------------------------------------------------------------------ *)
(* The wiring theorems at the transformers the flows use: Affine and the spline           *)
(* ------------------------------------------------------------------------------------ *)
(* parameter block of the affine transformer: (loc, scale) *)
Definition aff_t (p : R * R) (x : R) : R := affine_fwd ROps (fst p) (snd p) x.
Definition aff_ti (p : R * R) (y : R) : R := affine_inv ROps (fst p) (snd p) y.
(* parameter block of the spline transformer: (x_pos, y_pos, derivatives); the interval is static *)
Definition rqs_t (lo hi : R) (p : list R * list R * list R) (x : R) : R :=
  rqs_fwd ROps (fst (fst p)) (snd (fst p)) (snd p) lo hi x.
Definition rqs_ti (lo hi : R) (p : list R * list R * list R) (y : R) : R :=
  rqs_inv ROps (fst (fst p)) (snd (fst p)) (snd p) lo hi y.

Section Flows.
  Variables (n : nat) (cond : list R).
  Section AffineMAF.
    Variable g : list R -> list (R * R).
    Hypothesis g_len : forall x, length x = n -> length (g (x ++ cond)) = n.
    Hypothesis g_valid : forall x, length x = n -> Forall (fun p => snd p <> 0) (g (x ++ cond)).
    Hypothesis g_autoreg : forall x x' i, length x = n -> length x' = n ->
      (forall j, (j < i)%nat -> nth j x 0 = nth j x' 0) -> nth_error (g (x ++ cond)) i = nth_error (g (x' ++ cond)) i.
    Lemma maf_affine_inv_fwd x : length x = n -> maf_inv 0 aff_ti g cond (maf_fwd aff_t g cond x) = x.
    Proof.
      intros Hx. apply (maf_inv_fwd R (R * R) 0 aff_t aff_ti g (fun p => snd p <> 0) allR n cond g_len g_valid g_autoreg); auto.
      - intros p v Hp _. apply affine_inv_fwd, Hp.
      - apply Forall_forall. unfold allR. auto.
    Qed.
    Lemma maf_affine_fwd_inv y : length y = n -> maf_fwd aff_t g cond (maf_inv 0 aff_ti g cond y) = y.
    Proof.
      intros Hy. apply (maf_fwd_inv R (R * R) 0 aff_t aff_ti g (fun p => snd p <> 0) allR n cond g_len g_valid g_autoreg); auto.
      - intros p v Hp _. apply affine_fwd_inv, Hp.
      - apply Forall_forall. unfold allR. auto.
    Qed.
  End AffineMAF.
  Section SplineMAF.
    Variables lo hi : R.
    Variable g : list R -> list (list R * list R * list R).
    Let Vp (p : list R * list R * list R) := rqs_valid (fst (fst p)) (snd (fst p)) (snd p) lo hi.
    Hypothesis g_len : forall x, length x = n -> length (g (x ++ cond)) = n.
    Hypothesis g_valid : forall x, length x = n -> Forall Vp (g (x ++ cond)).
    Hypothesis g_autoreg : forall x x' i, length x = n -> length x' = n ->
      (forall j, (j < i)%nat -> nth j x 0 = nth j x' 0) -> nth_error (g (x ++ cond)) i = nth_error (g (x' ++ cond)) i.
    Lemma maf_rqs_inv_fwd x : length x = n ->
      maf_inv 0 (rqs_ti lo hi) g cond (maf_fwd (rqs_t lo hi) g cond x) = x.
    Proof.
      intros Hx. apply (maf_inv_fwd R _ 0 (rqs_t lo hi) (rqs_ti lo hi) g Vp allR n cond g_len g_valid g_autoreg); auto.
      - intros p v Hp _. apply rqs_inv_fwd, Hp.
      - apply Forall_forall. unfold allR. auto.
    Qed.
    Lemma maf_rqs_fwd_inv y : length y = n ->
      maf_fwd (rqs_t lo hi) g cond (maf_inv 0 (rqs_ti lo hi) g cond y) = y.
    Proof.
      intros Hy. apply (maf_fwd_inv R _ 0 (rqs_t lo hi) (rqs_ti lo hi) g Vp allR n cond g_len g_valid g_autoreg); auto.
      - intros p v Hp _. apply rqs_fwd_inv, Hp.
      - apply Forall_forall. unfold allR. auto.
    Qed.
  End SplineMAF.
End Flows.

(* the spline theorems with the validity record spelled out *)
Lemma rqs_inv_fwd_explicit (xp yp dv : list R) (lo hi x : R) :
  StronglySorted Rlt xp -> StronglySorted Rlt yp ->
  (2 <= length xp)%nat -> length yp = length xp -> length dv = length xp ->
  nth 0 xp 0 = lo -> last xp 0 = hi -> nth 0 yp 0 = lo -> last yp 0 = hi ->
  Forall (fun d => 0 < d) dv ->
  rqs_inv ROps xp yp dv lo hi (rqs_fwd ROps xp yp dv lo hi x) = x.
Proof. intros. apply rqs_inv_fwd. split; assumption. Qed.
Lemma rqs_fwd_inv_explicit (xp yp dv : list R) (lo hi y : R) :
  StronglySorted Rlt xp -> StronglySorted Rlt yp ->
  (2 <= length xp)%nat -> length yp = length xp -> length dv = length xp ->
  nth 0 xp 0 = lo -> last xp 0 = hi -> nth 0 yp 0 = lo -> last yp 0 = hi ->
  Forall (fun d => 0 < d) dv ->
  rqs_fwd ROps xp yp dv lo hi (rqs_inv ROps xp yp dv lo hi y) = y.
Proof. intros. apply rqs_fwd_inv. split; assumption. Qed.

(* ------------------------------------------------------------------------------------ *)
(* Non-vacuity: concrete instances meeting the hypotheses                                 *)
(* ------------------------------------------------------------------------------------ *)
(* the example spline is not the identity: the middle knot 0 goes to 1/2 *)
Lemma ex_spline_at_knot : rqs_fwd ROps ex_xp ex_yp ex_dv (-1) 1 0 = / 2.
Proof.
  unfold rqs_fwd. rewrite rqs_fwd_g_in by lra.
  assert (Hb : rqs_bin ROps ex_xp 0 = 0%Z).
  { unfold rqs_bin, ex_xp. cbn [searchsorted]. rops.
    rewrite (Rltb_t (-1) 0) by lra. rewrite (Rltb_f 0 0) by lra. reflexivity. }
  rewrite Hb. change (0 + 1)%Z with 1%Z.
  change (getz ROps ex_xp 0) with (-1). change (getz ROps ex_xp 1) with 0.
  change (getz ROps ex_yp 0) with (-1). change (getz ROps ex_yp 1) with (/ 2).
  change (getz ROps ex_dv 0) with 3. change (getz ROps ex_dv 1) with 1.
  assert (Hv : bin_fwd (-1) 0 (-1) (/ 2) 3 1 0 = / 2).
  { unfold bin_fwd, b_den, b_xi, b_E, b_s, b_Dy, b_w. field. }
  rewrite Hv. apply clip_id. lra.
Qed.

(* LeakyTanh(3) at x = max_val exactly: the linear branch is taken and gives tanh(max_val) *)
Lemma ex_leaky_at_max : leaky_fwd ROps 3 (leaky_grad ROps 3) (leaky_icpt ROps 3) 3 = th 3.
Proof.
  unfold leaky_fwd, leaky_icpt, geb, where_. rops.
  rewrite (Rleb_t 3 (Rabs 3)) by (rewrite Rabs_pos_eq; lra).
  rewrite (Rsign_pos 3) by lra. ring.
Qed.

(* a lower-triangular matrix with a negative diagonal entry *)
Definition ex_tri : list (list R) := [[2; 0]; [1; -3]].
Lemma ex_tri_ok : square 2 ex_tri /\ lower_tri 2 ex_tri /\ diag_nonzero 2 ex_tri.
Proof.
  split; [|split].
  - split; [reflexivity|]. intros [|[|i]] Hi; try reflexivity; lia.
  - intros [|[|i]] [|[|j]] Hij; try lia. reflexivity.
  - intros [|[|i]] Hi; cbn; try lra; lia.
Qed.

(* a 2-dimensional autoregressive conditioner that is not constant: loc_1 = x_0 *)
Definition ex_g (inp : list R) : list (R * R) := [(0, 1); (nth 0 inp 0, -2)].
Lemma ex_g_ok :
  (forall x, length x = 2%nat -> length (ex_g (x ++ [])) = 2%nat) /\
  (forall x, length x = 2%nat -> Forall (fun p => snd p <> 0) (ex_g (x ++ []))) /\
  (forall x x' i, length x = 2%nat -> length x' = 2%nat ->
     (forall j, (j < i)%nat -> nth j x 0 = nth j x' 0) -> nth_error (ex_g (x ++ [])) i = nth_error (ex_g (x' ++ [])) i).
Proof.
  split; [|split].
  - reflexivity.
  - intros x _. unfold ex_g. repeat constructor; cbn; lra.
  - intros x x' i _ _ H. unfold ex_g. rewrite !app_nil_r.
    destruct i as [|[|i]]; cbn; try reflexivity. rewrite (H 0%nat) by lia. reflexivity.
Qed.
Lemma ex_maf_roundtrip x : length x = 2%nat -> maf_inv 0 aff_ti ex_g [] (maf_fwd aff_t ex_g [] x) = x.
Proof. destruct ex_g_ok as (H1 & H2 & H3). apply (maf_affine_inv_fwd 2 [] ex_g H1 H2 H3). Qed.

(* Chain [Affine(1,-2); LeakyTanh(3); Exp] : R -> R -> R -> (0, inf) *)
Definition ex_chain : list (layer R) :=
  [ {| l_fwd := affine_fwd ROps 1 (-2); l_inv := affine_inv ROps 1 (-2) |};
    {| l_fwd := leaky_fwd ROps 3 (leaky_grad ROps 3) (leaky_icpt ROps 3);
       l_inv := leaky_inv ROps 3 (leaky_grad ROps 3) (leaky_icpt ROps 3) |};
    {| l_fwd := exp_fwd ROps; l_inv := exp_inv ROps |} ].
Lemma ex_chain_ok : chain_ok allR ex_chain (fun y => 0 < y).
Proof.
  exists allR. split; [apply affine_bij; lra|].
  exists allR. split; [apply leaky_bij; lra|].
  exists (fun y => 0 < y). split; [apply exp_bij|]. cbn. tauto.
Qed.

(* the parameters that broke the layer before fix D7 (negative_slope = 2, act_scale = (-5, 0)) now
   round-trip, at the formerly colliding point (-1, 3/10) *)
Lemma ex_planar_roundtrip :
  planar_inv ROps 2 [1; 0] [-5; 0] 0 (planar_fwd ROps (Some 2) [1; 0] [-5; 0] 0 [-1; 3 / 10]) = [-1; 3 / 10].
Proof. apply planar_inv_fwd; [lra | constructor; lra | reflexivity | reflexivity]. Qed.

Lemma ex_leaky_roundtrip :
  leaky_inv ROps 3 (leaky_grad ROps 3) (leaky_icpt ROps 3) (leaky_fwd ROps 3 (leaky_grad ROps 3) (leaky_icpt ROps 3) 3) = 3.
Proof. apply leaky_inv_fwd. lra. Qed.

(* ------------------------------------------------------------------------------------ *)
(* Planar before fix D7 (e65a946): get_act_scale without the division by max(1, s)         *)
(* ------------------------------------------------------------------------------------ *)
(* transform / inverse of the layer built with the old act-scale formula [planar_u_old] *)
Definition planar_fwd_old (s : R) (w u0 : list R) (b : R) (x : list R) : list R :=
  pl_fwd s w (planar_u_old ROps w u0) b x.
Definition planar_inv_old (s : R) (w u0 : list R) (b : R) (y : list R) : list R :=
  pl_inv s w (planar_u_old ROps w u0) b y.
(* for slopes <= 1 the repair changes nothing *)
Lemma planar_u_old_same s w u0 : s <= 1 -> planar_u ROps (Some s) w u0 = planar_u_old ROps w u0.
Proof.
  intros Hs. unfold planar_u, planar_u_old. rewrite planar_k_some. rewrite Rmax_left by lra.
  unfold Num.c. rops. unfold vadd. f_equal. apply map_ext. intros wi. f_equal. f_equal. f_equal. field.
Qed.

(* The old formula guaranteed only -1 < w.u-hat and the constructor rejects only s <= 0.
   With w = (1,0), raw act_scale (0,0):  w.u-hat = M := -1 + ln(1 + ln 2) in (-1,0); for the negative
   slope s = -2/M > 1 the map has slope 1 + s M = -1 on the half-space w.x + b < 0: it is not
   injective and the analytic inverse does not undo it. *)
Definition ex_M : R := -1 + ln (1 + ln (1 + 1)).
Lemma ex_M_range : -1 < ex_M < 0.
Proof.
  unfold ex_M.
  assert (H2 : 0 < ln (1 + 1)) by (rewrite <- ln_1; apply ln_increasing; lra).
  assert (He : 1 + 1 < exp 1) by (pose proof (exp_ineq1 1 ltac:(lra)); lra).
  assert (H2' : ln (1 + 1) < 1).
  { apply Rlt_le_trans with (ln (exp 1)); [apply ln_increasing; lra | rewrite ln_exp; lra]. }
  assert (H3 : 0 < ln (1 + ln (1 + 1))) by (rewrite <- ln_1 at 1; apply ln_increasing; lra).
  assert (H3' : ln (1 + ln (1 + 1)) < 1).
  { apply Rlt_le_trans with (ln (exp 1)); [apply ln_increasing; lra | rewrite ln_exp; lra]. }
  lra.
Qed.
Lemma ex_planar_u_old : planar_u_old ROps [1; 0] [0; 0] = [ex_M; 0].
Proof.
  unfold planar_u_old, vadd, lift2, Num.c. cbn [map combine fst snd]. rewrite !dotR_cons, !dotR_nil_l. rops.
  replace (1 * 1 + (0 * 0 + 0)) with 1 by ring. rewrite sqrt_1.
  replace (0 * 1 + (0 * 0 + 0)) with 0 by ring. rewrite exp_0. fold ex_M.
  f_equal; [field | f_equal; field].
Qed.
Lemma ex_planar_fwd_neg : planar_fwd_old (-2 / ex_M) [1; 0] [0; 0] 0 [-1; 0] = [1; 0].
Proof.
  pose proof ex_M_range as HM.
  unfold planar_fwd_old, pl_fwd. rewrite ex_planar_u_old.
  unfold leaky_relu, geb, where_, vadd, vscale, lift2, Num.c. rewrite !dotR_cons, !dotR_nil_l. rops.
  rewrite (Rleb_f 0 (1 * -1 + (0 * 0 + 0) + 0)) by lra.
  cbn [map combine fst snd]. f_equal; [field; lra | f_equal; field; lra].
Qed.
Lemma ex_planar_fwd_pos : planar_fwd_old (-2 / ex_M) [1; 0] [0; 0] 0 [1 / (1 + ex_M); 0] = [1; 0].
Proof.
  pose proof ex_M_range as HM.
  assert (Hq : 0 < 1 / (1 + ex_M)) by (apply Rdiv_lt_0_compat; lra).
  unfold planar_fwd_old, pl_fwd. rewrite ex_planar_u_old.
  unfold leaky_relu, geb, where_, vadd, vscale, lift2, Num.c. rewrite !dotR_cons, !dotR_nil_l. rops.
  rewrite (Rleb_t 0 (1 * (1 / (1 + ex_M)) + (0 * 0 + 0) + 0)) by lra.
  cbn [map combine fst snd]. f_equal; [field; lra | f_equal; field; lra].
Qed.
Lemma ex_planar_inv_val : planar_inv_old (-2 / ex_M) [1; 0] [0; 0] 0 [1; 0] = [1 / (1 + ex_M); 0].
Proof.
  pose proof ex_M_range as HM.
  unfold planar_inv_old, pl_inv. rewrite ex_planar_u_old.
  unfold where_, vsub, vscale, lift2, Num.c. rewrite !dotR_cons, !dotR_nil_l. rops.
  rewrite (Rltb_f (1 * 1 + (0 * 0 + 0) + 0) 0) by lra.
  cbn [map]. rewrite !dotR_cons, !dotR_nil_l.
  cbn [map combine fst snd]. f_equal; [field; lra | f_equal; field; lra].
Qed.

Lemma planar_old_slope_gt1_refuted : exists s w u0 b x x',
  1 < s /\ Exists (fun wi => wi <> 0) w /\ length u0 = length w /\ length x = length w /\ length x' = length w /\
  -1 < dot ROps w (planar_u_old ROps w u0) /\
  x <> x' /\ planar_fwd_old s w u0 b x = planar_fwd_old s w u0 b x' /\
  planar_inv_old s w u0 b (planar_fwd_old s w u0 b x) <> x.
Proof.
  pose proof ex_M_range as HM.
  assert (Hq : 0 < 1 / (1 + ex_M)) by (apply Rdiv_lt_0_compat; lra).
  exists (-2 / ex_M), [1; 0], [0; 0], 0, [-1; 0], [1 / (1 + ex_M); 0].
  repeat split; try reflexivity.
  - apply Rmult_lt_reg_r with (- ex_M); [lra|]. replace (-2 / ex_M * - ex_M) with 2 by (field; lra). lra.
  - constructor. lra.
  - rewrite ex_planar_u_old, !dotR_cons, dotR_nil_l. lra.
  - intro H. injection H as H. lra.
  - now rewrite ex_planar_fwd_neg, ex_planar_fwd_pos.
  - rewrite ex_planar_fwd_neg, ex_planar_inv_val. intro H. injection H as H. lra.
Qed.
