(* C18: Safe => finite value and finite adjoints (meta-theorem, once), Safe of every leaf formula at every
   real input, refutation of the formulas before the repairs D1/D2, the where(isnan) post-processing.

   Non-finite values are explicit: [OROps] is the NumOps record at [option R] where None stands for
   inf/NaN and is absorbing (Some 0 * None = None -- the jnp.where pitfall), a partial primitive outside
   its domain (x/0, log of a non-positive, sqrt of a negative, atanh outside (-1,1)) gives None.  The
   SAME generic [eval]/[vjp] of Model/Expr.v that are extracted and run in IEEE doubles are instantiated
   at OROps here.  (Overflow of finite values is NOT modelled: exact over R.) *)
From Coq Require Import Reals List ZArith Bool Lra Lia Psatz Sorted.
From FJ Require Import Model.Num Proofs.RNum Model.Leaves Model.Expr Proofs.RqsCoreP.
Import ListNotations.
Open Scope R_scope.

(* ====================================================================================== *)
(** * 1. option R: the arithmetic with an explicit non-finite element *)
Definition oR := option R.
Definition ol1 (f : R -> R) (a : oR) : oR := match a with Some x => Some (f x) | None => None end.
Definition ol2 (f : R -> R -> R) (a b : oR) : oR :=
  match a, b with Some x, Some y => Some (f x y) | _, _ => None end.
Definition odiv (a b : oR) : oR :=
  match a, b with Some x, Some y => if Req_EM_T y 0 then None else Some (x / y) | _, _ => None end.
Definition olog (a : oR) : oR :=
  match a with Some x => if Rlt_dec 0 x then Some (ln x) else None | None => None end.
Definition osqrt (a : oR) : oR :=
  match a with Some x => if Rle_dec 0 x then Some (sqrt x) else None | None => None end.
Definition oatanh (a : oR) : oR :=
  match a with Some x => if Rlt_dec (-1) x then if Rlt_dec x 1 then Some (ath x) else None else None | None => None end.
Definition olog1p (a : oR) : oR :=
  match a with Some x => if Rlt_dec (-1) x then Some (ln (1 + x)) else None | None => None end.
(* comparisons with a non-finite operand are false (NaN semantics) *)
Definition ocmp (f : R -> R -> bool) (a b : oR) : bool :=
  match a, b with Some x, Some y => f x y | _, _ => false end.

Definition OROps : NumOps oR := {|
  n_add := ol2 Rplus; n_sub := ol2 Rminus; n_mul := ol2 Rmult; n_div := odiv;
  n_neg := ol1 Ropp; n_abs := ol1 Rabs; n_sign := ol1 Rsign;
  n_exp := ol1 exp; n_log := olog; n_tanh := ol1 th; n_atanh := oatanh;
  n_softplus := ol1 (fun x => ln (1 + exp x)); n_log1p := olog1p;
  n_expm1 := ol1 (fun x => exp x - 1); n_sqrt := osqrt; n_lgamma := fun _ => None; n_pi := Some PI;
  n_leb := ocmp Rleb; n_ltb := ocmp Rltb; n_eqb := ocmp Reqb; n_ofZ := fun z => Some (IZR z) |}.

Definition lift (en : env R) : env oR := {| vars := map Some (vars en); pars := map (map Some) (pars en) |}.
Notation ev := (eval ROps).

(* unfolding equations of the mutual fixpoints (cbn does not refold them) *)
Section Eqs.
  Context {A : Type} (O : NumOps A) (en : env A).
  Lemma eval_Var n : eval O en (Var n) = nth n (vars en) (Num.c O 0). Proof. reflexivity. Qed.
  Lemma eval_Par p i : eval O en (Par p i) = getz O (par en p) (ieval O en i). Proof. reflexivity. Qed.
  Lemma eval_Const z : eval O en (Const z) = Num.c O z. Proof. reflexivity. Qed.
  Lemma eval_CPi : eval O en CPi = n_pi O. Proof. reflexivity. Qed.
  Lemma eval_Add a b : eval O en (Add a b) = n_add O (eval O en a) (eval O en b). Proof. reflexivity. Qed.
  Lemma eval_Sub a b : eval O en (Sub a b) = n_sub O (eval O en a) (eval O en b). Proof. reflexivity. Qed.
  Lemma eval_Mul a b : eval O en (Mul a b) = n_mul O (eval O en a) (eval O en b). Proof. reflexivity. Qed.
  Lemma eval_Div a b : eval O en (Div a b) = n_div O (eval O en a) (eval O en b). Proof. reflexivity. Qed.
  Lemma eval_Neg a : eval O en (Neg a) = n_neg O (eval O en a). Proof. reflexivity. Qed.
  Lemma eval_Abs a : eval O en (Abs a) = n_abs O (eval O en a). Proof. reflexivity. Qed.
  Lemma eval_Sign a : eval O en (Sign a) = n_sign O (eval O en a). Proof. reflexivity. Qed.
  Lemma eval_Sq a : eval O en (Sq a) = n_mul O (eval O en a) (eval O en a). Proof. reflexivity. Qed.
  Lemma eval_Exp a : eval O en (Exp a) = n_exp O (eval O en a). Proof. reflexivity. Qed.
  Lemma eval_Log a : eval O en (Log a) = n_log O (eval O en a). Proof. reflexivity. Qed.
  Lemma eval_Tanh a : eval O en (Tanh a) = n_tanh O (eval O en a). Proof. reflexivity. Qed.
  Lemma eval_Atanh a : eval O en (Atanh a) = n_atanh O (eval O en a). Proof. reflexivity. Qed.
  Lemma eval_Softplus a : eval O en (Softplus a) = n_softplus O (eval O en a). Proof. reflexivity. Qed.
  Lemma eval_Log1p a : eval O en (Log1p a) = n_log1p O (eval O en a). Proof. reflexivity. Qed.
  Lemma eval_Expm1 a : eval O en (Expm1 a) = n_expm1 O (eval O en a). Proof. reflexivity. Qed.
  Lemma eval_Sqrt a : eval O en (Sqrt a) = n_sqrt O (eval O en a). Proof. reflexivity. Qed.
  Lemma eval_Where cd a b : eval O en (Where cd a b) = where_ (ceval O en cd) (eval O en a) (eval O en b). Proof. reflexivity. Qed.
  Lemma eval_Clip a lo hi : eval O en (Clip a lo hi) = clip O (eval O en a) (eval O en lo) (eval O en hi). Proof. reflexivity. Qed.
  Lemma eval_Let1 a body : eval O en (Let1 a body) = eval O (push en (eval O en a)) body. Proof. reflexivity. Qed.
  Lemma ceval_CLe a b : ceval O en (CLe a b) = n_leb O (eval O en a) (eval O en b). Proof. reflexivity. Qed.
  Lemma ceval_CLt a b : ceval O en (CLt a b) = n_ltb O (eval O en a) (eval O en b). Proof. reflexivity. Qed.
  Lemma ceval_CAnd x y : ceval O en (CAnd x y) = ceval O en x && ceval O en y. Proof. reflexivity. Qed.
  Lemma ieval_ILit z : ieval O en (ILit z) = z. Proof. reflexivity. Qed.
  Lemma ieval_ISearch p e : ieval O en (ISearch p e) = searchsorted O (par en p) (eval O en e). Proof. reflexivity. Qed.
  Lemma ieval_IAdd j z : ieval O en (IAdd j z) = (ieval O en j + z)%Z. Proof. reflexivity. Qed.
  Lemma ieval_IClipBin j p :
    ieval O en (IClipBin j p) = Z.max 0 (Z.min (Z.of_nat (length (par en p)) - 2) (ieval O en j)). Proof. reflexivity. Qed.
End Eqs.
#[global] Hint Rewrite @eval_Var @eval_Par @eval_Const @eval_CPi @eval_Add @eval_Sub @eval_Mul @eval_Div @eval_Neg @eval_Abs
  @eval_Sign @eval_Sq @eval_Exp @eval_Log @eval_Tanh @eval_Atanh @eval_Softplus @eval_Log1p @eval_Expm1 @eval_Sqrt
  @eval_Where @eval_Clip @eval_Let1 @ceval_CLe @ceval_CLt @ceval_CAnd @ieval_ILit @ieval_ISearch @ieval_IAdd @ieval_IClipBin : evq.

(* ====================================================================================== *)
(** * 2. Safe: every partial primitive, in EVERY branch, strictly inside its smooth domain *)
Fixpoint Safe (en : env R) (e : expr) : Prop :=
  match e with
  | Var _ | Const _ | CPi => True
  | Par _ i => ISafe en i
  | Add a b | Sub a b | Mul a b => Safe en a /\ Safe en b
  | Div a b => Safe en a /\ Safe en b /\ ev en b <> 0
  | Neg a | Abs a | Sign a | Sq a | Exp a | Tanh a | Softplus a | Expm1 a => Safe en a
  | Log a => Safe en a /\ 0 < ev en a
  | Sqrt a => Safe en a /\ 0 < ev en a
  | Atanh a => Safe en a /\ -1 < ev en a < 1
  | Log1p a => Safe en a /\ -1 < ev en a
  | Where cd a b => CSafe en cd /\ Safe en a /\ Safe en b
  | Clip a lo hi => Safe en a /\ Safe en lo /\ Safe en hi
  | Let1 a body => Safe en a /\ Safe (push en (ev en a)) body
  end
with CSafe (en : env R) (cd : cond) : Prop :=
  match cd with
  | CLe a b | CLt a b => Safe en a /\ Safe en b
  | CAnd x y => CSafe en x /\ CSafe en y
  end
with ISafe (en : env R) (i : iexpr) : Prop :=
  match i with
  | ILit _ => True
  | ISearch _ e => Safe en e
  | IAdd j _ => ISafe en j
  | IClipBin j _ => ISafe en j
  end.

Scheme expr_mind := Induction for expr Sort Prop
  with cond_mind := Induction for cond Sort Prop
  with iexpr_mind := Induction for iexpr Sort Prop.
Combined Scheme expr_cond_iexpr_ind from expr_mind, cond_mind, iexpr_mind.

(* the extracted boolean [safeb], at the reals, decides Safe *)
Lemma Reqb_false a b : Reqb a b = false <-> a <> b.
Proof. unfold Reqb; destruct (Req_EM_T a b); split; intros; try easy; congruence. Qed.

Lemma safeb_Safe_all :
  (forall e en, safeb ROps en e = true <-> Safe en e) /\
  (forall c en, csafeb ROps en c = true <-> CSafe en c) /\
  (forall i en, isafeb ROps en i = true <-> ISafe en i).
Proof.
  apply expr_cond_iexpr_ind; intros; cbn [safeb csafeb isafeb Safe CSafe ISafe];
    rewrite ?andb_true_iff, ?negb_true_iff;
    repeat match goal with H : forall en, _ <-> _ |- _ => rewrite H; clear H end;
    unfold zero, one, Num.c; cbn [n_eqb n_ltb n_ofZ ROps ROpsG];
    rewrite ?Reqb_false, ?Rltb_true; try tauto.
Qed.
Lemma safeb_Safe en e : safeb ROps en e = true <-> Safe en e.
Proof. apply safeb_Safe_all. Qed.

(* ====================================================================================== *)
(** * 3. the meta-theorem *)
Lemma par_lift en p : par (lift en) p = map Some (par en p).
Proof. unfold par, lift; cbn [pars]. change (@nil oR) with (map Some (@nil R)). apply map_nth. Qed.
Lemma var_lift en n : nth n (vars (lift en)) (Some 0) = Some (nth n (vars en) 0).
Proof. unfold lift; cbn [vars]. apply (map_nth Some). Qed.
Lemma push_lift en v : push (lift en) (Some v) = lift (push en v).
Proof. unfold push, lift; cbn [vars pars]. now rewrite map_app. Qed.
Lemma len_vars_lift en : length (vars (lift en)) = length (vars en).
Proof. unfold lift; cbn [vars]. apply map_length. Qed.

Lemma getz_lift (l : list R) k : getz OROps (map Some l) k = Some (getz ROps l k).
Proof. unfold getz. rewrite map_length. apply (map_nth Some). Qed.
Lemma searchsorted_lift (l : list R) v : searchsorted OROps (map Some l) (Some v) = searchsorted ROps l v.
Proof. induction l as [|x t IH]; [reflexivity|]. cbn [map searchsorted]. rewrite IH. reflexivity. Qed.

Lemma odiv_some x y : y <> 0 -> odiv (Some x) (Some y) = Some (x / y).
Proof. intros H. unfold odiv. destruct (Req_EM_T y 0); [contradiction|reflexivity]. Qed.
Lemma olog_some x : 0 < x -> olog (Some x) = Some (ln x).
Proof. intros H. unfold olog. destruct (Rlt_dec 0 x); [reflexivity|contradiction]. Qed.
Lemma osqrt_some x : 0 <= x -> osqrt (Some x) = Some (sqrt x).
Proof. intros H. unfold osqrt. destruct (Rle_dec 0 x); [reflexivity|contradiction]. Qed.
Lemma oatanh_some x : -1 < x < 1 -> oatanh (Some x) = Some (ath x).
Proof. intros [H1 H2]. unfold oatanh. destruct (Rlt_dec (-1) x); [|contradiction]. destruct (Rlt_dec x 1); [reflexivity|contradiction]. Qed.
Lemma olog1p_some x : -1 < x -> olog1p (Some x) = Some (ln (1 + x)).
Proof. intros H. unfold olog1p. destruct (Rlt_dec (-1) x); [reflexivity|contradiction]. Qed.

Lemma half_lift : half OROps = Some (half ROps).
Proof. unfold half, Num.c. cbn [n_div n_ofZ OROps ROps ROpsG]. apply odiv_some. lra. Qed.
Lemma balanced_cmp_lift x y : balanced_cmp OROps (Some x) (Some y) = Some (balanced_cmp ROps x y).
Proof.
  unfold balanced_cmp, one, zero, Num.c. rewrite half_lift. cbn [n_ltb n_eqb n_ofZ OROps ROps ROpsG ocmp].
  destruct (Rltb y x); [reflexivity|]. destruct (Reqb x y); reflexivity.
Qed.
Lemma oms_lift x : one_minus_square OROps (Some x) = Some (one_minus_square ROps x).
Proof. reflexivity. Qed.
Lemma isposinf_R x : isposinf ROps x = false.
Proof.
  unfold isposinf. cbn [n_eqb n_sub ROps ROpsG]. replace (Reqb (x - x) (x - x)) with true.
  - now rewrite andb_false_r.
  - symmetry. now apply Reqb_true.
Qed.
Lemma replace_inf_R x : replace_inf ROps x = x.
Proof. unfold replace_inf. now rewrite isposinf_R. Qed.
Lemma replace_inf_lift x : replace_inf OROps (Some x) = Some (replace_inf ROps x).
Proof.
  unfold replace_inf. replace (isposinf OROps (Some x)) with (isposinf ROps x) by reflexivity.
  now rewrite isposinf_R.
Qed.
Lemma nmax_lift a b : nmax OROps (Some a) (Some b) = Some (nmax ROps a b).
Proof. unfold nmax. cbn [n_ltb OROps ROps ROpsG ocmp]. now destruct (Rltb a b). Qed.
Lemma nmin_lift a b : nmin OROps (Some a) (Some b) = Some (nmin ROps a b).
Proof. unfold nmin. cbn [n_ltb OROps ROps ROpsG ocmp]. now destruct (Rltb b a). Qed.
Lemma clip_lift a lo hi : clip OROps (Some a) (Some lo) (Some hi) = Some (clip ROps a lo hi).
Proof. unfold clip. now rewrite nmax_lift, nmin_lift. Qed.

(* value: under Safe the option-R evaluation is the real evaluation (in particular it is finite) *)
Lemma safe_value_all :
  (forall e en, Safe en e -> eval OROps (lift en) e = Some (ev en e)) /\
  (forall c en, CSafe en c -> ceval OROps (lift en) c = ceval ROps en c) /\
  (forall i en, ISafe en i -> ieval OROps (lift en) i = ieval ROps en i).
Proof.
  apply expr_cond_iexpr_ind; intros; cbn [Safe CSafe ISafe] in *; autorewrite with evq;
    repeat match goal with
           | H : _ /\ _ |- _ => destruct H
           | IH : forall en, Safe en ?a -> _, H : Safe ?en ?a |- _ => rewrite (IH en H); clear IH
           | IH : forall en, CSafe en ?a -> _, H : CSafe ?en ?a |- _ => rewrite (IH en H); clear IH
           | IH : forall en, ISafe en ?a -> _, H : ISafe ?en ?a |- _ => rewrite (IH en H); clear IH
           end; rewrite ?par_lift; try reflexivity.
  - apply var_lift.
  - apply getz_lift.
  - cbn [n_div OROps ROps ROpsG]. now apply odiv_some.
  - cbn [n_log OROps ROps ROpsG]. now apply olog_some.
  - cbn [n_atanh OROps ROps ROpsG]. now apply oatanh_some.
  - cbn [n_log1p OROps ROps ROpsG]. now apply olog1p_some.
  - cbn [n_sqrt OROps ROps ROpsG]. apply osqrt_some. lra.
  - unfold where_. now destruct (ceval ROps en c).
  - apply clip_lift.
  - rewrite push_lift. auto.
  - apply searchsorted_lift.
  - now rewrite map_length.
Qed.
Lemma safe_value en e : Safe en e -> eval OROps (lift en) e = Some (ev en e).
Proof. apply safe_value_all. Qed.
Lemma safe_cvalue en c : CSafe en c -> ceval OROps (lift en) c = ceval ROps en c.
Proof. apply safe_value_all. Qed.
Lemma safe_ivalue en i : ISafe en i -> ieval OROps (lift en) i = ieval ROps en i.
Proof. apply safe_value_all. Qed.

(* adjoints: under Safe every cotangent computed by the JAX rules in option R is the real one *)
Lemma safe_vjp : forall e en g t, Safe en e ->
  vjp OROps (lift en) e (Some g) t = Some (vjp ROps en e g t).
Proof.
  induction e; intros en g t HS; cbn [Safe] in HS; cbn [vjp];
    repeat match goal with H : _ /\ _ |- _ => destruct H end;
    repeat match goal with
           | H : Safe ?en ?a |- context [eval OROps (lift ?en) ?a] => rewrite (safe_value en a H)
           | H : CSafe ?en ?a |- context [ceval OROps (lift ?en) ?a] => rewrite (safe_cvalue en a H)
           | H : ISafe ?en ?a |- context [ieval OROps (lift ?en) ?a] => rewrite (safe_ivalue en a H)
           end; rewrite ?par_lift, ?map_length.
  - (* Var *) destruct t; [destruct (Nat.eqb n n0)|]; reflexivity.
  - (* Par *) destruct t; [reflexivity|]. destruct (_ && _); reflexivity.
  - reflexivity.
  - reflexivity.
  - (* Add *) now rewrite IHe1, IHe2.
  - (* Sub *) cbn [n_neg OROps ol1]. now rewrite IHe1, IHe2.
  - (* Mul *) cbn [n_mul OROps ol2]. now rewrite IHe1, IHe2.
  - (* Div *)
    assert (Hyy : ev en e2 * ev en e2 <> 0) by (intros E; apply Rmult_integral in E; tauto).
    cbn [n_div n_mul n_neg OROps ol1 ol2]. unfold one, Num.c. cbn [n_ofZ OROps].
    rewrite !odiv_some by assumption. cbn [ol2]. now rewrite IHe1, IHe2.
  - (* Neg *) cbn [n_neg OROps ol1]. now rewrite IHe.
  - (* Abs *)
    unfold zero, Num.c. cbn [n_leb n_neg n_ofZ OROps ol1 ocmp ROps ROpsG].
    destruct (Rleb 0 (ev en e)); now rewrite IHe.
  - reflexivity.
  - (* Sq *) unfold Num.c. cbn [n_mul n_ofZ OROps ol2]. now rewrite IHe.
  - (* Exp *) cbn [n_mul n_exp OROps ol1 ol2]. now rewrite IHe.
  - (* Log *) cbn [n_div OROps]. rewrite odiv_some by lra. now rewrite IHe.
  - (* Tanh *) cbn [n_tanh OROps ol1]. rewrite oms_lift. cbn [n_mul OROps ol2]. now rewrite IHe.
  - (* Atanh *)
    rewrite oms_lift. cbn [n_div OROps]. rewrite odiv_some.
    + now rewrite IHe.
    + unfold one_minus_square, one, Num.c. cbn [n_add n_sub n_mul n_ofZ ROps ROpsG]. nra.
  - (* Softplus *)
    cbn [n_softplus OROps ol1]. rewrite !replace_inf_lift. cbn [n_sub n_exp n_mul OROps ol1 ol2]. now rewrite IHe.
  - (* Log1p *)
    unfold one, Num.c. cbn [n_add n_div n_ofZ OROps ol2]. rewrite odiv_some by (cbn [n_add n_ofZ ROps ROpsG]; lra). now rewrite IHe.
  - (* Expm1 *) unfold one, Num.c. cbn [n_expm1 n_add n_mul n_ofZ OROps ol1 ol2]. now rewrite IHe.
  - (* Sqrt *)
    rewrite half_lift. cbn [n_sqrt n_div n_mul OROps]. rewrite osqrt_some by lra.
    rewrite odiv_some by (apply Rgt_not_eq, sqrt_lt_R0; lra). cbn [ol2]. now rewrite IHe.
  - (* Where *)
    unfold zero, Num.c. cbn [n_ofZ OROps]. destruct (ceval ROps en c); cbn [n_add OROps]; now rewrite IHe1, IHe2.
  - (* Clip *)
    rewrite nmax_lift, !balanced_cmp_lift. cbn [n_mul n_add OROps ol2]. now rewrite IHe1, IHe2, IHe3.
  - (* Let1 *)
    rewrite push_lift, len_vars_lift. rewrite IHe2 by assumption. rewrite IHe2 by assumption.
    rewrite IHe1 by assumption. reflexivity.
Qed.

(* DESIGN 4.18: Safe => the value is finite and every adjoint (w.r.t. the input and every parameter entry)
   is finite, for every finite incoming cotangent *)
Theorem safe_finite en e : Safe en e ->
  eval OROps (lift en) e = Some (ev en e) /\
  forall g t, vjp OROps (lift en) e (Some g) t = Some (vjp ROps en e g t).
Proof. intros H. split; [now apply safe_value | intros; now apply safe_vjp]. Qed.

(* the pitfall itself: where(x <= 0, 1, log x) at x = 0 -- value finite, gradient poisoned *)
Definition pit : expr := Where (CLe (Var 0) (Const 0)) (Const 1) (Log (Var 0)).
Definition en_of (vs : list R) : env R := {| vars := vs; pars := [] |}.
Lemma pit_value : eval OROps (lift (en_of [0])) pit = Some 1.
Proof. cbn. unfold Rleb. destruct (Rle_dec 0 0); [reflexivity|lra]. Qed.
Lemma pit_grad_poisoned : vjp OROps (lift (en_of [0])) pit (Some 1) (TVar 0) = None.
Proof.
  cbn. unfold Rleb. destruct (Rle_dec 0 0); [|lra]. cbn. destruct (Req_EM_T 0 0); [reflexivity|lra].
Qed.
Lemma pit_not_safe : ~ Safe (en_of [0]) pit.
Proof. cbn. lra. Qed.
Lemma where_pitfall :
  eval OROps (lift (en_of [0])) pit = Some 1 /\ vjp OROps (lift (en_of [0])) pit (Some 1) (TVar 0) = None /\ ~ Safe (en_of [0]) pit.
Proof. exact (conj pit_value (conj pit_grad_poisoned pit_not_safe)). Qed.

(* ====================================================================================== *)
(** * 4. Safe of the leaf formulas, for ALL real inputs (compositional: the input is any Safe term) *)
Ltac evR :=
  autorewrite with evq; unfold Num.c, zero, one;
  cbn [n_add n_sub n_mul n_div n_neg n_abs n_sign n_exp n_log n_tanh n_atanh n_softplus n_log1p n_expm1
       n_sqrt n_pi n_leb n_ltb n_eqb n_ofZ ROps ROpsG].

Lemma th_lt_1 x : th x < 1.
Proof.
  unfold th. assert (0 < exp (2 * x)) by apply exp_pos.
  assert (0 < 2 / (exp (2 * x) + 1)) by (apply Rdiv_lt_0_compat; lra). lra.
Qed.
Lemma th_gt_m1 x : -1 < th x.
Proof.
  unfold th. assert (H : 0 < exp (2 * x)) by apply exp_pos.
  assert (2 / (exp (2 * x) + 1) < 2).
  { apply Rmult_lt_reg_r with (exp (2 * x) + 1); [lra|]. unfold Rdiv. rewrite Rmult_assoc, Rinv_l by lra. lra. }
  lra.
Qed.

(* a let-bound value is appended: old variables keep their slots, the new one is the last *)
Lemma nth_push_new en v : nth (length (vars en)) (vars (push en v)) 0 = v.
Proof. unfold push; cbn [vars]. now rewrite nth_middle. Qed.
Lemma nth_push_old en v n : (n < length (vars en))%nat -> nth n (vars (push en v)) 0 = nth n (vars en) 0.
Proof. intros H. unfold push; cbn [vars]. now rewrite app_nth1. Qed.
Lemma ev_var_old en v n : (n < length (vars en))%nat -> ev (push en v) (Var n) = nth n (vars en) 0.
Proof. intros H. rewrite eval_Var. now apply nth_push_old. Qed.
Lemma ev_Var_R en n : ev en (Var n) = nth n (vars en) 0.
Proof. reflexivity. Qed.
Lemma ev_var_new en v : ev (push en v) (Var (length (vars en))) = v.
Proof. rewrite eval_Var. apply nth_push_new. Qed.
Lemma par_push {A} (en : env A) v p : par (push en v) p = par en p.
Proof. reflexivity. Qed.
Lemma len_push {A} (en : env A) v : length (vars (push en v)) = S (length (vars en)).
Proof. unfold push; cbn [vars]. rewrite app_length. cbn. lia. Qed.

(* ---- tanh.py ---- *)
Lemma tanh_log_grad_safe en x : Safe en x -> Safe en (tanh_log_grad_t (length (vars en)) x).
Proof. intros H. unfold tanh_log_grad_t. cbn [Safe]. evR. repeat split; auto; lra. Qed.
Lemma tanh_log_grad_safe_S en v x : Safe (push en v) x -> Safe (push en v) (tanh_log_grad_t (S (length (vars en))) x).
Proof. intros H. rewrite <- (len_push en v). now apply tanh_log_grad_safe. Qed.

Lemma tanh_fwd_safe en x : Safe en x -> Safe en (tanh_fwd_t x).
Proof. intros H. exact H. Qed.
Lemma tanh_inv_safe_inside en y : Safe en y -> -1 < ev en y < 1 -> Safe en (tanh_inv_t y).
Proof. intros H1 H2. unfold tanh_inv_t. cbn [Safe]. auto. Qed.
Lemma tanh_ld_inv_safe_inside en y : Safe en y -> -1 < ev en y < 1 -> Safe en (tanh_ld_inv_t (length (vars en)) y).
Proof.
  intros H1 H2. unfold tanh_ld_inv_t, tanh_ld_inv_of_t. cbn [Safe]. split; [auto|].
  apply tanh_log_grad_safe_S. exact I.
Qed.

Lemma leaky_fwd_safe en m g ic x :
  Safe en m -> Safe en g -> Safe en ic -> Safe en x -> Safe en (leaky_fwd_t m g ic x).
Proof. intros. unfold leaky_fwd_t, CGe. cbn [Safe CSafe]. tauto. Qed.

Lemma leaky_ld_fwd_safe en m g x :
  Safe en m -> Safe en g -> Safe en x -> 0 < ev en g -> Safe en (leaky_ld_fwd_t (length (vars en)) m g x).
Proof.
  intros Hm Hg Hx Hpos. unfold leaky_ld_fwd_t, CGe. cbn [Safe CSafe].
  pose proof (tanh_log_grad_safe en x Hx). tauto.
Qed.

(* the value fed to arctanh: y_robust = where(|y| >= tanh m, 0, y) lies strictly inside (-1, 1) for EVERY real y and m *)
Lemma y_robust_inside m y : -1 < where_ (Rleb (th m) (Rabs y)) 0 y < 1.
Proof.
  unfold where_. destruct (Rleb (th m) (Rabs y)) eqn:E; [lra|].
  apply Rleb_false in E. pose proof (th_lt_1 m). unfold Rabs in E. destruct (Rcase_abs y); lra.
Qed.

Lemma leaky_inv_safe en m g ic y :
  Safe en m -> Safe en g -> Safe en ic -> Safe en y -> ev en g <> 0 -> Safe en (leaky_inv_t m g ic y).
Proof.
  intros Hm Hg Hic Hy Hnz. unfold leaky_inv_t, CGe. cbn [Safe CSafe]. evR.
  pose proof (y_robust_inside (ev en m) (ev en y)). tauto.
Qed.

(* the log-det of inverse_and_log_det, given the bound inverse value (slot [length (vars en)]) *)
Lemma leaky_ld_inv_of_safe en v im ig iy : (ig < length (vars en))%nat -> 0 < nth ig (vars en) 0 ->
  Safe (push en v) (leaky_ld_inv_of_t (S (length (vars en))) (Var im) (Var ig) (Var iy) (Var (length (vars en)))).
Proof.
  intros Hig Hpos. unfold leaky_ld_inv_of_t, CGe. cbn [Safe CSafe]. rewrite ev_var_old by assumption.
  pose proof (tanh_log_grad_safe_S en v (Var (length (vars en))) I). tauto.
Qed.
Lemma leaky_ld_inv_safe en im ig iic iy : (ig < length (vars en))%nat -> 0 < nth ig (vars en) 0 ->
  Safe en (leaky_ld_inv_t (length (vars en)) (Var im) (Var ig) (Var iic) (Var iy)).
Proof.
  intros Hig Hpos. unfold leaky_ld_inv_t. cbn [Safe]. split.
  - apply leaky_inv_safe; try exact I. rewrite ev_Var_R. apply Rgt_not_eq. lra.
  - now apply leaky_ld_inv_of_safe.
Qed.

(* ---- softplus.py, exp.py, affine.py ---- *)
Lemma softplus_fwd_safe en x : Safe en x -> Safe en (softplus_fwd_t x).
Proof. intros H; exact H. Qed.
Lemma softplus_ld_fwd_safe en x : Safe en x -> Safe en (softplus_ld_fwd_t x).
Proof. intros H; exact H. Qed.
Lemma softplus_inv_arg_pos y : 0 < y -> 0 < - (exp (- y) - 1).
Proof. intros H. assert (exp (- y) < exp 0) by (apply exp_increasing; lra). rewrite exp_0 in *. lra. Qed.
Lemma softplus_inv_safe en y : Safe en y -> 0 < ev en y -> Safe en (softplus_inv_t y).
Proof.
  intros H Hy. unfold softplus_inv_t. cbn [Safe]. evR. pose proof (softplus_inv_arg_pos _ Hy). tauto.
Qed.
Lemma softplus_ld_inv_safe en y : Safe en y -> 0 < ev en y -> Safe en (softplus_ld_inv_t (length (vars en)) y).
Proof. intros H Hy. unfold softplus_ld_inv_t. cbn [Safe]. split; [now apply softplus_inv_safe|exact I]. Qed.
Lemma exp_fwd_safe en x : Safe en x -> Safe en (exp_fwd_t x).
Proof. intros H; exact H. Qed.
Lemma exp_inv_safe en y : Safe en y -> 0 < ev en y -> Safe en (exp_inv_t y).
Proof. intros H Hy. unfold exp_inv_t. cbn [Safe]. auto. Qed.
Lemma exp_ld_inv_safe en y : Safe en y -> 0 < ev en y -> Safe en (exp_ld_inv_t (length (vars en)) y).
Proof. intros H Hy. unfold exp_ld_inv_t. cbn [Safe]. auto. Qed.
Lemma affine_fwd_safe en loc scale x : Safe en loc -> Safe en scale -> Safe en x -> Safe en (affine_fwd_t loc scale x).
Proof. intros. unfold affine_fwd_t. cbn [Safe]. tauto. Qed.
Lemma affine_inv_safe en loc scale y :
  Safe en loc -> Safe en scale -> Safe en y -> ev en scale <> 0 -> Safe en (affine_inv_t loc scale y).
Proof. intros. unfold affine_inv_t. cbn [Safe]. tauto. Qed.
Lemma affine_ld_safe en scale : Safe en scale -> ev en scale <> 0 -> Safe en (affine_ld_t scale).
Proof. intros H Hnz. unfold affine_ld_t. cbn [Safe]. evR. split; [exact H|]. now apply Rabs_pos_lt. Qed.

(* ---- StandardNormal._log_prob ---- *)
Lemma norm_logpdf_safe en z : Safe en z -> Safe en (norm_logpdf_t z).
Proof.
  intros H. unfold norm_logpdf_t. cbn [Safe]. evR. pose proof PI_RGT_0.
  repeat split; auto; lra.
Qed.

(* ====================================================================================== *)
(** * 5. The rational-quadratic spline: algebra of one bin (promoted from design_probes/Rqs.v) *)
Section Bin.
  Variables xk xk1 yk yk1 dk dk1 : R.
  Hypothesis Hx : xk < xk1.
  Hypothesis Hy : yk < yk1.
  Hypothesis Hdk : 0 < dk.
  Hypothesis Hdk1 : 0 < dk1.
  Let w := xk1 - xk.
  Let Dy := yk1 - yk.
  Let s := Dy / w.

  Lemma bin_w_nz : xk1 - xk <> 0. Proof. lra. Qed.
  Lemma bin_s_pos : 0 < (yk1 - yk) / (xk1 - xk).
  Proof. apply Rdiv_lt_0_compat; lra. Qed.

  (* the position inside the bin *)
  Lemma bin_xi_range v : xk <= v <= xk1 -> 0 <= (v - xk) / (xk1 - xk) <= 1.
  Proof.
    intros Hv. split.
    - apply Rmult_le_pos; [lra|]. left. apply Rinv_0_lt_compat. lra.
    - apply Rmult_le_reg_r with (xk1 - xk); [lra|]. unfold Rdiv. rewrite Rmult_assoc, Rinv_l by lra. lra.
  Qed.

  (* denominator of eq. 4 / eq. 5 *)
  Lemma bin_den_pos t : 0 <= t <= 1 -> 0 < s + (dk1 + dk - 2 * s) * t * (1 - t).
  Proof.
    intros Ht. pose proof bin_s_pos as Hs. fold Dy w s in Hs.
    replace (s + (dk1 + dk - 2 * s) * t * (1 - t)) with (s * (1 - 2 * (t * (1 - t))) + (dk1 + dk) * (t * (1 - t))) by ring.
    set (u := t * (1 - t)). assert (0 <= u) by (unfold u; nra).
    assert (u <= / 4) by (unfold u; pose proof (Rle_0_sqr (t - / 2)) as Hq; unfold Rsqr in Hq; nra).
    assert (0 < s * (1 - 2 * u)) by (apply Rmult_lt_0_compat; lra).
    assert (0 <= (dk1 + dk) * u) by (apply Rmult_le_pos; lra). lra.
  Qed.

  (* numerator of the derivative, eq. 5 *)
  Lemma bin_Q_pos t : 0 <= t <= 1 -> 0 < dk1 * (t * t) + 2 * s * t * (1 - t) + dk * ((1 - t) * (1 - t)).
  Proof.
    intros Ht. pose proof bin_s_pos as Hs. fold Dy w s in Hs.
    assert (0 <= dk1 * (t * t)) by (apply Rmult_le_pos; nra).
    assert (0 <= dk * ((1 - t) * (1 - t))) by (apply Rmult_le_pos; nra).
    assert (0 <= 2 * s * t * (1 - t)).
    { replace (2 * s * t * (1 - t)) with (2 * (s * (t * (1 - t)))) by ring.
      apply Rmult_le_pos; [lra|]. apply Rmult_le_pos; [lra|nra]. }
    destruct (Rle_lt_dec t (/ 2)).
    - assert (/ 4 <= (1 - t) * (1 - t)) by nra.
      assert (0 < dk * ((1 - t) * (1 - t))) by (apply Rmult_lt_0_compat; lra). lra.
    - assert (/ 4 < t * t) by nra. assert (0 < dk1 * (t * t)) by (apply Rmult_lt_0_compat; lra). lra.
  Qed.

  (* the inverse: coefficients of the quadratic, as coded; th = y_robust - yk in [0, Dy] *)
  Section Inverse.
    Variable th : R.
    Hypothesis Hth : 0 <= th <= Dy.
    Let tm := th * (dk1 + dk - 2 * s).
    Let a := Dy * (s - dk) + tm.
    Let b := Dy * dk - tm.
    Let cc := (- s) * th.

    (* the discriminant is a sum of a square and a non-negative term; no root-finding argument needed *)
    Lemma bin_disc_id :
      b * b - 4 * a * cc = (dk * (Dy - th) - dk1 * th) * (dk * (Dy - th) - dk1 * th) + 4 * (s * s) * (th * (Dy - th)).
    Proof. unfold a, b, cc, tm. ring. Qed.

    Lemma bin_disc_pos : 0 < b * b - 4 * a * cc.
    Proof.
      rewrite bin_disc_id. pose proof bin_s_pos as Hs. fold Dy w s in Hs.
      assert (HDy : 0 < Dy) by (unfold Dy; lra).
      assert (Hss : 0 < s * s) by (apply Rmult_lt_0_compat; lra).
      assert (H2 : 0 <= th * (Dy - th)) by (apply Rmult_le_pos; lra).
      assert (H3 : 0 <= 4 * (s * s) * (th * (Dy - th))) by (apply Rmult_le_pos; lra).
      set (q := dk * (Dy - th) - dk1 * th).
      assert (H4 : 0 <= q * q) by (apply Rle_0_sqr).
      destruct (Req_dec th 0) as [E0|N0].
      - assert (Eq : q = dk * Dy) by (unfold q; rewrite E0; ring).
        assert (0 < dk * Dy) by (apply Rmult_lt_0_compat; lra).
        assert (0 < q * q) by (rewrite Eq; apply Rmult_lt_0_compat; lra). lra.
      - destruct (Req_dec th Dy) as [E1|N1].
        + assert (Eq : q = - (dk1 * Dy)) by (unfold q; rewrite E1; ring).
          assert (0 < dk1 * Dy) by (apply Rmult_lt_0_compat; lra).
          assert (0 < q * q) by (rewrite Eq; replace (- (dk1 * Dy) * - (dk1 * Dy)) with ((dk1 * Dy) * (dk1 * Dy)) by ring;
                                  apply Rmult_lt_0_compat; lra). lra.
        + assert (0 < th * (Dy - th)) by (apply Rmult_lt_0_compat; lra).
          assert (0 < 4 * (s * s) * (th * (Dy - th))) by (apply Rmult_lt_0_compat; lra). lra.
    Qed.

    (* the denominator -b - sqrt(disc) of xi = 2c / (-b - sqrt(b^2 - 4ac)) never vanishes *)
    Lemma bin_root_den_neg : - b - sqrt (b * b - 4 * a * cc) < 0.
    Proof.
      pose proof bin_disc_pos as HD. set (D := b * b - 4 * a * cc) in *.
      pose proof (sqrt_pos D) as Hr0. pose proof (sqrt_sqrt D (Rlt_le _ _ HD)) as Hrr. set (r := sqrt D) in *.
      pose proof bin_s_pos as Hs. fold Dy w s in Hs.
      assert (HDy : 0 < Dy) by (unfold Dy; lra).
      destruct (Rlt_le_dec 0 b) as [Hb|Hb]; [lra|].
      (* b <= 0: then th > 0, a = Dy*s - b > 0, c < 0, so disc > b^2 *)
      assert (Hab : a + b = Dy * s) by (unfold a, b; ring).
      assert (HDs : 0 < Dy * s) by (apply Rmult_lt_0_compat; lra).
      assert (Hth0 : th <> 0).
      { intros E. assert (b = Dy * dk) by (unfold b, tm; rewrite E; ring).
        assert (0 < Dy * dk) by (apply Rmult_lt_0_compat; lra). lra. }
      assert (Ha : 0 < a) by lra.
      assert (Hc : cc < 0) by (unfold cc; assert (0 < s * th) by (apply Rmult_lt_0_compat; lra); lra).
      assert (Hac : a * cc < 0) by (assert (0 < a * (- cc)) by (apply Rmult_lt_0_compat; lra); lra).
      assert (HDb : b * b < D) by (unfold D; lra).
      destruct (Rlt_le_dec (- b) r) as [Hlt|Hge]; [lra|].
      assert (r * r <= (- b) * (- b)) by (apply Rmult_le_compat; lra).
      replace ((- b) * (- b)) with (b * b) in * by ring. lra.
    Qed.
  End Inverse.
End Bin.

(* ====================================================================================== *)
(** * 6. The spline formulas as coded are Safe at EVERY real input *)
(* exactly what C11 proves the parameterisation delivers: knots strictly increasing from lo to hi in both arrays, positive
   derivatives.  (Since fix c2cb03d the robust replacement value is interval[0]; with the literal 0 of the earlier code the
   lemmas needed lo <= 0 <= hi in addition, and were false without it: rqs_inv_zero_unsafe_refuted below.) *)
Record rqs_valid (xp yp dv : list R) (lo hi : R) : Prop := {
  rv_sx : StronglySorted Rlt xp; rv_sy : StronglySorted Rlt yp;
  rv_len : (2 <= length xp)%nat; rv_ly : length yp = length xp; rv_ld : length dv = length xp;
  rv_dpos : Forall (Rlt 0) dv;
  rv_x0 : nth 0 xp 0 = lo; rv_x1 : last xp 0 = hi; rv_y0 : nth 0 yp 0 = lo; rv_y1 : last yp 0 = hi }.

Lemma rqs_valid_lo_le_hi xp yp dv lo hi : rqs_valid xp yp dv lo hi -> lo <= hi.
Proof.
  intros V. destruct V. rewrite <- rv_x2, <- rv_x3, last_nth_R. left. apply sorted_nth_lt; [assumption| |]; lia.
Qed.

(* the robust value x_robust = where(in_bounds, x, interval[0]) always lies in the interval *)
Lemma robust_in lo hi x : lo <= hi -> lo <= where_ (Rleb lo x && Rleb x hi) x lo <= hi.
Proof.
  intros H. unfold where_. destruct (Rleb lo x) eqn:E1; destruct (Rleb x hi) eqn:E2; cbn [andb]; try lra.
  apply Rleb_true in E1, E2. lra.
Qed.

Lemma getz_dv_pos dv k : Forall (Rlt 0) dv -> (0 <= k < Z.of_nat (length dv))%Z -> 0 < getz ROps dv k.
Proof.
  intros Hf Hk. rewrite getz_nth by lia. rewrite Forall_forall in Hf. apply Hf, nth_In. lia.
Qed.

(* everything the formulas need about the bin found by looking v up in x_pos *)
Lemma bin_facts_x xp yp dv lo hi v : rqs_valid xp yp dv lo hi -> lo <= v <= hi ->
  let k := rqs_bin ROps xp v in
  getz ROps xp k <= v <= getz ROps xp (k + 1) /\ getz ROps xp k < getz ROps xp (k + 1) /\
  getz ROps yp k < getz ROps yp (k + 1) /\ 0 < getz ROps dv k /\ 0 < getz ROps dv (k + 1).
Proof.
  intros V Hv k. destruct V.
  assert (Hv' : nth 0 xp 0 <= v <= last xp 0) by lra.
  destruct (rqs_bin_spec xp v rv_sx0 rv_len0 Hv') as (Hk & Hin & _ & Hlt). fold k in Hk, Hin, Hlt.
  repeat split; try lra.
  - apply sorted_getz_lt; [assumption| |]; lia.
  - apply getz_dv_pos; [assumption|lia].
  - apply getz_dv_pos; [assumption|lia].
Qed.
(* ... and in y_pos *)
Lemma bin_facts_y xp yp dv lo hi v : rqs_valid xp yp dv lo hi -> lo <= v <= hi ->
  let k := rqs_bin ROps yp v in
  getz ROps yp k <= v <= getz ROps yp (k + 1) /\ getz ROps xp k < getz ROps xp (k + 1) /\
  getz ROps yp k < getz ROps yp (k + 1) /\ 0 < getz ROps dv k /\ 0 < getz ROps dv (k + 1).
Proof.
  intros V Hv k. destruct V.
  assert (Hv' : nth 0 yp 0 <= v <= last yp 0) by lra.
  assert (Hl : (2 <= length yp)%nat) by lia.
  destruct (rqs_bin_spec yp v rv_sy0 Hl Hv') as (Hk & Hin & _ & Hlt). fold k in Hk, Hin, Hlt.
  repeat split; try lra.
  - apply sorted_getz_lt; [assumption| |]; lia.
  - apply getz_dv_pos; [assumption|lia].
  - apply getz_dv_pos; [assumption|lia].
Qed.

Lemma ieval_bin en p e : ieval ROps en (bin_t p e) = rqs_bin ROps (par en p) (ev en e).
Proof. reflexivity. Qed.
Lemma isafe_bin en p e : ISafe en (bin_t p e) = Safe en e.
Proof. reflexivity. Qed.

Lemma rqs_fwd_safe en ilo ihi ix :
  (ilo < length (vars en))%nat -> (ihi < length (vars en))%nat -> (ix < length (vars en))%nat ->
  rqs_valid (par en XP) (par en YP) (par en DV) (nth ilo (vars en) 0) (nth ihi (vars en) 0) ->
  Safe en (rqs_fwd_t (length (vars en)) (Var ilo) (Var ihi) (Var ix)).
Proof.
  intros Hlo Hhi Hx V. unfold rqs_fwd_t, rqs_fwd_gt, rob_lo, CGe.
  cbn [Safe CSafe ISafe]; rewrite ?isafe_bin; cbn [Safe].
  autorewrite with evq; rewrite ?ieval_bin, ?par_push, ?ev_var_new, ?ev_var_old by assumption.
  unfold Num.c; cbn [n_add n_sub n_mul n_div n_neg n_sqrt n_leb n_ofZ ROps ROpsG].
  rewrite ?nth_push_new, ?nth_push_old by assumption.
  match goal with |- context [rqs_bin ROps _ ?v] => set (xr := v) end.
  assert (Hxr : nth ilo (vars en) 0 <= xr <= nth ihi (vars en) 0) by (apply robust_in; apply (rqs_valid_lo_le_hi _ _ _ _ _ V)).
  destruct (bin_facts_x _ _ _ _ _ xr V Hxr) as (Hin & Hxlt & Hylt & Hd0 & Hd1).
  match goal with |- context [getz ROps _ (rqs_bin ROps ?pos xr)] => set (k := rqs_bin ROps pos xr) in * end.
  match type of Hxlt with ?a < ?b => set (xk := a) in *; set (xk1 := b) in * end.
  match type of Hylt with ?a < ?b => set (yk := a) in *; set (yk1 := b) in * end.
  match type of Hd0 with _ < ?a => set (dk := a) in * end.
  match type of Hd1 with _ < ?a => set (dk1 := a) in * end.
  assert (Hxi := bin_xi_range xk xk1 Hxlt xr Hin).
  assert (Hden := bin_den_pos xk xk1 yk yk1 dk dk1 Hxlt Hylt Hd0 Hd1 _ Hxi).
  repeat split; trivial; apply Rgt_not_eq; lra.
Qed.
Lemma rqs_deriv_safe en ilo ihi ix :
  (ilo < length (vars en))%nat -> (ihi < length (vars en))%nat -> (ix < length (vars en))%nat ->
  rqs_valid (par en XP) (par en YP) (par en DV) (nth ilo (vars en) 0) (nth ihi (vars en) 0) ->
  Safe en (rqs_deriv_t (length (vars en)) (Var ilo) (Var ihi) (Var ix)).
Proof.
  intros Hlo Hhi Hx V. unfold rqs_deriv_t, rqs_deriv_gt, rob_lo, CGe.
  cbn [Safe CSafe ISafe]; rewrite ?isafe_bin; cbn [Safe].
  autorewrite with evq; rewrite ?ieval_bin, ?par_push, ?ev_var_new, ?ev_var_old by assumption.
  unfold Num.c; cbn [n_add n_sub n_mul n_div n_neg n_sqrt n_leb n_ofZ ROps ROpsG].
  rewrite ?nth_push_new, ?nth_push_old by assumption.
  match goal with |- context [rqs_bin ROps _ ?v] => set (xr := v) end.
  assert (Hxr : nth ilo (vars en) 0 <= xr <= nth ihi (vars en) 0) by (apply robust_in; apply (rqs_valid_lo_le_hi _ _ _ _ _ V)).
  destruct (bin_facts_x _ _ _ _ _ xr V Hxr) as (Hin & Hxlt & Hylt & Hd0 & Hd1).
  match goal with |- context [getz ROps _ (rqs_bin ROps ?pos xr)] => set (k := rqs_bin ROps pos xr) in * end.
  match type of Hxlt with ?a < ?b => set (xk := a) in *; set (xk1 := b) in * end.
  match type of Hylt with ?a < ?b => set (yk := a) in *; set (yk1 := b) in * end.
  match type of Hd0 with _ < ?a => set (dk := a) in * end.
  match type of Hd1 with _ < ?a => set (dk1 := a) in * end.
  assert (Hxi := bin_xi_range xk xk1 Hxlt xr Hin).
  assert (Hden := bin_den_pos xk xk1 yk yk1 dk dk1 Hxlt Hylt Hd0 Hd1 _ Hxi).
  repeat split; trivial; apply Rgt_not_eq; try lra.
  apply Rmult_lt_0_compat; exact Hden.
Qed.

Lemma rqs_inv_safe en ilo ihi iy :
  (ilo < length (vars en))%nat -> (ihi < length (vars en))%nat -> (iy < length (vars en))%nat ->
  rqs_valid (par en XP) (par en YP) (par en DV) (nth ilo (vars en) 0) (nth ihi (vars en) 0) ->
  Safe en (rqs_inv_t (length (vars en)) (Var ilo) (Var ihi) (Var iy)).
Proof.
  intros Hlo Hhi Hx V. unfold rqs_inv_t, rqs_inv_gt, rob_lo, CGe.
  cbn [Safe CSafe ISafe]; rewrite ?isafe_bin; cbn [Safe].
  autorewrite with evq; rewrite ?ieval_bin, ?par_push, ?ev_var_new, ?ev_var_old by assumption.
  unfold Num.c; cbn [n_add n_sub n_mul n_div n_neg n_sqrt n_leb n_ofZ ROps ROpsG].
  rewrite ?nth_push_new, ?nth_push_old by assumption.
  match goal with |- context [rqs_bin ROps _ ?v] => set (xr := v) end.
  assert (Hxr : nth ilo (vars en) 0 <= xr <= nth ihi (vars en) 0) by (apply robust_in; apply (rqs_valid_lo_le_hi _ _ _ _ _ V)).
  destruct (bin_facts_y _ _ _ _ _ xr V Hxr) as (Hin & Hxlt & Hylt & Hd0 & Hd1).
  match goal with |- context [getz ROps _ (rqs_bin ROps ?pos xr)] => set (k := rqs_bin ROps pos xr) in * end.
  match type of Hxlt with ?a < ?b => set (xk := a) in *; set (xk1 := b) in * end.
  match type of Hylt with ?a < ?b => set (yk := a) in *; set (yk1 := b) in * end.
  match type of Hd0 with _ < ?a => set (dk := a) in * end.
  match type of Hd1 with _ < ?a => set (dk1 := a) in * end.
  assert (Hth : 0 <= xr - yk <= yk1 - yk) by lra.
  assert (Hdisc := bin_disc_pos xk xk1 yk yk1 dk dk1 Hxlt Hylt Hd0 Hd1 _ Hth).
  assert (Hroot := bin_root_den_neg xk xk1 yk yk1 dk dk1 Hxlt Hylt Hd0 Hd1 _ Hth).
  repeat split; trivial; try (apply Rgt_not_eq; lra). apply Rlt_not_eq. exact Hroot.
Qed.
(* the derivative is strictly positive everywhere: log(derivative) is Safe *)
Lemma rqs_deriv_pos en ilo ihi ix :
  (ilo < length (vars en))%nat -> (ihi < length (vars en))%nat -> (ix < length (vars en))%nat ->
  rqs_valid (par en XP) (par en YP) (par en DV) (nth ilo (vars en) 0) (nth ihi (vars en) 0) ->
  0 < ev en (rqs_deriv_t (length (vars en)) (Var ilo) (Var ihi) (Var ix)).
Proof.
  intros Hlo Hhi Hx V. unfold rqs_deriv_t, rqs_deriv_gt, rob_lo, CGe.
  cbn [Safe CSafe ISafe]; rewrite ?isafe_bin; cbn [Safe].
  autorewrite with evq; rewrite ?ieval_bin, ?par_push, ?ev_var_new, ?ev_var_old by assumption.
  unfold Num.c; cbn [n_add n_sub n_mul n_div n_neg n_sqrt n_leb n_ofZ ROps ROpsG].
  rewrite ?nth_push_new, ?nth_push_old by assumption.
  match goal with |- context [rqs_bin ROps _ ?v] => set (xr := v) end.
  assert (Hxr : nth ilo (vars en) 0 <= xr <= nth ihi (vars en) 0) by (apply robust_in; apply (rqs_valid_lo_le_hi _ _ _ _ _ V)).
  destruct (bin_facts_x _ _ _ _ _ xr V Hxr) as (Hin & Hxlt & Hylt & Hd0 & Hd1).
  match goal with |- context [getz ROps _ (rqs_bin ROps ?pos xr)] => set (k := rqs_bin ROps pos xr) in * end.
  match type of Hxlt with ?a < ?b => set (xk := a) in *; set (xk1 := b) in * end.
  match type of Hylt with ?a < ?b => set (yk := a) in *; set (yk1 := b) in * end.
  match type of Hd0 with _ < ?a => set (dk := a) in * end.
  match type of Hd1 with _ < ?a => set (dk1 := a) in * end.
  assert (Hxi := bin_xi_range xk xk1 Hxlt xr Hin).
  assert (Hden := bin_den_pos xk xk1 yk yk1 dk dk1 Hxlt Hylt Hd0 Hd1 _ Hxi).
  assert (HQ := bin_Q_pos xk xk1 yk yk1 dk dk1 Hxlt Hylt Hd0 Hd1 _ Hxi).
  assert (Hs := bin_s_pos xk xk1 yk yk1 Hxlt Hylt).
  unfold where_. destruct (_ && _); [|lra].
  apply Rdiv_lt_0_compat.
  - apply Rmult_lt_0_compat; [apply Rmult_lt_0_compat; exact Hs | exact HQ].
  - apply Rmult_lt_0_compat; exact Hden.
Qed.

Lemma rqs_valid_push en v ilo ihi :
  (ilo < length (vars en))%nat -> (ihi < length (vars en))%nat ->
  rqs_valid (par en XP) (par en YP) (par en DV) (nth ilo (vars en) 0) (nth ihi (vars en) 0) ->
  rqs_valid (par (push en v) XP) (par (push en v) YP) (par (push en v) DV)
            (nth ilo (vars (push en v)) 0) (nth ihi (vars (push en v)) 0).
Proof. intros H1 H2 V. rewrite !par_push, !nth_push_old by assumption. exact V. Qed.

Lemma rqs_ld_fwd_safe en ilo ihi ix :
  (ilo < length (vars en))%nat -> (ihi < length (vars en))%nat -> (ix < length (vars en))%nat ->
  rqs_valid (par en XP) (par en YP) (par en DV) (nth ilo (vars en) 0) (nth ihi (vars en) 0) ->
  Safe en (rqs_ld_fwd_t (length (vars en)) (Var ilo) (Var ihi) (Var ix)).
Proof.
  intros Hlo Hhi Hx V. unfold rqs_ld_fwd_t, rqs_ld_fwd_gt. cbn [Safe]. change (rqs_deriv_gt bin_t rob_lo) with rqs_deriv_t. split.
  - now apply rqs_deriv_safe.
  - now apply rqs_deriv_pos.
Qed.

(* inverse_and_log_det: x = inverse(y) bound once (slot [length (vars en)]), then -log(derivative(x)) *)
Lemma rqs_ld_inv_of_safe en v ilo ihi :
  (ilo < length (vars en))%nat -> (ihi < length (vars en))%nat ->
  rqs_valid (par en XP) (par en YP) (par en DV) (nth ilo (vars en) 0) (nth ihi (vars en) 0) ->
  Safe (push en v) (rqs_ld_inv_of_t (S (length (vars en))) (Var ilo) (Var ihi) (Var (length (vars en)))).
Proof.
  intros Hlo Hhi V. unfold rqs_ld_inv_of_t, rqs_ld_inv_of_gt. cbn [Safe]. change (rqs_deriv_gt bin_t rob_lo) with rqs_deriv_t.
  rewrite <- (len_push en v).
  assert (V' := rqs_valid_push en v ilo ihi Hlo Hhi V).
  split.
  - apply rqs_deriv_safe; try assumption; rewrite len_push; lia.
  - apply rqs_deriv_pos; try assumption; rewrite len_push; lia.
Qed.
Lemma rqs_ld_inv_safe en ilo ihi iy :
  (ilo < length (vars en))%nat -> (ihi < length (vars en))%nat -> (iy < length (vars en))%nat ->
  rqs_valid (par en XP) (par en YP) (par en DV) (nth ilo (vars en) 0) (nth ihi (vars en) 0) ->
  Safe en (rqs_ld_inv_t (length (vars en)) (Var ilo) (Var ihi) (Var iy)).
Proof.
  intros Hlo Hhi Hy V. unfold rqs_ld_inv_t, rqs_ld_inv_gt. cbn [Safe].
  change (rqs_inv_gt bin_t rob_lo) with rqs_inv_t. change (rqs_ld_inv_of_gt bin_t rob_lo) with rqs_ld_inv_of_t.
  split; [now apply rqs_inv_safe | now apply rqs_ld_inv_of_safe].
Qed.

(* ====================================================================================== *)
(** * 7. The complete log_prob terms of Transformed(StandardNormal | Normal, leaf | Invert(leaf)) *)
Lemma base_lp_safe en normal z :
  Safe en z -> (normal = true -> ev en vBSCALE <> 0) -> Safe en (base_lp_t normal z).
Proof.
  intros Hz Hs. unfold base_lp_t. destruct normal.
  - specialize (Hs eq_refl). cbn [Safe]. split.
    + apply norm_logpdf_safe. apply affine_inv_safe; cbn [Safe vBLOC vBSCALE]; auto.
    + apply affine_ld_safe; cbn [Safe vBSCALE]; auto.
  - now apply norm_logpdf_safe.
Qed.

(* what "valid parameters / input in the support" means per leaf (variable layout of Model/Expr.v) *)
Definition leaf_ok (l : leafk) (inverted : bool) (en : env R) : Prop :=
  let x := nth 0 (vars en) 0 in
  match l with
  | LAffine => nth 7 (vars en) 0 <> 0                                   (* scale <> 0 *)
  | LExp | LSoftplus => inverted = true \/ 0 < x                          (* Exp / SoftPlus map onto (0, inf) *)
  | LTanh => inverted = true \/ -1 < x < 1                                (* Tanh maps onto (-1, 1) *)
  | LLeaky => 0 < nth 2 (vars en) 0                                      (* linear_grad > 0 *)
  | LRqs => rqs_valid (par en XP) (par en YP) (par en DV) (nth 4 (vars en) 0) (nth 5 (vars en) 0)
  | LLeakyOld | LRqsOld | LRqsZero => False
  end.

Theorem lp_safe en l inverted normal :
  length (vars en) = nV -> leaf_ok l inverted en -> (normal = true -> nth 9 (vars en) 0 <> 0) ->
  Safe en (lp_t l inverted normal).
Proof.
  intros Hlen Hok Hb. unfold lp_t.
  assert (LT : forall n, (n < 10)%nat -> (n < length (vars en))%nat) by (intros; rewrite Hlen; unfold nV; lia).
  assert (Hbe : normal = true -> ev en vBSCALE <> 0) by (intros E; unfold vBSCALE; rewrite eval_Var; auto).
  destruct inverted.
  - (* Invert(leaf): the point and the log-det are both computed from x *)
    cbn [Safe]. split; [apply base_lp_safe; [|exact Hbe]|];
      destruct l; unfold leaf_ok in Hok; cbn zeta in Hok; try contradiction;
      unfold fwd_t, ld_fwd_t, vX, vM, vG, vIC, vLO, vHI, vLOC, vSCALE; rewrite <- ?Hlen; try exact I.
    + apply affine_fwd_safe; exact I.
    + apply leaky_fwd_safe; exact I.
    + apply rqs_fwd_safe; try (apply LT; lia); try assumption.
    + apply affine_ld_safe; [exact I|]. rewrite eval_Var. exact Hok.
    + apply tanh_log_grad_safe; exact I.
    + apply leaky_ld_fwd_safe; try exact I. rewrite eval_Var. exact Hok.
    + apply rqs_ld_fwd_safe; try (apply LT; lia); try assumption.
  - (* leaf: z = inverse(x) is bound once and feeds both the base density and the log-det *)
    cbn [Safe]. set (v := ev en (inv_t l vX)).
    assert (Hbe' : normal = true -> ev (push en v) vBSCALE <> 0).
    { intros E. unfold vBSCALE. rewrite ev_var_old by (apply LT; lia). auto. }
    split; [|split; [apply base_lp_safe; [exact I|exact Hbe']|]];
      destruct l; unfold leaf_ok in Hok; cbn zeta in Hok; try contradiction;
      unfold inv_t, ld_inv_of_t, vX, vM, vG, vIC, vLO, vHI, vLOC, vSCALE; rewrite <- ?Hlen; try exact I.
    + apply affine_inv_safe; try exact I. rewrite eval_Var. exact Hok.
    + destruct Hok; [discriminate|]. apply exp_inv_safe; [exact I|]. rewrite eval_Var. assumption.
    + destruct Hok; [discriminate|]. apply softplus_inv_safe; [exact I|]. rewrite eval_Var. assumption.
    + destruct Hok; [discriminate|]. apply tanh_inv_safe_inside; [exact I|]. rewrite eval_Var. assumption.
    + apply leaky_inv_safe; try exact I. rewrite ev_Var_R. apply Rgt_not_eq. lra.
    + apply rqs_inv_safe; try (apply LT; lia); try assumption.
    + cbn [Safe]. apply affine_ld_safe; [exact I|]. rewrite ev_var_old by (apply LT; lia). exact Hok.
    + unfold tanh_ld_inv_of_t. cbn [Safe]. apply tanh_log_grad_safe_S. exact I.
    + apply leaky_ld_inv_of_safe; [apply LT; lia|exact Hok].
    + apply rqs_ld_inv_of_safe; try (apply LT; lia); try assumption.
Qed.

(* the statement of C18 on the model: finite log_prob, finite gradient w.r.t. the input and w.r.t. EVERY
   parameter (scalar or array entry), for all real inputs (in the support) and all valid parameters *)
Theorem lp_finite en l inverted normal :
  length (vars en) = nV -> leaf_ok l inverted en -> (normal = true -> nth 9 (vars en) 0 <> 0) ->
  (exists v, eval OROps (lift en) (lp_t l inverted normal) = Some v) /\
  (forall t, exists r, vjp OROps (lift en) (lp_t l inverted normal) (Some 1) t = Some r).
Proof.
  intros H1 H2 H3. destruct (safe_finite en _ (lp_safe en l inverted normal H1 H2 H3)) as [Hv Hg].
  split; [eauto|]. intros t. rewrite Hg. eauto.
Qed.

(* the fields LeakyTanh.__init__ computes make linear_grad = exp(...) > 0 for EVERY max_val *)
Lemma leaky_grad_pos m : 0 < leaky_grad ROps m.
Proof. unfold leaky_grad. cbn [n_exp ROps ROpsG]. apply exp_pos. Qed.

(* ====================================================================================== *)
(** * 8. The formulas before the repairs are refuted *)
(* D2 (before 81a9f7e): LeakyTanh.inverse evaluated arctanh(y) on the unselected branch.  At y = 1 (any
   max_val, any non-zero linear_grad): not Safe, the value is finite, the gradient w.r.t. y is poisoned. *)
Lemma leaky_inv_old_at_1 m g ic : g <> 0 ->
  let en := en_of [1; m; g; ic] in
  let t := leaky_inv_old_t (Var 1) (Var 2) (Var 3) (Var 0) in
  ~ Safe en t /\ eval OROps (lift en) t = Some ((1 - Rsign 1 * ic) / g) /\
  vjp OROps (lift en) t (Some 1) (TVar 0) = None.
Proof.
  intros Hg en t.
  assert (Hlin : Rleb (th m) (Rabs 1) = true).
  { apply Rleb_true. rewrite Rabs_R1. left. apply th_lt_1. }
  split; [|split].
  - unfold t, leaky_inv_old_t, CGe. cbn [Safe CSafe]. evR. cbn [en en_of vars nth]. lra.
  - unfold t, leaky_inv_old_t, CGe. autorewrite with evq.
    cbn [en en_of lift vars map nth n_leb n_tanh n_abs n_sub n_mul n_div n_sign OROps ol1 ol2 ocmp].
    rewrite Hlin. unfold where_. now apply odiv_some.
  - unfold t, leaky_inv_old_t, CGe. cbn [vjp]. autorewrite with evq.
    cbn [en en_of lift vars map nth n_leb n_tanh n_abs OROps ol1 ocmp]. rewrite Hlin.
    (* the unselected branch: cotangent 0 divided by one_minus_square(1) = 0 *)
    assert (E : n_div OROps (zero OROps) (one_minus_square OROps (Some 1)) = None).
    { unfold zero, one_minus_square, one, Num.c. cbn [n_div n_add n_sub n_mul n_ofZ OROps ol2 odiv].
      destruct (Req_EM_T ((1 + 1) * (1 - 1)) 0) as [_|N]; [reflexivity|exfalso; apply N; ring]. }
    rewrite E. cbn [Nat.eqb]. cbn [n_add OROps]. unfold ol2.
    match goal with |- match ?X with _ => _ end = None => destruct X; reflexivity end.
Qed.

Theorem leaky_inv_old_unsafe_refuted :
  exists (en : env R), let t := leaky_inv_old_t (Var 1) (Var 2) (Var 3) (Var 0) in
    nth 0 (vars en) 0 = 1 /\ ~ Safe en t /\ (exists v, eval OROps (lift en) t = Some v) /\
    vjp OROps (lift en) t (Some 1) (TVar 0) = None.
Proof.
  exists (en_of [1; 3; leaky_grad ROps 3; leaky_icpt ROps 3]).
  assert (Hg : leaky_grad ROps 3 <> 0) by (apply Rgt_not_eq, leaky_grad_pos).
  destruct (leaky_inv_old_at_1 3 _ (leaky_icpt ROps 3) Hg) as (H1 & H2 & H3).
  cbv zeta. repeat split; try assumption. eauto.
Qed.

(* D1 (before 2486bd0): bin index not clipped.  Initial parameters of RationalQuadraticSpline(knots=2, interval=2)
   (x_pos = y_pos = [-2,-1,1,2], derivatives = 1) at y = interval[0] = -2: searchsorted - 1 = -1 wraps to the
   pair (last knot, first knot); then a = 0, b = -4, c = 4 and the denominator -b - sqrt(b^2 - 4ac) is 0. *)
Definition en_init_lo : env R :=
  {| vars := [-2; -2; 2]; pars := [[-2; -1; 1; 2]; [-2; -1; 1; 2]; [1; 1; 1; 1]] |}.

Theorem rqs_inv_old_unsafe_at_lo_refuted : ~ Safe en_init_lo (rqs_inv_old_t 3 (Var 1) (Var 2) (Var 0)).
Proof.
  unfold rqs_inv_old_t, rqs_inv_gt, rob_lo, CGe. cbn [Safe CSafe ISafe]. intros H.
  repeat match goal with H : _ /\ _ |- _ => destruct H end.
  match goal with Hn : ev _ (Sub (Neg _) (Sqrt _)) <> 0 |- _ => apply Hn end.
  (* the robust value is y itself, the searched index is 0, so k = -1 *)
  assert (Hyr : ev en_init_lo (Where (CAnd (CLe (Var 1) (Var 0)) (CLe (Var 0) (Var 2))) (Var 0) (Var 1)) = -2).
  { autorewrite with evq. cbn [en_init_lo vars nth n_leb ROps ROpsG]. unfold where_.
    rewrite (proj2 (Rleb_true (-2) (-2))) by lra. rewrite (proj2 (Rleb_true (-2) 2)) by lra. reflexivity. }
  rewrite Hyr. set (en' := push en_init_lo (-2)).
  assert (Hk : ieval ROps en' (bin_old_t YP (Var 3)) = (-1)%Z).
  { unfold bin_old_t. autorewrite with evq. cbn [en' push en_init_lo vars pars par YP nth app searchsorted].
    cbn [n_ltb ROps ROpsG]. rewrite (proj2 (Rltb_false (-2) (-2))) by lra. reflexivity. }
  autorewrite with evq. rewrite !Hk.
  cbn [en' push en_init_lo vars pars par XP YP DV nth app].
  change (getz ROps [-2; -1; 1; 2] (-1)) with 2. change (getz ROps [-2; -1; 1; 2] (-1 + 1)) with (-2).
  change (getz ROps [1; 1; 1; 1] (-1)) with 1. change (getz ROps [1; 1; 1; 1] (-1 + 1)) with 1.
  unfold Num.c. cbn [n_add n_sub n_mul n_div n_neg n_sqrt n_ofZ ROps ROpsG].
  match goal with |- - ?b - sqrt ?D = 0 =>
    assert (Eb : b = -4) by field; assert (ED : D = 4 * 4) by field; rewrite ED, Eb end.
  rewrite sqrt_square by lra. lra.
Qed.

(* D9 (before c2cb03d): out-of-interval inputs were replaced by the literal 0.  RationalQuadraticSpline(knots=2,
   interval=(2,6)) with knots [2,3,5,6] and derivatives 1/2, at the out-of-interval input y = 0: the robust value 0 lies
   OUTSIDE the interval, bin 0 is evaluated at theta = 0 - 2 < 0 and b^2 - 4ac = -71/4 < 0 under the square root
   (unselected branch): not Safe -- every parameter gradient is NaN while log_prob is finite. *)
Definition en_zero_out : env R :=
  {| vars := [0; 2; 6]; pars := [[2; 3; 5; 6]; [2; 3; 5; 6]; [/ 2; / 2; / 2; / 2]] |}.

Theorem rqs_inv_zero_unsafe_refuted : ~ Safe en_zero_out (rqs_inv_zero_t 3 (Var 1) (Var 2) (Var 0)).
Proof.
  unfold rqs_inv_zero_t, rqs_inv_gt, rob_zero, CGe. cbn [Safe CSafe ISafe]. intros H.
  repeat match goal with H : _ /\ _ |- _ => destruct H end.
  match goal with Hn : 0 < ev _ (Sub (Sq _) _) |- _ => revert Hn end.
  assert (Hyr : ev en_zero_out (Where (CAnd (CLe (Var 1) (Var 0)) (CLe (Var 0) (Var 2))) (Var 0) (Const 0)) = 0).
  { autorewrite with evq. cbn [en_zero_out vars nth]. unfold where_, Num.c. cbn [n_ofZ ROps ROpsG]. now destruct (_ && _). }
  rewrite Hyr. set (en' := push en_zero_out 0).
  assert (Hk : ieval ROps en' (bin_t YP (Var 3)) = 0%Z).
  { unfold bin_t. autorewrite with evq. cbn [en' push en_zero_out vars pars par YP nth app searchsorted length].
    cbn [n_ltb ROps ROpsG]. rewrite (proj2 (Rltb_false 2 0)) by lra. reflexivity. }
  autorewrite with evq. rewrite !Hk.
  cbn [en' push en_zero_out vars pars par XP YP DV nth app].
  change (getz ROps [2; 3; 5; 6] 0) with 2. change (getz ROps [2; 3; 5; 6] (0 + 1)) with 3.
  change (getz ROps [/ 2; / 2; / 2; / 2] 0) with (/ 2). change (getz ROps [/ 2; / 2; / 2; / 2] (0 + 1)) with (/ 2).
  unfold Num.c. cbn [n_add n_sub n_mul n_div n_neg n_sqrt n_ofZ ROps ROpsG].
  match goal with |- 0 < ?D -> False => assert (ED : D = - 71 / 4) by field; rewrite ED end. lra.
Qed.

(* the same parameters and input under the repaired formula (robust value = interval[0]) *)
Lemma rqs_valid_excl0 : rqs_valid [2; 3; 5; 6] [2; 3; 5; 6] [/ 2; / 2; / 2; / 2] 2 6.
Proof.
  constructor; cbn; try lia; try lra; try reflexivity;
    repeat (constructor; try lra).
Qed.

(* ====================================================================================== *)
(** * 9. log_prob's where(isnan(lps), -inf, lps): never NaN, whatever the classes of p_z and log_det *)
Theorem lp_never_nan : forall p_z ld v, In v (log_prob_classes p_z ld) -> v <> NaN.
Proof.
  intros p_z ld v H. destruct p_z, ld; cbn in H;
    repeat (destruct H as [H|H]; [subst v; discriminate|]); contradiction.
Qed.
(* and a finite sum of finite terms is the only way to a finite log_prob *)
Lemma lp_fin_only_from_fin : forall p_z ld, In Fin (log_prob_classes p_z ld) -> p_z = Fin /\ ld = Fin.
Proof.
  intros p_z ld H. destruct p_z, ld; cbn in H; auto;
    repeat (destruct H as [H|H]; [discriminate|]); contradiction.
Qed.

(* ====================================================================================== *)
(** * 10. The statements in the concrete environments used by Props/C18.v *)
Definition en3 (x lo hi : R) (xp yp dv : list R) : env R := {| vars := [x; lo; hi]; pars := [xp; yp; dv] |}.
Definition en10 (x m g ic lo hi loc scale bloc bscale : R) (xp yp dv : list R) : env R :=
  {| vars := [x; m; g; ic; lo; hi; loc; scale; bloc; bscale]; pars := [xp; yp; dv] |}.

Corollary leaky_inv_safe_all m g ic y : g <> 0 ->
  Safe (en_of [y; m; g; ic]) (leaky_inv_t (Var 1) (Var 2) (Var 3) (Var 0)).
Proof. intros H. apply leaky_inv_safe; try exact I. exact H. Qed.
Corollary leaky_fwd_safe_all m g ic x : Safe (en_of [x; m; g; ic]) (leaky_fwd_t (Var 1) (Var 2) (Var 3) (Var 0)).
Proof. apply leaky_fwd_safe; exact I. Qed.
Corollary leaky_ld_fwd_safe_all m g ic x : 0 < g ->
  Safe (en_of [x; m; g; ic]) (leaky_ld_fwd_t 4 (Var 1) (Var 2) (Var 0)).
Proof. intros H. apply (leaky_ld_fwd_safe (en_of [x; m; g; ic])); try exact I. exact H. Qed.
Corollary leaky_ld_inv_safe_all m g ic y : 0 < g ->
  Safe (en_of [y; m; g; ic]) (leaky_ld_inv_t 4 (Var 1) (Var 2) (Var 3) (Var 0)).
Proof. intros H. apply (leaky_ld_inv_safe (en_of [y; m; g; ic]) 1 2 3 0); [cbn; lia|exact H]. Qed.
Corollary softplus_inv_safe_pos y : 0 < y -> Safe (en_of [y]) (softplus_inv_t (Var 0)).
Proof. intros H. apply softplus_inv_safe; [exact I|exact H]. Qed.
Corollary tanh_log_grad_safe_all x : Safe (en_of [x]) (tanh_log_grad_t 1 (Var 0)).
Proof. apply (tanh_log_grad_safe (en_of [x])); exact I. Qed.
Corollary exp_inv_safe_pos y : 0 < y -> Safe (en_of [y]) (exp_inv_t (Var 0)).
Proof. intros H. apply exp_inv_safe; [exact I|exact H]. Qed.
Corollary affine_inv_safe_all loc scale y : scale <> 0 ->
  Safe (en_of [y; loc; scale]) (affine_inv_t (Var 1) (Var 2) (Var 0)) /\ Safe (en_of [y; loc; scale]) (affine_ld_t (Var 2)).
Proof. intros H. split; [apply affine_inv_safe|apply affine_ld_safe]; try exact I; exact H. Qed.

Corollary rqs_fwd_safe_all xp yp dv lo hi x : rqs_valid xp yp dv lo hi ->
  Safe (en3 x lo hi xp yp dv) (rqs_fwd_t 3 (Var 1) (Var 2) (Var 0)).
Proof. intros V. apply (rqs_fwd_safe (en3 x lo hi xp yp dv) 1 2 0); cbn; try lia. exact V. Qed.
Corollary rqs_deriv_safe_all xp yp dv lo hi x : rqs_valid xp yp dv lo hi ->
  Safe (en3 x lo hi xp yp dv) (rqs_deriv_t 3 (Var 1) (Var 2) (Var 0)) /\
  0 < ev (en3 x lo hi xp yp dv) (rqs_deriv_t 3 (Var 1) (Var 2) (Var 0)).
Proof.
  intros V. split; [apply (rqs_deriv_safe (en3 x lo hi xp yp dv) 1 2 0)|apply (rqs_deriv_pos (en3 x lo hi xp yp dv) 1 2 0)];
    cbn; try lia; exact V.
Qed.
Corollary rqs_inv_safe_all xp yp dv lo hi y : rqs_valid xp yp dv lo hi ->
  Safe (en3 y lo hi xp yp dv) (rqs_inv_t 3 (Var 1) (Var 2) (Var 0)).
Proof. intros V. apply (rqs_inv_safe (en3 y lo hi xp yp dv) 1 2 0); cbn; try lia. exact V. Qed.
Corollary rqs_ld_inv_safe_all xp yp dv lo hi y : rqs_valid xp yp dv lo hi ->
  Safe (en3 y lo hi xp yp dv) (rqs_ld_inv_t 3 (Var 1) (Var 2) (Var 0)).
Proof. intros V. apply (rqs_ld_inv_safe (en3 y lo hi xp yp dv) 1 2 0); cbn; try lia. exact V. Qed.

(* log_prob of Transformed(StandardNormal | Normal(bloc, bscale), LeakyTanh(m) | Invert(..)) for the fields the
   constructor computes: finite with finite gradients at EVERY real x, EVERY max_val *)
Corollary leaky_log_prob_finite inverted normal x m bloc bscale : (normal = true -> bscale <> 0) ->
  let en := en10 x m (leaky_grad ROps m) (leaky_icpt ROps m) 0 0 0 1 bloc bscale [] [] [] in
  (exists v, eval OROps (lift en) (lp_t LLeaky inverted normal) = Some v) /\
  (forall t, exists r, vjp OROps (lift en) (lp_t LLeaky inverted normal) (Some 1) t = Some r).
Proof. intros H en. apply lp_finite; [reflexivity| |exact H]. apply leaky_grad_pos. Qed.

(* ... and of Transformed(StandardNormal | Normal, RationalQuadraticSpline | Invert(..)): every real x -- interval
   ends, knots, out of bounds -- and all valid knots/derivatives; gradients w.r.t. x and every knot/derivative entry *)
Corollary rqs_log_prob_finite inverted normal x lo hi bloc bscale xp yp dv :
  rqs_valid xp yp dv lo hi -> (normal = true -> bscale <> 0) ->
  let en := en10 x 0 1 0 lo hi 0 1 bloc bscale xp yp dv in
  (exists v, eval OROps (lift en) (lp_t LRqs inverted normal) = Some v) /\
  (forall t, exists r, vjp OROps (lift en) (lp_t LRqs inverted normal) (Some 1) t = Some r).
Proof. intros V H en. apply lp_finite; [reflexivity|exact V|exact H]. Qed.

(* non-vacuity: the initial parameters of RationalQuadraticSpline(knots=2, interval=2) are valid *)
Lemma rqs_valid_init : rqs_valid [-2; -1; 1; 2] [-2; -1; 1; 2] [1; 1; 1; 1] (-2) 2.
Proof.
  constructor; cbn; try lia; try lra; try reflexivity;
    repeat (constructor; try lra).
Qed.

(* grouped, as stated in Props/C18.v *)
Lemma leaky_safe_all m g ic x : 0 < g ->
  Safe (en_of [x; m; g; ic]) (leaky_inv_t (Var 1) (Var 2) (Var 3) (Var 0)) /\
  Safe (en_of [x; m; g; ic]) (leaky_fwd_t (Var 1) (Var 2) (Var 3) (Var 0)) /\
  Safe (en_of [x; m; g; ic]) (leaky_ld_fwd_t 4 (Var 1) (Var 2) (Var 0)) /\
  Safe (en_of [x; m; g; ic]) (leaky_ld_inv_t 4 (Var 1) (Var 2) (Var 3) (Var 0)).
Proof.
  intros H. split; [|split; [|split]];
    [apply leaky_inv_safe_all; lra | apply leaky_fwd_safe_all | now apply leaky_ld_fwd_safe_all | now apply leaky_ld_inv_safe_all].
Qed.
Lemma elementary_safe_all loc scale y :
  Safe (en_of [y]) (tanh_log_grad_t 1 (Var 0)) /\
  (0 < y -> Safe (en_of [y]) (softplus_inv_t (Var 0)) /\ Safe (en_of [y]) (softplus_ld_inv_t 1 (Var 0)) /\
            Safe (en_of [y]) (exp_inv_t (Var 0)) /\ Safe (en_of [y]) (exp_ld_inv_t 1 (Var 0))) /\
  (-1 < y < 1 -> Safe (en_of [y]) (tanh_inv_t (Var 0)) /\ Safe (en_of [y]) (tanh_ld_inv_t 1 (Var 0))) /\
  (scale <> 0 -> Safe (en_of [y; loc; scale]) (affine_inv_t (Var 1) (Var 2) (Var 0)) /\
                 Safe (en_of [y; loc; scale]) (affine_ld_t (Var 2))).
Proof.
  split; [apply tanh_log_grad_safe_all|]. split; [|split].
  - intros H. split; [|split; [|split]];
      [apply softplus_inv_safe | apply (softplus_ld_inv_safe (en_of [y])) | apply exp_inv_safe | apply (exp_ld_inv_safe (en_of [y]))];
      try exact I; exact H.
  - intros H. split; [apply tanh_inv_safe_inside | apply (tanh_ld_inv_safe_inside (en_of [y]))]; try exact I; exact H.
  - apply affine_inv_safe_all.
Qed.
Lemma rqs_safe_all xp yp dv lo hi x : rqs_valid xp yp dv lo hi ->
  let en := en3 x lo hi xp yp dv in
  Safe en (rqs_fwd_t 3 (Var 1) (Var 2) (Var 0)) /\
  Safe en (rqs_deriv_t 3 (Var 1) (Var 2) (Var 0)) /\ 0 < ev en (rqs_deriv_t 3 (Var 1) (Var 2) (Var 0)) /\
  Safe en (rqs_inv_t 3 (Var 1) (Var 2) (Var 0)) /\
  Safe en (rqs_ld_inv_t 3 (Var 1) (Var 2) (Var 0)).
Proof.
  intros V en. destruct (rqs_deriv_safe_all xp yp dv lo hi x V) as [Hd Hp].
  split; [now apply rqs_fwd_safe_all|]. split; [exact Hd|]. split; [exact Hp|].
  split; [now apply rqs_inv_safe_all | now apply rqs_ld_inv_safe_all].
Qed.
Lemma log_prob_finite_instances inverted normal x bloc bscale : (normal = true -> bscale <> 0) ->
  (forall m, let en := en10 x m (leaky_grad ROps m) (leaky_icpt ROps m) 0 0 0 1 bloc bscale [] [] [] in
     (exists v, eval OROps (lift en) (lp_t LLeaky inverted normal) = Some v) /\
     (forall t, exists r, vjp OROps (lift en) (lp_t LLeaky inverted normal) (Some 1) t = Some r)) /\
  (forall lo hi xp yp dv, rqs_valid xp yp dv lo hi ->
     let en := en10 x 0 1 0 lo hi 0 1 bloc bscale xp yp dv in
     (exists v, eval OROps (lift en) (lp_t LRqs inverted normal) = Some v) /\
     (forall t, exists r, vjp OROps (lift en) (lp_t LRqs inverted normal) (Some 1) t = Some r)).
Proof.
  intros H. split.
  - intros m. now apply leaky_log_prob_finite.
  - intros lo hi xp yp dv V. now apply rqs_log_prob_finite.
Qed.
