(* Lemmas about Model/Losses.v at the real numbers (and the closed, discrete lemmas about
   _get_contrastive_idxs).  Property theorems are restated in Props/C17.v. *)
From Coq Require Import Reals List ZArith Bool Lra Lia FinFun.
From Coquelicot Require Import Coquelicot.
From FJ Require Import Model.Num Model.Losses Proofs.RNum.
Import ListNotations.

(* ================================================================================================ *)
(* Discrete part: _get_contrastive_idxs.  No reals; closed under the global context.                *)
(* ================================================================================================ *)
Section IdxP.
  Open Scope nat_scope.

  Lemma arange_length B : length (arange B) = B.
  Proof. unfold arange. now rewrite map_length, seq_length. Qed.

  Lemma nth_arange B i d : i < B -> nth i (arange B) d = Z.of_nat i.
  Proof.
    intros Hi. unfold arange. rewrite (nth_indep _ d (Z.of_nat 0)) by (now rewrite map_length, seq_length).
    rewrite map_nth, seq_nth by assumption. reflexivity.
  Qed.

  Lemma In_arange B j : In j (arange B) <-> (0 <= j < Z.of_nat B)%Z.
  Proof.
    unfold arange. rewrite in_map_iff. split.
    - intros (k & <- & Hk). apply in_seq in Hk. lia.
    - intros Hj. exists (Z.to_nat j). split; [lia|]. apply in_seq. lia.
  Qed.

  Lemma NoDup_arange B : NoDup (arange B).
  Proof. unfold arange. apply Injective_map_NoDup; [intros a b; apply Nat2Z.inj | apply seq_NoDup]. Qed.

  Lemma split_at (l : list Z) i d : i < length l -> l = firstn i l ++ nth i l d :: skipn (S i) l.
  Proof.
    revert i; induction l as [|a l IH]; intros i Hi; cbn in Hi; [lia|].
    destruct i as [|i]; cbn; [reflexivity|]. f_equal. apply IH. lia.
  Qed.

  Lemma delete_at_length (l : list Z) i : i < length l -> length (delete_at l i) = length l - 1.
  Proof.
    intros Hi. unfold delete_at. rewrite app_length, firstn_length, skipn_length. lia.
  Qed.

  Lemma delete_at_NoDup (l : list Z) i : NoDup l -> NoDup (delete_at l i).
  Proof.
    intros Hnd. destruct (Nat.lt_ge_cases i (length l)) as [Hi|Hi].
    - rewrite (split_at l i 0%Z Hi) in Hnd. apply NoDup_remove_1 in Hnd. exact Hnd.
    - unfold delete_at. rewrite firstn_all2, skipn_all2, app_nil_r by lia. exact Hnd.
  Qed.

  Lemma delete_at_In (l : list Z) i d x : i < length l -> NoDup l ->
    In x (delete_at l i) -> In x l /\ x <> nth i l d.
  Proof.
    intros Hi Hnd Hin. pose proof (split_at l i d Hi) as E. unfold delete_at in Hin. split.
    - rewrite E. apply in_app_or in Hin. apply in_or_app. destruct Hin; [now left | right; now right].
    - rewrite E in Hnd. apply NoDup_remove_2 in Hnd. intros ->. contradiction.
  Qed.

  (* jnp.delete(arange B, i) is {0..B-1} \ {i}, without duplicates, of size B-1 *)
  Lemma delete_arange B i : i < B ->
    length (delete_at (arange B) i) = B - 1 /\ NoDup (delete_at (arange B) i) /\
    forall j, In j (delete_at (arange B) i) <-> ((0 <= j < Z.of_nat B)%Z /\ j <> Z.of_nat i).
  Proof.
    intros Hi. split; [|split].
    - rewrite delete_at_length; rewrite arange_length; lia.
    - apply delete_at_NoDup, NoDup_arange.
    - intros j. split.
      + intros Hin. apply (delete_at_In _ _ 0%Z) in Hin; [| now rewrite arange_length | apply NoDup_arange].
        destruct Hin as [Hin Hne]. rewrite nth_arange in Hne by assumption. apply In_arange in Hin. tauto.
      + intros [Hr Hne]. assert (Hin : In j (arange B)) by now apply In_arange.
        rewrite (split_at (arange B) i 0%Z) in Hin by now rewrite arange_length.
        rewrite nth_arange in Hin by assumption. unfold delete_at.
        apply in_app_or in Hin. apply in_or_app. destruct Hin as [H|[H|H]]; [now left | congruence | now right].
  Qed.

  Context {K : Type}.
  Variable split : K -> nat -> list K.
  Variable choice : K -> list Z -> nat -> list Z.
  (* the only facts assumed about the PRNG primitives *)
  Definition split_ok := forall k n, length (split k n) = n.
  Definition choice_ok := forall k l n, n <= length l -> NoDup l ->
    length (choice k l n) = n /\ NoDup (choice k l n) /\ incl (choice k l n) l.

  Lemma idxs_length key B n : split_ok -> length (get_contrastive_idxs split choice key B n) = B.
  Proof.
    intros Hs. unfold get_contrastive_idxs. rewrite map_length, combine_length, Hs, arange_length. lia.
  Qed.

  Lemma idxs_row key B n i : split_ok -> i < B ->
    nth i (get_contrastive_idxs split choice key B n) [] =
    choice (nth i (split key B) key) (delete_at (arange B) i) n.
  Proof.
    intros Hs Hi. unfold get_contrastive_idxs.
    set (F := fun ki : K * Z => get_idxs choice (fst ki) (snd ki) B n).
    rewrite (nth_indep _ [] (F (key, 0%Z))) by (rewrite map_length, combine_length, Hs, arange_length; lia).
    rewrite map_nth, combine_nth by (now rewrite Hs, arange_length).
    unfold F, get_idxs; cbn [fst snd]. rewrite nth_arange by assumption. now rewrite Nat2Z.id.
  Qed.

  Theorem contrastive_indices : split_ok -> choice_ok -> forall key B n, n < B ->
    let idxs := get_contrastive_idxs split choice key B n in
    length idxs = B /\
    forall i, i < B -> let r := nth i idxs [] in
      length r = n /\ NoDup r /\
      (forall j, In j r -> (0 <= j < Z.of_nat B)%Z /\ j <> Z.of_nat i) /\
      r = choice (nth i (split key B) key) (delete_at (arange B) i) n.
  Proof.
    intros Hs Hc key B n Hn idxs. split; [now apply idxs_length|].
    intros i Hi r. unfold r, idxs. rewrite idxs_row by assumption.
    destruct (delete_arange B i Hi) as (Hlen & Hnd & Hin).
    destruct (Hc (nth i (split key B) key) (delete_at (arange B) i) n) as (H1 & H2 & H3); [lia | assumption |].
    repeat split; try assumption; apply H3 in H; apply Hin in H; tauto.
  Qed.
End IdxP.

(* ================================================================================================ *)
(* Analytic part, at R                                                                              *)
(* ================================================================================================ *)
Open Scope R_scope.

(* the specification-side sum (fold_right), independent of the fold_left the model uses *)
Fixpoint rsum (l : list R) : R := match l with [] => 0 | x :: t => x + rsum t end.

Lemma fold_left_Rplus l a : fold_left Rplus l a = a + rsum l.
Proof. revert a; induction l as [|x l IH]; intros a; cbn; [lra|]. rewrite IH. lra. Qed.

Lemma sum_rsum l : sum ROps l = rsum l.
Proof. unfold sum. cbn. rewrite fold_left_Rplus. unfold c; cbn. lra. Qed.

Lemma mean_rsum l : mean ROps l = rsum l / INR (length l).
Proof. unfold mean. rewrite sum_rsum. cbn. now rewrite <- INR_IZR_INZ. Qed.

Lemma rsum_app a b : rsum (a ++ b) = rsum a + rsum b.
Proof. induction a; cbn; lra. Qed.

Lemma rsum_nonneg l : List.Forall (fun x => 0 <= x) l -> 0 <= rsum l.
Proof. induction 1; cbn; lra. Qed.

Lemma rsum_exp_nonneg l : 0 <= rsum (map exp l).
Proof. induction l as [|a l IH]; cbn; [lra|]. pose proof (exp_pos a). lra. Qed.

Lemma rsum_exp_pos l : l <> [] -> 0 < rsum (map exp l).
Proof. destruct l as [|a l]; [congruence|]. intros _. cbn. pose proof (exp_pos a). pose proof (rsum_exp_nonneg l). lra. Qed.

Lemma rsum_scale k l : rsum (map (fun x => k * x) l) = k * rsum l.
Proof. induction l; cbn; [ring|]. rewrite IHl. ring. Qed.

(* ---- maximum likelihood *)
Theorem ml_loss_spec lps : lps <> [] -> ml_loss ROps lps = - (rsum lps / INR (length lps)).
Proof. intros _. unfold ml_loss. rewrite mean_rsum. reflexivity. Qed.

(* ---- ELBO *)
Lemma sub_list_map {T} (f h : T -> R) l : sub_list ROps (map f l) (map h l) = map (fun x => f x - h x) l.
Proof. induction l; cbn; [reflexivity|]. now rewrite IHl. Qed.

Section ElboP.
  Context {P K X : Type}.
  Variable split : K -> nat -> list K.
  Variable sample : P -> K -> X.
  Variable log_prob : P -> X -> R.
  Variable sample_lp : P -> K -> X * R.
  Variable target : X -> R.
  Variable stopg : P -> P.
  Let elbo := elbo_loss ROps split sample log_prob sample_lp target stopg.

  (* the value each branch computes, as the mean over the num_samples keys of jr.split(key, num_samples) *)
  Theorem elbo_spec n p key : (0 < n)%nat -> length (split key n) = n ->
    elbo false n p key =
      rsum (map (fun k => snd (sample_lp p k) - target (fst (sample_lp p k))) (split key n)) / INR n /\
    elbo true n p key =
      rsum (map (fun k => log_prob (stopg p) (sample p k) - target (sample p k)) (split key n)) / INR n.
  Proof.
    intros _ Hlen. unfold elbo, elbo_loss. split.
    - rewrite mean_rsum. rewrite !map_map. rewrite (sub_list_map (fun k => snd (sample_lp p k))).
      now rewrite map_length, Hlen.
    - rewrite mean_rsum. rewrite !map_map. rewrite (sub_list_map (fun k => log_prob (stopg p) (sample p k))).
      now rewrite map_length, Hlen.
  Qed.

  (* stop_gradient is the identity on values; sample_and_log_prob is consistent with sample + log_prob
     (that is property C03's sample_lp_consistent; here a hypothesis about the distribution) *)
  Hypothesis stopg_value : forall p x, log_prob (stopg p) x = log_prob p x.
  Hypothesis sample_lp_consistent : forall p k, sample_lp p k = (sample p k, log_prob p (sample p k)).

  Theorem elbo_stl_same_value n p key : elbo true n p key = elbo false n p key.
  Proof.
    unfold elbo, elbo_loss. rewrite !map_map. f_equal. f_equal.
    - apply map_ext. intros k. now rewrite stopg_value, sample_lp_consistent.
    - apply map_ext. intros k. now rewrite sample_lp_consistent.
  Qed.

  Theorem elbo_estimator n p key : (0 < n)%nat -> length (split key n) = n -> forall stl,
    elbo stl n p key = rsum (map (fun k => log_prob p (sample p k) - target (sample p k)) (split key n)) / INR n.
  Proof.
    intros Hn Hlen stl. assert (E : elbo stl n p key = elbo false n p key) by (destruct stl; [apply elbo_stl_same_value | reflexivity]).
    rewrite E. destruct (elbo_spec n p key Hn Hlen) as [-> _]. f_equal. f_equal.
    apply map_ext. intros k. now rewrite sample_lp_consistent.
  Qed.
End ElboP.

(* ---- logsumexp *)
Lemma finite_or_zero_R m : finite_or_zero ROps m = m.
Proof.
  unfold finite_or_zero.
  assert (H : n_eqb ROps (n_sub ROps m m) (c ROps 0) = true) by (apply Reqb_true; unfold c; cbn; lra).
  now rewrite H.
Qed.

Lemma rsum_exp_shift m l : rsum (map (fun a => exp (a - m)) l) = exp (- m) * rsum (map exp l).
Proof.
  rewrite <- rsum_scale, map_map. f_equal. apply map_ext. intros a.
  unfold Rminus. rewrite exp_plus. ring.
Qed.

(* the max-shifted formula jax codes = the defining formula, for every non-empty list *)
Theorem logsumexp_shift l : l <> [] -> logsumexp ROps l = ln (rsum (map exp l)).
Proof.
  intros Hne. unfold logsumexp. rewrite finite_or_zero_R. set (m := maxl ROps l). clearbody m.
  rewrite sum_rsum. cbn. rewrite rsum_exp_shift.
  rewrite ln_mult by (try apply exp_pos; now apply rsum_exp_pos). rewrite ln_exp. lra.
Qed.

Theorem logsumexp_plain_eq l : l <> [] -> logsumexp ROps l = logsumexp_plain ROps l.
Proof. intros Hne. rewrite logsumexp_shift by assumption. unfold logsumexp_plain. now rewrite sum_rsum. Qed.

(* ---- contrastive loss *)
(* the defining softmax cross-entropy of the positive among {positive} + contrastive *)
Definition softmax_xent (p : R) (cs : list R) : R := - ln (exp p / (exp p + rsum (map exp cs))).

Lemma xent_form p cs : - (p - ln (rsum (map exp (cs ++ [p])))) = softmax_xent p cs.
Proof.
  unfold softmax_xent. rewrite map_app, rsum_app. cbn.
  pose proof (exp_pos p) as Hp. pose proof (rsum_exp_nonneg cs) as Hc.
  unfold Rdiv. rewrite ln_mult by (try assumption; apply Rinv_0_lt_compat; lra).
  rewrite ln_exp, ln_Rinv by lra.
  replace (rsum (map exp cs) + (exp p + 0)) with (exp p + rsum (map exp cs)) by lra. lra.
Qed.

Lemma softmax_xent_nonneg p cs : 0 <= softmax_xent p cs.
Proof.
  unfold softmax_xent. pose proof (exp_pos p) as Hp. pose proof (rsum_exp_nonneg cs) as Hc.
  assert (H1 : 0 < exp p / (exp p + rsum (map exp cs))) by (apply Rdiv_lt_0_compat; lra).
  assert (H2 : exp p / (exp p + rsum (map exp cs)) <= 1).
  { apply Rmult_le_reg_r with (exp p + rsum (map exp cs)); [lra|]. unfold Rdiv. rewrite Rmult_assoc, Rinv_l by lra. lra. }
  destruct H2 as [H2|H2].
  - apply ln_increasing in H2; [|assumption]. rewrite ln_1 in H2. lra.
  - rewrite H2, ln_1. lra.
Qed.

Lemma gatherz_in_range {X} (l : list X) j d : (0 <= j < Z.of_nat (length l))%Z -> gatherz l j d = nth (Z.to_nat j) l d.
Proof.
  intros Hj. unfold gatherz. destruct (j <? 0)%Z eqn:E; [lia|]. f_equal. lia.
Qed.

Lemma map_seq_nth {T U} (f : T -> U) (l : list T) d : map f l = map (fun i => f (nth i l d)) (seq 0 (length l)).
Proof.
  apply nth_ext with (d := f d) (d' := f d); [now rewrite !map_length, seq_length|].
  intros i Hi. rewrite map_length in Hi. rewrite map_nth.
  rewrite (nth_indep _ (f d) ((fun i => f (nth i l d)) 0%nat)) by (now rewrite map_length, seq_length).
  rewrite (map_nth (fun i => f (nth i l d))). now rewrite seq_nth.
Qed.

Section ContrP.
  Context {K X C : Type}.
  Variable split : K -> nat -> list K.
  Variable choice : K -> list Z -> nat -> list Z.
  Variable lq : X -> C -> R.
  Variable prior : X -> R.
  Definition logit (y : X) (c : C) : R := lq y c - prior y.

  Theorem single_x_loss_spec xs x c ids :
    single_x_loss ROps lq prior xs x c ids = softmax_xent (logit x c) (map (fun j => logit (gatherz xs j x) c) ids).
  Proof.
    unfold single_x_loss. rewrite logsumexp_shift by (intros E; apply app_eq_nil in E; destruct E; discriminate).
    cbn [n_neg n_sub ROps ROpsG]. rewrite map_map. apply xent_form.
  Qed.

  Theorem single_x_loss_nonneg xs x c ids : 0 <= single_x_loss ROps lq prior xs x c ids.
  Proof. rewrite single_x_loss_spec. apply softmax_xent_nonneg. Qed.

  (* the batch loss: Some (mean over EXACTLY the B rows of the per-row cross-entropy of row i's positive
     logit against the logits of the n rows j in idxs_i under condition i), where idxs = the model of
     _get_contrastive_idxs; every gather is in range (no wrap, no clamp) *)
  Theorem contrastive_spec : split_ok split -> choice_ok choice ->
    forall n xs conds key dx dc, let B := length xs in length conds = B -> (n < B)%nat ->
    let idxs := get_contrastive_idxs split choice key B n in
    contrastive_loss ROps split choice lq prior n xs conds key =
      Some (rsum (map (fun i => softmax_xent (logit (nth i xs dx) (nth i conds dc))
                                  (map (fun j => logit (nth (Z.to_nat j) xs dx) (nth i conds dc)) (nth i idxs [])))
                      (seq 0 B)) / INR B).
  Proof.
    intros Hs Hc n xs conds key dx dc B Hconds Hn idxs.
    destruct (contrastive_indices split choice Hs Hc key B n Hn) as [Hlen Hrows]. fold idxs in Hlen, Hrows.
    unfold contrastive_loss. fold B. destruct (B <=? n)%nat eqn:E; [apply Nat.leb_le in E; lia|].
    fold idxs. f_equal. rewrite mean_rsum. unfold contrastive_rows. rewrite map_length, !combine_length.
    replace (Init.Nat.min (Init.Nat.min (length xs) (length conds)) (length idxs)) with B by (fold B; lia).
    f_equal. f_equal.
    rewrite (map_seq_nth _ (combine (combine xs conds) idxs) ((dx, dc), [])).
    rewrite !combine_length. replace (Init.Nat.min (Init.Nat.min (length xs) (length conds)) (length idxs)) with B by (fold B; lia).
    apply map_ext_in. intros i Hi. apply in_seq in Hi.
    rewrite !combine_nth by (try rewrite combine_length; fold B; lia). cbn [fst snd].
    rewrite single_x_loss_spec. f_equal. apply map_ext_in. intros j Hj.
    destruct (Hrows i) as (_ & _ & Hr & _); [lia|]. apply Hr in Hj.
    rewrite gatherz_in_range by (fold B; lia). rewrite (nth_indep xs (nth i xs dx) dx) by (fold B; lia). reflexivity.
  Qed.

  (* never negative: every row is >= 0 whatever the index rows are (no hypothesis on [choice]);
     the guards only make the batch non-empty so that the mean is a genuine mean *)
  Theorem contrastive_nonneg : split_ok split -> forall n xs conds key v, length conds = length xs ->
    contrastive_loss ROps split choice lq prior n xs conds key = Some v -> 0 <= v.
  Proof.
    intros Hs n xs conds key v Hconds. unfold contrastive_loss.
    destruct (length xs <=? n)%nat eqn:E; [discriminate|]. apply Nat.leb_gt in E.
    intros H; injection H as <-. rewrite sum_rsum, <- INR_IZR_INZ.
    set (rows := contrastive_rows ROps lq prior xs conds _).
    assert (Hlen : length rows = length xs).
    { unfold rows, contrastive_rows. rewrite map_length, !combine_length, idxs_length by assumption. lia. }
    apply Rmult_le_pos.
    - apply rsum_nonneg. apply Forall_forall. intros y Hy. unfold rows, contrastive_rows in Hy.
      apply in_map_iff in Hy. destruct Hy as (r & <- & _). apply single_x_loss_nonneg.
    - left. apply Rinv_0_lt_compat. rewrite Hlen. apply lt_0_INR. lia.
  Qed.
End ContrP.

(* ================================================================================================ *)
(* Stick-the-landing: the gradient.  PARTIAL -- a forward-mode (dual number) semantics of the SAME   *)
(* [elbo_loss], one scalar parameter direction th, scalar sample points.                             *)
(*   x = g th e                 the reparameterised sample (e = the noise selected by the key)       *)
(*   lq th x                    log q_th(x);  lq_th, lq_x its two partial derivatives                *)
(*   t x                        the target log-density                                               *)
(* A dual parameter (th, dth) stands for "th, differentiated with tangent dth"; stop_gradient sets   *)
(* the tangent to 0.                                                                                  *)
(* ================================================================================================ *)
Section StlP.
  Context {E : Type}.
  Variable split : E -> nat -> list E.
  Variables g g' : R -> E -> R.
  Variables lq lq_th lq_x : R -> R -> R.
  Variables t t' : R -> R.
  Definition sampleD (p : R * R) (e : E) : R * R := (g (fst p) e, g' (fst p) e * snd p).
  Definition log_probD (p x : R * R) : R * R :=
    (lq (fst p) (fst x), lq_th (fst p) (fst x) * snd p + lq_x (fst p) (fst x) * snd x).
  Definition sample_lpD (p : R * R) (e : E) : (R * R) * (R * R) := (sampleD p e, log_probD p (sampleD p e)).
  Definition targetD (x : R * R) : R * R := (t (fst x), t' (fst x) * snd x).
  Definition elboD (stl : bool) (n : nat) (th : R) (key : E) : R * R :=
    elbo_loss (DOps ROps) split sampleD log_probD sample_lpD targetD (d_stop ROps) stl n (th, 1) key.

  Lemma fold_left_dual (l : list (R * R)) a :
    fold_left (n_add (DOps ROps)) l a = (fst a + rsum (map fst l), snd a + rsum (map snd l)).
  Proof.
    revert a; induction l as [|x l IH]; intros [a da]; cbn [fold_left map rsum fst snd].
    - f_equal; lra.
    - rewrite IH. cbn. f_equal; lra.
  Qed.

  Lemma mean_dual (l : list (R * R)) :
    mean (DOps ROps) l = (rsum (map fst l) / INR (length l), rsum (map snd l) / INR (length l)).
  Proof.
    unfold mean, sum. rewrite fold_left_dual. cbn. rewrite <- INR_IZR_INZ. unfold c; cbn.
    rewrite Rmult_0_r, Rminus_0_r, !Rplus_0_l. reflexivity.
  Qed.

  Lemma sub_list_dual {T} (f h : T -> R * R) l :
    sub_list (DOps ROps) (map f l) (map h l) = map (fun x => (fst (f x) - fst (h x), snd (f x) - snd (h x))) l.
  Proof. induction l; cbn; [reflexivity|]. now rewrite IHl. Qed.

  (* path term of one sample, score term of one sample *)
  Definition path_term (th : R) (e : E) : R := (lq_x th (g th e) - t' (g th e)) * g' th e.
  Definition score_term (th : R) (e : E) : R := lq_th th (g th e).

  (* value: the dual run computes the same value as the real-number run;
     tangent: with stick_the_landing the mean of the path terms ONLY, without it path + score terms *)
  Theorem elbo_dual_value_tangent stl n th key : length (split key n) = n ->
    fst (elboD stl n th key) = rsum (map (fun e => lq th (g th e) - t (g th e)) (split key n)) / INR n /\
    snd (elboD stl n th key) =
      rsum (map (fun e => path_term th e + (if stl then 0 else score_term th e)) (split key n)) / INR n.
  Proof.
    intros Hlen. unfold elboD, elbo_loss. destruct stl.
    - rewrite !map_map. rewrite (sub_list_dual (fun e => log_probD (d_stop ROps (th, 1)) (sampleD (th, 1) e))).
      rewrite mean_dual, !map_map, map_length, Hlen. cbn [fst snd]. split; [reflexivity|].
      f_equal. f_equal. apply map_ext. intros e. unfold path_term, c. cbn. ring.
    - rewrite !map_map. rewrite (sub_list_dual (fun e => snd (sample_lpD (th, 1) e))).
      rewrite mean_dual, !map_map, map_length, Hlen. cbn [fst snd]. split; [reflexivity|].
      f_equal. f_equal. apply map_ext. intros e. unfold path_term, score_term. cbn. ring.
  Qed.

  Corollary elbo_stl_no_score_term n th key : length (split key n) = n ->
    snd (elboD true n th key) = rsum (map (path_term th) (split key n)) / INR n /\
    snd (elboD false n th key) - snd (elboD true n th key) = rsum (map (score_term th) (split key n)) / INR n.
  Proof.
    intros Hlen. destruct (elbo_dual_value_tangent true n th key Hlen) as [_ ->].
    destruct (elbo_dual_value_tangent false n th key Hlen) as [_ ->]. split.
    - f_equal. f_equal. apply map_ext. intros e. lra.
    - unfold Rdiv. rewrite <- Rmult_minus_distr_r. f_equal.
      clear Hlen. generalize (split key n). intros l. induction l as [|e l IH]; cbn [map rsum]; lra.
  Qed.

  (* What the two tangents ARE, by the chain rule (Coquelicot), given differentiable ingredients:
     - stick-the-landing: the derivative in th of the loss with the density's own parameter FROZEN at
       its current value (only the samples move): the path derivative;
     - plain: the total derivative of th |-> mean_i (log q_th(x_i(th)) - t(x_i(th))). *)
  Lemma is_derive_minus_R (f h : R -> R) x df dh :
    is_derive f x df -> is_derive h x dh -> is_derive (fun y => f y - h y) x (df - dh).
  Proof. intros Hf Hh. exact (is_derive_minus (V := R_NormedModule) f h x df dh Hf Hh). Qed.
  Lemma is_derive_plus_R (f h : R -> R) x df dh :
    is_derive f x df -> is_derive h x dh -> is_derive (fun y => f y + h y) x (df + dh).
  Proof. intros Hf Hh. exact (is_derive_plus (V := R_NormedModule) f h x df dh Hf Hh). Qed.
  Lemma is_derive_comp_R (f h : R -> R) x df dh :
    is_derive f (h x) df -> is_derive h x dh -> is_derive (fun y => f (h y)) x (df * dh).
  Proof.
    intros Hf Hh. replace (df * dh) with (scal dh df) by (unfold scal; cbn; unfold mult; cbn; ring).
    exact (is_derive_comp f h x df dh Hf Hh).
  Qed.
  Lemma is_derive_divc_R (f : R -> R) x df k : is_derive f x df -> is_derive (fun y => f y / k) x (df / k).
  Proof.
    intros Hf. apply (is_derive_ext (fun y => scal (/ k) (f y))).
    { intros y. unfold scal; cbn; unfold mult; cbn. unfold Rdiv. ring. }
    replace (df / k) with (scal (/ k) df) by (unfold scal; cbn; unfold mult; cbn; unfold Rdiv; ring).
    now apply (is_derive_scal f).
  Qed.

  Lemma is_derive_rsum_map (F : R -> E -> R) (dF : E -> R) (l : list E) (x : R) :
    (forall e, In e l -> is_derive (fun y => F y e) x (dF e)) ->
    is_derive (fun y => rsum (map (F y) l)) x (rsum (map dF l)).
  Proof.
    induction l as [|e l IH]; intros H; cbn [map rsum].
    - apply (is_derive_const (V := R_NormedModule)).
    - apply (is_derive_plus_R (fun y => F y e) (fun y => rsum (map (F y) l))).
      + apply H; now left.
      + apply IH. intros e' He'. apply H; now right.
  Qed.

  Theorem elbo_stl_tangent_is_path_derivative n th key : length (split key n) = n ->
    (forall e, In e (split key n) -> is_derive (fun y => g y e) th (g' th e)) ->
    (forall e, In e (split key n) -> is_derive (lq th) (g th e) (lq_x th (g th e))) ->
    (forall e, In e (split key n) -> is_derive t (g th e) (t' (g th e))) ->
    is_derive (fun y => rsum (map (fun e => lq th (g y e) - t (g y e)) (split key n)) / INR n) th
              (snd (elboD true n th key)).
  Proof.
    intros Hlen Hg Hq Ht. destruct (elbo_stl_no_score_term n th key Hlen) as [-> _].
    apply (is_derive_divc_R (fun y => rsum (map (fun e => lq th (g y e) - t (g y e)) (split key n)))).
    apply (is_derive_rsum_map (fun y e => lq th (g y e) - t (g y e))). intros e He. unfold path_term.
    replace ((lq_x th (g th e) - t' (g th e)) * g' th e)
      with (lq_x th (g th e) * g' th e - t' (g th e) * g' th e) by ring.
    apply (is_derive_minus_R (fun y => lq th (g y e)) (fun y => t (g y e))).
    - apply (is_derive_comp_R (lq th) (fun y => g y e)); [now apply Hq | now apply Hg].
    - apply (is_derive_comp_R t (fun y => g y e)); [now apply Ht | now apply Hg].
  Qed.

  Theorem elbo_plain_tangent_is_total_derivative n th key : length (split key n) = n ->
    (forall e, In e (split key n) -> is_derive (fun y => g y e) th (g' th e)) ->
    (forall e, In e (split key n) -> differentiable_pt_lim lq th (g th e) (lq_th th (g th e)) (lq_x th (g th e))) ->
    (forall e, In e (split key n) -> is_derive t (g th e) (t' (g th e))) ->
    is_derive (fun y => rsum (map (fun e => lq y (g y e) - t (g y e)) (split key n)) / INR n) th
              (snd (elboD false n th key)).
  Proof.
    intros Hlen Hg Hq Ht. destruct (elbo_dual_value_tangent false n th key Hlen) as [_ ->].
    apply (is_derive_divc_R (fun y => rsum (map (fun e => lq y (g y e) - t (g y e)) (split key n)))).
    apply (is_derive_rsum_map (fun y e => lq y (g y e) - t (g y e))). intros e He. unfold path_term, score_term.
    replace ((lq_x th (g th e) - t' (g th e)) * g' th e + lq_th th (g th e))
      with ((lq_th th (g th e) * 1 + lq_x th (g th e) * g' th e) - t' (g th e) * g' th e) by ring.
    apply (is_derive_minus_R (fun y => lq y (g y e)) (fun y => t (g y e))).
    - apply is_derive_Reals. apply (derivable_pt_lim_comp_2d lq (fun y => y) (fun y => g y e)).
      + now apply Hq.
      + apply derivable_pt_lim_id.
      + apply is_derive_Reals. now apply Hg.
    - apply (is_derive_comp_R t (fun y => g y e)); [now apply Ht | now apply Hg].
  Qed.
End StlP.

(* ================================================================================================ *)
(* Non-vacuity witnesses (used by the Examples of Props/C17.v)                                       *)
(* ================================================================================================ *)
(* an admissible [choice] and [split]: the first n elements; n copies of the key *)
Definition choice_firstn (_ : unit) (l : list Z) (n : nat) : list Z := firstn n l.
Definition split_repeat (k : unit) (n : nat) : list unit := repeat k n.
(* another admissible [choice]: the LAST n elements, reversed -- the hypotheses do not pin the primitive down *)
Definition choice_lastn (_ : unit) (l : list Z) (n : nat) : list Z := firstn n (rev l).

Lemma split_repeat_ok : split_ok split_repeat.
Proof. intros k n. apply repeat_length. Qed.

Lemma NoDup_firstn {T} (l : list T) n : NoDup l -> NoDup (firstn n l).
Proof.
  revert n; induction l as [|a l IH]; intros n H; destruct n; cbn; try constructor.
  - inversion H; subst. intros Hin. apply H2. revert Hin. clear. revert n.
    induction l as [|b l IH]; intros n; destruct n; cbn; try tauto. intros [->|Hin]; [now left | right; eauto].
  - inversion H; subst. now apply IH.
Qed.

Lemma incl_firstn {T} (l : list T) n : incl (firstn n l) l.
Proof. revert n; induction l as [|a l IH]; intros n; destruct n; cbn; intros x Hx; try tauto. destruct Hx as [->|Hx]; [now left | right; eapply IH; eauto]. Qed.

Lemma choice_firstn_ok : choice_ok choice_firstn.
Proof.
  intros k l n Hn Hnd. unfold choice_firstn. split; [|split].
  - rewrite firstn_length. lia.
  - now apply NoDup_firstn.
  - apply incl_firstn.
Qed.

Lemma choice_lastn_ok : choice_ok choice_lastn.
Proof.
  intros k l n Hn Hnd. unfold choice_lastn. split; [|split].
  - rewrite firstn_length, rev_length. lia.
  - apply NoDup_firstn. now apply NoDup_rev.
  - intros x Hx. apply incl_firstn in Hx. now apply in_rev.
Qed.

(* the location family q_th = N(th, 1) (up to the constant), x = th + e, target N(1,1):
   the hypotheses of the two derivative theorems hold for it, and the per-sample score is e <> 0 *)
Definition ex_g (th e : R) : R := th + e.
Definition ex_g' (th e : R) : R := 1.
Definition ex_lq (th x : R) : R := - ((x - th) * (x - th)) / 2.
Definition ex_lq_th (th x : R) : R := x - th.
Definition ex_lq_x (th x : R) : R := - (x - th).
Definition ex_t (x : R) : R := - ((x - 1) * (x - 1)) / 2.
Definition ex_t' (x : R) : R := - (x - 1).

Lemma diff2_linear a b k x y : differentiable_pt_lim (fun u v => a * u + b * v + k) x y a b.
Proof.
  intros eps. exists (mkposreal 1 Rlt_0_1). intros u v _ _.
  replace (a * u + b * v + k - (a * x + b * y + k) - (a * (u - x) + b * (v - y))) with 0 by ring.
  rewrite Rabs_R0. apply Rmult_le_pos; [left; apply cond_pos | apply Rmax_case; apply Rabs_pos].
Qed.

Lemma ex_hyps th e :
  is_derive (fun y => ex_g y e) th (ex_g' th e) /\
  is_derive (ex_lq th) (ex_g th e) (ex_lq_x th (ex_g th e)) /\
  differentiable_pt_lim ex_lq th (ex_g th e) (ex_lq_th th (ex_g th e)) (ex_lq_x th (ex_g th e)) /\
  is_derive ex_t (ex_g th e) (ex_t' (ex_g th e)).
Proof.
  unfold ex_g, ex_g', ex_lq, ex_lq_th, ex_lq_x, ex_t, ex_t'. split; [|split; [|split]].
  - auto_derive; [exact I | ring].
  - auto_derive; [exact I | field].
  - set (x := th + e).
    apply (differentiable_pt_lim_ext (fun u v => (fun a _ : R => - (a * a) / 2) ((-1) * u + 1 * v + 0) (0 * u + 0 * v + 0))).
    { apply locally_2d_forall. intros u v. cbv beta. f_equal. f_equal. ring. }
    replace (x - th) with ((- (x - th)) * (-1) + 0 * 0) at 1 by ring.
    replace (- (x - th)) with ((- (x - th)) * 1 + 0 * 0) at 2 by ring.
    apply (differentiable_pt_lim_comp (fun a _ : R => - (a * a) / 2) (fun u v => (-1) * u + 1 * v + 0) (fun u v => 0 * u + 0 * v + 0)).
    + replace (- (x - th)) with (- ((-1) * th + 1 * x + 0)) by ring.
      apply (differentiable_pt_lim_proj1_0 (fun a => - (a * a) / 2)).
      apply is_derive_Reals. auto_derive; [exact I | field].
    + apply diff2_linear.
    + apply diff2_linear.
  - auto_derive; [exact I | field].
Qed.

Lemma ex_score_nonzero : score_term ex_g ex_lq_th 0 2 = 2 /\ path_term ex_g ex_g' ex_lq_x ex_t' 0 2 = -1.
Proof. unfold score_term, path_term, ex_g, ex_g', ex_lq_th, ex_lq_x, ex_t'. split; lra. Qed.

(* the two tangents differ on a concrete run: noise [2; 1], th = 0 *)
Lemma ex_tangents :
  let split := fun (_ : R) (_ : nat) => [2; 1] in
  snd (elboD split ex_g ex_g' ex_lq ex_lq_th ex_lq_x ex_t ex_t' true 2 0 0) = -1 /\
  snd (elboD split ex_g ex_g' ex_lq ex_lq_th ex_lq_x ex_t ex_t' false 2 0 0) = / 2.
Proof.
  intros split.
  destruct (elbo_dual_value_tangent split ex_g ex_g' ex_lq ex_lq_th ex_lq_x ex_t ex_t' true 2 0 0 eq_refl) as [_ ->].
  destruct (elbo_dual_value_tangent split ex_g ex_g' ex_lq ex_lq_th ex_lq_x ex_t ex_t' false 2 0 0 eq_refl) as [_ ->].
  unfold split, path_term, score_term, ex_g, ex_g', ex_lq_th, ex_lq_x, ex_t'. cbn [map rsum INR]. split; field.
Qed.
