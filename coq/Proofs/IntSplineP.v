(* C04, continued -- the piecewise (Chasles) form of the 1-D theorem and the rational-quadratic spline.
   [pdiffeo f g f' up]: f is a bijection of R onto R with inverse g, obtained from finitely many global C1
   diffeos (Proofs/IntP.v [diffeo]) by GLUING at break points: left of a break point it is one member of the
   class, right of it another, the two agree at the point.  Kinks are allowed; f' is the piecewise derivative
   and its value AT a break point is free (only its sign is fixed) -- it is irrelevant for the integral.
   Proved: strict monotonicity, limits, the integral of p (f x) * f' x over every interval and over the whole
   line (Chasles), closure under inverse and composition.  Then: the spline of Model/Leaves.v under rqs_valid
   is in the class (break points = its knots; one global C1 extension per bin), with rqs_deriv as f'. *)
From Coq Require Import Reals List ZArith Bool Lra Lia Sorted.
From Coquelicot Require Import Coquelicot.
From FJ Require Proofs.LeafInvP Proofs.RqsInvP.
From FJ Require Import Model.Num Model.Leaves Model.Dist Proofs.RNum Proofs.RqsCoreP Proofs.LeafDerivP Proofs.RqsDerivP
                       Proofs.DistP Proofs.IntP.
Import ListNotations.
Open Scope R_scope.

Definition sgn_ok (up : bool) (d : R) : Prop := if up then 0 < d else d < 0.

Inductive pdiffeo : (R -> R) -> (R -> R) -> (R -> R) -> bool -> Prop :=
| pd_smooth f g f' up :
    diffeo f f' up -> (forall x, g (f x) = x) -> (forall y, f (g y) = y) -> pdiffeo f g f' up
| pd_glue f g f' up fl gl fl' fr gr fr' a :
    pdiffeo fl gl fl' up -> pdiffeo fr gr fr' up -> fl a = fr a ->
    (forall x, x <= a -> f x = fl x) -> (forall x, a <= x -> f x = fr x) ->
    (forall x, x < a -> f' x = fl' x) -> (forall x, a < x -> f' x = fr' x) -> sgn_ok up (f' a) ->
    (forall x, g (f x) = x) -> (forall y, f (g y) = y) ->
    pdiffeo f g f' up.

Lemma pd_inv f g f' up : pdiffeo f g f' up -> (forall x, g (f x) = x) /\ (forall y, f (g y) = y).
Proof. destruct 1; auto. Qed.

Lemma pd_sign f g f' up : pdiffeo f g f' up -> forall x, sgn_ok up (f' x).
Proof.
  induction 1 as [f g f' up D _ _|f g f' up fl gl fl' fr gr fr' a _ IHl _ IHr E Fl Fr Dl Dr Sa _ _]; intros x.
  - apply (df_sign _ _ _ D).
  - destruct (Rtotal_order x a) as [H|[->|H]]; [rewrite Dl by exact H; apply IHl | exact Sa | rewrite Dr by exact H; apply IHr].
Qed.
Lemma pd_nonzero f g f' up : pdiffeo f g f' up -> forall x, f' x <> 0.
Proof. intros H x. pose proof (pd_sign _ _ _ _ H x) as S. destruct up; cbn in S; lra. Qed.

Definition mono (up : bool) (f : R -> R) : Prop := forall a b, a < b -> if up then f a < f b else f b < f a.
Lemma pd_mono f g f' up : pdiffeo f g f' up -> mono up f.
Proof.
  induction 1 as [f g f' up D _ _|f g f' up fl gl fl' fr gr fr' a _ IHl _ IHr E Fl Fr _ _ _ _ _]; intros u v Huv.
  - apply (diffeo_mono _ _ _ D), Huv.
  - destruct (Rle_dec v a) as [Hv|Hv].
    + rewrite !Fl by lra. apply IHl, Huv.
    + destruct (Rle_dec a u) as [Hu|Hu].
      * rewrite !Fr by lra. apply IHr, Huv.
      * rewrite (Fl u), (Fr v) by lra.
        assert (A : if up then fl u < fl a else fl a < fl u) by (apply IHl; lra).
        assert (B : if up then fr a < fr v else fr v < fr a) by (apply IHr; lra).
        destruct up; lra.
Qed.
Lemma mono_le up f : mono up f -> forall a b, a <= b -> if up then f a <= f b else f b <= f a.
Proof. intros M a b [H| ->]; [specialize (M a b H); destruct up; lra | destruct up; lra]. Qed.
(* the inverse of a monotone bijection is monotone the same way *)
Lemma mono_inverse up f g : mono up f -> (forall y, f (g y) = y) -> mono up g.
Proof.
  intros M fg a b Hab. pose proof (mono_le _ _ M) as ML.
  destruct up.
  - destruct (Rlt_le_dec (g a) (g b)) as [H|H]; [exact H|]. apply ML in H. rewrite !fg in H. lra.
  - destruct (Rlt_le_dec (g b) (g a)) as [H|H]; [exact H|]. apply ML in H. rewrite !fg in H. lra.
Qed.

Lemma pd_limits f g f' up : pdiffeo f g f' up ->
  filterlim f (Rbar_locally m_infty) (Rbar_locally (if up then m_infty else p_infty)) /\
  filterlim f (Rbar_locally p_infty) (Rbar_locally (if up then p_infty else m_infty)).
Proof.
  induction 1 as [f g f' up D _ _|f g f' up fl gl fl' fr gr fr' a _ [Ll _] _ [_ Lr] E Fl Fr _ _ _ _ _].
  - split; [apply (df_minf _ _ _ D) | apply (df_pinf _ _ _ D)].
  - split.
    + apply (filterlim_ext_loc fl); [|exact Ll]. exists a. intros x Hx. symmetry. apply Fl. lra.
    + apply (filterlim_ext_loc fr); [|exact Lr]. exists a. intros x Hx. symmetry. apply Fr. lra.
Qed.

(* ------------------------------------------------------------------------------------ *)
(* the integral over every interval, by induction over the gluing (Chasles)                *)
(* ------------------------------------------------------------------------------------ *)
Lemma filterlim_diff_pair (F : R -> R) (la lb : R) :
  filterlim F (Rbar_locally m_infty) (locally la) -> filterlim F (Rbar_locally p_infty) (locally lb) ->
  filterlim (fun ab : R * R => F (snd ab) - F (fst ab)) (filter_prod (Rbar_locally m_infty) (Rbar_locally p_infty))
            (locally (lb - la)).
Proof.
  intros A B. unfold Rminus. eapply filterlim_comp_2.
  - eapply filterlim_comp, B. apply filterlim_snd.
  - eapply filterlim_comp, @filterlim_opp. eapply filterlim_comp, A. apply filterlim_fst.
  - exact (filterlim_plus lb (- la)).
Qed.

Section Integral.
  Variables (P p : R -> R).
  Hypothesis P_deriv : forall z, is_derive P z (p z).
  Hypothesis p_cont : forall z, continuous p z.

  Lemma pd_int_le f g f' up : pdiffeo f g f' up -> forall u v, u <= v ->
    is_RInt (fun x => p (f x) * f' x) u v (P (f v) - P (f u)).
  Proof.
    induction 1 as [f g f' up D _ _|f g f' up fl gl fl' fr gr fr' a _ IHl _ IHr E Fl Fr Dl Dr _ _ _]; intros u v Huv.
    - apply (is_RInt_derive (fun x => P (f x)) (fun x => p (f x) * f' x) u v).
      + intros x _. apply (PS_deriv P p f f' P_deriv (df_deriv _ _ _ D)).
      + intros x _. apply (q_cont p f f' p_cont (df_deriv _ _ _ D) (df_cont _ _ _ D)).
    - assert (Left : forall u v, u <= v -> v <= a -> is_RInt (fun x => p (f x) * f' x) u v (P (f v) - P (f u))).
      { intros u0 v0 H0 Hv. rewrite (Fl u0), (Fl v0) by lra.
        apply (is_RInt_ext (fun x => p (fl x) * fl' x)); [|apply IHl, H0].
        intros x Hx. rewrite Rmin_left, Rmax_right in Hx by lra. rewrite Fl, Dl by lra. reflexivity. }
      assert (Right : forall u v, u <= v -> a <= u -> is_RInt (fun x => p (f x) * f' x) u v (P (f v) - P (f u))).
      { intros u0 v0 H0 Hu. rewrite (Fr u0), (Fr v0) by lra.
        apply (is_RInt_ext (fun x => p (fr x) * fr' x)); [|apply IHr, H0].
        intros x Hx. rewrite Rmin_left, Rmax_right in Hx by lra. rewrite Fr, Dr by lra. reflexivity. }
      destruct (Rle_dec v a) as [Hv|Hv]; [apply Left; lra|].
      destruct (Rle_dec a u) as [Hu|Hu]; [apply Right; lra|].
      assert (L1 : is_RInt (fun x => p (f x) * f' x) u a (P (f a) - P (f u))) by (apply Left; lra).
      assert (L2 : is_RInt (fun x => p (f x) * f' x) a v (P (f v) - P (f a))) by (apply Right; lra).
      pose proof (is_RInt_Chasles _ u a v _ _ L1 L2) as C.
      match type of C with is_RInt _ _ _ ?l => assert (Eq : l = P (f v) - P (f u)) by (unfold plus; simpl; ring) end.
      rewrite Eq in C. exact C.
  Qed.
  Lemma pd_int f g f' up : pdiffeo f g f' up -> forall u v,
    is_RInt (fun x => p (f x) * f' x) u v (P (f v) - P (f u)).
  Proof.
    intros H u v. destruct (Rle_dec u v) as [L|L]; [apply pd_int_le with (1 := H); exact L|].
    assert (L0 : is_RInt (fun x => p (f x) * f' x) v u (P (f u) - P (f v))) by (apply pd_int_le with (1 := H); lra).
    pose proof (is_RInt_swap _ _ _ _ L0) as C.
    match type of C with is_RInt _ _ _ ?l => assert (Eq : l = P (f v) - P (f u)) by (unfold opp; simpl; ring) end.
    rewrite Eq in C. exact C.
  Qed.

  Hypothesis P_minf : filterlim P (Rbar_locally m_infty) (locally 0).
  Hypothesis P_pinf : filterlim P (Rbar_locally p_infty) (locally 1).

  Lemma pd_int_line f g f' up : pdiffeo f g f' up ->
    is_RInt_gen (fun x => p (f x) * f' x) (Rbar_locally m_infty) (Rbar_locally p_infty) (if up then 1 else -1).
  Proof.
    intros H. destruct (pd_limits _ _ _ _ H) as [Lm Lp].
    apply (filterlimi_lim_ext (fun ab => P (f (snd ab)) - P (f (fst ab)))).
    - intros [u v]. apply pd_int with (1 := H).
    - destruct up.
      + replace 1 with (1 - 0) by ring. apply (filterlim_diff_pair (fun x => P (f x))).
        * eapply filterlim_comp; [exact Lm | exact P_minf].
        * eapply filterlim_comp; [exact Lp | exact P_pinf].
      + replace (-1) with (0 - 1) by ring. apply (filterlim_diff_pair (fun x => P (f x))).
        * eapply filterlim_comp; [exact Lm | exact P_pinf].
        * eapply filterlim_comp; [exact Lp | exact P_minf].
  Qed.

  (* THE piecewise theorem: the density of the push-forward through a piecewise-C1 bijection integrates to one *)
  Theorem pdiffeo_density_integrates f g f' up : pdiffeo f g f' up ->
    is_RInt_gen (fun x => p (f x) * Rabs (f' x)) (Rbar_locally m_infty) (Rbar_locally p_infty) 1.
  Proof.
    intros H. pose proof (pd_sign _ _ _ _ H) as Sg. pose proof (pd_int_line _ _ _ _ H) as I. destruct up.
    - apply (is_RInt_gen_ext (fun x => p (f x) * f' x)); [|exact I].
      apply filter_forall. intros [a b] x _. rewrite Rabs_right; [reflexivity | left; apply (Sg x)].
    - pose proof (is_RInt_gen_opp _ _ I) as C.
      match type of C with is_RInt_gen _ _ _ ?l => assert (Eq : l = 1) by (unfold opp; simpl; ring) end.
      rewrite Eq in C. revert C. apply is_RInt_gen_ext.
      apply filter_forall. intros [a b] x _. rewrite Rabs_left by apply (Sg x). unfold opp; simpl. ring.
  Qed.
End Integral.

(* ------------------------------------------------------------------------------------ *)
(* closure: pointwise-equal data, inverse, composition                                     *)
(* ------------------------------------------------------------------------------------ *)
Lemma pd_ext f g f' up f2 g2 f2' : pdiffeo f g f' up ->
  (forall x, f x = f2 x) -> (forall y, g y = g2 y) -> (forall x, f' x = f2' x) -> pdiffeo f2 g2 f2' up.
Proof.
  intros H Ef Eg Ed. destruct H as [f g f' up D I1 I2|f g f' up fl gl fl' fr gr fr' a Hl Hr E Fl Fr Dl Dr Sa I1 I2].
  - apply pd_smooth.
    + apply (diffeo_ext' f2 f'); [exact Ed|]. apply (diffeo_ext f); assumption.
    + intros x. rewrite <- Eg, <- Ef. apply I1.
    + intros y. rewrite <- Eg, <- Ef. apply I2.
  - apply (pd_glue f2 g2 f2' up fl gl fl' fr gr fr' a); auto.
    + intros x Hx. rewrite <- Ef. auto.
    + intros x Hx. rewrite <- Ef. auto.
    + intros x Hx. rewrite <- Ed. auto.
    + intros x Hx. rewrite <- Ed. auto.
    + rewrite <- Ed. exact Sa.
    + intros x. rewrite <- Eg, <- Ef. apply I1.
    + intros y. rewrite <- Eg, <- Ef. apply I2.
Qed.

Lemma sgn_ok_inv up d : sgn_ok up d -> sgn_ok up (/ d).
Proof. destruct up; cbn; intros H; [apply Rinv_0_lt_compat, H | apply Rinv_lt_0_compat, H]. Qed.

(* the inverse of a piecewise-C1 bijection is piecewise C1 (break points = images of the break points) *)
Theorem pd_inverse f g f' up : pdiffeo f g f' up -> pdiffeo g f (fun y => / f' (g y)) up.
Proof.
  induction 1 as [f g f' up D I1 I2|f g f' up fl gl fl' fr gr fr' a Hl IHl Hr IHr E Fl Fr Dl Dr Sa I1 I2].
  - apply pd_smooth; [apply (diffeo_inverse f f' g up D I1 I2) | exact I2 | exact I1].
  - destruct (pd_inv _ _ _ _ Hl) as [Il1 Il2]. destruct (pd_inv _ _ _ _ Hr) as [Ir1 Ir2].
    pose proof (pd_mono _ _ _ _ Hl) as Ml. pose proof (pd_mono _ _ _ _ Hr) as Mr.
    pose proof (pd_mono _ _ _ _ IHl) as Mgl. pose proof (pd_mono _ _ _ _ IHr) as Mgr.
    set (b := fl a). assert (Hga : gl b = a) by apply Il1. assert (Hgb : gr b = a) by (unfold b; rewrite E; apply Ir1).
    (* where g lands decides which part inverts *)
    assert (GL : forall y, g y <= a -> g y = gl y).
    { intros y Hy. rewrite <- (I2 y) at 2. rewrite Fl by exact Hy. symmetry. apply Il1. }
    assert (GR : forall y, a <= g y -> g y = gr y).
    { intros y Hy. rewrite <- (I2 y) at 2. rewrite Fr by exact Hy. symmetry. apply Ir1. }
    destruct up.
    + assert (Lo : forall y, y <= b -> g y <= a).
      { intros y Hy. destruct (Rle_dec (g y) a) as [K|K]; [exact K|exfalso].
        assert (Q : fr a < fr (g y)) by (apply (Mr a (g y)); lra). rewrite <- (Fr (g y)), I2 in Q by lra. unfold b in Hy. lra. }
      assert (Hi : forall y, b <= y -> a <= g y).
      { intros y Hy. destruct (Rle_dec a (g y)) as [K|K]; [exact K|exfalso].
        assert (Q : fl (g y) < fl a) by (apply (Ml (g y) a); lra). rewrite <- (Fl (g y)), I2 in Q by lra. unfold b in Hy. lra. }
      apply (pd_glue g f _ true gl fl (fun y => / fl' (gl y)) gr fr (fun y => / fr' (gr y)) b);
        [exact IHl | exact IHr | | | | | | | exact I2 | exact I1].
      * lra.
      * intros y Hy. apply GL, Lo, Hy.
      * intros y Hy. apply GR, Hi, Hy.
      * intros y Hy. assert (gl y < a) by (rewrite <- Hga; apply (Mgl y b Hy)).
        rewrite (GL y) by (apply Lo; lra). rewrite Dl by assumption. reflexivity.
      * intros y Hy. assert (a < gr y) by (rewrite <- Hgb; apply (Mgr b y Hy)).
        rewrite (GR y) by (apply Hi; lra). rewrite Dr by assumption. reflexivity.
      * apply (sgn_ok_inv true). rewrite (GL b) by (apply Lo; lra). rewrite Hga. exact Sa.
    + assert (Hi : forall y, b <= y -> g y <= a).
      { intros y Hy. destruct (Rle_dec (g y) a) as [K|K]; [exact K|exfalso].
        assert (Q : fr (g y) < fr a) by (apply (Mr a (g y)); lra). rewrite <- (Fr (g y)), I2 in Q by lra. unfold b in Hy. lra. }
      assert (Lo : forall y, y <= b -> a <= g y).
      { intros y Hy. destruct (Rle_dec a (g y)) as [K|K]; [exact K|exfalso].
        assert (Q : fl a < fl (g y)) by (apply (Ml (g y) a); lra). rewrite <- (Fl (g y)), I2 in Q by lra. unfold b in Hy. lra. }
      apply (pd_glue g f _ false gr fr (fun y => / fr' (gr y)) gl fl (fun y => / fl' (gl y)) b);
        [exact IHr | exact IHl | | | | | | | exact I2 | exact I1].
      * lra.
      * intros y Hy. apply GR, Lo, Hy.
      * intros y Hy. apply GL, Hi, Hy.
      * intros y Hy. assert (a < gr y) by (rewrite <- Hgb; apply (Mgr y b Hy)).
        rewrite (GR y) by (apply Lo; lra). rewrite Dr by assumption. reflexivity.
      * intros y Hy. assert (gl y < a) by (rewrite <- Hga; apply (Mgl b y Hy)).
        rewrite (GL y) by (apply Hi; lra). rewrite Dl by assumption. reflexivity.
      * apply (sgn_ok_inv false). rewrite (GL b) by (apply Hi; lra). rewrite Hga. exact Sa.
Qed.

Lemma sgn_ok_mult u v a b : sgn_ok u a -> sgn_ok v b -> sgn_ok (Bool.eqb u v) (b * a).
Proof. destruct u, v; cbn; intros; nra. Qed.

(* composition with a smooth outer map *)
Lemma pd_comp_smooth f gf f' u h gh h' v : pdiffeo f gf f' u -> diffeo h h' v ->
  (forall x, gh (h x) = x) -> (forall y, h (gh y) = y) ->
  pdiffeo (fun x => h (f x)) (fun z => gf (gh z)) (fun x => h' (f x) * f' x) (Bool.eqb u v).
Proof.
  intros Hf Dh J1 J2.
  induction Hf as [f g f' up D I1 I2|f g f' up fl gl fl' fr gr fr' a Hl IHl Hr IHr E Fl Fr Dl Dr Sa I1 I2].
  - apply pd_smooth; [apply (diffeo_comp f f' h h' up v D Dh) | intros x; now rewrite J1, I1 | intros y; now rewrite I2, J2].
  - apply (pd_glue _ _ _ _ (fun x => h (fl x)) (fun z => gl (gh z)) (fun x => h' (fl x) * fl' x)
                           (fun x => h (fr x)) (fun z => gr (gh z)) (fun x => h' (fr x) * fr' x) a);
      [exact IHl | exact IHr | | | | | | | | ].
    + now rewrite E.
    + intros x Hx. now rewrite Fl.
    + intros x Hx. now rewrite Fr.
    + intros x Hx. now rewrite Fl, Dl by lra.
    + intros x Hx. now rewrite Fr, Dr by lra.
    + apply sgn_ok_mult; [exact Sa | apply (df_sign _ _ _ Dh)].
    + intros x. now rewrite J1, I1.
    + intros y. now rewrite I2, J2.
Qed.

(* composition of two members of the class: break points = those of the inner map and the pre-images of those
   of the outer map *)
Theorem pd_comp f gf f' u h gh h' v : pdiffeo f gf f' u -> pdiffeo h gh h' v ->
  pdiffeo (fun x => h (f x)) (fun z => gf (gh z)) (fun x => h' (f x) * f' x) (Bool.eqb u v).
Proof.
  intros Hf Hh. destruct (pd_inv _ _ _ _ Hf) as [I1 I2]. pose proof (pd_mono _ _ _ _ Hf) as Mf.
  pose proof (mono_le _ _ Mf) as MfL.
  induction Hh as [h gh h' v D J1 J2|h gh h' v hl ghl hl' hr ghr hr' c Hl IHl Hr IHr E Hlc Hrc Dl Dr Sc J1 J2].
  - apply pd_comp_smooth; assumption.
  - set (a := gf c). assert (Ha : f a = c) by apply I2.
    assert (SA : sgn_ok (Bool.eqb u v) (h' (f a) * f' a)).
    { apply sgn_ok_mult; [apply (pd_sign _ _ _ _ Hf) | rewrite Ha; exact Sc]. }
    destruct u.
    + (* f increasing: x <= a <-> f x <= c *)
      apply (pd_glue _ _ _ _ (fun x => hl (f x)) (fun z => gf (ghl z)) (fun x => hl' (f x) * f' x)
                             (fun x => hr (f x)) (fun z => gf (ghr z)) (fun x => hr' (f x) * f' x) a);
        [exact IHl | exact IHr | | | | | | exact SA | | ].
      * now rewrite Ha.
      * intros x Hx. apply Hlc. rewrite <- Ha. apply (MfL x a Hx).
      * intros x Hx. apply Hrc. rewrite <- Ha. apply (MfL a x Hx).
      * intros x Hx. rewrite Dl; [reflexivity|]. rewrite <- Ha. apply (Mf x a Hx).
      * intros x Hx. rewrite Dr; [reflexivity|]. rewrite <- Ha. apply (Mf a x Hx).
      * intros x. now rewrite J1, I1.
      * intros y. now rewrite I2, J2.
    + (* f decreasing: x <= a <-> c <= f x, so the outer parts swap *)
      apply (pd_glue _ _ _ _ (fun x => hr (f x)) (fun z => gf (ghr z)) (fun x => hr' (f x) * f' x)
                             (fun x => hl (f x)) (fun z => gf (ghl z)) (fun x => hl' (f x) * f' x) a);
        [exact IHr | exact IHl | | | | | | exact SA | | ].
      * now rewrite Ha.
      * intros x Hx. apply Hrc. rewrite <- Ha. apply (MfL x a Hx).
      * intros x Hx. apply Hlc. rewrite <- Ha. apply (MfL a x Hx).
      * intros x Hx. rewrite Dr; [reflexivity|]. rewrite <- Ha. apply (Mf x a Hx).
      * intros x Hx. rewrite Dl; [reflexivity|]. rewrite <- Ha. apply (Mf a x Hx).
      * intros x. now rewrite J1, I1.
      * intros y. now rewrite I2, J2.
Qed.

(* ------------------------------------------------------------------------------------ *)
(* a C1 piece with positive derivative on [a, b], continued linearly, is a global diffeo   *)
(* ------------------------------------------------------------------------------------ *)
Lemma locally_intro (x e : R) (Q : R -> Prop) : 0 < e -> (forall y, x - e < y < x + e -> Q y) -> locally x Q.
Proof.
  intros He H. exists (mkposreal e He). intros y Hy. apply H.
  change (Rabs (y - x) < e) in Hy. apply Rabs_def2 in Hy. lra.
Qed.

Lemma continuous_glue (h h1 h2 : R -> R) (a e : R) : 0 < e ->
  (forall x, a - e < x <= a -> h x = h1 x) -> (forall x, a <= x < a + e -> h x = h2 x) ->
  continuous h1 a -> continuous h2 a -> continuous h a.
Proof.
  intros He H1 H2 C1 C2. apply continuity_pt_filterlim. apply continuity_pt_filterlim in C1. apply continuity_pt_filterlim in C2.
  intros eps Heps. destruct (C1 eps Heps) as [d1 [Hd1 K1]]. destruct (C2 eps Heps) as [d2 [Hd2 K2]].
  exists (Rmin e (Rmin d1 d2)). split; [repeat apply Rmin_case; lra|].
  intros t [[_ Hne] Ht]. unfold Rlimit.dist in *; simpl in *. unfold R_dist in *.
  pose proof (Rmin_l e (Rmin d1 d2)). pose proof (Rmin_r e (Rmin d1 d2)). pose proof (Rmin_l d1 d2). pose proof (Rmin_r d1 d2).
  assert (Hta : - Rmin e (Rmin d1 d2) < t - a < Rmin e (Rmin d1 d2)) by (apply Rabs_def2 in Ht; lra).
  destruct (Rlt_le_dec t a) as [L|L].
  - rewrite (H1 t), (H1 a) by lra. apply K1. split; [split; [exact I | exact Hne]|]. apply Rabs_def1; lra.
  - rewrite (H2 t), (H2 a) by lra. apply K2. split; [split; [exact I | exact Hne]|]. apply Rabs_def1; lra.
Qed.

Section Ext.
  Variables (g g' s : R -> R) (a b : R).
  Hypothesis ab : a < b.
  Hypothesis Dg : forall x, a <= x <= b -> is_derive g x (g' x).
  Hypothesis Cg : forall x, a <= x <= b -> continuous g' x.
  Hypothesis Pg : forall x, a <= x <= b -> 0 < g' x.
  Hypothesis Sg : forall x, a <= x <= b -> s (g x) = x.

  Definition E (x : R) : R :=
    if Rlt_dec x a then g a + g' a * (x - a) else if Rlt_dec b x then g b + g' b * (x - b) else g x.
  Definition E' (x : R) : R := if Rlt_dec x a then g' a else if Rlt_dec b x then g' b else g' x.
  Definition Einv (y : R) : R :=
    if Rlt_dec y (g a) then a + (y - g a) / g' a else if Rlt_dec (g b) y then b + (y - g b) / g' b else s y.

  Lemma E_lo x : x <= a -> E x = g a + g' a * (x - a).
  Proof. intros H. unfold E. destruct (Rlt_dec x a); [reflexivity|]. destruct (Rlt_dec b x); [lra|]. replace x with a by lra. ring. Qed.
  Lemma E_hi x : b <= x -> E x = g b + g' b * (x - b).
  Proof. intros H. unfold E. destruct (Rlt_dec x a); [lra|]. destruct (Rlt_dec b x); [reflexivity|]. replace x with b by lra. ring. Qed.
  Lemma E_mid x : a <= x <= b -> E x = g x.
  Proof. intros H. unfold E. destruct (Rlt_dec x a); [lra|]. destruct (Rlt_dec b x); [lra|]. reflexivity. Qed.
  Lemma E'_lo x : x <= a -> E' x = g' a.
  Proof. intros H. unfold E'. destruct (Rlt_dec x a); [reflexivity|]. destruct (Rlt_dec b x); [lra|]. f_equal. lra. Qed.
  Lemma E'_hi x : b <= x -> E' x = g' b.
  Proof. intros H. unfold E'. destruct (Rlt_dec x a); [lra|]. destruct (Rlt_dec b x); [reflexivity|]. f_equal. lra. Qed.
  Lemma E'_mid x : a <= x <= b -> E' x = g' x.
  Proof. intros H. unfold E'. destruct (Rlt_dec x a); [lra|]. destruct (Rlt_dec b x); [lra|]. reflexivity. Qed.

  Lemma lin_derive (c k x0 x : R) : is_derive (fun t => c + k * (t - x0)) x k.
  Proof. auto_derive; [exact I | ring]. Qed.

  Lemma E_deriv x : is_derive E x (E' x).
  Proof.
    destruct (Rtotal_order x a) as [H|[->|H]].
    - rewrite E'_lo by lra. apply (is_derive_loc E (fun t => g a + g' a * (t - a)) x (g' a) (a - x)); [lra| |apply lin_derive].
      intros y Hy. apply E_lo. lra.
    - rewrite E'_lo by lra.
      apply (is_derive_glue_loc E (fun t => g a + g' a * (t - a)) g a (g' a) (b - a)); [lra| | |apply lin_derive|apply Dg; lra].
      + intros y Hy. apply E_lo. lra.
      + intros y Hy. apply E_mid. lra.
    - destruct (Rtotal_order x b) as [K|[->|K]].
      + rewrite E'_mid by lra. apply (is_derive_loc E g x (g' x) (Rmin (x - a) (b - x))); [apply Rmin_case; lra| |apply Dg; lra].
        intros y Hy. pose proof (Rmin_l (x - a) (b - x)). pose proof (Rmin_r (x - a) (b - x)). apply E_mid. lra.
      + rewrite E'_hi by lra.
        apply (is_derive_glue_loc E g (fun t => g b + g' b * (t - b)) b (g' b) (b - a)); [lra| | |apply Dg; lra|apply lin_derive].
        * intros y Hy. apply E_mid. lra.
        * intros y Hy. apply E_hi. lra.
      + rewrite E'_hi by lra. apply (is_derive_loc E (fun t => g b + g' b * (t - b)) x (g' b) (x - b)); [lra| |apply lin_derive].
        intros y Hy. apply E_hi. lra.
  Qed.

  Lemma E'_cont x : continuous E' x.
  Proof.
    destruct (Rtotal_order x a) as [H|[->|H]].
    - apply (continuous_ext_loc E' (fun _ : R => g' a) x); [|apply continuous_const].
      apply (locally_intro x (a - x)); [lra|]. intros y Hy. symmetry. apply E'_lo. lra.
    - apply (continuous_glue E' (fun _ => g' a) g' a (b - a)); [lra| | |apply continuous_const|apply Cg; lra].
      + intros y Hy. apply E'_lo. lra.
      + intros y Hy. apply E'_mid. lra.
    - destruct (Rtotal_order x b) as [K|[->|K]].
      + apply (continuous_ext_loc E' g' x); [|apply Cg; lra].
        apply (locally_intro x (Rmin (x - a) (b - x))); [apply Rmin_case; lra|].
        intros y Hy. pose proof (Rmin_l (x - a) (b - x)). pose proof (Rmin_r (x - a) (b - x)). symmetry. apply E'_mid. lra.
      + apply (continuous_glue E' g' (fun _ => g' b) b (b - a)); [lra| | |apply Cg; lra|apply continuous_const].
        * intros y Hy. apply E'_mid. lra.
        * intros y Hy. apply E'_hi. lra.
      + apply (continuous_ext_loc E' (fun _ : R => g' b) x); [|apply continuous_const].
        apply (locally_intro x (x - b)); [lra|]. intros y Hy. symmetry. apply E'_hi. lra.
  Qed.

  Lemma E'_pos x : 0 < E' x.
  Proof. unfold E'. destruct (Rlt_dec x a); [apply Pg; lra|]. destruct (Rlt_dec b x); apply Pg; lra. Qed.

  Lemma E_diffeo : diffeo E E' true.
  Proof.
    pose proof (Pg a ltac:(lra)) as Ka. pose proof (Pg b ltac:(lra)) as Kb.
    split; [apply E_deriv | apply E'_cont | apply E'_pos | |].
    - apply lim_mm_intro. intros M. exists (Rmin a (a + (M - g a) / g' a)). intros x Hx.
      pose proof (Rmin_l a (a + (M - g a) / g' a)). pose proof (Rmin_r a (a + (M - g a) / g' a)).
      rewrite E_lo by lra. assert (Q : g' a * ((M - g a) / g' a) = M - g a) by (field; lra).
      assert (g' a * (x - a) < g' a * ((M - g a) / g' a)) by (apply Rmult_lt_compat_l; lra). lra.
    - apply lim_pp_intro. intros M. exists (Rmax b (b + (M - g b) / g' b)). intros x Hx.
      pose proof (Rmax_l b (b + (M - g b) / g' b)). pose proof (Rmax_r b (b + (M - g b) / g' b)).
      rewrite E_hi by lra. assert (Q : g' b * ((M - g b) / g' b) = M - g b) by (field; lra).
      assert (g' b * ((M - g b) / g' b) < g' b * (x - b)) by (apply Rmult_lt_compat_l; lra). lra.
  Qed.

  Lemma E_range x : a <= x <= b -> g a <= g x <= g b.
  Proof.
    intros H. pose proof (diffeo_mono _ _ _ E_diffeo) as M. cbn in M.
    rewrite <- (E_mid a), <- (E_mid x), <- (E_mid b) by lra.
    split; [destruct (proj1 H) as [L| <-]; [left; apply M, L | lra] | destruct (proj2 H) as [L| ->]; [left; apply M, L | lra]].
  Qed.

  Lemma Einv_E x : Einv (E x) = x.
  Proof.
    pose proof (Pg a ltac:(lra)) as Ka. pose proof (Pg b ltac:(lra)) as Kb.
    pose proof (E_range a ltac:(lra)) as Ra. pose proof (E_range b ltac:(lra)) as Rb.
    unfold Einv. destruct (Rlt_dec x a) as [H|H].
    - rewrite E_lo by lra. assert (g' a * (x - a) < 0) by nra.
      destruct (Rlt_dec (g a + g' a * (x - a)) (g a)); [field; lra | lra].
    - destruct (Rlt_dec b x) as [K|K].
      + rewrite E_hi by lra. assert (0 < g' b * (x - b)) by nra.
        destruct (Rlt_dec (g b + g' b * (x - b)) (g a)); [lra|].
        destruct (Rlt_dec (g b) (g b + g' b * (x - b))); [field; lra | lra].
      + rewrite E_mid by lra. pose proof (E_range x ltac:(lra)).
        destruct (Rlt_dec (g x) (g a)); [lra|]. destruct (Rlt_dec (g b) (g x)); [lra|]. apply Sg. lra.
  Qed.

  Lemma E_Einv y : E (Einv y) = y.
  Proof.
    pose proof (Pg a ltac:(lra)) as Ka. pose proof (Pg b ltac:(lra)) as Kb.
    unfold Einv. destruct (Rlt_dec y (g a)) as [H|H].
    - assert ((y - g a) / g' a < 0).
      { unfold Rdiv. replace 0 with (0 * / g' a) by ring. apply Rmult_lt_compat_r; [apply Rinv_0_lt_compat, Ka | lra]. }
      rewrite E_lo by lra. field. lra.
    - destruct (Rlt_dec (g b) y) as [K|K].
      + assert (0 < (y - g b) / g' b) by (apply Rdiv_lt_0_compat; lra).
        rewrite E_hi by lra. field. lra.
      + (* intermediate value: y is the image of a point of [a, b] *)
        assert (Cont : continuity E).
        { intros t. apply continuity_pt_filterlim. apply (ex_derive_continuous E). eexists. apply E_deriv. }
        pose proof (E_range b ltac:(lra)) as Rb.
        destruct (IVT_gen E a b y Cont) as [x [Hx Ex]].
        { rewrite (E_mid a), (E_mid b) by lra. rewrite Rmin_left, Rmax_right by lra. lra. }
        rewrite Rmin_left, Rmax_right in Hx by lra.
        rewrite E_mid in Ex by lra. rewrite <- Ex at 1. rewrite Sg by lra. rewrite E_mid by lra. exact Ex.
  Qed.

  Theorem ext_pdiffeo : pdiffeo E Einv E' true.
  Proof. apply pd_smooth; [apply E_diffeo | apply Einv_E | apply E_Einv]. Qed.
End Ext.

(* ------------------------------------------------------------------------------------ *)
(* the rational-quadratic spline                                                          *)
(* ------------------------------------------------------------------------------------ *)
(* eq. 5 (the bin derivative) is continuous on the closed bin *)
Lemma bderiv_continuous xk w Dy dk dk1 x : 0 < w -> 0 < Dy -> 0 < dk -> 0 < dk1 -> xk <= x <= xk + w ->
  continuous (bderiv xk w Dy dk dk1) x.
Proof.
  intros Hw HDy Hdk Hdk1 Hx.
  pose proof (bden_pos w Dy dk dk1 Hw HDy Hdk Hdk1 _ (bxi_range xk w Hw x Hx)) as Hd.
  apply (ex_derive_continuous (bderiv xk w Dy dk dk1)).
  unfold bderiv, bden, bxi in *. cbv zeta in *. auto_derive.
  repeat split; try (apply Rgt_not_eq; lra);
    try (apply Rmult_integral_contrapositive_currified); apply Rgt_not_eq; unfold Rminus, Rdiv in *; exact Hd.
Qed.

(* gluing two increasing members at a point where they agree, with the explicit inverse *)
Lemma pd_glue_up fl gl fl' fr gr fr' a d :
  pdiffeo fl gl fl' true -> pdiffeo fr gr fr' true -> fl a = fr a -> 0 < d ->
  pdiffeo (fun x => if Rle_dec x a then fl x else fr x)
          (fun y => if Rle_dec y (fl a) then gl y else gr y)
          (fun x => if Rlt_dec x a then fl' x else if Rlt_dec a x then fr' x else d) true.
Proof.
  intros Hl Hr E Hd.
  destruct (pd_inv _ _ _ _ Hl) as [Il1 Il2]. destruct (pd_inv _ _ _ _ Hr) as [Ir1 Ir2].
  pose proof (pd_mono _ _ _ _ Hl) as Ml. pose proof (pd_mono _ _ _ _ Hr) as Mr.
  pose proof (mono_le _ _ Ml) as MlL. pose proof (mono_le _ _ Mr) as MrL.
  pose proof (mono_inverse _ _ _ Ml Il2) as Mgl. pose proof (mono_inverse _ _ _ Mr Ir2) as Mgr.
  pose proof (mono_le _ _ Mgl) as MglL. cbn in *.
  apply (pd_glue _ _ _ true fl gl fl' fr gr fr' a); [exact Hl | exact Hr | exact E | | | | | | |].
  - intros x Hx. destruct (Rle_dec x a); [reflexivity | lra].
  - intros x Hx. destruct (Rle_dec x a) as [K|K]; [|reflexivity]. replace x with a by lra. exact E.
  - intros x Hx. destruct (Rlt_dec x a); [reflexivity | lra].
  - intros x Hx. destruct (Rlt_dec x a); [lra|]. destruct (Rlt_dec a x); [reflexivity | lra].
  - cbn. destruct (Rlt_dec a a); [lra|]. exact Hd.
  - intros x. destruct (Rle_dec x a) as [K|K].
    + pose proof (MlL x a K). destruct (Rle_dec (fl x) (fl a)); [apply Il1 | lra].
    + assert (fr a < fr x) by (apply Mr; lra). destruct (Rle_dec (fr x) (fl a)); [lra | apply Ir1].
  - intros y. destruct (Rle_dec y (fl a)) as [K|K].
    + pose proof (MglL y (fl a) K) as Q. rewrite Il1 in Q. destruct (Rle_dec (gl y) a); [apply Il2 | lra].
    + assert (Q : gr (fr a) < gr y) by (apply Mgr; lra). rewrite Ir1 in Q. destruct (Rle_dec (gr y) a); [lra | apply Ir2].
Qed.

Lemma valid_D2I xp yp dv lo hi : rqs_valid xp yp dv lo hi -> RqsInvP.rqs_valid xp yp dv lo hi.
Proof. intros [? ? ? ? ? ? ? ? ? ?]. constructor; assumption. Qed.
Lemma valid_I2D xp yp dv lo hi : RqsInvP.rqs_valid xp yp dv lo hi -> rqs_valid xp yp dv lo hi.
Proof. intros [? ? ? ? ? ? ? ? ? ?]. constructor; assumption. Qed.

Section Spline.
  Variables (xp yp dv : list R) (lo hi : R).
  Hypothesis V : rqs_valid xp yp dv lo hi.
  Let n := Z.of_nat (length xp).
  Let f := rqs_fwd ROps xp yp dv lo hi.
  Let f' := rqs_deriv ROps xp yp dv lo hi.
  Let fi := rqs_inv ROps xp yp dv lo hi.
  Local Notation Xk := (X xp). Local Notation Yk := (Y yp).
  Local Notation Bk := (B xp yp dv). Local Notation Dk := (D xp yp dv).

  Lemma fi_f x : fi (f x) = x. Proof. apply RqsInvP.rqs_inv_fwd, valid_D2I, V. Qed.
  Lemma f_fi y : f (fi y) = y. Proof. apply RqsInvP.rqs_fwd_inv, valid_D2I, V. Qed.

  (* bin k, continued linearly beyond its two knots: a global C1 diffeo *)
  Lemma bin_pd k : (0 <= k <= n - 2)%Z ->
    pdiffeo (E (Bk k) (Dk k) (Xk k) (Xk (k+1))) (Einv (Bk k) (Dk k) fi (Xk k) (Xk (k+1)))
            (E' (Dk k) (Xk k) (Xk (k+1))) true.
  Proof.
    intros Hk. destruct (bin_facts xp yp dv lo hi V k Hk) as (Hw & Hy & Hd0 & Hd1 & _).
    apply ext_pdiffeo.
    - lra.
    - intros x Hx. apply (B_derive xp yp dv lo hi V); assumption.
    - intros x Hx. apply bderiv_continuous; try assumption. lra.
    - intros x Hx. apply (D_pos xp yp dv lo hi V); assumption.
    - intros x Hx. rewrite <- (rqs_fwd_bin_closed xp yp dv lo hi V k x Hk Hx). apply fi_f.
  Qed.

  (* the spline from knot k on, as a member of the class *)
  Definition tail_ok (k : Z) : Prop :=
    exists F Fi F', pdiffeo F Fi F' true /\ (forall x, Xk k <= x -> F x = f x) /\ (forall x, Xk k < x -> F' x = f' x).

  Lemma tail_all : forall (m : nat) (k : Z), (0 <= k)%Z -> Z.of_nat m = (n - 1 - k)%Z -> tail_ok k.
  Proof.
    pose proof (n_ge2 xp yp dv lo hi V) as Hn. fold n in Hn.
    induction m as [|m IH]; intros k Hk Hm.
    - (* k = n - 1: the identity tail *)
      replace k with (n - 1)%Z by lia.
      exists (fun x => x), (fun y => y), (fun _ => 1). split; [|split].
      + apply pd_smooth; [exact diffeo_id | reflexivity | reflexivity].
      + intros x Hx. unfold n in Hx. rewrite (Xn xp yp dv lo hi V) in Hx. destruct Hx as [Hx| <-].
        * symmetry. apply rqs_fwd_out. right; exact Hx.
        * pose proof (rqs_fwd_at_knot xp yp dv lo hi V (n - 1)%Z ltac:(lia)) as Q. unfold n in Q.
          rewrite (Xn xp yp dv lo hi V), (Yn xp yp dv lo hi V) in Q. symmetry. exact Q.
      + intros x Hx. unfold n in Hx. rewrite (Xn xp yp dv lo hi V) in Hx. symmetry. apply rqs_deriv_out. right; exact Hx.
    - assert (Hk2 : (0 <= k <= n - 2)%Z) by lia.
      destruct (IH (k + 1)%Z ltac:(lia) ltac:(lia)) as (F1 & F1i & F1' & P1 & V1 & D1).
      destruct (bin_facts xp yp dv lo hi V k Hk2) as (Hw & _).
      pose proof (bin_pd k Hk2) as Pk.
      set (G := E (Bk k) (Dk k) (Xk k) (Xk (k+1))) in *. set (Gi := Einv (Bk k) (Dk k) fi (Xk k) (Xk (k+1))) in *.
      set (G' := E' (Dk k) (Xk k) (Xk (k+1))) in *.
      assert (Gmid : forall x, Xk k <= x <= Xk (k+1) -> G x = f x).
      { intros x Hx. unfold G. rewrite E_mid by exact Hx. symmetry. apply (rqs_fwd_bin_closed xp yp dv lo hi V); assumption. }
      assert (Eq : G (Xk (k+1)) = F1 (Xk (k+1))) by (rewrite Gmid by lra; rewrite V1 by lra; reflexivity).
      pose proof (pd_glue_up G Gi G' F1 F1i F1' (Xk (k+1)) (f' (Xk (k+1))) Pk P1 Eq (rqs_deriv_pos xp yp dv lo hi V _)) as PG.
      eexists _, _, _. split; [exact PG|]. split.
      + intros x Hx. cbv beta. destruct (Rle_dec x (Xk (k+1))); [apply Gmid; lra | apply V1; lra].
      + intros x Hx. cbv beta. destruct (Rlt_dec x (Xk (k+1))) as [K|K].
        * unfold G'. rewrite E'_mid by lra. symmetry. apply (rqs_deriv_bin xp yp dv lo hi V); [exact Hk2 | lra].
        * destruct (Rlt_dec (Xk (k+1)) x) as [K2|K2]; [apply D1, K2 | f_equal; lra].
  Qed.

  (* THE spline: a piecewise-C1 increasing bijection of R onto R; break points = its knots (kinks only at the two
     interval ends); the piecewise derivative is what derivative() reports, rqs_deriv *)
  Theorem rqs_pdiffeo : pdiffeo f fi f' true.
  Proof.
    pose proof (n_ge2 xp yp dv lo hi V) as Hn. fold n in Hn.
    destruct (tail_all (Z.to_nat (n - 1)) 0%Z ltac:(lia) ltac:(lia)) as (F0 & F0i & F0' & P0 & V0 & D0).
    pose proof (X0 xp yp dv lo hi V) as HX0.
    assert (Hlo : f lo = lo).
    { pose proof (rqs_fwd_at_knot xp yp dv lo hi V 0%Z ltac:(lia)) as Q. rewrite HX0, (Y0 xp yp dv lo hi V) in Q. exact Q. }
    assert (Pid : pdiffeo (fun x : R => x) (fun y : R => y) (fun _ => 1) true)
      by (apply pd_smooth; [exact diffeo_id | reflexivity | reflexivity]).
    assert (Eq : (fun x : R => x) lo = F0 lo) by (cbv beta; rewrite V0 by (rewrite HX0; lra); symmetry; exact Hlo).
    pose proof (pd_glue_up _ _ _ F0 F0i F0' lo (f' lo) Pid P0 Eq (rqs_deriv_pos xp yp dv lo hi V _)) as PG.
    assert (EF : forall x, (if Rle_dec x lo then x else F0 x) = f x).
    { intros x. destruct (Rle_dec x lo) as [[K| ->]|K].
      - symmetry. apply rqs_fwd_out. left; exact K.
      - symmetry; exact Hlo.
      - apply V0. rewrite HX0. lra. }
    eapply pd_ext; [exact PG | exact EF | |].
    - intros y. destruct (pd_inv _ _ _ _ PG) as [_ I2]. specialize (I2 y). cbv beta in I2.
      set (z := if Rle_dec y lo then y else F0i y) in *. rewrite (EF z) in I2.
      rewrite <- (fi_f z). rewrite I2. reflexivity.
    - intros x. cbv beta. destruct (Rlt_dec x lo) as [K|K].
      + symmetry. apply rqs_deriv_out. left; exact K.
      + destruct (Rlt_dec lo x) as [K2|K2]; [apply D0; rewrite HX0; exact K2 | f_equal; lra].
  Qed.
End Spline.

(* ------------------------------------------------------------------------------------ *)
(* layers and 1-D expressions INCLUDING the spline                                        *)
(* ------------------------------------------------------------------------------------ *)
Definition psflow (l : layer R) : Prop :=
  layer_ok l /\ (forall x, l_dom l x) /\ (forall y, l_cod l y) /\
  exists f' up, pdiffeo (l_fwd l) (l_inv l) f' up /\ forall x, l_ldf l x = ln (Rabs (f' x)).

Lemma sflow_psflow l : sflow l -> psflow l.
Proof.
  intros (Hok & Hd & Hc & f' & up & D & HL). split; [exact Hok|]. split; [exact Hd|]. split; [exact Hc|].
  exists f', up. split; [|exact HL]. destruct Hok as [L1 L2].
  apply pd_smooth; [exact D | intros x; apply L1, Hd | intros y; apply L2, Hc].
Qed.

Lemma psflow_invert l : psflow l -> psflow (invert_layer l).
Proof.
  intros (Hok & Hd & Hc & f' & up & D & Hl). pose proof Hok as [L1 L2].
  split; [apply invert_layer_ok, Hok|]. split; [exact Hc|]. split; [exact Hd|].
  exists (fun y => / f' (l_inv l y)), up. cbn [invert_layer l_fwd l_inv l_ldf]. split; [apply pd_inverse, D|].
  intros y. destruct (L2 y (Hc y)) as (_ & _ & E). rewrite E, Hl.
  pose proof (pd_nonzero _ _ _ _ D (l_inv l y)) as NZ.
  rewrite Rabs_Rinv by exact NZ. rewrite ln_Rinv by (apply Rabs_pos_lt, NZ). reflexivity.
Qed.

Lemma psflow_chain ls : List.Forall psflow ls -> psflow (chain_layer ls).
Proof.
  intros H.
  assert (Hok : List.Forall layer_ok ls) by (eapply Forall_impl; [|exact H]; intros l Hl; apply Hl).
  assert (Hdom : forall x, comp_dom ls x).
  { clear Hok. induction H as [|l t Hl _ IH]; intros x; cbn [comp_dom]; [exact I|]. split; [apply Hl | apply IH]. }
  assert (Hcod : forall rls, List.Forall psflow rls -> forall y, rcomp_cod rls y).
  { induction 1 as [|l t Hl _ IH]; intros y; cbn [rcomp_cod]; [exact I|]. split; [apply Hl | apply IH]. }
  split; [apply chain_layer_ok, Hok|]. split; [exact Hdom|]. split; [apply Hcod, Forall_rev, H|].
  cbn [chain_layer l_fwd l_inv l_ldf].
  assert (G : exists f' up, pdiffeo (comp_fwd ls) (rcomp_inv (rev ls)) f' up /\ forall x, comp_ldf ls x = ln (Rabs (f' x))).
  { clear Hok Hdom Hcod. induction H as [|l t Hl _ (g' & v & Dg & Lg)].
    - exists (fun _ => 1), true. split; [apply pd_smooth; [exact diffeo_id | reflexivity | reflexivity]|].
      intros x. cbn [comp_ldf]. now rewrite Rabs_R1, ln_1.
    - destruct Hl as (_ & _ & _ & f' & u & Df & Lf).
      exists (fun x => g' (l_fwd l x) * f' x), (Bool.eqb u v). split.
      + eapply pd_ext; [apply (pd_comp _ _ _ _ _ _ _ _ Df Dg) | reflexivity | | reflexivity].
        intros z. cbn [rev]. rewrite rcomp_inv_app. reflexivity.
      + intros x. cbn [comp_ldf]. rewrite Lf, Lg, Rabs_mult.
        pose proof (pd_nonzero _ _ _ _ Df x). pose proof (pd_nonzero _ _ _ _ Dg (l_fwd l x)).
        rewrite ln_mult by (apply Rabs_pos_lt; assumption). ring. }
  destruct G as (f' & up & D & L). exists f', up. split.
  - eapply pd_ext; [exact D | | | reflexivity].
    + intros x. now rewrite chain_fwd_ld_spec.
    + intros y. now rewrite chain_inv_ld_spec.
  - intros x. rewrite chain_fwd_ld_spec. apply L.
Qed.

(* the spline layer *)
Lemma psflow_rqs xp yp dv lo hi : RqsInvP.rqs_valid xp yp dv lo hi -> psflow (leaf_layer (LRqs xp yp dv lo hi)).
Proof.
  intros V. pose proof (valid_I2D _ _ _ _ _ V) as V2.
  split; [apply leaf_layer_ok, V|]. split; [intros x; exact I|]. split; [intros y; exact I|].
  exists (rqs_deriv ROps xp yp dv lo hi), true. split.
  - exact (rqs_pdiffeo xp yp dv lo hi V2).
  - intros x. exact (rqs_ld_spec xp yp dv lo hi V2 x).
Qed.

(* 1-D expressions over Affine / Loc / Scale / LeakyTanh / RationalQuadraticSpline, any Chain / Invert nesting *)
Definition leaf_onto_s (l : leaf R) : Prop :=
  match l with
  | LRqs xp yp dv lo hi => RqsInvP.rqs_valid xp yp dv lo hi
  | _ => leaf_onto l
  end.
Fixpoint onto1s (b : bexpr R) : Prop :=
  match b with
  | BElem [l] => leaf_onto_s l
  | BInvert b' => onto1s b'
  | BChain bs => fold_right (fun b' Q => onto1s b' /\ Q) True bs
  | _ => False
  end.
Lemma onto1s_chain bs : onto1s (BChain bs) <-> List.Forall onto1s bs.
Proof.
  cbn [onto1s]. induction bs as [|b t IH]; cbn [fold_right].
  - split; intros; [constructor | exact I].
  - split; intros H.
    + constructor; [apply H | apply IH, H].
    + inversion H; subst. split; [assumption | apply IH; assumption].
Qed.
Lemma onto1_onto1s b : onto1 b -> onto1s b.
Proof.
  induction b as [ls|lower m loc|p pinv| |b IH|bs IH] using bexpr_ind'; intros H; try contradiction.
  - destruct ls as [|l [|l2 t]]; try contradiction. destruct l; cbn in *; try contradiction; exact H.
  - apply IH, H.
  - apply onto1s_chain. apply onto1_chain in H.
    induction IH as [|b t Hb _ IHt]; [constructor|]. inversion H; subst. constructor; auto.
Qed.

Lemma psflow_leaf l : leaf_onto_s l -> psflow (leaf_layer l).
Proof.
  destruct l as [loc s|loc|s| | | |m g ic|xp yp dv lo hi]; cbn [leaf_onto_s leaf_onto]; intros H; try contradiction.
  - apply sflow_psflow. exact (sflow_affine loc s H).
  - apply sflow_psflow. exact (sflow_loc loc).
  - apply sflow_psflow. exact (sflow_scale s H).
  - destruct H as (Hm & -> & ->). apply sflow_psflow. exact (sflow_leaky m Hm).
  - apply psflow_rqs, H.
Qed.

Theorem psflow_expr b : onto1s b -> psflow (slayer b).
Proof.
  induction b as [ls|lower m loc|p pinv| |b IH|bs IH] using bexpr_ind'; intros H; try contradiction.
  - destruct ls as [|l [|l2 t]]; try contradiction. apply psflow_leaf, H.
  - cbn [slayer]. apply psflow_invert, IH, H.
  - cbn [slayer]. apply psflow_chain. apply onto1s_chain in H. apply Forall_map.
    induction IH as [|b t Hb _ IHt]; [constructor|]. inversion H; subst. constructor; auto.
Qed.

Lemma run_slayer_s b : onto1s b ->
  (forall x, run_fwd_ld ROps b [x] = ([l_fwd (slayer b) x], l_ldf (slayer b) x)) /\
  (forall y, run_inv_ld ROps b [y] = ([l_inv (slayer b) y], l_ldi (slayer b) y)).
Proof.
  induction b as [ls|lower m loc|p pinv| |b IH|bs IH] using bexpr_ind'; intros H; try contradiction.
  - destruct ls as [|l [|l2 t]]; try contradiction.
    split; intros v; cbn [run_fwd_ld run_inv_ld zipw slayer leaf_layer l_fwd l_inv l_ldf l_ldi];
      rewrite sum_R_cons, sum_R_nil; f_equal; ring.
  - destruct (IH H) as [A B]. split; intros v.
    + rewrite run_fwd_ld_invert. apply B.
    + rewrite run_inv_ld_invert. apply A.
  - apply onto1s_chain in H. split.
    + intros x. rewrite run_fwd_ld_chain. cbn [slayer chain_layer l_fwd l_ldf]. rewrite chain_fwd_ld_spec. cbn [fst snd].
      change (c ROps 0) with 0.
      assert (G : forall x a, fold_left (fun s b' => let r := run_fwd_ld ROps b' (fst s) in (fst r, n_add ROps (snd s) (snd r))) bs ([x], a)
                              = ([comp_fwd (map slayer bs) x], a + comp_ldf (map slayer bs) x)).
      { clear x. induction IH as [|b t Hb _ IHt]; intros x a; cbn [fold_left map comp_fwd comp_ldf].
        - f_equal. ring.
        - inversion H; subst. cbv zeta. cbn [fst snd]. rewrite (proj1 (Hb H2)). cbn [fst snd].
          rewrite IHt by assumption. f_equal. cbn [n_add ROps ROpsG]. ring. }
      rewrite G. f_equal. ring.
    + intros y. rewrite run_inv_ld_chain. cbn [slayer chain_layer l_inv l_ldi]. rewrite chain_inv_ld_spec. cbn [fst snd].
      change (c ROps 0) with 0.
      induction IH as [|b t Hb _ IHt]; [reflexivity|].
      inversion H; subst. cbn [fold_right map rev]. cbv zeta. rewrite IHt by assumption. cbn [fst snd].
      rewrite (proj2 (Hb H2)). cbn [fst snd].
      rewrite rcomp_inv_app, rcomp_ldi_app. cbn [rcomp_inv rcomp_ldi]. f_equal. cbn [n_add ROps ROpsG]. ring.
Qed.

(* C04 in one dimension with splines: exp(log_prob) of Transformed(base, b) integrates to one for every expression b over
   Affine (any non-zero scale) / Loc / Scale / LeakyTanh / RationalQuadraticSpline and any Chain / Invert nesting of them,
   in BOTH orientations (the spline's inverse direction included) *)
Theorem flow_1d_spline_integrates_to_one (f : fam) (P : R -> R) (b : bexpr R) :
  (forall z, is_derive P z (exp (fam_logpdf ROps f z))) ->
  filterlim P (Rbar_locally m_infty) (locally 0) -> filterlim P (Rbar_locally p_infty) (locally 1) ->
  onto1s b ->
  is_RInt_gen (fun x => exp (logp ROps (DTrans (DBase f) b) [x])) (Rbar_locally m_infty) (Rbar_locally p_infty) 1.
Proof.
  intros HP Lm Lp Hb.
  destruct (psflow_invert _ (psflow_expr b Hb)) as (_ & _ & _ & S' & up & D & HL).
  cbn [invert_layer l_fwd l_inv l_ldf] in D, HL.
  apply (is_RInt_gen_ext (fun x => exp (fam_logpdf ROps f (l_inv (slayer b) x)) * Rabs (S' x))).
  - apply filter_forall. intros [a0 b0] x _. cbn [logp]. rewrite (proj2 (run_slayer_s b Hb)). cbn [fst snd].
    unfold base_logp. cbn [map]. rewrite sum_R_cons, sum_R_nil, HL. cbn [n_add ROps ROpsG].
    rewrite exp_plus, Rplus_0_r, exp_ln; [reflexivity | apply Rabs_pos_lt, (pd_nonzero _ _ _ _ D)].
  - apply (pdiffeo_density_integrates P (fun z => exp (fam_logpdf ROps f z)) HP (fun z => fam_density_continuous f z) Lm Lp
             (l_inv (slayer b)) (l_fwd (slayer b)) S' up D).
Qed.
Theorem gumbel_flow_1d_spline_integrates_to_one (b : bexpr R) : onto1s b ->
  is_RInt_gen (fun x => exp (logp ROps (DTrans (DBase FGumbel) b) [x])) (Rbar_locally m_infty) (Rbar_locally p_infty) 1.
Proof.
  intros Hb. apply (flow_1d_spline_integrates_to_one FGumbel gumbel_cdf b);
    [apply gumbel_cdf_deriv | apply gumbel_cdf_minf | apply gumbel_cdf_pinf | exact Hb].
Qed.

(* non-vacuity: a chain with a spline that has a kink at both interval ends (end derivatives 3 and 2), a negative scale,
   a LeakyTanh and an inverted spline *)
Definition ex_spline_leaf : leaf R := LRqs RqsInvP.ex_xp RqsInvP.ex_yp RqsInvP.ex_dv (-1) 1.
Definition ex_onto_s : bexpr R :=
  BChain [BElem [LAffine 1 (-2)]; BElem [ex_spline_leaf]; BElem [LLeaky 3 (leaky_grad ROps 3) (leaky_icpt ROps 3)];
          BInvert (BChain [BElem [ex_spline_leaf]; BElem [LScale 5]])].
Lemma ex_onto_s_ok : onto1s ex_onto_s.
Proof. unfold ex_onto_s, ex_spline_leaf. cbn. repeat split; try lra; apply RqsInvP.ex_valid. Qed.
