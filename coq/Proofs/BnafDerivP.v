(* BlockAutoregressiveNetwork at the reals, the chain rule: with an activation that is differentiable everywhere the
   own-coordinate map  tau |-> transform(y[i := tau])_i  is differentiable at EVERY real tau (every unit of every layer
   is: a finite sum of constant weights times the units of the previous layer, plus bias / condition term, followed by
   the activation on the hidden layers).  Together with Proofs/BnafP.bnaf_own_derivative_positive ("wherever the
   derivative exists it is >= K > 0") this gives the full statement: the derivative EXISTS and is >= K > 0.
   The unwrapped weights (softplus / Where / weight normalisation) do not depend on tau; only the inputs do.
   Exact real arithmetic; float rounding is not modelled. *)
From Coq Require Import Reals List ZArith Bool Arith Lia Lra Psatz.
From Coquelicot Require Import Coquelicot.
From FJ Require Import Model.Num Model.Leaves Model.Bisect Proofs.RNum Proofs.LeafDerivP Proofs.LeafInvP Proofs.BisectP.
From FJ Require Import Model.Masks Proofs.MasksP Proofs.BnafP.
Import ListNotations.
Open Scope R_scope.

Local Notation dotR := (Masks.dot 0 Rplus Rmult).
Local Notation linearR := (Masks.linear 0 Rplus Rmult).

(* ------------------------------------------------------------------------------------------ *)
(* 1. Coquelicot's closure lemmas at R, in the syntactic shape used below                        *)
(* ------------------------------------------------------------------------------------------ *)
Lemma exd_ext (f g : R -> R) (x : R) : (forall t, f t = g t) -> ex_derive f x -> ex_derive g x.
Proof. intros E H. exact (ex_derive_ext f g x E H). Qed.
Lemma exd_const (c x : R) : ex_derive (fun _ : R => c) x.
Proof. exact (ex_derive_const c x). Qed.
Lemma exd_id (x : R) : ex_derive (fun t : R => t) x.
Proof. exact (ex_derive_id x). Qed.
Lemma exd_plus (f g : R -> R) (x : R) : ex_derive f x -> ex_derive g x -> ex_derive (fun t => f t + g t) x.
Proof. intros Hf Hg. exact (ex_derive_plus f g x Hf Hg). Qed.
Lemma exd_cmul (a : R) (f : R -> R) (x : R) : ex_derive f x -> ex_derive (fun t => a * f t) x.
Proof. intros Hf. exact (ex_derive_mult (fun _ => a) f x (ex_derive_const a x) Hf). Qed.
Lemma exd_comp (f g : R -> R) (x : R) : ex_derive f (g x) -> ex_derive g x -> ex_derive (fun t => f (g t)) x.
Proof. intros Hf Hg. exact (ex_derive_comp f g x Hf Hg). Qed.

(* ------------------------------------------------------------------------------------------ *)
(* 2. vectors of everywhere-differentiable functions of one real parameter                       *)
(* ------------------------------------------------------------------------------------------ *)
(* v t is a vector of fixed length n whose every entry is differentiable in t at every real *)
Definition dvec (n : nat) (v : R -> list R) : Prop :=
  (forall t, length (v t) = n) /\ forall j t, ex_derive (fun s => nth j (v s) 0) t.

Lemma dvec_tl n v : dvec (S n) v -> dvec n (fun t => tl (v t)).
Proof.
  intros [Hl Hc]. split.
  - intros t. specialize (Hl t). destruct (v t); cbn in *; lia.
  - intros j t. apply (exd_ext (fun s => nth (S j) (v s) 0)); [|apply Hc].
    intros s. specialize (Hl s). destruct (v s); [discriminate|reflexivity].
Qed.

Lemma dvec_dot w : forall n v, dvec n v -> forall t, ex_derive (fun s => dotR w (v s)) t.
Proof.
  induction w as [|a w IH]; intros n v Hv t; [apply (exd_ext (fun _ => 0)); [intros s; reflexivity|apply exd_const]|].
  destruct n as [|n].
  - apply (exd_ext (fun _ => 0)); [|apply exd_const]. intros s. destruct Hv as [Hl _]. specialize (Hl s).
    destruct (v s); [reflexivity|discriminate].
  - apply (exd_ext (fun s => a * nth 0 (v s) 0 + dotR w (tl (v s)))).
    + intros s. destruct Hv as [Hl _]. specialize (Hl s). destruct (v s); [discriminate|reflexivity].
    + apply (exd_plus (fun s => a * nth 0 (v s) 0) (fun s => dotR w (tl (v s)))).
      * apply (exd_cmul a (fun s => nth 0 (v s) 0)). apply (proj2 Hv).
      * apply (IH n). apply dvec_tl. exact Hv.
Qed.

Lemma dvec_linear W b n v : dvec n v -> dvec (Nat.min (length W) (length b)) (fun t => linearR W b (v t)).
Proof.
  intros Hv. split; [intros t; apply linear_length|]. intros u t.
  apply (exd_ext (fun s => match nth_error W u, nth_error b u with Some row, Some bu => dotR row (v s) + bu | _, _ => 0 end)).
  - intros s. rewrite nth_as_nth_error, nth_error_linear. destruct (nth_error W u); [|reflexivity]. destruct (nth_error b u); reflexivity.
  - destruct (nth_error W u) as [row|]; [|apply exd_const]. destruct (nth_error b u) as [bu|]; [|apply exd_const].
    apply (exd_plus (fun s => dotR row (v s)) (fun _ => bu)); [apply (dvec_dot row n v Hv)|apply exd_const].
Qed.

Lemma dvec_map act n v : (forall x, ex_derive act x) -> dvec n v -> dvec n (fun t => map act (v t)).
Proof.
  intros Ha [Hl Hc]. split; [intros t; rewrite map_length; apply Hl|]. intros j t.
  destruct (Nat.lt_ge_cases j n) as [Hj|Hj].
  - apply (exd_ext (fun s => act (nth j (v s) 0))).
    + intros s. rewrite (nth_indep (map act (v s)) 0 (act 0)) by (rewrite map_length, Hl; exact Hj). symmetry. apply map_nth.
    + apply (exd_comp act (fun s => nth j (v s) 0)); [apply Ha|apply Hc].
  - apply (exd_ext (fun _ => 0)); [|apply exd_const]. intros s. symmetry. apply nth_overflow. rewrite map_length, Hl. exact Hj.
Qed.

Lemma dvec_vadd t0 n v : dvec n v -> dvec (Nat.min n (length t0)) (fun t => Masks.vadd Rplus (v t) t0).
Proof.
  intros [Hl Hc]. split; [intros t; unfold Masks.vadd; rewrite map_length, combine_length, Hl; reflexivity|]. intros j t.
  apply (exd_ext (fun s => if (j <? n)%nat then match nth_error t0 j with Some b => nth j (v s) 0 + b | None => 0 end else 0)).
  - intros s. rewrite (nth_as_nth_error (Masks.vadd Rplus (v s) t0)). unfold Masks.vadd. rewrite nth_error_map, nth_error_combine.
    rewrite (nth_as_nth_error (v s)). destruct (Nat.ltb_spec j n) as [Hj|Hj].
    + destruct (nth_error (v s) j) eqn:E; [|apply nth_error_None in E; rewrite Hl in E; lia]. destruct (nth_error t0 j); reflexivity.
    + destruct (nth_error (v s) j) eqn:E; [|reflexivity]. assert (Hne : nth_error (v s) j <> None) by congruence.
      apply nth_error_Some in Hne. rewrite Hl in Hne. lia.
  - destruct (j <? n)%nat; [|apply exd_const]. destruct (nth_error t0 j) as [b|]; [|apply exd_const].
    apply (exd_plus (fun s => nth j (v s) 0) (fun _ => b)); [apply Hc|apply exd_const].
Qed.

(* induction over the layers: every unit of every layer, as a function of the parameter, is differentiable everywhere.
   No hypothesis on the weights, biases, masks or the condition term: they are constants. *)
Lemma dvec_bnaf_run act : (forall x, ex_derive act x) -> forall masks first cterm ws bs n v, dvec n v ->
  exists n', dvec n' (fun t => bnaf_run 0 Rplus Rmult act first cterm ws bs masks (v t)).
Proof.
  intros Ha. induction masks as [|m ms IH]; intros first cterm ws bs n v Hv; [exists n; exact Hv|].
  cbn [bnaf_run]. pose proof (dvec_linear (where_mask 0 m (hd [] ws)) (hd [] bs) n v Hv) as Hh.
  set (h := fun t => linearR (where_mask 0 m (hd [] ws)) (hd [] bs) (v t)) in *.
  set (nh := Nat.min (length (where_mask 0 m (hd [] ws))) (length (hd [] bs))) in *.
  destruct ms as [|m2 ms]; [exists nh; exact Hh|].
  destruct first; [destruct cterm as [t0|]|].
  - apply (IH false (Some t0) (tl ws) (tl bs) (Nat.min nh (length t0)) (fun t => map act (Masks.vadd Rplus (h t) t0))).
    apply dvec_map; [exact Ha|]. apply (dvec_vadd t0 nh h). exact Hh.
  - apply (IH false None (tl ws) (tl bs) nh (fun t => map act (h t))). apply dvec_map; [exact Ha|exact Hh].
  - apply (IH false cterm (tl ws) (tl bs) nh (fun t => map act (h t))). apply dvec_map; [exact Ha|exact Hh].
Qed.

Lemma dvec_upd y i : dvec (length y) (fun t => upd y i t).
Proof.
  split; [intros t; apply upd_length|]. intros j t.
  destruct (Nat.eq_dec j i) as [->|Hne]; [destruct (Nat.lt_ge_cases i (length y)) as [Hi|Hi]|].
  - apply (exd_ext (fun s => s)); [intros s; symmetry; apply upd_nth_eq; exact Hi|]. apply exd_id.
  - apply (exd_ext (fun _ => 0)); [|apply exd_const]. intros s. symmetry. apply nth_overflow. rewrite upd_length. exact Hi.
  - apply (exd_ext (fun _ => nth j y 0)); [|apply exd_const]. intros s.
    rewrite !nth_as_nth_error, nth_error_upd_ne by lia. reflexivity.
Qed.

(* ------------------------------------------------------------------------------------------ *)
(* 3. existence of the own-coordinate derivative                                                 *)
(* ------------------------------------------------------------------------------------------ *)
(* every output as a function of every single input entry, at every real: the chain rule needs nothing of the
   parameter VALUES or shapes (out-of-range reads are the constant 0 of [nth]) *)
Lemma bnaf_entry_derivative_exists_gen act dim depth bd raws cterm :
  (forall x, ex_derive act x) -> forall j i y t,
  ex_derive (fun tau => nth j (bnaf_R act dim depth bd raws cterm (upd y i tau)) 0) t.
Proof.
  intros Ha j i y t. unfold bnaf_R, bnaf_transform.
  destruct (dvec_bnaf_run act Ha (bnaf_tril_masks dim depth bd) true cterm
              (unwrap_ws dim (bnaf_block_shapes depth bd) raws) (biases raws) (length y) (fun s => upd y i s) (dvec_upd y i))
    as [n' [_ Hd]].
  exact (Hd j t).
Qed.

(* the statement as exported: well-formed raw weights, a long enough condition term, an index in range -- so the value
   differentiated is the genuine i-th output (bnaf_R_defined), not a default of [nth] *)
Theorem bnaf_own_derivative_exists (act : R -> R) :
  (forall x, ex_derive act x) ->
  forall (dim depth bd : nat) (raws : list raw_layer) (cterm : option (list R)),
    Forall2 (raw_wf dim) (bnaf_block_shapes depth bd) raws ->
    match cterm with Some t => (bd * dim <= length t)%nat | None => True end ->
  forall (i : nat) (y : list R) (t : R), (i < dim)%nat -> length y = dim ->
    ex_derive (fun tau => nth i (bnaf_R act dim depth bd raws cterm (upd y i tau)) 0) t.
Proof. intros Ha dim depth bd raws cterm _ _ i y t _ _. apply bnaf_entry_derivative_exists_gen. exact Ha. Qed.

(* ------------------------------------------------------------------------------------------ *)
(* 4. the FULL derivative form: d y_i / d x_i exists everywhere and is >= K > 0                  *)
(* ------------------------------------------------------------------------------------------ *)
Theorem bnaf_own_derivative_positive_full (act : R -> R) (ga : R) :
  0 < ga -> (forall s t, s <= t -> ga * (t - s) <= act t - act s) -> (forall x, ex_derive act x) ->
  forall (dim depth bd : nat) (raws : list raw_layer) (cterm : option (list R)),
    (0 < bd)%nat -> Forall2 (raw_wf dim) (bnaf_block_shapes depth bd) raws ->
    match cterm with Some t => (bd * dim <= length t)%nat | None => True end ->
    exists K, 0 < K /\
      forall (i : nat) (y : list R) (t : R), (i < dim)%nat -> length y = dim ->
        exists d, is_derive (fun tau => nth i (bnaf_R act dim depth bd raws cterm (upd y i tau)) 0) t d /\ K <= d.
Proof.
  intros Hga Hslope Ha dim depth bd raws cterm Hbd Hraws Hct.
  destruct (bnaf_own_derivative_positive act ga Hga Hslope dim depth bd raws cterm Hbd Hraws Hct) as [K [HK Hpos]].
  exists K. split; [exact HK|]. intros i y t Hi Hy.
  destruct (bnaf_own_derivative_exists act Ha dim depth bd raws cterm Hraws Hct i y t Hi Hy) as [d Hd].
  exists d. split; [exact Hd|]. apply (Hpos i y t d Hi Hy). apply is_derive_Reals. exact Hd.
Qed.

(* the value differentiated is the i-th output itself *)
Lemma bnaf_own_value (act : R -> R) (ga : R) :
  0 < ga -> (forall s t, s <= t -> ga * (t - s) <= act t - act s) ->
  forall (dim depth bd : nat) (raws : list raw_layer) (cterm : option (list R)),
    (0 < bd)%nat -> Forall2 (raw_wf dim) (bnaf_block_shapes depth bd) raws ->
    match cterm with Some t => (bd * dim <= length t)%nat | None => True end ->
  forall (i : nat) (y : list R) (t : R), (i < dim)%nat -> length y = dim ->
    nth_error (bnaf_R act dim depth bd raws cterm (upd y i t)) i =
    Some (nth i (bnaf_R act dim depth bd raws cterm (upd y i t)) 0).
Proof.
  intros Hga Hslope dim depth bd raws cterm Hbd Hraws Hct i y t Hi Hy.
  destruct (bnaf_R_defined act (act_incr_of_slope act ga Hga Hslope) dim depth bd raws cterm Hbd Hraws Hct (upd y i t) i Hi
              ltac:(rewrite upd_length; exact Hy)) as [v Hv].
  rewrite (nth_of_nth_error _ _ 0 _ Hv). exact Hv.
Qed.

(* ------------------------------------------------------------------------------------------ *)
(* 5. the two activations of flowjax are differentiable everywhere                               *)
(* ------------------------------------------------------------------------------------------ *)
Lemma leaky_act_ex_derive m : 0 < m -> forall x, ex_derive (leaky_act m) x.
Proof. intros Hm x. exists (leaky_d m x). exact (leaky_deriv m Hm x). Qed.
Lemma tanh_act_ex_derive : forall x, ex_derive tanh_act x.
Proof. intros x. exists (dth x). exact (tanh_deriv x). Qed.

(* BNAF with its default activation LeakyTanh(max_val = m > 0): no hypothesis left *)
Theorem bnaf_leaky_own_derivative_positive (m : R) (dim depth bd : nat) (raws : list raw_layer) (cterm : option (list R)) :
  0 < m -> (0 < bd)%nat -> Forall2 (raw_wf dim) (bnaf_block_shapes depth bd) raws ->
  match cterm with Some t => (bd * dim <= length t)%nat | None => True end ->
  exists K, 0 < K /\
    forall (i : nat) (y : list R) (t : R), (i < dim)%nat -> length y = dim ->
      exists d, is_derive (fun tau => nth i (bnaf_R (leaky_act m) dim depth bd raws cterm (upd y i tau)) 0) t d /\ K <= d.
Proof.
  intros Hm Hbd Hraws Hct.
  exact (bnaf_own_derivative_positive_full (leaky_act m) (leaky_grad ROps m) (leaky_grad_pos m) (leaky_act_slope m Hm)
           (leaky_act_ex_derive m Hm) dim depth bd raws cterm Hbd Hraws Hct).
Qed.

(* BNAF with Tanh: the derivative exists everywhere (no uniform positive lower bound: tanh' -> 0) *)
Theorem bnaf_tanh_own_derivative_exists (dim depth bd : nat) (raws : list raw_layer) (cterm : option (list R)) :
  Forall2 (raw_wf dim) (bnaf_block_shapes depth bd) raws ->
  match cterm with Some t => (bd * dim <= length t)%nat | None => True end ->
  forall (i : nat) (y : list R) (t : R), (i < dim)%nat -> length y = dim ->
    ex_derive (fun tau => nth i (bnaf_R tanh_act dim depth bd raws cterm (upd y i tau)) 0) t.
Proof. exact (bnaf_own_derivative_exists tanh_act tanh_act_ex_derive dim depth bd raws cterm). Qed.

Lemma activations_differentiable :
  (forall m : R, 0 < m -> forall x : R, ex_derive (leaky_act m) x) /\ (forall x : R, ex_derive tanh_act x).
Proof. exact (conj leaky_act_ex_derive tanh_act_ex_derive). Qed.
