(* Shared lemmas about the rational-quadratic spline's bin lookup at the reals:
   [getz] (NumPy gather), [searchsorted] (side="left") and [rqs_bin]
   (k = clip(searchsorted(pos, v) - 1, 0, len(pos) - 2)) on a strictly increasing knot list. *)
From Coq Require Import Reals List ZArith Bool Lra Lia Sorted.
From FJ Require Import Model.Num Proofs.RNum Model.Leaves.
Import ListNotations.
Open Scope R_scope.

(* ---------- getz inside the range is nth ---------- *)
Lemma getz_nth : forall (l : list R) k, (0 <= k < Z.of_nat (length l))%Z ->
  getz ROps l k = nth (Z.to_nat k) l 0.
Proof.
  intros l k H. unfold getz.
  destruct (k <? 0)%Z eqn:E; [lia|].
  replace (Z.max 0 (Z.min (Z.of_nat (length l) - 1) k)) with k by lia. reflexivity.
Qed.

Lemma getz_nat (l : list R) (i : nat) : (i < length l)%nat -> getz ROps l (Z.of_nat i) = nth i l 0.
Proof. intros H. rewrite getz_nth by lia. now rewrite Nat2Z.id. Qed.

Lemma last_nth_R (l : list R) : last l 0 = nth (length l - 1) l 0.
Proof.
  induction l as [|x t IH]; [reflexivity|].
  destruct t as [|y t']; [reflexivity|].
  change (last (x :: y :: t') 0) with (last (y :: t') 0). rewrite IH.
  cbn [length]. replace (S (S (length t')) - 1)%nat with (S (length t')) by lia.
  cbn [nth]. now replace (S (length t') - 1)%nat with (length t') by lia.
Qed.

Lemma getz_first (l : list R) : (1 <= length l)%nat -> getz ROps l 0 = nth 0 l 0.
Proof. intros H. now rewrite getz_nth by lia. Qed.

Lemma getz_last (l : list R) : (1 <= length l)%nat -> getz ROps l (Z.of_nat (length l) - 1) = last l 0.
Proof.
  intros H. rewrite getz_nth by lia. rewrite last_nth_R. f_equal. lia.
Qed.

(* ---------- strictly sorted lists ---------- *)
Lemma sorted_nth_lt (l : list R) : StronglySorted Rlt l ->
  forall i j, (i < j)%nat -> (j < length l)%nat -> nth i l 0 < nth j l 0.
Proof.
  induction 1 as [|x t Hs IH Hx]; intros i j Hij Hj; [cbn in Hj; lia|].
  destruct j as [|j']; [lia|]. cbn [length] in Hj.
  destruct i as [|i'].
  - cbn [nth]. rewrite Forall_forall in Hx. apply Hx, nth_In. lia.
  - cbn [nth]. apply IH; lia.
Qed.

Lemma sorted_getz_lt (l : list R) : StronglySorted Rlt l ->
  forall i j, (0 <= i < j)%Z -> (j < Z.of_nat (length l))%Z -> getz ROps l i < getz ROps l j.
Proof.
  intros Hs i j Hij Hj. rewrite !getz_nth by lia. apply sorted_nth_lt; [exact Hs| |]; lia.
Qed.

Lemma sorted_getz_le (l : list R) : StronglySorted Rlt l ->
  forall i j, (0 <= i <= j)%Z -> (j < Z.of_nat (length l))%Z -> getz ROps l i <= getz ROps l j.
Proof.
  intros Hs i j Hij Hj. destruct (Z.eq_dec i j) as [->|Hne]; [lra|].
  left. apply sorted_getz_lt; [exact Hs| |]; lia.
Qed.

(* ---------- searchsorted (side = "left") ---------- *)
Lemma ss_cons x t v : searchsorted ROps (x :: t) v = if Rltb x v then (1 + searchsorted ROps t v)%Z else 0%Z.
Proof. reflexivity. Qed.

Lemma ss_range (l : list R) v : (0 <= searchsorted ROps l v <= Z.of_nat (length l))%Z.
Proof.
  induction l as [|x t IH]; [cbn; lia|]. rewrite ss_cons. cbn [length]. destruct (Rltb x v); lia.
Qed.

(* every element in front of the returned index is strictly below v (no sortedness needed) *)
Lemma ss_below (l : list R) v : forall i, (Z.of_nat i < searchsorted ROps l v)%Z -> nth i l 0 < v.
Proof.
  induction l as [|x t IH]; intros i Hi; [cbn in Hi; lia|].
  rewrite ss_cons in Hi. destruct (Rltb x v) eqn:E; [|lia].
  apply Rltb_true in E. destruct i as [|i']; [exact E|]. cbn [nth]. apply IH. lia.
Qed.

(* on a strictly sorted list every element from the returned index on is >= v *)
Lemma ss_above (l : list R) v : StronglySorted Rlt l ->
  forall i, (searchsorted ROps l v <= Z.of_nat i)%Z -> (i < length l)%nat -> v <= nth i l 0.
Proof.
  induction 1 as [|x t Hs IH Hx]; intros i Hi Hlen; [cbn in Hlen; lia|].
  rewrite ss_cons in Hi. cbn [length] in Hlen. destruct (Rltb x v) eqn:E.
  - pose proof (ss_range t v). destruct i as [|i']; [lia|]. cbn [nth]. apply IH; lia.
  - apply Rltb_false in E. destruct i as [|i']; [exact E|]. cbn [nth].
    rewrite Forall_forall in Hx. assert (x < nth i' t 0) by (apply Hx, nth_In; lia). lra.
Qed.

(* searchsorted-left is THE index of the first element >= v *)
Lemma ss_unique (l : list R) v (s : nat) : StronglySorted Rlt l -> (s <= length l)%nat ->
  (forall i, (i < s)%nat -> nth i l 0 < v) -> ((s < length l)%nat -> v <= nth s l 0) ->
  searchsorted ROps l v = Z.of_nat s.
Proof.
  intros Hs Hlen Hlo Hhi. pose proof (ss_range l v) as Hr.
  destruct (Z.lt_trichotomy (searchsorted ROps l v) (Z.of_nat s)) as [H|[H|H]]; [|exact H|].
  - (* ss < s : element number ss is both >= v and < v *)
    set (i := Z.to_nat (searchsorted ROps l v)).
    assert (v <= nth i l 0) by (apply ss_above; [exact Hs| |]; lia).
    assert (nth i l 0 < v) by (apply Hlo; lia). lra.
  - assert (nth s l 0 < v) by (apply ss_below; lia).
    assert (v <= nth s l 0) by (apply Hhi; lia). lra.
Qed.

(* ---------- rqs_bin ---------- *)
Lemma rqs_bin_eq (pos : list R) v :
  rqs_bin ROps pos v = Z.max 0 (Z.min (Z.of_nat (length pos) - 2) (searchsorted ROps pos v - 1)).
Proof. reflexivity. Qed.

(* the index is always a valid bin, whatever v is *)
Lemma rqs_bin_range (pos : list R) v : (2 <= length pos)%nat ->
  (0 <= rqs_bin ROps pos v <= Z.of_nat (length pos) - 2)%Z.
Proof. intros H. rewrite rqs_bin_eq. lia. Qed.

Lemma rqs_bin_spec : forall (pos : list R) v,
  StronglySorted Rlt pos -> (2 <= length pos)%nat -> nth 0 pos 0 <= v <= last pos 0 ->
  let k := rqs_bin ROps pos v in
  (0 <= k <= Z.of_nat (length pos) - 2)%Z /\ getz ROps pos k <= v <= getz ROps pos (k+1) /\
  (getz ROps pos k < v \/ k = 0%Z) /\ getz ROps pos k < getz ROps pos (k+1).
Proof.
  intros pos v Hs Hlen Hv k.
  pose proof (rqs_bin_range pos v Hlen) as Hk. fold k in Hk.
  pose proof (ss_range pos v) as Hr.
  rewrite last_nth_R in Hv.
  assert (Hsn : (searchsorted ROps pos v <= Z.of_nat (length pos) - 1)%Z).
  { destruct (Z_le_gt_dec (searchsorted ROps pos v) (Z.of_nat (length pos) - 1)) as [H|H]; [exact H|].
    assert (nth (length pos - 1) pos 0 < v) by (apply ss_below; lia). lra. }
  assert (Hlt : getz ROps pos k < getz ROps pos (k+1)) by (apply sorted_getz_lt; [exact Hs| |]; lia).
  split; [exact Hk|].
  destruct (Z.eq_dec (searchsorted ROps pos v) 0) as [H0|H0].
  - (* nothing below v: v is the first knot *)
    assert (Ek : k = 0%Z) by (unfold k; rewrite rqs_bin_eq; lia).
    assert (v <= nth 0 pos 0) by (apply ss_above; [exact Hs| |]; lia).
    assert (Ev : v = nth 0 pos 0) by lra.
    rewrite Ek in *. rewrite getz_first in * by lia.
    repeat split; try lra; try (now right).
  - assert (Ek : k = (searchsorted ROps pos v - 1)%Z) by (unfold k; rewrite rqs_bin_eq; lia).
    assert (Hb : getz ROps pos k < v).
    { rewrite getz_nth by lia. apply ss_below. lia. }
    assert (Ha : v <= getz ROps pos (k+1)).
    { rewrite getz_nth by lia. apply ss_above; [exact Hs| |]; lia. }
    repeat split; try lra; try (now left).
Qed.

(* uniqueness: the half-open bin (pos[j], pos[j+1]] determines the index *)
Lemma rqs_bin_unique (pos : list R) v j :
  StronglySorted Rlt pos -> (0 <= j <= Z.of_nat (length pos) - 2)%Z ->
  getz ROps pos j < v <= getz ROps pos (j+1) -> rqs_bin ROps pos v = j.
Proof.
  intros Hs Hj Hv. rewrite !getz_nth in Hv by lia.
  assert (E : searchsorted ROps pos v = Z.of_nat (Z.to_nat (j+1))).
  { apply ss_unique; [exact Hs|lia| |].
    - intros i Hi. destruct (Nat.eq_dec i (Z.to_nat j)) as [->|Hne]; [lra|].
      assert (nth i pos 0 < nth (Z.to_nat j) pos 0) by (apply sorted_nth_lt; [exact Hs| |]; lia). lra.
    - intros _. lra. }
  rewrite rqs_bin_eq, E. lia.
Qed.

(* the first knot (and anything not above it) is looked up in bin 0 *)
Lemma rqs_bin_le_first (pos : list R) v : (2 <= length pos)%nat -> v <= nth 0 pos 0 -> rqs_bin ROps pos v = 0%Z.
Proof.
  intros Hlen Hv. rewrite rqs_bin_eq.
  destruct pos as [|x t]; [cbn in Hlen; lia|]. rewrite ss_cons. cbn [nth] in Hv.
  destruct (Rltb x v) eqn:E; [apply Rltb_true in E; lra|]. lia.
Qed.

Lemma rqs_bin_knot0 (pos : list R) : (2 <= length pos)%nat -> rqs_bin ROps pos (getz ROps pos 0) = 0%Z.
Proof. intros H. apply rqs_bin_le_first; [exact H|]. rewrite getz_first by lia. lra. Qed.

(* an interior or last knot pos[j], j >= 1, is looked up in the bin to its LEFT *)
Lemma rqs_bin_knot (pos : list R) j : StronglySorted Rlt pos ->
  (1 <= j <= Z.of_nat (length pos) - 1)%Z -> rqs_bin ROps pos (getz ROps pos j) = (j - 1)%Z.
Proof.
  intros Hs Hj. apply rqs_bin_unique; [exact Hs|lia|].
  replace (j - 1 + 1)%Z with j by lia. split; [|lra].
  apply sorted_getz_lt; [exact Hs| |]; lia.
Qed.

(* anything above the last knot is looked up in the last bin *)
Lemma rqs_bin_gt_last (pos : list R) v : StronglySorted Rlt pos -> (2 <= length pos)%nat ->
  last pos 0 < v -> rqs_bin ROps pos v = (Z.of_nat (length pos) - 2)%Z.
Proof.
  intros Hs Hlen Hv. rewrite last_nth_R in Hv.
  assert (E : searchsorted ROps pos v = Z.of_nat (length pos)).
  { apply ss_unique; [exact Hs|lia| |lia].
    intros i Hi. destruct (Nat.eq_dec i (length pos - 1)) as [->|Hne]; [exact Hv|].
    assert (nth i pos 0 < nth (length pos - 1) pos 0) by (apply sorted_nth_lt; [exact Hs| |]; lia). lra. }
  rewrite rqs_bin_eq, E. lia.
Qed.
