(* C02, maps with a triangular Jacobian (TriangularAffine, MaskedAutoregressive, Coupling) and
   Planar: the reported log-det is ln |det J| for the entrywise Jacobian matrix J of the forward map.
   Determinant facts come from Proofs/DetP.v (MathComp det_trig / matrix determinant lemma at R),
   derivatives are Coquelicot [is_derive] in one coordinate at a time. *)
From Coq Require Import Reals List ZArith Bool Lra Lia Psatz.
From Coquelicot Require Import Coquelicot.
From FJ Require Import Model.Num Model.Leaves Proofs.RNum Proofs.LeafDerivP Proofs.DetP.
Import ListNotations.
Open Scope R_scope.

(* ---------------- coordinates of a list ---------------- *)
Definition upd (l : list R) (i : nat) (v : R) : list R := firstn i l ++ v :: skipn (S i) l.
Lemma upd_length l i v : (i < length l)%nat -> length (upd l i v) = length l.
Proof. intros H. unfold upd. rewrite app_length, firstn_length. cbn [length]. rewrite skipn_length. lia. Qed.
Lemma nth_upd l i v j : (i < length l)%nat -> nth j (upd l i v) 0 = if Nat.eqb j i then v else nth j l 0.
Proof.
  intros H. unfold upd. destruct (Nat.eqb_spec j i) as [->|Hne].
  - rewrite app_nth2; rewrite firstn_length; [|lia]. replace (i - Nat.min i (length l))%nat with 0%nat by lia. reflexivity.
  - destruct (Nat.lt_ge_cases j i) as [Hlt|Hge].
    + rewrite app_nth1 by (rewrite firstn_length; lia).
      rewrite <- (firstn_skipn i l) at 2. rewrite app_nth1 by (rewrite firstn_length; lia). reflexivity.
    + rewrite app_nth2; rewrite firstn_length; [|lia].
      replace (j - Nat.min i (length l))%nat with (S (j - S i)) by lia. cbn [nth].
      rewrite <- (firstn_skipn (S i) l) at 2. rewrite app_nth2; rewrite firstn_length; [|lia].
      replace (j - Nat.min (S i) (length l))%nat with (j - S i)%nat by lia. reflexivity.
Qed.
Lemma nth_upd_same l i v : (i < length l)%nat -> nth i (upd l i v) 0 = v.
Proof. intros H. rewrite nth_upd by exact H. now rewrite Nat.eqb_refl. Qed.
Lemma nth_upd_other l i v j : (i < length l)%nat -> j <> i -> nth j (upd l i v) 0 = nth j l 0.
Proof. intros H N. rewrite nth_upd by exact H. destruct (Nat.eqb_spec j i); [contradiction | reflexivity]. Qed.
Lemma firstn_upd l i v d : (d <= i)%nat -> (i < length l)%nat -> firstn d (upd l i v) = firstn d l.
Proof.
  intros H Hl. unfold upd.
  rewrite firstn_app, firstn_length. replace (d - Nat.min i (length l))%nat with 0%nat by lia.
  cbn [firstn]. rewrite app_nil_r, firstn_firstn. f_equal. lia.
Qed.
Lemma nth_map_seq (h : nat -> R) n i : (i < n)%nat -> nth i (map h (seq 0 n)) 0 = h i.
Proof.
  intros H. rewrite (nth_indep _ 0 (h 0%nat)) by (rewrite map_length, seq_length; exact H).
  rewrite (map_nth h (seq 0 n) 0%nat i), seq_nth by exact H. reflexivity.
Qed.

Lemma map_seq_shift (h : nat -> R) d m s : map h (seq (d + s) m) = map (fun i => h (d + i)%nat) (seq s m).
Proof.
  revert s. induction m as [|m IH]; intros s; cbn [seq map]; [reflexivity|].
  f_equal. replace (S (d + s)) with (d + S s)%nat by lia. apply IH.
Qed.
Lemma sum_zero_prefix (h : nat -> R) d m : (forall i, (i < d)%nat -> h i = 0) ->
  sum ROps (map h (seq 0 (d + m))) = sum ROps (map (fun i => h (d + i)%nat) (seq 0 m)).
Proof.
  intros Hz. rewrite seq_app, map_app, sum_R_app. cbn [plus].
  assert (Z : sum ROps (map h (seq 0 d)) = 0).
  { rewrite sum_R. assert (Hz' : forall i, In i (seq 0 d) -> h i = 0).
    { intros i Hi. apply in_seq in Hi. apply Hz. lia. }
    revert Hz'. generalize (seq 0 d). induction l as [|a t IH]; intros Hz'; cbn; [reflexivity|].
    rewrite Hz' by (now left). rewrite IH; [ring|]. intros; apply Hz'; now right. }
  rewrite Z, Rplus_0_l. rewrite <- (map_seq_shift h d m 0), Nat.add_0_r. reflexivity.
Qed.

(* ---------------- entrywise Jacobian ---------------- *)
(* d = dF_i/dx_j at x: the derivative of t |-> F(x with x_j := t)_i at t = x_j *)
Definition partial_at (F : list R -> list R) (x : list R) (i j : nat) (d : R) : Prop :=
  is_derive (fun t => nth i (F (upd x j t)) 0) (nth j x 0) d.

(* y_i does not depend on x_j for j > i, the own-coordinate derivative is d_i <> 0 with l_i = ln|d_i|:
   then for ANY matrix J whose entries on and above the diagonal are the partial derivatives (the
   entries below are irrelevant), sum_i l_i = ln |det J|.  Kernel-checked through det_trig. *)
Theorem tri_jacobian_ldj n (F : list R -> list R) (x : list R) (l : nat -> R) (J : nat -> nat -> R) :
  (forall i j t, (i < j)%nat -> (j < n)%nat -> nth i (F (upd x j t)) 0 = nth i (F x) 0) ->
  (forall i, (i < n)%nat -> is_ldj (fun t => nth i (F (upd x i t)) 0) (nth i x 0) (l i)) ->
  (forall i j, (i <= j)%nat -> (j < n)%nat -> partial_at F x i j (J i j)) ->
  sum ROps (map l (seq 0 n)) = ln (Rabs (detF n J)) /\ detF n J <> 0.
Proof.
  intros Hnd Hd HJ.
  assert (Z : forall i j, (i < j)%nat -> (j < n)%nat -> J i j = 0).
  { intros i j Hij Hj. specialize (HJ i j ltac:(lia) Hj). unfold partial_at in HJ.
    apply is_derive_unique in HJ. rewrite <- HJ.
    rewrite (Derive_ext _ (fun _ => nth i (F x) 0)) by (intros t; apply Hnd; assumption).
    apply Derive_const. }
  rewrite (detF_lower Z).
  assert (E : map l (seq 0 n) = map (fun d => ln (Rabs d)) (map (fun i => J i i) (seq 0 n))).
  { rewrite map_map. apply map_ext_in. intros i Hi. apply in_seq in Hi.
    destruct (Hd i ltac:(lia)) as [d [D [N L]]]. specialize (HJ i i ltac:(lia) ltac:(lia)).
    unfold partial_at in HJ. apply is_derive_unique in HJ. apply is_derive_unique in D.
    assert (Ed : J i i = d) by (etransitivity; [symmetry; exact HJ | exact D]).
    rewrite Ed. exact L. }
  rewrite E. apply sum_ln_abs_prod. apply Forall_forall. intros d Hin.
  apply in_map_iff in Hin. destruct Hin as [i [<- Hi]]. apply in_seq in Hi.
  destruct (Hd i ltac:(lia)) as [d [D [N L]]]. specialize (HJ i i ltac:(lia) ltac:(lia)).
  unfold partial_at in HJ. apply is_derive_unique in HJ. apply is_derive_unique in D.
  assert (Ed : J i i = d) by (etransitivity; [symmetry; exact HJ | exact D]).
  rewrite Ed. exact N.
Qed.

(* non-vacuity of the hypothesis on J: under the same structure the entries on and above the
   diagonal always exist (0 above, the own-coordinate derivative on the diagonal) *)
Lemma tri_upper_exists n (F : list R -> list R) (x : list R) (l : nat -> R) :
  (forall i j t, (i < j)%nat -> (j < n)%nat -> nth i (F (upd x j t)) 0 = nth i (F x) 0) ->
  (forall i, (i < n)%nat -> is_ldj (fun t => nth i (F (upd x i t)) 0) (nth i x 0) (l i)) ->
  exists J, forall i j, (i <= j)%nat -> (j < n)%nat -> partial_at F x i j (J i j).
Proof.
  intros Hnd Hd.
  exists (fun i j => if Nat.eqb i j then Derive (fun t => nth i (F (upd x i t)) 0) (nth i x 0) else 0).
  intros i j Hij Hj. unfold partial_at. destruct (Nat.eqb_spec i j) as [<-|N].
  - destruct (Hd i Hj) as [d [D _]]. apply Derive_correct. exists d. exact D.
  - apply (is_derive_ext (fun _ => nth i (F x) 0)).
    + intros t. symmetry. apply Hnd; lia.
    + auto_derive; [exact I | ring].
Qed.

(* ---------------- MaskedAutoregressive ---------------- *)
Section MAF.
  Variable P : Type.                          (* transformer parameters of one coordinate *)
  Variables (tau : P -> R -> R) (tld : P -> R -> R) (pvalid : P -> Prop).
  (* the transformer reports its own log-det correctly (any scalar leaf above) *)
  Hypothesis tau_ldj : forall p v, pvalid p -> is_ldj (tau p) v (tld p v).
  Variable g : list R -> nat -> P.             (* the conditioner: ANY function ... *)
  (* ... that is autoregressive (C09: the masked MLP is) and yields valid parameters *)
  Hypothesis g_autoreg : forall x x' i, length x = length x' ->
      (forall j, (j < i)%nat -> nth j x 0 = nth j x' 0) -> g x i = g x' i.
  Hypothesis g_valid : forall x i, pvalid (g x i).

  (* transform: transformer(params(x)).transform(x), vmapped over the coordinates *)
  Definition maf_fwd (x : list R) : list R := map (fun i => tau (g x i) (nth i x 0)) (seq 0 (length x)).
  (* transform_and_log_det: the vmapped transformer's log-dets, summed *)
  Definition maf_ld (x : list R) : R := sum ROps (map (fun i => tld (g x i) (nth i x 0)) (seq 0 (length x))).

  Lemma maf_nth x i : (i < length x)%nat -> nth i (maf_fwd x) 0 = tau (g x i) (nth i x 0).
  Proof. intros H. unfold maf_fwd. now rewrite nth_map_seq. Qed.
  Lemma g_upd x i j t : (i <= j)%nat -> (j < length x)%nat -> g (upd x j t) i = g x i.
  Proof.
    intros Hij Hj. apply g_autoreg; [apply upd_length, Hj|].
    intros k Hk. apply nth_upd_other; [exact Hj | lia].
  Qed.

  (* y_i does not depend on x_j, j > i *)
  Lemma maf_nondep x i j t : (i < j)%nat -> (j < length x)%nat ->
    nth i (maf_fwd (upd x j t)) 0 = nth i (maf_fwd x) 0.
  Proof.
    intros Hij Hj. rewrite !maf_nth by (try rewrite upd_length; lia).
    rewrite g_upd by lia. rewrite nth_upd_other by lia. reflexivity.
  Qed.
  (* dy_i/dx_i is the transformer's derivative; its reported log-det is the log of it *)
  Lemma maf_own x i : (i < length x)%nat ->
    is_ldj (fun t => nth i (maf_fwd (upd x i t)) 0) (nth i x 0) (tld (g x i) (nth i x 0)).
  Proof.
    intros Hi. destruct (tau_ldj (g x i) (nth i x 0) (g_valid x i)) as [d [D [N L]]].
    exists d. split; [|auto].
    apply (is_derive_ext (tau (g x i))); [|exact D].
    intros t. rewrite maf_nth by (rewrite upd_length; lia).
    rewrite g_upd by lia. now rewrite nth_upd_same.
  Qed.

  Theorem maf_ldj x (J : nat -> nat -> R) :
    (forall i j, (i <= j)%nat -> (j < length x)%nat -> partial_at maf_fwd x i j (J i j)) ->
    maf_ld x = ln (Rabs (detF (length x) J)) /\ detF (length x) J <> 0.
  Proof.
    intros HJ. unfold maf_ld.
    apply (tri_jacobian_ldj (length x) maf_fwd x (fun i => tld (g x i) (nth i x 0)) J); [| |exact HJ].
    - intros; apply maf_nondep; assumption.
    - intros; apply maf_own; assumption.
  Qed.
  Lemma maf_upper_exists x :
    exists J, forall i j, (i <= j)%nat -> (j < length x)%nat -> partial_at maf_fwd x i j (J i j).
  Proof.
    apply (tri_upper_exists (length x) maf_fwd x (fun i => tld (g x i) (nth i x 0))).
    - intros; apply maf_nondep; assumption.
    - intros; apply maf_own; assumption.
  Qed.
End MAF.

(* ---------------- Coupling ---------------- *)
Section Coupling.
  Variable P : Type.
  Variables (tau : P -> R -> R) (tld : P -> R -> R) (pvalid : P -> Prop).
  Hypothesis tau_ldj : forall p v, pvalid p -> is_ldj (tau p) v (tld p v).
  Variable g : list R -> nat -> P.             (* conditioner: ANY function of x_cond *)
  Hypothesis g_valid : forall xc i, pvalid (g xc i).
  Variable d : nat.                            (* untransformed_dim *)

  (* x_cond, x_trans = x[:d], x[d:]; y = hstack(x_cond, transformer(conditioner(x_cond)).transform(x_trans)) *)
  Definition coupling_fwd (x : list R) : list R :=
    firstn d x ++ map (fun i => tau (g (firstn d x) i) (nth (d + i) x 0)) (seq 0 (length x - d)).
  Definition coupling_ld (x : list R) : R :=
    sum ROps (map (fun i => tld (g (firstn d x) i) (nth (d + i) x 0)) (seq 0 (length x - d))).

  Lemma coupling_nth_lo x i : (i < d)%nat -> (d <= length x)%nat -> nth i (coupling_fwd x) 0 = nth i x 0.
  Proof.
    intros Hi Hd. unfold coupling_fwd. rewrite app_nth1 by (rewrite firstn_length; lia).
    rewrite <- (firstn_skipn d x) at 2. rewrite app_nth1 by (rewrite firstn_length; lia). reflexivity.
  Qed.
  Lemma coupling_nth_hi x i : (d <= i)%nat -> (i < length x)%nat ->
    nth i (coupling_fwd x) 0 = tau (g (firstn d x) (i - d)) (nth i x 0).
  Proof.
    intros Hi Hl. unfold coupling_fwd. rewrite app_nth2; rewrite firstn_length; [|lia].
    replace (Nat.min d (length x)) with d by lia. rewrite nth_map_seq by lia.
    now replace (d + (i - d))%nat with i by lia.
  Qed.

  Theorem coupling_ldj x (J : nat -> nat -> R) : (d <= length x)%nat ->
    (forall i j, (i <= j)%nat -> (j < length x)%nat -> partial_at coupling_fwd x i j (J i j)) ->
    coupling_ld x = ln (Rabs (detF (length x) J)) /\ detF (length x) J <> 0.
  Proof.
    intros Hd HJ. set (n := length x) in *.
    set (l := fun i => if (i <? d)%nat then 0 else tld (g (firstn d x) (i - d)) (nth i x 0)).
    assert (E : coupling_ld x = sum ROps (map l (seq 0 n))).
    { replace n with (d + (n - d))%nat by lia. rewrite sum_zero_prefix.
      - unfold coupling_ld. fold n. f_equal. apply map_ext. intros i. unfold l.
        destruct (Nat.ltb_spec (d + i) d); [lia|]. now replace (d + i - d)%nat with i by lia.
      - intros i Hi. unfold l. destruct (Nat.ltb_spec i d); [reflexivity | lia]. }
    rewrite E.
    apply (tri_jacobian_ldj n coupling_fwd x l J); [| |exact HJ].
    - intros i j t Hij Hj. destruct (Nat.lt_ge_cases i d) as [Hi|Hi].
      + rewrite !coupling_nth_lo by (try rewrite upd_length; lia). apply nth_upd_other; lia.
      + rewrite !coupling_nth_hi by (try rewrite upd_length; lia).
        rewrite firstn_upd by lia. rewrite nth_upd_other by lia. reflexivity.
    - intros i Hi. unfold l. destruct (Nat.ltb_spec i d) as [Hlt|Hge].
      + exists 1. split; [|split; [lra | now rewrite Rabs_R1, ln_1]].
        apply (is_derive_ext (fun t => t)); [|auto_derive; [exact I | ring]].
        intros t. rewrite coupling_nth_lo by (try rewrite upd_length; lia). now rewrite nth_upd_same.
      + destruct (tau_ldj (g (firstn d x) (i - d)) (nth i x 0) (g_valid _ _)) as [dd [D [N L]]].
        exists dd. split; [|auto].
        apply (is_derive_ext (tau (g (firstn d x) (i - d)))); [|exact D].
        intros t. rewrite coupling_nth_hi by (try rewrite upd_length; lia).
        rewrite firstn_upd by lia. now rewrite nth_upd_same.
  Qed.
End Coupling.

(* ---------------- list algebra at the reals ---------------- *)
Lemma dot_cons a r b x : dot ROps (a :: r) (b :: x) = a * b + dot ROps r x.
Proof. unfold dot. cbn [combine map fst snd]. now rewrite sum_R_cons. Qed.
Lemma dot_nil_l x : dot ROps [] x = 0.
Proof. reflexivity. Qed.
Lemma dot_comm a : forall b, dot ROps a b = dot ROps b a.
Proof.
  induction a as [|x a IH]; intros [|y b]; try reflexivity.
  rewrite !dot_cons, IH. ring.
Qed.
Lemma upd_cons_0 b x t : upd (b :: x) 0 t = t :: x.
Proof. reflexivity. Qed.
Lemma upd_cons_S b x j t : upd (b :: x) (S j) t = b :: upd x j t.
Proof. reflexivity. Qed.
(* a dot product is affine in each coordinate of its argument *)
Lemma dot_upd : forall (row x : list R) j t, length row = length x -> (j < length x)%nat ->
  dot ROps row (upd x j t) = dot ROps row x + nth j row 0 * (t - nth j x 0).
Proof.
  induction row as [|a row IH]; intros [|b x] j t Hl Hj; cbn [length] in *; try lia.
  destruct j as [|j].
  - rewrite upd_cons_0, !dot_cons. cbn [nth]. ring.
  - rewrite upd_cons_S, !dot_cons. cbn [nth]. rewrite IH by lia. ring.
Qed.
Lemma dot_sumR : forall (a b : list R) n, length a = n -> length b = n ->
  dot ROps a b = sumR (map (fun i => nth i a 0 * nth i b 0) (seq 0 n)).
Proof.
  induction a as [|x a IH]; intros [|y b] n Ha Hb; cbn [length] in *; subst n; try discriminate; [reflexivity|].
  rewrite dot_cons. cbn [seq map nth]. unfold sumR. cbn [fold_right]. f_equal.
  rewrite (IH b (length a)) by (auto; lia). unfold sumR. f_equal.
  rewrite <- seq_shift, map_map. reflexivity.
Qed.
Lemma nth_lift2 (h : R -> R -> R) : forall (a b : list R) i, length a = length b -> (i < length a)%nat ->
  nth i (lift2 h a b) 0 = h (nth i a 0) (nth i b 0).
Proof.
  induction a as [|x a IH]; intros [|y b] i Hl Hi; cbn [length] in *; try lia.
  destruct i as [|i]; [reflexivity|]. unfold lift2 in *. cbn [combine map nth]. apply IH; lia.
Qed.
Lemma lift2_length (h : R -> R -> R) a b : length (lift2 h a b) = Nat.min (length a) (length b).
Proof. unfold lift2. now rewrite map_length, combine_length. Qed.

(* ---------------- TriangularAffine ---------------- *)
Definition mentry (m : list (list R)) (i j : nat) : R := nth j (nth i m []) 0.
Lemma diag_spec m : diag ROps m = map (fun i => mentry m i i) (seq 0 (length m)).
Proof.
  unfold diag, mentry; ru.
  assert (G : forall s, map (fun p : nat * list R => nth (fst p) (snd p) 0) (combine (seq s (length m)) m)
                      = map (fun i => nth i (nth (i - s) m []) 0) (seq s (length m))).
  { induction m as [|r t IH]; intros s; [reflexivity|]. cbn [length seq combine map fst snd].
    f_equal; [now rewrite Nat.sub_diag|]. rewrite IH. apply map_ext_in. intros i Hi. apply in_seq in Hi.
    replace (i - s)%nat with (S (i - S s)) by lia. reflexivity. }
  rewrite G. apply map_ext. intros i. now rewrite Nat.sub_0_r.
Qed.

(* transform_and_log_det: log|diag(triangular)|.sum() = ln |det triangular|, lower or upper *)
Theorem tri_ld_det m : let n := length m in
  ((forall i j, (i < j)%nat -> (j < n)%nat -> mentry m i j = 0) \/
   (forall i j, (j < i)%nat -> (i < n)%nat -> mentry m i j = 0)) ->
  (forall i, (i < n)%nat -> mentry m i i <> 0) ->
  tri_ld ROps m = ln (Rabs (prodR (diag ROps m))) /\
  tri_ld ROps m = ln (Rabs (detF n (mentry m))) /\ detF n (mentry m) <> 0.
Proof.
  intros n Htri Hd. unfold tri_ld.
  change (map (fun d => n_log ROps (n_abs ROps d)) (diag ROps m)) with (map (fun d => ln (Rabs d)) (diag ROps m)).
  assert (F : List.Forall (fun d => d <> 0) (diag ROps m)).
  { rewrite diag_spec. apply Forall_forall. intros d Hin. apply in_map_iff in Hin.
    destruct Hin as [i [<- Hi]]. apply in_seq in Hi. apply Hd. fold n in Hi. lia. }
  destruct (sum_ln_abs_prod _ F) as [S N].
  assert (E : detF n (mentry m) = prodR (diag ROps m)).
  { rewrite diag_spec. fold n. destruct Htri as [L|U]; [apply detF_lower | apply detF_upper]; assumption. }
  rewrite E. auto.
Qed.

(* the Jacobian of x |-> triangular @ x + loc is the matrix itself, entry by entry *)
Theorem tri_fwd_jacobian m loc x i j : let n := length m in
  length x = n -> length loc = n -> (forall r, In r m -> length r = n) -> (i < n)%nat -> (j < n)%nat ->
  partial_at (tri_fwd ROps m loc) x i j (mentry m i j).
Proof.
  intros n Hx Hl Hr Hi Hj. unfold partial_at, mentry.
  assert (Hrow : length (nth i m []) = n) by (apply Hr, nth_In; exact Hi).
  apply (is_derive_ext (fun t => dot ROps (nth i m []) x + nth j (nth i m []) 0 * (t - nth j x 0) + nth i loc 0)).
  - intros t. unfold tri_fwd. rewrite nth_lift2; unfold matvec; rewrite ?map_length; try (fold n; lia).
    change (n_add ROps) with Rplus. f_equal. rewrite (nth_indep (map (fun row => dot ROps row (upd x j t)) m) 0 (dot ROps [] (upd x j t))) by (rewrite map_length; exact Hi).
    rewrite (map_nth (fun row => dot ROps row (upd x j t)) m [] i).
    symmetry. apply dot_upd; [rewrite Hrow, Hx; reflexivity | rewrite Hx; exact Hj].
  - auto_derive; [exact I | ring].
Qed.

(* ---------------- Planar ---------------- *)
Definition delta (i j : nat) : R := if Nat.eqb i j then 1 else 0.

(* the reported log-det is ln |1 + u.psi|; by the matrix determinant lemma that is
   ln |det (I + u psi^T)| *)
Theorem planar_ld_det ns w u0 b x : let n := length w in length u0 = n ->
  let u := planar_u ROps ns w u0 in
  let act := planar_act ROps ns (dot ROps x w + b) in
  let psi := match ns with
             | Some s => vscale ROps (if Rltb act 0 then s else 1) w
             | None => vscale ROps (1 - act * act) w end in
  planar_ld_fwd ROps ns w u0 b x = ln (Rabs (1 + dot ROps u psi)) /\
  1 + dot ROps u psi = detF n (fun i j => delta i j + nth i u 0 * nth j psi 0).
Proof.
  intros n Hu u act psi. split; [destruct ns; reflexivity|].
  assert (Lu : length u = n).
  { unfold u, planar_u, vadd. rewrite lift2_length, map_length. fold n. lia. }
  assert (Lp : length psi = n) by (unfold psi, vscale; destruct ns; now rewrite map_length).
  unfold delta. rewrite (detF_rank1 n (fun i => nth i u 0) (fun j => nth j psi 0)).
  f_equal. rewrite (dot_sumR u psi n Lu Lp). f_equal. apply map_ext. intros i. ring.
Qed.

Lemma planar_fwd_nth ns w u0 b x i : length u0 = length w -> length x = length w -> (i < length w)%nat ->
  nth i (planar_fwd ROps ns w u0 b x) 0 =
  nth i x 0 + nth i (planar_u ROps ns w u0) 0 * planar_act ROps ns (dot ROps w x + b).
Proof.
  intros Hu Hx Hi. unfold planar_fwd, vadd.
  assert (Lu : length (planar_u ROps ns w u0) = length w).
  { unfold planar_u, vadd. rewrite lift2_length, map_length. lia. }
  rewrite nth_lift2; unfold vscale; rewrite ?map_length; try lia.
  change (n_add ROps) with Rplus. change (n_mul ROps) with Rmult. f_equal.
  rewrite (nth_indep _ 0 (0 * planar_act ROps ns (dot ROps w x + b))) by (rewrite map_length; lia).
  now rewrite (map_nth (fun a => a * planar_act ROps ns (dot ROps w x + b)) (planar_u ROps ns w u0) 0 i).
Qed.

Lemma delta_derive x i j : (j < length x)%nat -> is_derive (fun t => nth i (upd x j t) 0) (nth j x 0) (delta i j).
Proof.
  intros Hj. unfold delta. destruct (Nat.eqb_spec i j) as [->|N].
  - apply (is_derive_ext (fun t => t)); [intros t; now rewrite nth_upd_same | auto_derive; [exact I | ring]].
  - apply (is_derive_ext (fun _ => nth i x 0)); [intros t; now rewrite nth_upd_other | auto_derive; [exact I | ring]].
Qed.

(* entrywise Jacobian of the planar transform: delta_ij + u_i * act'(w.x + b) * w_j *)
Theorem planar_fwd_jacobian ns w u0 b x i j (da : R) :
  length u0 = length w -> length x = length w -> (i < length w)%nat -> (j < length w)%nat ->
  is_derive (planar_act ROps ns) (dot ROps w x + b) da ->
  partial_at (planar_fwd ROps ns w u0 b) x i j
    (delta i j + nth i (planar_u ROps ns w u0) 0 * (nth j w 0 * da)).
Proof.
  intros Hu Hx Hi Hj Da. unfold partial_at.
  set (u := planar_u ROps ns w u0). set (z := dot ROps w x + b) in *.
  apply (is_derive_ext (fun t => nth i (upd x j t) 0 + nth i u 0 * planar_act ROps ns (z + nth j w 0 * (t - nth j x 0)))).
  - intros t. rewrite planar_fwd_nth; try assumption; [|rewrite upd_length; lia].
    fold u. do 3 f_equal. rewrite dot_upd by lia. unfold z. ring.
  - apply (is_derive_plus (fun t => nth i (upd x j t) 0) (fun t => nth i u 0 * planar_act ROps ns (z + nth j w 0 * (t - nth j x 0)))).
    + apply delta_derive. lia.
    + apply (is_derive_scal (fun t => planar_act ROps ns (z + nth j w 0 * (t - nth j x 0))) (nth j x 0) (nth i u 0) (nth j w 0 * da)).
      apply (is_derive_comp (planar_act ROps ns) (fun t => z + nth j w 0 * (t - nth j x 0))).
      * replace (z + nth j w 0 * (nth j x 0 - nth j x 0)) with z by ring. exact Da.
      * auto_derive; [exact I | ring].
Qed.

(* the activation derivatives the code uses for psi *)
Lemma planar_act_tanh_derive z : is_derive (planar_act ROps None) z (1 - planar_act ROps None z * planar_act ROps None z).
Proof. cbn [planar_act]; ru. apply th_deriv. Qed.
Lemma planar_act_lrelu_derive s z : 0 < s -> z <> 0 ->
  is_derive (planar_act ROps (Some s)) z (if Rltb (planar_act ROps (Some s) z) 0 then s else 1).
Proof.
  intros Hs Hz.
  assert (Ef : forall t, planar_act ROps (Some s) t = if Rleb 0 t then t else s * t) by reflexivity.
  rewrite Ef. apply (is_derive_ext (fun t => if Rleb 0 t then t else s * t)); [intros; symmetry; apply Ef|].
  destruct (Rlt_dec 0 z) as [Hp|Hn].
  - assert (E : Rleb 0 z = true) by (apply Rleb_true; lra). rewrite E.
    assert (E2 : Rltb z 0 = false) by (apply Rltb_false; lra). rewrite E2.
    apply (is_derive_loc _ (fun t => t) z 1 z); [lra| |auto_derive; [exact I | ring]].
    intros y Hy. assert (E3 : Rleb 0 y = true) by (apply Rleb_true; lra). cbv beta. now rewrite E3.
  - assert (Hz' : z < 0) by lra.
    assert (E : Rleb 0 z = false) by (apply Rleb_false; lra). rewrite E.
    assert (E4 : Rltb (s * z) 0 = true) by (apply Rltb_true; nra). rewrite E4.
    apply (is_derive_loc _ (fun t => s * t) z s (- z)); [lra| |auto_derive; [exact I | ring]].
    intros y Hy. assert (E3 : Rleb 0 y = false) by (apply Rleb_false; lra). cbv beta. now rewrite E3.
Qed.

Lemma nth_vscale k v j : nth j (vscale ROps k v) 0 = nth j v 0 * k.
Proof.
  unfold vscale. change (n_mul ROps) with Rmult.
  destruct (Nat.lt_ge_cases j (length v)) as [H|H].
  - rewrite (nth_indep _ 0 (0 * k)) by (rewrite map_length; exact H).
    now rewrite (map_nth (fun a => a * k) v 0 j).
  - rewrite !nth_overflow; [ring | exact H | rewrite map_length; exact H].
Qed.

(* Planar, tanh activation: the matrix (delta_ij + u_i psi_j) with the code's psi IS the entrywise
   Jacobian of transform at x, and the reported log-det is ln |det| of it.  The guard 1 + u.psi <> 0
   (invertibility; what get_act_scale is there to ensure when w <> 0) is explicit. *)
Theorem planar_tanh_ldj w u0 b x : let n := length w in
  length u0 = n -> length x = n ->
  let u := planar_u ROps None w u0 in
  let act := planar_act ROps None (dot ROps x w + b) in
  let psi := vscale ROps (1 - act * act) w in
  let J := fun i j => delta i j + nth i u 0 * nth j psi 0 in
  (forall i j, (i < n)%nat -> (j < n)%nat -> partial_at (planar_fwd ROps None w u0 b) x i j (J i j)) /\
  planar_ld_fwd ROps None w u0 b x = ln (Rabs (detF n J)) /\ detF n J = 1 + dot ROps u psi.
Proof.
  intros n Hu Hx u act psi J.
  destruct (planar_ld_det None w u0 b x Hu) as [L D]. fold n u act psi in L, D. cbv zeta in L, D.
  split; [|split; [unfold J; rewrite <- D; exact L | symmetry; exact D]].
  intros i j Hi Hj. unfold J, psi. rewrite nth_vscale.
  unfold act. rewrite (dot_comm x w).
  apply planar_fwd_jacobian; try assumption. apply planar_act_tanh_derive.
Qed.
(* Planar, leaky-relu activation with negative slope s > 0, away from the kink w.x + b = 0 *)
Theorem planar_lrelu_ldj s w u0 b x : let n := length w in
  length u0 = n -> length x = n -> 0 < s -> dot ROps x w + b <> 0 ->
  let u := planar_u ROps (Some s) w u0 in
  let act := planar_act ROps (Some s) (dot ROps x w + b) in
  let psi := vscale ROps (if Rltb act 0 then s else 1) w in
  let J := fun i j => delta i j + nth i u 0 * nth j psi 0 in
  (forall i j, (i < n)%nat -> (j < n)%nat -> partial_at (planar_fwd ROps (Some s) w u0 b) x i j (J i j)) /\
  planar_ld_fwd ROps (Some s) w u0 b x = ln (Rabs (detF n J)) /\ detF n J = 1 + dot ROps u psi.
Proof.
  intros n Hu Hx Hs Hz u act psi J.
  destruct (planar_ld_det (Some s) w u0 b x Hu) as [L D]. fold n u act psi in L, D. cbv zeta in L, D.
  split; [|split; [unfold J; rewrite <- D; exact L | symmetry; exact D]].
  intros i j Hi Hj. unfold J, psi. rewrite nth_vscale.
  unfold act. rewrite (dot_comm x w) in *.
  apply planar_fwd_jacobian; try assumption. apply planar_act_lrelu_derive; assumption.
Qed.

(* ---------------- compositions of vector layers ---------------- *)
(* What is CITED, not proved: the multivariate chain rule, i.e. that the Jacobian of a composite is
   the matrix product of the layers' Jacobians taken at the running intermediate values
   (Coquelicot's filterdiff_comp speaks of linear maps, not of matrices).  Everything else is proved:
   the log-det a Chain reports (the sum of the layers' log-dets at the running values) is
   ln |det (J_n * ... * J_1)|, by det_mulmx. *)
Definition mmul (n : nat) (A B : nat -> nat -> R) : nat -> nat -> R :=
  fun i k => sumR (map (fun j => A i j * B j k) (seq 0 n)).
Lemma detF_delta n : detF n delta = 1.
Proof.
  rewrite (@detF_lower n delta).
  - induction (seq 0 n) as [|a t IH]; [reflexivity|]. cbn [map]. unfold prodR in *. cbn [fold_right].
    rewrite IH. unfold delta. rewrite Nat.eqb_refl. ring.
  - intros i j Hij _. unfold delta. destruct (Nat.eqb_spec i j); [lia | reflexivity].
Qed.

Section VecChain.
  Variable n : nat.
  (* a vector layer together with a Jacobian matrix at each point *)
  Variable Jac : layer (list R) -> list R -> nat -> nat -> R.
  (* the layer reports ln |det| of that (non-singular) matrix *)
  Definition jac_ldj (l : layer (list R)) : Prop :=
    forall x, l_dom l x -> l_ldf l x = ln (Rabs (detF n (Jac l x))) /\ detF n (Jac l x) <> 0.
  Fixpoint jac_prod (ls : list (layer (list R))) (x : list R) : nat -> nat -> R :=
    match ls with
    | [] => delta
    | l :: t => mmul n (jac_prod t (l_fwd l x)) (Jac l x)
    end.

  Lemma comp_ldf_det ls : List.Forall jac_ldj ls -> forall x, comp_dom ls x ->
    comp_ldf ls x = ln (Rabs (detF n (jac_prod ls x))) /\ detF n (jac_prod ls x) <> 0.
  Proof.
    induction 1 as [|l t Hl Ht IH]; intros x Hx; cbn [comp_ldf jac_prod].
    - rewrite detF_delta, Rabs_R1, ln_1. split; [reflexivity | lra].
    - destruct Hx as [Hd Hc]. destruct (Hl x Hd) as [L1 N1]. destruct (IH _ Hc) as [L2 N2].
      unfold mmul. rewrite detF_mul. split.
      + rewrite Rabs_mult, ln_mult, L1, L2; [ring | |]; apply Rabs_pos_lt; assumption.
      + apply Rmult_integral_contrapositive_currified; assumption.
  Qed.

  (* C02 for Chain at rank >= 1, with the chain rule as the explicit hypothesis [Hchain] on the
     Jacobian JC of the composite map *)
  Theorem chain_ldj_vec_partial ls x (JC : nat -> nat -> R) :
    List.Forall jac_ldj ls -> comp_dom ls x ->
    (forall i j, (i < n)%nat -> (j < n)%nat -> JC i j = jac_prod ls x i j) ->   (* multivariate chain rule: cited *)
    snd (chain_fwd_ld ls x) = ln (Rabs (detF n JC)) /\ detF n JC <> 0.
  Proof.
    intros H Hx Hchain. rewrite chain_fwd_ld_spec. cbn [snd].
    rewrite (detF_ext (F := JC) (G := jac_prod ls x)) by exact Hchain.
    apply comp_ldf_det; assumption.
  Qed.
End VecChain.

(* ---------------- Planar: the determinant 1 + u.psi is positive (get_act_scale) ---------------- *)
Lemma dot_vadd_l : forall a b w : list R, length a = length w -> length b = length w ->
  dot ROps (vadd ROps a b) w = dot ROps a w + dot ROps b w.
Proof.
  induction a as [|x a IH]; intros [|y b] [|z w] Ha Hb; cbn [length] in *; try lia; [unfold dot; cbn; ring|].
  unfold vadd, lift2 in *. cbn [combine map fst snd]. rewrite !dot_cons, IH by lia.
  change (n_add ROps) with Rplus. ring.
Qed.
Lemma dot_map_l (h : R -> R) c : (forall x, h x = c * x) -> forall a b : list R,
  dot ROps (map h a) b = c * dot ROps a b.
Proof.
  intros Hh. induction a as [|x a IH]; intros [|y b]; cbn [map]; try (rewrite ?dot_nil_l; unfold dot; cbn; ring).
  rewrite !dot_cons, IH, Hh. ring.
Qed.
Lemma dot_vscale_r k : forall a b : list R, dot ROps a (vscale ROps k b) = k * dot ROps a b.
Proof.
  unfold vscale. change (n_mul ROps) with Rmult.
  induction a as [|x a IH]; intros [|y b]; cbn [map]; try (unfold dot; cbn; ring).
  rewrite !dot_cons, IH. ring.
Qed.
Lemma dot_self_nonneg : forall w : list R, 0 <= dot ROps w w.
Proof. induction w as [|x w IH]; [unfold dot; cbn; lra|]. rewrite dot_cons. nra. Qed.

(* get_act_scale: w . u_hat = m(w . u) [/ max(1, negative_slope) for leaky relu],
   m(t) = -1 + log(1 + softplus t) > -1   (w <> 0) *)
Lemma planar_u_dot_w ns w u0 : length u0 = length w -> 0 < dot ROps w w ->
  let M := -1 + ln (1 + ln (1 + exp (dot ROps u0 w))) in
  dot ROps (planar_u ROps ns w u0) w = (match ns with Some _ => M / planar_k ROps ns | None => M end) /\
  -1 < M.
Proof.
  intros Hl Hw M. unfold planar_u. cbv zeta.
  rewrite dot_vadd_l by (rewrite ?map_length; lia).
  set (wtu := dot ROps u0 w) in *.
  change (n_sqrt ROps (dot ROps w w)) with (sqrt (dot ROps w w)).
  rewrite sqrt_sqrt by lra.
  set (mm := match ns with
             | Some _ => n_div ROps (n_add ROps (Num.c ROps (-1)) (n_log ROps (n_add ROps (Num.c ROps 1) (n_softplus ROps wtu)))) (planar_k ROps ns)
             | None => n_add ROps (Num.c ROps (-1)) (n_log ROps (n_add ROps (Num.c ROps 1) (n_softplus ROps wtu))) end).
  rewrite (dot_map_l _ ((mm - wtu) / dot ROps w w)).
  2:{ intros x. change (n_mul ROps) with Rmult. change (n_div ROps) with Rdiv. change (n_sub ROps) with Rminus.
      unfold Rdiv. ring. }
  assert (Em : mm = match ns with Some _ => M / planar_k ROps ns | None => M end) by (destruct ns; reflexivity).
  rewrite Em. set (q := dot ROps w w) in *. split.
  - field. lra.
  - unfold M. pose proof (exp_pos wtu). assert (0 < ln (1 + exp wtu)) by (rewrite <- ln_1; apply ln_increasing; lra).
    assert (0 < ln (1 + ln (1 + exp wtu))) by (rewrite <- ln_1; apply ln_increasing; lra). lra.
Qed.

(* the determinant is positive: tanh, and leaky relu with ANY negative slope s > 0 (after fix D7) *)
Theorem planar_det_pos ns w u0 b x : length u0 = length w -> 0 < dot ROps w w ->
  match ns with Some s => 0 < s | None => True end ->
  let u := planar_u ROps ns w u0 in
  let act := planar_act ROps ns (dot ROps x w + b) in
  let psi := match ns with
             | Some s => vscale ROps (if Rltb act 0 then s else 1) w
             | None => vscale ROps (1 - act * act) w end in
  0 < 1 + dot ROps u psi.
Proof.
  intros Hl Hw Hs u act psi. destruct (planar_u_dot_w ns w u0 Hl Hw) as [Hd Hm]. fold u in Hd. cbv zeta in Hd, Hm.
  set (M := -1 + ln (1 + ln (1 + exp (dot ROps u0 w)))) in *.
  unfold psi. destruct ns as [s|]; rewrite dot_vscale_r, Hd.
  - (* leaky relu: slope in {s, 1}, k = max(1, s) >= slope *)
    set (k := planar_k ROps (Some s)).
    assert (Hk : 1 <= k /\ s <= k).
    { unfold k, planar_k, nmax. change (n_ltb ROps) with Rltb. change (Num.c ROps 1) with 1.
      destruct (Rltb 1 s) eqn:E; [apply Rltb_true in E | apply Rltb_false in E]; lra. }
    assert (K : forall sl, 0 < sl <= k -> 0 < 1 + sl * (M / k)).
    { intros sl Hsl. destruct (Rle_dec 0 M) as [HM|HM].
      - assert (0 <= M / k) by (apply quot_nonneg; lra). nra.
      - assert (E : sl * (M / k) = (sl / k) * M) by (field; lra). rewrite E.
        assert (0 < sl / k <= 1).
        { split; [apply Rdiv_lt_0_compat; lra|].
          apply Rmult_le_reg_r with k; [lra|]. unfold Rdiv. rewrite Rmult_assoc, Rinv_l by lra. lra. }
        nra. }
    destruct (Rltb act 0); apply K; lra.
  - unfold act. cbn [planar_act]. change (n_tanh ROps) with th.
    pose proof (dth_pos (dot ROps x w + b)) as D. unfold dth in D.
    pose proof (th_bounds (dot ROps x w + b)). nra.
Qed.

(* ---------------- Concatenate / Stack / Vmap: block-diagonal Jacobians ---------------- *)
(* the children act on disjoint slices, so the Jacobian is block diagonal and the python sum of the
   children's log-dets is ln |det| of it (det_ublock) *)
Theorem block_diag_ldj n1 n2 (A B : nat -> nat -> R) (l1 l2 : R) :
  l1 = ln (Rabs (detF n1 A)) -> detF n1 A <> 0 -> l2 = ln (Rabs (detF n2 B)) -> detF n2 B <> 0 ->
  l1 + l2 = ln (Rabs (detF (n1 + n2) (blockF n1 A B))) /\ detF (n1 + n2) (blockF n1 A B) <> 0.
Proof.
  intros -> N1 -> N2. rewrite detF_block_diag. split.
  - rewrite Rabs_mult, ln_mult; [reflexivity | |]; apply Rabs_pos_lt; assumption.
  - apply Rmult_integral_contrapositive_currified; assumption.
Qed.
