(* C01 -- coupling and masked-autoregressive wiring (Model/Autoreg.v) are inverted by their
   coded inverses for an ARBITRARY conditioner function [g] (hence for all network weights) and
   any scalar transformer family that satisfies the two leaf laws.  No real numbers are involved:
   closed under the global context. *)
From Coq Require Import List Lia Arith.
From FJ Require Import Model.Autoreg.
Import ListNotations.

Section Wiring.
  Context {A P : Type}.
  Variable d : A.
  Variables tfwd tinv : P -> A -> A.
  Variable g : list A -> list P.
  Variable V : P -> Prop.            (* valid parameter blocks *)
  Variable D C : A -> Prop.          (* domain / codomain of the scalar transformer *)

  (* ---------- vmap_t ---------- *)
  Lemma vmap_t_length (t : P -> A -> A) ps xs : length ps = length xs -> length (vmap_t t ps xs) = length xs.
  Proof. intros H. unfold vmap_t. rewrite map_length, combine_length. lia. Qed.
  Lemma vmap_t_nth (t : P -> A -> A) : forall ps xs k p, nth_error ps k = Some p -> k < length xs ->
    nth k (vmap_t t ps xs) d = t p (nth k xs d).
  Proof.
    unfold vmap_t. induction ps as [|q ps IH]; intros [|x xs] [|k] p Hp Hk; cbn in *; try discriminate; try lia.
    - now inversion Hp.
    - apply IH; [exact Hp | lia].
  Qed.
  Lemma vmap_t_inv (t u : P -> A -> A) (Q : A -> Prop) :
    (forall p v, V p -> Q v -> u p (t p v) = v) ->
    forall ps xs, length ps = length xs -> Forall V ps -> Forall Q xs -> vmap_t u ps (vmap_t t ps xs) = xs.
  Proof.
    intros L. unfold vmap_t. induction ps as [|p ps IH]; intros [|x xs] Hl HV HQ; cbn in *; try discriminate; [reflexivity|].
    inversion HV; inversion HQ; subst. rewrite L by assumption. f_equal. apply IH; auto.
  Qed.

  (* ---------- y.at[k].set(v) ---------- *)
  Lemma upd_length l k (v : A) : length (upd l k v) = length l.
  Proof.
    unfold upd. destruct (Nat.ltb_spec k (length l)) as [H|H]; [|reflexivity].
    rewrite app_length, firstn_length. cbn [length]. rewrite skipn_length. lia.
  Qed.
  Lemma nth_upd l k (v : A) j : k < length l -> nth j (upd l k v) d = if Nat.eqb j k then v else nth j l d.
  Proof.
    intros H. unfold upd. destruct (Nat.ltb_spec k (length l)) as [_|H']; [|lia].
    destruct (Nat.eqb_spec j k) as [->|Hne].
    - rewrite app_nth2; rewrite firstn_length; [|lia]. replace (k - Nat.min k (length l)) with 0 by lia. reflexivity.
    - destruct (Nat.lt_ge_cases j k) as [Hlt|Hge].
      + rewrite app_nth1 by (rewrite firstn_length; lia).
        rewrite <- (firstn_skipn k l) at 2. rewrite app_nth1 by (rewrite firstn_length; lia). reflexivity.
      + rewrite app_nth2; rewrite firstn_length; [|lia].
        replace (j - Nat.min k (length l)) with (S (j - S k)) by lia. cbn [nth].
        rewrite <- (firstn_skipn (S k) l) at 2. rewrite app_nth2; rewrite firstn_length; [|lia].
        replace (j - Nat.min (S k) (length l)) with (j - S k) by lia. reflexivity.
  Qed.

  (* ---------- Coupling ---------- *)
  Section Coupling.
    Variables (ud : nat) (cond : list A).
    Lemma coupling_inv_fwd x : ud <= length x ->
      length (g (firstn ud x ++ cond)) = length x - ud -> Forall V (g (firstn ud x ++ cond)) ->
      (forall p v, V p -> D v -> tinv p (tfwd p v) = v) -> Forall D (skipn ud x) ->
      coupling_inv tinv g ud cond (coupling_fwd tfwd g ud cond x) = x.
    Proof.
      intros Hud Hg HV L HD. unfold coupling_inv, coupling_fwd.
      assert (Hf : length (firstn ud x) = ud) by (rewrite firstn_length; lia).
      rewrite firstn_app, Hf, Nat.sub_diag, firstn_O, app_nil_r, firstn_firstn, Nat.min_id.
      rewrite skipn_app, Hf, Nat.sub_diag. cbn [skipn].
      rewrite (skipn_all2 (firstn ud x)) by lia. cbn [app].
      rewrite (vmap_t_inv tfwd tinv D L) by (auto; rewrite skipn_length; exact Hg).
      apply firstn_skipn.
    Qed.
    Lemma coupling_fwd_inv y : ud <= length y ->
      length (g (firstn ud y ++ cond)) = length y - ud -> Forall V (g (firstn ud y ++ cond)) ->
      (forall p v, V p -> C v -> tfwd p (tinv p v) = v) -> Forall C (skipn ud y) ->
      coupling_fwd tfwd g ud cond (coupling_inv tinv g ud cond y) = y.
    Proof.
      intros Hud Hg HV L HD. unfold coupling_inv, coupling_fwd.
      assert (Hf : length (firstn ud y) = ud) by (rewrite firstn_length; lia).
      rewrite firstn_app, Hf, Nat.sub_diag, firstn_O, app_nil_r, firstn_firstn, Nat.min_id.
      rewrite skipn_app, Hf, Nat.sub_diag. cbn [skipn].
      rewrite (skipn_all2 (firstn ud y)) by lia. cbn [app].
      rewrite (vmap_t_inv tinv tfwd C L) by (auto; rewrite skipn_length; exact Hg).
      apply firstn_skipn.
    Qed.
  End Coupling.

  (* ---------- MaskedAutoregressive ---------- *)
  Section MAF.
    Variables (n : nat) (cond : list A).
    (* the network returns one block per coordinate, all valid ... *)
    Hypothesis g_len : forall x, length x = n -> length (g (x ++ cond)) = n.
    Hypothesis g_valid : forall x, length x = n -> Forall V (g (x ++ cond)).
    (* ... and is autoregressive: block i depends on the coordinates < i (and the condition) only.
       For the real masked MLP this is C09's theorem. *)
    Hypothesis g_autoreg : forall x x' i, length x = n -> length x' = n ->
      (forall j, j < i -> nth j x d = nth j x' d) -> nth_error (g (x ++ cond)) i = nth_error (g (x' ++ cond)) i.

    Lemma g_block x k : length x = n -> k < n -> exists p, nth_error (g (x ++ cond)) k = Some p /\ V p.
    Proof.
      intros Hx Hk. destruct (nth_error (g (x ++ cond)) k) as [p|] eqn:E.
      - exists p. split; [reflexivity|]. pose proof (g_valid x Hx) as HV. rewrite Forall_forall in HV.
        apply HV. eapply nth_error_In, E.
      - apply nth_error_None in E. rewrite g_len in E by exact Hx. lia.
    Qed.
    Lemma maf_fwd_length x : length x = n -> length (maf_fwd tfwd g cond x) = n.
    Proof. intros H. unfold maf_fwd. rewrite vmap_t_length; [exact H | rewrite g_len; auto]. Qed.
    Lemma maf_step_length c k : length (maf_inv_step d tinv g cond c k) = length c.
    Proof. unfold maf_inv_step. apply upd_length. Qed.

    (* --- inverse (transform x) = x --- *)
    Section InvFwd.
      Hypothesis t_inv_fwd : forall p v, V p -> D v -> tinv p (tfwd p v) = v.
      Variable x : list A.
      Hypothesis x_len : length x = n.
      Hypothesis x_dom : Forall D x.
      Let y := maf_fwd tfwd g cond x.

      (* after k passes the carry equals x on [0,k) and y on [k,n) *)
      Definition InvA (c : list A) (k : nat) : Prop :=
        length c = n /\ forall j, nth j c d = if Nat.ltb j k then nth j x d else nth j y d.

      Lemma stepA c k : k < n -> InvA c k -> InvA (maf_inv_step d tinv g cond c k) (S k).
      Proof.
        intros Hk [Hlen Hc]. split; [rewrite maf_step_length; exact Hlen|].
        intros j. unfold maf_inv_step. rewrite nth_upd by lia.
        destruct (Nat.eqb_spec j k) as [->|Hne].
        - destruct (g_block x k x_len Hk) as [p [Hp HVp]].
          assert (Hgc : nth_error (g (c ++ cond)) k = Some p).
          { rewrite <- Hp. apply g_autoreg; [exact Hlen | exact x_len |].
            intros i Hi. rewrite Hc. destruct (Nat.ltb_spec i k); [reflexivity|lia]. }
          rewrite (vmap_t_nth tinv _ _ _ _ Hgc) by lia.
          rewrite Hc. destruct (Nat.ltb_spec k k); [lia|].
          subst y. unfold maf_fwd. rewrite (vmap_t_nth tfwd _ _ _ _ Hp) by lia.
          destruct (Nat.ltb_spec k (S k)); [|lia].
          apply t_inv_fwd; [exact HVp|]. rewrite Forall_forall in x_dom. apply x_dom, nth_In. lia.
        - rewrite Hc. destruct (Nat.ltb_spec j k), (Nat.ltb_spec j (S k)); try reflexivity; lia.
      Qed.
      Lemma foldA : forall m k c, k + m = n -> InvA c k -> InvA (fold_left (maf_inv_step d tinv g cond) (seq k m) c) n.
      Proof.
        induction m as [|m IH]; intros k c Hkm HI; cbn [seq fold_left].
        - now replace n with k by lia.
        - apply IH; [lia|]. apply stepA; [lia | exact HI].
      Qed.
      Lemma maf_inv_fwd_x : maf_inv d tinv g cond y = x.
      Proof.
        unfold maf_inv. assert (Hy : length y = n) by (apply maf_fwd_length, x_len). rewrite Hy.
        destruct (foldA n 0 y) as [Hlen Hn]; [lia| |].
        - split; [exact Hy|]. intros j. reflexivity.
        - apply (nth_ext _ _ d d); [lia|]. intros j Hj. rewrite Hn.
          destruct (Nat.ltb_spec j n); [reflexivity|lia].
      Qed.
    End InvFwd.

    (* --- transform (inverse y) = y --- *)
    Section FwdInv.
      Hypothesis t_fwd_inv : forall p v, V p -> C v -> tfwd p (tinv p v) = v.
      Variable y : list A.
      Hypothesis y_len : length y = n.
      Hypothesis y_cod : Forall C y.

      (* after k passes: untouched on [k,n); on [0,k) coordinate j is the preimage of y_j under the
         block the network computes FROM THE CARRY ITSELF *)
      Definition InvB (c : list A) (k : nat) : Prop :=
        length c = n /\ (forall j, k <= j -> nth j c d = nth j y d) /\
        (forall j p, j < k -> nth_error (g (c ++ cond)) j = Some p -> nth j c d = tinv p (nth j y d)).

      Lemma stepB c k : k < n -> InvB c k -> InvB (maf_inv_step d tinv g cond c k) (S k).
      Proof.
        intros Hk (Hlen & Hhi & Hlo).
        assert (Hlen' : length (maf_inv_step d tinv g cond c k) = n) by (rewrite maf_step_length; exact Hlen).
        assert (Hsame : forall j, j <> k -> nth j (maf_inv_step d tinv g cond c k) d = nth j c d).
        { intros j Hj. unfold maf_inv_step. rewrite nth_upd by lia. destruct (Nat.eqb_spec j k); [lia|reflexivity]. }
        assert (Hblk : forall j, j <= k -> nth_error (g (maf_inv_step d tinv g cond c k ++ cond)) j = nth_error (g (c ++ cond)) j).
        { intros j Hj. apply g_autoreg; [exact Hlen' | exact Hlen|]. intros i Hi. apply Hsame. lia. }
        split; [exact Hlen'|]. split.
        - intros j Hj. rewrite Hsame by lia. apply Hhi. lia.
        - intros j p Hj Hp. rewrite Hblk in Hp by lia.
          destruct (Nat.eq_dec j k) as [->|Hne].
          + unfold maf_inv_step. rewrite nth_upd by lia. rewrite Nat.eqb_refl.
            rewrite (vmap_t_nth tinv _ _ _ _ Hp) by lia. f_equal. apply Hhi. lia.
          + rewrite Hsame by exact Hne. apply Hlo; [lia | exact Hp].
      Qed.
      Lemma foldB : forall m k c, k + m = n -> InvB c k -> InvB (fold_left (maf_inv_step d tinv g cond) (seq k m) c) n.
      Proof.
        induction m as [|m IH]; intros k c Hkm HI; cbn [seq fold_left].
        - now replace n with k by lia.
        - apply IH; [lia|]. apply stepB; [lia | exact HI].
      Qed.
      Lemma maf_fwd_inv_y : maf_fwd tfwd g cond (maf_inv d tinv g cond y) = y.
      Proof.
        unfold maf_inv. rewrite y_len.
        destruct (foldB n 0 y) as (Hlen & _ & Hlo); [lia| |].
        - split; [exact y_len|]. split; [reflexivity|]. intros j p Hj. lia.
        - set (x := fold_left _ _ _) in *.
          apply (nth_ext _ _ d d); [rewrite maf_fwd_length; lia|].
          intros j Hj. rewrite maf_fwd_length in Hj by exact Hlen.
          destruct (g_block x j Hlen Hj) as [p [Hp HVp]].
          unfold maf_fwd. rewrite (vmap_t_nth tfwd _ _ _ _ Hp) by lia.
          rewrite (Hlo j p Hj Hp). apply t_fwd_inv; [exact HVp|].
          rewrite Forall_forall in y_cod. apply y_cod, nth_In. lia.
      Qed.
    End FwdInv.
  End MAF.
End Wiring.

(* the statements with every hypothesis explicit *)
Definition maf_inv_fwd := @maf_inv_fwd_x.
Definition maf_fwd_inv := @maf_fwd_inv_y.
Check maf_inv_fwd. Check maf_fwd_inv.
