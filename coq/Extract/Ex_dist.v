(* Extraction of the distribution / bijection-expression model (Model/Dist.v, generic over NumOps) to
   OCaml.  ExtrOcamlBasic only; no Extract Constant; the float NumOps record lives in ocaml/fops.ml. *)
Require Extraction.
Require Import ExtrOcamlBasic.
From FJ Require Import Model.Num Model.Leaves Model.Dist.
Extraction Language OCaml.
Cd "../ocaml/gen".
Extraction "dist.ml" leaf_fwd leaf_inv leaf_ldf leaf_ldi run_fwd_ld run_inv_ld run_fwd run_inv
  merge_chains merge_transforms collect base_logp logp sample sample_lp.
Cd "../../coq".
