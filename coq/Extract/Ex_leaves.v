(* Extraction of the leaf-bijection models (Model/Leaves.v, generic over NumOps) to OCaml.
   ExtrOcamlBasic only; no Extract Constant; the float NumOps record lives in ocaml/fops.ml. *)
Require Extraction.
Require Import ExtrOcamlBasic.
From FJ Require Import Model.Num Model.Leaves.
Extraction Language OCaml.
Cd "../ocaml/gen".
Extraction "leaves.ml" affine_fwd affine_inv affine_ld loc_fwd loc_inv scale_fwd scale_inv
  exp_fwd exp_inv exp_ld_fwd exp_ld_inv softplus_fwd softplus_ld_fwd softplus_inv softplus_ld_inv
  tanh_log_grad tanh_fwd tanh_inv tanh_ld_fwd tanh_ld_inv leaky_grad leaky_icpt leaky_fwd leaky_ld_fwd leaky_inv leaky_ld_inv
  rqs_fwd rqs_inv rqs_deriv rqs_ld_fwd rqs_ld_inv rqs_fwd_old rqs_inv_old
  lift lift_ld lift2 lift3 tri_fwd tri_ld tri_inv planar_u planar_u_old planar_fwd planar_ld_fwd planar_inv planar_ld_inv sum.
Cd "../../coq".
