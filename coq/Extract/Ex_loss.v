(* Extraction of the executable loss models (Model/Losses.v) to OCaml.  ExtrOcamlBasic only; no
   Extract Constant; nat/positive/Z stay the extracted inductives. *)
Require Extraction.
Require Import ExtrOcamlBasic.
From FJ Require Import Model.Num Model.Losses.
Extraction Language OCaml.
Cd "../ocaml/gen".
Extraction "loss.ml" mean ml_loss logsumexp logsumexp_plain gatherz single_x_loss contrastive_rows
  arange delete_at get_contrastive_idxs contrastive_loss elbo_loss DOps d_stop.
Cd "../../coq".
