(* Extraction of Model/Data.v (C15) to OCaml.  ExtrOcamlBasic only; nat stays the extracted
   inductive; no Extract Constant.  [perm] is an ordinary function argument: the driver passes
   [table_perm tbl] built from the concrete permutations JAX produced. *)
Require Extraction.
Require Import ExtrOcamlBasic.
From Coq Require Import ZArith List.
From FJ Require Import Model.Data.
(* ocaml/conv.ml (shared, not ours) mentions the constructors of positive and Z; this model is
   purely over nat, so one Z-valued helper is extracted along to make those types exist. *)
Definition rows_to_Z (a : array) : list Z := map Z.of_nat a.
Extraction Language OCaml.
Cd "../ocaml/gen".
Extraction "data.ml" fit fit_epochs fit_trace fit_perm_keys fit_raised train_val_split get_batches
  zip_batches id_perm table_perm c_x c_cond rows_to_Z.
Cd "../../coq".
