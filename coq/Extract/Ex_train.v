(* Extraction of the executable model (Model/*.v) to OCaml.  ExtrOcamlBasic only: bool, option,
   list, prod, unit, sumbool map to the OCaml types; nat, positive, Z, Q stay the extracted
   inductives.  No Extract Constant. *)
Require Extraction.
Require Import ExtrOcamlBasic.
From FJ Require Import Model.Train.
Extraction Language OCaml.
Cd "../ocaml/gen".
Extraction "train.ml" fit_data_loop fit_var_loop fit_var_loop_old count_fruitless.
Cd "../../coq".
