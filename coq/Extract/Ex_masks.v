(* Extraction of the executable model Model/Masks.v (property C09) to OCaml.  ExtrOcamlBasic only: bool, option,
   list, prod, unit, sumbool map to the OCaml types; nat, positive, Z stay the extracted inductives.
   No Extract Constant.  The carrier-generic functions are extracted polymorphically; the driver runs them at
   OCaml floats. *)
Require Extraction.
Require Import ExtrOcamlBasic.
From FJ Require Import Model.Masks.
Extraction Language OCaml.
Cd "../ocaml/gen".
Extraction "masks.ml" rank_based_mask block_diag_mask block_tril_mask
  maf_in_ranks maf_hidden_ranks maf_out_ranks mlp_masks maf_masks reach maf_param_dep maf_transform_dep coupling_dep
  masked_mlp maf_params maf_transform coupling_transform
  bnaf_block_shapes bnaf_tril_masks bnaf_diag_masks bnaf_transform bnaf_weight.
Cd "../../coq".
