(* Extraction of the executable pytree / wrapper model (Model/Tree.v) to OCaml.  ExtrOcamlBasic only;
   nat, positive, Z stay the extracted inductives.  No Extract Constant. *)
Require Extraction.
Require Import ExtrOcamlBasic.
From FJ Require Import Model.Num Model.Tree.
Extraction Language OCaml.
Cd "../ocaml/gen".
Extraction "tree.ml" unwrap_num unwrap_trace_num part_num non_trainable_num n_params count_trainable ctor
  fit_shift serialise_num deserialise_num flatten_num unflatten_num wf_module comb cleanb wrapper_ids postorder_ids.
Cd "../../coq".
