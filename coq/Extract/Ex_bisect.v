(* Extraction of Model/Bisect.v.  ExtrOcamlBasic only; nat/positive/Z/Q stay the extracted inductives;
   no Extract Constant.  The model is polymorphic in the ordered-field record; the driver runs it at
   [QOps] (exact rationals). *)
Require Extraction.
Require Import ExtrOcamlBasic.
From FJ Require Import Model.Bisect.
Extraction Language OCaml.
Cd "../ocaml/gen".
Extraction "bisect.ml" adapt search search_fn autoreg autoreg_tri eval_fn tri_eval QOps.
Cd "../../coq".
