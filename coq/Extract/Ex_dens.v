(* Extraction of the executable model of the named distribution families (Model/Dens.v) to OCaml.
   ExtrOcamlBasic only; no Extract Constant; nat stays the extracted inductive. *)
Require Extraction.
Require Import ExtrOcamlBasic.
From FJ Require Import Model.Num Model.Dens.
Extraction Language OCaml.
Cd "../ocaml/gen".
Extraction "dens.ml" sampler_prim class_log_prob fam_log_prob obj_log_prob obj_raw ctor2 ctor3
  acc_loc acc_scale acc_minval acc_maxval acc_rate exponential_scales fam_sample obj_sample
  log_softmax logsumexp mixture_raw mixture_log_prob fam_mixture_log_prob
  mvn_z mvn_log_prob mvn_sample mvn_cov bcast bshape_rev.
Cd "../../coq".
