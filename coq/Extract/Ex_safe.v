(* Extraction of the expression language (Model/Expr.v: eval, vjp, safeb, crit and the terms of the
   formulas as coded) to OCaml.  ExtrOcamlBasic only; no Extract Constant; the float NumOps record
   lives in ocaml/fops.ml. *)
Require Extraction.
Require Import ExtrOcamlBasic.
From FJ Require Import Model.Num Model.Expr.
Extraction Language OCaml.
Cd "../ocaml/gen".
Extraction "safe.ml" eval ceval ieval vjp safeb crit gidx lp_t fwd_t inv_t ld_fwd_t ld_inv_t base_lp_t norm_logpdf_t
  rqs_deriv_t rqs_deriv_old_t rqs_deriv_zero_t nV push lp_chain chain_steps chain_nvars margin prim_t log_prob_classes post cadd.
Cd "../../coq".
