(* Extraction of the batching model (Model/Vectorize.v) to OCaml.  ExtrOcamlBasic only; nat, positive, Z
   stay the extracted inductives.  No Extract Constant. *)
Require Extraction.
Require Import ExtrOcamlBasic.
From FJ Require Import Model.Vectorize.
Extraction Language OCaml.
Cd "../ocaml/gen".
Extraction "vect.ml" broadcast_shapes bproj ndindex ravel get_sample_keys plan_logprob plan_sample
  sample_out_shape broadcast_to tsub flatten run_logprob run_sample.
Cd "../../coq".
