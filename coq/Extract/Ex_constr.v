(* Extraction of the executable model of C11 (Model/Constr.v) to OCaml.  ExtrOcamlBasic only;
   nat, positive, Z stay the extracted inductives; no Extract Constant.  The model is polymorphic in
   NumOps; the driver passes the float record. *)
Require Extraction.
Require Import ExtrOcamlBasic.
From FJ Require Import Model.Num Model.Constr.
Extraction Language OCaml.
Cd "../ocaml/gen".
Extraction "constr.ml" softplus softplus_inv pos_init pos_unwrap pos_rejects df_rejects
  uniform_rejects uniform_init uniform_maxval rate_rejects rate_init rate_of
  mix_rejects mix_init mix_logw mix_weights min_scale_init min_scale_unwrap min_scale_rejects
  knots knots_rejects derivs deriv_init planar_act_scale planar_wu planar_denom planar_denom_old planar_rejects
  norm wn_unwrap wn_init tri_unwrap tri_init tri_rejects mmulT perm_rejects.
Cd "../../coq".
