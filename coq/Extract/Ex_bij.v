(* Extraction of the tensor / bijection-tree model (Model/Tensor.v, Model/Bij.v) to OCaml.
   ExtrOcamlBasic only; nat, positive, Z stay the extracted inductives.  No Extract Constant. *)
Require Extraction.
Require Import ExtrOcamlBasic.
From FJ Require Import Model.Num Model.Tensor Model.Bij.
Extraction Language OCaml.
Cd "../ocaml/gen".
Extraction "bij.ml" run_meth run den sig_of flatten unflatten tshape has_shape
  stack_shape_old vmap_cshape_old merge_chains chain_slice is_chain resolve_idx idx_shape idx_supported.
Cd "../../coq".
