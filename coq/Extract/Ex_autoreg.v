(* Extraction of the layer-level models of MaskedAutoregressive / Coupling (Model/AutoregNet.v, generic over
   NumOps) to OCaml.  ExtrOcamlBasic only; no Extract Constant; the float NumOps record lives in ocaml/fops.ml. *)
Require Extraction.
Require Import ExtrOcamlBasic.
From FJ Require Import Model.Num Model.Masks Model.AutoregNet.
Extraction Language OCaml.
Cd "../ocaml/gen".
Extraction "autoreg.ml" mlp unwrap_weights act_of npar t_params
  maf_cond_net maf_cond_net_unwrapped maf_g maf_transform maf_transform_and_log_det maf_inverse maf_inverse_and_log_det maf_tparams
  coup_cond_net coup_g coup_transform coup_transform_and_log_det coup_inverse coup_inverse_and_log_det coup_tparams
  maf_masks affine_min_scale_init rqs_init.
Cd "../../coq".
