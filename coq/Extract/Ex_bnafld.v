(* Extraction of the log-det model of BlockAutoregressiveNetwork (Model/BnafLd.v, generic over NumOps) to OCaml.
   ExtrOcamlBasic only; no Extract Constant; the float NumOps record lives in ocaml/fops.ml. *)
Require Extraction.
Require Import ExtrOcamlBasic.
From FJ Require Import Model.Num Model.Masks Model.BnafLd.
Extraction Language OCaml.
Cd "../ocaml/gen".
Extraction "bnafld.ml" bnaf_tld bnaf_tld_act bact_fwd bact_ld logmatmulexp lme3 ld_chain bnaf_ld_run log_block_diag act_log_jac_3d
  unwrap_ws_g unwrap_layer_g bnaf_block_shapes bnaf_transform.
Cd "../../coq".
