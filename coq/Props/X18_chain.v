(* C18 lifted to compositions (what the flows are): log_prob of Transformed(base, Chain[...] | Invert(Chain[...])) over the leaf
   terms of Model/Expr.v.  Only the property theorems (each closed by [exact]) and their [Print Assumptions].
   Model: Model/Expr.v ([chain_t], [lp_chain], [chain_steps]: chain.py's right-to-left inverse_and_log_det / left-to-right
   transform_and_log_det with accumulated log-dets; every intermediate point and log-det is let-bound once).
   Lemmas: Proofs/SafeChainP.v.  Exact over R; float overflow is not modelled. *)
From Coq Require Import Reals List ZArith Bool.
From FJ Require Import Model.Num Proofs.RNum Model.Expr Proofs.SafeP Proofs.SafeChainP.
Import ListNotations.
Open Scope R_scope.

(* one layer: valid parameters + the domain condition on the value that enters it => its point and log-det terms are Safe *)
Theorem C18_chain_step_safe : forall (s : step) (en : env R) (i : nat),
  step_valid s en -> (i < length (vars en))%nat -> step_dom s (nth i (vars en) 0) ->
  Safe en (step_pt s (length (vars en)) (Var i)) /\
  forall v, Safe (push en v) (step_ld s (S (length (vars en))) (Var i) (Var (length (vars en)))).
Proof. exact step_safe. Qed.
Print Assumptions C18_chain_step_safe.

(* composition: if every layer's parameters are valid and the running value satisfies the domain condition of each layer it
   enters (run_dom: Exp^-1 / SoftPlus^-1 need a positive, Tanh^-1 a value in (-1,1); nothing for the others), the composed
   log_prob term is Safe *)
Theorem C18_safe_compose : forall steps (en : env R) i acc normal,
  (forall s, In s steps -> step_valid s en) -> (i < length (vars en))%nat -> (2 < length (vars en))%nat ->
  (normal = true -> nth 2 (vars en) 0 <> 0) -> acc_ok acc -> run_dom steps en i ->
  Safe en (chain_t steps (Var i) acc (length (vars en)) (base_lp_at normal (Var 1) (Var 2))).
Proof. exact safe_compose. Qed.
Print Assumptions C18_safe_compose.

Theorem C18_chain_safe_general : forall normal outer ls (en : env R),
  length (vars en) = chain_nvars ls -> (forall s, In s (chain_steps outer ls) -> step_valid s en) ->
  (normal = true -> nth 2 (vars en) 0 <> 0) -> run_dom (chain_steps outer ls) en 0 ->
  Safe en (lp_chain normal outer ls).
Proof. exact chain_safe_general. Qed.
Print Assumptions C18_chain_safe_general.

(* the concrete family {Affine (scale <> 0), LeakyTanh, RationalQuadraticSpline (valid knots)}*, each layer possibly wrapped in
   Invert, the chain possibly wrapped in Invert, ANY length and order: no domain condition remains; the log_prob is finite and
   so is its gradient w.r.t. the input and EVERY parameter of EVERY layer, at every real input *)
Theorem C18_chain_affine_leaky_rqs_finite : forall normal outer ls (en : env R),
  (forall l, In l ls -> total_kind (fst l)) -> length (vars en) = chain_nvars ls ->
  (forall s, In s (chain_steps outer ls) -> step_valid s en) -> (normal = true -> nth 2 (vars en) 0 <> 0) ->
  (exists v, eval OROps (lift en) (lp_chain normal outer ls) = Some v) /\
  (forall t, exists r, vjp OROps (lift en) (lp_chain normal outer ls) (Some 1) t = Some r).
Proof. exact chain_affine_leaky_rqs_finite. Qed.
Print Assumptions C18_chain_affine_leaky_rqs_finite.

(* moving a leaf term to a layer's own parameter arrays preserves value and Safe *)
Theorem C18_shift_par_safe : forall k e (en : env R),
  (Safe en (shift_par k e) <-> Safe (dropp k en) e) /\ eval ROps en (shift_par k e) = eval ROps (dropp k en) e.
Proof. exact shift_par_safe_eval. Qed.
Print Assumptions C18_shift_par_safe.

(* non-vacuity: Transformed(Normal(1/2, 2) | StandardNormal, [Invert] Chain[LeakyTanh(3), Invert(Affine(1,-2)), spline on (2,6)])
   at EVERY real x *)
Example C18_example_chain : forall x outer normal,
  (exists v, eval OROps (lift (ex_env x)) (lp_chain normal outer ex_layers) = Some v) /\
  (forall t, exists r, vjp OROps (lift (ex_env x)) (lp_chain normal outer ex_layers) (Some 1) t = Some r).
Proof. exact ex_chain_finite. Qed.
Example C18_example_chain_steps :
  map (fun s => (s_kind s, s_fwd s, s_vo s, s_po s)) (chain_steps false ex_layers) =
    [(LRqs, false, 17%nat, 6%nat); (LAffine, true, 10%nat, 3%nat); (LLeaky, false, 3%nat, 0%nat)].
Proof. reflexivity. Qed.
