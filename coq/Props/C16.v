(* C16 -- Training loops stop and select parameters as documented.
   This file contains only the property theorems (each closed by [exact]) and their
   [Print Assumptions].  Model: Model/Train.v.  Lemmas: Proofs/TrainP.v. *)
From Coq Require Import List ZArith Bool.
From FJ Require Import Model.Train Proofs.TrainP.
Import ListNotations.
Open Scope Z_scope.

(* fit_to_data runs at most max_epochs epochs and records one train and one validation loss per
   epoch run -- every history [vals], every patience P, every max_epochs m. *)
Theorem C16_data_epochs_le_max : forall P vals m rb,
  let r := fit_data_loop P vals m rb in (snd (snd r) <= m)%nat /\ fst (snd r) = snd (snd r).
Proof. exact data_epochs_le_max. Qed.
Print Assumptions C16_data_epochs_le_max.

(* It consumes a prefix of the history, stops at the FIRST epoch that exhausts patience and never
   earlier; if it stops before the epochs available ran out, that epoch did exhaust patience. *)
Theorem C16_data_stop_rule : forall P vals m,
  let avail := firstn m vals in
  let n := length (seen (run P vals m)) in
  (n <= length avail)%nat /\ seen (run P vals m) = firstn n avail /\
  (forall e, (1 <= e < n)%nat -> exhausted P avail e = false) /\
  ((n < length avail)%nat -> (1 <= n)%nat /\ exhausted P avail n = true).
Proof. exact data_stop_rule. Qed.
Print Assumptions C16_data_stop_rule.

(* For distinct losses "exhausted" is exactly: more than P epochs since the best validation loss. *)
Theorem C16_exhausted_distinct : forall P vals e, (1 <= e <= length vals)%nat -> NoDup (firstn e vals) ->
  exhausted P vals e = (P <? e - 1 - argmin (firstn e vals))%nat.
Proof. exact exhausted_distinct. Qed.
Print Assumptions C16_exhausted_distinct.

(* Returned parameters: the last ones without return_best; with return_best those of the (last)
   epoch attaining the minimum validation loss, the initial ones if no epoch ran. *)
Theorem C16_data_returned_params : forall P vals m rb,
  let s := run P vals m in
  fst (fit_data_loop P vals m rb) = (if rb then best s else length (seen s)) /\ best_ok (seen s) (best s).
Proof. exact data_returned_params. Qed.
Print Assumptions C16_data_returned_params.

Theorem C16_data_returns_argmin_distinct : forall P vals m, NoDup vals ->
  let s := run P vals m in
  fst (fit_data_loop P vals m true) = match seen s with [] => O | _ => S (argmin (seen s)) end.
Proof. exact data_returns_argmin_distinct. Qed.
Print Assumptions C16_data_returns_argmin_distinct.

(* fit_to_variational_target: exactly [steps] steps, one loss per step. *)
Theorem C16_var_steps_and_losses : forall losses steps rb, (steps <= length losses)%nat ->
  snd (fit_var_loop losses steps rb) = steps /\ vseen (vrun losses steps) = firstn steps losses.
Proof. exact var_steps_and_losses. Qed.
Print Assumptions C16_var_steps_and_losses.

(* ... and with return_best the parameters AT WHICH the minimum recorded loss was evaluated. *)
Theorem C16_var_returned_params : forall losses steps rb,
  let s := vrun losses steps in
  fst (fit_var_loop losses steps rb) = (if rb then vbest s else length (firstn steps losses)) /\
  vbest_ok (firstn steps losses) (vbest s).
Proof. exact var_returned_params. Qed.
Print Assumptions C16_var_returned_params.

Theorem C16_var_returns_argmin_distinct : forall losses steps, NoDup losses -> (1 <= steps)%nat -> losses <> [] ->
  fst (fit_var_loop losses steps true) = argmin (firstn steps losses).
Proof. exact var_returns_argmin_distinct. Qed.
Print Assumptions C16_var_returns_argmin_distinct.

(* The loop as it was before the repair (finding D5) violates the last statement. *)
Theorem C16_variational_best_old_refuted :
  exists losses steps, NoDup losses /\ fst (fit_var_loop_old losses steps true) <> argmin (firstn steps losses).
Proof. exact variational_best_old_refuted. Qed.
Print Assumptions C16_variational_best_old_refuted.

(* Non-vacuity: concrete runs that meet the hypotheses and exercise stopping. *)
Example C16_example_stop : fit_data_loop 1 [5;3;4;6;1;0] 10 true = (2%nat, (4%nat, 4%nat)).
Proof. vm_compute. reflexivity. Qed.
Example C16_example_exhausted : exhausted 1 [5;3;4;6;1;0] 4 = true /\ exhausted 1 [5;3;4;6;1;0] 3 = false.
Proof. vm_compute. split; reflexivity. Qed.
Example C16_example_var : fit_var_loop [4;1;16;64] 4 true = (1%nat, 4%nat) /\ fit_var_loop_old [4;1;16;64] 4 true = (2%nat, 4%nat).
Proof. vm_compute. split; reflexivity. Qed.
