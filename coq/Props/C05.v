(* C05 -- Named distribution families match their textbook densities and samplers.
   Only the property theorems (each closed by [exact]) with their [Print Assumptions], and non-vacuity examples.
   Model: Model/Dens.v (the classes AS THE CODE BUILDS THEM, generic over NumOps, IEEE classes as values).
   Lemmas and the textbook densities ([normal_pdf] ... [t_pdf], [elog], [esum]): Proofs/DensP.v.
   All theorems are over R ("exact over R; float rounding not modelled"); [lgam] is the abstract lgamma shared by
   model ([n_lgamma]) and textbook form.  [map Fin xs] = an arbitrary point with real coordinates. *)
From Coq Require Import Reals List ZArith Bool Lra Lia.
(* LeafDerivP (prodR) and DetP (detF) first: Model.Dens must shadow LeafDerivP's unrelated lemma [scale_ldj] *)
From FJ Require Import Proofs.LeafDerivP Proofs.DetP.
From FJ Require Import Model.Num Model.Dens Proofs.RNum Proofs.DensP.
Import ListNotations.
Open Scope R_scope.

(* ---- each family: code-shaped log_prob = SUM over the coordinates of ln(textbook density), -inf where it vanishes;
   any dimension (lists of any length), all valid parameters, every real point ---- *)
Theorem C05_normal_spec : forall lgam locs scales xs,
  length locs = length xs -> length scales = length xs -> Forall (fun s => 0 < s) scales ->
  fam_log_prob (ROpsG lgam) FNormal locs scales [] (map Fin xs) = esum (map3 (fun m s x => elog (normal_pdf m s x)) locs scales xs).
Proof. exact normal_spec. Qed.
Print Assumptions C05_normal_spec.

(* x <= 0 in any coordinate gives -inf (lognormal_pdf is 0 there) *)
Theorem C05_lognormal_spec : forall lgam locs scales xs,
  length locs = length xs -> length scales = length xs -> Forall (fun s => 0 < s) scales ->
  fam_log_prob (ROpsG lgam) FLogNormal locs scales [] (map Fin xs) = esum (map3 (fun m s x => elog (lognormal_pdf m s x)) locs scales xs).
Proof. exact lognormal_spec. Qed.
Print Assumptions C05_lognormal_spec.

(* constructor arguments (minval, maxval); density 1/(maxval - minval) on the CLOSED interval, 0 outside *)
Theorem C05_uniform_spec : forall lgam los his xs,
  length los = length xs -> length his = length xs -> Forall2 Rlt los his ->
  fam_log_prob (ROpsG lgam) FUniform los his [] (map Fin xs) = esum (map3 (fun lo hi x => elog (uniform_pdf lo hi x)) los his xs).
Proof. exact uniform_spec. Qed.
Print Assumptions C05_uniform_spec.

Theorem C05_gumbel_spec : forall lgam locs scales xs,
  length locs = length xs -> length scales = length xs -> Forall (fun s => 0 < s) scales ->
  fam_log_prob (ROpsG lgam) FGumbel locs scales [] (map Fin xs) = esum (map3 (fun m s x => elog (gumbel_pdf m s x)) locs scales xs).
Proof. exact gumbel_spec. Qed.
Print Assumptions C05_gumbel_spec.

Theorem C05_cauchy_spec : forall lgam locs scales xs,
  length locs = length xs -> length scales = length xs -> Forall (fun s => 0 < s) scales ->
  fam_log_prob (ROpsG lgam) FCauchy locs scales [] (map Fin xs) = esum (map3 (fun m s x => elog (cauchy_pdf m s x)) locs scales xs).
Proof. exact cauchy_spec. Qed.
Print Assumptions C05_cauchy_spec.

Theorem C05_laplace_spec : forall lgam locs scales xs,
  length locs = length xs -> length scales = length xs -> Forall (fun s => 0 < s) scales ->
  fam_log_prob (ROpsG lgam) FLaplace locs scales [] (map Fin xs) = esum (map3 (fun m s x => elog (laplace_pdf m s x)) locs scales xs).
Proof. exact laplace_spec. Qed.
Print Assumptions C05_laplace_spec.

Theorem C05_logistic_spec : forall lgam locs scales xs,
  length locs = length xs -> length scales = length xs -> Forall (fun s => 0 < s) scales ->
  fam_log_prob (ROpsG lgam) FLogistic locs scales [] (map Fin xs) = esum (map3 (fun m s x => elog (logistic_pdf m s x)) locs scales xs).
Proof. exact logistic_spec. Qed.
Print Assumptions C05_logistic_spec.

(* constructor argument rate (the code builds Scale(1/rate)); x < 0 gives -inf, x = 0 is inside *)
Theorem C05_exponential_spec : forall lgam rates xs,
  length rates = length xs -> Forall (fun r => 0 < r) rates ->
  fam_log_prob (ROpsG lgam) FExponential rates [] [] (map Fin xs) = esum (map2 (fun r x => elog (exponential_pdf r x)) rates xs).
Proof. exact exponential_spec. Qed.
Print Assumptions C05_exponential_spec.

(* Gamma := exp o lgam in t_pdf, lgam arbitrary *)
Theorem C05_studentt_spec : forall lgam dfs locs scales xs,
  length dfs = length xs -> length locs = length xs -> length scales = length xs ->
  Forall (fun d => 0 < d) dfs -> Forall (fun s => 0 < s) scales ->
  fam_log_prob (ROpsG lgam) FStudentT locs scales dfs (map Fin xs) =
  esum (map4 (fun nu m s x => elog (t_pdf lgam nu m s x)) dfs locs scales xs).
Proof. exact studentt_spec. Qed.
Print Assumptions C05_studentt_spec.

(* independent dimensions: the sum of the marginal log-densities is the log of the PRODUCT of the marginal densities *)
Theorem C05_joint_is_product : forall ps, Forall (fun p => 0 <= p) ps -> esum (map elog ps) = elog (rprod ps).
Proof. exact esum_elog_prod. Qed.
Print Assumptions C05_joint_is_product.

(* ---- never NaN: every NumOps instance (the float one included), every family, every input class ---- *)
Theorem C05_lp_never_nan : forall (A : Type) (O : NumOps A) f p1 p2 p3 xs, fam_log_prob O f p1 p2 p3 xs <> NaN.
Proof. exact @lp_never_nan. Qed.
Print Assumptions C05_lp_never_nan.

Theorem C05_class_lp_never_nan : forall (A : Type) (O : NumOps A) f a b d xs, class_log_prob O f a b d xs <> NaN.
Proof. exact @class_lp_never_nan. Qed.
Print Assumptions C05_class_lp_never_nan.

Theorem C05_mixture_lp_never_nan : forall (A : Type) (O : NumOps A) lps ws, mixture_log_prob O lps ws <> NaN.
Proof. exact @mixture_lp_never_nan. Qed.
Print Assumptions C05_mixture_lp_never_nan.

Theorem C05_mvn_lp_never_nan : forall (A : Type) (O : NumOps A) rows loc x, mvn_log_prob O rows loc x <> NaN.
Proof. exact @mvn_lp_never_nan. Qed.
Print Assumptions C05_mvn_lp_never_nan.

(* ---- mixtures: any number of components; component values finite or -inf ---- *)
Theorem C05_mixture_spec : forall lgam lps ws,
  ws <> [] -> Forall (fun w => 0 < w) ws -> length lps = length ws -> Forall FN lps ->
  mixture_log_prob (ROpsG lgam) lps ws = elog (rsum (map2 (fun lp w => w / rsum ws * eexp lp) lps ws)).
Proof. exact mixture_spec. Qed.
Print Assumptions C05_mixture_spec.

(* invariance under rescaling of the weights: ANY component values *)
Theorem C05_mixture_scale_invariant : forall lgam lps ws k,
  0 < k -> ws <> [] -> Forall (fun w => 0 < w) ws ->
  mixture_log_prob (ROpsG lgam) lps (map (Rmult k) ws) = mixture_log_prob (ROpsG lgam) lps ws.
Proof. exact mixture_scale_invariant. Qed.
Print Assumptions C05_mixture_scale_invariant.

(* components that evaluate to NaN (LogNormal components at x <= 0): the mixture reports -inf *)
Theorem C05_mixture_nan_component : forall lgam lps ws,
  length lps = length ws -> Exists (fun v => v = NaN) lps -> mixture_log_prob (ROpsG lgam) lps ws = NInf.
Proof. exact mixture_nan_component. Qed.
Print Assumptions C05_mixture_nan_component.

(* ---- MultivariateNormal(loc, covariance): TriangularAffine(loc, L) with L the Cholesky factor (rows, lower triangle read),
   Sigma = L L^T.  Vocabulary (Proofs/DensP.v): [Lf rows i j] = L_ij (0 above the diagonal), [Sig rows d i k] = (L L^T)_ik,
   [detF d F] = MathComp's \det of the d x d real matrix (F i j) (Proofs/DetP.v), [cov_inverse rows d M] = "Sigma M = I",
   [quad_form d b M] = b^T M b.  Any dimension d = length rows; guard: positive diagonal ([tri_ok]). ---- *)
(* forward substitution solves L z = x - mu, and log_prob = -1/2 |z|^2 - sum ln L_ii - d/2 ln(2 pi) *)
Theorem C05_mvn_forward_substitution : forall lgam rows loc x,
  length loc = length rows -> length x = length rows -> tri_ok rows ->
  let z := mvn_z (ROpsG lgam) rows loc x in
  length z = length rows /\
  (forall j r bj, nth_error rows j = Some r -> nth_error (map2 (fun xi li => xi - li) x loc) j = Some bj ->
     rdot r (firstn (S j) z) = bj) /\
  mvn_log_prob (ROpsG lgam) rows loc x =
    Fin (- (1 / 2) * rsum (map (fun v => v * v) z) - rsum (map ln (diag_from (ROpsG lgam) 0 rows)) - INR (length rows) / 2 * ln (2 * PI)).
Proof. exact mvn_spec. Qed.
Print Assumptions C05_mvn_forward_substitution.

(* (a) det Sigma = (prod L_ii)^2 > 0, hence sum ln L_ii = 1/2 ln det Sigma *)
Theorem C05_mvn_det : forall lgam rows, tri_ok rows ->
  let d := length rows in
  detF d (Sig rows d) = prodR (diag_from (ROpsG lgam) 0 rows) * prodR (diag_from (ROpsG lgam) 0 rows) /\
  0 < detF d (Sig rows d) /\
  rsum (map ln (diag_from (ROpsG lgam) 0 rows)) = / 2 * ln (detF d (Sig rows d)).
Proof. exact mvn_det. Qed.
Print Assumptions C05_mvn_det.

(* (b) |z|^2 = (x - mu)^T Sigma^-1 (x - mu), Sigma^-1 characterised as ANY M with Sigma M = I *)
Theorem C05_mvn_quadratic_form : forall lgam rows loc x M,
  length loc = length rows -> length x = length rows -> tri_ok rows ->
  let d := length rows in
  cov_inverse rows d M ->
  rsum (map (fun v => v * v) (mvn_z (ROpsG lgam) rows loc x)) = quad_form d (fun i => nth i x 0 - nth i loc 0) M.
Proof. exact mvn_quad. Qed.
Print Assumptions C05_mvn_quadratic_form.

(* the textbook density:  log_prob = -1/2 (x-mu)^T Sigma^-1 (x-mu) - 1/2 ln det Sigma - d/2 ln(2 pi) *)
Theorem C05_mvn_spec : forall lgam rows loc x M,
  length loc = length rows -> length x = length rows -> tri_ok rows ->
  let d := length rows in
  cov_inverse rows d M ->
  mvn_log_prob (ROpsG lgam) rows loc x =
    Fin (- (1 / 2) * quad_form d (fun i => nth i x 0 - nth i loc 0) M - 1 / 2 * ln (detF d (Sig rows d)) - INR d / 2 * ln (2 * PI)).
Proof. exact mvn_full_spec. Qed.
Print Assumptions C05_mvn_spec.

(* the covariance accessor returns L L^T: row dot products, = Sigma when the stored factor is zero above the diagonal *)
Theorem C05_mvn_covariance_accessor : forall lgam rows i k,
  let d := length rows in
  (forall i', length (nth i' rows []) <= d)%nat -> (forall i' j, (i' < j)%nat -> nth j (nth i' rows []) 0 = 0) ->
  (i < d)%nat -> (k < d)%nat -> nth k (nth i (mvn_cov (ROpsG lgam) rows) []) 0 = Sig rows d i k.
Proof. exact mvn_cov_entry. Qed.
Print Assumptions C05_mvn_covariance_accessor.

(* ---- samplers (structural): the sampler pushes the named primitive's draw z through x = z * scale + loc; log_prob's inverse map
   recovers z, so the log-density at a sample is the base log-density of the draw minus sum ln|scale| ---- *)
Theorem C05_sample_density_locscale : forall lgam f dfs locs scales zs,
  plain_locscale f = true -> length locs = length zs -> length scales = length zs -> Forall (fun s => s <> 0) scales ->
  fam_raw (ROpsG lgam) f locs scales dfs (map Fin (fam_sample (ROpsG lgam) f locs scales zs)) =
  e_add (ROpsG lgam) (std_lp (ROpsG lgam) f dfs (map Fin zs)) (scale_ldj (ROpsG lgam) scales).
Proof. exact sample_density_locscale. Qed.
Print Assumptions C05_sample_density_locscale.

Theorem C05_lognormal_sample_recovers : forall lgam locs scales zs,
  length locs = length zs -> length scales = length zs -> Forall (fun s => s <> 0) scales ->
  map3 (affine_inv1 (ROpsG lgam)) locs scales (map (e_log (ROpsG lgam)) (map Fin (fam_sample (ROpsG lgam) FLogNormal locs scales zs))) = map Fin zs.
Proof. exact lognormal_sample_recovers. Qed.
Print Assumptions C05_lognormal_sample_recovers.

Theorem C05_exponential_sample_recovers : forall lgam rates zs,
  length rates = length zs -> Forall (fun r => 0 < r) rates ->
  map2 (scale_inv1 (ROpsG lgam)) (exponential_scales (ROpsG lgam) rates) (map Fin (fam_sample (ROpsG lgam) FExponential rates [] zs)) = map Fin zs.
Proof. exact exponential_sample_recovers. Qed.
Print Assumptions C05_exponential_sample_recovers.

(* ---- accessors return the constructor's values ---- *)
Theorem C05_accessor_maxval : forall lgam los his, length los = length his -> acc_maxval (ROpsG lgam) los his = his.
Proof. exact acc_maxval_R. Qed.
Print Assumptions C05_accessor_maxval.

Theorem C05_accessor_rate : forall lgam rates, Forall (fun r => r <> 0) rates -> acc_rate (ROpsG lgam) rates = rates.
Proof. exact acc_rate_R. Qed.
Print Assumptions C05_accessor_rate.

Theorem C05_accessor_loc_scale : forall lgam f p1 p2, f <> FUniform -> acc_loc f p1 p2 = p1 /\ acc_scale (ROpsG lgam) f p1 p2 = p2.
Proof. exact acc_loc_scale_R. Qed.
Print Assumptions C05_accessor_loc_scale.

(* ---- broadcasting of the constructor arguments: NumPy's index rule ---- *)
Theorem C05_broadcast_index_rule : forall (A : Type) (O : NumOps A) rs rt d i, (i < prodn rt)%nat ->
  nth i (bcast O rs rt d) (c O 0) = nth (bproj rs rt i 1) d (c O 0).
Proof. exact @bcast_nth. Qed.
Print Assumptions C05_broadcast_index_rule.

Theorem C05_broadcast_same_shape : forall s i stride, (i < prodn s)%nat -> bproj s s i stride = (stride * i)%nat.
Proof. exact bproj_same_shape. Qed.
Print Assumptions C05_broadcast_same_shape.

(* the class called with raw constructor arguments of any shapes = the family on the broadcast arrays *)
Theorem C05_class_is_family_on_broadcast : forall lgam f a b d xs, two_arg f = true ->
  class_log_prob (ROpsG lgam) f a b d xs =
  fam_log_prob (ROpsG lgam) f (bcast (ROpsG lgam) (fst a) (bshape_rev (fst a) (fst b)) (snd a))
                             (bcast (ROpsG lgam) (fst b) (bshape_rev (fst a) (fst b)) (snd b)) [] xs.
Proof. exact class_log_prob_ctor2. Qed.
Print Assumptions C05_class_is_family_on_broadcast.

Theorem C05_class_normal_spec : forall lgam a b d xs,
  let rt := bshape_rev (fst a) (fst b) in
  let locs := bcast (ROpsG lgam) (fst a) rt (snd a) in
  let scales := bcast (ROpsG lgam) (fst b) rt (snd b) in
  length xs = prodn rt -> Forall (fun s => 0 < s) scales ->
  class_log_prob (ROpsG lgam) FNormal a b d (map Fin xs) = esum (map3 (fun m s x => elog (normal_pdf m s x)) locs scales xs).
Proof. exact class_normal_spec. Qed.
Print Assumptions C05_class_normal_spec.

(* ================= non-vacuity: concrete instances that meet the hypotheses ================= *)
Example C05_ex_normal_vector :
  fam_log_prob ROps FNormal [1; -2] [2; 1 / 2] [] [Fin 3; Fin 0] =
  esum [elog (normal_pdf 1 2 3); elog (normal_pdf (-2) (1 / 2) 0)].
Proof. apply (normal_spec (fun _ => 0) [1; -2] [2; 1 / 2] [3; 0]); try reflexivity. repeat constructor; lra. Qed.

(* Uniform(-1, 5/2): both edges are inside the support, one step outside is -inf *)
Example C05_ex_uniform_edges :
  fam_log_prob ROps FUniform [-1] [5 / 2] [] [Fin (5 / 2)] = Fin (ln (1 / (5 / 2 - -1)) + 0) /\
  fam_log_prob ROps FUniform [-1] [5 / 2] [] [Fin (-1)] = Fin (ln (1 / (5 / 2 - -1)) + 0) /\
  fam_log_prob ROps FUniform [-1] [5 / 2] [] [Fin 3] = NInf.
Proof.
  assert (H : Forall2 Rlt [-1] [5 / 2]) by (repeat constructor; lra).
  repeat split.
  - rewrite (uniform_spec (fun _ => 0) [-1] [5 / 2] [5 / 2] eq_refl eq_refl H : fam_log_prob ROps FUniform [-1] [5 / 2] [] [Fin (5 / 2)] = _). cbn. unfold uniform_pdf.
    destruct (Rle_dec (-1) (5 / 2)); [|lra]. destruct (Rle_dec (5 / 2) (5 / 2)); [|lra]. rewrite elog_pos by lra. reflexivity.
  - rewrite (uniform_spec (fun _ => 0) [-1] [5 / 2] [-1] eq_refl eq_refl H : fam_log_prob ROps FUniform [-1] [5 / 2] [] [Fin (-1)] = _). cbn. unfold uniform_pdf.
    destruct (Rle_dec (-1) (-1)); [|lra]. destruct (Rle_dec (-1) (5 / 2)); [|lra]. rewrite elog_pos by lra. reflexivity.
  - rewrite (uniform_spec (fun _ => 0) [-1] [5 / 2] [3] eq_refl eq_refl H : fam_log_prob ROps FUniform [-1] [5 / 2] [] [Fin 3] = _). cbn. unfold uniform_pdf.
    destruct (Rle_dec (-1) 3); [|lra]. destruct (Rle_dec 3 (5 / 2)); [lra|]. now rewrite elog_0.
Qed.

(* LogNormal at 0 and Exponential below 0: -inf; one bad coordinate makes the joint -inf *)
Example C05_ex_outside_support :
  fam_log_prob ROps FLogNormal [0; 0] [1; 1] [] [Fin 1; Fin 0] = NInf /\
  fam_log_prob ROps FExponential [2] [] [] [Fin (-1)] = NInf.
Proof.
  split.
  - assert (Hs : Forall (fun s => 0 < s) [1; 1]) by (repeat constructor; lra).
    rewrite (lognormal_spec (fun _ => 0) [0; 0] [1; 1] [1; 0] eq_refl eq_refl Hs : fam_log_prob ROps FLogNormal [0; 0] [1; 1] [] [Fin 1; Fin 0] = _).
    cbn. unfold lognormal_pdf at 2. destruct (Rlt_dec 0 0); [lra|]. rewrite elog_0. now destruct (elog (lognormal_pdf 0 1 1)).
  - assert (Hr : Forall (fun r => 0 < r) [2]) by (repeat constructor; lra).
    rewrite (exponential_spec (fun _ => 0) [2] [-1] eq_refl Hr : fam_log_prob ROps FExponential [2] [] [] [Fin (-1)] = _).
    cbn. unfold exponential_pdf. destruct (Rle_dec 0 (-1)); [lra|]. now rewrite elog_0.
Qed.

(* three unnormalised weights, rescaled by 7 *)
Example C05_ex_mixture :
  mixture_log_prob ROps [Fin 0; NInf; Fin (-1)] (map (Rmult 7) [1; 3; 1 / 2]) = mixture_log_prob ROps [Fin 0; NInf; Fin (-1)] [1; 3; 1 / 2] /\
  mixture_log_prob ROps [Fin 0; NInf; Fin (-1)] [1; 3; 1 / 2] =
    elog (rsum [1 / rsum [1; 3; 1 / 2] * exp 0; 3 / rsum [1; 3; 1 / 2] * 0; 1 / 2 / rsum [1; 3; 1 / 2] * exp (-1)]).
Proof.
  assert (Hw : Forall (fun w => 0 < w) [1; 3; 1 / 2]) by (repeat constructor; lra).
  split.
  - apply (mixture_scale_invariant (fun _ => 0)); [lra|discriminate|exact Hw].
  - assert (Hf : Forall FN [Fin 0; NInf; Fin (-1)]) by (repeat constructor).
    assert (Hne : [1; 3; 1 / 2] <> []) by discriminate.
    exact (mixture_spec (fun _ => 0) [Fin 0; NInf; Fin (-1)] [1; 3; 1 / 2] Hne Hw eq_refl Hf).
Qed.

(* a 2 x 2 Cholesky factor meets tri_ok *)
Example C05_ex_tri_ok : tri_ok [[2; 0]; [1; 3]].
Proof.
  intros [|[|j]] r H; cbn in H; try (destruct j; discriminate); injection H as <-; cbn; split; try lia; lra.
Qed.

(* L = [[2,0],[1,3]]: Sigma = [[4,2],[2,10]], det 36, inverse 1/36 [[10,-2],[-2,4]] meets cov_inverse *)
Example C05_ex_cov_inverse :
  cov_inverse [[2; 0]; [1; 3]] 2 (fun i k => match i, k with
                                             | 0%nat, 0%nat => 10 / 36 | 0%nat, 1%nat => - 2 / 36
                                             | 1%nat, 0%nat => - 2 / 36 | 1%nat, 1%nat => 4 / 36 | _, _ => 0 end).
Proof.
  intros i k Hi Hk. destruct i as [|[|i]]; destruct k as [|[|k]]; try lia; unfold Sig, Lf; cbn; field.
Qed.

(* broadcasting loc of shape (2,1) against scale of shape (3,): event shape (2,3); index plans (shapes reversed) *)
Example C05_ex_broadcast :
  bshape_rev [1; 2]%nat [3]%nat = [3; 2]%nat /\
  map (fun i => bproj [1; 2]%nat [3; 2]%nat i 1) (seq 0 6) = [0; 0; 0; 1; 1; 1]%nat /\
  map (fun i => bproj [3]%nat [3; 2]%nat i 1) (seq 0 6) = [0; 1; 2; 0; 1; 2]%nat /\
  map (fun i => bproj [] [3; 2]%nat i 1) (seq 0 6) = [0; 0; 0; 0; 0; 0]%nat.
Proof. vm_compute. repeat split; reflexivity. Qed.
