(* C05 placeholder while the tie is being built; replaced by the theorems. *)
From FJ Require Import Model.Dens.
