(* C18 -- Finite log-probabilities have finite gradients; log_prob is never NaN.
   Only the property theorems (each closed by [exact]) and their [Print Assumptions].
   Model: Model/Expr.v (expression language, eval, reverse-mode vjp from JAX's adjoint rules, terms of the formulas
   as coded).  Lemmas: Proofs/ExprP.v (eval = the shallow models of Model/Leaves.v), Proofs/SafeP.v.
   Exact over R: option R makes inf/NaN explicit (None, absorbing; 0 * None = None), float overflow is not modelled. *)
From Coq Require Import Reals List ZArith Bool.
From FJ Require Import Model.Num Proofs.RNum Model.Leaves Model.Expr Proofs.ExprP Proofs.SafeP.
Import ListNotations.
Open Scope R_scope.

(* ---------- the deep embedding IS the shallow model the other properties use (every NumOps, all arguments) ---------- *)
Theorem C18_eval_matches_leaves_leaky : forall A (O : NumOps A) m g ic y,
  eval O (en1 [y; m; g; ic]) (leaky_inv_t (Var 1) (Var 2) (Var 3) (Var 0)) = leaky_inv O m g ic y /\
  eval O (en1 [y; m; g; ic]) (leaky_fwd_t (Var 1) (Var 2) (Var 3) (Var 0)) = leaky_fwd O m g ic y /\
  eval O (en1 [y; m; g; ic]) (leaky_ld_fwd_t 4 (Var 1) (Var 2) (Var 0)) = leaky_ld_fwd O m g y /\
  eval O (en1 [y; m; g; ic]) (leaky_ld_inv_t 4 (Var 1) (Var 2) (Var 3) (Var 0)) = leaky_ld_inv O m g ic y.
Proof. exact @ev_leaky_all. Qed.
Print Assumptions C18_eval_matches_leaves_leaky.

Theorem C18_eval_matches_leaves_rqs : forall A (O : NumOps A) xp yp dv lo hi x,
  eval O (enr [x; lo; hi] xp yp dv) (rqs_fwd_t 3 (Var 1) (Var 2) (Var 0)) = rqs_fwd O xp yp dv lo hi x /\
  eval O (enr [x; lo; hi] xp yp dv) (rqs_inv_t 3 (Var 1) (Var 2) (Var 0)) = rqs_inv O xp yp dv lo hi x /\
  eval O (enr [x; lo; hi] xp yp dv) (rqs_deriv_t 3 (Var 1) (Var 2) (Var 0)) = rqs_deriv O xp yp dv lo hi x /\
  eval O (enr [x; lo; hi] xp yp dv) (rqs_ld_fwd_t 3 (Var 1) (Var 2) (Var 0)) = rqs_ld_fwd O xp yp dv lo hi x /\
  eval O (enr [x; lo; hi] xp yp dv) (rqs_ld_inv_t 3 (Var 1) (Var 2) (Var 0)) = rqs_ld_inv O xp yp dv lo hi x /\
  eval O (enr [x; lo; hi] xp yp dv) (rqs_fwd_old_t 3 (Var 1) (Var 2) (Var 0)) = rqs_fwd_old O xp yp dv lo hi x /\
  eval O (enr [x; lo; hi] xp yp dv) (rqs_inv_old_t 3 (Var 1) (Var 2) (Var 0)) = rqs_inv_old O xp yp dv lo hi x.
Proof. exact @ev_rqs_all. Qed.
Print Assumptions C18_eval_matches_leaves_rqs.

Theorem C18_eval_matches_leaves_other : forall A (O : NumOps A) loc scale x,
  eval O (en1 [x]) (tanh_log_grad_t 1 (Var 0)) = tanh_log_grad O x /\
  eval O (en1 [x]) (softplus_inv_t (Var 0)) = softplus_inv O x /\
  eval O (en1 [x]) (softplus_ld_inv_t 1 (Var 0)) = softplus_ld_inv O x /\
  eval O (en1 [x]) (softplus_ld_fwd_t (Var 0)) = softplus_ld_fwd O x /\
  eval O (en1 [x]) (exp_inv_t (Var 0)) = exp_inv O x /\
  eval O (en1 [x]) (exp_ld_inv_t 1 (Var 0)) = exp_ld_inv O x /\
  eval O (en1 [x]) (tanh_inv_t (Var 0)) = tanh_inv O x /\
  eval O (en1 [x]) (tanh_ld_inv_t 1 (Var 0)) = tanh_ld_inv O x /\
  eval O (en1 [x; loc; scale]) (affine_fwd_t (Var 1) (Var 2) (Var 0)) = affine_fwd O loc scale x /\
  eval O (en1 [x; loc; scale]) (affine_inv_t (Var 1) (Var 2) (Var 0)) = affine_inv O loc scale x /\
  eval O (en1 [x; loc; scale]) (affine_ld_t (Var 2)) = affine_ld O scale.
Proof. exact @ev_other_all. Qed.
Print Assumptions C18_eval_matches_leaves_other.

(* ---------- the meta-theorem: Safe => the value and EVERY adjoint (input, scalar field, array entry) are finite ---------- *)
Theorem C18_safe_finite : forall (en : env R) (e : expr), Safe en e ->
  eval OROps (lift en) e = Some (eval ROps en e) /\
  forall g t, vjp OROps (lift en) e (Some g) t = Some (vjp ROps en e g t).
Proof. exact safe_finite. Qed.
Print Assumptions C18_safe_finite.

(* the extracted boolean decides Safe at the reals *)
Theorem C18_safeb_decides_Safe : forall (en : env R) (e : expr), safeb ROps en e = true <-> Safe en e.
Proof. exact safeb_Safe. Qed.
Print Assumptions C18_safeb_decides_Safe.

(* the jnp.where pitfall: where(x <= 0, 1, log x) at x = 0 has a finite value and a poisoned gradient; it is not Safe *)
Theorem C18_where_pitfall_refuted :
  eval OROps (lift (en_of [0])) pit = Some 1 /\ vjp OROps (lift (en_of [0])) pit (Some 1) (TVar 0) = None /\ ~ Safe (en_of [0]) pit.
Proof. exact where_pitfall. Qed.
Print Assumptions C18_where_pitfall_refuted.

(* ---------- Safe of every formula as coded, at ALL real inputs and ALL valid parameters ---------- *)
(* (the per-formula lemmas leaky_inv_safe, leaky_fwd_safe, rqs_fwd_safe, rqs_deriv_safe, rqs_inv_safe, softplus_inv_safe, ...
   of Proofs/SafeP.v are compositional -- the input may be any Safe term; here they are grouped per class) *)
(* LeakyTanh: every real x and max_val, linear_grad > 0 (the constructor's exp(...) always is) *)
Theorem C18_leaky_safe : forall m g ic x, 0 < g ->
  Safe (en_of [x; m; g; ic]) (leaky_inv_t (Var 1) (Var 2) (Var 3) (Var 0)) /\
  Safe (en_of [x; m; g; ic]) (leaky_fwd_t (Var 1) (Var 2) (Var 3) (Var 0)) /\
  Safe (en_of [x; m; g; ic]) (leaky_ld_fwd_t 4 (Var 1) (Var 2) (Var 0)) /\
  Safe (en_of [x; m; g; ic]) (leaky_ld_inv_t 4 (Var 1) (Var 2) (Var 3) (Var 0)).
Proof. exact leaky_safe_all. Qed.
Print Assumptions C18_leaky_safe.

(* _tanh_log_grad everywhere; SoftPlus.inverse / Exp.inverse on y > 0; Tanh.inverse inside (-1,1); Affine with scale <> 0 *)
Theorem C18_elementary_safe : forall loc scale y,
  Safe (en_of [y]) (tanh_log_grad_t 1 (Var 0)) /\
  (0 < y -> Safe (en_of [y]) (softplus_inv_t (Var 0)) /\ Safe (en_of [y]) (softplus_ld_inv_t 1 (Var 0)) /\
            Safe (en_of [y]) (exp_inv_t (Var 0)) /\ Safe (en_of [y]) (exp_ld_inv_t 1 (Var 0))) /\
  (-1 < y < 1 -> Safe (en_of [y]) (tanh_inv_t (Var 0)) /\ Safe (en_of [y]) (tanh_ld_inv_t 1 (Var 0))) /\
  (scale <> 0 -> Safe (en_of [y; loc; scale]) (affine_inv_t (Var 1) (Var 2) (Var 0)) /\
                 Safe (en_of [y; loc; scale]) (affine_ld_t (Var 2))).
Proof. exact elementary_safe_all. Qed.
Print Assumptions C18_elementary_safe.

(* the spline: knots strictly increasing from lo to hi in both arrays, positive derivatives -- ANY interval, containing 0 or not
   (the robust replacement value is interval[0] since fix c2cb03d); EVERY real x (interval ends, knots, out of bounds).
   rqs_inv at full strength (not _partial): the strict positivity of the discriminant
   b^2 - 4ac = (dk(Dy-t) - dk1 t)^2 + 4 s^2 t (Dy-t) and -b - sqrt(..) < 0 are proved, not assumed *)
Theorem C18_rqs_safe : forall xp yp dv lo hi x, rqs_valid xp yp dv lo hi ->
  let en := en3 x lo hi xp yp dv in
  Safe en (rqs_fwd_t 3 (Var 1) (Var 2) (Var 0)) /\
  Safe en (rqs_deriv_t 3 (Var 1) (Var 2) (Var 0)) /\ 0 < eval ROps en (rqs_deriv_t 3 (Var 1) (Var 2) (Var 0)) /\
  Safe en (rqs_inv_t 3 (Var 1) (Var 2) (Var 0)) /\
  Safe en (rqs_ld_inv_t 3 (Var 1) (Var 2) (Var 0)).
Proof. exact rqs_safe_all. Qed.
Print Assumptions C18_rqs_safe.

(* ---------- the property on the model: log_prob of Transformed(base, leaf | Invert(leaf)) ---------- *)
(* every leaf, both orientations, StandardNormal or Normal(loc, scale) base: value finite, gradient w.r.t. the input,
   every scalar field and every array entry finite *)
Theorem C18_log_prob_finite : forall (en : env R) l inverted normal,
  length (vars en) = nV -> leaf_ok l inverted en -> (normal = true -> nth 9 (vars en) 0 <> 0) ->
  (exists v, eval OROps (lift en) (lp_t l inverted normal) = Some v) /\
  (forall t, exists r, vjp OROps (lift en) (lp_t l inverted normal) (Some 1) t = Some r).
Proof. exact lp_finite. Qed.
Print Assumptions C18_log_prob_finite.

(* spelled out for LeakyTanh(m) with the fields its constructor computes (every max_val) and for the spline *)
Theorem C18_log_prob_finite_leaky_rqs : forall inverted normal x bloc bscale, (normal = true -> bscale <> 0) ->
  (forall m, let en := en10 x m (leaky_grad ROps m) (leaky_icpt ROps m) 0 0 0 1 bloc bscale [] [] [] in
     (exists v, eval OROps (lift en) (lp_t LLeaky inverted normal) = Some v) /\
     (forall t, exists r, vjp OROps (lift en) (lp_t LLeaky inverted normal) (Some 1) t = Some r)) /\
  (forall lo hi xp yp dv, rqs_valid xp yp dv lo hi ->
     let en := en10 x 0 1 0 lo hi 0 1 bloc bscale xp yp dv in
     (exists v, eval OROps (lift en) (lp_t LRqs inverted normal) = Some v) /\
     (forall t, exists r, vjp OROps (lift en) (lp_t LRqs inverted normal) (Some 1) t = Some r)).
Proof. exact log_prob_finite_instances. Qed.
Print Assumptions C18_log_prob_finite_leaky_rqs.

(* ---------- the formulas before the repairs are refuted ---------- *)
(* D2: LeakyTanh.inverse without y_robust at y = 1: not Safe, finite value, gradient None *)
Theorem C18_leaky_inv_old_unsafe_refuted :
  exists (en : env R), let t := leaky_inv_old_t (Var 1) (Var 2) (Var 3) (Var 0) in
    nth 0 (vars en) 0 = 1 /\ ~ Safe en t /\ (exists v, eval OROps (lift en) t = Some v) /\
    vjp OROps (lift en) t (Some 1) (TVar 0) = None.
Proof. exact leaky_inv_old_unsafe_refuted. Qed.
Print Assumptions C18_leaky_inv_old_unsafe_refuted.

(* D1: the unclipped bin index at the initial parameters, y = interval[0]: the denominator -b - sqrt(b^2-4ac) is 0 *)
Theorem C18_rqs_inv_old_unsafe_at_lo_refuted : ~ Safe en_init_lo (rqs_inv_old_t 3 (Var 1) (Var 2) (Var 0)).
Proof. exact rqs_inv_old_unsafe_at_lo_refuted. Qed.
Print Assumptions C18_rqs_inv_old_unsafe_at_lo_refuted.

(* D9: the literal-0 replacement value with an interval that excludes 0 (knots [2,3,5,6], derivatives 1/2, y = 0):
   b^2 - 4ac = -71/4 < 0 under the square root of the unselected branch *)
Theorem C18_rqs_inv_zero_unsafe_refuted : ~ Safe en_zero_out (rqs_inv_zero_t 3 (Var 1) (Var 2) (Var 0)).
Proof. exact rqs_inv_zero_unsafe_refuted. Qed.
Print Assumptions C18_rqs_inv_zero_unsafe_refuted.

(* ---------- log_prob's post-processing ---------- *)
Theorem C18_lp_never_nan : forall p_z ld v, In v (log_prob_classes p_z ld) -> v <> NaN.
Proof. exact lp_never_nan. Qed.
Print Assumptions C18_lp_never_nan.

(* ---------- non-vacuity ---------- *)
Example C18_example_valid_spline : rqs_valid [-2; -1; 1; 2] [-2; -1; 1; 2] [1; 1; 1; 1] (-2) 2.
Proof. exact rqs_valid_init. Qed.
(* the D1 witness point under the repaired formula: the inverse at y = interval[0] = -2 is Safe *)
Example C18_example_repaired_at_lo : Safe (en3 (-2) (-2) 2 [-2; -1; 1; 2] [-2; -1; 1; 2] [1; 1; 1; 1]) (rqs_inv_t 3 (Var 1) (Var 2) (Var 0)).
Proof. apply rqs_inv_safe_all. exact rqs_valid_init. Qed.
(* the D2 witness point under the repaired formula *)
Example C18_example_repaired_at_1 : Safe (en_of [1; 3; leaky_grad ROps 3; leaky_icpt ROps 3]) (leaky_inv_t (Var 1) (Var 2) (Var 3) (Var 0)).
Proof. apply leaky_inv_safe_all. apply Rgt_not_eq, leaky_grad_pos. Qed.
Example C18_example_classes : log_prob_classes Fin PInf = [PInf] /\ log_prob_classes PInf NInf = [NInf] /\ log_prob_classes Fin Fin = [Fin; PInf; NInf].
Proof. repeat split; reflexivity. Qed.
(* the D9 witness (interval (2,6) excludes 0, out-of-interval input 0) under the repaired formula *)
Example C18_example_repaired_excl0 : Safe (en3 0 2 6 [2; 3; 5; 6] [2; 3; 5; 6] [/ 2; / 2; / 2; / 2]) (rqs_inv_t 3 (Var 1) (Var 2) (Var 0)).
Proof. apply rqs_inv_safe_all. exact rqs_valid_excl0. Qed.
