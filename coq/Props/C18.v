(* C18 -- placeholder while the pipeline is brought up; replaced below. *)
From Coq Require Import List ZArith Bool.
From FJ Require Import Model.Num Model.Leaves Model.Expr Proofs.ExprP.
Import ListNotations.
Theorem C18_eval_leaky_inv : forall A (O : NumOps A) m g ic y,
  eval O (en1 [y; m; g; ic]) (leaky_inv_t (Var 1) (Var 2) (Var 3) (Var 0)) = leaky_inv O m g ic y.
Proof. exact @ev_leaky_inv. Qed.
Print Assumptions C18_eval_leaky_inv.
