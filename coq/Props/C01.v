(* C01 -- Every bijection is invertible: inverse undoes transform, both ways.
   This file contains only the property theorems (each closed by [exact]), their
   [Print Assumptions], and [Example]s showing that the hypotheses are met by concrete instances.
   Models: Model/Leaves.v (elementary bijections, code-shaped, generic over NumOps; here at the
   reals [ROps]) and Model/Autoreg.v (coupling / masked-autoregressive wiring for an arbitrary
   conditioner).  Lemmas: Proofs/LeafInvP.v, Proofs/RqsInvP.v (with Proofs/RqsCoreP.v for the bin
   lookup), Proofs/AutoregInvP.v.
   All statements are exact over R (float rounding is not modelled) and carry their domain guards
   explicitly: none holds because x / 0 = 0, ln of a non-positive number = 0 or nth has a default.
   Definitions used in the statements (Proofs/LeafInvP.v):
     bij_on dom cod f g  :=  f maps dom into cod, g maps cod into dom, g (f x) = x on dom, f (g y) = y on cod
     chain_fwd ls x      :=  fold_left  (fun a l => l_fwd l a) ls x        (chain.py: for b in bijections)
     chain_inv ls y      :=  fold_right (fun l a => l_inv l a) y ls        (for b in reversed(bijections))
     chain_ok d ls c     :=  layer i is bij_on from the codomain of layer i-1 onto the domain of layer i+1
     concat_fwd ps x     :=  part i applied to its own slice (of length p_n) of the flat array
     square n m / lower_tri / upper_tri / diag_nonzero : n x n rows, zeros above / below, m[i][i] <> 0 *)
From Coq Require Import Reals List ZArith Bool Sorted.
From FJ Require Import Model.Num Model.Leaves Model.Autoreg Proofs.RNum
  Proofs.LeafInvP Proofs.AutoregInvP Proofs.RqsInvP.
Import ListNotations.
Open Scope R_scope.

(* ====================================== scalar leaves ====================================== *)

(* Affine / Scale: any non-zero scale, negative included.  Loc: unconditional. *)
Theorem C01_affine_inv_fwd : forall loc scale x, scale <> 0 ->
  affine_inv ROps loc scale (affine_fwd ROps loc scale x) = x.
Proof. exact affine_inv_fwd. Qed.
Print Assumptions C01_affine_inv_fwd.
Theorem C01_affine_fwd_inv : forall loc scale y, scale <> 0 ->
  affine_fwd ROps loc scale (affine_inv ROps loc scale y) = y.
Proof. exact affine_fwd_inv. Qed.
Print Assumptions C01_affine_fwd_inv.
Theorem C01_loc_inv_fwd : forall loc x, loc_inv ROps loc (loc_fwd ROps loc x) = x.
Proof. exact loc_inv_fwd. Qed.
Print Assumptions C01_loc_inv_fwd.
Theorem C01_loc_fwd_inv : forall loc y, loc_fwd ROps loc (loc_inv ROps loc y) = y.
Proof. exact loc_fwd_inv. Qed.
Print Assumptions C01_loc_fwd_inv.
Theorem C01_scale_inv_fwd : forall scale x, scale <> 0 -> scale_inv ROps scale (scale_fwd ROps scale x) = x.
Proof. exact scale_inv_fwd. Qed.
Print Assumptions C01_scale_inv_fwd.
Theorem C01_scale_fwd_inv : forall scale y, scale <> 0 -> scale_fwd ROps scale (scale_inv ROps scale y) = y.
Proof. exact scale_fwd_inv. Qed.
Print Assumptions C01_scale_fwd_inv.

(* Exp: domain R, codomain y > 0 *)
Theorem C01_exp_inv_fwd : forall x, exp_inv ROps (exp_fwd ROps x) = x.
Proof. exact exp_inv_fwd. Qed.
Print Assumptions C01_exp_inv_fwd.
Theorem C01_exp_fwd_inv : forall y, 0 < y -> exp_fwd ROps (exp_inv ROps y) = y.
Proof. exact exp_fwd_inv. Qed.
Print Assumptions C01_exp_fwd_inv.
Theorem C01_exp_range : forall x, 0 < exp_fwd ROps x.
Proof. exact exp_fwd_pos. Qed.
Print Assumptions C01_exp_range.

(* SoftPlus: inverse as coded, ln (- expm1 (- y)) + y; domain R, codomain y > 0 *)
Theorem C01_softplus_inv_fwd : forall x, softplus_inv ROps (softplus_fwd ROps x) = x.
Proof. exact softplus_inv_fwd. Qed.
Print Assumptions C01_softplus_inv_fwd.
Theorem C01_softplus_fwd_inv : forall y, 0 < y -> softplus_fwd ROps (softplus_inv ROps y) = y.
Proof. exact softplus_fwd_inv. Qed.
Print Assumptions C01_softplus_fwd_inv.
Theorem C01_softplus_range : forall x, 0 < softplus_fwd ROps x.
Proof. exact softplus_fwd_pos. Qed.
Print Assumptions C01_softplus_range.

(* Tanh (th / ath of RNum.v; th IS the library's tanh): domain R, codomain |y| < 1 *)
Theorem C01_th_is_tanh : forall x, th x = tanh x.
Proof. exact th_is_tanh. Qed.
Print Assumptions C01_th_is_tanh.
Theorem C01_tanh_inv_fwd : forall x, tanh_inv ROps (tanh_fwd ROps x) = x.
Proof. exact tanh_inv_fwd. Qed.
Print Assumptions C01_tanh_inv_fwd.
Theorem C01_tanh_fwd_inv : forall y, -1 < y < 1 -> tanh_fwd ROps (tanh_inv ROps y) = y.
Proof. exact tanh_fwd_inv. Qed.
Print Assumptions C01_tanh_fwd_inv.
Theorem C01_tanh_range : forall x, -1 < tanh_fwd ROps x < 1.
Proof. exact tanh_fwd_range. Qed.
Print Assumptions C01_tanh_range.

(* LeakyTanh with the fields as __init__ computes them from max_val = m > 0: all reals, both ways,
   |x| = m and |y| = tanh m exactly included (the branch chosen backward is the one used forward) *)
Theorem C01_leaky_inv_fwd : forall m x, 0 < m ->
  leaky_inv ROps m (leaky_grad ROps m) (leaky_icpt ROps m)
    (leaky_fwd ROps m (leaky_grad ROps m) (leaky_icpt ROps m) x) = x.
Proof. exact leaky_inv_fwd. Qed.
Print Assumptions C01_leaky_inv_fwd.
Theorem C01_leaky_fwd_inv : forall m y, 0 < m ->
  leaky_fwd ROps m (leaky_grad ROps m) (leaky_icpt ROps m)
    (leaky_inv ROps m (leaky_grad ROps m) (leaky_icpt ROps m) y) = y.
Proof. exact leaky_fwd_inv. Qed.
Print Assumptions C01_leaky_fwd_inv.
(* ... and for any stored fields with linear_grad > 0 and intercept = tanh m - linear_grad * m *)
Theorem C01_leaky_inv_fwd_fields : forall m g ic, 0 < m -> 0 < g -> ic = th m - g * m ->
  forall x, leaky_inv ROps m g ic (leaky_fwd ROps m g ic x) = x.
Proof. exact leaky_inv_fwd_gen. Qed.
Print Assumptions C01_leaky_inv_fwd_fields.
Theorem C01_leaky_fwd_inv_fields : forall m g ic, 0 < m -> 0 < g -> ic = th m - g * m ->
  forall y, leaky_fwd ROps m g ic (leaky_inv ROps m g ic y) = y.
Proof. exact leaky_fwd_inv_gen. Qed.
Print Assumptions C01_leaky_fwd_inv_fields.
(* the constructor's linear_grad = exp(_tanh_log_grad m) is the slope of tanh at m *)
Theorem C01_leaky_grad_is_slope : forall m, leaky_grad ROps m = 1 - th m * th m.
Proof. exact leaky_grad_is_slope. Qed.
Print Assumptions C01_leaky_grad_is_slope.

(* RationalQuadraticSpline: for every strictly increasing knot vectors x_pos, y_pos (>= 2 knots, equal
   length, both running from lo to hi) and positive derivatives, for ALL real x (knots, interval ends,
   out-of-range points included): inverse (transform x) = x and transform (inverse y) = y. *)
Theorem C01_rqs_inv_fwd : forall (xp yp dv : list R) (lo hi x : R),
  StronglySorted Rlt xp -> StronglySorted Rlt yp ->
  (2 <= length xp)%nat -> length yp = length xp -> length dv = length xp ->
  nth 0 xp 0 = lo -> last xp 0 = hi -> nth 0 yp 0 = lo -> last yp 0 = hi ->
  Forall (fun d => 0 < d) dv ->
  rqs_inv ROps xp yp dv lo hi (rqs_fwd ROps xp yp dv lo hi x) = x.
Proof. exact rqs_inv_fwd_explicit. Qed.
Print Assumptions C01_rqs_inv_fwd.
Theorem C01_rqs_fwd_inv : forall (xp yp dv : list R) (lo hi y : R),
  StronglySorted Rlt xp -> StronglySorted Rlt yp ->
  (2 <= length xp)%nat -> length yp = length xp -> length dv = length xp ->
  nth 0 xp 0 = lo -> last xp 0 = hi -> nth 0 yp 0 = lo -> last yp 0 = hi ->
  Forall (fun d => 0 < d) dv ->
  rqs_fwd ROps xp yp dv lo hi (rqs_inv ROps xp yp dv lo hi y) = y.
Proof. exact rqs_fwd_inv_explicit. Qed.
Print Assumptions C01_rqs_fwd_inv.
(* The bin lookup as it was before fix 2486bd0 (searchsorted - 1 without the clip): the inverse of
   the left interval end is the RIGHT end for a valid spline whose first derivative exceeds 1 (D1). *)
Theorem C01_rqs_inv_old_left_end_refuted : exists xp yp dv lo hi,
  rqs_valid xp yp dv lo hi /\ 1 < nth 0 dv 0 /\ lo < hi /\ rqs_inv_old ROps xp yp dv lo hi lo = hi.
Proof. exact rqs_inv_old_left_end_refuted. Qed.
Print Assumptions C01_rqs_inv_old_left_end_refuted.

(* ====================================== vector leaves ====================================== *)

(* elementwise application of a scalar bijection to an array of any length *)
Theorem C01_lift_bij : forall (d c : R -> Prop) f g,
  bij_on d c f g -> bij_on (Forall d) (Forall c) (lift f) (lift g).
Proof. exact lift_bij. Qed.
Print Assumptions C01_lift_bij.
(* Affine with array-valued loc and scale *)
Theorem C01_affine_vec_inv_fwd : forall locs scales xs,
  length locs = length xs -> length scales = length xs -> Forall (fun s => s <> 0) scales ->
  lift3 (affine_inv ROps) locs scales (lift3 (affine_fwd ROps) locs scales xs) = xs.
Proof. exact affine_vec_inv_fwd. Qed.
Print Assumptions C01_affine_vec_inv_fwd.
Theorem C01_affine_vec_fwd_inv : forall locs scales ys,
  length locs = length ys -> length scales = length ys -> Forall (fun s => s <> 0) scales ->
  lift3 (affine_fwd ROps) locs scales (lift3 (affine_inv ROps) locs scales ys) = ys.
Proof. exact affine_vec_fwd_inv. Qed.
Print Assumptions C01_affine_vec_fwd_inv.

(* TriangularAffine, lower and upper, any dimension n, any non-zero diagonal: the substitution
   that models solve_triangular inverts  m x + loc *)
Theorem C01_tri_inv_fwd : forall n (lower : bool) m loc x,
  square n m -> length loc = n -> length x = n ->
  (if lower then lower_tri n m else upper_tri n m) -> diag_nonzero n m ->
  tri_inv ROps lower m loc (tri_fwd ROps m loc x) = x.
Proof. exact tri_inv_fwd. Qed.
Print Assumptions C01_tri_inv_fwd.
Theorem C01_tri_fwd_inv : forall n (lower : bool) m loc y,
  square n m -> length loc = n -> length y = n ->
  (if lower then lower_tri n m else upper_tri n m) -> diag_nonzero n m ->
  tri_fwd ROps m loc (tri_inv ROps lower m loc y) = y.
Proof. exact tri_fwd_inv. Qed.
Print Assumptions C01_tri_fwd_inv.

(* Planar with leaky-relu activation: ANY negative slope s > 0, any w <> 0, any raw act_scale u0, any
   dimension.  Nothing is assumed about u-hat: that 1 + w.u-hat > 0 and 1 + s w.u-hat > 0 is proved from
   get_act_scale as it is after fix D7 (constraint value divided by max(1, s)). *)
Theorem C01_planar_inv_fwd : forall s w u0 b x,
  0 < s -> Exists (fun wi => wi <> 0) w -> length u0 = length w -> length x = length w ->
  planar_inv ROps s w u0 b (planar_fwd ROps (Some s) w u0 b x) = x.
Proof. exact planar_inv_fwd. Qed.
Print Assumptions C01_planar_inv_fwd.
Theorem C01_planar_fwd_inv : forall s w u0 b y,
  0 < s -> Exists (fun wi => wi <> 0) w -> length u0 = length w -> length y = length w ->
  planar_fwd ROps (Some s) w u0 b (planar_inv ROps s w u0 b y) = y.
Proof. exact planar_fwd_inv. Qed.
Print Assumptions C01_planar_fwd_inv.
(* what get_act_scale delivers: both branch slopes of the layer are positive *)
Theorem C01_planar_constraint : forall s w u0,
  0 < s -> Exists (fun wi => wi <> 0) w -> length u0 = length w ->
  0 < 1 + dot ROps w (planar_u ROps (Some s) w u0) /\ 0 < 1 + s * dot ROps w (planar_u ROps (Some s) w u0).
Proof. exact planar_constraint. Qed.
Print Assumptions C01_planar_constraint.
(* BEFORE fix D7 (e65a946) get_act_scale enforced only -1 < w . u-hat and the constructor rejects only
   s <= 0: for a negative slope s > 1 with w . u-hat < -1/s the layer built with the old formula
   [planar_u_old] is not injective and its analytic inverse does not undo it.  planar_fwd_old /
   planar_inv_old (Proofs/RqsInvP.v) = transform / inverse with planar_u_old.  Witness w = (1,0),
   act_scale (0,0), b = 0, s = -2/M with M = -1 + ln(1 + ln 2) (s ~ 4.22), x = (-1,0), x' = (1/(1+M), 0);
   replayed on the unrepaired code: transform(x) = transform(x') = (1,0), inverse(transform(x)) = (1.899,0). *)
Theorem C01_planar_old_slope_gt1_refuted : exists s w u0 b x x',
  1 < s /\ Exists (fun wi => wi <> 0) w /\ length u0 = length w /\ length x = length w /\ length x' = length w /\
  -1 < dot ROps w (planar_u_old ROps w u0) /\
  x <> x' /\ planar_fwd_old s w u0 b x = planar_fwd_old s w u0 b x' /\
  planar_inv_old s w u0 b (planar_fwd_old s w u0 b x) <> x.
Proof. exact planar_old_slope_gt1_refuted. Qed.
Print Assumptions C01_planar_old_slope_gt1_refuted.
(* for slopes <= 1 the repair changes nothing *)
Theorem C01_planar_u_old_same : forall s w u0, s <= 1 -> planar_u ROps (Some s) w u0 = planar_u_old ROps w u0.
Proof. exact planar_u_old_same. Qed.
Print Assumptions C01_planar_u_old_same.
(* transform_and_log_det computes the activation from `x @ w`, transform from `w @ x`: same point *)
Theorem C01_planar_and_log_det_value : forall ns w u0 b x,
  vadd ROps x (vscale ROps (planar_act ROps ns (n_add ROps (dot ROps x w) b)) (planar_u ROps ns w u0))
  = planar_fwd ROps ns w u0 b x.
Proof. exact planar_fwd_and_log_det_value. Qed.
Print Assumptions C01_planar_and_log_det_value.

(* ================= coupling / masked autoregressive, arbitrary conditioner g ================= *)
(* g is ANY function (hence: all network weights, widths, depths, activations); tfwd / tinv any
   scalar transformer family with the leaf law on valid parameter blocks V. *)
Theorem C01_coupling_inv_fwd : forall (A P : Type) (tfwd tinv : P -> A -> A) (g : list A -> list P)
  (V : P -> Prop) (D : A -> Prop) (ud : nat) (cond x : list A),
  (ud <= length x)%nat ->
  length (g (firstn ud x ++ cond)) = (length x - ud)%nat -> Forall V (g (firstn ud x ++ cond)) ->
  (forall p v, V p -> D v -> tinv p (tfwd p v) = v) -> Forall D (skipn ud x) ->
  coupling_inv tinv g ud cond (coupling_fwd tfwd g ud cond x) = x.
Proof. exact @coupling_inv_fwd. Qed.
Print Assumptions C01_coupling_inv_fwd.
Theorem C01_coupling_fwd_inv : forall (A P : Type) (tfwd tinv : P -> A -> A) (g : list A -> list P)
  (V : P -> Prop) (C : A -> Prop) (ud : nat) (cond y : list A),
  (ud <= length y)%nat ->
  length (g (firstn ud y ++ cond)) = (length y - ud)%nat -> Forall V (g (firstn ud y ++ cond)) ->
  (forall p v, V p -> C v -> tfwd p (tinv p v) = v) -> Forall C (skipn ud y) ->
  coupling_fwd tfwd g ud cond (coupling_inv tinv g ud cond y) = y.
Proof. exact @coupling_fwd_inv. Qed.
Print Assumptions C01_coupling_fwd_inv.

(* MAF: the dim sequential passes of inverse() undo transform() whenever block i of the conditioner
   depends on the coordinates < i (and the condition) only -- any dimension n. *)
Theorem C01_maf_inv_fwd : forall (A P : Type) (d : A) (tfwd tinv : P -> A -> A) (g : list A -> list P)
  (V : P -> Prop) (D : A -> Prop) (n : nat) (cond : list A),
  (forall x, length x = n -> length (g (x ++ cond)) = n) ->
  (forall x, length x = n -> Forall V (g (x ++ cond))) ->
  (forall x x' i, length x = n -> length x' = n -> (forall j, (j < i)%nat -> nth j x d = nth j x' d) ->
     nth_error (g (x ++ cond)) i = nth_error (g (x' ++ cond)) i) ->
  (forall p v, V p -> D v -> tinv p (tfwd p v) = v) ->
  forall x, length x = n -> Forall D x -> maf_inv d tinv g cond (maf_fwd tfwd g cond x) = x.
Proof. exact @maf_inv_fwd. Qed.
Print Assumptions C01_maf_inv_fwd.
Theorem C01_maf_fwd_inv : forall (A P : Type) (d : A) (tfwd tinv : P -> A -> A) (g : list A -> list P)
  (V : P -> Prop) (C : A -> Prop) (n : nat) (cond : list A),
  (forall x, length x = n -> length (g (x ++ cond)) = n) ->
  (forall x, length x = n -> Forall V (g (x ++ cond))) ->
  (forall x x' i, length x = n -> length x' = n -> (forall j, (j < i)%nat -> nth j x d = nth j x' d) ->
     nth_error (g (x ++ cond)) i = nth_error (g (x' ++ cond)) i) ->
  (forall p v, V p -> C v -> tfwd p (tinv p v) = v) ->
  forall y, length y = n -> Forall C y -> maf_fwd tfwd g cond (maf_inv d tinv g cond y) = y.
Proof. exact @maf_fwd_inv. Qed.
Print Assumptions C01_maf_fwd_inv.

(* the two transformers the premade flows use *)
Theorem C01_maf_affine_inv_fwd : forall (n : nat) (cond : list R) (g : list R -> list (R * R)),
  (forall x, length x = n -> length (g (x ++ cond)) = n) ->
  (forall x, length x = n -> Forall (fun p => snd p <> 0) (g (x ++ cond))) ->
  (forall x x' i, length x = n -> length x' = n -> (forall j, (j < i)%nat -> nth j x 0 = nth j x' 0) ->
     nth_error (g (x ++ cond)) i = nth_error (g (x' ++ cond)) i) ->
  forall x, length x = n -> maf_inv 0 aff_ti g cond (maf_fwd aff_t g cond x) = x.
Proof. exact maf_affine_inv_fwd. Qed.
Print Assumptions C01_maf_affine_inv_fwd.
Theorem C01_maf_affine_fwd_inv : forall (n : nat) (cond : list R) (g : list R -> list (R * R)),
  (forall x, length x = n -> length (g (x ++ cond)) = n) ->
  (forall x, length x = n -> Forall (fun p => snd p <> 0) (g (x ++ cond))) ->
  (forall x x' i, length x = n -> length x' = n -> (forall j, (j < i)%nat -> nth j x 0 = nth j x' 0) ->
     nth_error (g (x ++ cond)) i = nth_error (g (x' ++ cond)) i) ->
  forall y, length y = n -> maf_fwd aff_t g cond (maf_inv 0 aff_ti g cond y) = y.
Proof. exact maf_affine_fwd_inv. Qed.
Print Assumptions C01_maf_affine_fwd_inv.
Theorem C01_maf_rqs_inv_fwd : forall (n : nat) (cond : list R) (lo hi : R)
  (g : list R -> list (list R * list R * list R)),
  (forall x, length x = n -> length (g (x ++ cond)) = n) ->
  (forall x, length x = n ->
     Forall (fun p => rqs_valid (fst (fst p)) (snd (fst p)) (snd p) lo hi) (g (x ++ cond))) ->
  (forall x x' i, length x = n -> length x' = n -> (forall j, (j < i)%nat -> nth j x 0 = nth j x' 0) ->
     nth_error (g (x ++ cond)) i = nth_error (g (x' ++ cond)) i) ->
  forall x, length x = n -> maf_inv 0 (rqs_ti lo hi) g cond (maf_fwd (rqs_t lo hi) g cond x) = x.
Proof. exact maf_rqs_inv_fwd. Qed.
Print Assumptions C01_maf_rqs_inv_fwd.
Theorem C01_maf_rqs_fwd_inv : forall (n : nat) (cond : list R) (lo hi : R)
  (g : list R -> list (list R * list R * list R)),
  (forall x, length x = n -> length (g (x ++ cond)) = n) ->
  (forall x, length x = n ->
     Forall (fun p => rqs_valid (fst (fst p)) (snd (fst p)) (snd p) lo hi) (g (x ++ cond))) ->
  (forall x x' i, length x = n -> length x' = n -> (forall j, (j < i)%nat -> nth j x 0 = nth j x' 0) ->
     nth_error (g (x ++ cond)) i = nth_error (g (x' ++ cond)) i) ->
  forall y, length y = n -> maf_fwd (rqs_t lo hi) g cond (maf_inv 0 (rqs_ti lo hi) g cond y) = y.
Proof. exact maf_rqs_fwd_inv. Qed.
Print Assumptions C01_maf_rqs_fwd_inv.

(* ============ combinators preserve the two laws: any number of layers / parts ============ *)
Theorem C01_invert_bij : forall (A B : Type) (dom : A -> Prop) (cod : B -> Prop) f g,
  bij_on dom cod f g -> bij_on cod dom g f.
Proof. exact @invert_bij. Qed.
Print Assumptions C01_invert_bij.
Theorem C01_chain_bij : forall (A : Type) (ls : list (layer A)) (d c : A -> Prop),
  chain_ok d ls c -> bij_on d c (chain_fwd ls) (chain_inv ls).
Proof. exact @chain_bij. Qed.
Print Assumptions C01_chain_bij.
Theorem C01_chain_inv_fwd_total : forall (A : Type) (ls : list (layer A)),
  Forall (fun l => forall x, l_inv l (l_fwd l x) = x) ls -> forall x, chain_inv ls (chain_fwd ls x) = x.
Proof. exact @chain_inv_fwd_total. Qed.
Print Assumptions C01_chain_inv_fwd_total.
Theorem C01_chain_fwd_inv_total : forall (A : Type) (ls : list (layer A)),
  Forall (fun l => forall y, l_fwd l (l_inv l y) = y) ls -> forall y, chain_fwd ls (chain_inv ls y) = y.
Proof. exact @chain_fwd_inv_total. Qed.
Print Assumptions C01_chain_fwd_inv_total.
Theorem C01_concat_bij : forall (A : Type) (ps : list (part A)),
  Forall part_ok ps -> bij_on (concat_in p_dom ps) (concat_in p_cod ps) (concat_fwd ps) (concat_inv ps).
Proof. exact @concat_bij. Qed.
Print Assumptions C01_concat_bij.

(* ====================================== non-vacuity ====================================== *)
(* a valid 3-knot spline on [-1, 1] with first derivative 3 that is not the identity *)
Example C01_ex_spline_valid : rqs_valid [-1; 0; 1] [-1; / 2; 1] [3; 1; 2] (-1) 1.
Proof. exact ex_valid. Qed.
Example C01_ex_spline_at_knot : rqs_fwd ROps [-1; 0; 1] [-1; / 2; 1] [3; 1; 2] (-1) 1 0 = / 2.
Proof. exact ex_spline_at_knot. Qed.
Example C01_ex_spline_left_end :
  rqs_inv ROps [-1; 0; 1] [-1; / 2; 1] [3; 1; 2] (-1) 1 (rqs_fwd ROps [-1; 0; 1] [-1; / 2; 1] [3; 1; 2] (-1) 1 (-1)) = -1.
Proof. exact (rqs_inv_fwd _ _ _ _ _ ex_valid (-1)). Qed.
(* LeakyTanh(3) exactly at x = max_val: linear branch, value tanh(max_val); and it round-trips *)
Example C01_ex_leaky_at_max : leaky_fwd ROps 3 (leaky_grad ROps 3) (leaky_icpt ROps 3) 3 = th 3.
Proof. exact ex_leaky_at_max. Qed.
Example C01_ex_leaky_roundtrip :
  leaky_inv ROps 3 (leaky_grad ROps 3) (leaky_icpt ROps 3) (leaky_fwd ROps 3 (leaky_grad ROps 3) (leaky_icpt ROps 3) 3) = 3.
Proof. exact ex_leaky_roundtrip. Qed.
(* a lower-triangular matrix with a negative diagonal entry meets the TriangularAffine hypotheses *)
Example C01_ex_tri : square 2 [[2; 0]; [1; -3]] /\ lower_tri 2 [[2; 0]; [1; -3]] /\ diag_nonzero 2 [[2; 0]; [1; -3]].
Proof. exact ex_tri_ok. Qed.
(* the parameters that collided before fix D7 (negative_slope 2, act_scale (-5,0)) now round-trip *)
Example C01_ex_planar :
  planar_inv ROps 2 [1; 0] [-5; 0] 0 (planar_fwd ROps (Some 2) [1; 0] [-5; 0] 0 [-1; 3 / 10]) = [-1; 3 / 10].
Proof. exact ex_planar_roundtrip. Qed.
(* a non-constant autoregressive conditioner (loc_1 = x_0, scale_1 = -2) meets the MAF hypotheses *)
Example C01_ex_maf : forall x, length x = 2%nat -> maf_inv 0 aff_ti ex_g [] (maf_fwd aff_t ex_g [] x) = x.
Proof. exact ex_maf_roundtrip. Qed.
(* Chain [Affine(1,-2); LeakyTanh(3); Exp] : R -> (0, inf) meets chain_ok *)
Example C01_ex_chain : bij_on allR (fun y => 0 < y) (chain_fwd ex_chain) (chain_inv ex_chain).
Proof. exact (chain_bij ex_chain _ _ ex_chain_ok). Qed.
