(* C03 -- Transformed densities obey change of variables on both evaluation paths.
   Only the property theorems (each closed by [exact]) with their [Print Assumptions], and
   non-vacuity examples.  Model: Model/Dist.v (AbstractTransformed._log_prob / _sample /
   _sample_and_log_prob / merge_transforms, Chain, Invert, Permute, Flip over elementwise leaves and
   TriangularAffine).  Lemmas: Proofs/DistP.v, on top of C01 (LeafInvP, RqsInvP) and C02 (LeafDerivP).

   Scope of the expression language: unconditional bijections (a conditional layer at a fixed condition
   is covered by [C03_sample_lp_consistent_any_layer]); vector leaves are elementwise or triangular-affine.
   Conditions routed to base and bijection: correspondence / search oracle only (harness/c03.py). *)
From Coq Require Import Reals List ZArith Bool.
From FJ Require Import Model.Num Model.Leaves Model.Dist Proofs.RNum Proofs.LeafDerivP Proofs.DistP.
Import ListNotations.
Open Scope R_scope.

(* log_prob(x) = base log-density at the inverse image of x + inverse log-det: any carrier (reals, floats),
   any base (nested Transformed included), any expression.  Definitional -- it is the target of the tie. *)
Theorem C03_logp_transformed : forall (A : Type) (O : NumOps A) (d : dist A) (b : bexpr A) (x : list A),
  logp O (DTrans d b) x = n_add O (logp O d (fst (run_inv_ld O b x))) (snd (run_inv_ld O b x)).
Proof. exact @logp_transformed. Qed.
Print Assumptions C03_logp_transformed.

(* a sample drawn with a key is the bijection applied to the base sample FOR THAT KEY *)
Theorem C03_sample_transformed : forall (A K : Type) (O : NumOps A) (draw : fam -> K -> list A) (d : dist A) (b : bexpr A) (k : K),
  sample O draw (DTrans d b) k = run_fwd O b (sample O draw d k).
Proof. exact @sample_transformed. Qed.
Print Assumptions C03_sample_transformed.

(* the point returned by sample_and_log_prob is the point returned by sample at the same key: every
   expression, every nesting depth *)
Theorem C03_sample_lp_point : forall (K : Type) (draw : fam -> K -> list R) (d : dist R) (k : K),
  fst (sample_lp ROps draw d k) = sample ROps draw d k.
Proof. exact @sample_lp_point. Qed.
Print Assumptions C03_sample_lp_point.

(* THE path-consistency statement: the log-probability returned together with a sample equals log_prob
   evaluated at that sample -- all reals, every base sampler, every expression depth / chain length / nesting
   of Transformed, under the guards: every leaf valid (scale <> 0; LeakyTanh max_val > 0 with the constructor's
   linear_grad / intercept; spline knots strictly increasing from lo to hi with positive derivatives;
   triangular matrix with non-zero diagonal; stored inverse permutation inverts the permutation) and every
   base sample in the domain of the bijection applied to it. *)
Theorem C03_sample_lp_consistent : forall (K : Type) (draw : fam -> K -> list R) (d : dist R) (k : K),
  sample_ok draw d k ->
  snd (sample_lp ROps draw d k) = logp ROps d (fst (sample_lp ROps draw d k)).
Proof. exact @sample_lp_consistent. Qed.
Print Assumptions C03_sample_lp_consistent.

(* ... and for ANY layer satisfying the C01 + C02 laws (coupling / autoregressive / conditional layers at a
   fixed condition) over any carrier X and any base log-density *)
Theorem C03_sample_lp_consistent_any_layer : forall (X : Type) (blogp : X -> R) (l : layer X) (z : X),
  layer_ok l -> l_dom l z ->
  blogp z - l_ldf l z = blogp (l_inv l (l_fwd l z)) + l_ldi l (l_fwd l z).
Proof. exact @sample_lp_consistent_abstract. Qed.
Print Assumptions C03_sample_lp_consistent_any_layer.

(* validity of an expression gives the C01 + C02 laws of the whole expression (what the two theorems above use) *)
Theorem C03_expression_laws : forall b : bexpr R, bok b -> layer_ok (blayer b).
Proof. exact blayer_ok. Qed.
Print Assumptions C03_expression_laws.
Theorem C03_expression_semantics : forall b : bexpr R,
  (forall x, run_fwd_ld ROps b x = (l_fwd (blayer b) x, l_ldf (blayer b) x)) /\
  (forall y, run_inv_ld ROps b y = (l_inv (blayer b) y, l_ldi (blayer b) y)).
Proof. exact run_blayer. Qed.
Print Assumptions C03_expression_semantics.

(* Transformed(base, Invert(b)): densities go through b's FORWARD direction, samples through its inverse *)
Theorem C03_invert_swaps : forall (A : Type) (O : NumOps A) (d : dist A) (b : bexpr A) (x : list A),
  logp O (DTrans d (BInvert b)) x = n_add O (logp O d (fst (run_fwd_ld O b x))) (snd (run_fwd_ld O b x)).
Proof. exact @invert_swaps. Qed.
Print Assumptions C03_invert_swaps.

(* flow factories, invert=True (the term the serialiser produces is Transformed base (Invert (Chain layers))):
   log_prob applies the layers' FORWARD maps in order and ADDS their log-dets *)
Theorem C03_factory_orientation_invert : forall (f : fam) (layers : list (bexpr R)) (x : list R),
  logp ROps (DTrans (DBase f) (BInvert (BChain layers))) x
  = base_logp ROps f (layers_fwd layers x) + layers_fwd_ld layers x.
Proof. exact factory_orientation_invert. Qed.
Print Assumptions C03_factory_orientation_invert.
(* invert=False: log_prob applies the layers' INVERSE maps, last layer first, inverse log-dets added *)
Theorem C03_factory_orientation_plain : forall (f : fam) (layers : list (bexpr R)) (x : list R),
  logp ROps (DTrans (DBase f) (BChain layers)) x
  = base_logp ROps f (layers_inv (rev layers) x) + layers_inv_ld (rev layers) x.
Proof. exact factory_orientation_plain. Qed.
Print Assumptions C03_factory_orientation_plain.
Theorem C03_factory_orientation_sample : forall (K : Type) (draw : fam -> K -> list R) (f : fam) (layers : list (bexpr R)) (k : K),
  sample ROps draw (DTrans (DBase f) (BInvert (BChain layers))) k = layers_inv (rev layers) (draw f k) /\
  sample ROps draw (DTrans (DBase f) (BChain layers)) k = layers_fwd layers (draw f k).
Proof. exact @factory_orientation_sample. Qed.
Print Assumptions C03_factory_orientation_sample.

(* Chain.merge_chains (the while loop, any number of passes) leaves all four methods unchanged *)
Theorem C03_merge_chains_same : forall (fuel : nat) (l : list (bexpr R)),
  (forall x, run_fwd_ld ROps (BChain (merge_loop fuel l)) x = run_fwd_ld ROps (BChain l) x) /\
  (forall y, run_inv_ld ROps (BChain (merge_loop fuel l)) y = run_inv_ld ROps (BChain l) y) /\
  (forall x, run_fwd ROps (BChain (merge_loop fuel l)) x = run_fwd ROps (BChain l) x) /\
  (forall y, run_inv ROps (BChain (merge_loop fuel l)) y = run_inv ROps (BChain l) y).
Proof. exact merge_chains_same. Qed.
Print Assumptions C03_merge_chains_same.

(* merge_transforms() is the same distribution: log_prob at every point, sample and sample_and_log_prob at
   every key; every nesting depth; no guard *)
Theorem C03_merge_transforms_same : forall d : dist R,
  (forall x, logp ROps (merge_transforms d) x = logp ROps d x) /\
  (forall (K : Type) (draw : fam -> K -> list R) (k : K),
     sample_lp ROps draw (merge_transforms d) k = sample_lp ROps draw d k /\
     sample ROps draw (merge_transforms d) k = sample ROps draw d k).
Proof. exact merge_transforms_same. Qed.
Print Assumptions C03_merge_transforms_same.

(* the standard normal base as the code computes it (jax.scipy.stats.norm.logpdf) is the textbook density *)
Theorem C03_std_normal_logpdf : forall x : R, std_normal_logpdf ROps x = - (x * x) / 2 - ln (sqrt (2 * PI)).
Proof. exact std_normal_logpdf_spec. Qed.
Print Assumptions C03_std_normal_logpdf.

(* ---------------- non-vacuity ---------------- *)
(* a nested Transformed over a chain with a negative scale, an Invert and a non-onto last layer meets the
   guards of C03_sample_lp_consistent at the base draw 1/2 *)
Example C03_example_guards : sample_ok (fun _ (_ : unit) => [/ 2]) ex_dist tt.
Proof. exact ex_dist_ok. Qed.
Example C03_example_merge : merge_transforms ex_dist =
  DTrans (DBase FNormal)
         (BChain [BElem [LAffine 1 (-2)]; BInvert (BElem [LAffine 0 3]);
                  BElem [LLeaky 3 (leaky_grad ROps 3) (leaky_icpt ROps 3)]; BElem [LExp]]).
Proof. reflexivity. Qed.
(* log_prob of Transformed(StandardNormal, Invert(Affine(0, 3))) at 1: forward map 3*1, log-det ln 3 ADDED *)
Example C03_example_orientation :
  logp ROps (DTrans (DBase FNormal) (BInvert (BChain [BElem [LAffine 0 3]]))) [1]
  = base_logp ROps FNormal [1 * 3 + 0] + ln (Rabs 3).
Proof. exact ex_orientation. Qed.
