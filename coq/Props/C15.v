(* C15 -- fit_to_data never loses, duplicates or misaligns data.
   This file contains only the property theorems (each closed by [exact]) and their
   [Print Assumptions], plus non-vacuity examples.  Model: Model/Data.v.  Lemmas: Proofs/DataP.v.

   Reading guide.  [perm] is jr.permutation's index permutation; the ONLY thing assumed about it is
   [Permutation (perm k n) (seq 0 n)] (in particular the same (key, length) gives the same
   permutation for x and for condition; different keys may give anything).  Keys are split paths.
   Rows are identified by their index in the dataset; an array is the list of row ids it holds, and
   x and condition both start as [seq 0 n], so "aligned" = "all arrays of a call are equal".
   [n] rows, [nt] = n_train (the code's n - round(val_prop*n); glue, checked by the harness),
   [bs] = batch_size, [e] = number of epochs run, [hc] = a condition array is present.
   [train_rows]/[val_rows] are the two halves train_val_split returns (C15_split_is_what_fit_uses).
   All statements: every n, every 0 < nt < n (both halves non-empty), every bs >= 1, every e. *)
From Coq Require Import List Arith Bool Permutation.
From FJ Require Import Model.Data Proofs.DataP.
Import ListNotations.

(* The training and validation sets partition the dataset. *)
Theorem C15_split_partitions : forall perm, (forall k n, Permutation (perm k n) (seq 0 n)) ->
  forall key0 n nt, nt <= n ->
  Permutation (train_rows perm key0 n nt ++ val_rows perm key0 n nt) (seq 0 n) /\
  NoDup (train_rows perm key0 n nt ++ val_rows perm key0 n nt) /\
  length (train_rows perm key0 n nt) = nt /\ length (val_rows perm key0 n nt) = n - nt.
Proof. exact split_partitions. Qed.
Print Assumptions C15_split_partitions.

(* ... and they are what train_val_split hands to the loop, for EVERY array (x, and condition if
   present): all arrays are cut along the same rows. *)
Theorem C15_split_is_what_fit_uses : forall perm key0 n nt (hc : bool),
  train_val_split perm (snd (split2 key0)) (if hc then [seq 0 n; seq 0 n] else [seq 0 n]) nt =
  (repeat (train_rows perm key0 n nt) (S (n_arrays hc)), repeat (val_rows perm key0 n nt) (S (n_arrays hc))).
Proof. exact split_aligned. Qed.
Print Assumptions C15_split_is_what_fit_uses.

(* Every call of the loss, in every epoch, Train or Val: x row i comes with condition row i
   (through the split and every per-epoch shuffle); without a condition there is one argument. *)
Theorem C15_rows_aligned : forall perm, (forall k n, Permutation (perm k n) (seq 0 n)) ->
  forall key0 n nt bs e hc, 0 < nt < n -> 1 <= bs ->
  forall c, In c (fit_trace perm key0 n nt bs e hc) ->
  c_args c = (if hc then [c_x c; c_x c] else [c_x c]) /\ (hc = true -> c_cond c = c_x c).
Proof. exact rows_aligned. Qed.
Print Assumptions C15_rows_aligned.

(* Within one epoch: no exception; first all Train calls then all Val calls; the Train calls are the
   consecutive full batches of a permutation [sh] of the training half: every training row is used
   at most once (NoDup), only rows of the training half are used, every batch has exactly
   b = min bs nt rows, there are nt / b >= 1 batches, and what is skipped is exactly the trailing
   [skipn (nb*b) sh], of length nt mod b < b.  The same for the Val calls and the validation half. *)
Theorem C15_epoch_batches : forall perm, (forall k n, Permutation (perm k n) (seq 0 n)) ->
  forall key0 n nt bs e hc, 0 < nt < n -> 1 <= bs ->
  forall o, In o (fit_epochs perm key0 n nt bs e hc) ->
  e_raised o = false /\
  e_calls o = train_calls (e_calls o) ++ val_calls (e_calls o) /\
  (exists sh, Permutation sh (train_rows perm key0 n nt) /\
     let b := Nat.min bs nt in let nb := nt / b in
     let used := concat (map c_x (train_calls (e_calls o))) in
     used = firstn (nb * b) sh /\
     length (skipn (nb * b) sh) = nt mod b /\ nt mod b < b /\ 1 <= b <= bs /\ 1 <= nb /\
     NoDup used /\ incl used (train_rows perm key0 n nt) /\
     Forall (fun c => length (c_x c) = b) (train_calls (e_calls o)) /\
     length (train_calls (e_calls o)) = nb) /\
  (exists sh, Permutation sh (val_rows perm key0 n nt) /\
     let b := Nat.min bs (n - nt) in let nb := (n - nt) / b in
     let used := concat (map c_x (val_calls (e_calls o))) in
     used = firstn (nb * b) sh /\
     length (skipn (nb * b) sh) = (n - nt) mod b /\ (n - nt) mod b < b /\ 1 <= b <= bs /\ 1 <= nb /\
     NoDup used /\ incl used (val_rows perm key0 n nt) /\
     Forall (fun c => length (c_x c) = b) (val_calls (e_calls o)) /\
     length (val_calls (e_calls o)) = nb).
Proof. exact epoch_batches. Qed.
Print Assumptions C15_epoch_batches.

(* Validation rows never take part in a gradient step, in any epoch (re-shuffling permutes within
   each half); symmetrically training rows are never validated on. *)
Theorem C15_val_never_trained : forall perm, (forall k n, Permutation (perm k n) (seq 0 n)) ->
  forall key0 n nt bs e hc, 0 < nt < n -> 1 <= bs ->
  forall c r, In c (fit_trace perm key0 n nt bs e hc) -> In r (c_x c) ->
  (c_kind c = Train -> In r (train_rows perm key0 n nt) /\ ~ In r (val_rows perm key0 n nt)) /\
  (c_kind c = Val -> In r (val_rows perm key0 n nt) /\ ~ In r (train_rows perm key0 n nt)).
Proof. exact val_never_trained. Qed.
Print Assumptions C15_val_never_trained.

(* Every batch gets a fresh key: all keys handed to the loss and all keys handed to jr.permutation
   (train_val_split, the two per-epoch shuffles) are pairwise distinct split paths ... *)
Theorem C15_fresh_keys : forall perm, (forall k n, Permutation (perm k n) (seq 0 n)) ->
  forall key0 n nt bs e hc, 0 < nt < n -> 1 <= bs ->
  NoDup (map c_key (fit_trace perm key0 n nt bs e hc) ++ map fst (fit_perm_keys perm key0 n nt bs e hc)).
Proof. exact fresh_keys. Qed.
Print Assumptions C15_fresh_keys.

(* ... hence pairwise distinct keys, for any PRNG whose split yields distinct keys along distinct
   paths ([realize] maps a path to the key it denotes). *)
Theorem C15_fresh_keys_real : forall (K : Type) (realize : key -> K),
  (forall p q, realize p = realize q -> p = q) ->
  forall perm, (forall k n, Permutation (perm k n) (seq 0 n)) ->
  forall key0 n nt bs e hc, 0 < nt < n -> 1 <= bs ->
  NoDup (map realize (map c_key (fit_trace perm key0 n nt bs e hc) ++ map fst (fit_perm_keys perm key0 n nt bs e hc))).
Proof. exact @fresh_keys_real. Qed.
Print Assumptions C15_fresh_keys_real.

(* With both halves non-empty and bs >= 1 nothing raises and all e epochs run (patience aside). *)
Theorem C15_no_raise : forall perm, (forall k n, Permutation (perm k n) (seq 0 n)) ->
  forall key0 n nt bs e hc, 0 < nt < n -> 1 <= bs -> fit_raised perm key0 n nt bs e hc = false.
Proof. exact fit_no_raise. Qed.
Print Assumptions C15_no_raise.

Theorem C15_epochs_run : forall perm, (forall k n, Permutation (perm k n) (seq 0 n)) ->
  forall key0 n nt bs e hc, 0 < nt < n -> 1 <= bs -> length (fit_epochs perm key0 n nt bs e hc) = e.
Proof. exact fit_epochs_length. Qed.
Print Assumptions C15_epochs_run.

(* The same key reproduces the same run.  Trivial: the model is a function of (key, perm, sizes) --
   what it expresses is that fit_to_data has no hidden state, which only the tie can check. *)
Theorem C15_deterministic : forall perm k k' n nt bs e hc, k = k' ->
  fit_trace perm k n nt bs e hc = fit_trace perm k' n nt bs e hc.
Proof. exact fit_deterministic. Qed.
Print Assumptions C15_deterministic.

(* The model's split produces pairwise distinct keys. *)
Theorem C15_split_distinct : forall k n, NoDup (split k n).
Proof. exact split_NoDup. Qed.
Print Assumptions C15_split_distinct.

(* Non-vacuity: a key-dependent permutation oracle meets the hypothesis, and a concrete run
   (7 rows, 5 training rows, batch size 2, 2 epochs, with condition) skips one row per epoch,
   a different one each time. *)
Example C15_example_perm_ok : forall k n, Permutation (rot_perm k n) (seq 0 n).
Proof. exact rot_perm_ok. Qed.
Example C15_example_split :
  (train_rows rot_perm [] 7 5, val_rows rot_perm [] 7 5) = ([1; 0; 6; 5; 4], [3; 2]).
Proof. vm_compute. reflexivity. Qed.
Example C15_example_trace :
  map (fun c => (c_kind c, c_key c, c_args c)) (fit_trace rot_perm [] 7 5 2 2 true) =
  [ (Train, [0;0;1], [[6;0];[6;0]]); (Train, [0;0;0;1], [[1;4];[1;4]]); (Val, [0;0;0;0;1], [[3;2];[3;2]]);
    (Train, [0;0;0;0;0;0;1], [[6;5];[6;5]]); (Train, [0;0;0;0;0;0;0;1], [[4;1];[4;1]]);
    (Val, [0;0;0;0;0;0;0;0;1], [[2;3];[2;3]]) ] /\
  fit_perm_keys rot_perm [] 7 5 2 2 true = [([1], 7); ([0;1], 5); ([0;2], 2); ([0;0;0;0;0;1], 5); ([0;0;0;0;0;2], 2)].
Proof. vm_compute. split; reflexivity. Qed.
(* outside the hypotheses the model raises as the code does (ZeroDivisionError in _add_batch):
   empty validation half after the training batches, empty training half or batch_size 0 at once *)
Example C15_example_raises :
  fit_raised rot_perm [] 3 3 2 2 false = true /\ length (fit_trace rot_perm [] 3 3 2 2 false) = 1 /\
  fit_raised rot_perm [] 3 0 2 2 false = true /\ fit_trace rot_perm [] 3 0 2 2 false = [] /\
  fit_raised rot_perm [] 3 1 0 2 false = true /\ fit_trace rot_perm [] 3 1 0 2 false = [].
Proof. vm_compute. repeat split; reflexivity. Qed.
(* The hypothesis on [perm] does not by itself force alignment: under two different keys the same
   array is permuted differently, so C15_rows_aligned rests on x and condition sharing one key. *)
Example C15_example_keys_matter :
  permutation rot_perm [0;1] [0;1;2;3;4] = [2;1;0;4;3] /\ permutation rot_perm [0;2] [0;1;2;3;4] = [3;2;1;0;4].
Proof. vm_compute. split; reflexivity. Qed.
