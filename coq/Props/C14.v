(* C14 -- Methods are pure and transparent to jit, vmap and serialisation.   *** PARTIAL ***
   What is logic, and proved here (closed under the global context), is the pytree algebra that equinox modules live
   in (Model/Tree.v): flatten / unflatten and leaf serialisation / deserialisation are exact round trips, a well-formed
   module has no array in a static position, and vmap over a stacked batch is the Python loop.
   What is NOT provable in any Gallina model, because a model function is pure by construction: that the Python
   methods can be traced (no Python branch on a traced value, no NumPy call on a tracer), that jit does not bake in a
   stale constant, that there is no hidden Python state ("repeated calls agree" is vacuous in the model).  Those clauses
   are decided by the executed correspondence only (harness/c14.py: every case in eager / filter_jit / vmap / flatten-
   unflatten / serialise-deserialise modes, inputs in pairs). *)
From Coq Require Import List ZArith Bool.
From FJ Require Import Model.Num Model.Tree Proofs.TreeP.
Import ListNotations.

Arguments treedef {V Sp T K}. Arguments leaves {V Sp T K}. Arguments unflatten {V Sp T K}.
Arguments serialise {V Sp T K}. Arguments deserialise {V Sp T K}. Arguments same_struct {V Sp T K}.
Arguments wf_module {V Sp T K}. Arguments subtree_at {V Sp T K}.

(* jax.tree_util.tree_unflatten(treedef, leaves) rebuilds exactly the flattened pytree: every tree, any depth;
   wrappers are ordinary nodes here. *)
Theorem C14_flatten_unflatten :
  forall (V Sp T K : Type) (t : tree V Sp T K), unflatten (treedef t) (leaves t) = Some (t, []).
Proof. exact flatten_unflatten. Qed.
Print Assumptions C14_flatten_unflatten.

(* eqx.tree_deserialise_leaves(like, eqx.tree_serialise_leaves(t)) = t whenever [like] has the structure of t (same
   nodes and static leaves, arrays of the same kind and shape/dtype -- ANY values): leaf order = field order, statics
   come from [like], every array value comes from the stream, nothing is left over. *)
Theorem C14_serialise_roundtrip :
  forall (V Sp T K : Type) (same_meta : V -> V -> bool) (like t : tree V Sp T K),
  same_struct same_meta like t -> deserialise same_meta like (serialise t) = Some (t, []).
Proof. exact serialise_roundtrip. Qed.
Print Assumptions C14_serialise_roundtrip.

(* in a well-formed module no static leaf is an array (the tie checks wf_module on the real modules) *)
Theorem C14_static_has_no_array :
  forall (V Sp T K : Type) (is_array_payload : Sp -> bool) (p : list nat) (t : tree V Sp T K) (s : Sp),
  wf_module is_array_payload t = true -> subtree_at p t = Some (Static s) -> is_array_payload s = false.
Proof. exact static_has_no_array. Qed.
Print Assumptions C14_static_has_no_array.

(* batched = mapped: vmap of f over the stack of xs is the stack of the f x, and unstacking it gives the loop's results *)
Theorem C14_vmap_is_map :
  forall (A : Type) (f : tensor A -> tensor A) (xs : list (tensor A)) (sh : list nat),
  wf_batch sh xs -> vmap_t f (length xs) (stack_t (length xs) xs) = Some (stack_t (length xs) (map f xs)).
Proof. exact @vmap_is_map. Qed.
Print Assumptions C14_vmap_is_map.

Theorem C14_vmap_elementwise_readback :
  forall (A : Type) (f : tensor A -> tensor A) (xs : list (tensor A)) (sh sh' : list nat),
  wf_batch sh xs -> wf_batch sh' (map f xs) ->
  match vmap_t f (length xs) (stack_t (length xs) xs) with
  | Some y => unstack (length xs) y = Some (map f xs)
  | None => False
  end.
Proof. exact @vmap_unstack. Qed.
Print Assumptions C14_vmap_elementwise_readback.

(* non-vacuity *)
Example C14_example_flatten :
  length (leaves ex_tree) = 9 /\ unflatten (treedef ex_tree) (leaves ex_tree) = Some (ex_tree, []).
Proof. vm_compute. split; reflexivity. Qed.
Example C14_example_serialise :
  same_struct same_meta_t ex_like ex_obj /\ ex_like <> ex_obj /\
  deserialise_num nat nat ex_like (serialise_num nat nat ex_obj) = Some (ex_obj, []).
Proof. vm_compute. repeat split; try reflexivity. discriminate. Qed.
Example C14_example_vmap :
  wf_batch [2] [mkT [2] [1; 2]%Z; mkT [2] [3; 4]%Z; mkT [2] [5; 6]%Z] /\
  vmap_t (tmap Z.opp) 3 (mkT [3; 2] [1; 2; 3; 4; 5; 6]%Z) = Some (mkT [3; 2] [-1; -2; -3; -4; -5; -6]%Z).
Proof. split; [repeat constructor | vm_compute; reflexivity]. Qed.
