(* C01 / C02 at the combinator level, on the bijection-tree model Model/Bij.v (the model C08 / C13 tie to /repo):
   every tree built from invertible leaves is invertible both ways, the *_and_log_det methods return the same point,
   the log-det of one direction is the negation of the other's, and the log-det of a combinator is the sum of its
   children's at the points the definition prescribes.  Structural induction over [bij]: any nesting depth, width,
   tensor rank and axis.  Only property theorems (each closed by [exact]) and their [Print Assumptions].
   Lemmas: Proofs/BijInvP.v.

   Carrier: any type with operations [O] satisfying [inv_laws O unit]: (+, 0, -) an abelian group (the log-dets),
   x + b - b = x, x - b + b = x, and x * s / s = x, x / s * s = x for the invertible s ([unit s]).  True of the reals
   with unit s := s <> 0; floating-point rounding is not modelled.
   [inv_ok unit b]: every Scale / Affine leaf has only invertible scale entries, every Partial index resolves to
   in-range, pairwise distinct positions (a repeated index makes Partial non-injective).  Loc, Flip, Permute, Identity
   and AdditiveCondition leaves need nothing; an opaque leaf is the identity in this model. *)
From Coq Require Import List ZArith Bool.
From FJ Require Import Model.Num Model.Tensor Model.Bij Proofs.TensorP Proofs.TensorGet Proofs.BijP Proofs.BijCor Proofs.BijInvP.
Import ListNotations.

(* The core statement on the definition-shaped semantics: going in direction d and coming back restores the point,
   and the log-dets are opposite.  d = Fwd: inverse o forward = id; d = Inv: forward o inverse = id. *)
Theorem X01_den_round_trip : forall (A : Type) (O : NumOps A) (unit : A -> Prop), inv_laws O unit ->
  forall (b : bij A) d x c sg,
  sig_of b = Ok sg -> inv_ok unit b -> has_shape (fst sg) x = true -> cond_ok (snd sg) c ->
  fst (den O b (flipd d) (fst (den O b d x c)) c) = x /\
  snd (den O b (flipd d) (fst (den O b d x c)) c) = n_neg O (snd (den O b d x c)).
Proof. exact @den_round. Qed.
Print Assumptions X01_den_round_trip.

(* The same for the code-shaped semantics [run] (entry checks included): whenever a call succeeds, the call in the
   opposite direction on its output succeeds, returns the original input, and the scalar log-dets are opposite. *)
Theorem X01_run_round_trip : forall (A : Type) (O : NumOps A) (unit : A -> Prop), inv_laws O unit ->
  forall (b : bij A) d x c y l, inv_ok unit b -> run O b d x c = Ok (y, l) ->
  exists a, l = Sc a /\ run O b (flipd d) y c = Ok (x, Sc (n_neg O a)).
Proof. exact @run_round_L. Qed.
Print Assumptions X01_run_round_trip.

(* ... for the four public methods: transform <-> inverse, transform_and_log_det <-> inverse_and_log_det *)
Theorem X01_run_method_round_trip : forall (A : Type) (O : NumOps A) (unit : A -> Prop), inv_laws O unit ->
  forall (b : bij A) m x c y ol, inv_ok unit b -> run_meth O b m x c = Ok (y, ol) ->
  run_meth O b (meth_flip m) y c = Ok (x, option_map (tmap (n_neg O)) ol).
Proof. exact @run_meth_round_L. Qed.
Print Assumptions X01_run_method_round_trip.

(* C01: inverse(transform(x)) = x ... *)
Theorem X01_run_inverse_law : forall (A : Type) (O : NumOps A) (unit : A -> Prop), inv_laws O unit ->
  forall (b : bij A) x c y, inv_ok unit b ->
  run_meth O b MTransform x c = Ok (y, None) -> run_meth O b MInverse y c = Ok (x, None).
Proof. exact @run_inverse_of_transform_L. Qed.
Print Assumptions X01_run_inverse_law.

(* ... and transform(inverse(y)) = y *)
Theorem X01_run_inverse_law_converse : forall (A : Type) (O : NumOps A) (unit : A -> Prop), inv_laws O unit ->
  forall (b : bij A) x c y, inv_ok unit b ->
  run_meth O b MInverse y c = Ok (x, None) -> run_meth O b MTransform x c = Ok (y, None).
Proof. exact @run_transform_of_inverse_L. Qed.
Print Assumptions X01_run_inverse_law_converse.

(* on a well-constructed tree and a correctly shaped input the first call does succeed (C08_run_is_den), so the law is
   not vacuous: restated with the hypotheses of C08 instead of "the call succeeded" *)
Theorem X01_wellformed_calls_succeed : forall (A : Type) (O : NumOps A) (b : bij A) m x c sg,
  sig_of b = Ok sg -> has_shape (fst sg) x = true -> cond_ok (snd sg) c ->
  run_meth O b m x c =
    Ok (fst (den O b (meth_dir m) x c), if meth_ld m then Some (Sc (snd (den O b (meth_dir m) x c))) else None).
Proof. exact @run_meth_is_den. Qed.
Print Assumptions X01_wellformed_calls_succeed.

(* the *_and_log_det variants return the same point as the plain methods (no carrier law needed) *)
Theorem X01_and_log_det_same_point : forall (A : Type) (O : NumOps A) (b : bij A) m x c y ol,
  run_meth O b m x c = Ok (y, ol) -> run_meth O b (meth_plain m) x c = Ok (y, None).
Proof. exact @run_meth_same_point. Qed.
Print Assumptions X01_and_log_det_same_point.

Theorem X01_and_log_det_same_point_conv : forall (A : Type) (O : NumOps A) (b : bij A) m x c y,
  run_meth O b (meth_plain m) x c = Ok (y, None) -> exists ol, run_meth O b m x c = Ok (y, ol).
Proof. exact @run_meth_same_point_conv. Qed.
Print Assumptions X01_and_log_det_same_point_conv.

(* C02: if inverse_and_log_det(y) = (x, l) then transform_and_log_det(x) = (y, -l), and conversely *)
Theorem X02_run_ldj_inverse_law : forall (A : Type) (O : NumOps A) (unit : A -> Prop), inv_laws O unit ->
  forall (b : bij A) x c y l, inv_ok unit b ->
  run_meth O b MInverseLD y c = Ok (x, Some l) ->
  exists a, l = Sc a /\ run_meth O b MTransformLD x c = Ok (y, Some (Sc (n_neg O a))).
Proof. exact @run_ldj_inverse_law_L. Qed.
Print Assumptions X02_run_ldj_inverse_law.

Theorem X02_run_ldj_forward_law : forall (A : Type) (O : NumOps A) (unit : A -> Prop), inv_laws O unit ->
  forall (b : bij A) x c y l, inv_ok unit b ->
  run_meth O b MTransformLD x c = Ok (y, Some l) ->
  exists a, l = Sc a /\ run_meth O b MInverseLD y c = Ok (x, Some (Sc (n_neg O a))).
Proof. exact @run_ldj_forward_law_L. Qed.
Print Assumptions X02_run_ldj_forward_law.

(* ---- C02: the log-det of a combinator is the sum of its children's log-dets at the prescribed points.
   Stated for [den]; [run] returns [Sc] of the second component (X01_wellformed_calls_succeed / C08_run_is_den). ---- *)
(* Chain: the running intermediate values (Scan: the same, X02_ldj_scan) *)
Theorem X02_ldj_chain_nil : forall (A : Type) (O : NumOps A) d (x : tensor A) c, den O (@Chain A []) d x c = (x, zero O).
Proof. exact @ldj_chain_nil. Qed.
Print Assumptions X02_ldj_chain_nil.

Theorem X02_ldj_chain_cons : forall (A : Type) (O : NumOps A) (b : bij A) bs x c,
  (forall a1 a2 a3 : A, n_add O a1 (n_add O a2 a3) = n_add O (n_add O a1 a2) a3) ->
  (forall a1 a2 : A, n_add O a1 a2 = n_add O a2 a1) -> (forall a : A, n_add O a (zero O) = a) ->
  den O (Chain (b :: bs)) Fwd x c =
  (fst (den O (Chain bs) Fwd (fst (den O b Fwd x c)) c),
   n_add O (snd (den O b Fwd x c)) (snd (den O (Chain bs) Fwd (fst (den O b Fwd x c)) c))).
Proof. exact @ldj_chain_cons_fwd. Qed.
Print Assumptions X02_ldj_chain_cons.

Theorem X02_ldj_chain_inverse_snoc : forall (A : Type) (O : NumOps A) (b : bij A) bs y c,
  (forall a1 a2 a3 : A, n_add O a1 (n_add O a2 a3) = n_add O (n_add O a1 a2) a3) ->
  (forall a1 a2 : A, n_add O a1 a2 = n_add O a2 a1) -> (forall a : A, n_add O a (zero O) = a) ->
  den O (Chain (bs ++ [b])) Inv y c =
  (fst (den O (Chain bs) Inv (fst (den O b Inv y c)) c),
   n_add O (snd (den O b Inv y c)) (snd (den O (Chain bs) Inv (fst (den O b Inv y c)) c))).
Proof. exact @ldj_chain_snoc_inv. Qed.
Print Assumptions X02_ldj_chain_inverse_snoc.

Theorem X02_ldj_scan : forall (A : Type) (O : NumOps A) (bs : list (bij A)) d x c,
  den O (Scan bs) d x c = den O (Chain bs) d x c.
Proof. exact @ldj_scan. Qed.
Print Assumptions X02_ldj_scan.

(* Concatenate: the sum over the parts, part i evaluated at the i-th slice (offset_i, size_i) along the axis *)
Theorem X02_ldj_concatenate : forall (A : Type) (O : NumOps A) ax (bs : list (bij A)) sg c,
  sig_of (Concat ax bs) = Ok sg -> cond_ok (snd sg) c ->
  exists pre post sizes, fst sg = pre ++ sumn sizes :: post /\ sizes <> [] /\ length bs = length sizes /\
    forall d x, den O (Concat ax bs) d x c =
      (tcat_d (length pre) (map fst (map2 (fun b' t => den O b' d t c) bs (parts (length pre) x 0 sizes))),
       sum O (map snd (map2 (fun b' t => den O b' d t c) bs (parts (length pre) x 0 sizes)))).
Proof. exact @ldj_concat. Qed.
Print Assumptions X02_ldj_concatenate.

(* Stack: the sum over the parts, part i evaluated at take(x, i, axis) *)
Theorem X02_ldj_stack : forall (A : Type) (O : NumOps A) ax (bs : list (bij A)) sg c,
  sig_of (Stack ax bs) = Ok sg -> cond_ok (snd sg) c ->
  exists pre post, fst sg = pre ++ length bs :: post /\ bs <> [] /\
    forall d x, den O (Stack ax bs) d x c =
      (tstack_d (length pre) (map fst (map2 (fun b' t => den O b' d t c) bs
                                         (map (fun i => tindex (length pre) i x) (seq 0 (length bs))))),
       sum O (map snd (map2 (fun b' t => den O b' d t c) bs (map (fun i => tindex (length pre) i x) (seq 0 (length bs)))))).
Proof. exact @ldj_stack. Qed.
Print Assumptions X02_ldj_stack.

(* Vmap: the sum over the slices of the leading axis, slice i with parameter slice i and condition slice i *)
Theorem X02_ldj_vmap : forall (A : Type) (O : NumOps A) n mapped cax (bs : list (bij A)) sg c,
  sig_of (Vmap n mapped cax bs) = Ok sg -> cond_ok (snd sg) c ->
  exists sg0 cl, fst sg = n :: fst sg0 /\ length cl = n /\ Forall (cond_ok (snd sg0)) cl /\
    (if mapped then length bs = n else exists b0, bs = [b0]) /\
    forall d xs, den O (Vmap n mapped cax bs) d (Ar xs) c =
      let outs := if mapped then map2 (fun b' p => den O b' d (fst p) (snd p)) bs (combine xs cl)
                  else match bs with b0 :: _ => map (fun p => den O b0 d (fst p) (snd p)) (combine xs cl) | [] => [] end in
      (Ar (map fst outs), sum O (map snd outs)).
Proof. exact @ldj_vmap. Qed.
Print Assumptions X02_ldj_vmap.

(* Partial / Reshape / EmbedCondition: the child's log-det passes through; Invert: the other direction's *)
Theorem X02_ldj_partial : forall (A : Type) (O : NumOps A) ix s (b : bij A) d x c rs, resolve_idx ix s = Some rs ->
  den O (Partial ix s b) d x c = (tscatter rs x (fst (den O b d (tgather rs x) c)), snd (den O b d (tgather rs x) c)).
Proof. exact @ldj_partial. Qed.
Print Assumptions X02_ldj_partial.

Theorem X02_ldj_reshape : forall (A : Type) (O : NumOps A) os cs (b : bij A) d x c,
  exists c', snd (den O (Reshape os cs b) d x c) = snd (den O b d (treshape (shape_d b) x) c') /\
             fst (den O (Reshape os cs b) d x c) = treshape (shape_d (Reshape os cs b)) (fst (den O b d (treshape (shape_d b) x) c')).
Proof. exact @ldj_reshape. Qed.
Print Assumptions X02_ldj_reshape.

Theorem X02_ldj_embed_condition : forall (A : Type) (O : NumOps A) e raw (b : bij A) d x c,
  den O (EmbedCond e raw b) d x c = den O b d x (option_map (embed_d O e) c).
Proof. exact @ldj_embed. Qed.
Print Assumptions X02_ldj_embed_condition.

Theorem X02_ldj_invert : forall (A : Type) (O : NumOps A) (b : bij A) d x c,
  den O (Invert b) d x c = den O b (flipd d) x c.
Proof. exact @ldj_invert. Qed.
Print Assumptions X02_ldj_invert.

(* ---- non-vacuity: the integers with units +-1 satisfy the laws; a tree with a negative Stack axis, a Vmap with a
   mapped condition axis, a Partial with a reversed slice and a Scale by -1 is invertible, and a round trip computes ---- *)
Example X01_example_laws : inv_laws ZOps (fun z => z = 1%Z \/ z = (-1)%Z).
Proof. exact Z_inv_laws. Qed.

Example X01_example_tree_ok :
  sig_of ex_tree = Ok ([2; 2], Some [3; 2]) /\ inv_ok (fun z => z = 1%Z \/ z = (-1)%Z) ex_tree.
Proof.
  split; [vm_compute; reflexivity|]. cbn. repeat split; auto.
  - unfold tall. cbn. constructor; [now right | constructor; [now left | constructor]].
  - exists [([1%Z; 0%Z], true)]. split; [reflexivity|]. cbn. repeat split; auto.
    constructor; [cbn; intros [H|[]]; discriminate | constructor; [intros [] | constructor]].
Qed.

Example X01_example_round_trip :
  let x := zt [2; 2] [1; 2; 3; 4]%Z in
  let c := Some (zt [3; 2] [1; 0; 2; 1; 0; 3]%Z) in
  exists y, run ZOps ex_tree Fwd x c = Ok (y, Sc 0%Z) /\ y <> x /\ run ZOps ex_tree Inv y c = Ok (x, Sc 0%Z).
Proof. eexists. split; [vm_compute; reflexivity|]. split; [vm_compute; discriminate | vm_compute; reflexivity]. Qed.
