(* C09 -- Autoregressive, coupling and block structure holds for all weights.
   Only the property theorems (each closed by [exact]) with their [Print Assumptions], and non-vacuity examples.
   Model: Model/Masks.v.  Lemmas: Proofs/MasksP.v.

   The numeric carrier A is ARBITRARY; the only algebraic fact used is [mul zero a = zero].  It holds in R, Q, Z and
   for FINITE IEEE floats; it fails for non-finite floats (0 * inf = NaN), so "whatever values the weights take /
   arbitrary inputs" in the property means: finite weights, finite hidden activations, finite inputs.
   Vectors are lists; [nth_error] (option valued) is used throughout, so no statement holds by a default element.
   Weights, biases and activation are universally quantified with no shape hypothesis (a missing row is an absent
   output): the masks are applied at evaluation ([where_mask] inside [masked_mlp], as [unwrap] does before every
   method), hence "training cannot un-mask". *)
From Coq Require Import List ZArith Bool Arith Lia.
From FJ Require Import Model.Masks Proofs.MasksP.
Import ListNotations.

(* ---------- masked MLP: the rank argument, any widths, any depth (0 included) ---------- *)
(* If x and x' agree on every input of rank < t then every output of rank <= t agrees
   (hidden masks use >=, the last mask uses >). *)
Theorem C09_masked_mlp_dependence :
  forall (A : Type) (zero : A) (add mul : A -> A -> A), (forall a : A, mul zero a = zero) ->
  forall (act : A -> A) (rin hid rout : list Z) (depth : nat) (ws : list (list (list A))) (bs : list (list A))
         (x x' : list A) (t : Z),
    length x = length x' ->
    (forall (j : nat) (r : Z), nth_error rin j = Some r -> (r < t)%Z -> nth_error x j = nth_error x' j) ->
    forall (i : nat) (r : Z), nth_error rout i = Some r -> (r <= t)%Z ->
      nth_error (masked_mlp zero add mul ws bs (mlp_masks rin hid rout depth) act x) i =
      nth_error (masked_mlp zero add mul ws bs (mlp_masks rin hid rout depth) act x') i.
Proof. exact @masked_mlp_dependence. Qed.
Print Assumptions C09_masked_mlp_dependence.

(* ---------- MaskedAutoregressive, every dim, cond_dim, width, depth, parameter count ---------- *)
(* The transformer parameters of coordinate i depend on x_0..x_{i-1} only -- and on the condition c, which is shared. *)
Theorem C09_maf_params_autoregressive :
  forall (A : Type) (zero : A) (add mul : A -> A -> A), (forall a : A, mul zero a = zero) ->
  forall (act : A -> A) (dim : nat) (cond : option nat) (width depth npar : nat)
         (ws : list (list (list A))) (bs : list (list A)) (x x' c : list A) (i : nat),
    length x = dim -> length x' = dim -> (i < dim)%nat ->
    (forall j : nat, (j < i)%nat -> nth_error x j = nth_error x' j) ->
    forall p : nat, (p < npar)%nat ->
      nth_error (maf_params zero add mul dim cond width depth npar ws bs act x c) (i * npar + p) =
      nth_error (maf_params zero add mul dim cond width depth npar ws bs act x' c) (i * npar + p).
Proof. exact @maf_params_autoregressive. Qed.
Print Assumptions C09_maf_params_autoregressive.

(* Output i of the layer depends on x_0..x_i only, for ANY transformer family tau (params -> scalar map). *)
Theorem C09_maf_output_autoregressive :
  forall (A : Type) (zero : A) (add mul : A -> A -> A), (forall a : A, mul zero a = zero) ->
  forall (tau : list A -> A -> A) (act : A -> A) (dim : nat) (cond : option nat) (width depth npar : nat)
         (ws : list (list (list A))) (bs : list (list A)) (x x' c : list A) (i : nat),
    length x = dim -> length x' = dim -> (i < dim)%nat -> (0 < npar)%nat ->
    length (maf_params zero add mul dim cond width depth npar ws bs act x c) = (dim * npar)%nat ->
    (forall j : nat, (j <= i)%nat -> nth_error x j = nth_error x' j) ->
    nth_error (maf_transform zero add mul tau dim cond width depth npar ws bs act x c) i =
    nth_error (maf_transform zero add mul tau dim cond width depth npar ws bs act x' c) i.
Proof. exact @maf_output_autoregressive. Qed.
Print Assumptions C09_maf_output_autoregressive.

(* No permitted dependency is missing: width >= dim-1 (unconditional) / width >= dim (conditional) gives, for every
   j < i and every parameter p of coordinate i, a path x_j -> ... -> params[i,p] of all-true mask entries. *)
Theorem C09_maf_no_missing_dependency :
  forall (dim : nat) (cond : option nat) (width depth npar i j p : nat),
    (j < i)%nat -> (i < dim)%nat -> (p < npar)%nat ->
    match cond with None => (dim - 1 <= width)%nat | Some _ => (dim <= width)%nat end ->
    connected (maf_masks dim cond width depth npar) j (i * npar + p).
Proof. exact maf_no_missing_dependency. Qed.
Print Assumptions C09_maf_no_missing_dependency.

(* "freely on the condition": every condition entry reaches every parameter of every coordinate (width >= 1). *)
Theorem C09_maf_condition_reaches_all :
  forall (dim cd width depth npar q i p : nat),
    (q < cd)%nat -> (i < dim)%nat -> (p < npar)%nat -> (1 <= width)%nat ->
    connected (maf_masks dim (Some cd) width depth npar) (dim + q) (i * npar + p).
Proof. exact maf_condition_reaches_all. Qed.
Print Assumptions C09_maf_condition_reaches_all.

(* ---------- the mask helpers return the documented patterns, every size ---------- *)
Theorem C09_rank_mask_spec :
  forall (in_ranks out_ranks : list Z) (eq : bool) (o i : nat) (ro ri : Z),
    nth_error out_ranks o = Some ro -> nth_error in_ranks i = Some ri ->
    entry (rank_based_mask in_ranks out_ranks eq) o i = Some (if eq then (ri <=? ro)%Z else (ri <? ro)%Z).
Proof. exact rank_mask_spec. Qed.
Print Assumptions C09_rank_mask_spec.

Theorem C09_block_diag_closed_form :
  forall (bh bw n r c : nat), (r < bh * n)%nat -> (c < bw * n)%nat ->
    entry (block_diag_mask bh bw n) r c = Some (r / bh =? c / bw)%nat.
Proof. exact block_diag_closed_form. Qed.
Print Assumptions C09_block_diag_closed_form.

(* offset k as coded: column block c/bw is switched on from block row max(0, c/bw - k) downwards *)
Theorem C09_block_tril_closed_form :
  forall (bh bw n : nat) (k : Z) (r c : nat), (r < bh * n)%nat -> (c < bw * n)%nat ->
    entry (block_tril_mask bh bw n k) r c = Some (Z.max 0 (Z.of_nat (c / bw) - k) <=? Z.of_nat (r / bh))%Z.
Proof. exact block_tril_closed_form. Qed.
Print Assumptions C09_block_tril_closed_form.

(* k = 0 (the only offset flowjax uses): the diagonal blocks are INCLUDED *)
Theorem C09_block_tril_closed_form_0 :
  forall (bh bw n r c : nat), (r < bh * n)%nat -> (c < bw * n)%nat ->
    entry (block_tril_mask bh bw n 0) r c = Some (c / bw <=? r / bh)%nat.
Proof. exact block_tril_closed_form_0. Qed.
Print Assumptions C09_block_tril_closed_form_0.

(* ---------- Coupling, arbitrary conditioner and transformer family ---------- *)
Theorem C09_coupling_first_block_identity :
  forall (A : Type) (tau : list A -> A -> A) (conditioner : list A -> list A) (d dim : nat) (x : list A) (c : option (list A)),
    firstn d (coupling_transform tau conditioner d dim x c) = firstn d x.
Proof. exact @coupling_first_block_identity. Qed.
Print Assumptions C09_coupling_first_block_identity.

Theorem C09_coupling_dependence :
  forall (A : Type) (tau : list A -> A -> A) (conditioner : list A -> list A) (d dim : nat) (x x' : list A)
         (c : option (list A)) (i : nat),
    length x = length x' -> firstn d x = firstn d x' -> (d <= i)%nat -> nth_error x i = nth_error x' i ->
    nth_error (coupling_transform tau conditioner d dim x c) i = nth_error (coupling_transform tau conditioner d dim x' c) i.
Proof. exact @coupling_dependence. Qed.
Print Assumptions C09_coupling_dependence.

(* ---------- BlockAutoregressiveNetwork: lower-triangular dependence, all weights, depths, block sizes ---------- *)
Theorem C09_bnaf_triangular :
  forall (A : Type) (zero : A) (add mul : A -> A -> A), (forall a : A, mul zero a = zero) ->
  forall (act : A -> A) (dim depth bd : nat) (ws : list (list (list A))) (bs : list (list A))
         (cterm : option (list A)) (x x' : list A) (i : nat),
    length x = length x' -> (i < dim)%nat ->
    (forall j : nat, (j <= i)%nat -> nth_error x j = nth_error x' j) ->
    nth_error (bnaf_transform zero add mul dim depth bd ws bs act cterm x) i =
    nth_error (bnaf_transform zero add mul dim depth bd ws bs act cterm x') i.
Proof. exact @bnaf_triangular. Qed.
Print Assumptions C09_bnaf_triangular.

(* ... and strictly positive diagonal, stated without calculus: y_i is STRICTLY INCREASING in x_i (x_j, j > i, may change
   arbitrarily at the same time), over any ordered carrier (lt transitive, add strictly monotone in both arguments,
   multiplication by a positive weight strictly monotone), for every strictly increasing activation, all depths and
   block sizes, all well-shaped weights whose diagonal-block entries are positive (what softplus + weight normalisation
   with a positive scale deliver; tied numerically), any condition term.
   _partial: the property's "Jacobian diagonal > 0" follows from this only where the activation is differentiable with a
   positive derivative; the derivative form is not proved. *)
Theorem C09_bnaf_monotone_partial :
  forall (A : Type) (zero : A) (add mul : A -> A -> A) (lt : A -> A -> Prop),
    (forall a : A, mul zero a = zero) ->
    (forall a b c : A, lt a b -> lt b c -> lt a c) ->
    (forall a a' b : A, lt a a' -> lt (add a b) (add a' b)) ->
    (forall a b b' : A, lt b b' -> lt (add a b) (add a b')) ->
    (forall w a a' : A, lt zero w -> lt a a' -> lt (mul w a) (mul w a')) ->
  forall act : A -> A, (forall a a' : A, lt a a' -> lt (act a) (act a')) ->
  forall (dim depth bd : nat) (ws : list (list (list A))) (bs : list (list A)) (cterm : option (list A))
         (x x' : list A) (i : nat) (a a' : A),
    (0 < bd)%nat -> (i < dim)%nat -> length x = dim -> length x' = dim ->
    layers_good zero lt dim (bnaf_block_shapes depth bd) ws bs ->
    match cterm with Some t => (bd * dim <= length t)%nat | None => True end ->
    (forall j : nat, (j < i)%nat -> nth_error x j = nth_error x' j) ->
    nth_error x i = Some a -> nth_error x' i = Some a' -> lt a a' ->
    exists y y' : A,
      nth_error (bnaf_transform zero add mul dim depth bd ws bs act cterm x) i = Some y /\
      nth_error (bnaf_transform zero add mul dim depth bd ws bs act cterm x') i = Some y' /\ lt y y'.
Proof. exact @bnaf_monotone. Qed.
Print Assumptions C09_bnaf_monotone_partial.

(* the block-lower-triangular mask is the rank mask (>=) of the block indices: BNAF is the same rank argument *)
Theorem C09_block_tril_is_rank_mask :
  forall (bh bw n r c : nat), (r < bh * n)%nat -> (c < bw * n)%nat ->
    entry (block_tril_mask bh bw n 0) r c =
    entry (rank_based_mask (map (fun c => Z.of_nat (c / bw)) (seq 0 (bw * n))) (map (fun r => Z.of_nat (r / bh)) (seq 0 (bh * n))) true) r c.
Proof. exact block_tril_is_rank_mask. Qed.
Print Assumptions C09_block_tril_is_rank_mask.

(* ---------- masks live in Where wrappers applied at every evaluation: training cannot un-mask ---------- *)
Theorem C09_where_survives_update :
  forall (A : Type) (zero : A) (m : list (list bool)) (w : list (list A)) (r c : nat) (v : A),
    entry m r c = Some false -> entry (where_mask zero m w) r c = Some v -> v = zero.
Proof. exact @where_survives_update. Qed.
Print Assumptions C09_where_survives_update.

(* softplus on the diagonal blocks + weight normalisation keep the zeros (a*0 = 0 and 0/n = 0: finite scale, finite
   non-zero row norm in floats) *)
Theorem C09_bnaf_weight_zero_off_mask :
  forall (A : Type) (zero : A) (mul : A -> A -> A) (sp : A -> A) (norm : list A -> A) (div : A -> A -> A),
    (forall a : A, mul a zero = zero) -> (forall a : A, div zero a = zero) ->
  forall (tril diag : list (list bool)) (w1 w2 : list (list A)) (scale_raw : list A) (r c : nat) (v : A),
    entry tril r c = Some false -> entry diag r c = Some false ->
    entry (bnaf_weight zero mul sp norm div tril diag w1 w2 scale_raw) r c = Some v -> v = zero.
Proof. exact @bnaf_weight_zero_off_mask. Qed.
Print Assumptions C09_bnaf_weight_zero_off_mask.

(* ---------- the model's reachability matrix (what the tie compares jax.jacobian sparsity with) ---------- *)
(* reach[o][j] = true exactly when an all-true mask path j -> o exists ... *)
Theorem C09_reach_connected :
  forall (m0 : list (list bool)) (rest : list (list (list bool))) (nc j o : nat),
    Forall (fun row => length row = nc) m0 -> (j < nc)%nat ->
    (entry (reach (m0 :: rest) nc) o j = Some true <-> connected (m0 :: rest) j o).
Proof. exact reach_connected. Qed.
Print Assumptions C09_reach_connected.

(* ... and reach[o][j] = false means output o is independent of input j for ALL weights, biases, activations
   (any well-chained mask list; the masks of masked_autoregressive_mlp are well chained: mlp_masks_chained) *)
Theorem C09_reach_false_independent :
  forall (A : Type) (zero : A) (add mul : A -> A -> A), (forall a : A, mul zero a = zero) ->
  forall (act : A -> A) (m0 : list (list bool)) (rest : list (list (list bool))) (nc : nat)
         (ws : list (list (list A))) (bs : list (list A)) (x x' : list A) (j o : nat),
    Forall (fun row => length row = nc) m0 -> chained (length m0) rest -> (j < nc)%nat ->
    length x = length x' -> (forall i : nat, i <> j -> nth_error x i = nth_error x' i) ->
    entry (reach (m0 :: rest) nc) o j = Some false ->
    nth_error (masked_mlp zero add mul ws bs (m0 :: rest) act x) o = nth_error (masked_mlp zero add mul ws bs (m0 :: rest) act x') o.
Proof. exact @reach_false_independent. Qed.
Print Assumptions C09_reach_false_independent.

(* ---------- non-vacuity ---------- *)
Open Scope Z_scope.
(* dim 3, width 2, depth 1, one parameter per coordinate, integer weights: the network produces 3 outputs; changing
   x_2 (and x_1) leaves parameter 1 unchanged, changing x_0 changes it. *)
Definition ex_ws : list (list (list Z)) := [[[2; 3; 5]; [7; 11; 13]]; [[1; 1]; [3; 4]; [5; 6]]].
Definition ex_bs : list (list Z) := [[1; 1]; [0; 0; 0]].
Definition ex_net (x : list Z) : list Z := maf_params 0 Z.add Z.mul 3 None 2 1 1 ex_ws ex_bs (fun v => Z.max v 0) x [].
Example C09_example_mlp :
  ex_net [1; 2; 3] = [0; 9; 195] /\ ex_net [1; 50; -70] = [0; 9; 3363] /\ ex_net [4; 2; 3] = [0; 27; 351].
Proof. vm_compute. repeat split; reflexivity. Qed.
Example C09_example_masks :
  maf_masks 3 None 2 1 1 = [[[true; false; false]; [true; true; false]]; [[false; false]; [true; false]; [true; true]]]
  /\ maf_hidden_ranks 1 None 3 = [0; 0; 0] /\ maf_hidden_ranks 1 (Some 2%nat) 3 = [-1; -1; -1]
  /\ maf_hidden_ranks 4 (Some 1%nat) 6 = [-1; 0; 1; 2; -1; 0].
Proof. vm_compute. repeat split; reflexivity. Qed.
Example C09_example_block_masks :
  block_tril_mask 2 1 2 0 = [[true; false]; [true; false]; [true; true]; [true; true]] /\
  block_diag_mask 1 2 2 = [[true; true; false; false]; [false; false; true; true]] /\
  block_tril_mask 1 1 3 (-1) = [[false; false; false]; [true; false; false]; [true; true; false]].
Proof. vm_compute. repeat split; reflexivity. Qed.
(* width 1 < dim - 1 = 2: the permitted dependency of coordinate 2 on x_1 IS missing, so the width bound matters *)
Example C09_example_missing_when_narrow :
  maf_param_dep 3 None 1 1 1 = [[false; false; false]; [true; false; false]; [true; false; false]] /\
  maf_param_dep 3 None 2 1 1 = [[false; false; false]; [true; false; false]; [true; true; false]].
Proof. vm_compute. split; reflexivity. Qed.

(* BNAF over Z (an ordered carrier), dim 2, depth 1, block_dim 2, activation v -> 2v+1: the hypotheses of
   C09_bnaf_monotone_partial are satisfiable (layers_good holds) and the conclusion is visible: raising x_0 raises y_0;
   y_0 ignores x_1; raising x_1 raises y_1.  Entries above the block diagonal are non-zero in the RAW weights. *)
Definition exb_ws : list (list (list Z)) := [[[2; 9]; [1; -7]; [-3; 4]; [5; 6]]; [[1; 2; 8; -8]; [-1; 3; 2; 1]]].
Definition exb_bs : list (list Z) := [[0; 1; -1; 2]; [5; -5]].
Definition exb_net (x : list Z) : list Z := bnaf_transform 0 Z.add Z.mul 2 1 2 exb_ws exb_bs (fun v => 2 * v + 1) (Some [1; 0; -2; 3]) x.
Example C09_example_bnaf_good : layers_good 0 Z.lt 2 (bnaf_block_shapes 1 2) exb_ws exb_bs.
Proof.
  cbn [bnaf_block_shapes repeat app layers_good hd tl fst snd exb_ws exb_bs length Nat.mul Nat.add].
  repeat split; try lia; try (repeat constructor).
  - intros r c v He Hd.
    do 5 (destruct r as [|r]; [do 3 (destruct c as [|c]; [cbn in He, Hd; try discriminate; try (injection He as <-; lia)|]); destruct c; discriminate|]).
    destruct c; discriminate.
  - intros r c v He Hd.
    do 3 (destruct r as [|r]; [do 5 (destruct c as [|c]; [cbn in He, Hd; try discriminate; try (injection He as <-; lia)|]); destruct c; discriminate|]).
    destruct c; discriminate.
Qed.
Example C09_example_bnaf_values :
  exb_net [1; 1] = [22; 30] /\ exb_net [1; 100] = [22; 2802] /\ exb_net [2; 1] = [30; 30].
Proof. vm_compute. repeat split; reflexivity. Qed.
(* reachability of the example masks: coordinate 2's parameters cannot be reached from x_2; theorem
   C09_reach_false_independent applies (entry = Some false) *)
Example C09_example_reach :
  reach (maf_masks 3 None 2 1 1) 3 = [[false; false; false]; [true; false; false]; [true; true; false]].
Proof. vm_compute. reflexivity. Qed.
