(* C10 -- The bisection inverter finds the root of any increasing function.
   Only the property theorems (each closed by [exact]) and their [Print Assumptions].
   Model: Model/Bisect.v (the code of flowjax/bisection_search.py, generic over an ordered field).
   Lemmas: Proofs/BisectP.v.  All statements are at the real numbers [RF]: EXACT arithmetic.
   Float rounding / resolution ("down to floating-point resolution at the root's magnitude",
   the tol < ulp exit through max_iter) is NOT modelled. *)
From Coq Require Import Reals List ZArith Bool QArith.
From FJ Require Import Model.Bisect Proofs.RNum Proofs.BisectP.
Import ListNotations.
Open Scope R_scope.

(* Interval adaptation terminates and brackets the root, for EVERY strictly increasing f with a root r
   and EVERY start interval lo < up, wherever the root lies (inside, on an end, just outside, far away
   on either side), with an EXPLICIT fuel bound: any N with
       max(r - up, lo - r) / (up - lo) + 1 <= 2^N
   iterations suffice (more fuel never changes the result).  The bracket satisfies f l <= 0 <= f u,
   l <= r <= u, is either collapsed onto the root (exact hit) or proper, is no wider than
   max(up - lo, r - lo, up - r), and no iteration is spent iff the root was already inside. *)
Theorem C10_adapt_terminates_and_brackets :
  forall (f : R -> R) (r : R), f r = 0 -> (forall x y, x < y -> f x < f y) ->
  forall lo up N, lo < up ->
    Rmax (r - up) (lo - r) / (up - lo) + 1 <= 2 ^ N ->
    exists l u n, (n <= N)%nat /\ l <= r <= u /\ f l <= 0 <= f u /\ (l = u \/ l < u) /\
      u - l <= width0 r lo up /\ (n = O <-> lo <= r <= up) /\
      forall fuel, (N <= fuel)%nat -> adapt RF f lo up fuel = Some (l, u, n).
Proof. exact adapt_fuel_bound. Qed.
Print Assumptions C10_adapt_terminates_and_brackets.

(* ... and such an N always exists (Archimedean property: 2^N is unbounded). *)
Theorem C10_adapt_terminates :
  forall (f : R -> R) (r : R), f r = 0 -> (forall x y, x < y -> f x < f y) ->
  forall lo up, lo < up ->
    exists N l u n, (n <= N)%nat /\ l <= r <= u /\ f l <= 0 <= f u /\ (l = u \/ l < u) /\
      u - l <= width0 r lo up /\ (n = O <-> lo <= r <= up) /\
      forall fuel, (N <= fuel)%nat -> adapt RF f lo up fuel = Some (l, u, n).
Proof. exact adapt_terminates. Qed.
Print Assumptions C10_adapt_terminates.

(* The bisection loop keeps the bracket, never widens it, halves the width each iteration (or collapses
   it on an exact hit), runs at most [rem] = max_iter iterations and stops early only when the width is
   <= 2 tol. *)
Theorem C10_bisect_invariant :
  forall (f : R -> R) (r : R), f r = 0 -> (forall x y, x < y -> f x < f y) ->
  forall tol rem l u it, 0 < tol -> l <= r <= u ->
    exists l' u' k, bisect_loop RF f tol rem l u it = (l', u', (it + k)%nat) /\
      (k <= rem)%nat /\ l <= l' /\ u' <= u /\ l' <= r <= u' /\
      u' - l' <= (u - l) / 2 ^ k /\ (u' - l' <= 2 * tol \/ k = rem).
Proof. exact bisect_loop_spec. Qed.
Print Assumptions C10_bisect_invariant.

(* The whole search, ANY max_iter (0 included): it terminates (explicit fuel), and the returned midpoint
   satisfies |root - r| <= max tol (W / 2^(max_iter+1)), W = max(up - lo, r - lo, up - r). *)
Theorem C10_search_bound_any_iter :
  forall (f : R -> R) (r : R), f r = 0 -> (forall x y, x < y -> f x < f y) ->
  forall lo up tol max_iter, lo < up -> 0 < tol ->
    exists N root ai it, (ai <= N)%nat /\ (it <= max_iter)%nat /\
      Rabs (root - r) <= Rmax tol (width0 r lo up / 2 ^ (S max_iter)) /\
      forall fuel, (N <= fuel)%nat -> search RF f lo up tol max_iter fuel = Some (root, ai, it).
Proof. exact search_terminates_any_iter. Qed.
Print Assumptions C10_search_bound_any_iter.

(* max_iter large enough (W <= 2 tol 2^max_iter): the returned point is within tol of the root. *)
Theorem C10_search_within_tol :
  forall (f : R -> R) (r : R), f r = 0 -> (forall x y, x < y -> f x < f y) ->
  forall lo up tol max_iter, lo < up -> 0 < tol ->
    width0 r lo up <= 2 * tol * 2 ^ max_iter ->
    exists N root ai it, (ai <= N)%nat /\ (it <= max_iter)%nat /\ Rabs (root - r) <= tol /\
      forall fuel, (N <= fuel)%nat -> search RF f lo up tol max_iter fuel = Some (root, ai, it).
Proof. exact search_within_tol. Qed.
Print Assumptions C10_search_within_tol.

(* The sharper form with the explicit fuel bound and the iteration counts. *)
Theorem C10_search_spec :
  forall (f : R -> R) (r : R), f r = 0 -> (forall x y, x < y -> f x < f y) ->
  forall lo up tol max_iter N, lo < up -> 0 < tol ->
    Rmax (r - up) (lo - r) / (up - lo) + 1 <= 2 ^ N ->
    exists root ai it, (ai <= N)%nat /\ (it <= max_iter)%nat /\ (ai = O <-> lo <= r <= up) /\
      (Rabs (root - r) <= tol \/ (it = max_iter /\ Rabs (root - r) <= width0 r lo up / 2 ^ (S max_iter))) /\
      Rabs (root - r) <= width0 r lo up / 2 ^ (S it) /\
      forall fuel, (N <= fuel)%nat -> search RF f lo up tol max_iter fuel = Some (root, ai, it).
Proof. exact search_spec. Qed.
Print Assumptions C10_search_spec.

(* The property PRESUPPOSES a root: with none (f < 0 everywhere, e.g. a bounded increasing f shifted
   below zero) the adaptation loop -- which has no iteration cap in the code -- never terminates,
   whatever the fuel.  Documented behaviour, enforced in the harness by a time-out guard. *)
Theorem C10_adapt_needs_root :
  forall (f : R -> R), (forall x, f x < 0) -> forall lo up fuel, adapt RF f lo up fuel = None.
Proof. exact adapt_needs_root. Qed.
Print Assumptions C10_adapt_needs_root.

(* Existence of the root (where continuity is needed): a continuous function with f a <= 0 <= f b has one. *)
Theorem C10_root_exists :
  forall (f : R -> R) a b, continuity f -> a <= b -> f a <= 0 <= f b -> exists r, a <= r <= b /\ f r = 0.
Proof. exact root_exists_ivt. Qed.
Print Assumptions C10_root_exists.

(* The property in one statement: for EVERY continuous strictly increasing f that changes sign somewhere and
   EVERY initial interval lo < up (whether or not it contains the root), every tol > 0, every max_iter: the root
   exists, the search terminates (explicit fuel N) and returns a point within max tol (W / 2^(max_iter+1)) of
   it -- within tol as soon as W <= 2 tol 2^max_iter. *)
Theorem C10_search_finds_root :
  forall (f : R -> R), continuity f -> (forall x y, x < y -> f x < f y) ->
  forall a b, a <= b -> f a <= 0 <= f b ->
  forall lo up tol max_iter, lo < up -> 0 < tol ->
    exists r, f r = 0 /\ a <= r <= b /\
    exists N root ai it, (ai <= N)%nat /\ (it <= max_iter)%nat /\
      Rabs (root - r) <= Rmax tol (width0 r lo up / 2 ^ (S max_iter)) /\
      (width0 r lo up <= 2 * tol * 2 ^ max_iter -> Rabs (root - r) <= tol) /\
      forall fuel, (N <= fuel)%nat -> search RF f lo up tol max_iter fuel = Some (root, ai, it).
Proof. exact search_continuous. Qed.
Print Assumptions C10_search_finds_root.

(* ---- coordinate by coordinate (AutoregressiveBisectionInverter / _autoregressive_bisection_search) ----
   G F i y t = coordinate i of F at y with entry i overwritten by t   (the code's scalar_fn).
   For EVERY map F on vectors of EVERY length n that is triangular (G F i sees only the entries before i),
   strictly increasing in its own coordinate with a root for every frozen prefix: the scan terminates, and
   every coordinate found is within max tol (W_j / 2^(max_iter+1)) of the exact root of its own equation given
   the prefix that was found. *)
Theorem C10_autoreg_residual :
  forall (F : list R -> list R) (n : nat) (lo up tol : R) (max_iter : nat), lo < up -> 0 < tol ->
  (forall i y, (i < n)%nat -> length y = n -> forall s t, s < t -> G F i y s < G F i y t) ->
  (forall i y, (i < n)%nat -> length y = n -> exists rho, G F i y rho = 0) ->
  (forall i y y', (i < n)%nat -> length y = n -> length y' = n ->
     firstn i y = firstn i y' -> forall t, G F i y t = G F i y' t) ->
  exists fuel0 xs, length xs = n /\
    (forall j, (j < n)%nat -> exists rho, G F j xs rho = 0 /\
       Rabs (nth j xs 0 - rho) <= delta lo up tol max_iter rho) /\
    forall fuel, (fuel0 <= fuel)%nat -> autoreg RF F lo up tol n max_iter fuel = Some xs.
Proof. exact autoreg_residual. Qed.
Print Assumptions C10_autoreg_residual.

(* Error propagation in full, ANY max_iter: with lower slope m > 0 in the own coordinate, cross-coordinate
   Lipschitz constant L (l1 distance of the earlier entries) and true preimage xstar (F xstar = 0):
     |xhat_j - rho_j| <= max tol (W_j / 2^(max_iter+1))   and   |rho_j - x_j| <= (L/m) sum_{k<j} |xhat_k - x_k|. *)
Theorem C10_autoreg_error_recursion :
  forall (F : list R -> list R) (n : nat) (lo up tol : R) (max_iter : nat), lo < up -> 0 < tol ->
  forall m L : R, 0 < m ->
  (forall i y, (i < n)%nat -> length y = n -> forall s t, s <= t -> m * (t - s) <= G F i y t - G F i y s) ->
  (forall i y y', (i < n)%nat -> length y = n -> length y' = n ->
     forall t, Rabs (G F i y t - G F i y' t) <= L * sumdiff i y y') ->
  (forall i y, (i < n)%nat -> length y = n -> exists rho, G F i y rho = 0) ->
  forall xstar, length xstar = n -> (forall i, (i < n)%nat -> nth i (F xstar) 0 = 0) ->
  exists fuel0 xs, length xs = n /\
    (forall j, (j < n)%nat -> exists rho, G F j xs rho = 0 /\
       Rabs (nth j xs 0 - rho) <= delta lo up tol max_iter rho /\
       Rabs (rho - nth j xstar 0) <= L / m * sumdiff j xs xstar) /\
    forall fuel, (fuel0 <= fuel)%nat -> autoreg RF F lo up tol n max_iter fuel = Some xs.
Proof. exact autoreg_error_recursion. Qed.
Print Assumptions C10_autoreg_error_recursion.

(* ... and its closed form: when max_iter suffices for every root of magnitude <= B and the preimage plus the
   accumulated error stays within B, coordinate j is recovered within tol (1 + L/m)^j. *)
Theorem C10_autoreg_error_bound :
  forall (F : list R -> list R) (n : nat) (lo up tol : R) (max_iter : nat), lo < up -> 0 < tol ->
  forall m L : R, 0 < m -> 0 <= L ->
  (forall i y, (i < n)%nat -> length y = n -> forall s t, s <= t -> m * (t - s) <= G F i y t - G F i y s) ->
  (forall i y y', (i < n)%nat -> length y = n -> length y' = n ->
     forall t, Rabs (G F i y t - G F i y' t) <= L * sumdiff i y y') ->
  (forall i y, (i < n)%nat -> length y = n -> exists rho, G F i y rho = 0) ->
  forall xstar, length xstar = n -> (forall i, (i < n)%nat -> nth i (F xstar) 0 = 0) ->
  forall B : R,
  (forall rho, Rabs rho <= B -> width0 rho lo up <= 2 * tol * 2 ^ max_iter) ->
  (forall j, (j < n)%nat -> Rabs (nth j xstar 0) + tol * ((1 + L / m) ^ j - 1) <= B) ->
  exists fuel0 xs, length xs = n /\
    (forall j, (j < n)%nat -> Rabs (nth j xs 0 - nth j xstar 0) <= tol * (1 + L / m) ^ j) /\
    forall fuel, (fuel0 <= fuel)%nat -> autoreg RF F lo up tol n max_iter fuel = Some xs.
Proof. exact autoreg_error_bound. Qed.
Print Assumptions C10_autoreg_error_bound.

(* The root hypothesis of the two theorems above follows from continuity and the lower slope. *)
Theorem C10_root_exists_slope :
  forall (f : R -> R) m, continuity f -> 0 < m ->
  (forall s t, s <= t -> m * (t - s) <= f t - f s) -> exists r, f r = 0.
Proof. exact root_exists_slope. Qed.
Print Assumptions C10_root_exists_slope.

(* The tie runs the model at exact rationals; that run IS the real-number run the theorems speak about
   (on the embedded inputs), for every member of the executable function family. *)
Theorem C10_rational_run_is_real_run :
  forall (g : fn Q) (lo up tol : Q) (max_iter fuel : nat),
    liftr (search_fn QOps g lo up tol max_iter fuel) =
    search_fn RF (map_fn g) (Q2R lo) (Q2R up) (Q2R tol) max_iter fuel.
Proof. exact search_fn_Q2R. Qed.
Print Assumptions C10_rational_run_is_real_run.

(* ---- Non-vacuity ---- *)
(* a concrete function meeting the hypotheses of the scalar theorems *)
Example C10_example_scalar_hyps :
  let f := fun x => 2 * (x - 3 / 8) in f (3 / 8) = 0 /\ (forall x y, x < y -> f x < f y) /\ continuity f.
Proof. exact ex_scalar_hyps. Qed.
(* the executable model on that function: 24 halvings from [-10, 10] at tol 2^-20, no adaptation;
   root 1e6-ish away: 13 doublings then 40 halvings (the numbers the real code returns, see the harness) *)
Example C10_example_run_inside :
  search_fn QOps (FPl (3 # 8) (0 # 1) (2 # 1) []) (-10 # 1) (10 # 1) (1 # 1048576) 200 50
  = Some ((3145725 # 8388608)%Q, O, 24%nat).
Proof. vm_compute. reflexivity. Qed.
Example C10_example_run_far :
  (match search_fn QOps (FPl (1000001 # 8) (0 # 1) (1 # 1) []) (-10 # 1) (10 # 1) (1 # 16777216) 200 50 with
   | Some (_, ai, it) => Some (ai, it) | None => None end) = Some (13%nat, 40%nat) /\
  search_fn QOps (FPl (1000001 # 8) (0 # 1) (1 # 1) []) (-10 # 1) (10 # 1) (1 # 16777216) 200 12 = None.
Proof. vm_compute. split; reflexivity. Qed.
(* exact hits: on an end of the interval and on an expansion point of the adaptation *)
Example C10_example_exact_hits :
  search_fn QOps (FPl (-4 # 1) (0 # 1) (1 # 1) []) (-4 # 1) (10 # 1) (1 # 10) 200 5 = Some ((-4 # 1)%Q, O, O) /\
  search_fn QOps (FPl (-4 # 1) (0 # 1) (1 # 1) []) (-2 # 1) (0 # 1) (1 # 10) 200 5 = Some ((-4 # 1)%Q, 1%nat, O) /\
  search_fn QOps (FPl (-4 # 1) (0 # 1) (1 # 1) []) (-6 # 1) (-2 # 1) (1 # 10) 200 5 = Some ((-4 # 1)%Q, O, 1%nat).
Proof. vm_compute. repeat split; reflexivity. Qed.
(* a triangular map with coupling meeting every hypothesis of the error-propagation theorems (m = 1, L = 1) *)
Example C10_example_autoreg_hyps :
  (forall i y, (i < 2)%nat -> length y = 2%nat -> forall s t, s <= t -> 1 * (t - s) <= G ex_F i y t - G ex_F i y s) /\
  (forall i y y', (i < 2)%nat -> length y = 2%nat -> length y' = 2%nat ->
     forall t, Rabs (G ex_F i y t - G ex_F i y' t) <= 1 * sumdiff i y y') /\
  (forall i y, (i < 2)%nat -> length y = 2%nat -> exists rho, G ex_F i y rho = 0) /\
  (forall i, (i < 2)%nat -> nth i (ex_F [1 / 2; 5 / 4]) 0 = 0).
Proof. exact ex_F_hyps. Qed.
(* and the executable scan on the same map at Q (condition [0; 1], target [1/2; 4]): x0 solved first, written
   back, then x1 = (3 - x0)/2 *)
Example C10_example_autoreg_run :
  autoreg_tri QOps [(FPl (0 # 1) (0 # 1) (1 # 1) [], [], 0 # 1, 1 # 2); (FPl (0 # 1) (0 # 1) (2 # 1) [], [1 # 1], 1 # 1, 4 # 1)] (0 # 1) (1 # 1) (1 # 1024) 200 20
  = Some [(1 # 2)%Q; (5 # 4)%Q].
Proof. vm_compute. reflexivity. Qed.
