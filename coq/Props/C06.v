(* C06 -- Batched calls equal elementwise unbatched calls with NumPy broadcasting.
   This file contains only the property theorems (each closed by [exact]) and their [Print Assumptions].
   Model: Model/Vectorize.v (log_prob / sample / sample_and_log_prob of AbstractDistribution, jnp.vectorize with
   the signature _vectorize builds, lax.broadcast_shapes, _get_sample_keys).  Lemmas: Proofs/VectorizeP.v.
   All statements hold for ALL ranks and ALL shapes (lists of nat of any length).

   Vocabulary (Proofs/VectorizeP.v):
     rdim s k               size of axis k of s counted from the right, 1 if s has no such axis
     numpy_broadcast a b o  o has rank max(rank a, rank b) and on every axis the sizes are equal or one is 1 (stretched)
     numpy_incompatible a b some right-aligned axis has two different sizes, both <> 1
     in_range s I           I is a multi-index into an array of shape s (Forall2 lt I s)
     compat s out           s broadcasts to out
     has_shape s t          the nested-list tensor t has (at least) the leading axes s
     tsub d t I             t[I] (sub-tensor for a partial index)       broadcast_to d s out t   np.broadcast_to *)
From Coq Require Import List Arith ZArith Bool.
From FJ Require Import Model.Vectorize Proofs.VectorizeP.
Import ListNotations.

(* ---- lax.broadcast_shapes, as used by jnp.vectorize, IS NumPy's rule: right-aligned, size-1 stretch ... *)
Theorem C06_broadcast_shapes_is_numpy : forall a b out, broadcast_shapes a b = Ok out <-> numpy_broadcast a b out.
Proof. exact broadcast_shapes_iff. Qed.
Print Assumptions C06_broadcast_shapes_is_numpy.

(* ... and it raises exactly when some axis clashes. *)
Theorem C06_broadcast_shapes_rejects : forall a b, (exists e, broadcast_shapes a b = Err e) <-> numpy_incompatible a b.
Proof. exact broadcast_shapes_err_iff. Qed.
Print Assumptions C06_broadcast_shapes_rejects.

(* ---- log_prob, conditional distribution.  For x of shape xb ++ event and condition of shape cb ++ cond_shape:
   the returned shape is the NumPy broadcast of the two batch shapes (no event axes), the call raises exactly when they
   do not broadcast, and output element I is computed from x[bproj xb out I] and condition[bproj cb out I]. *)
Theorem C06_logprob_shape_and_plan : forall ds csh xb cb,
  plan_logprob ds (Some csh) (xb ++ ds) (Some (cb ++ csh)) =
  match broadcast_shapes xb cb with
  | Ok out => Ok (out, map (fun I => (I, bproj xb out I, Some (bproj cb out I))) (ndindex out))
  | Err e => Err e
  end.
Proof. exact plan_logprob_wellformed. Qed.
Print Assumptions C06_logprob_shape_and_plan.

(* unconditional distribution: shape = batch shape of x, element I from x[I]; a passed condition is ignored *)
Theorem C06_logprob_uncond : forall ds xb cs,
  plan_logprob ds None (xb ++ ds) cs = Ok (xb, map (fun I => (I, I, None)) (ndindex xb)).
Proof. exact plan_logprob_uncond. Qed.
Print Assumptions C06_logprob_uncond.

(* nothing else is accepted: a plan exists only if the trailing dims are the event / condition shape *)
Theorem C06_logprob_rejects_malformed : forall ds cshape xs cs out es, plan_logprob ds cshape xs cs = Ok (out, es) ->
  match cshape with
  | Some csh => exists xb cb, xs = xb ++ ds /\ cs = Some (cb ++ csh) /\ broadcast_shapes xb cb = Ok out
  | None => xs = out ++ ds
  end.
Proof. exact plan_logprob_ok_inv. Qed.
Print Assumptions C06_logprob_rejects_malformed.

(* np.ndindex enumerates every in-range multi-index exactly once: the plan has one entry per output element *)
Theorem C06_ndindex_complete : forall s I, In I (ndindex s) <-> in_range s I.
Proof. exact in_ndindex. Qed.
Print Assumptions C06_ndindex_complete.
Theorem C06_ndindex_nodup : forall s, NoDup (ndindex s).
Proof. exact NoDup_ndindex. Qed.
Print Assumptions C06_ndindex_nodup.

(* ---- bproj is NumPy's index rule: indexing the explicitly broadcast array at I is indexing the original at the
   projected index -- unequal ranks included; core = trailing (event / condition) axes *)
Theorem C06_bproj_spec : forall (A : Type) (d : tensor A) s out core t I,
  compat s out -> has_shape (s ++ core) t -> in_range out I ->
  tsub d (broadcast_to d (s ++ core) (out ++ core) t) I = tsub d t (bproj s out I).
Proof. exact @bproj_spec. Qed.
Print Assumptions C06_bproj_spec.

Theorem C06_broadcast_compat : forall a b out, broadcast_shapes a b = Ok out -> compat a out /\ compat b out.
Proof. exact broadcast_shapes_compat. Qed.
Print Assumptions C06_broadcast_compat.

(* ---- the statement of the property for log_prob: element I of the batched result is the unbatched method f applied to
   element I of np.broadcast_to(x, out ++ event) and of np.broadcast_to(condition, out ++ cond_shape); f arbitrary *)
Theorem C06_logprob_elementwise : forall (A B : Type) (dA : tensor A) (dB : tensor B) (f : tensor A -> option (tensor A) -> tensor B)
  ds csh xb cb x c out es I,
  plan_logprob ds (Some csh) (xb ++ ds) (Some (cb ++ csh)) = Ok (out, es) ->
  has_shape (xb ++ ds) x -> has_shape (cb ++ csh) c -> in_range out I ->
  tsub dB (run_logprob dA dB f out es x (Some c)) I =
  f (tsub dA (broadcast_to dA (xb ++ ds) (out ++ ds) x) I) (Some (tsub dA (broadcast_to dA (cb ++ csh) (out ++ csh) c) I)).
Proof. exact @logprob_elementwise. Qed.
Print Assumptions C06_logprob_elementwise.

Theorem C06_logprob_elementwise_uncond : forall (A B : Type) (dA : tensor A) (dB : tensor B) (f : tensor A -> option (tensor A) -> tensor B)
  ds xb cs x c out es I,
  plan_logprob ds None (xb ++ ds) cs = Ok (out, es) -> in_range out I ->
  out = xb /\ tsub dB (run_logprob dA dB f out es x c) I = f (tsub dA x I) c.
Proof. exact @logprob_elementwise_uncond. Qed.
Print Assumptions C06_logprob_elementwise_uncond.

(* with no batch dims the plan is the single unbatched call *)
Theorem C06_logprob_unbatched : forall ds csh,
  plan_logprob ds (Some csh) ds (Some csh) = Ok ([], [([], [], Some [])]) /\
  plan_logprob ds None ds None = Ok ([], [([], [], None)]).
Proof. exact plan_logprob_unbatched. Qed.
Print Assumptions C06_logprob_unbatched.

(* ---- sample / sample_and_log_prob, conditional distribution, condition of shape cb ++ cond_shape (cond_shape = [] is the
   `-0 or None` corner): batch part of the output shape = sample_shape ++ cb (samples: ++ event, log-probs: nothing more);
   the key is split into prod(sample_shape ++ cb) keys; element I = S ++ C gets key number ravel I (C order) and
   condition[C]; an empty batch raises. *)
Theorem C06_sample_shape_and_plan : forall csh ss cb,
  plan_sample (Some csh) ss (Some (cb ++ csh)) =
  if prod (ss ++ cb) =? 0 then Err EReshape
  else Ok (ss ++ cb, prod (ss ++ cb),
           map (fun I => (I, ravel (ss ++ cb) I, Some (skipn (length ss) I))) (ndindex (ss ++ cb))).
Proof. exact plan_sample_wellformed. Qed.
Print Assumptions C06_sample_shape_and_plan.

Theorem C06_sample_uncond : forall ss cs,
  plan_sample None ss cs =
  if prod ss =? 0 then Err EReshape
  else Ok (ss, prod ss, map (fun I => (I, ravel ss I, None)) (ndindex ss)).
Proof. exact plan_sample_uncond. Qed.
Print Assumptions C06_sample_uncond.

Theorem C06_sample_rejects_malformed : forall cshape ss cs out n es, plan_sample cshape ss cs = Ok (out, n, es) ->
  match cshape with
  | Some csh => exists cb, cs = Some (cb ++ csh) /\ out = ss ++ cb
  | None => out = ss
  end /\ n = prod out /\ prod out <> 0.
Proof. exact plan_sample_ok_inv. Qed.
Print Assumptions C06_sample_rejects_malformed.

(* with no batch dims: one call, drawn with key number 0 of split(key, 1) (not with key itself) *)
Theorem C06_sample_unbatched : forall csh,
  plan_sample (Some csh) [] (Some csh) = Ok ([], 1, [([], 0, Some [])]) /\
  plan_sample None [] None = Ok ([], 1, [([], 0, None)]).
Proof. exact plan_sample_unbatched. Qed.
Print Assumptions C06_sample_unbatched.

(* every plan, whatever the arguments: the output elements in np.ndindex order use the keys 0, 1, ..., key_size - 1 in this
   order -- a bijection between output elements and keys *)
Theorem C06_sample_one_key_per_element : forall cshape ss cs out n es, plan_sample cshape ss cs = Ok (out, n, es) ->
  map (fun e : sentry => snd (fst e)) es = seq 0 n /\ map (fun e : sentry => fst (fst e)) es = ndindex out.
Proof. exact plan_sample_keys. Qed.
Print Assumptions C06_sample_one_key_per_element.

(* keys are never shared: given that jr.split(key, n) yields pairwise distinct keys (the assumption about JAX, explicit) *)
Theorem C06_keys_never_shared : forall (K : Type) (split : K -> nat -> nat -> K),
  (forall key n i j, i < n -> j < n -> split key n i = split key n j -> i = j) ->
  forall key cshape ss cs out n es, plan_sample cshape ss cs = Ok (out, n, es) ->
  NoDup (map (fun e : sentry => split key n (snd (fst e))) es).
Proof. exact keys_never_shared. Qed.
Print Assumptions C06_keys_never_shared.

(* ---- the statement of the property for sampling: element I of the batched result is the unbatched method f on its own key
   and on the condition slice of its trailing index (no hypothesis on split is needed here) *)
Theorem C06_sample_elementwise : forall (K : Type) (split : K -> nat -> nat -> K) (A B : Type) (dA : tensor A) (dB : tensor B)
  (f : K -> option (tensor A) -> tensor B) key csh ss cb c out n es I,
  plan_sample (Some csh) ss (Some (cb ++ csh)) = Ok (out, n, es) -> in_range out I ->
  out = ss ++ cb /\ n = prod (ss ++ cb) /\
  tsub dB (run_sample dA dB f (split key n) out es (Some c)) I =
  f (split key n (ravel (ss ++ cb) I)) (Some (tsub dA c (skipn (length ss) I))).
Proof. exact @sample_elementwise. Qed.
Print Assumptions C06_sample_elementwise.

Theorem C06_sample_elementwise_uncond : forall (K : Type) (split : K -> nat -> nat -> K) (A B : Type) (dA : tensor A) (dB : tensor B)
  (f : K -> option (tensor A) -> tensor B) key ss cs c out n es I,
  plan_sample None ss cs = Ok (out, n, es) -> in_range out I ->
  out = ss /\ n = prod ss /\
  tsub dB (run_sample dA dB f (split key n) out es c) I = f (split key n (ravel ss I)) c.
Proof. exact @sample_elementwise_uncond. Qed.
Print Assumptions C06_sample_elementwise_uncond.

(* distinct output elements sit at distinct C-order positions *)
Theorem C06_ravel_injective : forall s I J, in_range s I -> in_range s J -> ravel s I = ravel s J -> I = J.
Proof. exact ravel_inj. Qed.
Print Assumptions C06_ravel_injective.

(* ---- Non-vacuity: concrete non-trivial instances meet the hypotheses and exercise the corners. *)
Example C06_example_broadcast :
  broadcast_shapes [4; 1] [5] = Ok [4; 5] /\ broadcast_shapes [2; 1; 3] [2; 1] = Ok [2; 2; 3] /\
  broadcast_shapes [3] [4] = Err EBroadcast /\ broadcast_shapes [0] [1] = Ok [0] /\ numpy_broadcast [4; 1] [5] [4; 5].
Proof. repeat split; try (vm_compute; reflexivity). now apply broadcast_shapes_iff. Qed.
Example C06_example_logprob :
  plan_logprob [3] (Some [2]) [2; 1; 3] (Some [2; 2]) =
  Ok ([2; 2], [([0; 0], [0; 0], Some [0]); ([0; 1], [0; 0], Some [1]); ([1; 0], [1; 0], Some [0]); ([1; 1], [1; 0], Some [1])]) /\
  plan_logprob [3] (Some [2]) [4; 3] (Some [4; 3]) = Err ETrailing /\
  plan_logprob [2] (Some [2]) [4; 2] (Some [5; 3]) = Err EDimSize /\
  plan_logprob [3] (Some [2]) [] (Some [2]) = Err ENdim.
Proof. vm_compute. repeat split; reflexivity. Qed.
(* scalar condition (cond_ndim = 0): the leading condition shape is the whole shape *)
Example C06_example_sample_scalar_condition :
  plan_sample (Some []) [2] (Some [3]) =
  Ok ([2; 3], 6, [([0; 0], 0, Some [0]); ([0; 1], 1, Some [1]); ([0; 2], 2, Some [2]);
                  ([1; 0], 3, Some [0]); ([1; 1], 4, Some [1]); ([1; 2], 5, Some [2])]) /\
  plan_sample (Some [2]) [0] (Some [2]) = Err EReshape /\ plan_sample None [2; 0] None = Err EReshape.
Proof. vm_compute. repeat split; reflexivity. Qed.
Example C06_example_tensor :
  let x := Ar [Ar [Sc 10]; Ar [Sc 20]] in   (* shape [2;1] *)
  has_shape [2; 1] x /\ compat [2; 1] [3; 2; 2] /\ in_range [3; 2; 2] [2; 1; 1] /\
  tsub (Sc 0) (broadcast_to (Sc 0) [2; 1] [3; 2; 2] x) [2; 1; 1] = Sc 20 /\ bproj [2; 1] [3; 2; 2] [2; 1; 1] = [1; 0].
Proof.
  cbn. split; [repeat constructor|].
  split; [split; [cbn; auto with arith | cbn; constructor; [now left | constructor; [now right | constructor]]]|].
  split; [repeat constructor|]. split; reflexivity.
Qed.
