(* C07 -- Elementary bijections compute their documented functions.
   Only the property theorems (each closed by [exact]) with their [Print Assumptions], and
   non-vacuity [Example]s.  Code-shaped models: Model/Leaves.v (FIXED, extracted, compared with the
   real flowjax on every run).  Documentation-shaped specification: Model/Spec.v.  Lemmas:
   Proofs/LeafSpecP.v, Proofs/RqsCoreP.v.  Everything is at the reals ([ROps]): exact over R,
   float rounding not modelled.  [th] (the model's tanh primitive) is tied to Coq's
   [tanh] = sinh/cosh by C07_tanh.  Permute/Flip/AdditiveCondition belong to the combinator group. *)
From Coq Require Import Reals List ZArith Bool Lra Lia Sorted.
From Coquelicot Require Import Coquelicot.
From FJ Require Import Model.Num Proofs.RNum Model.Leaves Model.Spec Proofs.RqsCoreP Proofs.LeafSpecP.
Import ListNotations.
Open Scope R_scope.

(* ------------------------------------------------------------------------------------------ *)
(* Affine / Loc / Scale / Exp / SoftPlus                                                      *)
(* ------------------------------------------------------------------------------------------ *)
(* Affine(loc, scale).transform: x |-> scale*x + loc (and not, e.g., scale*(x + loc) or x*scale - loc) *)
Theorem C07_affine : forall loc scale x, affine_fwd ROps loc scale x = scale * x + loc.
Proof. exact affine_is_spec. Qed.
Print Assumptions C07_affine.

Theorem C07_loc : forall loc x, loc_fwd ROps loc x = x + loc.
Proof. exact loc_is_spec. Qed.
Print Assumptions C07_loc.

Theorem C07_scale : forall scale x, scale_fwd ROps scale x = scale * x.
Proof. exact scale_is_spec. Qed.
Print Assumptions C07_scale.

(* the inverse method undoes exactly that map (guard: scale <> 0, no reliance on x/0 = 0) *)
Theorem C07_affine_inverse : forall loc scale y, scale <> 0 -> scale * affine_inv ROps loc scale y + loc = y.
Proof. exact affine_inv_is_spec. Qed.
Print Assumptions C07_affine_inverse.

Theorem C07_exp : forall x, exp_fwd ROps x = exp x.
Proof. exact exp_is_spec. Qed.
Print Assumptions C07_exp.

Theorem C07_exp_inverse : forall y, 0 < y -> exp (exp_inv ROps y) = y.
Proof. exact exp_inv_is_spec. Qed.
Print Assumptions C07_exp_inverse.

(* SoftPlus: y = log(1 + exp x) *)
Theorem C07_softplus : forall x, softplus_fwd ROps x = ln (1 + exp x).
Proof. exact softplus_is_spec. Qed.
Print Assumptions C07_softplus.

(* SoftPlus.inverse, coded log(-expm1(-y)) + y, is log(e^y - 1) for every y > 0 ... *)
Theorem C07_softplus_inverse_is_spec : forall y, 0 < y -> softplus_inv ROps y = ln (exp y - 1).
Proof. exact softplus_inverse_is_spec. Qed.
Print Assumptions C07_softplus_inverse_is_spec.

(* ... and that is the inverse of the documented softplus *)
Theorem C07_softplus_inverse_inverts : forall y, 0 < y -> ln (1 + exp (softplus_inv ROps y)) = y.
Proof. exact softplus_inverse_inverts. Qed.
Print Assumptions C07_softplus_inverse_inverts.

(* ------------------------------------------------------------------------------------------ *)
(* Tanh / LeakyTanh                                                                           *)
(* ------------------------------------------------------------------------------------------ *)
(* the primitive the models use for tanh is the hyperbolic tangent sinh/cosh of the standard library *)
Theorem C07_th_tanh : forall x, th x = tanh x.
Proof. exact th_tanh. Qed.
Print Assumptions C07_th_tanh.

Theorem C07_tanh : forall x, tanh_fwd ROps x = tanh x.
Proof. exact tanh_is_spec. Qed.
Print Assumptions C07_tanh.

Theorem C07_tanh_derivative : forall x, is_derive tanh x (1 - tanh x * tanh x).
Proof. exact tanh_is_derive. Qed.
Print Assumptions C07_tanh_derivative.

(* _tanh_log_grad(x) = -2 (x + softplus(-2x) - log 2) = log(1 - tanh^2 x) = log tanh'(x) *)
Theorem C07_tanh_log_grad_spec : forall x, tanh_log_grad ROps x = ln (1 - tanh x * tanh x).
Proof. exact tanh_log_grad_spec. Qed.
Print Assumptions C07_tanh_log_grad_spec.

(* LeakyTanh.__init__: linear_grad is the slope of tanh at max_val ... *)
Theorem C07_leaky_grad_is_tanh_slope : forall m,
  leaky_grad ROps m = 1 - tanh m * tanh m /\ is_derive tanh m (leaky_grad ROps m).
Proof. exact leaky_grad_slope. Qed.
Print Assumptions C07_leaky_grad_is_tanh_slope.

(* ... strictly inside (-max_val, max_val) the map is tanh *)
Theorem C07_leaky_tanh_inside : forall m x, Rabs x < m ->
  leaky_fwd ROps m (leaky_grad ROps m) (leaky_icpt ROps m) x = tanh x.
Proof. exact leaky_inside. Qed.
Print Assumptions C07_leaky_tanh_inside.

(* ... at and beyond max_val it is the tangent line of tanh at max_val ... *)
Theorem C07_leaky_tanh_right : forall m x, 0 < m -> m <= x ->
  leaky_fwd ROps m (leaky_grad ROps m) (leaky_icpt ROps m) x = tanh m + (1 - tanh m * tanh m) * (x - m).
Proof. exact leaky_right. Qed.
Print Assumptions C07_leaky_tanh_right.

(* ... at and below -max_val the tangent line of tanh at -max_val *)
Theorem C07_leaky_tanh_left : forall m x, 0 < m -> x <= - m ->
  leaky_fwd ROps m (leaky_grad ROps m) (leaky_icpt ROps m) x =
  tanh (- m) + (1 - tanh (- m) * tanh (- m)) * (x - - m).
Proof. exact leaky_left. Qed.
Print Assumptions C07_leaky_tanh_left.

(* all x at once: the code-shaped model is the documentation-shaped piecewise definition *)
Theorem C07_leaky_tanh_is_spec : forall m x, 0 < m ->
  leaky_fwd ROps m (leaky_grad ROps m) (leaky_icpt ROps m) x = spec_leaky_tanh ROps m x.
Proof. exact leaky_tanh_is_spec. Qed.
Print Assumptions C07_leaky_tanh_is_spec.

(* value match at the two switch points (the linear branch is the one selected there) *)
Theorem C07_leaky_tanh_continuous_at_switch : forall m, 0 < m ->
  leaky_fwd ROps m (leaky_grad ROps m) (leaky_icpt ROps m) m = tanh m /\
  leaky_fwd ROps m (leaky_grad ROps m) (leaky_icpt ROps m) (- m) = tanh (- m).
Proof. exact leaky_value_at_switch. Qed.
Print Assumptions C07_leaky_tanh_continuous_at_switch.

(* value AND slope: the map is differentiable at EVERY real x, the switch points included, with
   derivative tanh'(x) inside and tanh'(max_val) outside -- the pieces are glued C^1 *)
Theorem C07_leaky_tanh_is_C1 : forall m x, 0 < m ->
  is_derive (leaky_fwd ROps m (leaky_grad ROps m) (leaky_icpt ROps m)) x
            (if Rle_dec m (Rabs x) then 1 - tanh m * tanh m else 1 - tanh x * tanh x).
Proof. exact leaky_is_derive. Qed.
Print Assumptions C07_leaky_tanh_is_C1.

(* ------------------------------------------------------------------------------------------ *)
(* Rational-quadratic spline.  [rqs_valid xp yp dv lo hi]: xp, yp strictly increasing, equal     *)
(* length >= 2, first = lo, last = hi; dv same length, all positive.                           *)
(* ------------------------------------------------------------------------------------------ *)
(* identity outside the interval -- no hypothesis at all on the parameters: the value computed
   from the literal 0 the code substitutes for an out-of-bounds x is discarded by the last where *)
Theorem C07_rqs_identity_outside : forall xp yp dv lo hi x, x < lo \/ hi < x ->
  rqs_fwd ROps xp yp dv lo hi x = x.
Proof. exact rqs_identity_outside. Qed.
Print Assumptions C07_rqs_identity_outside.

(* through every knot, both interval ends included *)
Theorem C07_rqs_interpolates : forall xp yp dv lo hi, rqs_valid xp yp dv lo hi ->
  forall j, (j < length xp)%nat -> rqs_fwd ROps xp yp dv lo hi (nth j xp 0) = nth j yp 0.
Proof. exact rqs_interpolates. Qed.
Print Assumptions C07_rqs_interpolates.

(* on the closed bin [x_j, x_j+1] the value is eq. 4 of Durkan et al. with the knots and derivatives
   of THAT bin (searchsorted/clip pick the right bin; the final clip to [lo, hi] is the identity) *)
Theorem C07_rqs_matches_eq4 : forall xp yp dv lo hi, rqs_valid xp yp dv lo hi ->
  forall j x, (S j < length xp)%nat -> nth j xp 0 <= x <= nth (S j) xp 0 ->
  rqs_fwd ROps xp yp dv lo hi x =
  spec_eq4 ROps (nth j xp 0) (nth (S j) xp 0) (nth j yp 0) (nth (S j) yp 0) (nth j dv 0) (nth (S j) dv 0) x.
Proof. exact rqs_matches_eq4. Qed.
Print Assumptions C07_rqs_matches_eq4.

(* eq. 4 never divides by zero on a closed bin *)
Theorem C07_rqs_eq4_denominator_positive : forall xk xk1 yk yk1 dk dk1, xk < xk1 -> yk < yk1 -> 0 < dk -> 0 < dk1 ->
  forall t, 0 <= t <= 1 ->
  0 < (yk1 - yk) / (xk1 - xk) + (dk1 + dk - 2 * ((yk1 - yk) / (xk1 - xk))) * t * (1 - t).
Proof. exact bin_den_pos. Qed.
Print Assumptions C07_rqs_eq4_denominator_positive.

(* the whole map = the documentation-shaped interpolant of Model/Spec.v, every real x *)
Theorem C07_rqs_is_spec : forall xp yp dv lo hi, rqs_valid xp yp dv lo hi ->
  forall x, rqs_fwd ROps xp yp dv lo hi x = spec_rqs ROps xp yp dv lo hi x.
Proof. exact rqs_is_spec. Qed.
Print Assumptions C07_rqs_is_spec.

(* strictly increasing on the whole real line (within a bin, across bins, across the interval ends) *)
Theorem C07_rqs_monotone : forall xp yp dv lo hi, rqs_valid xp yp dv lo hi ->
  forall x x', x < x' -> rqs_fwd ROps xp yp dv lo hi x < rqs_fwd ROps xp yp dv lo hi x'.
Proof. exact rqs_monotone. Qed.
Print Assumptions C07_rqs_monotone.

(* the interval is mapped into itself *)
Theorem C07_rqs_maps_interval_into_itself : forall xp yp dv lo hi, rqs_valid xp yp dv lo hi ->
  forall x, lo <= x <= hi -> lo <= rqs_fwd ROps xp yp dv lo hi x <= hi.
Proof. exact rqs_fwd_range. Qed.
Print Assumptions C07_rqs_maps_interval_into_itself.

(* identity at initialisation: equal knot positions in x and y, unit derivatives => identity map *)
Theorem C07_rqs_identity_at_init : forall xp dv lo hi,
  StronglySorted Rlt xp -> (2 <= length xp)%nat -> length dv = length xp -> (forall d, In d dv -> d = 1) ->
  nth 0 xp 0 = lo -> last xp 0 = hi ->
  forall x, rqs_fwd ROps xp xp dv lo hi x = x.
Proof. exact rqs_identity_at_init. Qed.
Print Assumptions C07_rqs_identity_at_init.

(* ... and the constructor's initial raw derivative log(exp(1 - min_derivative) - 1) does give 1 *)
Theorem C07_rqs_init_derivative_is_one : forall md, md < 1 -> ln (1 + exp (ln (exp (1 - md) - 1))) + md = 1.
Proof. exact rqs_init_derivative. Qed.
Print Assumptions C07_rqs_init_derivative_is_one.

(* the derivative parameter of an interior knot IS the derivative of the map there (both neighbouring
   bin maps have that slope, so the spline is C^1), and inside a bin the derivative is eq. 5 *)
Theorem C07_rqs_knot_derivative : forall xp yp dv lo hi, rqs_valid xp yp dv lo hi ->
  forall j, (1 <= j)%nat -> (S j < length xp)%nat ->
  is_derive (rqs_fwd ROps xp yp dv lo hi) (nth j xp 0) (nth j dv 0).
Proof. exact rqs_knot_derivative. Qed.
Print Assumptions C07_rqs_knot_derivative.

Theorem C07_rqs_derivative_in_bin : forall xp yp dv lo hi, rqs_valid xp yp dv lo hi ->
  forall j x, (S j < length xp)%nat -> nth j xp 0 < x < nth (S j) xp 0 ->
  is_derive (rqs_fwd ROps xp yp dv lo hi) x
    (spec_eq5 ROps (nth j xp 0) (nth (S j) xp 0) (nth j yp 0) (nth (S j) yp 0) (nth j dv 0) (nth (S j) dv 0) x).
Proof. exact rqs_derivative_in_bin. Qed.
Print Assumptions C07_rqs_derivative_in_bin.

(* ------------------------------------------------------------------------------------------ *)
(* TriangularAffine: y = A x + b, any dimension                                               *)
(* ------------------------------------------------------------------------------------------ *)
Theorem C07_triaffine_is_spec : forall (m : list (list R)) (loc x : list R),
  length m = length x -> length loc = length x -> (forall row, In row m -> length row = length x) ->
  tri_fwd ROps m loc x = spec_tri ROps m loc x.
Proof. exact triaffine_is_spec. Qed.
Print Assumptions C07_triaffine_is_spec.

(* entry by entry: y_i = sum_j A_ij x_j + b_i *)
Theorem C07_triaffine_entry : forall (m : list (list R)) (loc x : list R) i,
  length m = length x -> length loc = length x -> (forall row, In row m -> length row = length x) ->
  (i < length x)%nat ->
  nth i (tri_fwd ROps m loc x) 0 = sigma ROps (length x) (fun j => entry ROps m i j * nth j x 0) + nth i loc 0.
Proof. exact triaffine_entry. Qed.
Print Assumptions C07_triaffine_entry.

(* ------------------------------------------------------------------------------------------ *)
(* Planar: y = x + u_hat * act(w.x + b)                                                       *)
(* ------------------------------------------------------------------------------------------ *)
(* get_act_scale: u_hat = u + (m(w.u)/k - w.u) w / ||w||^2, k = max(1, negative_slope) for leaky relu
   and 1 for tanh  (guard w <> 0: the code divides by ||w||^2) *)
Theorem C07_planar_k_is_spec : forall ns,
  planar_k ROps ns = match ns with None => 1 | Some s => Rmax 1 s end.
Proof. exact planar_k_max. Qed.
Print Assumptions C07_planar_k_is_spec.

Theorem C07_planar_u_is_spec : forall ns (w u : list R), length u = length w -> spec_inner ROps w w <> 0 ->
  planar_u ROps ns w u = spec_planar_u ROps ns w u.
Proof. exact planar_u_is_spec. Qed.
Print Assumptions C07_planar_u_is_spec.

(* what the constraint is for: w . u_hat = m(w . u)/k > -1/k, hence the map's two possible slopes along
   w are positive: 0 < 1 + w . u_hat, and 0 < 1 + s (w . u_hat) for EVERY negative_slope s > 0 *)
Theorem C07_planar_u_constraint : forall ns (w u : list R), length u = length w -> spec_inner ROps w w <> 0 ->
  let a := spec_inner ROps w (spec_planar_u ROps ns w u) in
  (a = spec_m ROps (spec_inner ROps w u) / spec_k ROps ns) /\
  (-1 / spec_k ROps ns < a) /\
  (0 < 1 + a) /\
  (forall s, ns = Some s -> 0 < s -> 0 < 1 + s * a).
Proof. exact planar_u_constraint. Qed.
Print Assumptions C07_planar_u_constraint.

(* the two activations: None = tanh, Some s = leaky relu z |-> z (z >= 0), s z (z < 0) *)
Theorem C07_planar_activation : forall ns z,
  planar_act ROps ns z = match ns with None => tanh z | Some s => if Rle_dec 0 z then z else s * z end.
Proof. exact planar_act_cases. Qed.
Print Assumptions C07_planar_activation.

Theorem C07_planar_is_spec : forall ns (w u : list R) b (x : list R),
  length u = length w -> length x = length w -> spec_inner ROps w w <> 0 ->
  planar_fwd ROps ns w u b x = spec_planar ROps ns w u b x.
Proof. exact planar_is_spec. Qed.
Print Assumptions C07_planar_is_spec.

(* entry by entry: y_i = x_i + u_hat_i * act(sum_j w_j x_j + b) *)
Theorem C07_planar_entry : forall ns (w u : list R) b (x : list R) i,
  length u = length w -> length x = length w -> spec_inner ROps w w <> 0 -> (i < length x)%nat ->
  nth i (planar_fwd ROps ns w u b x) 0 =
  nth i x 0 + nth i (spec_planar_u ROps ns w u) 0 * spec_act ROps ns (spec_inner ROps w x + b).
Proof. exact planar_entry. Qed.
Print Assumptions C07_planar_entry.

(* ------------------------------------------------------------------------------------------ *)
(* Non-vacuity: concrete non-trivial instances meet the hypotheses                             *)
(* ------------------------------------------------------------------------------------------ *)
(* a 4-knot spline on [-2, 2], knots off the diagonal, derivatives different from 1 *)
Definition ex_xp : list R := [-2; -1/2; 1; 2].
Definition ex_yp : list R := [-2; 0; 1/2; 2].
Definition ex_dv : list R := [1; 2; 1/2; 1].
Example ex_rqs_valid : rqs_valid ex_xp ex_yp ex_dv (-2) 2.
Proof.
  constructor; try reflexivity; unfold ex_xp, ex_yp, ex_dv; cbn [length nth last];
    try lia; try lra; repeat constructor; lra.
Qed.
(* ... it is not the identity: bin 1 = [-1/2, 1] -> [0, 1/2], x = 0 goes to 13/40 *)
Example ex_rqs_value : rqs_fwd ROps ex_xp ex_yp ex_dv (-2) 2 0 = 13/40.
Proof.
  rewrite (rqs_matches_eq4 _ _ _ _ _ ex_rqs_valid 1 0); unfold ex_xp, ex_yp, ex_dv; cbn [length nth].
  - unfold spec_eq4. cbn [n_add n_sub n_mul n_div n_ofZ ROps ROpsG Num.c]. field.
  - lia.
  - lra.
Qed.
Example ex_rqs_knot : rqs_fwd ROps ex_xp ex_yp ex_dv (-2) 2 1 = 1/2.
Proof. exact (rqs_interpolates _ _ _ _ _ ex_rqs_valid 2%nat ltac:(cbn; lia)). Qed.
Example ex_rqs_left_end : rqs_fwd ROps ex_xp ex_yp ex_dv (-2) 2 (-2) = -2.
Proof. exact (rqs_interpolates _ _ _ _ _ ex_rqs_valid 0%nat ltac:(cbn; lia)). Qed.
(* an initial spline: same knots in x and y, unit derivatives *)
Example ex_rqs_init : forall x, rqs_fwd ROps ex_xp ex_xp [1; 1; 1; 1] (-2) 2 x = x.
Proof.
  apply rqs_identity_at_init; unfold ex_xp; cbn [length nth last In]; try lia; try lra; try reflexivity.
  - repeat constructor; lra.
  - intros d [H|[H|[H|[H|[]]]]]; lra.
Qed.
(* LeakyTanh(1): 0 < 1, and 3 lies in the linear region *)
Example ex_leaky : leaky_fwd ROps 1 (leaky_grad ROps 1) (leaky_icpt ROps 1) 3 = tanh 1 + (1 - tanh 1 * tanh 1) * 2.
Proof. rewrite leaky_right by lra. ring. Qed.
(* a 2x2 lower-triangular affine map *)
Example ex_tri : tri_fwd ROps [[2; 0]; [3; 5]] [10; 20] [1; 7] = [12; 58].
Proof.
  rewrite triaffine_is_spec.
  - unfold spec_tri, spec_matvec_entry, entry. cbn [length seq map sigma nth].
    cbn [n_add n_sub n_mul n_div n_ofZ ROps ROpsG Num.c]. f_equal; [ring|f_equal; ring].
  - reflexivity.
  - reflexivity.
  - intros row [H|[H|[]]]; subst; reflexivity.
Qed.
(* a planar weight vector that is not zero *)
Example ex_planar_w : spec_inner ROps [1; 2] [1; 2] <> 0.
Proof. unfold spec_inner. cbn [length sigma nth]. cbn [n_add n_mul n_ofZ ROps ROpsG Num.c]. lra. Qed.
(* ... with negative_slope 3 > 1 (the case repaired by fix e65a946): k = 3 and both slopes are positive *)
Example ex_planar_slope3 :
  spec_k ROps (Some 3) = 3 /\
  0 < 1 + 3 * spec_inner ROps [1; 2] (spec_planar_u ROps (Some 3) [1; 2] [-5; 1/2]).
Proof.
  split.
  - unfold spec_k. cbn [n_leb n_ofZ ROps ROpsG Num.c]. destruct (Rleb 3 1) eqn:E; [apply Rleb_true in E; lra|reflexivity].
  - destruct (planar_u_constraint (Some 3) [1; 2] [-5; 1/2] eq_refl ex_planar_w) as (_ & _ & _ & H).
    apply (H 3 eq_refl). lra.
Qed.
