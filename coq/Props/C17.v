(* C17 -- Loss functions compute their defining estimators.
   Only the property theorems (each closed by [exact]) and their [Print Assumptions], then Examples.
   Model: Model/Losses.v.  Lemmas: Proofs/LossesP.v.
   All analytic statements are over R (float rounding not modelled), for lists of ANY length.
   [rsum] is the specification-side sum (fold_right); the model sums with fold_left as jnp does not
   promise an order -- the two are proved equal. *)
From Coq Require Import Reals List ZArith Bool.
From Coquelicot Require Import Coquelicot.
From FJ Require Import Model.Num Model.Losses Proofs.RNum Proofs.LossesP.
Import ListNotations.
Open Scope R_scope.

(* ---- MaximumLikelihoodLoss: minus the mean log-probability of the batch *)
Theorem C17_ml_loss_spec : forall lps : list R, lps <> [] ->
  ml_loss ROps lps = - (rsum lps / INR (length lps)).
Proof. exact ml_loss_spec. Qed.
Print Assumptions C17_ml_loss_spec.

(* ---- ElboLoss: each branch is the mean over the num_samples keys of split(key, num_samples) of
   log q(x) - target(x), x and log q(x) taken from sample_and_log_prob (plain) resp. from sample and
   log_prob with stop_gradient'ed parameters (stick the landing).  Any distribution, any target. *)
Theorem C17_elbo_spec : forall (P K X : Type) (split : K -> nat -> list K) (sample : P -> K -> X)
    (log_prob : P -> X -> R) (sample_lp : P -> K -> X * R) (target : X -> R) (stopg : P -> P) n p key,
  (0 < n)%nat -> length (split key n) = n ->
  elbo_loss ROps split sample log_prob sample_lp target stopg false n p key =
    rsum (map (fun k => snd (sample_lp p k) - target (fst (sample_lp p k))) (split key n)) / INR n /\
  elbo_loss ROps split sample log_prob sample_lp target stopg true n p key =
    rsum (map (fun k => log_prob (stopg p) (sample p k) - target (sample p k)) (split key n)) / INR n.
Proof. exact @elbo_spec. Qed.
Print Assumptions C17_elbo_spec.

(* Stick the landing does not change the VALUE: for every distribution whose sample_and_log_prob is
   consistent with sample + log_prob (property C03), stop_gradient being the identity on values. *)
Theorem C17_elbo_stl_same_value : forall (P K X : Type) (split : K -> nat -> list K) (sample : P -> K -> X)
    (log_prob : P -> X -> R) (sample_lp : P -> K -> X * R) (target : X -> R) (stopg : P -> P),
  (forall p x, log_prob (stopg p) x = log_prob p x) ->
  (forall p k, sample_lp p k = (sample p k, log_prob p (sample p k))) ->
  forall n p key,
  elbo_loss ROps split sample log_prob sample_lp target stopg true n p key =
  elbo_loss ROps split sample log_prob sample_lp target stopg false n p key.
Proof. exact @elbo_stl_same_value. Qed.
Print Assumptions C17_elbo_stl_same_value.

(* ... and both equal the defining estimator (1/n) sum_k [log q(x_k) - target(x_k)], x_k = sample at key k *)
Theorem C17_elbo_estimator : forall (P K X : Type) (split : K -> nat -> list K) (sample : P -> K -> X)
    (log_prob : P -> X -> R) (sample_lp : P -> K -> X * R) (target : X -> R) (stopg : P -> P),
  (forall p x, log_prob (stopg p) x = log_prob p x) ->
  (forall p k, sample_lp p k = (sample p k, log_prob p (sample p k))) ->
  forall n p key, (0 < n)%nat -> length (split key n) = n -> forall stl,
  elbo_loss ROps split sample log_prob sample_lp target stopg stl n p key =
    rsum (map (fun k => log_prob p (sample p k) - target (sample p k)) (split key n)) / INR n.
Proof. exact @elbo_estimator. Qed.
Print Assumptions C17_elbo_estimator.

(* ---- logsumexp: the max-shifted formula jax codes equals the defining formula (non-empty lists) *)
Theorem C17_logsumexp_shift : forall l : list R, l <> [] -> logsumexp ROps l = ln (rsum (map exp l)).
Proof. exact logsumexp_shift. Qed.
Print Assumptions C17_logsumexp_shift.

(* ---- ContrastiveLoss, one row: the softmax cross-entropy -ln (exp p / (exp p + sum_j exp c_j)) of the
   positive logit p = log q(x_i|c_i) - log prior(x_i) against the contrastive logits
   c_j = log q(x_j|c_i) - log prior(x_j), j running over the row's index list (any length, any indices:
   JAX gather semantics) *)
Theorem C17_contrastive_row_spec : forall (X C : Type) (lq : X -> C -> R) (prior : X -> R) xs x c ids,
  single_x_loss ROps lq prior xs x c ids =
    - ln (exp (lq x c - prior x) /
          (exp (lq x c - prior x) + rsum (map exp (map (fun j => lq (gatherz xs j x) c - prior (gatherz xs j x)) ids)))).
Proof. exact @single_x_loss_spec. Qed.
Print Assumptions C17_contrastive_row_spec.

(* ---- ContrastiveLoss, the batch: for every batch (any size B), every n < B, every key and every admissible
   PRNG behaviour, the loss is the mean over EXACTLY the B rows of the row cross-entropies, row i using the
   rows nth i idxs of the index model (in range: no wrap, no clamp happens) *)
Theorem C17_contrastive_spec : forall (K X C : Type) (split : K -> nat -> list K)
    (choice : K -> list Z -> nat -> list Z) (lq : X -> C -> R) (prior : X -> R),
  split_ok split -> choice_ok choice ->
  forall n xs conds key dx dc, let B := length xs in length conds = B -> (n < B)%nat ->
  let idxs := get_contrastive_idxs split choice key B n in
  contrastive_loss ROps split choice lq prior n xs conds key =
    Some (rsum (map (fun i => softmax_xent (logit lq prior (nth i xs dx) (nth i conds dc))
                                (map (fun j => logit lq prior (nth (Z.to_nat j) xs dx) (nth i conds dc)) (nth i idxs [])))
                    (seq 0 B)) / INR B).
Proof. exact @contrastive_spec. Qed.
Print Assumptions C17_contrastive_spec.

(* ---- never negative: rows (whatever the indices are) and the batch loss *)
Theorem C17_contrastive_row_nonneg : forall (X C : Type) (lq : X -> C -> R) (prior : X -> R) xs x c ids,
  0 <= single_x_loss ROps lq prior xs x c ids.
Proof. exact @single_x_loss_nonneg. Qed.
Print Assumptions C17_contrastive_row_nonneg.

Theorem C17_contrastive_nonneg : forall (K X C : Type) (split : K -> nat -> list K)
    (choice : K -> list Z -> nat -> list Z) (lq : X -> C -> R) (prior : X -> R),
  split_ok split -> forall n xs conds key v, length conds = length xs ->
  contrastive_loss ROps split choice lq prior n xs conds key = Some v -> 0 <= v.
Proof. exact @contrastive_nonneg. Qed.
Print Assumptions C17_contrastive_nonneg.

(* ---- _get_contrastive_idxs (discrete; closed under the global context): for EVERY batch size B, every
   n < B, every key and every behaviour of split/choice allowed by
     split_ok  : jr.split(k, n) has n entries
     choice_ok : jr.choice(k, l, (n,), replace=False), n <= |l|, l duplicate-free, returns n distinct elements of l
   there are B rows, and row i consists of n DISTINCT elements of {0..B-1} \ {i}; it is what choice returns
   on key i and arange(B) with position i deleted. *)
Theorem C17_contrastive_indices : forall (K : Type) (split : K -> nat -> list K) (choice : K -> list Z -> nat -> list Z),
  split_ok split -> choice_ok choice -> forall key B n, (n < B)%nat ->
  let idxs := get_contrastive_idxs split choice key B n in
  length idxs = B /\
  forall i, (i < B)%nat -> let r := nth i idxs [] in
    length r = n /\ NoDup r /\
    (forall j, In j r -> (0 <= j < Z.of_nat B)%Z /\ j <> Z.of_nat i) /\
    r = choice (nth i (split key B) key) (delete_at (arange B) i) n.
Proof. exact @contrastive_indices. Qed.
Print Assumptions C17_contrastive_indices.

(* ---- stick the landing: the gradient.  PARTIAL.
   Full statement wanted: "eqx.filter_grad of the STL loss w.r.t. every trainable leaf is the path derivative
   only: it contains no term d/dtheta log q_theta(x) at fixed x".  Proved: the same [elbo_loss] run in
   forward-mode dual arithmetic ([DOps]: stop_gradient = tangent 0) along ONE scalar parameter direction with
   scalar sample points has tangent mean_k (d_x log q - target')(x_k) * dx_k/dth with stick_the_landing, and
   that plus mean_k (d_th log q)(x_k) without; by the chain rule these are the derivative with the density's
   parameter frozen, resp. the total derivative.  Missing: that JAX's reverse-mode AD of the real program is
   this dual semantics, vector-valued x and theta (the tie compares jax gradients with both formulas). *)
Theorem C17_elbo_stl_no_score_term_partial : forall (E : Type) (split : E -> nat -> list E)
    (g g' : R -> E -> R) (lq lq_th lq_x : R -> R -> R) (t t' : R -> R) n th key,
  length (split key n) = n ->
  snd (elboD split g g' lq lq_th lq_x t t' true n th key) =
    rsum (map (path_term g g' lq_x t' th) (split key n)) / INR n /\
  snd (elboD split g g' lq lq_th lq_x t t' false n th key) - snd (elboD split g g' lq lq_th lq_x t t' true n th key) =
    rsum (map (score_term g lq_th th) (split key n)) / INR n.
Proof. exact @elbo_stl_no_score_term. Qed.
Print Assumptions C17_elbo_stl_no_score_term_partial.

Theorem C17_elbo_stl_tangent_is_path_derivative_partial : forall (E : Type) (split : E -> nat -> list E)
    (g g' : R -> E -> R) (lq lq_th lq_x : R -> R -> R) (t t' : R -> R) n th key,
  length (split key n) = n ->
  (forall e, In e (split key n) -> is_derive (fun y => g y e) th (g' th e)) ->
  (forall e, In e (split key n) -> is_derive (lq th) (g th e) (lq_x th (g th e))) ->
  (forall e, In e (split key n) -> is_derive t (g th e) (t' (g th e))) ->
  is_derive (fun y => rsum (map (fun e => lq th (g y e) - t (g y e)) (split key n)) / INR n) th
            (snd (elboD split g g' lq lq_th lq_x t t' true n th key)).
Proof. exact @elbo_stl_tangent_is_path_derivative. Qed.
Print Assumptions C17_elbo_stl_tangent_is_path_derivative_partial.

Theorem C17_elbo_plain_tangent_is_total_derivative_partial : forall (E : Type) (split : E -> nat -> list E)
    (g g' : R -> E -> R) (lq lq_th lq_x : R -> R -> R) (t t' : R -> R) n th key,
  length (split key n) = n ->
  (forall e, In e (split key n) -> is_derive (fun y => g y e) th (g' th e)) ->
  (forall e, In e (split key n) -> differentiable_pt_lim lq th (g th e) (lq_th th (g th e)) (lq_x th (g th e))) ->
  (forall e, In e (split key n) -> is_derive t (g th e) (t' (g th e))) ->
  is_derive (fun y => rsum (map (fun e => lq y (g y e) - t (g y e)) (split key n)) / INR n) th
            (snd (elboD split g g' lq lq_th lq_x t t' false n th key)).
Proof. exact @elbo_plain_tangent_is_total_derivative. Qed.
Print Assumptions C17_elbo_plain_tangent_is_total_derivative_partial.

(* ---- Non-vacuity *)
(* the PRNG hypotheses are satisfiable, by two different behaviours *)
Example C17_ex_hyps_sat : split_ok split_repeat /\ choice_ok choice_firstn /\ choice_ok choice_lastn.
Proof. exact (conj split_repeat_ok (conj choice_firstn_ok choice_lastn_ok)). Qed.
(* and the index model computes: B = 4, n = 2 *)
Example C17_ex_idxs :
  get_contrastive_idxs split_repeat choice_firstn tt 4 2 = [[1; 2]; [0; 2]; [0; 1]; [0; 1]]%Z /\
  get_contrastive_idxs split_repeat choice_lastn tt 4 2 = [[3; 2]; [3; 2]; [3; 1]; [2; 1]]%Z.
Proof. vm_compute. split; reflexivity. Qed.
(* the ValueError branch *)
Example C17_ex_raises : contrastive_loss ROps split_repeat choice_firstn (fun (x : R) (c : R) => x * c) (fun x => x) 3 [1; 2; 3] [1; 2; 3] tt = None.
Proof. reflexivity. Qed.
(* the derivative hypotheses hold for the location family N(th,1) with target N(1,1); the per-sample score is
   not zero and the two tangents differ on a concrete run *)
Example C17_ex_stl_hyps : forall th e,
  is_derive (fun y => ex_g y e) th (ex_g' th e) /\
  is_derive (ex_lq th) (ex_g th e) (ex_lq_x th (ex_g th e)) /\
  differentiable_pt_lim ex_lq th (ex_g th e) (ex_lq_th th (ex_g th e)) (ex_lq_x th (ex_g th e)) /\
  is_derive ex_t (ex_g th e) (ex_t' (ex_g th e)).
Proof. exact ex_hyps. Qed.
Example C17_ex_tangents :
  let split := fun (_ : R) (_ : nat) => [2; 1] in
  snd (elboD split ex_g ex_g' ex_lq ex_lq_th ex_lq_x ex_t ex_t' true 2 0 0) = -1 /\
  snd (elboD split ex_g ex_g' ex_lq ex_lq_th ex_lq_x ex_t ex_t' false 2 0 0) = / 2.
Proof. exact ex_tangents. Qed.
