(* X09_bnaf -- BlockAutoregressiveNetwork at the reals: triangular with strictly increasing own coordinate for EVERY
   raw parameter value (no positivity hypothesis left), and the bridge to the bisection inverter of C10.
   Supports C09 (block structure, "strictly positive diagonal") and C01 (the numerically inverted BNAF).
   Only property theorems (each closed by [exact]) with their [Print Assumptions], and non-vacuity examples.
   Model: Model/Masks.v (bnaf_weight, bnaf_transform), Model/Leaves.v (leaky_fwd, tanh_fwd), Model/Bisect.v (autoreg).
   Lemmas: Proofs/BnafP.v (on top of Proofs/MasksP.v, LeafInvP.v, LeafDerivP.v, BisectP.v).
   EXACT real arithmetic (ROps); float rounding, overflow and saturation are not modelled.  "Every raw parameter value"
   = arbitrary real entries in arrays of the shapes the constructor creates ([raw_wf]); the two occurrences of
   linear.weight in the wrapper tree (w1 under softplus on the diagonal blocks, w2 elsewhere) are independent. *)
From Coq Require Import Reals List ZArith Bool Arith Lia Lra.
From FJ Require Import Model.Num Model.Leaves Model.Bisect Model.Masks Proofs.RNum Proofs.BisectP Proofs.MasksP Proofs.BnafP.
Import ListNotations.
Open Scope R_scope.

(* ---------- (1) the unwrapped weights: every row is non-zero, diagonal blocks positive, zero off the mask ---------- *)
(* WeightNormalization divides by the row norm: it is positive for every raw value (every row contains a softplus value) *)
Theorem X09_bnaf_rows_nonzero :
  forall (bh bw n : nat) (w1 w2 : list (list R)) (scale_raw : list R),
    (0 < bh)%nat -> (0 < bw)%nat -> mat_shape (bh * n) (bw * n) w1 -> mat_shape (bh * n) (bw * n) w2 ->
    length scale_raw = (bh * n)%nat ->
    forall (r : nat) (row : list R),
      nth_error (bnaf_prenorm 0 softplusR (block_tril_mask bh bw n 0) (block_diag_mask bh bw n) w1 w2) r = Some row ->
      0 < norm2R row.
Proof. exact bnaf_rows_nonzero. Qed.
Print Assumptions X09_bnaf_rows_nonzero.

Theorem X09_bnaf_weight_diag_pos :
  forall (bh bw n : nat) (w1 w2 : list (list R)) (scale_raw : list R),
    (0 < bh)%nat -> (0 < bw)%nat -> mat_shape (bh * n) (bw * n) w1 -> mat_shape (bh * n) (bw * n) w2 ->
    length scale_raw = (bh * n)%nat ->
    forall (r c : nat) (v : R),
      entry (bnaf_weight_R (block_tril_mask bh bw n 0) (block_diag_mask bh bw n) w1 w2 scale_raw) r c = Some v ->
      (c / bw)%nat = (r / bh)%nat -> 0 < v.
Proof. exact bnaf_weight_diag_pos. Qed.
Print Assumptions X09_bnaf_weight_diag_pos.

Theorem X09_bnaf_weight_zero_off_mask :
  forall (bh bw n : nat) (w1 w2 : list (list R)) (scale_raw : list R),
    (0 < bh)%nat -> (0 < bw)%nat -> mat_shape (bh * n) (bw * n) w1 -> mat_shape (bh * n) (bw * n) w2 ->
    length scale_raw = (bh * n)%nat ->
    forall (r c : nat) (v : R),
      entry (bnaf_weight_R (block_tril_mask bh bw n 0) (block_diag_mask bh bw n) w1 w2 scale_raw) r c = Some v ->
      (r / bh < c / bw)%nat -> v = 0.
Proof. exact bnaf_weight_R_zero_off_mask. Qed.
Print Assumptions X09_bnaf_weight_zero_off_mask.

(* hence the hypothesis [layers_good] of C09_bnaf_monotone_partial holds for all raw weights, every depth and block size *)
Theorem X09_bnaf_layers_good :
  forall (dim depth bd : nat) (raws : list raw_layer), (0 < bd)%nat ->
    Forall2 (raw_wf dim) (bnaf_block_shapes depth bd) raws ->
    layers_good 0 Rlt dim (bnaf_block_shapes depth bd) (unwrap_ws dim (bnaf_block_shapes depth bd) raws) (biases raws).
Proof. exact bnaf_layers_good_all. Qed.
Print Assumptions X09_bnaf_layers_good.

(* ---------- (2) structure with no hypothesis on the parameter values ---------- *)
(* any strictly increasing activation *)
Theorem X09_bnaf_strictly_increasing_own_coordinate :
  forall act : R -> R, (forall s t : R, s < t -> act s < act t) ->
  forall (dim depth bd : nat) (raws : list raw_layer) (cterm : option (list R)),
    (0 < bd)%nat -> Forall2 (raw_wf dim) (bnaf_block_shapes depth bd) raws ->
    match cterm with Some t => (bd * dim <= length t)%nat | None => True end ->
  forall (x x' : list R) (i : nat) (a a' : R),
    (i < dim)%nat -> length x = dim -> length x' = dim ->
    (forall j : nat, (j < i)%nat -> nth_error x j = nth_error x' j) ->
    nth_error x i = Some a -> nth_error x' i = Some a' -> a < a' ->
    exists y y' : R,
      nth_error (bnaf_R act dim depth bd raws cterm x) i = Some y /\
      nth_error (bnaf_R act dim depth bd raws cterm x') i = Some y' /\ y < y'.
Proof. exact bnaf_strictly_increasing_own_coordinate. Qed.
Print Assumptions X09_bnaf_strictly_increasing_own_coordinate.

Theorem X09_bnaf_independent_of_later_coordinates :
  forall (act : R -> R) (dim depth bd : nat) (raws : list raw_layer) (cterm : option (list R)) (x x' : list R) (i : nat),
    (i < dim)%nat -> length x = length x' ->
    (forall j : nat, (j <= i)%nat -> nth_error x j = nth_error x' j) ->
    nth_error (bnaf_R act dim depth bd raws cterm x) i = nth_error (bnaf_R act dim depth bd raws cterm x') i.
Proof. exact bnaf_independent_of_later_coordinates. Qed.
Print Assumptions X09_bnaf_independent_of_later_coordinates.

(* the two activations of flowjax: LeakyTanh(max_val = m > 0) exactly as its constructor builds it
   (leaky_fwd with g = leaky_grad m, ic = leaky_icpt m), and Tanh *)
Theorem X09_leaky_act_strictly_increasing :
  forall m : R, 0 < m -> forall s t : R, s < t -> leaky_act m s < leaky_act m t.
Proof. exact leaky_act_incr. Qed.
Print Assumptions X09_leaky_act_strictly_increasing.

Theorem X09_bnaf_leaky_strictly_increasing :
  forall (m : R) (dim depth bd : nat) (raws : list raw_layer) (cterm : option (list R)) (x x' : list R) (i : nat) (a a' : R),
    0 < m -> (0 < bd)%nat -> Forall2 (raw_wf dim) (bnaf_block_shapes depth bd) raws ->
    match cterm with Some t => (bd * dim <= length t)%nat | None => True end ->
    (i < dim)%nat -> length x = dim -> length x' = dim ->
    (forall j : nat, (j < i)%nat -> nth_error x j = nth_error x' j) ->
    nth_error x i = Some a -> nth_error x' i = Some a' -> a < a' ->
    exists y y' : R,
      nth_error (bnaf_R (leaky_act m) dim depth bd raws cterm x) i = Some y /\
      nth_error (bnaf_R (leaky_act m) dim depth bd raws cterm x') i = Some y' /\ y < y'.
Proof. exact bnaf_leaky_strictly_increasing. Qed.
Print Assumptions X09_bnaf_leaky_strictly_increasing.

Theorem X09_bnaf_tanh_strictly_increasing :
  forall (dim depth bd : nat) (raws : list raw_layer) (cterm : option (list R)) (x x' : list R) (i : nat) (a a' : R),
    (0 < bd)%nat -> Forall2 (raw_wf dim) (bnaf_block_shapes depth bd) raws ->
    match cterm with Some t => (bd * dim <= length t)%nat | None => True end ->
    (i < dim)%nat -> length x = dim -> length x' = dim ->
    (forall j : nat, (j < i)%nat -> nth_error x j = nth_error x' j) ->
    nth_error x i = Some a -> nth_error x' i = Some a' -> a < a' ->
    exists y y' : R,
      nth_error (bnaf_R tanh_act dim depth bd raws cterm x) i = Some y /\
      nth_error (bnaf_R tanh_act dim depth bd raws cterm x') i = Some y' /\ y < y'.
Proof. exact bnaf_tanh_strictly_increasing. Qed.
Print Assumptions X09_bnaf_tanh_strictly_increasing.

(* ---------- (3) bridge to C10 ---------- *)
(* fn(x) = transform(x, condition) - y0 satisfies the two structural hypotheses of C10_autoreg_residual
   (own coordinate strictly increasing; triangular), for every raw parameter value *)
Theorem X09_bnaf_residual_own_coordinate_increasing :
  forall act : R -> R, (forall s t : R, s < t -> act s < act t) ->
  forall (dim depth bd : nat) (raws : list raw_layer) (cterm : option (list R)) (y0 : list R),
    (0 < bd)%nat -> Forall2 (raw_wf dim) (bnaf_block_shapes depth bd) raws ->
    match cterm with Some t => (bd * dim <= length t)%nat | None => True end -> length y0 = dim ->
  forall (i : nat) (y : list R), (i < dim)%nat -> length y = dim ->
  forall s t : R, s < t ->
    G (bnaf_residual act dim depth bd raws cterm y0) i y s < G (bnaf_residual act dim depth bd raws cterm y0) i y t.
Proof. exact bnaf_residual_incr. Qed.
Print Assumptions X09_bnaf_residual_own_coordinate_increasing.

Theorem X09_bnaf_residual_triangular :
  forall act : R -> R, (forall s t : R, s < t -> act s < act t) ->
  forall (dim depth bd : nat) (raws : list raw_layer) (cterm : option (list R)) (y0 : list R),
    (0 < bd)%nat -> Forall2 (raw_wf dim) (bnaf_block_shapes depth bd) raws ->
    match cterm with Some t => (bd * dim <= length t)%nat | None => True end -> length y0 = dim ->
  forall (i : nat) (y y' : list R), (i < dim)%nat -> length y = dim -> length y' = dim ->
    firstn i y = firstn i y' ->
    forall t : R, G (bnaf_residual act dim depth bd raws cterm y0) i y t = G (bnaf_residual act dim depth bd raws cterm y0) i y' t.
Proof. exact bnaf_residual_tri. Qed.
Print Assumptions X09_bnaf_residual_triangular.

(* any strictly increasing activation; _partial: the third hypothesis of C10_autoreg_residual -- a root of every
   coordinate equation (ONTO) -- is explicit.  True for LeakyTanh (next theorems), FALSE for Tanh (last theorem). *)
Theorem X09_bnaf_inverse_within_tol_partial :
  forall act : R -> R, (forall s t : R, s < t -> act s < act t) ->
  forall (dim depth bd : nat) (raws : list raw_layer) (cterm : option (list R)) (y0 : list R),
    (0 < bd)%nat -> Forall2 (raw_wf dim) (bnaf_block_shapes depth bd) raws ->
    match cterm with Some t => (bd * dim <= length t)%nat | None => True end -> length y0 = dim ->
  forall (lo up tol : R) (max_iter : nat), lo < up -> 0 < tol ->
    (forall (i : nat) (y : list R), (i < dim)%nat -> length y = dim ->
       exists rho : R, nth_error (bnaf_R act dim depth bd raws cterm (upd y i rho)) i = nth_error y0 i) ->
    exists (fuel0 : nat) (xs : list R), length xs = dim /\
      (forall j : nat, (j < dim)%nat -> exists rho : R,
         nth_error (bnaf_R act dim depth bd raws cterm (upd xs j rho)) j = nth_error y0 j /\
         Rabs (nth j xs 0 - rho) <= Rmax tol (width0 rho lo up / 2 ^ S max_iter) /\
         (width0 rho lo up <= 2 * tol * 2 ^ max_iter -> Rabs (nth j xs 0 - rho) <= tol)) /\
      (forall fuel : nat, (fuel0 <= fuel)%nat ->
         autoreg RF (bnaf_residual act dim depth bd raws cterm y0) lo up tol dim max_iter fuel = Some xs).
Proof. exact bnaf_inverse_within_tol_partial. Qed.
Print Assumptions X09_bnaf_inverse_within_tol_partial.

(* activations with a positive lower slope ga (act t - act s >= ga (t - s)): a uniform positive lower slope K of every
   coordinate in its own input (also the slope hypothesis m of C10_autoreg_error_recursion) ... *)
Theorem X09_bnaf_lower_slope :
  forall (act : R -> R) (ga : R), 0 < ga -> (forall s t : R, s <= t -> ga * (t - s) <= act t - act s) ->
  forall (dim depth bd : nat) (raws : list raw_layer) (cterm : option (list R)),
    (0 < bd)%nat -> Forall2 (raw_wf dim) (bnaf_block_shapes depth bd) raws ->
    match cterm with Some t => (bd * dim <= length t)%nat | None => True end ->
    exists K : R, 0 < K /\
      (forall (i : nat) (y : list R) (s t v v' : R), (i < dim)%nat -> length y = dim -> s <= t ->
         nth_error (bnaf_R act dim depth bd raws cterm (upd y i s)) i = Some v ->
         nth_error (bnaf_R act dim depth bd raws cterm (upd y i t)) i = Some v' -> K * (t - s) <= v' - v).
Proof. exact bnaf_lower_slope. Qed.
Print Assumptions X09_bnaf_lower_slope.

(* ... (4) the derivative form: wherever d y_i / d x_i exists it is >= K > 0.
   _partial: says nothing about EXISTENCE of the derivative (and cannot: it has no differentiability hypothesis on act).
   The FULL statement -- for an everywhere-differentiable activation the derivative exists at every point (chain rule
   through the network) and is >= K > 0 -- is now X09_bnaf_own_derivative_positive in section (5) below; this theorem is
   kept as the half of it that needs no differentiability of the activation. *)
Theorem X09_bnaf_own_derivative_positive_partial :
  forall (act : R -> R) (ga : R), 0 < ga -> (forall s t : R, s <= t -> ga * (t - s) <= act t - act s) ->
  forall (dim depth bd : nat) (raws : list raw_layer) (cterm : option (list R)),
    (0 < bd)%nat -> Forall2 (raw_wf dim) (bnaf_block_shapes depth bd) raws ->
    match cterm with Some t => (bd * dim <= length t)%nat | None => True end ->
    exists K : R, 0 < K /\
      (forall (i : nat) (y : list R) (t d : R), (i < dim)%nat -> length y = dim ->
         derivable_pt_lim (fun tau : R => nth i (bnaf_R act dim depth bd raws cterm (upd y i tau)) 0) t d -> K <= d).
Proof. exact bnaf_own_derivative_positive. Qed.
Print Assumptions X09_bnaf_own_derivative_positive_partial.

(* ... and, with a continuous activation, every coordinate equation has a root (the coordinate maps are onto R) *)
Theorem X09_bnaf_coordinate_onto :
  forall (act : R -> R) (ga : R), 0 < ga -> (forall s t : R, s <= t -> ga * (t - s) <= act t - act s) -> continuity act ->
  forall (dim depth bd : nat) (raws : list raw_layer) (cterm : option (list R)),
    (0 < bd)%nat -> Forall2 (raw_wf dim) (bnaf_block_shapes depth bd) raws ->
    match cterm with Some t => (bd * dim <= length t)%nat | None => True end ->
  forall y0 : list R, length y0 = dim ->
  forall (i : nat) (y : list R), (i < dim)%nat -> length y = dim ->
    exists rho : R, nth_error (bnaf_R act dim depth bd raws cterm (upd y i rho)) i = nth_error y0 i.
Proof. exact bnaf_coordinate_onto. Qed.
Print Assumptions X09_bnaf_coordinate_onto.

(* LeakyTanh has the lower slope linear_grad = 1 - tanh(max_val)^2 > 0 and is continuous *)
Theorem X09_leaky_act_lower_slope :
  forall m : R, 0 < m ->
    0 < leaky_grad ROps m /\ continuity (leaky_act m) /\
    forall s t : R, s <= t -> leaky_grad ROps m * (t - s) <= leaky_act m t - leaky_act m s.
Proof. exact leaky_act_lower_slope_all. Qed.
Print Assumptions X09_leaky_act_lower_slope.

(* The numerically inverted BNAF with its default activation: for every raw parameter value, depth, block size,
   max_val m > 0, condition term, target y0, start interval lo < up, tol > 0 and max_iter the coordinate-by-coordinate
   bisection terminates and returns each coordinate within max(tol, W_j / 2^(max_iter+1)) -- within tol when max_iter
   suffices -- of the exact root of its own equation given the prefix found.  No hypothesis left. *)
Theorem X09_bnaf_leaky_inverse_within_tol :
  forall (m : R) (dim depth bd : nat) (raws : list raw_layer) (cterm : option (list R)) (y0 : list R)
         (lo up tol : R) (max_iter : nat),
    0 < m -> (0 < bd)%nat -> Forall2 (raw_wf dim) (bnaf_block_shapes depth bd) raws ->
    match cterm with Some t => (bd * dim <= length t)%nat | None => True end -> length y0 = dim ->
    lo < up -> 0 < tol ->
    exists (fuel0 : nat) (xs : list R), length xs = dim /\
      (forall j : nat, (j < dim)%nat -> exists rho : R,
         nth_error (bnaf_R (leaky_act m) dim depth bd raws cterm (upd xs j rho)) j = nth_error y0 j /\
         Rabs (nth j xs 0 - rho) <= Rmax tol (width0 rho lo up / 2 ^ S max_iter) /\
         (width0 rho lo up <= 2 * tol * 2 ^ max_iter -> Rabs (nth j xs 0 - rho) <= tol)) /\
      (forall fuel : nat, (fuel0 <= fuel)%nat ->
         autoreg RF (bnaf_residual (leaky_act m) dim depth bd raws cterm y0) lo up tol dim max_iter fuel = Some xs).
Proof. exact bnaf_leaky_inverse_within_tol. Qed.
Print Assumptions X09_bnaf_leaky_inverse_within_tol.

(* With Tanh (the paper's activation) the outputs of a network of depth >= 1 are bounded: some targets have no preimage
   coordinate, the onto hypothesis fails, and the interval adaptation of the inverter does not terminate on them
   (C10_adapt_needs_root) -- the reason flowjax defaults to LeakyTanh. *)
Theorem X09_bnaf_tanh_not_onto :
  forall (dim depth bd : nat) (raws : list raw_layer) (cterm : option (list R)) (i : nat), (0 < depth)%nat ->
    exists w : R, forall (x : list R) (y : R), nth_error (bnaf_R tanh_act dim depth bd raws cterm x) i = Some y -> y < w.
Proof. exact bnaf_tanh_not_onto. Qed.
Print Assumptions X09_bnaf_tanh_not_onto.

(* ---------- non-vacuity ---------- *)
(* dim 2, depth 1, block_dim 1: raw arrays of the constructor's shapes with entries of both signs (and a non-zero
   entry above the diagonal, which the mask must kill) satisfy [raw_wf]; so the theorems apply to them. *)
Definition exr_raws : list raw_layer :=
  [ {| rw1 := [[-1; 5]; [2; -3]]; rw2 := [[7; -4]; [-2; 0]]; rscale := [-1; 2]; rbias := [0; 1] |};
    {| rw1 := [[0; 9]; [-6; 1]]; rw2 := [[3; 3]; [-5; 2]]; rscale := [0; -3]; rbias := [-1; 4] |} ].
Example X09_example_raw_wf : Forall2 (raw_wf 2) (bnaf_block_shapes 1 1) exr_raws.
Proof. unfold exr_raws, bnaf_block_shapes, raw_wf, mat_shape. cbn. repeat constructor. Qed.
Example X09_example_leaky_increasing :
  exists y y' : R,
    nth_error (bnaf_R (leaky_act 3) 2 1 1 exr_raws None [1; 5]) 1 = Some y /\
    nth_error (bnaf_R (leaky_act 3) 2 1 1 exr_raws None [1; 6]) 1 = Some y' /\ y < y'.
Proof.
  apply (bnaf_leaky_strictly_increasing 3 2 1 1 exr_raws None [1; 5] [1; 6] 1 5 6); try reflexivity; try lra; try lia;
    try exact I; try exact X09_example_raw_wf.
  intros j Hj. destruct j; [reflexivity|lia].
Qed.
Example X09_example_inverse :
  exists (fuel0 : nat) (xs : list R), length xs = 2%nat /\
    forall fuel : nat, (fuel0 <= fuel)%nat ->
      autoreg RF (bnaf_residual (leaky_act 3) 2 1 1 exr_raws None [1/2; -7]) (-10) 10 (1/1000000) 2 200 fuel = Some xs.
Proof.
  destruct (bnaf_leaky_inverse_within_tol 3 2 1 1 exr_raws None [1/2; -7] (-10) 10 (1/1000000) 200) as [f0 [xs [H1 [_ H3]]]];
    try reflexivity; try lra; try lia; try exact I; try exact X09_example_raw_wf.
  exists f0, xs. split; assumption.
Qed.

(* ---------- (5) the own-coordinate derivative EXISTS everywhere and is >= K > 0 ---------- *)
(* Lemmas: Proofs/BnafDerivP.v.  [ex_derive] / [is_derive] are Coquelicot's (equivalent to the stdlib's
   derivable_pt_lim by is_derive_Reals). *)
From Coquelicot Require Import Coquelicot.
From FJ Require Import Proofs.BnafDerivP.

(* chain rule through the block-autoregressive network: any activation that is differentiable at every real, every
   dim / depth / block size, every raw weight, any condition term, every coordinate i, every point y and every real t.
   (The weights after softplus / Where / weight normalisation are constants of tau; only the inputs move.) *)
Theorem X09_bnaf_own_derivative_exists :
  forall act : R -> R, (forall x : R, ex_derive act x) ->
  forall (dim depth bd : nat) (raws : list raw_layer) (cterm : option (list R)),
    Forall2 (raw_wf dim) (bnaf_block_shapes depth bd) raws ->
    match cterm with Some t => (bd * dim <= length t)%nat | None => True end ->
  forall (i : nat) (y : list R) (t : R), (i < dim)%nat -> length y = dim ->
    ex_derive (fun tau : R => nth i (bnaf_R act dim depth bd raws cterm (upd y i tau)) 0) t.
Proof. exact bnaf_own_derivative_exists. Qed.
Print Assumptions X09_bnaf_own_derivative_exists.

(* the value being differentiated is the genuine i-th output, not the default of [nth] *)
Theorem X09_bnaf_own_value :
  forall (act : R -> R) (ga : R), 0 < ga -> (forall s t : R, s <= t -> ga * (t - s) <= act t - act s) ->
  forall (dim depth bd : nat) (raws : list raw_layer) (cterm : option (list R)),
    (0 < bd)%nat -> Forall2 (raw_wf dim) (bnaf_block_shapes depth bd) raws ->
    match cterm with Some t => (bd * dim <= length t)%nat | None => True end ->
  forall (i : nat) (y : list R) (t : R), (i < dim)%nat -> length y = dim ->
    nth_error (bnaf_R act dim depth bd raws cterm (upd y i t)) i =
    Some (nth i (bnaf_R act dim depth bd raws cterm (upd y i t)) 0).
Proof. exact bnaf_own_value. Qed.
Print Assumptions X09_bnaf_own_value.

(* FULL form of X09_bnaf_own_derivative_positive_partial: with an everywhere-differentiable activation of positive lower
   slope the diagonal partial d y_i / d x_i EXISTS at every point and is bounded below by one K > 0 that depends on the
   parameters only ("strictly positive diagonal" of the Jacobian, uniformly). *)
Theorem X09_bnaf_own_derivative_positive :
  forall (act : R -> R) (ga : R), 0 < ga -> (forall s t : R, s <= t -> ga * (t - s) <= act t - act s) ->
    (forall x : R, ex_derive act x) ->
  forall (dim depth bd : nat) (raws : list raw_layer) (cterm : option (list R)),
    (0 < bd)%nat -> Forall2 (raw_wf dim) (bnaf_block_shapes depth bd) raws ->
    match cterm with Some t => (bd * dim <= length t)%nat | None => True end ->
    exists K : R, 0 < K /\
      (forall (i : nat) (y : list R) (t : R), (i < dim)%nat -> length y = dim ->
         exists d : R,
           is_derive (fun tau : R => nth i (bnaf_R act dim depth bd raws cterm (upd y i tau)) 0) t d /\ K <= d).
Proof. exact bnaf_own_derivative_positive_full. Qed.
Print Assumptions X09_bnaf_own_derivative_positive.

(* the two activations of flowjax are differentiable at every real (LeakyTanh: the switch points +-max_val included) *)
Theorem X09_activations_differentiable :
  (forall m : R, 0 < m -> forall x : R, ex_derive (leaky_act m) x) /\ (forall x : R, ex_derive tanh_act x).
Proof. exact activations_differentiable. Qed.
Print Assumptions X09_activations_differentiable.

(* BNAF with its default activation LeakyTanh(max_val = m > 0): for every raw parameter value, depth, block size and
   condition term the diagonal partials exist everywhere and are >= K > 0.  No hypothesis left. *)
Theorem X09_bnaf_leaky_own_derivative_positive :
  forall (m : R) (dim depth bd : nat) (raws : list raw_layer) (cterm : option (list R)),
    0 < m -> (0 < bd)%nat -> Forall2 (raw_wf dim) (bnaf_block_shapes depth bd) raws ->
    match cterm with Some t => (bd * dim <= length t)%nat | None => True end ->
    exists K : R, 0 < K /\
      (forall (i : nat) (y : list R) (t : R), (i < dim)%nat -> length y = dim ->
         exists d : R,
           is_derive (fun tau : R => nth i (bnaf_R (leaky_act m) dim depth bd raws cterm (upd y i tau)) 0) t d /\ K <= d).
Proof. exact bnaf_leaky_own_derivative_positive. Qed.
Print Assumptions X09_bnaf_leaky_own_derivative_positive.

(* BNAF with Tanh: the diagonal partials exist everywhere (there is no uniform K: tanh' tends to 0) *)
Theorem X09_bnaf_tanh_own_derivative_exists :
  forall (dim depth bd : nat) (raws : list raw_layer) (cterm : option (list R)),
    Forall2 (raw_wf dim) (bnaf_block_shapes depth bd) raws ->
    match cterm with Some t => (bd * dim <= length t)%nat | None => True end ->
  forall (i : nat) (y : list R) (t : R), (i < dim)%nat -> length y = dim ->
    ex_derive (fun tau : R => nth i (bnaf_R tanh_act dim depth bd raws cterm (upd y i tau)) 0) t.
Proof. exact bnaf_tanh_own_derivative_exists. Qed.
Print Assumptions X09_bnaf_tanh_own_derivative_exists.

(* non-vacuity: the network exr_raws above (dim 2, depth 1, block_dim 1, entries of both signs) with LeakyTanh(3) meets
   every hypothesis; its second output has a derivative >= K > 0 in its own input at the point (1, 4) *)
Example X09_example_leaky_derivative :
  exists K : R, 0 < K /\ exists d : R,
    is_derive (fun tau : R => nth 1 (bnaf_R (leaky_act 3) 2 1 1 exr_raws None (upd [1; 5] 1 tau)) 0) 4 d /\ K <= d.
Proof.
  destruct (bnaf_leaky_own_derivative_positive 3 2 1 1 exr_raws None) as [K [HK H]];
    try lra; try lia; try exact I; try exact X09_example_raw_wf.
  exists K. split; [exact HK|]. apply (H 1%nat [1; 5] 4); [lia|reflexivity].
Qed.
