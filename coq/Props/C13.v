(* C13 -- Malformed inputs are rejected, never silently broadcast.
   Only the property theorems (each closed by [exact]) and their [Print Assumptions].
   Model: Model/Tensor.v, Model/Bij.v ([run] = the code-shaped semantics: the checks of
   _unwrap_check_and_cast are the first thing every method of every node does, children are re-entered through
   the same checked entry; [sig_of] = what the constructors compute or raise).
   What the model cannot state -- that the class-creation hook really wrapped the four methods of every
   concrete class -- is checked on the real classes by the correspondence check (harness/c13.py). *)
From Coq Require Import List ZArith Bool.
From FJ Require Import Model.Num Model.Tensor Model.Bij Proofs.TensorP Proofs.BijP Proofs.BijCor.
Import ListNotations.

(* x not of exactly the declared shape: every node kind, both directions *)
Theorem C13_reject_bad_x : forall (A : Type) (O : NumOps A) (b : bij A) d x c sg,
  sig_of b = Ok sg -> has_shape (fst sg) x = false -> run O b d x c = Err BadX.
Proof. exact @reject_bad_x. Qed.
Print Assumptions C13_reject_bad_x.

(* a conditional bijection called without a condition *)
Theorem C13_reject_missing_cond : forall (A : Type) (O : NumOps A) (b : bij A) d x sg cs,
  sig_of b = Ok sg -> has_shape (fst sg) x = true -> snd sg = Some cs -> run O b d x None = Err NoCond.
Proof. exact @reject_missing_cond. Qed.
Print Assumptions C13_reject_missing_cond.

(* ... or with a condition not of exactly the condition shape *)
Theorem C13_reject_bad_cond : forall (A : Type) (O : NumOps A) (b : bij A) d x cv sg cs,
  sig_of b = Ok sg -> has_shape (fst sg) x = true -> snd sg = Some cs -> has_shape cs cv = false ->
  run O b d x (Some cv) = Err BadCond.
Proof. exact @reject_bad_cond. Qed.
Print Assumptions C13_reject_bad_cond.

(* the same for each of the four public methods *)
Theorem C13_reject_every_method : forall (A : Type) (O : NumOps A) (b : bij A) m x c sg, sig_of b = Ok sg ->
  (has_shape (fst sg) x = false -> run_meth O b m x c = Err BadX) /\
  (has_shape (fst sg) x = true -> forall cs, snd sg = Some cs ->
     (c = None -> run_meth O b m x c = Err NoCond) /\
     (forall cv, c = Some cv -> has_shape cs cv = false -> run_meth O b m x c = Err BadCond)).
Proof. exact @reject_meth. Qed.
Print Assumptions C13_reject_every_method.

(* The shape test is strict equality -- no broadcasting, no size-1 leniency, no extra leading axis, no
   transposition: a tensor without zero-sized axes has exactly one shape. *)
Theorem C13_shape_test_is_strict : forall (A : Type) s s' (t : tensor A),
  nozero s -> nozero s' -> has_shape s t = true -> has_shape s' t = true -> s = s'.
Proof. exact @no_broadcasting. Qed.
Print Assumptions C13_shape_test_is_strict.

(* Calls that succeed were made with exactly the declared shapes, return exactly the declared shape, and
   the log-det (when the method has one) is a scalar. *)
Theorem C13_ok_shapes : forall (A : Type) (O : NumOps A) (b : bij A) m x c y ol,
  run_meth O b m x c = Ok (y, ol) ->
  exists sg, sig_of b = Ok sg /\ has_shape (fst sg) x = true /\ cond_ok (snd sg) c /\ has_shape (fst sg) y = true /\
             match ol with Some l => meth_ld m = true /\ is_scalar l = true | None => meth_ld m = false end.
Proof. exact @ok_shapes. Qed.
Print Assumptions C13_ok_shapes.

(* Conversely a correctly shaped call on a well-constructed tree never raises (no false rejections). *)
Theorem C13_accepts_wellformed : forall (A : Type) (O : NumOps A) (b : bij A) m x c sg,
  sig_of b = Ok sg -> has_shape (fst sg) x = true -> cond_ok (snd sg) c ->
  run_meth O b m x c =
    Ok (fst (den O b (meth_dir m) x c), if meth_ld m then Some (Sc (snd (den O b (meth_dir m) x c))) else None).
Proof. exact @run_meth_is_den. Qed.
Print Assumptions C13_accepts_wellformed.

(* A tree whose construction raises cannot be called. *)
Theorem C13_ctor_error_propagates : forall (A : Type) (O : NumOps A) (b : bij A) d x c e,
  sig_of b = Err e -> run O b d x c = Err e.
Proof. exact @reject_ctor. Qed.
Print Assumptions C13_ctor_error_propagates.

(* ---- constructors raise exactly for the documented incompatibilities ---- *)
Theorem C13_merge_cond_shapes_iff : forall l : list (option shape),
  (exists cs, merge_cond_shapes l = Ok cs) <->
  l <> [] /\ (forall s1 s2, In (Some s1) l -> In (Some s2) l -> s1 = s2).
Proof. exact merge_cond_iff. Qed.
Print Assumptions C13_merge_cond_shapes_iff.

Theorem C13_chain_ctor_iff : forall (A : Type) (bs : list (bij A)),
  (exists sg, sig_of (Chain bs) = Ok sg) <->
  exists sigs, mapr sig_of bs = Ok sigs /\ sigs <> [] /\
    (forall a b, In a sigs -> In b sigs -> fst a = fst b) /\
    (forall s1 s2, In (Some s1) (map snd sigs) -> In (Some s2) (map snd sigs) -> s1 = s2).
Proof. exact @chain_ctor_iff. Qed.
Print Assumptions C13_chain_ctor_iff.

Theorem C13_stack_ctor_iff : forall (A : Type) axis (bs : list (bij A)),
  (exists sg, sig_of (Stack axis bs) = Ok sg) <->
  exists sigs s0, mapr sig_of bs = Ok sigs /\ sigs <> [] /\ (forall a, In a sigs -> fst a = s0) /\
    (- Z.of_nat (length s0) - 1 <= axis <= Z.of_nat (length s0))%Z /\
    (forall s1 s2, In (Some s1) (map snd sigs) -> In (Some s2) (map snd sigs) -> s1 = s2).
Proof. exact @stack_ctor_iff. Qed.
Print Assumptions C13_stack_ctor_iff.

(* Concatenate: if it constructs, the shapes agree off the axis [axis mod rank] (-rank <= axis < rank) ... *)
Theorem C13_concat_ctor_only_if : forall (A : Type) axis (bs : list (bij A)) sg,
  sig_of (Concat axis bs) = Ok sg ->
  exists sigs pre post sizes, mapr sig_of bs = Ok sigs /\ sigs <> [] /\
    Forall2 (fun a n => fst a = pre ++ n :: post) sigs sizes /\
    (- Z.of_nat (S (length pre + length post)) <= axis < Z.of_nat (S (length pre + length post)))%Z /\
    length pre = Z.to_nat (axis mod Z.of_nat (S (length pre + length post))) /\
    fst sg = pre ++ sumn sizes :: post.
Proof. exact @concat_declared_shape. Qed.
Print Assumptions C13_concat_ctor_only_if.

(* ... and if they do (and the cond_shapes merge) it constructs. *)
Theorem C13_concat_ctor_if : forall (A : Type) axis (bs : list (bij A)) sigs pre post sizes,
  mapr sig_of bs = Ok sigs -> sigs <> [] -> Forall2 (fun a n => fst a = pre ++ n :: post) sigs sizes ->
  py_range_index (S (length pre + length post)) axis = Some (length pre) ->
  (forall s1 s2, In (Some s1) (map snd sigs) -> In (Some s2) (map snd sigs) -> s1 = s2) ->
  exists cs, sig_of (Concat axis bs) = Ok (pre ++ sumn sizes :: post, cs).
Proof. exact @concat_ctor_conv. Qed.
Print Assumptions C13_concat_ctor_if.

Theorem C13_reshape_ctor_iff : forall (A : Type) os cs (b : bij A),
  (exists sg, sig_of (Reshape os cs b) = Ok sg) <->
  exists sgb, sig_of b = Ok sgb /\
    prodn (match os with Some s => s | None => fst sgb end) = prodn (fst sgb) /\
    match snd sgb, cs with
    | None, Some _ => False
    | Some csb, Some c' => prodn c' = prodn csb
    | _, None => True
    end.
Proof. exact @reshape_ctor_iff. Qed.
Print Assumptions C13_reshape_ctor_iff.

Theorem C13_partial_ctor_iff : forall (A : Type) ix s (b : bij A), idx_supported ix = true ->
  ((exists sg, sig_of (Partial ix s b) = Ok sg) <->
   exists sgb rs, sig_of b = Ok sgb /\ resolve_idx ix s = Some rs /\ idx_shape rs s = fst sgb).
Proof. exact @partial_ctor_iff. Qed.
Print Assumptions C13_partial_ctor_iff.

(* Non-vacuity: NumPy would broadcast each of these inputs; the model rejects them, and accepts the right one. *)
Example C13_example_rejections :
  let b := Chain [Leaf (LLoc (zt [2; 3] [1; 2; 3; 4; 5; 6]%Z)); Leaf (LAddCond [2; 3] (zt [2] [1; 1]%Z))] in
  sig_of b = Ok ([2; 3], Some [2]) /\
  run ZOps b Fwd (zt [] [7]%Z) (Some (zt [2] [1; 2]%Z)) = Err BadX /\           (* scalar for matrix *)
  run ZOps b Fwd (zt [1; 3] [1; 2; 3]%Z) (Some (zt [2] [1; 2]%Z)) = Err BadX /\ (* size-1 axis *)
  run ZOps b Fwd (zt [1; 2; 3] [1; 2; 3; 4; 5; 6]%Z) (Some (zt [2] [1; 2]%Z)) = Err BadX /\ (* extra leading axis *)
  run ZOps b Fwd (zt [3; 2] [1; 2; 3; 4; 5; 6]%Z) (Some (zt [2] [1; 2]%Z)) = Err BadX /\    (* transposed *)
  run ZOps b Fwd (zt [2; 3] [1; 2; 3; 4; 5; 6]%Z) None = Err NoCond /\
  run ZOps b Fwd (zt [2; 3] [1; 2; 3; 4; 5; 6]%Z) (Some (zt [1] [1]%Z)) = Err BadCond /\
  run ZOps b Fwd (zt [2; 3] [1; 2; 3; 4; 5; 6]%Z) (Some (zt [2] [1; 2]%Z)) = Ok (zt [2; 3] [5; 7; 9; 11; 13; 15]%Z, Sc 0%Z).
Proof. vm_compute. repeat split; reflexivity. Qed.
Example C13_example_ctor :
  sig_of (Chain [Leaf (LFlip [2]); Leaf (LFlip [1; 2])] : bij Z) = Err Ctor /\
  sig_of (Stack 2 [Leaf (LFlip [2]); Leaf (LFlip [2])] : bij Z) = Err Ctor /\
  sig_of (Concat 0 [Leaf (LFlip [2; 3]); Leaf (LFlip [1; 2])] : bij Z) = Err Ctor /\
  sig_of (Reshape (Some [5]) None (Leaf (LFlip [2; 3])) : bij Z) = Err Ctor /\
  sig_of (Partial [SMask [true; false]] [3] (Leaf (LFlip [1])) : bij Z) = Err Ctor /\
  sig_of (Concat (-1) [Leaf (LFlip [2; 3]); Leaf (LFlip [2; 2])] : bij Z) = Ok ([2; 5], None).
Proof. vm_compute. repeat split; reflexivity. Qed.
