(* X02_bnaf -- the log-determinant REPORTED by BlockAutoregressiveNetwork.transform_and_log_det is ln |det Jacobian| of the
   value map (supports C02: "every reported log-det is ln |det Jacobian|", which for BNAF was decided by the autodiff oracle
   only).  Only property theorems (each closed by [exact]) with their [Print Assumptions], and non-vacuity examples.
   Model: Model/BnafLd.v (what the code computes for the log-det: ln of the diagonal blocks of the weight-normalised,
          softplus-positive weights gathered through block_diag_mask and reshaped to (dim, block_out, block_in); the
          activation's log-gradients on block diagonals, -inf = [None] elsewhere; the reversed logmatmulexp chain with amax
          shifts; the sum) on top of the VALUE model Model/Masks.v (bnaf_weight, bnaf_run) -- both share the weights computed
          from the raw trainable arrays; Model/Leaves.v (leaky_fwd, leaky_ld_fwd, tanh_fwd, tanh_ld_fwd).
   Lemmas: Proofs/BnafLdP.v (on top of Proofs/BnafP.v, MasksP.v, LeafDerivP.v, DetPJac.v).
   Everything is proved at FULL generality: every dim, depth, block_dim >= 1, every raw weight / scale / bias (arrays of the
   constructor's shapes, [raw_wf]), with or without a condition term, every input x, every coordinate.  Nothing is _partial.
   EXACT real arithmetic (ROps); float rounding, overflow and the float saturation of tanh are not modelled.
   Notation used in the statements (defined in Proofs/BnafLdP.v):
     sumf n f = f 0 + ... + f (n-1);   EE (Some v) = exp v, EE None = 0 (exp of -inf);   yent y k j = y[k][j] (None out of range);
     of_raw: the raw arrays of one layer (Proofs/BnafP.raw_layer) as the record the executable model takes;
     bnaf_tld O act ld dim depth bd raws cterm x = (y, the dim entries of the final (dim,1,1) array, their sum). *)
From Coq Require Import Reals List ZArith Bool Arith Lia Lra.
From Coquelicot Require Import Coquelicot.
From FJ Require Import Model.Num Model.Leaves Model.Bisect Model.Masks Model.BnafLd.
From FJ Require Import Proofs.RNum Proofs.LeafDerivP Proofs.BisectP Proofs.MasksP Proofs.BnafP Proofs.BnafLdP.
From FJ Require Proofs.DetP Proofs.DetPJac.
Import ListNotations.
Open Scope R_scope.

(* ---------- (1) logsumexp and logmatmulexp ---------- *)
(* ln (sum exp) of a non-empty list: the shift subtracted inside and added back outside does not change the value, the
   argument of ln is positive, and exp undoes it *)
Theorem X02_logsumexp :
  forall (l : list R) (s : R), l <> [] ->
    0 < fold_right Rplus 0 (map exp l) /\
    ln (fold_right Rplus 0 (map (fun v => exp (v - s)) l)) + s = ln (fold_right Rplus 0 (map exp l)) /\
    exp (ln (fold_right Rplus 0 (map (fun v => exp (v - s)) l)) + s) = fold_right Rplus 0 (map exp l).
Proof. exact logsumexp_shift. Qed.
Print Assumptions X02_logsumexp.

(* logmatmulexp(x, y), y with -inf entries: exp of entry (p, j) = sum_k exp x_pk * exp y_kj as soon as one y_kj (k inside
   the row of x) is finite; holds for ANY value of the two shifts, so nothing about amax is needed *)
Theorem X02_logmatmulexp_spec :
  forall (x : list (list R)) (y : list (list (option R))) (p j : nat) (xrow : list R),
    nth_error x p = Some xrow -> (j < ncols y)%nat ->
    exists (row : list R) (v : R),
      nth_error (logmatmulexp ROps x y) p = Some row /\ nth_error row j = Some v /\
      (let SS := sumf (length xrow) (fun k => exp (nth k xrow 0) * EE (yent y k j)) in 0 < SS -> exp v = SS).
Proof. exact logmatmulexp_spec. Qed.
Print Assumptions X02_logmatmulexp_spec.

(* two finite matrices, inner dimension kk > 0:  exp (logmatmulexp x y)_pj = (exp x @ exp y)_pj *)
Theorem X02_logmatmulexp_finite_spec :
  forall (x y : list (list R)) (kk c p j : nat) (xrow : list R),
    nth_error x p = Some xrow -> length xrow = kk -> (0 < kk)%nat ->
    length y = kk -> (forall k, (k < kk)%nat -> length (nth k y []) = c) -> (j < c)%nat ->
    exists (row : list R) (v : R),
      nth_error (logmatmulexp ROps x (map (map (@Some R)) y)) p = Some row /\ nth_error row j = Some v /\
      exp v = sumf kk (fun k => exp (nth k xrow 0) * exp (nth j (nth k y []) 0)).
Proof. exact logmatmulexp_finite_spec. Qed.
Print Assumptions X02_logmatmulexp_finite_spec.

(* ---------- (2) linear_to_log_block_diagonal ---------- *)
(* linear.weight[jnp.where(block_diag_mask)].reshape(n, bh, bw), then log: n blocks; block i, row p is ln of the slice
   [i*bw, i*bw + bw) of row i*bh + p of the weight *)
Theorem X02_log_block_diag_closed_form :
  forall (n bh bw : nat) (W : list (list R)),
    (0 < bh)%nat -> (0 < bw)%nat -> mat_shape (bh * n) (bw * n) W ->
    length (log_block_diag ROps n bh bw W) = n /\
    forall (i p : nat) (wrow : list R), (i < n)%nat -> (p < bh)%nat -> nth_error W (i * bh + p) = Some wrow ->
      exists Bi, nth_error (log_block_diag ROps n bh bw W) i = Some Bi /\ length Bi = bh /\
                 nth_error Bi p = Some (map ln (firstn bw (skipn (i * bw) wrow))).
Proof. exact log_block_diag_closed_form. Qed.
Print Assumptions X02_log_block_diag_closed_form.

(* ---------- (3) the log-det pass computes the value model ---------- *)
(* the y returned next to the log-det is Proofs/BnafP.bnaf_R (= Model.Masks.bnaf_transform on the weights unwrapped from the
   same raw arrays): any activation, any reported log-gradient *)
Theorem X02_bnaf_tld_value :
  forall (act ld : R -> R) (dim depth bd : nat) (raws : list raw_layer) (cterm : option (list R)) (x : list R),
    fst (fst (bnaf_tld ROps act ld dim depth bd (map of_raw raws) cterm x)) = bnaf_R act dim depth bd raws cterm x.
Proof. exact bnaf_tld_value. Qed.
Print Assumptions X02_bnaf_tld_value.

(* ---------- (4) MAIN: every reported entry is ln of the own-coordinate derivative ---------- *)
(* any activation act that is differentiable everywhere with derivative act' > 0 and reports ld x = ln (act' x):
   the i-th entry v of the final (dim, 1, 1) array exists and exp v IS d y_i / d x_i of the value model at x
   (Coquelicot is_derive of tau |-> transform(x[i := tau])_i at tau = x_i; chain rule through all layers) *)
Theorem X02_bnaf_reported_term_is_own_derivative :
  forall act act' ld : R -> R,
    (forall x, is_derive act x (act' x)) -> (forall x, 0 < act' x) -> (forall x, ld x = ln (act' x)) ->
  forall (dim depth bd : nat) (raws : list raw_layer) (cterm : option (list R)),
    (0 < bd)%nat -> Forall2 (raw_wf dim) (bnaf_block_shapes depth bd) raws ->
    match cterm with Some t => (bd * dim <= length t)%nat | None => True end ->
  forall (x : list R) (i : nat), length x = dim -> (i < dim)%nat ->
    exists v : R,
      nth_error (snd (fst (bnaf_tld ROps act ld dim depth bd (map of_raw raws) cterm x))) i = Some v /\
      is_derive (fun tau => nth i (bnaf_R act dim depth bd raws cterm (upd x i tau)) 0) (nth i x 0) (exp v).
Proof. exact bnaf_reported_term_is_own_derivative. Qed.
Print Assumptions X02_bnaf_reported_term_is_own_derivative.

(* the reported total = sum_i ln (d y_i / d x_i); every one of these derivatives exists and is positive
   (so no ln of a non-positive number, no Derive of a non-differentiable function) *)
Theorem X02_bnaf_reported_total_is_sum_ln_derivatives :
  forall act act' ld : R -> R,
    (forall x, is_derive act x (act' x)) -> (forall x, 0 < act' x) -> (forall x, ld x = ln (act' x)) ->
  forall (dim depth bd : nat) (raws : list raw_layer) (cterm : option (list R)),
    (0 < bd)%nat -> Forall2 (raw_wf dim) (bnaf_block_shapes depth bd) raws ->
    match cterm with Some t => (bd * dim <= length t)%nat | None => True end ->
  forall x : list R, length x = dim ->
    (forall i, (i < dim)%nat ->
       ex_derive (fun tau => nth i (bnaf_R act dim depth bd raws cterm (upd x i tau)) 0) (nth i x 0) /\
       0 < Derive (fun tau => nth i (bnaf_R act dim depth bd raws cterm (upd x i tau)) 0) (nth i x 0)) /\
    snd (bnaf_tld ROps act ld dim depth bd (map of_raw raws) cterm x) =
    sum ROps (map (fun i => ln (Derive (fun tau => nth i (bnaf_R act dim depth bd raws cterm (upd x i tau)) 0) (nth i x 0))) (seq 0 dim)).
Proof. exact bnaf_reported_total_is_sum_ln_derivatives. Qed.
Print Assumptions X02_bnaf_reported_total_is_sum_ln_derivatives.

(* ---------- (5) the reported log-det is ln |det Jacobian| ---------- *)
(* with C02_tri_jacobian_ldj (Proofs/DetPJac.tri_jacobian_ldj, MathComp det_trig): for EVERY matrix J whose entries on and
   above the diagonal are the partial derivatives of the value map at x (the entries below the diagonal do not enter the
   determinant of a triangular Jacobian) the reported total is ln |det J| and det J <> 0; and such J exist *)
Theorem X02_bnaf_reported_ldj_is_ln_det :
  forall act act' ld : R -> R,
    (forall x, is_derive act x (act' x)) -> (forall x, 0 < act' x) -> (forall x, ld x = ln (act' x)) ->
  forall (dim depth bd : nat) (raws : list raw_layer) (cterm : option (list R)),
    (0 < bd)%nat -> Forall2 (raw_wf dim) (bnaf_block_shapes depth bd) raws ->
    match cterm with Some t => (bd * dim <= length t)%nat | None => True end ->
  forall x : list R, length x = dim ->
    (forall J : nat -> nat -> R,
       (forall i j, (i <= j)%nat -> (j < dim)%nat -> DetPJac.partial_at (bnaf_R act dim depth bd raws cterm) x i j (J i j)) ->
       snd (bnaf_tld ROps act ld dim depth bd (map of_raw raws) cterm x) = ln (Rabs (DetP.detF dim J)) /\ DetP.detF dim J <> 0) /\
    (exists J : nat -> nat -> R,
       forall i j, (i <= j)%nat -> (j < dim)%nat -> DetPJac.partial_at (bnaf_R act dim depth bd raws cterm) x i j (J i j)).
Proof. exact bnaf_reported_ldj_is_ln_det. Qed.
Print Assumptions X02_bnaf_reported_ldj_is_ln_det.

(* ---------- (6) the activations of flowjax: no hypothesis left on the activation ---------- *)
(* LeakyTanh with the three fields its constructor computes (max_val = m > 0), the Tanh bijection, and a callable tanh
   wrapped by _CallableToBijection (ln |(1 + t)(1 - t)|, jax's tanh rule): each is differentiable at every real with a
   positive derivative, and the log-gradient it reports is ln of that derivative *)
Theorem X02_bnaf_activations_report_ln_derivative :
  forall a : bact R, bact_ok a ->
  forall x : R, is_derive (bact_fwd ROps a) x (bact_d a x) /\ 0 < bact_d a x /\ bact_ld ROps a x = ln (bact_d a x).
Proof. exact bnaf_activations_report_ln_derivative. Qed.
Print Assumptions X02_bnaf_activations_report_ln_derivative.

Theorem X02_bnaf_act_reported_term_is_own_derivative :
  forall (a : bact R) (dim depth bd : nat) (raws : list raw_layer) (cterm : option (list R)),
    bact_ok a -> (0 < bd)%nat -> Forall2 (raw_wf dim) (bnaf_block_shapes depth bd) raws ->
    match cterm with Some t => (bd * dim <= length t)%nat | None => True end ->
  forall (x : list R) (i : nat), length x = dim -> (i < dim)%nat ->
    fst (fst (bnaf_tld_act ROps a dim depth bd (map of_raw raws) cterm x)) = bnaf_R (bact_fwd ROps a) dim depth bd raws cterm x /\
    exists v : R,
      nth_error (snd (fst (bnaf_tld_act ROps a dim depth bd (map of_raw raws) cterm x))) i = Some v /\
      is_derive (fun tau => nth i (bnaf_R (bact_fwd ROps a) dim depth bd raws cterm (upd x i tau)) 0) (nth i x 0) (exp v).
Proof. exact bnaf_act_reported_term_is_own_derivative. Qed.
Print Assumptions X02_bnaf_act_reported_term_is_own_derivative.

Theorem X02_bnaf_act_reported_ldj_is_ln_det :
  forall (a : bact R) (dim depth bd : nat) (raws : list raw_layer) (cterm : option (list R)),
    bact_ok a -> (0 < bd)%nat -> Forall2 (raw_wf dim) (bnaf_block_shapes depth bd) raws ->
    match cterm with Some t => (bd * dim <= length t)%nat | None => True end ->
  forall x : list R, length x = dim ->
    (forall J : nat -> nat -> R,
       (forall i j, (i <= j)%nat -> (j < dim)%nat -> DetPJac.partial_at (bnaf_R (bact_fwd ROps a) dim depth bd raws cterm) x i j (J i j)) ->
       snd (bnaf_tld_act ROps a dim depth bd (map of_raw raws) cterm x) = ln (Rabs (DetP.detF dim J)) /\ DetP.detF dim J <> 0) /\
    (exists J : nat -> nat -> R,
       forall i j, (i <= j)%nat -> (j < dim)%nat -> DetPJac.partial_at (bnaf_R (bact_fwd ROps a) dim depth bd raws cterm) x i j (J i j)).
Proof. exact bnaf_act_reported_ldj_is_ln_det. Qed.
Print Assumptions X02_bnaf_act_reported_ldj_is_ln_det.

(* BNAF with its default activation LeakyTanh(max_val = m > 0), [leaky_act m] of Proofs/BnafP.v being its forward map:
   every reported entry is ln of the own-coordinate derivative, the total is ln |det J|, such J exist *)
Theorem X02_bnaf_leaky_reported_ldj_is_ln_det :
  forall (m : R) (dim depth bd : nat) (raws : list raw_layer) (cterm : option (list R)),
    0 < m -> (0 < bd)%nat -> Forall2 (raw_wf dim) (bnaf_block_shapes depth bd) raws ->
    match cterm with Some t => (bd * dim <= length t)%nat | None => True end ->
  forall x : list R, length x = dim ->
    (forall i, (i < dim)%nat -> exists v : R,
       nth_error (snd (fst (bnaf_tld_act ROps (leaky_bact m) dim depth bd (map of_raw raws) cterm x))) i = Some v /\
       is_derive (fun tau => nth i (bnaf_R (leaky_act m) dim depth bd raws cterm (upd x i tau)) 0) (nth i x 0) (exp v)) /\
    (forall J : nat -> nat -> R,
       (forall i j, (i <= j)%nat -> (j < dim)%nat -> DetPJac.partial_at (bnaf_R (leaky_act m) dim depth bd raws cterm) x i j (J i j)) ->
       snd (bnaf_tld_act ROps (leaky_bact m) dim depth bd (map of_raw raws) cterm x) = ln (Rabs (DetP.detF dim J)) /\ DetP.detF dim J <> 0) /\
    (exists J : nat -> nat -> R,
       forall i j, (i <= j)%nat -> (j < dim)%nat -> DetPJac.partial_at (bnaf_R (leaky_act m) dim depth bd raws cterm) x i j (J i j)).
Proof. exact bnaf_leaky_reported_ldj_is_ln_det. Qed.
Print Assumptions X02_bnaf_leaky_reported_ldj_is_ln_det.

(* ---------- non-vacuity ---------- *)
(* (a) dim 2, depth 1, block_dim 1 (the network of Props/X09_bnaf.v): raw entries of both signs, a non-zero raw entry above the
   diagonal that the mask must kill *)
Definition ex2_raws : list raw_layer :=
  [ {| rw1 := [[-1; 5]; [2; -3]]; rw2 := [[7; -4]; [-2; 0]]; rscale := [-1; 2]; rbias := [0; 1] |};
    {| rw1 := [[0; 9]; [-6; 1]]; rw2 := [[3; 3]; [-5; 2]]; rscale := [0; -3]; rbias := [-1; 4] |} ].
Example X02_example_raw_wf : Forall2 (raw_wf 2) (bnaf_block_shapes 1 1) ex2_raws.
Proof. unfold ex2_raws, bnaf_block_shapes, raw_wf, mat_shape. cbn. repeat constructor. Qed.
(* (b) dim 2, depth 2, block_dim 2, with a condition term: layers 4x2, 4x4, 2x4 *)
Definition ex2_deep : list raw_layer :=
  [ {| rw1 := [[1; -2]; [0; 3]; [-1; 1]; [2; 2]]; rw2 := [[4; 1]; [-3; 0]; [2; -2]; [-1; 5]]; rscale := [0; 1; -1; 2]; rbias := [1; -1; 0; 2] |};
    {| rw1 := [[1; 0; 2; -1]; [-1; 1; 0; 3]; [2; -2; 1; 0]; [0; 1; -1; 1]];
       rw2 := [[0; 2; -1; 1]; [3; -1; 2; 0]; [-2; 0; 1; 4]; [1; 1; 0; -3]]; rscale := [1; 0; -2; 1]; rbias := [0; 0; 1; -1] |};
    {| rw1 := [[2; -1; 0; 1]; [1; 1; -2; 0]]; rw2 := [[-1; 3; 1; 1]; [0; 2; -1; 2]]; rscale := [-1; 1]; rbias := [3; -2] |} ].
Example X02_example_deep_raw_wf : Forall2 (raw_wf 2) (bnaf_block_shapes 2 2) ex2_deep.
Proof. unfold ex2_deep, bnaf_block_shapes, raw_wf, mat_shape. cbn. repeat constructor. Qed.

(* both meet every hypothesis with LeakyTanh(3): the second reported entry at x = (1, 5) is ln of d y_1 / d x_1 there *)
Example X02_example_leaky_term :
  exists v : R,
    nth_error (snd (fst (bnaf_tld_act ROps (leaky_bact 3) 2 1 1 (map of_raw ex2_raws) None [1; 5]))) 1 = Some v /\
    is_derive (fun tau => nth 1 (bnaf_R (leaky_act 3) 2 1 1 ex2_raws None (upd [1; 5] 1 tau)) 0) 5 (exp v).
Proof.
  destruct (bnaf_leaky_reported_ldj_is_ln_det 3 2 1 1 ex2_raws None ltac:(lra) ltac:(lia) X02_example_raw_wf I [1; 5] eq_refl) as [H _].
  exact (H 1%nat ltac:(lia)).
Qed.
Example X02_example_deep_ldj :
  exists J : nat -> nat -> R,
    (forall i j, (i <= j)%nat -> (j < 2)%nat -> DetPJac.partial_at (bnaf_R (leaky_act 3) 2 2 2 ex2_deep (Some [1; -1; 2; 0])) [-4; 1/2] i j (J i j)) /\
    snd (bnaf_tld_act ROps (leaky_bact 3) 2 2 2 (map of_raw ex2_deep) (Some [1; -1; 2; 0]) [-4; 1/2]) = ln (Rabs (DetP.detF 2 J)) /\
    DetP.detF 2 J <> 0.
Proof.
  destruct (bnaf_leaky_reported_ldj_is_ln_det 3 2 2 2 ex2_deep (Some [1; -1; 2; 0]) ltac:(lra) ltac:(lia) X02_example_deep_raw_wf
              ltac:(cbn; lia) [-4; 1/2] eq_refl) as [_ [H [J HJ]]].
  exists J. split; [exact HJ|]. exact (H J HJ).
Qed.
