(* C04 -- Flow densities integrate to one and the sampler draws from them.   *** PARTIAL ***
   Proved here (one dimension, Coquelicot): change of variables for increasing / decreasing C1 bijections of R onto R;
   the class [diffeo] is closed under composition and inverse; Affine / Loc / Scale / LeakyTanh layers and every
   Invert / Chain of them are such maps and report ln|derivative| as their log-det; hence exp(log_prob) of
   Transformed(base, b) integrates to one for every such expression b (any depth) and a base with a CDF.
   Tanh is not such a map.  The piecewise (Chasles) form covers maps with kinks: the rational-quadratic spline is in the
   class, so every Chain / Invert nesting of Affine / LeakyTanh / spline layers is covered in both orientations.
   NOT proved (named in Proofs/IntP.v): d >= 2 change of variables, existence of the normal CDF (hypothesis; proved for
   the Gumbel base), everything statistical about the sampler.  Those parts are covered by the deterministic quadrature and
   the fixed-seed Kolmogorov-Smirnov oracle of harness/c04.py only.
   Model: Model/Dist.v.  Lemmas: Proofs/IntP.v (on C01/C02/C03 lemmas). *)
From Coq Require Import Reals List ZArith Bool.
From Coquelicot Require Import Coquelicot.
From FJ Require Proofs.LeafInvP Proofs.RqsInvP.
From FJ Require Import Model.Num Model.Leaves Model.Dist Proofs.RNum Proofs.LeafDerivP Proofs.RqsDerivP Proofs.DistP Proofs.IntP Proofs.IntSplineP.
Import ListNotations.
Open Scope R_scope.

(* change of variables on the line: base CDF P with continuous density p, S = T^-1 increasing C1 onto R *)
Theorem C04_flow_density_integrates_to_one : forall P p S S' : R -> R,
  (forall z, is_derive P z (p z)) -> (forall z, continuous p z) ->
  filterlim P (Rbar_locally m_infty) (locally 0) -> filterlim P (Rbar_locally p_infty) (locally 1) ->
  (forall x, is_derive S x (S' x)) -> (forall x, continuous S' x) ->
  filterlim S (Rbar_locally m_infty) (Rbar_locally m_infty) ->
  filterlim S (Rbar_locally p_infty) (Rbar_locally p_infty) ->
  is_RInt_gen (fun x => p (S x) * S' x) (Rbar_locally m_infty) (Rbar_locally p_infty) 1.
Proof. exact flow_density_integrates_to_one. Qed.
Print Assumptions C04_flow_density_integrates_to_one.

(* the decreasing case (negative scales): the density carries |S'| = - S' *)
Theorem C04_flow_density_integrates_to_one_decreasing : forall P p S S' : R -> R,
  (forall z, is_derive P z (p z)) -> (forall z, continuous p z) ->
  filterlim P (Rbar_locally m_infty) (locally 0) -> filterlim P (Rbar_locally p_infty) (locally 1) ->
  (forall x, is_derive S x (S' x)) -> (forall x, continuous S' x) ->
  filterlim S (Rbar_locally m_infty) (Rbar_locally p_infty) ->
  filterlim S (Rbar_locally p_infty) (Rbar_locally m_infty) ->
  is_RInt_gen (fun x => p (S x) * - S' x) (Rbar_locally m_infty) (Rbar_locally p_infty) 1.
Proof. exact flow_density_integrates_to_one_decreasing. Qed.
Print Assumptions C04_flow_density_integrates_to_one_decreasing.

(* both, for the class of maps the layers belong to *)
Theorem C04_diffeo_density_integrates : forall (P p S S' : R -> R) (up : bool),
  (forall z, is_derive P z (p z)) -> (forall z, continuous p z) ->
  filterlim P (Rbar_locally m_infty) (locally 0) -> filterlim P (Rbar_locally p_infty) (locally 1) ->
  diffeo S S' up ->
  is_RInt_gen (fun x => p (S x) * Rabs (S' x)) (Rbar_locally m_infty) (Rbar_locally p_infty) 1.
Proof. exact diffeo_density_integrates. Qed.
Print Assumptions C04_diffeo_density_integrates.

(* closure of the class: composition (Chain) and inverse (Invert; an inverse function theorem) *)
Theorem C04_diffeo_comp : forall (f f' g g' : R -> R) (u v : bool), diffeo f f' u -> diffeo g g' v ->
  diffeo (fun x => g (f x)) (fun x => g' (f x) * f' x) (Bool.eqb u v).
Proof. exact diffeo_comp. Qed.
Print Assumptions C04_diffeo_comp.
Theorem C04_diffeo_inverse : forall (f f' g : R -> R) (up : bool), diffeo f f' up ->
  (forall x, g (f x) = x) -> (forall y, f (g y) = y) -> diffeo g (fun y => / f' (g y)) up.
Proof. exact diffeo_inverse. Qed.
Print Assumptions C04_diffeo_inverse.

(* the layers: Affine with ANY non-zero scale, LeakyTanh with the constructor's fields *)
Theorem C04_affine_onto : forall loc s : R, s <> 0 -> sflow (affine_layer loc s).
Proof. exact sflow_affine. Qed.
Print Assumptions C04_affine_onto.
Theorem C04_leaky_tanh_onto : forall m : R, 0 < m -> sflow (leaky_layer m).
Proof. exact sflow_leaky. Qed.
Print Assumptions C04_leaky_tanh_onto.
(* every 1-D expression over those leaves, any depth of Chain / Invert *)
Theorem C04_expression_onto : forall b : bexpr R, onto1 b -> sflow (slayer b).
Proof. exact sflow_expr. Qed.
Print Assumptions C04_expression_onto.

(* THE 1-D statement on the model the correspondence check ties to the code: exp(log_prob) integrates to one.
   Hypothesis: the base density has a primitive with limits 0 and 1 (existence of the normal CDF is not proved here). *)
Theorem C04_flow_1d_integrates_to_one_partial : forall (f : fam) (P : R -> R) (b : bexpr R),
  (forall z, is_derive P z (exp (fam_logpdf ROps f z))) ->
  filterlim P (Rbar_locally m_infty) (locally 0) -> filterlim P (Rbar_locally p_infty) (locally 1) ->
  onto1 b ->
  is_RInt_gen (fun x => exp (logp ROps (DTrans (DBase f) b) [x])) (Rbar_locally m_infty) (Rbar_locally p_infty) 1.
Proof. exact flow_1d_integrates_to_one. Qed.
Print Assumptions C04_flow_1d_integrates_to_one_partial.

(* an instance with no hypothesis on the base: the standard Gumbel base (CDF exp(-exp(-z)) proved) *)
Theorem C04_gumbel_flow_1d_integrates_to_one : forall b : bexpr R, onto1 b ->
  is_RInt_gen (fun x => exp (logp ROps (DTrans (DBase FGumbel) b) [x])) (Rbar_locally m_infty) (Rbar_locally p_infty) 1.
Proof. exact gumbel_flow_1d_integrates_to_one. Qed.
Print Assumptions C04_gumbel_flow_1d_integrates_to_one.

(* the spline is a bijection of R onto R with identity tails and zero log-det there (its C1 closure lemma is NOT proved) *)
Theorem C04_spline_onto_identity_tails_partial : forall (xp yp dv : list R) (lo hi : R), RqsInvP.rqs_valid xp yp dv lo hi ->
  LeafInvP.bij_on LeafInvP.allR LeafInvP.allR (rqs_fwd ROps xp yp dv lo hi) (rqs_inv ROps xp yp dv lo hi) /\
  (forall x, ~ (lo <= x <= hi) -> rqs_fwd ROps xp yp dv lo hi x = x /\ rqs_ld_fwd ROps xp yp dv lo hi x = 0) /\
  filterlim (rqs_fwd ROps xp yp dv lo hi) (Rbar_locally m_infty) (Rbar_locally m_infty) /\
  filterlim (rqs_fwd ROps xp yp dv lo hi) (Rbar_locally p_infty) (Rbar_locally p_infty).
Proof. exact rqs_onto_identity_tails. Qed.
Print Assumptions C04_spline_onto_identity_tails_partial.

(* ---------------- the piecewise (Chasles) form and the rational-quadratic spline (Proofs/IntSplineP.v) ---------------- *)
(* [pdiffeo f g f' up]: f is a bijection of R onto R (inverse g) glued from finitely many global C1 diffeos at break points
   where consecutive pieces agree; kinks allowed; f' is the piecewise derivative, its value at a break point only has to
   have the right sign.  For every such map the pushed-forward density integrates to one: *)
Theorem C04_piecewise_density_integrates : forall (P p : R -> R),
  (forall z, is_derive P z (p z)) -> (forall z, continuous p z) ->
  filterlim P (Rbar_locally m_infty) (locally 0) -> filterlim P (Rbar_locally p_infty) (locally 1) ->
  forall (f g f' : R -> R) (up : bool), pdiffeo f g f' up ->
  is_RInt_gen (fun x => p (f x) * Rabs (f' x)) (Rbar_locally m_infty) (Rbar_locally p_infty) 1.
Proof. exact pdiffeo_density_integrates. Qed.
Print Assumptions C04_piecewise_density_integrates.
(* ... over every finite interval too (the Chasles induction) *)
Theorem C04_piecewise_interval : forall (P p : R -> R),
  (forall z, is_derive P z (p z)) -> (forall z, continuous p z) ->
  forall (f g f' : R -> R) (up : bool), pdiffeo f g f' up -> forall u v,
  is_RInt (fun x => p (f x) * f' x) u v (P (f v) - P (f u)).
Proof. exact pd_int. Qed.
Print Assumptions C04_piecewise_interval.
(* the class is closed under inverse (break points = images of the break points) and composition *)
Theorem C04_pdiffeo_inverse : forall (f g f' : R -> R) (up : bool),
  pdiffeo f g f' up -> pdiffeo g f (fun y => / f' (g y)) up.
Proof. exact pd_inverse. Qed.
Print Assumptions C04_pdiffeo_inverse.
Theorem C04_pdiffeo_comp : forall (f gf f' : R -> R) (u : bool) (h gh h' : R -> R) (v : bool),
  pdiffeo f gf f' u -> pdiffeo h gh h' v ->
  pdiffeo (fun x => h (f x)) (fun z => gf (gh z)) (fun x => h' (f x) * f' x) (Bool.eqb u v).
Proof. exact pd_comp. Qed.
Print Assumptions C04_pdiffeo_comp.
(* the spline as coded, under rqs_valid, with what derivative() reports as piecewise derivative and the coded inverse *)
Theorem C04_spline_piecewise_diffeo : forall (xp yp dv : list R) (lo hi : R), rqs_valid xp yp dv lo hi ->
  pdiffeo (rqs_fwd ROps xp yp dv lo hi) (rqs_inv ROps xp yp dv lo hi) (rqs_deriv ROps xp yp dv lo hi) true.
Proof. exact rqs_pdiffeo. Qed.
Print Assumptions C04_spline_piecewise_diffeo.
(* every 1-D expression over Affine / Loc / Scale / LeakyTanh / RationalQuadraticSpline, any Chain / Invert nesting *)
Theorem C04_expression_onto_spline : forall b : bexpr R, onto1s b -> psflow (slayer b).
Proof. exact psflow_expr. Qed.
Print Assumptions C04_expression_onto_spline.
(* THE 1-D statement with splines, both orientations; the base CDF is a hypothesis (StandardNormal) ... *)
Theorem C04_flow_1d_spline_integrates_to_one : forall (f : fam) (P : R -> R) (b : bexpr R),
  (forall z, is_derive P z (exp (fam_logpdf ROps f z))) ->
  filterlim P (Rbar_locally m_infty) (locally 0) -> filterlim P (Rbar_locally p_infty) (locally 1) ->
  onto1s b ->
  is_RInt_gen (fun x => exp (logp ROps (DTrans (DBase f) b) [x])) (Rbar_locally m_infty) (Rbar_locally p_infty) 1.
Proof. exact flow_1d_spline_integrates_to_one. Qed.
Print Assumptions C04_flow_1d_spline_integrates_to_one.
(* ... or proved (standard Gumbel) *)
Theorem C04_gumbel_flow_1d_spline_integrates_to_one : forall b : bexpr R, onto1s b ->
  is_RInt_gen (fun x => exp (logp ROps (DTrans (DBase FGumbel) b) [x])) (Rbar_locally m_infty) (Rbar_locally p_infty) 1.
Proof. exact gumbel_flow_1d_spline_integrates_to_one. Qed.
Print Assumptions C04_gumbel_flow_1d_spline_integrates_to_one.

(* why a plain Tanh activation breaks the property: Tanh is not onto R *)
Theorem C04_tanh_not_onto : ~ exists x, tanh_fwd ROps x = 1.
Proof. exact tanh_not_onto. Qed.
Print Assumptions C04_tanh_not_onto.
Theorem C04_tanh_not_diffeo : forall (f' : R -> R) (up : bool), ~ diffeo (tanh_fwd ROps) f' up.
Proof. exact tanh_not_diffeo. Qed.
Print Assumptions C04_tanh_not_diffeo.

(* non-vacuity: a chain with a negative scale, a LeakyTanh and an inverted chain meets [onto1] *)
Example C04_example_onto : onto1 ex_onto.
Proof. exact ex_onto_ok. Qed.
(* ... and with splines that have a kink at both interval ends (end derivatives 3 and 2), one of them inverted *)
Example C04_example_onto_spline : onto1s ex_onto_s.
Proof. exact ex_onto_s_ok. Qed.
Example C04_example_term : ex_onto =
  BChain [BElem [LAffine 1 (-2)]; BElem [LLeaky 3 (leaky_grad ROps 3) (leaky_icpt ROps 3)];
          BInvert (BChain [BElem [LLeaky (/2) (leaky_grad ROps (/2)) (leaky_icpt ROps (/2))]; BElem [LScale 5]])].
Proof. reflexivity. Qed.
