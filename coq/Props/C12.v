(* C12 -- Unwrapping applies every wrapper exactly once; frozen parameters never move.
   Only the property theorems (each closed by [exact]) with their [Print Assumptions], and non-vacuity examples.
   Model: Model/Tree.v (wrappers.unwrap, the five wrapper classes, non_trainable, eqx.partition / combine with the
   training loops' filter, train_utils.step on the two halves, utils.get_ravelled_pytree_constructor).
   Lemmas: Proofs/TreeP.v.

   Part 1 theorems hold for ANY pytree (any depth, width, nesting), any leaf values V, any static payloads, any
   container tags, any set of wrapper classes K and any behaviour [apply] of their .unwrap() -- subject only to the
   stated hypothesis that .unwrap() of a wrapper whose fields contain no wrapper returns a value containing no
   wrapper (proved for the five classes of wrappers.py: C12_wrappers_return_clean; for Lambda it is a condition on
   the user's function, and it is necessary: C12_idempotent_without_clean_refuted).  [unwrap] is partial (a wrapper may
   raise): statements are about the runs that return. *)
From Coq Require Import List ZArith Bool Permutation.
From FJ Require Import Model.Num Model.Tree Proofs.TreeP.
Import ListNotations.

Arguments cleanb {V Sp T K}. Arguments unwrap {V Sp T K}. Arguments unwrap_trace {V Sp T K}.
Arguments wrapper_ids {V Sp T K}. Arguments postorder_ids {V Sp T K}. Arguments run_method {V Sp T K} apply {X Y}.
Arguments part {V Sp T K}. Arguments comb {V Sp T K}. Arguments fit {V Sp T K}. Arguments skel {V Sp T K}.
Arguments subtree_at {V Sp T K}. Arguments trainable_at {V Sp T K}. Arguments is_leaf {V Sp T K}.
Arguments non_trainable {V Sp T K}. Arguments leaves {V Sp T K}. Arguments zt_all {V Sp T K}.
Arguments zt_outside {V Sp T K}.

(* A pytree without wrappers is returned unchanged. *)
Theorem C12_unwrap_no_wrappers :
  forall (V Sp T K : Type) (apply : K -> list (tree V Sp T K) -> option (tree V Sp T K)) (t : tree V Sp T K),
  cleanb t = true -> unwrap apply t = Some t.
Proof. exact unwrap_no_wrappers. Qed.
Print Assumptions C12_unwrap_no_wrappers.

(* unwrap replaces EVERY wrapper node: the result contains none (nested wrappers, wrappers in containers). *)
Theorem C12_unwrap_removes_every_wrapper :
  forall (V Sp T K : Type) (apply : K -> list (tree V Sp T K) -> option (tree V Sp T K)),
  (forall k l u, forallb cleanb l = true -> apply k l = Some u -> cleanb u = true) ->
  forall t u : tree V Sp T K, unwrap apply t = Some u -> cleanb u = true.
Proof. exact unwrap_clean. Qed.
Print Assumptions C12_unwrap_removes_every_wrapper.

Theorem C12_unwrap_idempotent :
  forall (V Sp T K : Type) (apply : K -> list (tree V Sp T K) -> option (tree V Sp T K)),
  (forall k l u, forallb cleanb l = true -> apply k l = Some u -> cleanb u = true) ->
  forall t u : tree V Sp T K, unwrap apply t = Some u -> unwrap apply u = Some u.
Proof. exact unwrap_idempotent. Qed.
Print Assumptions C12_unwrap_idempotent.

(* The hypothesis is needed: a wrapper whose .unwrap() returns a wrapper (Lambda(lambda x: NonTrainable(x), a)) makes
   unwrap non-idempotent.  Replayed on the real code by the harness (reported as a note, not as a violation). *)
Theorem C12_idempotent_without_clean_refuted :
  exists (apply : unit -> list (tree nat nat nat unit) -> option (tree nat nat nat unit)) t u,
    unwrap apply t = Some u /\ unwrap apply u <> Some u.
Proof. exact idempotent_without_clean_refuted. Qed.
Print Assumptions C12_idempotent_without_clean_refuted.

(* Each wrapper exactly once: the trace of .unwrap() calls actually made is a permutation of the wrapper nodes of the
   tree; more precisely it IS the post-order listing: every wrapper after all wrappers nested in its fields. *)
Theorem C12_unwrap_each_once :
  forall (V Sp T K : Type) (apply : K -> list (tree V Sp T K) -> option (tree V Sp T K)) (Id : Type) (id_of : K -> Id)
         (t : tree V Sp T K) (tr : list Id),
  unwrap_trace apply Id id_of t = Some tr -> Permutation tr (wrapper_ids Id id_of t).
Proof. exact unwrap_each_once. Qed.
Print Assumptions C12_unwrap_each_once.

Theorem C12_unwrap_trace_is_postorder :
  forall (V Sp T K : Type) (apply : K -> list (tree V Sp T K) -> option (tree V Sp T K)) (Id : Type) (id_of : K -> Id)
         (t : tree V Sp T K) (tr : list Id),
  unwrap_trace apply Id id_of t = Some tr -> tr = postorder_ids Id id_of t.
Proof. exact unwrap_trace_postorder. Qed.
Print Assumptions C12_unwrap_trace_is_postorder.

Theorem C12_unwrap_inside_out :
  forall (V Sp T K : Type) (apply : K -> list (tree V Sp T K) -> option (tree V Sp T K)) (Id : Type) (id_of : K -> Id)
         (k : K) (l : list (tree V Sp T K)) (tr : list Id),
  unwrap_trace apply Id id_of (W k l) = Some tr ->
  exists tr', tr = tr' ++ [id_of k] /\ Permutation tr' (flat_map (wrapper_ids Id id_of) l).
Proof. exact unwrap_inside_out. Qed.
Print Assumptions C12_unwrap_inside_out.

(* the instrumented unwrap is the same function: it is defined whenever unwrap is *)
Theorem C12_unwrap_trace_defined :
  forall (V Sp T K : Type) (apply : K -> list (tree V Sp T K) -> option (tree V Sp T K)) (Id : Type) (id_of : K -> Id)
         (t u : tree V Sp T K),
  unwrap apply t = Some u -> exists tr, unwrap_trace apply Id id_of t = Some tr.
Proof. exact unwrap_trace_defined. Qed.
Print Assumptions C12_unwrap_trace_defined.

(* Methods unwrap self first (bijection._unwrap_check_and_cast, distribution methods, losses): a caller who
   unwrapped first gets the same result from any method body m. *)
Theorem C12_method_unwrap_invariant :
  forall (V Sp T K : Type) (apply : K -> list (tree V Sp T K) -> option (tree V Sp T K)),
  (forall k l u, forallb cleanb l = true -> apply k l = Some u -> cleanb u = true) ->
  forall (X Y : Type) (m : tree V Sp T K -> X -> Y) (self u : tree V Sp T K) (x : X),
  unwrap apply self = Some u -> run_method apply m u x = run_method apply m self x.
Proof. exact method_unwrap_invariant. Qed.
Print Assumptions C12_method_unwrap_invariant.

(* ---- partition / combine with the training loops' filter ---- *)
Theorem C12_combine_partition :
  forall (V Sp T K : Type) (is_nt : K -> bool) (t : tree V Sp T K),
  comb (fst (part is_nt t)) (snd (part is_nt t)) = t.
Proof. exact comb_part. Qed.
Print Assumptions C12_combine_partition.

(* A leaf that is not a trainable one -- below a NonTrainable, or not an inexact array -- is in the static half (at the
   same position) and the params half has nothing there. *)
Theorem C12_frozen_static :
  forall (V Sp T K : Type) (is_nt : K -> bool) (p : list nat) (t x : tree V Sp T K),
  subtree_at p t = Some x -> is_leaf x = true -> trainable_at is_nt p t = false ->
  subtree_at p (snd (part is_nt t)) = Some x /\
  (forall y, subtree_at p (fst (part is_nt t)) = Some y -> y = Hole).
Proof. exact part_at_static. Qed.
Print Assumptions C12_frozen_static.

Theorem C12_trainable_params :
  forall (V Sp T K : Type) (is_nt : K -> bool) (p : list nat) (t x : tree V Sp T K),
  subtree_at p t = Some x -> is_leaf x = true -> trainable_at is_nt p t = true ->
  subtree_at p (fst (part is_nt t)) = Some x /\ subtree_at p (snd (part is_nt t)) = Some Hole.
Proof. exact part_at_trainable. Qed.
Print Assumptions C12_trainable_params.

(* ANY optimiser -- any sequence, of any length, of functions on the params half that keep its structure (optax
   updates + eqx.apply_updates do) --: the returned model re-partitions into exactly what the optimiser produced
   and the ORIGINAL static half.  Both loops; return_best returns some prefix's result, which is covered. *)
Theorem C12_training_preserves_static :
  forall (V Sp T K : Type) (is_nt : K -> bool) (upds : list (tree V Sp T K -> tree V Sp T K)) (t : tree V Sp T K),
  (forall u, In u upds -> forall q, skel (u q) = skel q) ->
  part is_nt (fit is_nt upds t) = (fold_left (fun p u => u p) upds (fst (part is_nt t)), snd (part is_nt t)).
Proof. exact training_preserves_static. Qed.
Print Assumptions C12_training_preserves_static.

(* ... hence every frozen and every non-floating-point leaf is found unchanged at its position after training. *)
Theorem C12_frozen_leaf_unchanged :
  forall (V Sp T K : Type) (is_nt : K -> bool) (upds : list (tree V Sp T K -> tree V Sp T K)) (t : tree V Sp T K)
         (p : list nat) (x : tree V Sp T K),
  (forall u, In u upds -> forall q, skel (u q) = skel q) ->
  subtree_at p t = Some x -> is_leaf x = true -> trainable_at is_nt p t = false ->
  subtree_at p (fit is_nt upds t) = Some x.
Proof. exact frozen_leaf_unchanged. Qed.
Print Assumptions C12_frozen_leaf_unchanged.

(* wrappers.non_trainable freezes everything and does not change what unwrap returns *)
Theorem C12_non_trainable_freezes_all :
  forall (V Sp T K : Type) (is_nt : K -> bool) (nt_label : K), is_nt nt_label = true ->
  forall t : tree V Sp T K, leaves (fst (part is_nt (non_trainable is_nt nt_label t))) = [].
Proof. exact non_trainable_nothing_trainable. Qed.
Print Assumptions C12_non_trainable_freezes_all.

Theorem C12_non_trainable_unwrap :
  forall (V Sp T K : Type) (is_nt : K -> bool) (nt_label : K) (apply : K -> list (tree V Sp T K) -> option (tree V Sp T K)),
  (forall x, apply nt_label [x] = Some x) ->
  forall t : tree V Sp T K, unwrap apply (non_trainable is_nt nt_label t) = unwrap apply t.
Proof. exact non_trainable_unwrap. Qed.
Print Assumptions C12_non_trainable_unwrap.

(* ---- the extracted instance: the five classes of wrappers.py, values over any NumOps ---- *)
Theorem C12_wrappers_return_clean :
  forall (A : Type) (O : NumOps A) (Sp T : Type) (bij_of : T -> option (bcls * list nat)) (fn_of : Sp -> option fid)
         (tuple_tag : T) (k : wlabel) (l : list (@vtree A Sp T)) (u : @vtree A Sp T),
  forallb cleanb l = true -> wapply O Sp T bij_of fn_of tuple_tag k l = Some u -> cleanb u = true.
Proof. exact @wapply_clean. Qed.
Print Assumptions C12_wrappers_return_clean.

Theorem C12_unwrap_num_idempotent :
  forall (A : Type) (O : NumOps A) (Sp T : Type) (bij_of : T -> option (bcls * list nat)) (fn_of : Sp -> option fid)
         (tuple_tag : T) (t u : @vtree A Sp T),
  unwrap_num O Sp T bij_of fn_of tuple_tag t = Some u ->
  unwrap_num O Sp T bij_of fn_of tuple_tag u = Some u /\ cleanb u = true.
Proof. exact @unwrap_num_idempotent_clean. Qed.
Print Assumptions C12_unwrap_num_idempotent.

Theorem C12_unwrap_num_each_once :
  forall (A : Type) (O : NumOps A) (Sp T : Type) (bij_of : T -> option (bcls * list nat)) (fn_of : Sp -> option fid)
         (tuple_tag : T) (t : @vtree A Sp T) (tr : list wlabel),
  unwrap_trace_num O Sp T bij_of fn_of tuple_tag t = Some tr ->
  tr = postorder_ids wlabel (fun k => k) t /\ Permutation tr (wrapper_ids wlabel (fun k => k) t).
Proof. exact @unwrap_num_each_once. Qed.
Print Assumptions C12_unwrap_num_each_once.

(* Wrappers constructed under eqx.filter_vmap (BijectionReparam, Where, Lambda: their integer _dummy array then has a leading axis
   of size n): unwrapping gives the STACK over i of the unwrapped i-th slice (every array field sliced along axis 0, other
   fields shared).  The slices carry the remaining batch axes, so iterating this equation covers any number of levels. *)
Theorem C12_unwrap_vmapped :
  forall (A : Type) (O : NumOps A) (Sp T : Type) (bij_of : T -> option (bcls * list nat)) (fn_of : Sp -> option fid)
         (tuple_tag : T) (k : wlabel) (l : list (@vtree A Sp T)) (kd : akind) (d : tensor A) (n : nat) (sh : list nat),
  dummy_of Sp T k l = Some (kd, d) -> is_array kd = true -> tshape d = n :: sh ->
  wapply O Sp T bij_of fn_of tuple_tag k l =
  match mapM (fun i => match mapM (slice_tree Sp T i) l with
                       | Some li => wapply O Sp T bij_of fn_of tuple_tag k li
                       | None => None
                       end) (seq 0 n) with
  | Some (r0 :: rs) => Some (stack_like Sp T n r0 (r0 :: rs))
  | _ => None
  end.
Proof. exact @wapply_vmapped. Qed.
Print Assumptions C12_unwrap_vmapped.

(* conditioners (get_ravelled_pytree_constructor): the number of parameters is the number of inexact array elements
   not below a NonTrainable; whatever vector the conditioner outputs, the constructed transformer re-partitions into
   the ORIGINAL static half (frozen leaves are not parameterised); the zero vector gives the initial pytree *)
Theorem C12_conditioner_excludes_frozen :
  forall (A Sp T : Type) (t : @vtree A Sp T), n_params Sp T t = count_trainable Sp T t.
Proof. exact @n_params_spec. Qed.
Print Assumptions C12_conditioner_excludes_frozen.

Theorem C12_constructor_keeps_static :
  forall (A : Type) (O : NumOps A) (Sp T : Type) (t : @vtree A Sp T) (r : list A),
  snd (part_num Sp T (ctor O Sp T t r)) = snd (part_num Sp T t).
Proof. exact @ctor_static_snd. Qed.
Print Assumptions C12_constructor_keeps_static.

Theorem C12_constructor_at_zero :
  forall (A : Type) (O : NumOps A) (Sp T : Type) (z : A) (t : @vtree A Sp T),
  (forall x, n_add O z x = x) -> ctor O Sp T t (repeat z (n_params Sp T t)) = t.
Proof. exact @ctor_zero. Qed.
Print Assumptions C12_constructor_at_zero.

Theorem C12_non_trainable_num :
  forall (A : Type) (O : NumOps A) (Sp T : Type) (bij_of : T -> option (bcls * list nat)) (fn_of : Sp -> option fid)
         (tuple_tag : T) (t : @vtree A Sp T),
  unwrap_num O Sp T bij_of fn_of tuple_tag (non_trainable_num Sp T t) = unwrap_num O Sp T bij_of fn_of tuple_tag t /\
  n_params Sp T (non_trainable_num Sp T t) = 0.
Proof. exact @non_trainable_num_spec. Qed.
Print Assumptions C12_non_trainable_num.

(* ---- gradient (PARTIAL) ----
   Full statement of the property: "leaves marked non-trainable receive exactly zero gradient" under JAX's reverse-mode
   AD of the real loss.  Proved here only in an abstract tangent model: [Zt v] = "v carries a zero tangent"; assuming
   (a) NonTrainable.unwrap returns zero tangents (lax.stop_gradient) and (b) every other wrapper maps zero tangents
   to zero tangents (the JVP rule of any function), a perturbation supported on frozen leaves only leaves NO tangent
   anywhere in unwrap(t), so no method / loss evaluated on it has a derivative in that direction.  Missing: JAX's
   AD itself (a, b are hypotheses) and the loss.  The exact-zero gradient is checked on the real code by the harness. *)
Theorem C12_frozen_zero_tangent_partial :
  forall (V Sp T K : Type) (is_nt : K -> bool) (apply : K -> list (tree V Sp T K) -> option (tree V Sp T K))
         (Zt : V -> Prop),
  (forall k l u, is_nt k = true -> apply k l = Some u -> zt_all Zt u) ->
  (forall k l u, is_nt k = false -> Forall (zt_all Zt) l -> apply k l = Some u -> zt_all Zt u) ->
  forall t : tree V Sp T K, zt_outside is_nt Zt t -> forall u, unwrap apply t = Some u -> zt_all Zt u.
Proof. exact frozen_zero_tangent. Qed.
Print Assumptions C12_frozen_zero_tangent_partial.

(* ---- non-vacuity: a concrete nested tree over the toy NumOps on Z ---- *)
Example C12_example_unwrap :
  unwrap_num ZOps nat nat ex_bij_of ex_fn_of 0 ex_tree = Some ex_unwrapped /\
  unwrap_trace_num ZOps nat nat ex_bij_of ex_fn_of 0 ex_tree = Some ex_trace /\
  cleanb ex_tree = false /\ cleanb ex_unwrapped = true.
Proof. vm_compute. repeat split; reflexivity. Qed.
Example C12_example_vmapped :
  unwrap_num ZOps nat nat ex_bij_of ex_fn_of 0
    (W (1%Z, Lambda) [Static 0; Node 0 [Arr KFloat (mkT [2; 2] [1; 2; 3; 4]%Z)]; Node 1 []; Arr KInt (mkT [2] [0; 0]%Z)])
  = Some (Arr KFloat (mkT [2; 2] [2; 3; 4; 5]%Z)).
Proof. vm_compute. reflexivity. Qed.
Example C12_example_partition :
  part_num nat nat ex_tree = (ex_params, ex_static) /\ n_params nat nat ex_tree = 2 /\
  trainable_at is_nt [1; 1] ex_tree = false /\ trainable_at is_nt [0] ex_tree = true.
Proof. vm_compute. repeat split; reflexivity. Qed.
Example C12_example_fit :
  snd (part_num nat nat (fit_shift ZOps nat nat [5%Z; 7%Z] ex_tree)) = ex_static /\
  fit_shift ZOps nat nat [5%Z; 7%Z] ex_tree <> ex_tree.
Proof. vm_compute. split; [reflexivity | discriminate]. Qed.
